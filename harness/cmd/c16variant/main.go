// c16variant rewrites Go source files into semantics-preserving variants, by inserting
// text at offsets taken from the AST (everything else stays byte-identical):
//
//	parens  redundant parentheses around operands, arguments, right-hand sides, conditions
//	breaks  line breaks / comments inside expressions (after binary operators, after the
//	        opening parenthesis of calls)
//	rename  every plain import gets an explicit, different local name; uses follow
//	crlf    CRLF line endings
//
// stdin: lines "kind<TAB>seed<TAB>src<TAB>dst"; stdout: one line per input "ok n" (n =
// number of insertions) or "same <why>" (file copied unchanged).
package main

import (
	"bufio"
	"bytes"
	"fmt"
	"go/ast"
	"go/parser"
	"go/token"
	"os"
	"path/filepath"
	"sort"
	"strconv"
	"strings"
)

type rng struct{ s uint64 }

func (r *rng) next() uint64 {
	r.s += 0x9E3779B97F4A7C15
	z := r.s
	z = (z ^ (z >> 30)) * 0xBF58476D1CE4E5B9
	z = (z ^ (z >> 27)) * 0x94D049BB133111EB
	return z ^ (z >> 31)
}
func (r *rng) chance(num, den uint64) bool { return r.next()%den < num }

type ins struct {
	off  int
	text string
	seq  int
}

func isTypeNode(e ast.Expr) bool {
	switch e := e.(type) {
	case *ast.ArrayType, *ast.MapType, *ast.ChanType, *ast.FuncType, *ast.StructType, *ast.InterfaceType, *ast.Ellipsis:
		return true
	case *ast.StarExpr:
		return isTypeNode(e.X)
	}
	return false
}

func wrappable(e ast.Expr) bool {
	if e == nil || isTypeNode(e) {
		return false
	}
	switch e := e.(type) {
	case *ast.Ident:
		return e.Name != "_"
	case *ast.CompositeLit:
		return e.Type != nil
	case *ast.TypeAssertExpr:
		return e.Type != nil
	case *ast.KeyValueExpr, *ast.BadExpr:
		return false
	}
	return true
}

func parens(f *ast.File, tf *token.File, r *rng) []ins {
	var out []ins
	skip := map[ast.Node]bool{}
	add := func(e ast.Expr) {
		if !wrappable(e) || skip[e] || !r.chance(1, 3) {
			return
		}
		out = append(out, ins{tf.Offset(e.Pos()), "(", 0}, ins{tf.Offset(e.End()), ")", 0})
	}
	ast.Inspect(f, func(n ast.Node) bool {
		switch n := n.(type) {
		case *ast.TypeSwitchStmt:
			if as, ok := n.Assign.(*ast.AssignStmt); ok {
				for _, x := range as.Rhs {
					skip[x] = true
				}
			}
			if es, ok := n.Assign.(*ast.ExprStmt); ok {
				skip[es.X] = true
			}
		case *ast.BinaryExpr:
			add(n.X)
			add(n.Y)
		case *ast.UnaryExpr:
			add(n.X)
		case *ast.CallExpr:
			for _, a := range n.Args {
				add(a)
			}
		case *ast.ReturnStmt:
			for _, a := range n.Results {
				add(a)
			}
		case *ast.AssignStmt:
			for _, a := range n.Rhs {
				add(a)
			}
		case *ast.IfStmt:
			add(n.Cond)
		case *ast.IndexExpr:
			add(n.Index)
		case *ast.SendStmt:
			add(n.Value)
		case *ast.KeyValueExpr:
			add(n.Value)
		case *ast.GenDecl:
			// leave type declarations, imports alone; const/var values are handled via ValueSpec
			if n.Tok == token.TYPE || n.Tok == token.IMPORT {
				return false
			}
		case *ast.ValueSpec:
			for _, a := range n.Values {
				add(a)
			}
		case *ast.Field, *ast.FuncType, *ast.StructType, *ast.InterfaceType, *ast.ArrayType, *ast.MapType, *ast.ChanType:
			return false
		}
		return true
	})
	return out
}

func breaks(f *ast.File, tf *token.File, r *rng) []ins {
	var out []ins
	pick := func() string {
		switch r.next() % 3 {
		case 0:
			return "\n"
		case 1:
			return " /* c */ "
		default:
			return " // c\n"
		}
	}
	ast.Inspect(f, func(n ast.Node) bool {
		switch n := n.(type) {
		case *ast.GenDecl:
			if n.Tok == token.TYPE || n.Tok == token.IMPORT {
				return false
			}
		case *ast.Field, *ast.FuncType, *ast.StructType, *ast.InterfaceType:
			return false
		case *ast.BinaryExpr:
			if r.chance(1, 2) {
				out = append(out, ins{tf.Offset(n.OpPos) + len(n.Op.String()), pick(), 0})
			}
		case *ast.CallExpr:
			if len(n.Args) > 0 && n.Lparen.IsValid() && r.chance(1, 3) {
				out = append(out, ins{tf.Offset(n.Lparen) + 1, pick(), 0})
			}
		}
		return true
	})
	return out
}

func isIdent(s string) bool {
	if s == "" || s == "_" {
		return false
	}
	for i, c := range s {
		if !(c == '_' || c >= 'a' && c <= 'z' || c >= 'A' && c <= 'Z' || i > 0 && c >= '0' && c <= '9') {
			return false
		}
	}
	return token.Lookup(s) == token.IDENT
}

func rename(f *ast.File, tf *token.File, src []byte, r *rng) []ins {
	var out []ins
	ren := map[string]string{}
	used := map[string]bool{}
	ast.Inspect(f, func(n ast.Node) bool {
		if id, ok := n.(*ast.Ident); ok {
			used[id.Name] = true
		}
		return true
	})
	for _, is := range f.Imports {
		if is.Name != nil {
			continue
		}
		p, err := strconv.Unquote(is.Path.Value)
		if err != nil || p == "C" || p == "unsafe" {
			continue
		}
		base := p[strings.LastIndex(p, "/")+1:]
		if !isIdent(base) {
			continue
		}
		// only std-looking paths: the package name of others is not known syntactically
		if strings.Contains(strings.SplitN(p, "/", 2)[0], ".") {
			continue
		}
		if strings.HasPrefix(base, "v") && len(base) > 1 && base[1] >= '0' && base[1] <= '9' {
			continue // math/rand/v2 and friends: package name is not the base
		}
		nn := "v" + base
		for used[nn] {
			nn += "_"
		}
		used[nn] = true
		ren[base] = nn
		out = append(out, ins{tf.Offset(is.Path.Pos()), nn + " ", 0})
	}
	if len(ren) == 0 {
		return nil
	}
	ast.Inspect(f, func(n ast.Node) bool {
		se, ok := n.(*ast.SelectorExpr)
		if !ok {
			return true
		}
		id, ok := se.X.(*ast.Ident)
		if !ok || id.Obj != nil {
			return true
		}
		if nn, ok := ren[id.Name]; ok {
			// replace = delete old name + insert new: encode as an insertion with negative marker
			out = append(out, ins{tf.Offset(id.Pos()), "\x00" + strconv.Itoa(len(id.Name)) + "\x00" + nn, 0})
		}
		return true
	})
	return out
}

func apply(src []byte, is []ins) []byte {
	for i := range is {
		is[i].seq = i
	}
	sort.SliceStable(is, func(i, j int) bool { return is[i].off < is[j].off })
	var out []byte
	last := 0
	for _, x := range is {
		if x.off < last {
			continue
		}
		out = append(out, src[last:x.off]...)
		last = x.off
		if strings.HasPrefix(x.text, "\x00") {
			parts := strings.SplitN(x.text[1:], "\x00", 2)
			n, _ := strconv.Atoi(parts[0])
			out = append(out, parts[1]...)
			last = x.off + n
		} else {
			out = append(out, x.text...)
		}
	}
	out = append(out, src[last:]...)
	return out
}

func transform(kind string, seed uint64, src []byte, name string) ([]byte, string) {
	if bytes.Contains(src, []byte("//line ")) || bytes.Contains(src, []byte("/*line ")) {
		return src, "same line-directive"
	}
	if bytes.Contains(src, []byte("import \"C\"")) {
		return src, "same cgo"
	}
	if kind == "crlf" {
		if bytes.Contains(src, []byte("\r")) {
			return src, "same has-cr"
		}
		return bytes.ReplaceAll(src, []byte("\n"), []byte("\r\n")), fmt.Sprintf("ok %d", bytes.Count(src, []byte("\n")))
	}
	fset := token.NewFileSet()
	mode := parser.ParseComments
	if kind != "rename" {
		mode |= parser.SkipObjectResolution
	}
	f, err := parser.ParseFile(fset, name, src, mode)
	if err != nil {
		return src, "same parse-error"
	}
	tf := fset.File(f.Pos())
	r := &rng{seed}
	var is []ins
	switch kind {
	case "parens":
		is = parens(f, tf, r)
	case "breaks":
		is = breaks(f, tf, r)
	case "rename":
		is = rename(f, tf, src, r)
	default:
		return src, "same unknown-kind"
	}
	if len(is) == 0 {
		return src, "same nothing-to-do"
	}
	out := apply(src, is)
	if _, err := parser.ParseFile(token.NewFileSet(), name, out, parser.SkipObjectResolution); err != nil {
		return src, "same variant-does-not-parse"
	}
	return out, fmt.Sprintf("ok %d", len(is))
}

func main() {
	in := bufio.NewScanner(os.Stdin)
	in.Buffer(make([]byte, 1<<20), 1<<24)
	w := bufio.NewWriter(os.Stdout)
	defer w.Flush()
	for in.Scan() {
		parts := strings.Split(in.Text(), "\t")
		if len(parts) != 4 {
			fmt.Fprintln(w, "bad-line")
			continue
		}
		seed, _ := strconv.ParseUint(parts[1], 10, 64)
		src, err := os.ReadFile(parts[2])
		if err != nil {
			fmt.Fprintln(w, "error "+err.Error())
			continue
		}
		// per-file seed: mix in the base name so files of one run differ
		for _, c := range []byte(filepath.Base(parts[2])) {
			seed = seed*1099511628211 + uint64(c)
		}
		out, status := transform(parts[0], seed, src, parts[2])
		os.MkdirAll(filepath.Dir(parts[3]), 0o755)
		if err := os.WriteFile(parts[3], out, 0o644); err != nil {
			fmt.Fprintln(w, "error "+err.Error())
			continue
		}
		fmt.Fprintln(w, status)
	}
}
