// c08match is the C08 harness: inside one real analysis pass (the analyzers of
// code.RequiredAnalyzers = inspect + typeindex, run on a package type-checked here) it
// computes, for every (pattern, package) pair, both
//
//	filtered = what code.Matches yields (entry kinds / symbol index / root call sites), and
//	brute    = pattern matching tried on every syntax node of every file (code.Match),
//
// and prints both as canonical match sets (normalised node + sorted bindings).  It also
// prints what the real parser computed for each pattern (EntryNodes, SymbolsPattern,
// RootCallSymbols, the Root tree) and the node-kind tables of the parser, obtained through
// the exported API only (Parser.Parse on one probe pattern per node name).
//
// usage: c08match <job.json>     (see checks/c08.py for the job format)
package main

import (
	"bufio"
	"encoding/hex"
	"encoding/json"
	"fmt"
	"go/ast"
	"go/importer"
	"go/parser"
	"go/token"
	"go/types"
	"os"
	"reflect"
	"regexp"
	"sort"
	"strings"
	"sync"

	"golang.org/x/tools/go/analysis"
	"honnef.co/go/tools/analysis/code"
	"honnef.co/go/tools/pattern"
)

type jobPkg struct {
	ID    string            `json:"id"`
	Path  string            `json:"path"`
	Files map[string]string `json:"files"`
}

type job struct {
	Packages []jobPkg `json:"packages"` // in dependency order
	Patterns []string `json:"patterns"`
	Analyse  []string `json:"analyse"` // ids of packages to analyse (default: all)
	Pairs    [][2]int `json:"pairs"`   // optional (pattern index, analyse index) pairs; default all x all
	Tables   bool     `json:"tables"`
}

// ---------------------------------------------------------------- loading

type localImporter struct {
	mu    sync.Mutex
	local map[string]*types.Package
	src   types.Importer
}

func (l *localImporter) Import(path string) (*types.Package, error) {
	l.mu.Lock()
	defer l.mu.Unlock()
	if p, ok := l.local[path]; ok {
		return p, nil
	}
	return l.src.Import(path)
}

type loaded struct {
	id    string
	fset  *token.FileSet
	files []*ast.File
	pkg   *types.Package
	info  *types.Info
	pass  *analysis.Pass
}

func load(fset *token.FileSet, imp *localImporter, jp jobPkg) (*loaded, error) {
	var names []string
	for n := range jp.Files {
		names = append(names, n)
	}
	sort.Strings(names)
	var files []*ast.File
	for _, n := range names {
		f, err := parser.ParseFile(fset, jp.ID+"/"+n, jp.Files[n], parser.ParseComments|parser.SkipObjectResolution)
		if err != nil {
			return nil, fmt.Errorf("parse %s/%s: %v", jp.ID, n, err)
		}
		files = append(files, f)
	}
	info := &types.Info{
		Types:        map[ast.Expr]types.TypeAndValue{},
		Defs:         map[*ast.Ident]types.Object{},
		Uses:         map[*ast.Ident]types.Object{},
		Implicits:    map[ast.Node]types.Object{},
		Instances:    map[*ast.Ident]types.Instance{},
		Scopes:       map[ast.Node]*types.Scope{},
		Selections:   map[*ast.SelectorExpr]*types.Selection{},
		FileVersions: map[*ast.File]string{},
	}
	conf := types.Config{Importer: imp, Sizes: types.SizesFor("gc", "amd64")}
	pkg, err := conf.Check(jp.Path, fset, files, info)
	if err != nil {
		return nil, fmt.Errorf("typecheck %s: %v", jp.ID, err)
	}
	imp.mu.Lock()
	imp.local[jp.Path] = pkg
	imp.mu.Unlock()
	l := &loaded{id: jp.ID, fset: fset, files: files, pkg: pkg, info: info}
	// one real pass: run the analyzers code.Matches requires, in dependency order
	pass := &analysis.Pass{
		Analyzer:   &analysis.Analyzer{Name: "c08", Requires: code.RequiredAnalyzers},
		Fset:       fset,
		Files:      files,
		Pkg:        pkg,
		TypesInfo:  info,
		TypesSizes: conf.Sizes,
		ResultOf:   map[*analysis.Analyzer]any{},
		Report:     func(analysis.Diagnostic) {},
	}
	var runA func(a *analysis.Analyzer) error
	runA = func(a *analysis.Analyzer) error {
		if _, ok := pass.ResultOf[a]; ok {
			return nil
		}
		for _, r := range a.Requires {
			if err := runA(r); err != nil {
				return err
			}
		}
		p2 := *pass
		p2.Analyzer = a
		res, err := a.Run(&p2)
		if err != nil {
			return err
		}
		pass.ResultOf[a] = res
		return nil
	}
	for _, a := range code.RequiredAnalyzers {
		if err := runA(a); err != nil {
			return nil, fmt.Errorf("analyzer %s on %s: %v", a.Name, jp.ID, err)
		}
	}
	l.pass = pass
	return l, nil
}

// ---------------------------------------------------------------- serialisation of pattern trees

func hx(s string) string {
	if s == "" {
		return "-"
	}
	return hex.EncodeToString([]byte(s))
}

// ser prints a pattern.Node tree in prefix form (see Verif/C08/Driver.lean: parsePat).
func ser(n any, out *[]string) {
	if n == nil {
		*out = append(*out, "0")
		return
	}
	switch v := n.(type) {
	case pattern.Any:
		*out = append(*out, "A")
	case pattern.Nil:
		*out = append(*out, "Z")
	case pattern.String:
		*out = append(*out, "S", hx(string(v)))
	case pattern.Token:
		*out = append(*out, "T", fmt.Sprint(int(v)))
	case pattern.Binding:
		*out = append(*out, "B", hx(v.Name))
		ser(v.Node, out)
	case pattern.Or:
		*out = append(*out, "O", fmt.Sprint(len(v.Nodes)))
		for _, c := range v.Nodes {
			ser(c, out)
		}
	case pattern.And:
		*out = append(*out, "&", fmt.Sprint(len(v.Nodes)))
		for _, c := range v.Nodes {
			ser(c, out)
		}
	case pattern.Not:
		*out = append(*out, "!")
		ser(v.Node, out)
	case pattern.List:
		*out = append(*out, "L")
		ser(v.Head, out)
		ser(v.Tail, out)
	case pattern.IndexSymbol:
		*out = append(*out, "I", hx(v.Path), hx(v.Type), hx(v.Ident))
	default:
		rv := reflect.ValueOf(n)
		if rv.Kind() != reflect.Struct {
			*out = append(*out, "?"+fmt.Sprintf("%T", n))
			return
		}
		*out = append(*out, "N", rv.Type().Name(), fmt.Sprint(rv.NumField()))
		for i := 0; i < rv.NumField(); i++ {
			ser(rv.Field(i).Interface(), out)
		}
	}
}

func serStr(n any) string {
	var out []string
	ser(n, &out)
	return strings.Join(out, " ")
}

// symbolStrings returns the strings found below Symbol nodes.
func symbolStrings(n any, inSym bool, out *[]string) {
	if n == nil {
		return
	}
	switch v := n.(type) {
	case pattern.String:
		if inSym {
			*out = append(*out, string(v))
		}
	case pattern.Binding:
		symbolStrings(v.Node, inSym, out)
	case pattern.Or:
		for _, c := range v.Nodes {
			symbolStrings(c, inSym, out)
		}
	case pattern.Not:
		symbolStrings(v.Node, inSym, out)
	case pattern.List:
		symbolStrings(v.Head, inSym, out)
		symbolStrings(v.Tail, inSym, out)
	case pattern.Symbol:
		symbolStrings(v.Name, true, out)
	default:
		rv := reflect.ValueOf(n)
		if rv.Kind() != reflect.Struct {
			return
		}
		for i := 0; i < rv.NumField(); i++ {
			if rv.Field(i).CanInterface() {
				symbolStrings(rv.Field(i).Interface(), inSym, out)
			}
		}
	}
}

func kindOf(n ast.Node) string {
	t := reflect.TypeOf(n)
	if t.Kind() == reflect.Pointer {
		t = t.Elem()
	}
	return t.Name()
}

// ---------------------------------------------------------------- node-kind tables through the real parser

var astNodeNames = []string{
	"ArrayType", "AssignStmt", "BadDecl", "BadExpr", "BadStmt", "BasicLit", "BinaryExpr", "BlockStmt",
	"BranchStmt", "CallExpr", "CaseClause", "ChanType", "CommClause", "Comment", "CommentGroup",
	"CompositeLit", "DeclStmt", "DeferStmt", "Ellipsis", "EmptyStmt", "ExprStmt", "Field", "FieldList",
	"File", "ForStmt", "FuncDecl", "FuncLit", "FuncType", "GenDecl", "GoStmt", "Ident", "IfStmt",
	"ImportSpec", "IncDecStmt", "IndexExpr", "IndexListExpr", "InterfaceType", "KeyValueExpr",
	"LabeledStmt", "MapType", "Package", "ParenExpr", "RangeStmt", "ReturnStmt", "SelectStmt",
	"SelectorExpr", "SendStmt", "SliceExpr", "StarExpr", "StructType", "SwitchStmt", "TypeAssertExpr",
	"TypeSpec", "TypeSwitchStmt", "UnaryExpr", "ValueSpec",
}

var extraNodeNames = []string{"Any", "List", "Binding", "Builtin", "Object", "Symbol", "Or", "Not",
	"IntegerLiteral", "TrulyConstantExpression", "Nil", "String", "Token", "And", "IndexSymbol"}

var arityRe = regexp.MustCompile(`with (\d+) values, expected (\d+)`)

type probeResult struct {
	Known   bool     `json:"known"`   // the parser knows a node of this name
	Arity   int      `json:"arity"`   // number of operands (-1: variadic / accepts zero)
	Entry   []string `json:"entry"`   // EntryNodes of the probe pattern (sorted kinds)
	Panic   string   `json:"panic"`   // parser panicked on the probe pattern
	Probe   string   `json:"probe"`   // the probe pattern
	IsASTNm bool     `json:"is_ast"`  // the name is a go/ast node type
	Err     string   `json:"err"`
}

func parsePat(s string) (p pattern.Pattern, err error, pnc string) {
	defer func() {
		if r := recover(); r != nil {
			pnc = fmt.Sprint(r)
		}
	}()
	ps := &pattern.Parser{AllowTypeInfo: true}
	p, err = ps.Parse(s)
	return
}

func entryKinds(p pattern.Pattern) []string {
	ks := []string{}
	for _, n := range p.EntryNodes {
		ks = append(ks, kindOf(n))
	}
	sort.Strings(ks)
	return ks
}

func probeTables() map[string]*probeResult {
	res := map[string]*probeResult{}
	isAST := map[string]bool{}
	for _, n := range astNodeNames {
		isAST[n] = true
	}
	names := append(append([]string{}, astNodeNames...), extraNodeNames...)
	for _, name := range names {
		r := &probeResult{IsASTNm: isAST[name], Arity: -1}
		res[name] = r
		_, err, pnc := parsePat("(" + name + ")")
		probe := "(" + name + ")"
		if pnc == "" && err != nil {
			if strings.Contains(err.Error(), "unknown node") {
				r.Err = err.Error()
				continue
			}
			if m := arityRe.FindStringSubmatch(err.Error()); m != nil {
				fmt.Sscan(m[2], &r.Arity)
				probe = "(" + name + strings.Repeat(" _", r.Arity) + ")"
				if name == "Binding" {
					probe = `(Binding "x" _)`
				}
			} else {
				r.Err = err.Error()
				continue
			}
		}
		r.Known = true
		r.Probe = probe
		p, err, pnc := parsePat(probe)
		if pnc != "" {
			r.Panic = pnc
			continue
		}
		if err != nil {
			r.Err = err.Error()
			continue
		}
		r.Entry = entryKinds(p)
	}
	// branches of collectEntryNodes that have no node name of their own
	for name, probe := range map[string]string{
		"probe:nil":    `(Binding "x" nil)`, // case Nil, nil  => allTypes
		"probe:not":    `(Not (Ident _))`,   // case Not
		"probe:string": `(Or "x")`,          // nodeToASTTypes[String]
	} {
		r := &probeResult{Known: true, Arity: -1, Probe: probe}
		res[name] = r
		p, err, pnc := parsePat(probe)
		if pnc != "" {
			r.Panic = pnc
		} else if err != nil {
			r.Err = err.Error()
		} else {
			r.Entry = entryKinds(p)
		}
	}
	return res
}

// ---------------------------------------------------------------- canonical match sets

func (l *loaded) nodeID(n ast.Node) string {
	p := l.fset.Position(n.Pos())
	e := l.fset.Position(n.End())
	return fmt.Sprintf("%s@%s:%d-%d", kindOf(n), p.Filename, p.Offset, e.Offset)
}

func (l *loaded) canonVal(v any) string {
	if v == nil {
		return "nil"
	}
	switch x := v.(type) {
	case []ast.Expr:
		var s []string
		for _, e := range x {
			s = append(s, l.canonVal(e))
		}
		return "[" + strings.Join(s, ",") + "]"
	case []ast.Stmt:
		var s []string
		for _, e := range x {
			s = append(s, l.canonVal(e))
		}
		return "[" + strings.Join(s, ",") + "]"
	case []*ast.Field:
		var s []string
		for _, e := range x {
			s = append(s, l.canonVal(e))
		}
		return "[" + strings.Join(s, ",") + "]"
	case []*ast.Ident:
		var s []string
		for _, e := range x {
			s = append(s, l.canonVal(e))
		}
		return "[" + strings.Join(s, ",") + "]"
	case ast.Node:
		if reflect.ValueOf(x).IsNil() {
			return "nilnode:" + fmt.Sprintf("%T", x)
		}
		return l.nodeID(x)
	case types.Object:
		return "obj:" + types.ObjectString(x, nil)
	case string:
		return "str:" + x
	case token.Token:
		return "tok:" + x.String()
	case types.TypeAndValue:
		if x.Value != nil {
			return "tv:" + x.Value.ExactString()
		}
		return "tv"
	}
	rv := reflect.ValueOf(v)
	if rv.Kind() == reflect.Slice {
		var s []string
		for i := 0; i < rv.Len(); i++ {
			s = append(s, l.canonVal(rv.Index(i).Interface()))
		}
		return "[" + strings.Join(s, ",") + "]"
	}
	return fmt.Sprintf("?%T", v)
}

func (l *loaded) canonState(st pattern.State) string {
	var ks []string
	for k := range st {
		ks = append(ks, k)
	}
	sort.Strings(ks)
	var s []string
	for _, k := range ks {
		s = append(s, k+"="+l.canonVal(st[k]))
	}
	return strings.Join(s, ";")
}

// tryMatch runs the real matcher on one node; a panic of the matcher is reported as such.
func (l *loaded) tryMatch(q pattern.Pattern, n ast.Node) (st string, ok bool, pnc string) {
	defer func() {
		if r := recover(); r != nil {
			pnc = fmt.Sprint(r)
			ok = false
		}
	}()
	m, ok := code.Match(l.pass, q, n)
	if !ok {
		return "", false, ""
	}
	return l.canonState(m.State), true, ""
}

// normalise maps a matched node to the innermost node at which the matcher performs the
// very same match (match.go: `match` strips ParenExpr, ExprStmt, DeclStmt, LabeledStmt on
// the right-hand side before doing anything else, so for those the match at the wrapper
// IS the match at the inner node; a BlockStmt / FieldList is replaced by its list and a
// one-element list is replaced by its element in matchNodeAST -- there we unwrap only if
// matching the element gives the same result and bindings).
func (l *loaded) normalise(q pattern.Pattern, n ast.Node, st string) ast.Node {
	for {
		switch x := n.(type) {
		case *ast.ParenExpr:
			n = x.X
			continue
		case *ast.ExprStmt:
			n = x.X
			continue
		case *ast.DeclStmt:
			n = x.Decl
			continue
		case *ast.LabeledStmt:
			n = x.Stmt
			continue
		case *ast.BlockStmt:
			if len(x.List) == 1 {
				if st2, ok, _ := l.tryMatch(q, x.List[0]); ok && st2 == st {
					n = x.List[0]
					continue
				}
			}
		case *ast.FieldList:
			if len(x.List) == 1 {
				if st2, ok, _ := l.tryMatch(q, x.List[0]); ok && st2 == st {
					n = x.List[0]
					continue
				}
			}
		}
		return n
	}
}

// inIndex asks the real index (through code.CouldMatchAny on a one-symbol formula) whether
// it can resolve the package-level symbol path.name.
func (l *loaded) inIndex(path, name string) bool {
	return code.CouldMatchAny(l.pass, pattern.Pattern{SymbolsPattern: pattern.IndexSymbol{Path: path, Ident: name}})
}

// aliasTargets lists the type names Symbol.Match compares with the pattern when it follows
// the alias chain of an alias type name (match.go, case *types.TypeName), without the
// alias's own name.
func aliasTargets(obj *types.TypeName) []string {
	var out []string
	for i := 0; i < 32; i++ {
		if !obj.IsAlias() {
			break
		}
		switch typ := types.Unalias(obj.Type()).(type) {
		case interface{ Obj() *types.TypeName }:
			obj = typ.Obj()
			out = append(out, types.TypeString(obj.Type(), nil))
		default:
			return out
		}
	}
	return out
}

// aliasHidden returns the symbol strings of the pattern that name a type which the analysed
// package reaches through an alias declared in a third package while the type's own package
// is not in the package's index, and the positions ("file:offset") of the identifiers that
// use such an alias.
func (l *loaded) aliasHidden(syms []string) ([]string, []string) {
	out := []string{}
	uses := []string{}
	if len(syms) == 0 {
		return out, uses
	}
	want := map[string]bool{}
	for _, s := range syms {
		want[s] = true
	}
	hidden := map[string]bool{}
	checked := map[string]bool{}
	for id, obj := range l.info.Uses {
		tn, ok := obj.(*types.TypeName)
		if !ok || !tn.IsAlias() || tn.Pkg() == nil || tn.Pkg() == l.pkg {
			continue
		}
		for _, t := range aliasTargets(tn) {
			if !want[t] {
				continue
			}
			if !checked[t] {
				checked[t] = true
				dot := strings.LastIndex(t, ".")
				if dot >= 0 && !l.inIndex(t[:dot], t[dot+1:]) {
					hidden[t] = true
				}
			}
			if hidden[t] {
				p := l.fset.Position(id.Pos())
				uses = append(uses, fmt.Sprintf("%s:%d", p.Filename, p.Offset))
			}
		}
	}
	for t := range hidden {
		out = append(out, t)
	}
	sort.Strings(out)
	sort.Strings(uses)
	return out, uses
}

type caseOut struct {
	Kind     string   `json:"kind"`
	Pat      int      `json:"pat"`
	Pkg      string   `json:"pkg"`
	Could    bool     `json:"could"`
	Own      bool     `json:"own"` // the pattern names a symbol of the analysed package (hypothesis fails)
	Filtered []string `json:"filtered"`
	Brute    []string `json:"brute"`
	FRaw     int      `json:"fraw"` // number of (node, matcher) pairs code.Matches yielded
	BRaw     int      `json:"braw"` // number of nodes at which brute force matched
	Nodes    int      `json:"nodes"`
	Outside  int      `json:"outside"` // brute-force matches at nodes of kinds outside the universe (not compared)
	FPanic   string   `json:"fpanic"`
	BPanic   string   `json:"bpanic"`
	// AliasHidden: symbol strings of the pattern that name a type whose package the index of
	// the analysed package does not contain, although the package refers to that type through
	// an alias declared in a third package (known finding alias-cross-package).
	AliasHidden []string `json:"alias_hidden"`
	AliasUses   []string `json:"alias_uses"`
	// Only when AliasHidden is non-empty: would CouldMatchAny accept the
	// package if the index resolved the hidden symbols (CouldIfVisible), and what code.Matches
	// yields when the two index-based filters are switched off (SymbolsPattern = Any, no
	// RootCallSymbols), i.e. what the entry-kind filter lets through (FilteredNoIdx).  The pair is attributed to the known
	// finding only if CouldIfVisible holds, FilteredNoIdx equals Brute and every dropped match
	// contains one of AliasUses.
	CouldIfVisible bool     `json:"could_if_visible"`
	FilteredNoIdx  []string `json:"filtered_noidx"`
	// Facts: how the real index of the package resolves every IndexSymbol of the pattern's
	// SymbolsPattern and RootCallSymbols ("<hexpath> <hextype> <hexident> none|func|other"); input of
	// the model's `could` operation, whose result is compared with Could.
	Facts []string `json:"facts"`
}

// indexOf returns the *typeindex.Index of the pass (a type of an internal package: found by
// its methods, used through reflection).
func (l *loaded) indexOf() reflect.Value {
	for _, v := range l.pass.ResultOf {
		rv := reflect.ValueOf(v)
		if rv.IsValid() && rv.MethodByName("Selection").IsValid() && rv.MethodByName("Calls").IsValid() {
			return rv
		}
	}
	panic("no type index in the pass")
}

// resolve asks the real index for a symbol the way code.CouldMatchAny / code.Matches do.
func (l *loaded) resolve(s pattern.IndexSymbol) string {
	idx := l.indexOf()
	var out []reflect.Value
	if s.Type == "" {
		out = idx.MethodByName("Object").Call([]reflect.Value{reflect.ValueOf(s.Path), reflect.ValueOf(s.Ident)})
	} else {
		out = idx.MethodByName("Selection").Call([]reflect.Value{reflect.ValueOf(s.Path), reflect.ValueOf(s.Type), reflect.ValueOf(s.Ident)})
	}
	obj, _ := out[0].Interface().(types.Object)
	if obj == nil {
		return "none"
	}
	if _, ok := obj.(*types.Func); ok {
		return "func"
	}
	return "other"
}

func indexSymbols(n pattern.Node, out *[]pattern.IndexSymbol) {
	switch v := n.(type) {
	case pattern.Or:
		for _, c := range v.Nodes {
			indexSymbols(c, out)
		}
	case pattern.And:
		for _, c := range v.Nodes {
			indexSymbols(c, out)
		}
	case pattern.IndexSymbol:
		*out = append(*out, v)
	}
}

func (l *loaded) facts(q pattern.Pattern) []string {
	var syms []pattern.IndexSymbol
	indexSymbols(q.SymbolsPattern, &syms)
	syms = append(syms, q.RootCallSymbols...)
	seen := map[pattern.IndexSymbol]bool{}
	out := []string{}
	for _, s := range syms {
		if seen[s] {
			continue
		}
		seen[s] = true
		out = append(out, fmt.Sprintf("%s %s %s %s", hx(s.Path), hx(s.Type), hx(s.Ident), l.resolve(s)))
	}
	return out
}

// evalSymbols evaluates a SymbolsPattern formula like code.CouldMatchAny does, asking the
// real index for every symbol (through CouldMatchAny on a one-symbol formula) except the
// hidden ones, which count as resolved.
func (l *loaded) evalSymbols(n pattern.Node, hidden map[string]bool) bool {
	switch v := n.(type) {
	case pattern.Any:
		return true
	case pattern.Or:
		for _, c := range v.Nodes {
			if l.evalSymbols(c, hidden) {
				return true
			}
		}
		return false
	case pattern.And:
		for _, c := range v.Nodes {
			if !l.evalSymbols(c, hidden) {
				return false
			}
		}
		return true
	case pattern.IndexSymbol:
		if v.Type == "" && hidden[v.Path+"."+v.Ident] {
			return true
		}
		return code.CouldMatchAny(l.pass, pattern.Pattern{SymbolsPattern: v})
	default:
		return false
	}
}

func uniqSorted(xs []string) []string {
	sort.Strings(xs)
	out := xs[:0]
	for i, x := range xs {
		if i == 0 || x != xs[i-1] {
			out = append(out, x)
		}
	}
	return out
}

func (l *loaded) runCase(pi int, q pattern.Pattern, universe map[string]bool) caseOut {
	co := caseOut{Kind: "case", Pat: pi, Pkg: l.id, Filtered: []string{}, Brute: []string{}}
	var syms []string
	symbolStrings(q.Root, false, &syms)
	for _, s := range syms {
		if strings.Contains(s, l.pkg.Path()+".") {
			co.Own = true
		}
	}
	co.AliasHidden, co.AliasUses = l.aliasHidden(syms)
	func() {
		defer func() {
			if r := recover(); r != nil {
				co.FPanic = fmt.Sprint(r)
			}
		}()
		co.Could = code.CouldMatchAny(l.pass, q)
		co.Facts = l.facts(q)
		for n, m := range code.Matches(l.pass, q) {
			co.FRaw++
			st := l.canonState(m.State)
			nn := l.normalise(q, n, st)
			if !universe[kindOf(nn)] {
				continue
			}
			co.Filtered = append(co.Filtered, l.nodeID(nn)+" | "+st)
		}
	}()
	for _, f := range l.files {
		ast.Inspect(f, func(n ast.Node) bool {
			if n == nil {
				return false
			}
			co.Nodes++
			st, ok, pnc := l.tryMatch(q, n)
			if pnc != "" && co.BPanic == "" {
				co.BPanic = pnc
			}
			if ok {
				co.BRaw++
				nn := l.normalise(q, n, st)
				if !universe[kindOf(nn)] {
					co.Outside++
					return true
				}
				co.Brute = append(co.Brute, l.nodeID(nn)+" | "+st)
			}
			return true
		})
	}
	co.Filtered = uniqSorted(co.Filtered)
	co.Brute = uniqSorted(co.Brute)
	if len(co.AliasHidden) > 0 && co.FPanic == "" {
		hidden := map[string]bool{}
		for _, s := range co.AliasHidden {
			hidden[s] = true
		}
		func() {
			defer func() {
				if r := recover(); r != nil {
					co.FPanic = fmt.Sprint(r)
				}
			}()
			co.CouldIfVisible = l.evalSymbols(q.SymbolsPattern, hidden)
			q2 := q
			q2.SymbolsPattern = pattern.Any{}
			q2.RootCallSymbols = nil // the index cannot resolve the hidden symbols for the call-site enumeration either
			co.FilteredNoIdx = []string{}
			for n, m := range code.Matches(l.pass, q2) {
				st := l.canonState(m.State)
				nn := l.normalise(q, n, st)
				if !universe[kindOf(nn)] {
					continue
				}
				co.FilteredNoIdx = append(co.FilteredNoIdx, l.nodeID(nn)+" | "+st)
			}
			co.FilteredNoIdx = uniqSorted(co.FilteredNoIdx)
		}()
	}
	return co
}

func main() {
	if len(os.Args) != 2 {
		fmt.Fprintln(os.Stderr, "usage: c08match job.json")
		os.Exit(2)
	}
	data, err := os.ReadFile(os.Args[1])
	if err != nil {
		fmt.Fprintln(os.Stderr, err)
		os.Exit(2)
	}
	var j job
	if err := json.Unmarshal(data, &j); err != nil {
		fmt.Fprintln(os.Stderr, err)
		os.Exit(2)
	}
	w := bufio.NewWriterSize(os.Stdout, 1<<20)
	defer w.Flush()
	enc := func(v any) {
		b, _ := json.Marshal(v)
		w.Write(b)
		w.WriteByte('\n')
	}

	tables := probeTables()
	// universe of syntax-node kinds: the go/ast node types the pattern language has a node
	// for (same name), plus BlockStmt and FieldList (what its List node stands for) and
	// IndexListExpr (pattern.IndexListExpr exists and Symbol.Match matches f[T1, T2], although
	// the parser has no name for it).
	universe := map[string]bool{"BlockStmt": true, "FieldList": true, "IndexListExpr": true}
	for name, r := range tables {
		if r.Known && r.IsASTNm {
			universe[name] = true
		}
	}
	if j.Tables {
		var u []string
		for k := range universe {
			u = append(u, k)
		}
		sort.Strings(u)
		enc(map[string]any{"kind": "tables", "nodes": tables, "universe": u})
	}

	// patterns
	pats := make([]pattern.Pattern, len(j.Patterns))
	okPat := make([]bool, len(j.Patterns))
	for i, s := range j.Patterns {
		p, err, pnc := parsePat(s)
		rec := map[string]any{"kind": "pat", "i": i}
		if pnc != "" {
			rec["panic"] = pnc
		} else if err != nil {
			rec["err"] = err.Error()
		} else {
			pats[i] = p
			okPat[i] = true
			rec["root"] = serStr(p.Root)
			rec["entry"] = entryKinds(p)
			rec["symbols"] = serStr(p.SymbolsPattern)
			rc := [][3]string{}
			for _, s := range p.RootCallSymbols {
				rc = append(rc, [3]string{s.Path, s.Type, s.Ident})
			}
			rec["rootcalls"] = rc
			rec["rootcalls_nil"] = p.RootCallSymbols == nil
		}
		enc(rec)
	}

	// packages
	fset := token.NewFileSet()
	imp := &localImporter{local: map[string]*types.Package{}, src: importer.ForCompiler(fset, "source", nil)}
	byID := map[string]*loaded{}
	for _, jp := range j.Packages {
		l, err := load(fset, imp, jp)
		if err != nil {
			fmt.Fprintln(os.Stderr, "LOAD-ERROR:", err)
			w.Flush()
			os.Exit(3)
		}
		byID[jp.ID] = l
	}
	// which syntax-node kinds the analysed packages contain (evidence: coverage of the universe)
	for _, jp := range j.Packages {
		l := byID[jp.ID]
		kinds := map[string]int{}
		for _, f := range l.files {
			ast.Inspect(f, func(n ast.Node) bool {
				if n != nil {
					kinds[kindOf(n)]++
				}
				return true
			})
		}
		enc(map[string]any{"kind": "pkg", "id": jp.ID, "kinds": kinds})
	}
	analyse := j.Analyse
	if len(analyse) == 0 {
		for _, jp := range j.Packages {
			analyse = append(analyse, jp.ID)
		}
	}
	pairs := j.Pairs
	if pairs == nil {
		for pi := range pats {
			for ai := range analyse {
				pairs = append(pairs, [2]int{pi, ai})
			}
		}
	}
	results := make([]caseOut, len(pairs))
	var wg sync.WaitGroup
	sem := make(chan struct{}, 8)
	for k, pr := range pairs {
		if !okPat[pr[0]] {
			results[k] = caseOut{Kind: "skip", Pat: pr[0], Pkg: analyse[pr[1]]}
			continue
		}
		wg.Add(1)
		sem <- struct{}{}
		go func(k int, pr [2]int) {
			defer wg.Done()
			defer func() { <-sem }()
			results[k] = byID[analyse[pr[1]]].runCase(pr[0], pats[pr[0]], universe)
		}(k, pr)
	}
	wg.Wait()
	for _, r := range results {
		enc(r)
	}
}
