// c09match drives the real pattern.Parser and pattern.Match of /repo for the C09 check.
//
// stdin: one case per line  "<hex pattern text> <e|s> <hex Go snippet>"
//
//	e: snippet is an expression (go/parser.ParseExpr), s: a single statement.
//
// stdout: one line per case
//
//	P <ok|err|err64> | PT <pattern tree> | I <name:idx>,* | B <hex name>,* | R <ok|fail|panic:created|panic:other> | ST <n> (<hex name> T)* | T <tree>
//
// where T is the c09ser serialisation of the value handed to Match and of every bound
// value (sorted by name), PT is the parsed Pattern.Root serialised structurally (serPat, with
// the unexported Binding.idx read by reflection), I lists the bindings in pre-order (for
// reports), B is Pattern.Bindings.  The pattern is parsed without type information
// (Parser.AllowTypeInfo=false); Matcher.TypesInfo stays nil.
//
// PT grammar (prefix notation):
//
//	PT ::= g                              Go nil in a Node field
//	     | a | n                          Any, Nil
//	     | s <hex>                        String
//	     | b <hex name> <idx> PT          Binding
//	     | o <n> PT*                      Or
//	     | x PT                           Not
//	     | l PT PT                        List head tail
//	     | k <Kind> <n> (<field> PT)*     any other pattern node struct, exported fields in order
//	     | u <GoType>                     anything else (rejected by the model driver)
//
// -tables prints the tables the Lean model carries as data: the String->token.Token
// conversion (probed through the exported String.Match) and the field names of every
// pattern node struct.
package main

import (
	"bufio"
	"encoding/hex"
	"flag"
	"fmt"
	"go/ast"
	"go/parser"
	"go/token"
	"os"
	"reflect"
	"sort"
	"strings"

	"honnef.co/go/tools/pattern"
	"verif/harness/internal/c09ser"
)

func unhex(s string) (string, error) {
	if s == "-" {
		return "", nil
	}
	b, err := hex.DecodeString(s)
	return string(b), err
}

var rtNode = reflect.TypeFor[pattern.Node]()

// walk records every Binding (pre-order) of a parsed pattern.
func walk(n pattern.Node, out *[]string) {
	if n == nil {
		return
	}
	v := reflect.ValueOf(n)
	if b, ok := n.(pattern.Binding); ok {
		idx := v.FieldByName("idx").Int()
		*out = append(*out, fmt.Sprintf("%s:%d", c09ser.Hex(b.Name), idx))
		walk(b.Node, out)
		return
	}
	switch v.Kind() {
	case reflect.Struct:
		for i := 0; i < v.NumField(); i++ {
			f := v.Field(i)
			if !v.Type().Field(i).IsExported() {
				continue
			}
			switch f.Kind() {
			case reflect.Interface:
				if f.IsNil() {
					continue
				}
				if c, ok := f.Interface().(pattern.Node); ok {
					walk(c, out)
				}
			case reflect.Slice:
				for j := 0; j < f.Len(); j++ {
					if c, ok := f.Index(j).Interface().(pattern.Node); ok {
						walk(c, out)
					}
				}
			}
		}
	}
}

// serPat serialises a parsed pattern node structurally.
func serPat(sb *strings.Builder, n pattern.Node) {
	if n == nil {
		sb.WriteString(" g")
		return
	}
	switch x := n.(type) {
	case pattern.Any:
		sb.WriteString(" a")
	case pattern.Nil:
		sb.WriteString(" n")
	case pattern.String:
		sb.WriteString(" s " + c09ser.Hex(string(x)))
	case pattern.Binding:
		idx := reflect.ValueOf(x).FieldByName("idx").Int()
		fmt.Fprintf(sb, " b %s %d", c09ser.Hex(x.Name), idx)
		serPat(sb, x.Node)
	case pattern.Or:
		fmt.Fprintf(sb, " o %d", len(x.Nodes))
		for _, c := range x.Nodes {
			serPat(sb, c)
		}
	case pattern.Not:
		sb.WriteString(" x")
		serPat(sb, x.Node)
	case pattern.List:
		sb.WriteString(" l")
		serPat(sb, x.Head)
		serPat(sb, x.Tail)
	default:
		v := reflect.ValueOf(n)
		if v.Kind() != reflect.Struct {
			fmt.Fprintf(sb, " u %T", n)
			return
		}
		T := v.Type()
		var fs []int
		for i := 0; i < T.NumField(); i++ {
			if !T.Field(i).IsExported() {
				break
			}
			if T.Field(i).Type != rtNode {
				fmt.Fprintf(sb, " u %T", n)
				return
			}
			fs = append(fs, i)
		}
		fmt.Fprintf(sb, " k %s %d", T.Name(), len(fs))
		for _, i := range fs {
			sb.WriteString(" " + T.Field(i).Name)
			if v.Field(i).IsNil() {
				sb.WriteString(" g")
			} else {
				serPat(sb, v.Field(i).Interface().(pattern.Node))
			}
		}
	}
}

func parseSnippet(kind, src string) (ast.Node, error) {
	switch kind {
	case "e":
		return parser.ParseExpr(src)
	case "s":
		fset := token.NewFileSet()
		f, err := parser.ParseFile(fset, "x.go", "package p\nfunc _() {\n"+src+"\n}\n", parser.SkipObjectResolution)
		if err != nil {
			return nil, err
		}
		body := f.Decls[0].(*ast.FuncDecl).Body
		if len(body.List) != 1 {
			return nil, fmt.Errorf("snippet has %d statements, want 1", len(body.List))
		}
		return body.List[0], nil
	}
	return nil, fmt.Errorf("unknown snippet kind %q", kind)
}

func runMatch(pat pattern.Pattern, node ast.Node) (res string, st pattern.State) {
	m := &pattern.Matcher{}
	defer func() {
		if r := recover(); r != nil {
			msg := fmt.Sprint(r)
			if strings.HasPrefix(msg, "binding already created") {
				res = "panic:created"
			} else {
				res = "panic:other"
			}
			st = nil
		}
	}()
	if m.Match(pat, node) {
		return "ok", m.State
	}
	return "fail", nil
}

func one(line string) string {
	f := strings.Fields(line)
	if len(f) != 3 {
		return "X bad-input"
	}
	ptxt, err1 := unhex(f[0])
	src, err2 := unhex(f[2])
	if err1 != nil || err2 != nil {
		return "X bad-hex"
	}
	node, err := parseSnippet(f[1], src)
	if err != nil {
		return "X snippet-error " + c09ser.Hex(err.Error())
	}
	tree := c09ser.String(node)

	p := &pattern.Parser{}
	pat, err := p.Parse(ptxt)
	if err != nil {
		st := "err"
		if strings.Contains(err.Error(), "more than 64 bindings") {
			st = "err64"
		}
		return "P " + st + " | T " + tree
	}
	var idx []string
	walk(pat.Root, &idx)
	var bs []string
	for _, b := range pat.Bindings {
		bs = append(bs, c09ser.Hex(b))
	}
	var pt strings.Builder
	serPat(&pt, pat.Root)
	res, st := runMatch(pat, node)
	var sb strings.Builder
	names := make([]string, 0, len(st))
	for k := range st {
		names = append(names, k)
	}
	sort.Strings(names)
	fmt.Fprintf(&sb, "%d", len(names))
	for _, k := range names {
		sb.WriteString(" " + c09ser.Hex(k))
		c09ser.Ser(&sb, st[k])
	}
	return fmt.Sprintf("P ok | PT %s | I %s | B %s | R %s | ST %s | T %s",
		strings.TrimPrefix(pt.String(), " "), strings.Join(idx, ","), strings.Join(bs, ","), res, sb.String(), tree)
}

var nodeTypes = []pattern.Node{
	pattern.Any{}, pattern.Ellipsis{}, pattern.List{}, pattern.Binding{}, pattern.RangeStmt{}, pattern.AssignStmt{},
	pattern.IndexExpr{}, pattern.Ident{}, pattern.Builtin{}, pattern.ValueSpec{}, pattern.GenDecl{}, pattern.BinaryExpr{},
	pattern.ForStmt{}, pattern.ArrayType{}, pattern.DeferStmt{}, pattern.MapType{}, pattern.ReturnStmt{}, pattern.SliceExpr{},
	pattern.StarExpr{}, pattern.UnaryExpr{}, pattern.SendStmt{}, pattern.SelectStmt{}, pattern.ImportSpec{}, pattern.IfStmt{},
	pattern.GoStmt{}, pattern.Field{}, pattern.SelectorExpr{}, pattern.StructType{}, pattern.KeyValueExpr{}, pattern.FuncType{},
	pattern.FuncLit{}, pattern.FuncDecl{}, pattern.ChanType{}, pattern.CallExpr{}, pattern.CaseClause{}, pattern.CommClause{},
	pattern.CompositeLit{}, pattern.EmptyStmt{}, pattern.SwitchStmt{}, pattern.TypeSwitchStmt{}, pattern.TypeAssertExpr{},
	pattern.TypeSpec{}, pattern.InterfaceType{}, pattern.BranchStmt{}, pattern.IncDecStmt{}, pattern.BasicLit{},
	pattern.Object{}, pattern.Symbol{}, pattern.Or{}, pattern.Not{}, pattern.IntegerLiteral{}, pattern.TrulyConstantExpression{},
}

// tables: "tok <hex string> <int>" for every candidate string that String.Match converts to a
// token, and "node <Kind> <parse status with that many _ arguments> <field names...>".
func tables(cands []string) {
	seen := map[string]bool{}
	var all []string
	add := func(s string) {
		if !seen[s] {
			seen[s] = true
			all = append(all, s)
		}
	}
	for _, c := range cands {
		add(c)
	}
	for t := token.Token(0); t < 100; t++ {
		add(t.String())
		add(strings.ToUpper(t.String()))
	}
	sort.Strings(all)
	for _, s := range all {
		for t := token.Token(0); t < 100; t++ {
			_, ok := pattern.String(s).Match(&pattern.Matcher{}, t)
			if ok {
				fmt.Printf("tok %s %d\n", c09ser.Hex(s), int(t))
			}
		}
	}
	var lines []string
	for _, n := range nodeTypes {
		T := reflect.TypeOf(n)
		var fs []string
		for i := 0; i < T.NumField(); i++ {
			if !T.Field(i).IsExported() {
				break
			}
			fs = append(fs, T.Field(i).Name)
		}
		// what does the real parser say about (Kind _ ... _) with that arity, without type info?
		args := strings.Repeat(" _", len(fs))
		if T.Name() == "Binding" {
			args = ` "x" _`
		}
		st := parseStatus("(" + T.Name() + args + ")")
		lines = append(lines, strings.TrimSpace(fmt.Sprintf("node %s %s %s", T.Name(), st, strings.Join(fs, " "))))
	}
	sort.Strings(lines)
	for _, l := range lines {
		fmt.Println(l)
	}
}

func parseStatus(src string) (st string) {
	defer func() {
		if r := recover(); r != nil {
			st = "panic"
		}
	}()
	if _, err := (&pattern.Parser{}).Parse(src); err != nil {
		return "err"
	}
	return "ok"
}

func main() {
	tab := flag.Bool("tables", false, "print token and node-field tables (extra candidate strings as hex args)")
	flag.Parse()
	if *tab {
		var cands []string
		for _, a := range flag.Args() {
			s, err := unhex(a)
			if err == nil {
				cands = append(cands, s)
			}
		}
		tables(cands)
		return
	}
	sc := bufio.NewScanner(os.Stdin)
	sc.Buffer(make([]byte, 1<<20), 1<<26)
	w := bufio.NewWriterSize(os.Stdout, 1<<20)
	defer w.Flush()
	for sc.Scan() {
		fmt.Fprintln(w, one(sc.Text()))
	}
}
