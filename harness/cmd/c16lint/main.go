// c16lint drives the real lintcmd/runner in-process (all analyzers of simple, staticcheck,
// stylecheck, quickfix) over a list of jobs and prints, per job, one JSON object with every
// runner.Diagnostic (positions with offsets, suggested fixes) of the initial packages and
// the toolchain oracle for every suggested fix: the fix is applied to the file, the file is
// parsed (go/parser) and the package is type-checked (go/types, imports from the export
// data the real loader used) with its import list adjusted (imports that became unused
// dropped, known std packages the replacement text newly refers to added).
//
// usage: c16lint -cache DIR < jobs.jsonl > results.jsonl
package main

import (
	"bufio"
	"bytes"
	"encoding/json"
	"flag"
	"fmt"
	"go/ast"
	"go/build"
	"go/parser"
	"go/token"
	"go/types"
	"os"
	"os/exec"
	"regexp"
	"sort"
	"strings"
	"sync"
	_ "unsafe"

	"golang.org/x/tools/go/analysis"
	"golang.org/x/tools/go/ast/astutil"
	"golang.org/x/tools/go/gcexportdata"
	"golang.org/x/tools/go/packages"
	"honnef.co/go/tools/config"
	_ "honnef.co/go/tools/analysis/lint/testutil"
	"honnef.co/go/tools/go/loader"
	"honnef.co/go/tools/lintcmd/cache"
	"honnef.co/go/tools/lintcmd/runner"
	"honnef.co/go/tools/quickfix"
	"honnef.co/go/tools/simple"
	"honnef.co/go/tools/staticcheck"
	"honnef.co/go/tools/stylecheck"
)

type Job struct {
	ID        string   `json:"id"`
	Dir       string   `json:"dir"`
	Patterns  []string `json:"patterns"`
	Tests     bool     `json:"tests"`
	Env       []string `json:"env"`
	TypeCheck bool     `json:"typecheck"`
	// only keep diagnostics of these categories (empty: all)
	Only []string `json:"only"`
}

type Pos struct {
	File string `json:"file"`
	Off  int    `json:"off"`
	Line int    `json:"line"`
	Col  int    `json:"col"`
}

type Edit struct {
	Pos Pos    `json:"pos"`
	End Pos    `json:"end"`
	New []byte `json:"new"` // base64 in JSON
	// the TextEdit had no End (token.NoPos): End is reported equal to Pos
	NoEnd bool `json:"noend,omitempty"`
}

// the repository's own fix applier (the code behind the golden-file tests), unexported
//
//go:linkname repoApplyEdits honnef.co/go/tools/analysis/lint/testutil.applyEdits
func repoApplyEdits(src []byte, edits []runner.TextEdit) []byte

func fnv(b []byte) uint64 {
	h := uint64(14695981039346656037)
	for _, c := range b {
		h ^= uint64(c)
		h *= 1099511628211
	}
	return h
}

// realApply runs testutil.applyEdits on the edits of a fix; ok=false if it panicked.
func realApply(src []byte, edits []Edit) (out []byte, ok bool) {
	defer func() {
		if r := recover(); r != nil {
			ok = false
		}
	}()
	var es []runner.TextEdit
	for _, e := range edits {
		es = append(es, runner.TextEdit{
			Position: token.Position{Filename: e.Pos.File, Offset: e.Pos.Off, Line: e.Pos.Line, Column: e.Pos.Col},
			End:      token.Position{Filename: e.End.File, Offset: e.End.Off, Line: e.End.Line, Column: e.End.Col},
			NewText:  e.New,
		})
	}
	return repoApplyEdits(src, es), true
}

type FixOracle struct {
	Status   string   `json:"status"` // ok | skipped:<why> | illformed:<why> | parse | types
	Errors   []string `json:"errors,omitempty"`
	Dropped  []string `json:"dropped,omitempty"`
	Added    []string `json:"added,omitempty"`
	NewSize  int      `json:"newsize"`
	NewHash  string   `json:"newhash,omitempty"` // fnv64 of the text produced by testutil.applyEdits
	RealDiff bool     `json:"realdiff,omitempty"` // testutil.applyEdits disagrees with the harness splice
	OldSize  int      `json:"oldsize"`
	ParseErr string   `json:"parse_err,omitempty"`
}

type Fix struct {
	Msg    string     `json:"msg"`
	Edits  []Edit     `json:"edits"`
	Oracle *FixOracle `json:"oracle,omitempty"`
}

type Diag struct {
	Pkg   string `json:"pkg"`
	Cat   string `json:"cat"`
	Msg   string `json:"msg"`
	Pos   Pos    `json:"pos"`
	End   Pos    `json:"end"`
	Fixes []Fix  `json:"fixes,omitempty"`
	NRel  int    `json:"nrel,omitempty"`
}

type PkgInfo struct {
	ID       string   `json:"id"`
	Path     string   `json:"path"`
	Files    []string `json:"files"`
	Compiled []string `json:"compiled"`
	Failed   bool     `json:"failed"`
	Errors   []string `json:"errors,omitempty"`
	BaseOK   bool     `json:"base_ok"`
	BaseErr  []string `json:"base_err,omitempty"`
}

type Out struct {
	ID    string    `json:"id"`
	Error string    `json:"error,omitempty"`
	Pkgs  []PkgInfo `json:"pkgs"`
	Diags []Diag    `json:"diags"`
}

func mkPos(p token.Position) Pos {
	return Pos{File: p.Filename, Off: p.Offset, Line: p.Line, Col: p.Column}
}

func allAnalyzers() []*analysis.Analyzer {
	var as []*analysis.Analyzer
	for _, a := range simple.Analyzers {
		as = append(as, a.Analyzer)
	}
	for _, a := range staticcheck.Analyzers {
		as = append(as, a.Analyzer)
	}
	for _, a := range stylecheck.Analyzers {
		as = append(as, a.Analyzer)
	}
	for _, a := range quickfix.Analyzers {
		as = append(as, a.Analyzer)
	}
	return as
}

// ---------------------------------------------------------------- fix application

// applyEdits validates and applies edits to src. Edits are sorted by start offset;
// identical duplicate edits are NOT merged (they overlap unless empty).
func applyEdits(src []byte, edits []Edit) ([]byte, string) {
	es := make([]Edit, len(edits))
	copy(es, edits)
	sort.SliceStable(es, func(i, j int) bool {
		if es[i].Pos.Off != es[j].Pos.Off {
			return es[i].Pos.Off < es[j].Pos.Off
		}
		return es[i].End.Off < es[j].End.Off
	})
	for _, e := range es {
		if e.Pos.Off < 0 || e.End.Off < e.Pos.Off || e.End.Off > len(src) {
			return nil, fmt.Sprintf("out-of-bounds [%d,%d) size %d", e.Pos.Off, e.End.Off, len(src))
		}
	}
	for i := 1; i < len(es); i++ {
		if es[i].Pos.Off < es[i-1].End.Off {
			return nil, fmt.Sprintf("overlap [%d,%d) [%d,%d)", es[i-1].Pos.Off, es[i-1].End.Off, es[i].Pos.Off, es[i].End.Off)
		}
	}
	var out []byte
	last := 0
	for _, e := range es {
		out = append(out, src[last:e.Pos.Off]...)
		out = append(out, e.New...)
		last = e.End.Off
	}
	out = append(out, src[last:]...)
	return out, ""
}

// ---------------------------------------------------------------- type checking

var stdByName = map[string]string{
	"strings": "strings", "bytes": "bytes", "fmt": "fmt", "errors": "errors", "context": "context",
	"http": "net/http", "syscall": "syscall", "time": "time", "sort": "sort", "slices": "slices",
	"maps": "maps", "strconv": "strconv", "utf8": "unicode/utf8", "unicode": "unicode", "os": "os",
	"io": "io", "math": "math", "regexp": "regexp", "sync": "sync", "atomic": "sync/atomic",
	"filepath": "path/filepath", "path": "path", "url": "net/url", "binary": "encoding/binary",
	"json": "encoding/json", "reflect": "reflect", "signal": "os/signal", "ioutil": "io/ioutil",
	"bits": "math/bits", "rand": "math/rand", "big": "math/big", "net": "net", "exec": "os/exec",
	"testing": "testing", "runtime": "runtime", "unsafe": "unsafe", "cmp": "cmp",
}

var (
	exportMu    sync.Mutex
	exportFiles = map[string]string{}
)

func stdExportFile(path string, env []string) (string, error) {
	exportMu.Lock()
	defer exportMu.Unlock()
	if f, ok := exportFiles[path]; ok {
		return f, nil
	}
	cmd := exec.Command("go", "list", "-export", "-f", "{{.Export}}", path)
	cmd.Env = env
	cmd.Dir = os.TempDir()
	out, err := cmd.Output()
	if err != nil {
		return "", fmt.Errorf("go list -export %s: %v", path, err)
	}
	f := strings.TrimSpace(string(out))
	exportFiles[path] = f
	return f, nil
}

type checker struct {
	spec     *loader.PackageSpec
	fset     *token.FileSet
	imported map[string]*types.Package
	env      []string
	base     []*ast.File
	baseSrc  map[string][]byte
	index    map[string]int
}

func (c *checker) loadExport(pkgPath, file string) (*types.Package, error) {
	if p := c.imported[pkgPath]; p != nil && p.Complete() {
		return p, nil
	}
	f, err := os.Open(file)
	if err != nil {
		return nil, err
	}
	defer f.Close()
	r, err := gcexportdata.NewReader(f)
	if err != nil {
		return nil, err
	}
	return gcexportdata.Read(r, c.fset, c.imported, pkgPath)
}

type importerFunc func(path string) (*types.Package, error)

func (f importerFunc) Import(path string) (*types.Package, error) { return f(path) }

func (c *checker) importPkg(path string) (*types.Package, error) {
	if path == "unsafe" {
		return types.Unsafe, nil
	}
	if path == "C" {
		return nil, fmt.Errorf("cgo")
	}
	if sp := c.spec.Imports[path]; sp != nil {
		if sp.ExportFile == "" {
			return nil, fmt.Errorf("no export data for %s", path)
		}
		return c.loadExport(sp.PkgPath, sp.ExportFile)
	}
	// a package the replacement text newly refers to: std only
	f, err := stdExportFile(path, c.env)
	if err != nil {
		return nil, err
	}
	return c.loadExport(path, f)
}

func (c *checker) goVersion() string {
	if c.spec.Module != nil && c.spec.Module.GoVersion != "" {
		return "go" + c.spec.Module.GoVersion
	}
	tags := build.Default.ReleaseTags
	return tags[len(tags)-1]
}

func (c *checker) check(files []*ast.File) []types.Error {
	var errs []types.Error
	tc := &types.Config{
		Importer:  importerFunc(c.importPkg),
		GoVersion: c.goVersion(),
		Error: func(err error) {
			if te, ok := err.(types.Error); ok {
				errs = append(errs, te)
			} else {
				errs = append(errs, types.Error{Msg: err.Error()})
			}
		},
	}
	pkg := types.NewPackage(c.spec.PkgPath, c.spec.Name)
	types.NewChecker(tc, c.fset, pkg, nil).Files(files)
	return errs
}

func newChecker(spec *loader.PackageSpec, env []string) (*checker, []string) {
	c := &checker{spec: spec, fset: token.NewFileSet(), imported: map[string]*types.Package{}, env: env,
		baseSrc: map[string][]byte{}, index: map[string]int{}}
	for i, fn := range spec.CompiledGoFiles {
		src, err := os.ReadFile(fn)
		if err != nil {
			return nil, []string{err.Error()}
		}
		af, err := parser.ParseFile(c.fset, fn, src, parser.ParseComments|parser.SkipObjectResolution)
		if err != nil {
			return nil, []string{"parse: " + err.Error()}
		}
		c.base = append(c.base, af)
		c.baseSrc[fn] = src
		c.index[fn] = i
	}
	errs := c.check(c.base)
	if len(errs) > 0 {
		var ss []string
		for i, e := range errs {
			if i >= 3 {
				break
			}
			ss = append(ss, e.Msg)
		}
		return nil, ss
	}
	return c, nil
}

var (
	reUnusedImport = regexp.MustCompile(`^"([^"]+)" imported (as (\S+) )?and not used`)
	reUndefined    = regexp.MustCompile(`^undefined: (\w+)$`)
)

func (c *checker) tryFix(file string, fix *Fix) *FixOracle {
	o := &FixOracle{}
	src, ok := c.baseSrc[file]
	if !ok {
		o.Status = "skipped:file-not-compiled-in-package"
		return o
	}
	o.OldSize = len(src)
	patched, why := applyEdits(src, fix.Edits)
	if why != "" {
		o.Status = "illformed:" + why
		return o
	}
	if real, ok := realApply(src, fix.Edits); !ok {
		o.RealDiff = true
		o.NewHash = "panic"
	} else {
		o.RealDiff = !bytes.Equal(real, patched)
		o.NewHash = fmt.Sprint(fnv(real))
		o.NewSize = len(real)
		patched = real
	}
	af, err := parser.ParseFile(c.fset, file, patched, parser.ParseComments|parser.SkipObjectResolution)
	if err != nil {
		o.Status = "parse"
		o.ParseErr = err.Error()
		return o
	}
	var newText []byte
	for _, e := range fix.Edits {
		newText = append(newText, e.New...)
		newText = append(newText, ' ')
	}
	files := make([]*ast.File, len(c.base))
	copy(files, c.base)
	files[c.index[file]] = af
	var errs []types.Error
	for iter := 0; iter < 8; iter++ {
		errs = c.check(files)
		if len(errs) == 0 {
			o.Status = "ok"
			return o
		}
		changed := false
		seen := map[string]bool{}
		for _, e := range errs {
			if m := reUnusedImport.FindStringSubmatch(e.Msg); m != nil {
				if e.Fset == nil || e.Fset.Position(e.Pos).Filename != file {
					continue
				}
				path, name := m[1], m[3]
				if seen["d"+path+name] {
					continue
				}
				seen["d"+path+name] = true
				if astutil.DeleteNamedImport(c.fset, af, name, path) {
					o.Dropped = append(o.Dropped, path)
					changed = true
				}
			} else if m := reUndefined.FindStringSubmatch(e.Msg); m != nil {
				name := m[1]
				path, known := stdByName[name]
				if !known || seen["a"+path] {
					continue
				}
				if e.Fset == nil || e.Fset.Position(e.Pos).Filename != file {
					continue
				}
				if !bytes.Contains(newText, []byte(name+".")) {
					continue
				}
				seen["a"+path] = true
				if astutil.AddImport(c.fset, af, path) {
					o.Added = append(o.Added, path)
					changed = true
				}
			}
		}
		if !changed {
			break
		}
	}
	o.Status = "types"
	for i, e := range errs {
		if i >= 4 {
			break
		}
		p := ""
		if e.Fset != nil {
			pp := e.Fset.Position(e.Pos)
			p = fmt.Sprintf("%d:%d: ", pp.Line, pp.Column)
		}
		o.Errors = append(o.Errors, p+e.Msg)
	}
	return o
}

// ---------------------------------------------------------------- jobs

func runJob(job Job, c cache.Cache, as []*analysis.Analyzer) Out {
	out := Out{ID: job.ID, Pkgs: []PkgInfo{}, Diags: []Diag{}}
	r, err := runner.New(config.Config{}, c)
	if err != nil {
		out.Error = err.Error()
		return out
	}
	env := append(os.Environ(), job.Env...)
	cfg := &packages.Config{Dir: job.Dir, Tests: job.Tests, Env: env}
	res, err := r.Run(cfg, as, job.Patterns)
	if err != nil {
		out.Error = err.Error()
		return out
	}
	only := map[string]bool{}
	for _, o := range job.Only {
		only[o] = true
	}
	for _, rr := range res {
		if !rr.Initial {
			continue
		}
		pi := PkgInfo{ID: rr.Package.ID, Path: rr.Package.PkgPath, Files: rr.Package.GoFiles, Compiled: rr.Package.CompiledGoFiles, Failed: rr.Failed}
		if rr.Failed || rr.Skipped {
			for i, e := range rr.Errors {
				if i < 3 {
					pi.Errors = append(pi.Errors, e.Error())
				}
			}
			if rr.Skipped {
				pi.Failed = true
				pi.Errors = append(pi.Errors, "skipped")
			}
			out.Pkgs = append(out.Pkgs, pi)
			continue
		}
		data, err := rr.Load()
		if err != nil {
			out.Error = err.Error()
			return out
		}
		var chk *checker
		chkTried := false
		for _, d := range data.Diagnostics {
			if len(only) > 0 && !only[d.Category] {
				continue
			}
			dd := Diag{Pkg: rr.Package.ID, Cat: d.Category, Msg: d.Message, Pos: mkPos(d.Position), End: mkPos(d.End), NRel: len(d.Related)}
			for _, sf := range d.SuggestedFixes {
				f := Fix{Msg: sf.Message}
				for _, e := range sf.TextEdits {
					ed := Edit{Pos: mkPos(e.Position), End: mkPos(e.End), New: e.NewText}
					if e.End == (token.Position{}) {
						// TextEdit without End: an insertion at Pos
						ed.End = ed.Pos
						ed.NoEnd = true
					}
					f.Edits = append(f.Edits, ed)
				}
				if job.TypeCheck && len(f.Edits) > 0 {
					if !chkTried {
						chkTried = true
						var berr []string
						chk, berr = newChecker(rr.Package, env)
						pi.BaseOK = chk != nil
						pi.BaseErr = berr
					}
					if chk == nil {
						f.Oracle = &FixOracle{Status: "skipped:base-package-does-not-typecheck"}
					} else {
						file := f.Edits[0].Pos.File
						same := true
						for _, e := range f.Edits {
							if e.Pos.File != file || e.End.File != file {
								same = false
							}
						}
						if !same {
							f.Oracle = &FixOracle{Status: "illformed:edits-span-files"}
						} else {
							f.Oracle = chk.tryFix(file, &f)
						}
					}
				}
				dd.Fixes = append(dd.Fixes, f)
			}
			out.Diags = append(out.Diags, dd)
		}
		out.Pkgs = append(out.Pkgs, pi)
	}
	return out
}

func main() {
	cacheDir := flag.String("cache", "", "cache directory")
	mode := flag.String("mode", "lint", "lint | apply (positions, short ranges, fix application, rewrite functions on stdin lines)")
	flag.Parse()
	if *mode == "apply" {
		applyMain()
		return
	}
	if *cacheDir == "" {
		fmt.Fprintln(os.Stderr, "need -cache")
		os.Exit(2)
	}
	c, err := cache.Open(*cacheDir)
	if err != nil {
		fmt.Fprintln(os.Stderr, err)
		os.Exit(2)
	}
	// same salt for every c16lint process built from the same tree: the executable's path
	// is stable within one check run, the analyzers' code is what is linked in.
	exe, _ := os.Executable()
	st, _ := os.Stat(exe)
	cache.SetSalt([]byte(fmt.Sprintf("c16lint %s %d %d", exe, st.Size(), st.ModTime().UnixNano())))
	as := allAnalyzers()
	in := bufio.NewReaderSize(os.Stdin, 1<<20)
	w := bufio.NewWriterSize(os.Stdout, 1<<20)
	defer w.Flush()
	enc := json.NewEncoder(w)
	for {
		line, err := in.ReadBytes('\n')
		if len(bytes.TrimSpace(line)) > 0 {
			var job Job
			if jerr := json.Unmarshal(line, &job); jerr != nil {
				fmt.Fprintln(os.Stderr, "bad job:", jerr)
				os.Exit(2)
			}
			o := runJob(job, c, as)
			enc.Encode(o)
			w.Flush()
		}
		if err != nil {
			break
		}
	}
}
