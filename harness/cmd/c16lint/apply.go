// (mode "apply" of c16lint) runs the repository's own fix applier, analysis/lint/testutil.applyEdits (the
// code behind the golden-file tests; unexported, reached through go:linkname, no hook),
// and report.shortRange on inputs given on stdin.
//
//	shortfile <path>   ->  one line per AST node "short <descriptor> = <pos> <end>" (offsets), terminated by a line "end <n>"
//	pos <filehex> <k> <off>*k  ->  "<nlines> <size> <line>:<col> ..." from go/scanner's line table and go/token's File.Position
//	rw negdm <0|1> <expr> | rw simplify <expr>   ->  the real astutil.NegateDeMorgan / astutil.SimplifyParentheses on the
//	        expression (prefix token encoding, see lean/Verif/C16/RwDriver.lean), result in the same encoding
//	apply <srchex> <nfix> (<k> (<start> <stop> <newhex>)*k)*nfix   ->  "<len> <fnv64>" per fix joined by ';' ("panic" if the applier panicked)
package main

import (
	"bufio"
	"encoding/hex"
	"fmt"
	"go/ast"
	"go/parser"
	"go/scanner"
	"go/token"
	"os"
	"strconv"
	"strings"
	_ "unsafe"

	_ "honnef.co/go/tools/analysis/lint/testutil"
	_ "honnef.co/go/tools/analysis/report"
	"honnef.co/go/tools/go/ast/astutil"
	"honnef.co/go/tools/lintcmd/runner"
)

//go:linkname shortRange honnef.co/go/tools/analysis/report.shortRange
func shortRange(node ast.Node) (pos, end token.Pos)


func unhex(s string) ([]byte, error) {
	if s == "-" {
		return nil, nil
	}
	return hex.DecodeString(s)
}

func safeApply(src []byte, edits []runner.TextEdit) (out []byte, panicked bool) {
	defer func() {
		if r := recover(); r != nil {
			panicked = true
		}
	}()
	return repoApplyEdits(src, edits), false
}

func applyMain() {
	in := bufio.NewReaderSize(os.Stdin, 1<<20)
	w := bufio.NewWriterSize(os.Stdout, 1<<20)
	defer w.Flush()
	for {
		line, err := in.ReadString('\n')
		line = strings.TrimRight(line, "\n")
		if strings.HasPrefix(line, "shortfile ") {
			shortFile(w, strings.TrimPrefix(line, "shortfile "))
		} else if line != "" {
			fmt.Fprintln(w, doLine(line))
		}
		if err != nil {
			break
		}
	}
}

// describe lists exactly the positions a short range may be built from, per node kind.
func describe(n ast.Node, o func(token.Pos) string) string {
	opt := func(x ast.Node) string {
		if x == nil || (func() bool { // typed nil interface values
			switch v := x.(type) {
			case ast.Expr:
				return v == nil
			case ast.Stmt:
				return v == nil
			}
			return false
		})() {
			return "-"
		}
		return o(x.End())
	}
	pe := o(n.Pos()) + " "
	e := " " + o(n.End())
	switch n := n.(type) {
	case *ast.File:
		return "file " + pe + o(n.Name.End()) + e
	case *ast.CaseClause:
		return "caseClause " + pe + o(n.Colon) + e
	case *ast.CommClause:
		return "commClause " + pe + o(n.Colon) + e
	case *ast.DeferStmt:
		return "deferStmt " + pe + o(n.Defer) + e
	case *ast.ExprStmt:
		return "exprStmt " + describe(n.X, o)
	case *ast.ForStmt:
		var i, c, p ast.Node
		if n.Init != nil {
			i = n.Init
		}
		if n.Cond != nil {
			c = n.Cond
		}
		if n.Post != nil {
			p = n.Post
		}
		return "forStmt " + pe + o(n.For) + " " + opt(i) + " " + opt(c) + " " + opt(p) + e
	case *ast.FuncDecl:
		return "funcDecl " + pe + o(n.Type.End()) + e
	case *ast.FuncLit:
		return "funcLit " + pe + o(n.Type.End()) + e
	case *ast.GoStmt:
		lit := "0"
		if _, ok := astutil.Unparen(n.Call.Fun).(*ast.FuncLit); ok {
			lit = "1"
		}
		return "goStmt " + pe + o(n.Go) + " " + lit + e
	case *ast.IfStmt:
		return "ifStmt " + pe + o(n.Cond.End()) + e
	case *ast.RangeStmt:
		return "rangeStmt " + pe + o(n.X.End()) + e
	case *ast.SelectStmt:
		return "selectStmt " + strings.TrimSpace(pe) + e
	case *ast.SwitchStmt:
		var t, i ast.Node
		if n.Tag != nil {
			t = n.Tag
		}
		if n.Init != nil {
			i = n.Init
		}
		return "switchStmt " + pe + opt(t) + " " + opt(i) + e
	case *ast.TypeSwitchStmt:
		return "typeSwitchStmt " + pe + o(n.Assign.End()) + e
	default:
		return "other " + strings.TrimSpace(pe) + e
	}
}

func shortFile(w *bufio.Writer, path string) {
	fset := token.NewFileSet()
	f, err := parser.ParseFile(fset, path, nil, parser.ParseComments|parser.SkipObjectResolution)
	if err != nil {
		fmt.Fprintln(w, "end parse-error")
		return
	}
	tf := fset.File(f.Pos())
	base := tf.Base()
	o := func(p token.Pos) string { return strconv.Itoa(int(p) - base) }
	n := 0
	others := 0
	ast.Inspect(f, func(nd ast.Node) bool {
		if nd == nil {
			return true
		}
		if _, ok := nd.(*ast.Comment); ok {
			return true
		}
		d := describe(nd, o)
		if strings.HasPrefix(d, "other ") {
			others++
			if others%8 != 0 {
				return true
			}
		}
		p, e := shortRange(nd)
		fmt.Fprintf(w, "short %s = %d %d\n", d, int(p)-base, int(e)-base)
		n++
		return true
	})
	fmt.Fprintf(w, "end %d\n", n)
}

func posLine(t []string) string {
	if len(t) < 3 {
		return "bad-op"
	}
	src, err := unhex(t[1])
	k, err2 := strconv.Atoi(t[2])
	if err != nil || err2 != nil || len(t) != 3+k {
		return "bad-op"
	}
	fset := token.NewFileSet()
	tf := fset.AddFile("f.go", -1, len(src))
	var sc scanner.Scanner
	sc.Init(tf, src, func(token.Position, string) {}, scanner.ScanComments)
	for {
		_, tok, _ := sc.Scan()
		if tok == token.EOF {
			break
		}
	}
	out := []string{strconv.Itoa(tf.LineCount()), strconv.Itoa(tf.Size())}
	for _, a := range t[3:] {
		off, err := strconv.Atoi(a)
		if err != nil || off < 0 || off > len(src) {
			return "bad-op"
		}
		p := tf.PositionFor(tf.Pos(off), false)
		out = append(out, fmt.Sprintf("%d:%d", p.Line, p.Column))
	}
	return strings.Join(out, " ")
}

var binOps = map[string]token.Token{"&&": token.LAND, "||": token.LOR, "==": token.EQL, "!=": token.NEQ, "<": token.LSS,
	"<=": token.LEQ, ">": token.GTR, ">=": token.GEQ, "+": token.ADD, "/": token.QUO}

func parseExpr(t []string) (ast.Expr, []string, bool) {
	if len(t) == 0 {
		return nil, nil, false
	}
	tok, rest := t[0], t[1:]
	switch tok {
	case "t":
		return ast.NewIdent("true"), rest, true
	case "f":
		return ast.NewIdent("false"), rest, true
	case "v":
		if len(rest) == 0 {
			return nil, nil, false
		}
		return ast.NewIdent("v" + rest[0]), rest[1:], true
	case "n":
		if len(rest) == 0 {
			return nil, nil, false
		}
		return &ast.BasicLit{Kind: token.INT, Value: rest[0]}, rest[1:], true
	case "c":
		if len(rest) == 0 {
			return nil, nil, false
		}
		a, r, ok := parseExpr(rest[1:])
		if !ok {
			return nil, nil, false
		}
		return &ast.CallExpr{Fun: ast.NewIdent("f" + rest[0]), Args: []ast.Expr{a}}, r, true
	case "p":
		if len(rest) == 0 {
			return nil, nil, false
		}
		a, r, ok := parseExpr(rest[1:])
		if !ok {
			return nil, nil, false
		}
		b, r, ok := parseExpr(r)
		if !ok {
			return nil, nil, false
		}
		return &ast.CallExpr{Fun: ast.NewIdent("p" + rest[0]), Args: []ast.Expr{a, b}}, r, true
	case "(":
		a, r, ok := parseExpr(rest)
		return &ast.ParenExpr{X: a}, r, ok
	case "!":
		a, r, ok := parseExpr(rest)
		return &ast.UnaryExpr{Op: token.NOT, X: a}, r, ok
	}
	op, ok := binOps[tok]
	if !ok {
		return nil, nil, false
	}
	a, r, ok := parseExpr(rest)
	if !ok {
		return nil, nil, false
	}
	b, r, ok := parseExpr(r)
	if !ok {
		return nil, nil, false
	}
	return &ast.BinaryExpr{X: a, Op: op, Y: b}, r, true
}

func showExpr(e ast.Expr) string {
	switch e := e.(type) {
	case *ast.Ident:
		switch {
		case e.Name == "true":
			return "t"
		case e.Name == "false":
			return "f"
		case strings.HasPrefix(e.Name, "v"):
			return "v " + e.Name[1:]
		}
	case *ast.BasicLit:
		return "n " + e.Value
	case *ast.ParenExpr:
		return "( " + showExpr(e.X)
	case *ast.UnaryExpr:
		if e.Op == token.NOT {
			return "! " + showExpr(e.X)
		}
	case *ast.CallExpr:
		if id, ok := e.Fun.(*ast.Ident); ok && len(e.Args) == 1 {
			return "c " + id.Name[1:] + " " + showExpr(e.Args[0])
		} else if ok && len(e.Args) == 2 {
			return "p " + id.Name[1:] + " " + showExpr(e.Args[0]) + " " + showExpr(e.Args[1])
		}
	case *ast.BinaryExpr:
		for k, v := range binOps {
			if v == e.Op && e.X != nil && e.Y != nil {
				return k + " " + showExpr(e.X) + " " + showExpr(e.Y)
			}
		}
	}
	return fmt.Sprintf("?%T", e)
}

func rwLine(t []string) (out string) {
	defer func() {
		if r := recover(); r != nil {
			out = "panic"
		}
	}()
	if len(t) < 3 {
		return "bad-op"
	}
	switch t[1] {
	case "negdm":
		e, rest, ok := parseExpr(t[3:])
		if !ok || len(rest) != 0 || (t[2] != "0" && t[2] != "1") {
			return "bad-op"
		}
		return showExpr(astutil.NegateDeMorgan(e, t[2] == "1"))
	case "simplify":
		e, rest, ok := parseExpr(t[2:])
		if !ok || len(rest) != 0 {
			return "bad-op"
		}
		return showExpr(astutil.SimplifyParentheses(e))
	}
	return "bad-op"
}

func doLine(line string) string {
	t := strings.Fields(line)
	if len(t) > 0 && t[0] == "pos" {
		return posLine(t)
	}
	if len(t) > 0 && t[0] == "rw" {
		return rwLine(t)
	}
	if len(t) < 3 || t[0] != "apply" {
		return "bad-op"
	}
	src, err := unhex(t[1])
	if err != nil {
		return "bad-op"
	}
	nfix, err := strconv.Atoi(t[2])
	if err != nil {
		return "bad-op"
	}
	i := 3
	var outs []string
	for f := 0; f < nfix; f++ {
		if i >= len(t) {
			return "bad-op"
		}
		k, err := strconv.Atoi(t[i])
		i++
		if err != nil || i+3*k > len(t) {
			return "bad-op"
		}
		var edits []runner.TextEdit
		for j := 0; j < k; j++ {
			s, e1 := strconv.Atoi(t[i])
			e, e2 := strconv.Atoi(t[i+1])
			nw, e3 := unhex(t[i+2])
			i += 3
			if e1 != nil || e2 != nil || e3 != nil {
				return "bad-op"
			}
			// Line is set so that an End at offset 0 is not mistaken for "no End"
			edits = append(edits, runner.TextEdit{
				Position: token.Position{Filename: "f.go", Offset: s, Line: 1, Column: s + 1},
				End:      token.Position{Filename: "f.go", Offset: e, Line: 1, Column: e + 1},
				NewText:  nw,
			})
		}
		out, p := safeApply(src, edits)
		if p {
			outs = append(outs, "panic")
		} else {
			outs = append(outs, fmt.Sprintf("%d %d", len(out), fnv(out)))
		}
	}
	if i != len(t) {
		return "bad-op"
	}
	return strings.Join(outs, ";")
}
