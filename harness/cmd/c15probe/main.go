// c15probe is a lintcmd-based linter used by the C15 check. It runs the REAL nilness
// analysis (analysis/facts/nilness) and the REAL SA4023 through the real runner/loader
// (facts exported by one package are imported by its dependents exactly as in
// staticcheck) and records, per analysed package,
//
//	N <viewer-pkg> <func-pkg> <func-name> <result-idx> <inner> <outer>
//	    nilness.Result.Nilness(fn, idx) as seen from the pass of <viewer-pkg>, for every
//	    function/method declared in the package itself and in its direct imports;
//	P <pkg> | <function> | <function> ...
//	    the IR subset the Lean model of processBlock interprets, one line per package
//	    (format: see dumpFunction and lean/Verif/C15/Driver.lean).
//
// Records are appended to the file named by $C15_OUT. SA4023's own diagnostics come out
// through the normal lintcmd output (-f json).
package main

import (
	"fmt"
	"go/constant"
	"go/token"
	"go/types"
	"os"
	"reflect"
	"sort"
	"strings"
	"sync"

	"golang.org/x/exp/typeparams"
	"golang.org/x/tools/go/analysis"
	"honnef.co/go/tools/analysis/facts/nilness"
	"honnef.co/go/tools/analysis/lint"
	"honnef.co/go/tools/go/ir"
	"honnef.co/go/tools/go/types/typeutil"
	"honnef.co/go/tools/lintcmd"
	"honnef.co/go/tools/staticcheck/sa4023"
)

// nilness.Analysis requires the (internal) buildir analyzer first; we reach it through
// the Requires list instead of importing an internal package.
var buildirAnalyzer = nilness.Analysis.Requires[0]

var probe = lint.InitializeAnalyzer(&lint.Analyzer{
	Analyzer: &analysis.Analyzer{
		Name:     "VN1500",
		Run:      run,
		Requires: []*analysis.Analyzer{buildirAnalyzer, nilness.Analysis},
	},
	Doc: &lint.RawDocumentation{
		Title:    "nilness probe",
		Since:    "2026.1",
		Severity: lint.SeverityWarning,
		MergeIf:  lint.MergeIfAny,
	},
})

var outMu sync.Mutex

func emit(lines []string) {
	outMu.Lock()
	defer outMu.Unlock()
	name := os.Getenv("C15_OUT")
	if name == "" {
		for _, l := range lines {
			fmt.Println(l)
		}
		return
	}
	f, err := os.OpenFile(name, os.O_APPEND|os.O_CREATE|os.O_WRONLY, 0o644)
	if err != nil {
		panic(err)
	}
	defer f.Close()
	if _, err := f.WriteString(strings.Join(lines, "\n") + "\n"); err != nil {
		panic(err)
	}
}

func funcKey(fn *types.Func) string {
	sig := fn.Type().(*types.Signature)
	if recv := sig.Recv(); recv != nil {
		t := recv.Type()
		if p, ok := t.(*types.Pointer); ok {
			t = p.Elem()
		}
		if n, ok := t.(*types.Named); ok {
			return n.Obj().Name() + "." + fn.Name()
		}
		return "?." + fn.Name()
	}
	return fn.Name()
}

func declaredFuncs(pkg *types.Package) []*types.Func {
	var out []*types.Func
	scope := pkg.Scope()
	for _, name := range scope.Names() {
		switch obj := scope.Lookup(name).(type) {
		case *types.Func:
			out = append(out, obj)
		case *types.TypeName:
			if obj.IsAlias() {
				continue
			}
			named, ok := obj.Type().(*types.Named)
			if !ok {
				continue
			}
			for i := 0; i < named.NumMethods(); i++ {
				out = append(out, named.Method(i))
			}
		}
	}
	return out
}

func run(pass *analysis.Pass) (any, error) {
	res := pass.ResultOf[nilness.Analysis].(*nilness.Result)
	var lines []string
	pkgs := []*types.Package{pass.Pkg}
	imps := append([]*types.Package(nil), pass.Pkg.Imports()...)
	sort.Slice(imps, func(i, j int) bool { return imps[i].Path() < imps[j].Path() })
	for _, p := range imps {
		if p.Path() == "unsafe" {
			continue
		}
		pkgs = append(pkgs, p)
	}
	for _, p := range pkgs {
		for _, fn := range declaredFuncs(p) {
			sig := fn.Type().(*types.Signature)
			if sig.TypeParams() != nil || sig.RecvTypeParams() != nil {
				continue
			}
			for i := 0; i < sig.Results().Len(); i++ {
				vn := res.Nilness(fn, i)
				lines = append(lines, fmt.Sprintf("N %s %s %s %d %d %d", pass.Pkg.Path(), p.Path(), funcKey(fn), i, vn.Inner, vn.Outer))
			}
		}
	}

	// IR dump for the model
	irres := reflect.ValueOf(pass.ResultOf[buildirAnalyzer]).Elem()
	srcFuncs := irres.FieldByName("SrcFuncs").Interface().([]*ir.Function)
	irpkg := irres.FieldByName("Pkg").Interface().(*ir.Package)
	d := &dumper{pass: pass, res: res, irpkg: irpkg, src: map[*ir.Function]bool{}}
	for _, fn := range srcFuncs {
		d.src[fn] = true
	}
	parts := []string{"P " + pass.Pkg.Path()}
	for _, fn := range srcFuncs {
		parts = append(parts, d.dumpFunction(fn))
	}
	lines = append(lines, strings.Join(parts, " | "))
	emit(lines)
	return nil, nil
}

type dumper struct {
	pass  *analysis.Pass
	res   *nilness.Result
	irpkg *ir.Package
	src   map[*ir.Function]bool
}

func b2i(b bool) int {
	if b {
		return 1
	}
	return 0
}

// irName identifies a function of the package under analysis for the model: source
// functions with a types object by funcKey, closures by their IR name.
func (d *dumper) irName(fn *ir.Function) string {
	if obj, ok := fn.Object().(*types.Func); ok && obj != nil {
		return funcKey(obj)
	}
	return "anon:" + strings.ReplaceAll(fn.Name(), " ", "_")
}

// dumpFunction renders one function as records separated by " ; ".
//
//	F <name> <hasobj> <nparams> <nres> {<ptrlike><iface>}*  header (result type flags, 2 digits each)
//	V <vid> <kind> <ptrlike><iface>                    value table (referenced values only)
//	B <bid> succs=<..> preds=<..>
//	I <bid> <kind> <args...>                           in block order
//	U <reason>                                         function is outside the modelled subset
//	N                                                  fn.Blocks == nil
//	R {<inner><outer>}*                                Result.Nilness of the real analysis
func (d *dumper) dumpFunction(fn *ir.Function) string {
	var recs []string
	unmodelled := []string{}
	sig := fn.Signature
	hdr := fmt.Sprintf("F %s %d %d %d", d.irName(fn), b2i(fn.Object() != nil), len(fn.Params), sig.Results().Len())
	for i := 0; i < sig.Results().Len(); i++ {
		t := sig.Results().At(i).Type()
		hdr += fmt.Sprintf(" %d%d", b2i(typeutil.IsPointerLike(t)), b2i(types.IsInterface(t)))
	}
	recs = append(recs, hdr)
	realRec := func() {
		if obj, ok := fn.Object().(*types.Func); ok && obj != nil {
			r := "R"
			for i := 0; i < sig.Results().Len(); i++ {
				vn := d.res.Nilness(obj, i)
				r += fmt.Sprintf(" %d%d", vn.Inner, vn.Outer)
			}
			recs = append(recs, r)
		}
	}
	if fn.Blocks == nil {
		recs = append(recs, "N")
		realRec()
		return strings.Join(recs, " ; ")
	}
	if sig.TypeParams() != nil || sig.RecvTypeParams() != nil || len(fn.TypeArgs()) > 0 {
		unmodelled = append(unmodelled, "generic")
	}
	if strings.HasPrefix(fn.Synthetic, "bound method wrapper") {
		unmodelled = append(unmodelled, "boundwrapper")
	}
	if len(fn.FreeVars) > 0 && fn.Object() != nil {
		unmodelled = append(unmodelled, "freevars")
	}

	ids := map[ir.Value]int{}
	var vrecs []string
	vid := func(v ir.Value) string {
		if v == nil {
			return "-"
		}
		if id, ok := ids[v]; ok {
			return fmt.Sprint(id)
		}
		id := len(ids)
		ids[v] = id
		kind := "instr"
		switch v := v.(type) {
		case *ir.Parameter:
			kind = "param"
		case *ir.FreeVar:
			kind = "freevar"
		case *ir.Builtin:
			kind = "builtin"
		case *ir.Function:
			kind = "func"
		case *ir.Global:
			kind = "global"
		case *ir.Const:
			switch {
			case v.Value == nil:
				kind = "constnil"
			case v.Value.Kind() == constant.Int && constant.Sign(v.Value) == 0:
				kind = "constz"
			case v.Value.Kind() == constant.Int:
				kind = "constnz"
			default:
				kind = "constother"
			}
		case *ir.AggregateConst:
			kind = "aggconst"
		default:
			if _, ok := v.(ir.Instruction); !ok {
				kind = "other"
				unmodelled = append(unmodelled, fmt.Sprintf("value:%T", v))
			}
		}
		t := v.Type()
		if typeparams.IsTypeParam(t) {
			unmodelled = append(unmodelled, "typeparam")
		}
		vrecs = append(vrecs, fmt.Sprintf("V %d %s %d%d", id, kind, b2i(typeutil.IsPointerLike(t)), b2i(types.IsInterface(t))))
		return fmt.Sprint(id)
	}
	// parameters and free variables first: the entry state is populated from them
	for _, p := range fn.Params {
		vid(p)
	}
	for _, fv := range fn.FreeVars {
		vid(fv)
	}

	var irecs []string
	bids := func(bs []*ir.BasicBlock) string {
		var s []string
		for _, b := range bs {
			s = append(s, fmt.Sprint(b.Index))
		}
		if len(s) == 0 {
			return "-"
		}
		return strings.Join(s, ",")
	}
	for _, b := range fn.Blocks {
		irecs = append(irecs, fmt.Sprintf("B %d %s %s", b.Index, bids(b.Succs), bids(b.Preds)))
	}
	isZeroConst := func(v ir.Value) bool {
		// transliteration of checkBound's complement is done on the dump side: 1 = "bound is a non-zero (or non-int64) constant"
		if v == nil {
			return false
		}
		if k, ok := v.(*ir.Const); ok {
			kv, ok := constant.Int64Val(k.Value)
			return !ok || kv != 0
		}
		return false
	}
	allArrays := func(t types.Type) bool { return typeutil.All(t, typeutil.IsType[*types.Array]) }
	for _, b := range fn.Blocks {
		for _, instr := range b.Instrs {
			add := func(format string, args ...any) {
				irecs = append(irecs, fmt.Sprintf("I %d ", b.Index)+fmt.Sprintf(format, args...))
			}
			switch v := instr.(type) {
			case *ir.Convert:
				add("convert %s %s %d", vid(v), vid(v.X), b2i(fromInteger(v.X.Type())))
			case *ir.ChangeType:
				add("changetype %s %s", vid(v), vid(v.X))
			case *ir.MultiConvert:
				unmodelled = append(unmodelled, "MultiConvert")
				add("changetype %s %s", vid(v), vid(v.X))
			case *ir.ChangeInterface:
				add("changeiface %s %s", vid(v), vid(v.X))
			case *ir.SliceToArrayPointer:
				allNonZero := typeutil.All(v.Type(), func(term *types.Term) bool {
					ptr := term.Type().Underlying().(*types.Pointer).Elem()
					return typeutil.All(ptr, func(innerTerm *types.Term) bool {
						return innerTerm.Type().Underlying().(*types.Array).Len() != 0
					})
				})
				add("s2ap %s %s %d", vid(v), vid(v.X), b2i(allNonZero))
			case *ir.SliceToArray:
				allNonZero := typeutil.All(v.Type(), func(term *types.Term) bool {
					return term.Type().Underlying().(*types.Array).Len() != 0
				})
				add("s2a %s %s %d", vid(v), vid(v.X), b2i(allNonZero))
			case *ir.Slice:
				add("slice %s %s %d %d", vid(v), vid(v.X), b2i(allArrays(v.X.Type())),
					b2i(isZeroConst(v.Low) || isZeroConst(v.High) || isZeroConst(v.Max)))
			case *ir.If:
				add("if %s", vid(v.Cond))
			case *ir.BinOp:
				op := "other"
				switch v.Op {
				case token.EQL:
					op = "eq"
				case token.NEQ:
					op = "ne"
				}
				add("binop %s %s %s %s", vid(v), op, vid(v.X), vid(v.Y))
			case *ir.Load:
				add("load %s %s", vid(v), vid(v.X))
			case *ir.FieldAddr:
				add("fieldaddr %s %s", vid(v), vid(v.X))
			case *ir.IndexAddr:
				add("indexaddr %s %s", vid(v), vid(v.X))
			case *ir.Alloc, *ir.MakeMap, *ir.MakeSlice, *ir.MakeClosure, *ir.MakeChan:
				add("alloc %s %s", vid(v.(ir.Value)), strings.ToLower(strings.TrimPrefix(fmt.Sprintf("%T", v), "*ir.")))
			case *ir.MapUpdate:
				add("mapupdate %s", vid(v.Map))
			case *ir.Store:
				add("store %s", vid(v.Addr))
			case ir.CallInstruction:
				d.dumpCall(fn, v, vid, add, &unmodelled)
			case *ir.Send:
				add("send %s", vid(v.Chan))
			case *ir.Recv:
				add("recv %s %s", vid(v), vid(v.Chan))
			case *ir.MakeInterface:
				add("makeiface %s %s", vid(v), vid(v.X))
			case *ir.TypeAssert:
				toIface := types.IsInterface(v.Type()) && !typeparams.IsTypeParam(v.Type())
				add("typeassert %s %s %d %d", vid(v), vid(v.X), b2i(v.CommaOk), b2i(toIface))
			case *ir.TypeSwitch:
				flags := ""
				for _, typ := range v.Conds {
					if b, ok := typ.(*types.Basic); ok && b.Kind() == types.UntypedNil {
						flags += "n"
					} else {
						flags += "t"
					}
				}
				if flags == "" {
					flags = "-"
				}
				add("typeswitch %s %s %s", vid(v), vid(v.Tag), flags)
			case *ir.MapLookup:
				add("maplookup %s %s", vid(v), vid(v.X))
			case *ir.Field:
				add("field %s %s", vid(v), vid(v.X))
			case *ir.Index:
				add("index %s %s", vid(v), vid(v.X))
			case *ir.Extract:
				add("extract %s %s %d", vid(v), vid(v.Tuple), v.Index)
			case *ir.Select:
				if v.Blocking && len(v.States) == 1 {
					add("select1 %s", vid(v.States[0].Chan))
				} else {
					add("nop Select")
				}
			case *ir.Phi:
				var es []string
				for _, e := range v.Edges {
					es = append(es, vid(e))
				}
				add("phi %s %s", vid(v), strings.Join(es, ","))
			case *ir.Return:
				var rs []string
				for _, r := range v.Results {
					rs = append(rs, vid(r))
				}
				if len(rs) == 0 {
					rs = []string{"-"}
				}
				add("return %s", strings.Join(rs, ","))
			case *ir.DebugRef:
				// no record: DebugRef has no effect and would double the dump size
			case *ir.Jump, *ir.BlankStore,
				*ir.Panic, *ir.RunDefers, *ir.Unreachable, *ir.ConstantSwitch,
				*ir.UnOp, *ir.CompositeValue, *ir.Range, *ir.Next:
				add("nop %s", strings.TrimPrefix(fmt.Sprintf("%T", v), "*ir."))
			default:
				unmodelled = append(unmodelled, fmt.Sprintf("instr:%T", v))
				add("nop unknown")
			}
		}
	}
	recs = append(recs, vrecs...)
	recs = append(recs, irecs...)
	if len(unmodelled) > 0 {
		sort.Strings(unmodelled)
		// summary of the real analysis, so that callers of this function can still be modelled
		u := "U " + strings.Join(dedup(unmodelled), ",")
		recs = append(recs, u)
	}
	// what the real analysis says about this function (used by the model only for
	// unmodelled functions; compared with the model's result for modelled ones)
	realRec()
	return strings.Join(recs, " ; ")
}

// fromInteger mirrors the predicate of the same name in nilness.go (the model is told what
// the analysis asks about the operand's type; a change of the predicate there shows up as
// a difference between the real facts and the model's).
func fromInteger(T types.Type) bool {
	return typeutil.Any(T, func(term *types.Term) bool {
		b, ok := term.Type().Underlying().(*types.Basic)
		return ok && b.Info()&types.IsInteger != 0
	})
}

func dedup(s []string) []string {
	var out []string
	for i, x := range s {
		if i == 0 || x != s[i-1] {
			out = append(out, x)
		}
	}
	return out
}

// dumpCall: call <mode> <v|-> <invoke> <valuevid> <nres> {<ptrlike><iface>}* <callee> <arg0|->
// callee: builtin:<name> | local:<irName> | ext:<i><o>,<i><o>,.. | anon | dynamic
func (d *dumper) dumpCall(fn *ir.Function, v ir.CallInstruction, vid func(ir.Value) string, add func(string, ...any), unmodelled *[]string) {
	mode := "call"
	val := "-"
	switch v := v.(type) {
	case *ir.Call:
		val = vid(v)
	case *ir.Defer:
		mode = "defer"
	case *ir.Go:
		mode = "go"
	default:
		*unmodelled = append(*unmodelled, fmt.Sprintf("callinstr:%T", v))
	}
	c := v.Common()
	res := c.Signature().Results()
	flags := ""
	for i := 0; i < res.Len(); i++ {
		t := res.At(i).Type()
		if typeparams.IsTypeParam(t) {
			*unmodelled = append(*unmodelled, "typeparam")
		}
		flags += fmt.Sprintf(" %d%d", b2i(typeutil.IsPointerLike(t)), b2i(types.IsInterface(t)))
	}
	callee := "dynamic"
	if b, ok := c.Value.(*ir.Builtin); ok {
		callee = "builtin:" + b.Name()
	} else if sc := c.StaticCallee(); sc != nil {
		switch {
		case res.Len() == 0:
			callee = "anon" // impl returns nil for result-less functions; never consulted
		case sc.Object() == nil:
			callee = "anon"
		case len(sc.TypeArgs()) > 0 || sc.Signature.TypeParams() != nil || sc.Signature.RecvTypeParams() != nil:
			*unmodelled = append(*unmodelled, "genericcallee")
			callee = "anon"
		case sc.Pkg == d.irpkg && d.src[sc] && sc.Blocks != nil:
			callee = "local:" + d.irName(sc)
		default:
			// another package (facts) or a synthetic function: the summary is what
			// impl() returns for it: the imported fact, else the bail-out default.
			// Result.Nilness gives exactly normalize(fact) / {MaybeNil,MaybeNil}.
			obj, ok := sc.Object().(*types.Func)
			if !ok || sc.Pkg == d.irpkg || sc.Pkg == nil {
				*unmodelled = append(*unmodelled, "syntheticcallee")
				callee = "anon"
				break
			}
			var parts []string
			for i := 0; i < obj.Type().(*types.Signature).Results().Len(); i++ {
				vn := d.res.Nilness(obj, i)
				parts = append(parts, fmt.Sprintf("%d%d", vn.Inner, vn.Outer))
			}
			callee = "ext:" + strings.Join(parts, ",")
		}
	}
	arg0 := "-"
	if len(c.Args) > 0 {
		arg0 = vid(c.Args[0])
	}
	add("call %s %s %d %s %d%s %s %s", mode, val, b2i(c.IsInvoke()), vid(c.Value), res.Len(), flags, callee, arg0)
}

func main() {
	cmd := lintcmd.NewCommand("c15probe")
	cmd.SetVersion("verif", "verif")
	cmd.ParseFlags(os.Args[1:])
	cmd.AddAnalyzers(probe, sa4023.SCAnalyzer)
	cmd.Run()
}
