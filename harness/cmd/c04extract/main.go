// c04extract reads the *source* of a go-tools tree (go/parser, go/ast only; nothing is
// executed) and prints, as JSON, the shape of the cache key and of the analysis inputs that
// the C04 model is parameterised with:
//
//	cfgFields      fields of config.Config (config/config.go)
//	cfgHashed      fields whose value reaches fmt.Fprintf(h, "cfg …", …) in subrunner.do
//	cfgReads       fields read through config.For(pass) anywhere outside package config
//	envHashed      environment variables whose value is written into the key in subrunner.do
//	envReads       environment variables read by analysis-time packages
//	srcActionTags  tags of the Fprintf calls on the hash of subrunner.do
//	srcPkgTags     tags of the Fprintf calls on the hash of computeHash
//	notes          everything the extraction could not resolve (resolved pessimistically)
//
// Usage: c04extract <repo root> [<file listing the package directories linked into cmd/staticcheck>]
// With the second argument only those directories are searched for readers.
package main

import (
	"encoding/json"
	"fmt"
	"go/ast"
	"go/parser"
	"go/token"
	"io/fs"
	"os"
	"path/filepath"
	"sort"
	"strconv"
	"strings"
)

type out struct {
	CfgFields     []string `json:"cfgFields"`
	CfgHashed     []string `json:"cfgHashed"`
	CfgReads      []string `json:"cfgReads"`
	CfgReadSites  []string `json:"cfgReadSites"`
	EnvHashed     []string `json:"envHashed"`
	EnvReads      []string `json:"envReads"`
	EnvReadSites  []string `json:"envReadSites"`
	SrcActionTags []string `json:"srcActionTags"`
	SrcPkgTags    []string `json:"srcPkgTags"`
	Notes         []string `json:"notes"`
}

var res out
var fset = token.NewFileSet()

func note(f string, a ...any) { res.Notes = append(res.Notes, fmt.Sprintf(f, a...)) }

func add(l *[]string, s string) {
	for _, x := range *l {
		if x == s {
			return
		}
	}
	*l = append(*l, s)
}

func has(l []string, s string) bool {
	for _, x := range l {
		if x == s {
			return true
		}
	}
	return false
}

func parse(path string) *ast.File {
	f, err := parser.ParseFile(fset, path, nil, parser.ParseComments)
	if err != nil {
		fmt.Fprintln(os.Stderr, "c04extract:", err)
		os.Exit(2)
	}
	return f
}

func findFunc(f *ast.File, recv, name string) *ast.FuncDecl {
	for _, d := range f.Decls {
		fd, ok := d.(*ast.FuncDecl)
		if !ok || fd.Name.Name != name || fd.Body == nil {
			continue
		}
		if recv == "" {
			if fd.Recv == nil {
				return fd
			}
			continue
		}
		if fd.Recv == nil || len(fd.Recv.List) != 1 {
			continue
		}
		t := fd.Recv.List[0].Type
		if st, ok := t.(*ast.StarExpr); ok {
			t = st.X
		}
		if id, ok := t.(*ast.Ident); ok && id.Name == recv {
			return fd
		}
	}
	return nil
}

func isSel(e ast.Expr, x, sel string) bool {
	s, ok := e.(*ast.SelectorExpr)
	if !ok || s.Sel.Name != sel {
		return false
	}
	id, ok := s.X.(*ast.Ident)
	return ok && id.Name == x
}

func strLit(e ast.Expr) (string, bool) {
	b, ok := e.(*ast.BasicLit)
	if !ok || b.Kind != token.STRING {
		return "", false
	}
	s, err := strconv.Unquote(b.Value)
	return s, err == nil
}

func isNil(e ast.Expr) bool {
	id, ok := e.(*ast.Ident)
	return ok && id.Name == "nil"
}

// importName returns the local name under which file f imports path ("" if it does not).
func importName(f *ast.File, path string) string {
	for _, im := range f.Imports {
		p, _ := strconv.Unquote(im.Path.Value)
		if p != path {
			continue
		}
		if im.Name != nil {
			return im.Name.Name
		}
		return path[strings.LastIndex(path, "/")+1:]
	}
	return ""
}

// ---------------------------------------------------------------- config.Config
func configFields(root string) {
	f := parse(filepath.Join(root, "config", "config.go"))
	for _, d := range f.Decls {
		gd, ok := d.(*ast.GenDecl)
		if !ok {
			continue
		}
		for _, s := range gd.Specs {
			ts, ok := s.(*ast.TypeSpec)
			if !ok || ts.Name.Name != "Config" {
				continue
			}
			st, ok := ts.Type.(*ast.StructType)
			if !ok {
				continue
			}
			for _, fl := range st.Fields.List {
				for _, n := range fl.Names {
					res.CfgFields = append(res.CfgFields, n.Name)
				}
				if len(fl.Names) == 0 {
					note("config.Config has an embedded field: not modelled")
				}
			}
		}
	}
}

// ---------------------------------------------------------------- subrunner.do
// cfgSet evaluates which fields of a config.Config-valued expression carry a (possibly)
// non-zero value. vars holds the sets of local variables assigned so far.
func cfgSet(e ast.Expr, vars map[string][]string, cfgPkg string) ([]string, bool) {
	switch e := e.(type) {
	case *ast.ParenExpr:
		return cfgSet(e.X, vars, cfgPkg)
	case *ast.Ident:
		if s, ok := vars[e.Name]; ok {
			return append([]string(nil), s...), true
		}
		return nil, false
	case *ast.CompositeLit:
		if !isSel(e.Type, cfgPkg, "Config") {
			return nil, false
		}
		var s []string
		for i, el := range e.Elts {
			if kv, ok := el.(*ast.KeyValueExpr); ok {
				k, ok := kv.Key.(*ast.Ident)
				if !ok {
					return nil, false
				}
				if !isNil(kv.Value) {
					add(&s, k.Name)
				}
			} else if i < len(res.CfgFields) {
				if !isNil(el) {
					add(&s, res.CfgFields[i])
				}
			}
		}
		return s, true
	case *ast.SelectorExpr:
		// a.cfg, r.cfg, a.Package.Config …: a complete configuration value
		return append([]string(nil), res.CfgFields...), true
	case *ast.CallExpr:
		// x.Merge(y) and friends: a complete configuration value
		return append([]string(nil), res.CfgFields...), true
	}
	return nil, false
}

func firstWord(s string) string {
	s = strings.TrimLeft(s, " ")
	i := strings.IndexAny(s, " \n%")
	if i < 0 {
		return s
	}
	return s[:i]
}

func runnerDo(root string) {
	f := parse(filepath.Join(root, "lintcmd", "runner", "runner.go"))
	fd := findFunc(f, "subrunner", "do")
	if fd == nil {
		note("lintcmd/runner/runner.go: func (*subrunner) do not found")
		return
	}
	cfgPkg := importName(f, "honnef.co/go/tools/config")
	cachePkg := importName(f, "honnef.co/go/tools/lintcmd/cache")
	vars := map[string][]string{}
	hashVar := ""
	sawCfg := false
	var walk func(n ast.Node)
	walkStmt := func(n ast.Node) bool {
		switch s := n.(type) {
		case *ast.AssignStmt:
			for i, lhs := range s.Lhs {
				if i >= len(s.Rhs) {
					break
				}
				rhs := s.Rhs[i]
				if id, ok := lhs.(*ast.Ident); ok {
					if c, ok := rhs.(*ast.CallExpr); ok && isSel(c.Fun, cachePkg, "NewHash") && hashVar == "" {
						hashVar = id.Name
						add(&res.SrcActionTags, "salt")
						continue
					}
					// only track variables that look like a configuration value
					if set, ok := cfgSet(rhs, vars, cfgPkg); ok {
						_, isLit := rhs.(*ast.CompositeLit)
						sel, isSelE := rhs.(*ast.SelectorExpr)
						_, known := rhs.(*ast.Ident)
						if isLit || known || (isSelE && strings.EqualFold(sel.Sel.Name, "cfg")) || strings.Contains(strings.ToLower(id.Name), "cfg") {
							vars[id.Name] = set
						}
					}
					continue
				}
				if se, ok := lhs.(*ast.SelectorExpr); ok {
					if id, ok := se.X.(*ast.Ident); ok {
						if set, tracked := vars[id.Name]; tracked && has(res.CfgFields, se.Sel.Name) {
							var ns []string
							for _, x := range set {
								if x != se.Sel.Name {
									ns = append(ns, x)
								}
							}
							if !isNil(rhs) {
								ns = append(ns, se.Sel.Name)
							}
							vars[id.Name] = ns
						}
					}
				}
			}
		case *ast.CallExpr:
			if !isSel(s.Fun, "fmt", "Fprintf") || len(s.Args) < 2 {
				break
			}
			if id, ok := s.Args[0].(*ast.Ident); !ok || id.Name != hashVar {
				break
			}
			format, ok := strLit(s.Args[1])
			if !ok {
				note("subrunner.do: Fprintf on the hash with a non-constant format")
				break
			}
			tag := firstWord(format)
			add(&res.SrcActionTags, tag)
			switch tag {
			case "cfg":
				sawCfg = true
				for _, a := range s.Args[2:] {
					if se, ok := a.(*ast.SelectorExpr); ok && has(res.CfgFields, se.Sel.Name) {
						if id, ok := se.X.(*ast.Ident); ok {
							if set, tracked := vars[id.Name]; tracked {
								if has(set, se.Sel.Name) {
									add(&res.CfgHashed, se.Sel.Name)
								}
								continue
							}
						}
						add(&res.CfgHashed, se.Sel.Name)
						continue
					}
					set, ok := cfgSet(a, vars, cfgPkg)
					if !ok {
						note("subrunner.do: argument of the cfg component not understood (%s): treated as hashing nothing", fset.Position(a.Pos()))
						continue
					}
					for _, x := range set {
						add(&res.CfgHashed, x)
					}
				}
			case "env":
				for _, a := range s.Args[2:] {
					c, ok := a.(*ast.CallExpr)
					if ok && (isSel(c.Fun, "os", "Getenv") || isSel(c.Fun, "os", "LookupEnv")) && len(c.Args) == 1 {
						if v, ok := strLit(c.Args[0]); ok {
							add(&res.EnvHashed, v)
							continue
						}
					}
					note("subrunner.do: argument of the env component not understood (%s)", fset.Position(a.Pos()))
				}
			}
		}
		return true
	}
	walk = func(n ast.Node) { ast.Inspect(n, func(n ast.Node) bool { return n == nil || walkStmt(n) }) }
	walk(fd.Body)
	if !sawCfg {
		note("subrunner.do: no Fprintf(h, \"cfg …\") found")
	}
	// the order of the struct, for stable output
	var ordered []string
	for _, x := range res.CfgFields {
		if has(res.CfgHashed, x) {
			ordered = append(ordered, x)
		}
	}
	res.CfgHashed = ordered
}

// ---------------------------------------------------------------- computeHash
func loaderHash(root string) {
	f := parse(filepath.Join(root, "go", "loader", "hash.go"))
	fd := findFunc(f, "", "computeHash")
	if fd == nil {
		note("go/loader/hash.go: func computeHash not found")
		return
	}
	cachePkg := importName(f, "honnef.co/go/tools/lintcmd/cache")
	hashVar := ""
	ast.Inspect(fd.Body, func(n ast.Node) bool {
		switch s := n.(type) {
		case *ast.AssignStmt:
			if len(s.Lhs) == 1 && len(s.Rhs) == 1 {
				if c, ok := s.Rhs[0].(*ast.CallExpr); ok && isSel(c.Fun, cachePkg, "NewHash") && hashVar == "" {
					if id, ok := s.Lhs[0].(*ast.Ident); ok {
						hashVar = id.Name
						add(&res.SrcPkgTags, "salt")
					}
				}
			}
		case *ast.CallExpr:
			if !isSel(s.Fun, "fmt", "Fprintf") || len(s.Args) < 2 {
				break
			}
			if id, ok := s.Args[0].(*ast.Ident); !ok || id.Name != hashVar {
				break
			}
			format, ok := strLit(s.Args[1])
			if !ok {
				break
			}
			switch {
			case strings.HasPrefix(format, "goos "):
				add(&res.SrcPkgTags, "goos")
			case strings.HasPrefix(format, "import %q"):
				add(&res.SrcPkgTags, "import-self")
			case strings.HasPrefix(format, "files ") || strings.HasPrefix(format, "file "):
				add(&res.SrcPkgTags, "files")
			case strings.HasPrefix(format, "import "):
				add(&res.SrcPkgTags, "import")
			default:
				add(&res.SrcPkgTags, firstWord(format))
			}
		}
		return true
	})
}

// ---------------------------------------------------------------- readers
// analysis-time code: everything that can run inside doUncached (the analyzers, the IR, the
// helpers they use). The loader, the runner, the cache and the command line run outside the
// memoised function and are not readers in the sense of the model.
var analysisDirs = []string{"analysis", "staticcheck", "simple", "stylecheck", "quickfix", "unused",
	"go/ir", "go/types", "go/ast", "internal/passes", "internal/sharedcheck", "knowledge", "pattern",
	"printf", "config"}

func hasVerifTag(f *ast.File) bool {
	for _, cg := range f.Comments {
		if cg.Pos() > f.Package {
			break
		}
		for _, c := range cg.List {
			if strings.HasPrefix(c.Text, "//go:build") && strings.Contains(c.Text, "verif") && !strings.Contains(c.Text, "!verif") {
				return true
			}
		}
	}
	return false
}

func readers(root string, linked map[string]bool) {
	var files []string
	filepath.WalkDir(root, func(p string, d fs.DirEntry, err error) error {
		if err != nil {
			return nil
		}
		rel, _ := filepath.Rel(root, p)
		if !d.IsDir() && linked != nil && !linked[filepath.Dir(p)] {
			return nil
		}
		if d.IsDir() {
			b := d.Name()
			if rel != "." && (strings.HasPrefix(b, ".") || strings.HasPrefix(b, "_") || b == "testdata" || b == "website" || b == "vendor") {
				return filepath.SkipDir
			}
			return nil
		}
		if strings.HasSuffix(p, ".go") && !strings.HasSuffix(p, "_test.go") {
			files = append(files, p)
		}
		return nil
	})
	sort.Strings(files)
	for _, p := range files {
		rel, _ := filepath.Rel(root, p)
		rel = filepath.ToSlash(rel)
		f := parse(p)
		cfgPkg := importName(f, "honnef.co/go/tools/config")
		if cfgPkg != "" && !strings.HasPrefix(rel, "config/") {
			cfgReaders(f, rel, cfgPkg)
		}
		inAnalysis := false
		for _, d := range analysisDirs {
			if strings.HasPrefix(rel, d+"/") {
				inAnalysis = true
			}
		}
		if inAnalysis && !hasVerifTag(f) && importName(f, "os") != "" {
			envReaders(f, rel, importName(f, "os"))
		}
	}
}

func allCfg(site, why string) {
	note("%s: %s: treated as reading every field of config.Config", site, why)
	for _, x := range res.CfgFields {
		add(&res.CfgReads, x)
	}
}

func cfgReaders(f *ast.File, rel, cfgPkg string) {
	var stack []ast.Node
	// local variables holding config.For(pass): name -> true (per file; names are rarely reused)
	held := map[string]bool{}
	isFor := func(e ast.Expr) bool {
		c, ok := e.(*ast.CallExpr)
		return ok && isSel(c.Fun, cfgPkg, "For")
	}
	ast.Inspect(f, func(n ast.Node) bool {
		if n == nil {
			stack = stack[:len(stack)-1]
			return true
		}
		var parent ast.Node
		if len(stack) > 0 {
			parent = stack[len(stack)-1]
		}
		stack = append(stack, n)
		site := func() string { p := fset.Position(n.Pos()); return fmt.Sprintf("%s:%d", rel, p.Line) }
		switch e := n.(type) {
		case *ast.CallExpr:
			if !isFor(e) {
				break
			}
			switch p := parent.(type) {
			case *ast.SelectorExpr:
				add(&res.CfgReads, p.Sel.Name)
				add(&res.CfgReadSites, site()+" "+p.Sel.Name)
			case *ast.AssignStmt:
				ok := false
				for i, r := range p.Rhs {
					if r == ast.Expr(e) && i < len(p.Lhs) {
						if id, isId := p.Lhs[i].(*ast.Ident); isId {
							held[id.Name] = true
							ok = true
						}
					}
				}
				if !ok {
					allCfg(site(), "config.For(…) assigned to something that is not a variable")
				}
			case *ast.StarExpr:
				allCfg(site(), "config.For(…) dereferenced as a whole")
			default:
				allCfg(site(), "config.For(…) used as a whole")
			}
		case *ast.IndexExpr:
			// pass.ResultOf[config.Analyzer] outside package config
			if isSel(e.Index, cfgPkg, "Analyzer") {
				allCfg(site(), "direct use of the result of config.Analyzer")
			}
		case *ast.Ident:
			if !held[e.Name] {
				break
			}
			switch p := parent.(type) {
			case *ast.SelectorExpr:
				if p.X == ast.Expr(e) {
					add(&res.CfgReads, p.Sel.Name)
					add(&res.CfgReadSites, site()+" "+p.Sel.Name)
				}
			case *ast.AssignStmt:
				onLeft := false
				for _, l := range p.Lhs {
					if l == ast.Expr(e) {
						onLeft = true
					}
				}
				if !onLeft {
					allCfg(site(), "variable holding config.For(…) copied")
				}
			default:
				allCfg(site(), "variable holding config.For(…) used as a whole")
			}
		}
		return true
	})
}

func envReaders(f *ast.File, rel, osPkg string) {
	ast.Inspect(f, func(n ast.Node) bool {
		c, ok := n.(*ast.CallExpr)
		if !ok {
			return true
		}
		p := fset.Position(c.Pos())
		site := fmt.Sprintf("%s:%d", rel, p.Line)
		switch {
		case isSel(c.Fun, osPkg, "Getenv") || isSel(c.Fun, osPkg, "LookupEnv"):
			if len(c.Args) == 1 {
				if v, ok := strLit(c.Args[0]); ok {
					add(&res.EnvReads, v)
					add(&res.EnvReadSites, site+" "+v)
					return true
				}
			}
			add(&res.EnvReads, "*")
			add(&res.EnvReadSites, site+" *")
		case isSel(c.Fun, osPkg, "Environ") || isSel(c.Fun, osPkg, "ExpandEnv"):
			add(&res.EnvReads, "*")
			add(&res.EnvReadSites, site+" *")
		}
		return true
	})
}

func main() {
	if len(os.Args) != 2 && len(os.Args) != 3 {
		fmt.Fprintln(os.Stderr, "usage: c04extract <repo root> [<linked dirs file>]")
		os.Exit(2)
	}
	root, _ := filepath.Abs(os.Args[1])
	var linked map[string]bool
	if len(os.Args) == 3 {
		b, err := os.ReadFile(os.Args[2])
		if err != nil {
			fmt.Fprintln(os.Stderr, "c04extract:", err)
			os.Exit(2)
		}
		linked = map[string]bool{}
		for _, l := range strings.Split(string(b), "\n") {
			if l = strings.TrimSpace(l); l != "" {
				linked[filepath.Clean(l)] = true
			}
		}
	}
	res = out{CfgFields: []string{}, CfgHashed: []string{}, CfgReads: []string{}, CfgReadSites: []string{}, EnvHashed: []string{},
		EnvReads: []string{}, EnvReadSites: []string{}, SrcActionTags: []string{}, SrcPkgTags: []string{}, Notes: []string{}}
	configFields(root)
	runnerDo(root)
	loaderHash(root)
	readers(root, linked)
	// cfgReads in struct order
	var ordered []string
	for _, x := range res.CfgFields {
		if has(res.CfgReads, x) {
			ordered = append(ordered, x)
		}
	}
	for _, x := range res.CfgReads {
		if !has(ordered, x) {
			ordered = append(ordered, x)
		}
	}
	res.CfgReads = ordered
	b, _ := json.MarshalIndent(res, "", " ")
	fmt.Println(string(b))
}
