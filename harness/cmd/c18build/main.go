// c18build drives the real go/ir builder of the repository under test for property C18
// ("IR program build is idempotent and safe under parallel building").
//
//	c18build -in programs.json [-reps N] [-modes 0,G,D,GD] [-only name] [-abstract]
//
// programs.json: a JSON array of programs; a program is a list of packages in dependency
// order, every package a list of in-memory source files plus a kind:
//
//	"syntax"  type-checked from source and passed to Program.CreatePackage with syntax
//	"types"   type-checked from source, CreatePackage WITHOUT syntax (like export data)
//	"hidden"  type-checked from source, never passed to CreatePackage (indirect dependency;
//	          its methods are created on demand "from type information")
//
// For every program and builder mode the program is type-checked afresh and built
//
//	serial     BuildSerially, Program.Build                       -> reference dump
//	parallel   Program.Build, -reps times                          -> dump == reference
//	twice      Program.Build, Program.Build, every Package.Build   -> nothing changes
//	concurrent Program.Build / Package.Build from many goroutines  -> dump == reference
//	perpkg     one goroutine per package calls Package.Build and, the moment it returns,
//	           inspects every function that package's build depends on
//	methods    Program.MethodValue for every method of every named type from many
//	           goroutines at once (after Build)                   -> one function per method
//
// GOMAXPROCS is taken from the environment (go/ir sizes its cpuLimit semaphore at
// process start), so the check runs this command once per GOMAXPROCS value.
//
// After every build EVERY function of the program (package functions, methods, anonymous
// functions and every synthetic function reachable through operands or recorded in the
// memo tables generic.instances / Program.objectMethods) must be built (build == nil) and
// have Blocks unless it is external by construction; shared functions must be unique per
// key; WriteFunction dumps, value names renumbered, must equal the serial reference.
//
// Output: one JSON object per (program, mode) on stdout; "BEGIN <prog> <mode> <variant>"
// progress lines on stderr so that a crash of the process can be attributed.
package main

import (
	"bytes"
	"crypto/sha256"
	"encoding/hex"
	"encoding/json"
	"flag"
	"fmt"
	"go/ast"
	"go/parser"
	"go/token"
	"go/types"
	"os"
	"reflect"
	"regexp"
	"runtime"
	"runtime/pprof"
	"sort"
	"strconv"
	"strings"
	"sync"
	"unsafe"

	"honnef.co/go/tools/go/ir"
)

// ---------------------------------------------------------------- input

type FileSpec struct {
	Name string `json:"name"`
	Src  string `json:"src"`
}

type PkgSpec struct {
	Path  string     `json:"path"`
	Kind  string     `json:"kind"`
	Files []FileSpec `json:"files"`
}

type ProgSpec struct {
	Name string    `json:"name"`
	Pkgs []PkgSpec `json:"pkgs"`
}

// ---------------------------------------------------------------- output

type Problem struct {
	Kind    string `json:"kind"`
	Variant string `json:"variant"`
	Detail  string `json:"detail"`
}

type AbsFn struct {
	ID    int    `json:"id"`
	Name  string `json:"name"`
	Owner int    `json:"owner"` // package index for package functions, -1 for shared functions
	Task  int    `json:"task"`  // id of fn.buildshared in the final task graph, -1 if nil
	Built bool   `json:"built"`
	Refs  []int  `json:"refs"` // shared functions referenced from the body (through private functions)
}

type FinalTask struct {
	ID    int   `json:"id"`
	Done  bool  `json:"done"`
	Trans bool  `json:"trans"`
	Edges []int `json:"edges"`
	Owns  []int `json:"owns"` // the shared functions carrying this task
}

type Result struct {
	Prog     string         `json:"prog"`
	Mode     string         `json:"mode"`
	Procs    int            `json:"gomaxprocs"`
	NFuncs   int            `json:"nfuncs"`
	NShared  int            `json:"nshared"`
	NBuilds  int            `json:"nbuilds"`
	Kinds    map[string]int `json:"kinds"`
	RefHash  string         `json:"ref_hash"`
	Problems []Problem      `json:"problems"`
	Abstract []AbsFn        `json:"abstract,omitempty"`
	NPkgs    int            `json:"npkgs"`
	Final    []FinalTask    `json:"final,omitempty"` // task graph left behind by one parallel build
	Shared   []string       `json:"shared,omitempty"`
	Trace    *Trace         `json:"trace,omitempty"` // protocol events of one traced parallel build
}

// ---------------------------------------------------------------- loading

type lpkg struct {
	spec  *PkgSpec
	tpkg  *types.Package
	files []*ast.File
	info  *types.Info
}

type loaded struct {
	fset *token.FileSet
	pkgs []*lpkg
}

type mapImporter map[string]*types.Package

func (m mapImporter) Import(path string) (*types.Package, error) {
	if p, ok := m[path]; ok {
		return p, nil
	}
	return nil, fmt.Errorf("package %q not in program (or not before its importer)", path)
}

func load(spec *ProgSpec) (*loaded, error) {
	l := &loaded{fset: token.NewFileSet()}
	imp := mapImporter{}
	for i := range spec.Pkgs {
		ps := &spec.Pkgs[i]
		lp := &lpkg{spec: ps}
		for _, f := range ps.Files {
			af, err := parser.ParseFile(l.fset, ps.Path+"/"+f.Name, f.Src, parser.ParseComments|parser.SkipObjectResolution)
			if err != nil {
				return nil, err
			}
			lp.files = append(lp.files, af)
		}
		lp.info = &types.Info{
			Types:        make(map[ast.Expr]types.TypeAndValue),
			Defs:         make(map[*ast.Ident]types.Object),
			Uses:         make(map[*ast.Ident]types.Object),
			Implicits:    make(map[ast.Node]types.Object),
			Scopes:       make(map[ast.Node]*types.Scope),
			Selections:   make(map[*ast.SelectorExpr]*types.Selection),
			Instances:    make(map[*ast.Ident]types.Instance),
			FileVersions: make(map[*ast.File]string),
		}
		conf := types.Config{Importer: imp}
		tp, err := conf.Check(ps.Path, l.fset, lp.files, lp.info)
		if err != nil {
			return nil, fmt.Errorf("type-checking %s: %v", ps.Path, err)
		}
		lp.tpkg = tp
		imp[ps.Path] = tp
		l.pkgs = append(l.pkgs, lp)
	}
	return l, nil
}

type built struct {
	l    *loaded
	prog *ir.Program
	pkgs []*ir.Package // index as in the spec; nil for hidden packages
}

func create(spec *ProgSpec, mode ir.BuilderMode) (*built, error) {
	l, err := load(spec)
	if err != nil {
		return nil, err
	}
	b := &built{l: l, prog: ir.NewProgram(l.fset, mode)}
	for _, lp := range l.pkgs {
		switch lp.spec.Kind {
		case "syntax":
			b.pkgs = append(b.pkgs, b.prog.CreatePackage(lp.tpkg, lp.files, lp.info, true))
		case "types":
			b.pkgs = append(b.pkgs, b.prog.CreatePackage(lp.tpkg, nil, nil, true))
		case "hidden":
			b.pkgs = append(b.pkgs, nil)
		default:
			return nil, fmt.Errorf("bad package kind %q", lp.spec.Kind)
		}
	}
	return b, nil
}

// ---------------------------------------------------------------- reading unexported state

func fld(p any, name string) reflect.Value {
	v := reflect.ValueOf(p).Elem().FieldByName(name)
	if !v.IsValid() {
		fatal("go/ir has no field %s in %T any more; the harness must be adapted", name, p)
	}
	return reflect.NewAt(v.Type(), unsafe.Pointer(v.UnsafeAddr())).Elem()
}

func fatal(format string, args ...any) {
	fmt.Fprintf(os.Stderr, "c18build: "+format+"\n", args...)
	os.Exit(2)
}

// isBuilt reports whether fn.build == nil ("function is built").
func isBuilt(fn *ir.Function) bool { return fld(fn, "build").IsNil() }

// taskOf returns fn.buildshared (the task of the builder that created a shared function).
func taskOf(fn *ir.Function) unsafe.Pointer { return fld(fn, "buildshared").UnsafePointer() }

func asFunc(v reflect.Value) *ir.Function { return (*ir.Function)(v.UnsafePointer()) }

// instancesOf returns the values of fn.generic.instances.
func instancesOf(fn *ir.Function) []*ir.Function {
	g := fld(fn, "generic")
	if g.IsNil() {
		return nil
	}
	m := g.Elem().FieldByName("instances")
	var out []*ir.Function
	it := m.MapRange()
	for it.Next() {
		out = append(out, asFunc(it.Value()))
	}
	return out
}

func objectMethods(prog *ir.Program) []*ir.Function {
	m := fld(prog, "objectMethods")
	var out []*ir.Function
	it := m.MapRange()
	for it.Next() {
		out = append(out, asFunc(it.Value()))
	}
	return out
}

type taskView struct {
	done, trans bool
	edges       []unsafe.Pointer
}

func viewTask(t unsafe.Pointer) taskView {
	tv := reflect.NewAt(taskType(), t).Elem()
	var r taskView
	d := tv.FieldByName("done")
	d = reflect.NewAt(d.Type(), unsafe.Pointer(d.UnsafeAddr())).Elem()
	// nothing is ever sent on done: TryRecv yields (zero Value, false) while the channel
	// is open and (zero element, false) once it is closed
	x, ok := d.TryRecv()
	r.done = !ok && x.IsValid()
	tr := tv.FieldByName("transitive")
	tr = reflect.NewAt(tr.Type(), unsafe.Pointer(tr.UnsafeAddr()))
	r.trans = tr.MethodByName("Load").Call(nil)[0].Bool()
	e := tv.FieldByName("edges")
	it := e.MapRange()
	for it.Next() {
		r.edges = append(r.edges, it.Key().UnsafePointer())
	}
	return r
}

var taskTypeCache reflect.Type

func taskType() reflect.Type {
	if taskTypeCache == nil {
		f, ok := reflect.TypeOf(ir.Function{}).FieldByName("buildshared")
		if !ok {
			fatal("ir.Function has no field buildshared")
		}
		taskTypeCache = f.Type.Elem()
	}
	return taskTypeCache
}

// ---------------------------------------------------------------- walking functions

// operandFuncs calls visit for every function used as an operand in fn or in the
// anonymous functions nested in fn.
func operandFuncs(fn *ir.Function, visit func(*ir.Function)) {
	var rands []*ir.Value
	for _, b := range fn.Blocks {
		if b == nil {
			continue
		}
		for _, instr := range b.Instrs {
			rands = instr.Operands(rands[:0])
			for _, op := range rands {
				if g, ok := (*op).(*ir.Function); ok && g != nil {
					visit(g)
				}
			}
		}
	}
	for _, a := range fn.AnonFuncs {
		operandFuncs(a, visit)
	}
}

func outermost(fn *ir.Function) *ir.Function {
	for fn.Parent() != nil {
		fn = fn.Parent()
	}
	return fn
}

// closure returns the outermost functions reachable from roots through operands,
// following a function only if follow says so. Anonymous functions are represented by
// their outermost parent.
func closure(roots []*ir.Function, follow func(*ir.Function) bool) []*ir.Function {
	seen := map[*ir.Function]bool{}
	var order []*ir.Function
	var visit func(fn *ir.Function)
	visit = func(fn *ir.Function) {
		fn = outermost(fn)
		if seen[fn] || !follow(fn) {
			return
		}
		seen[fn] = true
		order = append(order, fn)
		operandFuncs(fn, visit)
	}
	for _, r := range roots {
		visit(r)
	}
	return order
}

func withAnons(fns []*ir.Function) []*ir.Function {
	var out []*ir.Function
	var add func(fn *ir.Function)
	add = func(fn *ir.Function) {
		out = append(out, fn)
		for _, a := range fn.AnonFuncs {
			add(a)
		}
	}
	for _, fn := range fns {
		add(fn)
	}
	return out
}

func (b *built) syntaxPkg(p *ir.Package) bool {
	for i, q := range b.pkgs {
		if q == p {
			return b.l.pkgs[i].spec.Kind == "syntax"
		}
	}
	return false
}

// allFunctions: every outermost function of the program: functions and methods of the
// created packages, everything reachable through operands, everything in the memo tables.
func (b *built) allFunctions() []*ir.Function {
	var roots []*ir.Function
	for _, p := range b.pkgs {
		if p != nil {
			roots = append(roots, p.Functions...)
		}
	}
	all := closure(roots, func(*ir.Function) bool { return true })
	// memo tables: instances of every generic function seen, objectMethods; iterate to a fixed point
	seen := map[*ir.Function]bool{}
	for _, f := range all {
		seen[f] = true
	}
	for i := 0; i < len(all); i++ {
		var extra []*ir.Function
		extra = append(extra, instancesOf(all[i])...)
		if i == 0 {
			extra = append(extra, objectMethods(b.prog)...)
		}
		for _, e := range closure(extra, func(f *ir.Function) bool { return !seen[f] }) {
			if !seen[e] {
				seen[e] = true
				all = append(all, e)
			}
		}
	}
	return all
}

func kindOf(fn *ir.Function) string {
	s := fn.Synthetic
	switch {
	case s == "":
		return "declared"
	case s == "package initializer":
		return "init"
	case strings.HasPrefix(s, "from type information (on demand)"):
		return "ondemand"
	case strings.HasPrefix(s, "from type information"):
		return "typesonly"
	case strings.HasPrefix(s, "instance of"):
		return "instance"
	case strings.HasPrefix(s, "instantiation wrapper of"):
		return "instwrapper"
	case strings.HasPrefix(s, "wrapper for"):
		return "wrapper"
	case strings.HasPrefix(s, "thunk for"):
		return "thunk"
	case strings.HasPrefix(s, "bound method wrapper for"):
		return "bound"
	}
	return "other:" + s
}

// sharedKind: functions memoised per key in the Program (created by whichever builder
// needs them first and handed to the others through the task graph).
func sharedKind(k string) bool {
	return k == "instance" || k == "instwrapper" || k == "ondemand" || k == "wrapper"
}

func typeArgsString(fn *ir.Function) string {
	var sb strings.Builder
	for i, t := range fn.TypeArgs() {
		if i > 0 {
			sb.WriteByte(',')
		}
		sb.WriteString(types.TypeString(t, nil))
	}
	return sb.String()
}

func keyOf(fn *ir.Function) string {
	return kindOf(fn) + " " + fn.String() + " [" + typeArgsString(fn) + "] func" + sigString(fn.Signature)
}

// expectBody: must a built fn have Blocks?
func (b *built) expectBody(fn *ir.Function) bool {
	switch kindOf(fn) {
	case "declared":
		if d, ok := fn.Syntax().(*ast.FuncDecl); ok && d.Body == nil {
			return false
		}
		return fn.Syntax() != nil
	case "init":
		return b.syntaxPkg(fn.Pkg)
	case "ondemand", "typesonly":
		return false
	case "instance":
		return fn.Syntax() != nil
	}
	return true
}

// mustBeBuilt: is fn built by Build at all? (functions of packages created without
// syntax are never built: Package.build returns early for them.)
func (b *built) mustBeBuilt(fn *ir.Function) bool {
	if fn.Pkg != nil && !b.syntaxPkg(fn.Pkg) {
		return false
	}
	return true
}

// ---------------------------------------------------------------- dumps

var valName = regexp.MustCompile(`\bt[0-9]+\b`)

// canon renumbers value names in order of first appearance (the property is "up to
// value numbering").
func canon(s string) string {
	m := map[string]string{}
	return valName.ReplaceAllStringFunc(s, func(x string) string {
		if y, ok := m[x]; ok {
			return y
		}
		y := "v" + strconv.Itoa(len(m))
		m[x] = y
		return y
	})
}

// sigString renders a signature without parameter names. The names of the parameters of
// synthetic functions come from Program.canon's representative of the (identical)
// instantiated signature type, i.e. from whichever identical signature was canonicalised
// first; they are value names, not IR.
func sigString(sig *types.Signature) string {
	var sb strings.Builder
	if r := sig.Recv(); r != nil {
		sb.WriteString("(" + types.TypeString(r.Type(), nil) + ") ")
	}
	tuple := func(t *types.Tuple, variadic bool) {
		sb.WriteByte('(')
		for i := 0; i < t.Len(); i++ {
			if i > 0 {
				sb.WriteString(", ")
			}
			ts := types.TypeString(t.At(i).Type(), nil)
			if variadic && i == t.Len()-1 {
				ts = "..." + strings.TrimPrefix(ts, "[]")
			}
			sb.WriteString(ts)
		}
		sb.WriteByte(')')
	}
	if tp := sig.TypeParams(); tp != nil && tp.Len() > 0 {
		sb.WriteByte('[')
		for i := 0; i < tp.Len(); i++ {
			if i > 0 {
				sb.WriteString(", ")
			}
			sb.WriteString(tp.At(i).String() + " " + types.TypeString(tp.At(i).Constraint(), nil))
		}
		sb.WriteByte(']')
	}
	tuple(sig.Params(), sig.Variadic())
	if sig.Results().Len() > 0 {
		sb.WriteByte(' ')
		tuple(sig.Results(), false)
	}
	return sb.String()
}

func dumpFn(fn *ir.Function) string {
	var buf bytes.Buffer
	ir.WriteFunction(&buf, fn)
	lines := strings.Split(buf.String(), "\n")
	var res []*regexp.Regexp
	switch kindOf(fn) {
	case "instwrapper", "wrapper", "bound", "thunk", "ondemand", "typesonly":
		// the parameters of these are made from the signature, not from syntax:
		// rename them positionally
		for _, p := range fn.Params {
			if n := p.Name(); n != "" && n != "_" {
				res = append(res, regexp.MustCompile(`\b`+regexp.QuoteMeta(n)+`\b`))
			} else {
				res = append(res, nil)
			}
		}
	}
	for i, l := range lines {
		switch {
		case strings.HasPrefix(l, "func "):
			lines[i] = "func " + fn.Name() + " " + sigString(fn.Signature) + ":"
		case strings.HasPrefix(l, "        "):
			for j, re := range res {
				if re != nil {
					l = re.ReplaceAllString(l, "param"+strconv.Itoa(j))
				}
			}
			lines[i] = l
		}
	}
	return canon(strings.Join(lines, "\n"))
}

type dump struct {
	entries []string // "key\x00text" sorted: a multiset (bounds/thunks exist once per use)
	hash    string
}

func makeDump(fns []*ir.Function) dump {
	var d dump
	all := withAnons(fns)
	d.entries = make([]string, len(all))
	var wg sync.WaitGroup
	nw := min(8, runtime.GOMAXPROCS(0))
	for w := 0; w < nw; w++ {
		wg.Add(1)
		go func() {
			defer wg.Done()
			for i := w; i < len(all); i += nw {
				d.entries[i] = keyOf(all[i]) + "\x00" + dumpFn(all[i])
			}
		}()
	}
	wg.Wait()
	sort.Strings(d.entries)
	h := sha256.New()
	for _, e := range d.entries {
		h.Write([]byte(e))
		h.Write([]byte{1})
	}
	d.hash = hex.EncodeToString(h.Sum(nil))[:24]
	return d
}

func diffDumps(a, b dump) string {
	split := func(d dump) (map[string][]string, []string) {
		m := map[string][]string{}
		var keys []string
		for _, e := range d.entries {
			kv := strings.SplitN(e, "\x00", 2)
			if _, ok := m[kv[0]]; !ok {
				keys = append(keys, kv[0])
			}
			m[kv[0]] = append(m[kv[0]], kv[1])
		}
		return m, keys
	}
	ma, ka := split(a)
	mb, kb := split(b)
	for _, k := range ka {
		if len(mb[k]) == 0 {
			return "function only in reference build: " + k
		}
	}
	for _, k := range kb {
		if len(ma[k]) == 0 {
			return "function only in this build: " + k
		}
	}
	for _, k := range ka {
		ta, tb := ma[k], mb[k]
		if len(ta) != len(tb) {
			return fmt.Sprintf("%d functions %s in the reference build, %d in this build", len(ta), k, len(tb))
		}
		for i := range ta {
			if ta[i] != tb[i] {
				return fmt.Sprintf("function %s differs:\n--- reference\n%s\n--- this build\n%s", k, clip(ta[i]), clip(tb[i]))
			}
		}
	}
	return ""
}

func clip(s string) string {
	if len(s) > 3000 {
		return s[:3000] + "\n...(clipped)"
	}
	return s
}

// ---------------------------------------------------------------- checks on a built program

type checker struct {
	res     *Result
	variant string
}

func (c *checker) problem(kind, format string, args ...any) {
	if len(c.res.Problems) < 40 {
		c.res.Problems = append(c.res.Problems, Problem{Kind: kind, Variant: c.variant, Detail: fmt.Sprintf(format, args...)})
	}
}

// checkBuilt: every function in fns (and nested anonymous functions) is built and has a body
// unless external by construction.
func (c *checker) checkBuilt(b *built, fns []*ir.Function, what string) {
	for _, fn := range withAnons(fns) {
		if !b.mustBeBuilt(outermost(fn)) {
			continue
		}
		if !isBuilt(fn) {
			c.problem("unbuilt", "%s: %s: build func not cleared after Build returned", what, keyOf(fn))
			continue
		}
		if b.expectBody(fn) && fn.Blocks == nil {
			c.problem("nobody", "%s: %s: Blocks == nil after Build returned", what, keyOf(fn))
		}
	}
}

// checkOnce: shared functions are unique per key. The key is semantic, not textual
// (distinct type parameters print alike): same kind, same origin / method object,
// pairwise identical type arguments, identical receiver type.
func (c *checker) checkOnce(fns []*ir.Function) {
	type group struct {
		kind   string
		origin any
		n      int
	}
	groups := map[group][]*ir.Function{}
	for _, fn := range fns {
		k := kindOf(fn)
		if !sharedKind(k) {
			continue
		}
		var origin any
		if k == "instance" || k == "instwrapper" {
			origin = asFunc(fld(fn, "topLevelOrigin"))
		} else {
			origin = fn.Object()
		}
		g := group{k, origin, len(fn.TypeArgs())}
		for _, other := range groups[g] {
			if other != fn && sameKey(fn, other) {
				c.problem("duplicate", "shared function created twice: %s", keyOf(fn))
			}
		}
		groups[g] = append(groups[g], fn)
	}
}

func sameKey(f, g *ir.Function) bool {
	fa, ga := f.TypeArgs(), g.TypeArgs()
	for i := range fa {
		if !types.Identical(fa[i], ga[i]) {
			return false
		}
	}
	fr, gr := f.Signature.Recv(), g.Signature.Recv()
	if (fr == nil) != (gr == nil) {
		return false
	}
	if fr != nil && !types.Identical(fr.Type(), gr.Type()) {
		return false
	}
	return true
}

func (c *checker) compare(ref, d dump, what string) {
	if ref.hash != d.hash {
		c.problem("dump-differs", "%s: %s", what, diffDumps(ref, d))
	}
}

// guard runs f, converting a panic of the calling goroutine into a problem.
func (c *checker) guard(what string, f func()) (ok bool) {
	defer func() {
		if r := recover(); r != nil {
			c.problem("panic", "%s: %v", what, r)
			ok = false
		}
	}()
	f()
	return true
}

// ---------------------------------------------------------------- variants

func begin(prog, mode, variant string) {
	fmt.Fprintf(os.Stderr, "BEGIN %s %s %s\n", prog, mode, variant)
}

func modeOf(s string) (ir.BuilderMode, error) {
	var m ir.BuilderMode
	for _, ch := range s {
		switch ch {
		case '0':
		case 'G':
			m |= ir.InstantiateGenerics
		case 'D':
			m |= ir.GlobalDebug
		case 'C':
			m |= ir.SanityCheckFunctions
		case 'N':
			m |= ir.NaiveForm
		default:
			return 0, fmt.Errorf("bad mode letter %q", ch)
		}
	}
	return m, nil
}

// selections of every method of every non-generic named non-interface type T and *T
// declared in a syntax package, in a deterministic order.
func (b *built) selections() []*types.Selection {
	var sels []*types.Selection
	for i, lp := range b.l.pkgs {
		if b.pkgs[i] == nil {
			continue
		}
		scope := lp.tpkg.Scope()
		for _, name := range scope.Names() {
			tn, ok := scope.Lookup(name).(*types.TypeName)
			if !ok || tn.IsAlias() {
				continue
			}
			named, ok := tn.Type().(*types.Named)
			if !ok || named.TypeParams() != nil || types.IsInterface(named) {
				continue
			}
			for _, T := range []types.Type{named, types.NewPointer(named)} {
				ms := b.prog.MethodSets.MethodSet(T)
				for j := 0; j < ms.Len(); j++ {
					sel := ms.At(j)
					if sel.Obj().(*types.Func).Signature().TypeParams() == nil {
						sels = append(sels, sel)
					}
				}
			}
		}
	}
	return sels
}

type splitmix struct{ s uint64 }

func (r *splitmix) next() uint64 {
	r.s += 0x9E3779B97F4A7C15
	z := r.s
	z = (z ^ (z >> 30)) * 0xBF58476D1CE4E5B9
	z = (z ^ (z >> 27)) * 0x94D049BB133111EB
	return z ^ (z >> 31)
}

func (r *splitmix) perm(n int) []int {
	p := make([]int, n)
	for i := range p {
		p[i] = i
	}
	for i := n - 1; i > 0; i-- {
		j := int(r.next() % uint64(i+1))
		p[i], p[j] = p[j], p[i]
	}
	return p
}

func runProgram(spec *ProgSpec, modeStr string, reps int, seed uint64, abstract, trace bool) *Result {
	res := &Result{Prog: spec.Name, Mode: modeStr, Procs: runtime.GOMAXPROCS(0), Kinds: map[string]int{}, NPkgs: len(spec.Pkgs)}
	mode, err := modeOf(modeStr)
	if err != nil {
		fatal("%v", err)
	}
	c := &checker{res: res}
	rng := &splitmix{s: seed}
	mk := func(m ir.BuilderMode) *built {
		b, err := create(spec, m)
		if err != nil {
			fatal("program %s does not load: %v", spec.Name, err)
		}
		return b
	}

	// --- serial reference
	c.variant = "serial"
	begin(spec.Name, modeStr, c.variant)
	sb := mk(mode | ir.BuildSerially)
	if !c.guard("Program.Build", sb.prog.Build) {
		return res
	}
	res.NBuilds++
	sfns := sb.allFunctions()
	c.checkBuilt(sb, sfns, "after Program.Build")
	c.checkOnce(sfns)
	ref := makeDump(sfns)
	res.RefHash = ref.hash
	res.NFuncs = len(withAnons(sfns))
	for _, fn := range sfns {
		k := kindOf(fn)
		res.Kinds[k]++
		if sharedKind(k) {
			res.NShared++
			res.Shared = append(res.Shared, keyOf(fn))
		}
	}
	sort.Strings(res.Shared)
	// MethodValue for every selection, sequentially: the reference for "methods"
	ssels := sb.selections()
	var smeth []*ir.Function
	c.guard("Program.MethodValue", func() {
		for _, sel := range ssels {
			if fn := sb.prog.MethodValue(sel); fn != nil {
				smeth = append(smeth, fn)
			}
		}
	})
	smethAll := closure(smeth, func(*ir.Function) bool { return true })
	c.checkBuilt(sb, smethAll, "after Program.MethodValue")
	c.checkOnce(append(append([]*ir.Function{}, sfns...), smethAll...))
	refMeth := makeDump(smethAll)

	// --- parallel, repeated
	c.variant = "parallel"
	begin(spec.Name, modeStr, c.variant)
	for r := 0; r < reps; r++ {
		pb := mk(mode)
		if !c.guard("Program.Build", pb.prog.Build) {
			break
		}
		res.NBuilds++
		fns := pb.allFunctions()
		c.checkBuilt(pb, fns, "after Program.Build")
		c.checkOnce(fns)
		c.compare(ref, makeDump(fns), fmt.Sprintf("parallel build %d vs serial build", r))
		if r == 0 && abstract {
			res.Abstract, res.Final = pb.abstract(fns)
		}
		if len(res.Problems) > 0 {
			break
		}
	}

	// --- traced parallel build (protocol events for the Lean model)
	if trace {
		c.variant = "trace"
		begin(spec.Name, modeStr, c.variant)
		tb := mk(mode)
		res.Trace = tracedBuild(c, tb)
		res.NBuilds++
		if res.Trace != nil {
			fns := tb.allFunctions()
			c.checkBuilt(tb, fns, "after traced Program.Build")
			c.compare(ref, makeDump(fns), "traced parallel build vs serial build")
		}
	}

	// --- twice
	c.variant = "twice"
	begin(spec.Name, modeStr, c.variant)
	{
		tb := mk(mode)
		c.guard("Program.Build", tb.prog.Build)
		res.NBuilds++
		f1 := tb.allFunctions()
		d1 := makeDump(f1)
		c.compare(ref, d1, "first Build vs serial build")
		c.guard("second Program.Build", tb.prog.Build)
		for _, p := range tb.pkgs {
			if p != nil {
				c.guard("second Package.Build", p.Build)
			}
		}
		f2 := tb.allFunctions()
		c.checkBuilt(tb, f2, "after second Build")
		if !sameSet(f1, f2) {
			c.problem("not-idempotent", "the set of functions (by identity) changed when Build was called again: %d -> %d", len(f1), len(f2))
		}
		c.compare(d1, makeDump(f2), "after second Build vs after first Build")
	}

	// --- concurrent callers
	c.variant = "concurrent"
	begin(spec.Name, modeStr, c.variant)
	for r := 0; r < max(1, reps/4); r++ {
		cb := mk(mode)
		var wg sync.WaitGroup
		var mu sync.Mutex
		start := make(chan struct{})
		call := func(what string, f func()) {
			wg.Add(1)
			go func() {
				defer wg.Done()
				<-start
				defer func() {
					if r := recover(); r != nil {
						mu.Lock()
						c.problem("panic", "%s: %v", what, r)
						mu.Unlock()
					}
				}()
				f()
			}()
		}
		for g := 0; g < 4; g++ {
			call("concurrent Program.Build", cb.prog.Build)
		}
		for _, i := range rng.perm(len(cb.pkgs)) {
			if p := cb.pkgs[i]; p != nil {
				call("concurrent Package.Build", p.Build)
				call("concurrent Package.Build", p.Build)
			}
		}
		close(start)
		wg.Wait()
		res.NBuilds++
		fns := cb.allFunctions()
		c.checkBuilt(cb, fns, "after concurrent Build calls")
		c.checkOnce(fns)
		c.compare(ref, makeDump(fns), "concurrent Build calls vs serial build")
		if len(res.Problems) > 0 {
			break
		}
	}

	// --- per package: what Package.Build promises the moment it returns
	c.variant = "perpkg"
	begin(spec.Name, modeStr, c.variant)
	for r := 0; r < max(1, reps/2); r++ {
		pb := mk(mode)
		var wg sync.WaitGroup
		var mu sync.Mutex
		start := make(chan struct{})
		for _, i := range rng.perm(len(pb.pkgs)) {
			p := pb.pkgs[i]
			if p == nil || pb.l.pkgs[i].spec.Kind != "syntax" {
				continue
			}
			wg.Add(1)
			go func() {
				defer wg.Done()
				<-start
				lc := &checker{res: &Result{}, variant: "perpkg"}
				lc.guard("Package.Build "+p.Pkg.Path(), func() {
					p.Build()
					// everything this package's build depends on: its own functions and
					// every shared function reachable from them (functions declared in
					// other packages are built by those packages' Build, not by this one)
					dep := closure(p.Functions, func(fn *ir.Function) bool { return fn.Pkg == nil || fn.Pkg == p })
					lc.checkBuilt(pb, dep, "when Package.Build("+p.Pkg.Path()+") returned")
					if len(lc.res.Problems) == 0 {
						makeDump(dep) // reads every instruction; with -race any writer still active is reported
					}
				})
				mu.Lock()
				for _, pr := range lc.res.Problems {
					c.problem(pr.Kind, "%s", pr.Detail)
				}
				mu.Unlock()
			}()
		}
		close(start)
		wg.Wait()
		res.NBuilds++
		fns := pb.allFunctions()
		c.checkOnce(fns)
		c.compare(ref, makeDump(fns), "per-package concurrent Package.Build vs serial build")
		if len(res.Problems) > 0 {
			break
		}
	}

	// --- MethodValue from many goroutines
	c.variant = "methods"
	begin(spec.Name, modeStr, c.variant)
	for r := 0; r < max(1, reps/4); r++ {
		mb := mk(mode)
		if !c.guard("Program.Build", mb.prog.Build) {
			break
		}
		res.NBuilds++
		sels := mb.selections()
		const G = 6
		got := make([][]*ir.Function, G)
		var wg sync.WaitGroup
		var mu sync.Mutex
		start := make(chan struct{})
		lockstep := rng.perm(len(sels))
		for g := 0; g < G; g++ {
			order := rng.perm(len(sels))
			if r%2 == 0 {
				// every goroutine asks for the methods in the same order: lookups of one key
				// arrive at the memo tables at (nearly) the same time
				order = lockstep
			}
			got[g] = make([]*ir.Function, len(sels))
			wg.Add(1)
			go func() {
				defer wg.Done()
				<-start
				lc := &checker{res: &Result{}, variant: "methods"}
				lc.guard("concurrent Program.MethodValue", func() {
					for _, i := range order {
						fn := mb.prog.MethodValue(sels[i])
						got[g][i] = fn
						if fn == nil {
							continue
						}
						dep := closure([]*ir.Function{fn}, func(f *ir.Function) bool { return f.Pkg == nil })
						lc.checkBuilt(mb, dep, "when MethodValue("+sels[i].String()+") returned")
					}
				})
				mu.Lock()
				for _, pr := range lc.res.Problems {
					c.problem(pr.Kind, "%s", pr.Detail)
				}
				mu.Unlock()
			}()
		}
		close(start)
		wg.Wait()
		var meth []*ir.Function
		for i := range sels {
			for g := 1; g < G; g++ {
				if got[g][i] != got[0][i] {
					c.problem("duplicate", "MethodValue(%s) returned different functions to different goroutines", sels[i])
					break
				}
			}
			if got[0][i] != nil {
				meth = append(meth, got[0][i])
			}
		}
		methAll := closure(meth, func(*ir.Function) bool { return true })
		c.checkBuilt(mb, methAll, "after concurrent MethodValue")
		c.checkOnce(append(mb.allFunctions(), methAll...))
		c.compare(refMeth, makeDump(methAll), "functions from concurrent MethodValue vs sequential MethodValue")
		if len(res.Problems) > 0 {
			break
		}
	}
	return res
}

func sameSet(a, b []*ir.Function) bool {
	if len(a) != len(b) {
		return false
	}
	m := map[*ir.Function]bool{}
	for _, f := range a {
		m[f] = true
	}
	for _, f := range b {
		if !m[f] {
			return false
		}
	}
	return true
}

// ---------------------------------------------------------------- abstraction for the Lean model

// abstract: a built program as the task-protocol model sees it. A builder process per
// syntax package with its functions as roots; per function the shared functions its body
// refers to. Private synthetic functions (bound-method wrappers, thunks: created and
// built by the builder that meets the expression) are folded into the function that
// mentions them. Also the task graph the build left behind, read from the shared
// functions' buildshared pointers.
func (b *built) abstract(fns []*ir.Function) ([]AbsFn, []FinalTask) {
	pkgIndex := map[*ir.Package]int{}
	for i, p := range b.pkgs {
		if p != nil {
			pkgIndex[p] = i
		}
	}
	sorted := append([]*ir.Function{}, fns...)
	sort.SliceStable(sorted, func(i, j int) bool { return keyOf(sorted[i]) < keyOf(sorted[j]) })
	id := map[*ir.Function]int{}
	var nodes []*ir.Function
	for _, fn := range sorted {
		k := kindOf(fn)
		if sharedKind(k) || (k != "bound" && k != "thunk" && fn.Pkg != nil && b.syntaxPkg(fn.Pkg)) {
			id[fn] = len(nodes)
			nodes = append(nodes, fn)
		}
	}
	refsOf := func(fn *ir.Function) []int {
		set := map[int]bool{}
		seen := map[*ir.Function]bool{fn: true}
		var visit func(g *ir.Function)
		var walk func(f *ir.Function)
		visit = func(g *ir.Function) {
			g = outermost(g)
			if seen[g] {
				return
			}
			seen[g] = true
			k := kindOf(g)
			if sharedKind(k) {
				set[id[g]] = true
				// Program.objectMethod looks the generic origin of a method up (creating it "on
				// demand" for packages that were never created) before instantiating it: the
				// same builder performs both lookups
				if k == "instance" || k == "instwrapper" {
					if o := asFunc(fld(g, "topLevelOrigin")); o != nil && sharedKind(kindOf(o)) {
						set[id[o]] = true
					}
				}
				return
			}
			if k == "bound" || k == "thunk" {
				walk(g)
			}
		}
		walk = func(f *ir.Function) { operandFuncs(f, visit) }
		walk(fn)
		r := []int{}
		for k := range set {
			r = append(r, k)
		}
		sort.Ints(r)
		return r
	}
	tids := map[unsafe.Pointer]int{}
	var torder []unsafe.Pointer
	tidOf := func(t unsafe.Pointer) int {
		if t == nil {
			return -1
		}
		if i, ok := tids[t]; ok {
			return i
		}
		tids[t] = len(torder)
		torder = append(torder, t)
		return tids[t]
	}
	var out []AbsFn
	owns := map[int][]int{}
	for i, fn := range nodes {
		a := AbsFn{ID: i, Name: keyOf(fn), Owner: -1, Task: tidOf(taskOf(fn)), Refs: refsOf(fn), Built: isBuilt(fn)}
		if !sharedKind(kindOf(fn)) {
			a.Owner = pkgIndex[fn.Pkg]
		}
		if a.Task >= 0 {
			owns[a.Task] = append(owns[a.Task], i)
		}
		out = append(out, a)
	}
	var tasks []FinalTask
	for i := 0; i < len(torder); i++ {
		v := viewTask(torder[i])
		ft := FinalTask{ID: i, Done: v.done, Trans: v.trans, Owns: owns[i], Edges: []int{}}
		if ft.Owns == nil {
			ft.Owns = []int{}
		}
		for _, e := range v.edges {
			ft.Edges = append(ft.Edges, tidOf(e))
		}
		sort.Ints(ft.Edges)
		tasks = append(tasks, ft)
	}
	return out, tasks
}

// ---------------------------------------------------------------- main

func main() {
	in := flag.String("in", "", "JSON file with programs")
	reps := flag.Int("reps", 8, "parallel builds per program and mode")
	modes := flag.String("modes", "0,G", "comma separated builder modes (letters 0 G D C N)")
	only := flag.String("only", "", "run only the program with this name")
	seed := flag.Uint64("seed", 1, "seed for goroutine start orders")
	abstract := flag.Bool("abstract", false, "also print the abstraction of every program for the Lean model")
	trace := flag.Bool("trace", false, "also run one traced parallel build per program and mode and print the protocol events")
	flag.Parse()
	if pf := os.Getenv("C18PROF"); pf != "" {
		f, _ := os.Create(pf)
		pprof.StartCPUProfile(f)
		defer pprof.StopCPUProfile()
	}
	data, err := os.ReadFile(*in)
	if err != nil {
		fatal("%v", err)
	}
	var progs []ProgSpec
	if err := json.Unmarshal(data, &progs); err != nil {
		fatal("%s: %v", *in, err)
	}
	enc := json.NewEncoder(os.Stdout)
	for i := range progs {
		if *only != "" && progs[i].Name != *only {
			continue
		}
		for _, m := range strings.Split(*modes, ",") {
			res := runProgram(&progs[i], m, *reps, *seed+uint64(i)*1000003, *abstract, *trace)
			if res.Problems == nil {
				res.Problems = []Problem{}
			}
			if err := enc.Encode(res); err != nil {
				fatal("%v", err)
			}
		}
	}
	fmt.Fprintln(os.Stderr, "END")
}
