//go:build verif

package main

import (
	"sync"

	"honnef.co/go/tools/go/ir"
)

// TraceEvent is one protocol action of a traced build (see go/ir/verif_trace_on.go), with
// functions replaced by indices into Trace.Fns.
type TraceEvent struct {
	Kind    string `json:"k"`
	Builder int    `json:"b"`
	Task    int    `json:"t"`
	Fn      int    `json:"f"`
	FnTask  int    `json:"ft"`
	Other   int    `json:"o"`
	Flag    bool   `json:"fl"`
	N1      int    `json:"n1"`
	New     []int  `json:"new,omitempty"`
	Pkg     string `json:"pkg,omitempty"`
	Fns     []int  `json:"fns,omitempty"`
}

type Trace struct {
	Fns    []string     `json:"fns"` // keyOf of every function mentioned
	Events []TraceEvent `json:"events"`
}

// tracedBuild builds the program in parallel with the protocol trace switched on, then calls
// Program.MethodValue for every method from three goroutines, and returns the events.
func tracedBuild(c *checker, b *built) *Trace {
	ir.VerifTraceStart()
	ok := c.guard("Program.Build (traced)", b.prog.Build)
	if ok {
		sels := b.selections()
		var wg sync.WaitGroup
		var mu sync.Mutex
		for g := 0; g < 3; g++ {
			wg.Add(1)
			go func() {
				defer wg.Done()
				defer func() {
					if r := recover(); r != nil {
						mu.Lock()
						c.problem("panic", "Program.MethodValue (traced): %v", r)
						mu.Unlock()
					}
				}()
				for i := range sels {
					b.prog.MethodValue(sels[(i*7+g*13)%len(sels)])
				}
			}()
		}
		wg.Wait()
	}
	evs := ir.VerifTraceStop()
	if !ok {
		return nil
	}
	tr := &Trace{}
	ids := map[*ir.Function]int{}
	idOf := func(fn *ir.Function) int {
		if fn == nil {
			return -1
		}
		if i, ok := ids[fn]; ok {
			return i
		}
		ids[fn] = len(tr.Fns)
		tr.Fns = append(tr.Fns, keyOf(fn))
		return len(tr.Fns) - 1
	}
	for _, e := range evs {
		te := TraceEvent{Kind: e.Kind, Builder: e.Builder, Task: e.Task, Fn: idOf(e.Fn), FnTask: e.FnTask,
			Other: e.Other, Flag: e.Flag, N1: e.N1, New: e.New}
		if e.Pkg != nil {
			te.Pkg = e.Pkg.Pkg.Path()
		}
		for _, f := range e.Fns {
			te.Fns = append(te.Fns, idOf(f))
		}
		tr.Events = append(tr.Events, te)
	}
	return tr
}
