package main

import "fmt"

func main() { fmt.Println("hi") }
