// c08extract lists the pattern literals compiled into the checks of a go-tools tree:
// every call pattern.MustParse(<string literal>) in non-test Go files, found with go/ast.
//
// usage: c08extract <repo root>     prints one JSON object {"file","line","pattern"} per line
package main

import (
	"encoding/json"
	"fmt"
	"go/ast"
	"go/parser"
	"go/token"
	"io/fs"
	"os"
	"path/filepath"
	"sort"
	"strconv"
	"strings"
)

type rec struct {
	File    string `json:"file"`
	Line    int    `json:"line"`
	Pattern string `json:"pattern"`
}

func main() {
	if len(os.Args) != 2 {
		fmt.Fprintln(os.Stderr, "usage: c08extract <repo>")
		os.Exit(2)
	}
	root := os.Args[1]
	var out []rec
	nonLiteral := 0
	err := filepath.WalkDir(root, func(path string, d fs.DirEntry, err error) error {
		if err != nil {
			return err
		}
		if d.IsDir() {
			n := d.Name()
			if n == "testdata" || n == ".git" || n == "_benchmarks" || n == "website" {
				return filepath.SkipDir
			}
			return nil
		}
		if !strings.HasSuffix(path, ".go") || strings.HasSuffix(path, "_test.go") {
			return nil
		}
		fset := token.NewFileSet()
		f, err := parser.ParseFile(fset, path, nil, parser.SkipObjectResolution)
		if err != nil {
			return nil // not our business
		}
		ast.Inspect(f, func(n ast.Node) bool {
			call, ok := n.(*ast.CallExpr)
			if !ok || len(call.Args) != 1 {
				return true
			}
			name := ""
			switch fn := call.Fun.(type) {
			case *ast.SelectorExpr:
				if x, ok := fn.X.(*ast.Ident); ok && x.Name == "pattern" {
					name = fn.Sel.Name
				}
			case *ast.Ident:
				if f.Name.Name == "pattern" {
					name = fn.Name
				}
			}
			if name != "MustParse" {
				return true
			}
			lit, ok := call.Args[0].(*ast.BasicLit)
			if !ok || lit.Kind != token.STRING {
				nonLiteral++
				return true
			}
			s, err := strconv.Unquote(lit.Value)
			if err != nil {
				nonLiteral++
				return true
			}
			rel, _ := filepath.Rel(root, path)
			out = append(out, rec{rel, fset.Position(call.Pos()).Line, s})
			return true
		})
		return nil
	})
	if err != nil {
		fmt.Fprintln(os.Stderr, err)
		os.Exit(2)
	}
	sort.Slice(out, func(i, j int) bool {
		if out[i].File != out[j].File {
			return out[i].File < out[j].File
		}
		return out[i].Line < out[j].Line
	})
	enc := json.NewEncoder(os.Stdout)
	for _, r := range out {
		enc.Encode(r)
	}
	fmt.Fprintf(os.Stderr, "patterns=%d nonliteral=%d\n", len(out), nonLiteral)
}
