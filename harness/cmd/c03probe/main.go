// c03probe determines dynamically, with the real go/ir builder, which builtin names can
// reach the nilness analysis' builtin dispatch: calls whose callee is an *ir.Builtin and
// whose result type is pointer-like. The probe source must mention every universe and
// unsafe builtin, so a builtin added to Go is noticed (harness error) rather than missed.
package main

import (
	"fmt"
	"go/ast"
	"go/importer"
	"go/parser"
	"go/token"
	"go/types"
	"os"
	"sort"
	"strings"

	"honnef.co/go/tools/go/ir"
	"honnef.co/go/tools/go/ir/irutil"
	"honnef.co/go/tools/go/types/typeutil"
)

const src = `package p

import "unsafe"

type T struct{ x int }

func (t T) M() int { return t.x }

type I interface{ M() int }

func sink(...any)

func F(s []int, m map[int]int, c chan int, p *int, str string, a any, up unsafe.Pointer, f32 float64, cs []chan int) (r any) {
	defer func() { r = recover() }()
	sink(append(s, 1), append([]byte(nil), str...))
	sink(cap(s), len(s), len(str), len(m), len(c))
	clear(m)
	clear(s)
	close(c)
	sink(complex(f32, f32), real(complex(f32, f32)), imag(complex(f32, f32)))
	sink(copy(s, s))
	delete(m, 1)
	sink(make([]int, 1), make(map[int]int), make(chan int), new(int))
	sink(max(1, len(s)), min(1, len(s)), max(str, "a"), min(f32, 1.0))
	print(1)
	println(1)
	sink(unsafe.Add(up, 1), unsafe.Slice(p, 1), unsafe.SliceData(s), unsafe.String((*byte)(up), 1), unsafe.StringData(str))
	sink(unsafe.Alignof(s), unsafe.Offsetof(T{}.x), unsafe.Sizeof(s))
	var i I = &T{}
	sink(i.M())
	var pt *T
	sink(I(pt).M())
	if len(s) > 100 {
		panic("x")
	}
	return recover()
}
`

func main() {
	fset := token.NewFileSet()
	f, err := parser.ParseFile(fset, "p.go", src, parser.SkipObjectResolution)
	if err != nil {
		fmt.Fprintln(os.Stderr, err)
		os.Exit(2)
	}
	// every universe/unsafe builtin must be mentioned by the probe source
	mentioned := map[string]bool{}
	ast.Inspect(f, func(n ast.Node) bool {
		if id, ok := n.(*ast.Ident); ok {
			mentioned[id.Name] = true
		}
		return true
	})
	var missing []string
	for _, scope := range []*types.Scope{types.Universe, types.Unsafe.Scope()} {
		for _, n := range scope.Names() {
			if _, ok := scope.Lookup(n).(*types.Builtin); ok && !mentioned[n] {
				missing = append(missing, n)
			}
		}
	}
	if len(missing) > 0 {
		fmt.Fprintf(os.Stderr, "probe source does not mention builtins %v\n", missing)
		os.Exit(2)
	}
	pkg := types.NewPackage("p", "p")
	ipkg, _, err := irutil.BuildPackage(&types.Config{Importer: importer.Default()}, fset, pkg, []*ast.File{f}, ir.GlobalDebug)
	if err != nil {
		fmt.Fprintln(os.Stderr, err)
		os.Exit(2)
	}
	seen := map[string]bool{}
	all := map[string]bool{}
	var visit func(fn *ir.Function)
	visit = func(fn *ir.Function) {
		for _, b := range fn.Blocks {
			for _, ins := range b.Instrs {
				call, ok := ins.(*ir.Call)
				if !ok {
					continue
				}
				bi, ok := call.Call.Value.(*ir.Builtin)
				if !ok {
					continue
				}
				all[bi.Name()] = true
				res := call.Common().Signature().Results()
				for i := 0; i < res.Len(); i++ {
					if typeutil.IsPointerLike(res.At(i).Type()) {
						seen[bi.Name()] = true
					}
				}
			}
		}
		for _, a := range fn.AnonFuncs {
			visit(a)
		}
	}
	for _, m := range ipkg.Members {
		if fn, ok := m.(*ir.Function); ok {
			visit(fn)
		}
	}
	// wrappers (ssa:wrapnilchk) live in method sets of types used as interfaces
	for _, fn := range allFunctions(ipkg) {
		visit(fn)
	}
	out := func(m map[string]bool) string {
		var s []string
		for k := range m {
			s = append(s, k)
		}
		sort.Strings(s)
		return strings.Join(s, " ")
	}
	fmt.Println("pointerlike-builtin-calls:", out(seen))
	fmt.Println("all-builtin-calls:", out(all))
}

func allFunctions(p *ir.Package) []*ir.Function {
	var out []*ir.Function
	for _, fn := range p.Functions {
		out = append(out, fn)
	}
	return out
}
