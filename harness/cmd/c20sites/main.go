// c20sites lists, from the CURRENT source of the repository (go/parser only), every place
// where a check restricts a problem to a range of Go versions:
//
//   - calls of report.Report in files that mention a version option, each with the
//     report.{Minimum,Maximum}{Language,Stdlib}Version("go1.N") options it passes
//     (calls without such an option in the same file are listed too, so that a dropped
//     bound shows up as a changed row);
//   - comparisons version.Compare(code.StdlibVersion(..)|code.LanguageVersion(..), "go1.N") <op> <k>.
//
// Output: one JSON document on stdout. Usage: c20sites <repo root>
package main

import (
	"encoding/json"
	"fmt"
	"go/ast"
	"go/parser"
	"go/token"
	"os"
	"path/filepath"
	"sort"
	"strconv"
	"strings"
)

type reportSite struct {
	File    string     `json:"file"`
	Func    string     `json:"func"`
	Ordinal int        `json:"ordinal"` // n-th report.Report call of the file, source order
	Message string     `json:"message"` // string literal message, or "" if computed
	Opts    [][2]string `json:"opts"`    // [setter, version]
}

type cmpSite struct {
	File    string `json:"file"`
	Func    string `json:"func"`
	Which   string `json:"which"`   // StdlibVersion | LanguageVersion
	Version string `json:"version"` // literal, or "expr:<text>"
	Op      string `json:"op"`      // comparison operator applied to the result, "" if none
	Rhs     string `json:"rhs"`
}

var setters = map[string]bool{
	"MinimumLanguageVersion": true, "MaximumLanguageVersion": true,
	"MinimumStdlibVersion": true, "MaximumStdlibVersion": true,
}

func isSel(e ast.Expr, pkg, name string) bool {
	s, ok := e.(*ast.SelectorExpr)
	if !ok {
		return false
	}
	id, ok := s.X.(*ast.Ident)
	return ok && id.Name == pkg && s.Sel.Name == name
}

func selName(e ast.Expr, pkg string) (string, bool) {
	s, ok := e.(*ast.SelectorExpr)
	if !ok {
		return "", false
	}
	id, ok := s.X.(*ast.Ident)
	if !ok || id.Name != pkg {
		return "", false
	}
	return s.Sel.Name, true
}

func lit(e ast.Expr) string {
	if b, ok := e.(*ast.BasicLit); ok {
		if b.Kind == token.STRING {
			if s, err := strconv.Unquote(b.Value); err == nil {
				return s
			}
		}
		return b.Value
	}
	if u, ok := e.(*ast.UnaryExpr); ok && u.Op == token.SUB {
		return "-" + lit(u.X)
	}
	return ""
}

func main() {
	root := os.Args[1]
	var reports []reportSite
	var cmps []cmpSite
	dirs := []string{"simple", "staticcheck", "stylecheck", "quickfix", "analysis", "unused", "lintcmd", "internal"}
	fset := token.NewFileSet()
	for _, d := range dirs {
		filepath.Walk(filepath.Join(root, d), func(path string, info os.FileInfo, err error) error {
			if err != nil {
				return nil
			}
			if info.IsDir() {
				if info.Name() == "testdata" {
					return filepath.SkipDir
				}
				return nil
			}
			if !strings.HasSuffix(path, ".go") || strings.HasSuffix(path, "_test.go") {
				return nil
			}
			rel, _ := filepath.Rel(root, path)
			if rel == "analysis/report/report.go" {
				return nil
			}
			src, err := os.ReadFile(path)
			if err != nil || !(strings.Contains(string(src), "Version")) {
				return nil
			}
			f, err := parser.ParseFile(fset, path, src, parser.SkipObjectResolution)
			if err != nil {
				fmt.Fprintln(os.Stderr, "parse error:", err)
				os.Exit(2)
			}
			var fileReports []reportSite
			hasOpt := false
			for _, decl := range f.Decls {
				fn := "-"
				if fd, ok := decl.(*ast.FuncDecl); ok {
					fn = fd.Name.Name
				}
				parents := map[ast.Node]ast.Node{}
				var stack []ast.Node
				ast.Inspect(decl, func(n ast.Node) bool {
					if n == nil {
						stack = stack[:len(stack)-1]
						return true
					}
					if len(stack) > 0 {
						parents[n] = stack[len(stack)-1]
					}
					stack = append(stack, n)
					call, ok := n.(*ast.CallExpr)
					if !ok {
						return true
					}
					if isSel(call.Fun, "report", "Report") {
						rs := reportSite{File: rel, Func: fn, Opts: [][2]string{}}
						if len(call.Args) >= 3 {
							rs.Message = lit(call.Args[2])
						}
						for _, a := range call.Args {
							if c, ok := a.(*ast.CallExpr); ok {
								if name, ok := selName(c.Fun, "report"); ok && setters[name] {
									v := "expr"
									if len(c.Args) == 1 && lit(c.Args[0]) != "" {
										v = lit(c.Args[0])
									}
									rs.Opts = append(rs.Opts, [2]string{name, v})
									hasOpt = true
								}
							}
						}
						fileReports = append(fileReports, rs)
					}
					if isSel(call.Fun, "version", "Compare") && len(call.Args) == 2 {
						for i, a := range call.Args {
							c, ok := a.(*ast.CallExpr)
							if !ok {
								continue
							}
							which, ok := selName(c.Fun, "code")
							if !ok || (which != "StdlibVersion" && which != "LanguageVersion") {
								continue
							}
							other := call.Args[1-i]
							cs := cmpSite{File: rel, Func: fn, Which: which}
							if i == 1 {
								cs.Which = "swapped:" + which
							}
							if l := lit(other); l != "" {
								cs.Version = l
							} else {
								cs.Version = "expr:" + string(src[fset.Position(other.Pos()).Offset:fset.Position(other.End()).Offset])
							}
							if p, ok := parents[call].(*ast.BinaryExpr); ok {
								if p.X == call {
									cs.Op, cs.Rhs = p.Op.String(), lit(p.Y)
								} else {
									cs.Op, cs.Rhs = "swapped:"+p.Op.String(), lit(p.X)
								}
							}
							cmps = append(cmps, cs)
						}
					}
					return true
				})
			}
			if hasOpt {
				for i := range fileReports {
					fileReports[i].Ordinal = i
				}
				reports = append(reports, fileReports...)
			}
			return nil
		})
	}
	sort.SliceStable(reports, func(i, j int) bool {
		if reports[i].File != reports[j].File {
			return reports[i].File < reports[j].File
		}
		return reports[i].Ordinal < reports[j].Ordinal
	})
	sort.SliceStable(cmps, func(i, j int) bool {
		if cmps[i].File != cmps[j].File {
			return cmps[i].File < cmps[j].File
		}
		return cmps[i].Func < cmps[j].Func
	})
	out := map[string]any{"reports": reports, "compares": cmps}
	b, _ := json.MarshalIndent(out, "", " ")
	fmt.Println(string(b))
}
