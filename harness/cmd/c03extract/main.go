// c03extract lists, from the current source of honnef.co/go/tools, every dispatch site
// with a panicking default (C03): type switches whose default clause panics or calls
// lint.ExhaustiveTypeSwitch, and string switches on a builtin's name with a panicking
// default. For each site it prints the handled cases and, where it can be enumerated
// from source, the closed domain of the scrutinee.
//
// Output: JSON on stdout.
package main

import (
	"encoding/json"
	"fmt"
	"go/ast"
	"go/token"
	"go/types"
	"os"
	"sort"
	"strconv"
	"strings"

	"golang.org/x/tools/go/packages"
)

type Site struct {
	ID         string   `json:"id"`   // pkg-relative file : enclosing func : ordinal
	Pos        string   `json:"pos"`  // file:line (informational)
	Kind       string   `json:"kind"` // typeswitch | nameswitch
	Scrutinee  string   `json:"scrutinee"`
	Handled    []string `json:"handled"`
	DomainKind string   `json:"domain_kind"` // ast-iface | types-iface | ast-filter | ir-constructed | builtin-names | contextual
	Domain     []string `json:"domain"`
	// properties of the scrutinee expression recognised structurally: "underlying-call"
	// (X.Underlying()), "coretype-call" (typeutil.CoreType(X) / ts.CoreType()), "term-type"
	// (term.Type()... of a *types.Term). checks/c03_expect.json attaches class excuses to them.
	Forms []string `json:"scrutinee_forms"`
	// label stripping directly in front of the switch: {"mode": "loop"|"once", "kind": "*ast.LabeledStmt"}
	Strip    *Strip `json:"strip,omitempty"`
	Analyzer string `json:"analyzer"` // package directory of the site, e.g. simple/s1031
}

type Strip struct {
	Mode string `json:"mode"`
	Kind string `json:"kind"`
}

func main() {
	cfg := &packages.Config{
		Mode: packages.NeedName | packages.NeedFiles | packages.NeedSyntax | packages.NeedTypes | packages.NeedTypesInfo | packages.NeedImports,
		Dir:  os.Args[1],
	}
	pkgs, err := packages.Load(cfg, "honnef.co/go/tools/...")
	if err != nil {
		fmt.Fprintln(os.Stderr, err)
		os.Exit(2)
	}
	var astPkg, irPkg, typesPkg *types.Package
	packages.Visit(pkgs, nil, func(p *packages.Package) {
		if p.PkgPath == "go/ast" {
			astPkg = p.Types
		}
		if p.PkgPath == "go/types" {
			typesPkg = p.Types
		}
		if p.PkgPath == "honnef.co/go/tools/go/ir" {
			irPkg = p.Types
		}
	})
	if astPkg == nil || irPkg == nil || typesPkg == nil {
		fmt.Fprintln(os.Stderr, "go/ast, go/types or go/ir not loaded")
		os.Exit(2)
	}

	// implementers of an interface among the named types of a package (as *T or T)
	implementers := func(pkg *types.Package, iface *types.Interface) []string {
		var out []string
		for _, name := range pkg.Scope().Names() {
			tn, ok := pkg.Scope().Lookup(name).(*types.TypeName)
			if !ok || tn.IsAlias() || !tn.Exported() {
				continue
			}
			if _, isIface := tn.Type().Underlying().(*types.Interface); isIface {
				continue
			}
			if types.Implements(types.NewPointer(tn.Type()), iface) {
				out = append(out, "*"+pkg.Name()+"."+name)
			} else if types.Implements(tn.Type(), iface) {
				out = append(out, pkg.Name()+"."+name)
			}
		}
		sort.Strings(out)
		return out
	}

	// instruction/value types that package ir actually constructs outside tests
	irConstructed := map[string]bool{}
	for _, p := range pkgs {
		if p.PkgPath != "honnef.co/go/tools/go/ir" {
			continue
		}
		for _, f := range p.Syntax {
			ast.Inspect(f, func(n ast.Node) bool {
				var T types.Type
				switch n := n.(type) {
				case *ast.CompositeLit:
					T = p.TypesInfo.TypeOf(n)
				case *ast.CallExpr:
					if id, ok := n.Fun.(*ast.Ident); ok && id.Name == "new" && len(n.Args) == 1 {
						if _, isB := p.TypesInfo.Uses[id].(*types.Builtin); isB {
							T = p.TypesInfo.TypeOf(n.Args[0])
						}
					}
				case *ast.ValueSpec:
					if n.Type != nil {
						T = p.TypesInfo.TypeOf(n.Type)
					}
				}
				if T != nil {
					if nt, ok := types.Unalias(T).(*types.Named); ok && nt.Obj().Pkg() == irPkg {
						irConstructed[nt.Obj().Name()] = true
					}
				}
				return true
			})
		}
	}

	typeStr := func(t types.Type) string {
		return types.TypeString(t, func(p *types.Package) string { return p.Name() })
	}

	var sites []Site
	for _, p := range pkgs {
		if strings.Contains(p.PkgPath, "/testdata") || strings.HasSuffix(p.PkgPath, "_test") {
			continue
		}
		for _, f := range p.Syntax {
			fname := p.Fset.Position(f.Pos()).Filename
			rel := fname
			if i := strings.Index(fname, "/"+strings.TrimPrefix(p.PkgPath, "honnef.co/go/tools/")+"/"); i >= 0 && p.PkgPath != "honnef.co/go/tools" {
				rel = fname[i+1:]
			}
			if strings.HasSuffix(fname, "_test.go") {
				continue
			}
			// walk with a stack to know enclosing func decl and enclosing calls
			var stack []ast.Node
			counter := map[string]int{}
			ast.Inspect(f, func(n ast.Node) bool {
				if n == nil {
					stack = stack[:len(stack)-1]
					return true
				}
				stack = append(stack, n)
				encl := "init"
				for _, s := range stack {
					if fd, ok := s.(*ast.FuncDecl); ok {
						encl = fd.Name.Name
						if fd.Recv != nil && len(fd.Recv.List) > 0 {
							encl = typeStr(p.TypesInfo.TypeOf(fd.Recv.List[0].Type)) + "." + encl
						}
					}
				}
				switch sw := n.(type) {
				case *ast.TypeSwitchStmt:
					def, handled, ok := analyseTypeSwitch(p, sw, typeStr)
					if !ok || !panics(p, def) {
						return true
					}
					var x ast.Expr
					switch a := sw.Assign.(type) {
					case *ast.AssignStmt:
						x = a.Rhs[0].(*ast.TypeAssertExpr).X
					case *ast.ExprStmt:
						x = a.X.(*ast.TypeAssertExpr).X
					}
					st := p.TypesInfo.TypeOf(x)
					counter[encl]++
					site := Site{
						ID:        rel + ":" + encl + "#" + strconv.Itoa(counter[encl]),
						Pos:       fmt.Sprintf("%s:%d", rel, p.Fset.Position(sw.Pos()).Line),
						Kind:      "typeswitch",
						Scrutinee: typeStr(st),
						Handled:   handled,
					}
					site.Forms = scrutineeForms(p, x, stack, typeStr)
					site.DomainKind, site.Domain = domainOf(p, st, x, stack, astPkg, irPkg, typesPkg, irConstructed, implementers, typeStr)
					if site.DomainKind == "types-iface" && hasForm(site.Forms, "coretype-call") {
						site.Domain = append(site.Domain, "nil") // no core type
					}
					// a case naming an interface handles every domain element implementing it
					site.Handled = expandIfaceCases(p, sw, site.Handled, site.Domain, astPkg, irPkg, typesPkg, typeStr)
					site.Strip = labelStrip(p, sw, x, stack, typeStr)
					site.Analyzer = analyzerOf(rel)
					sites = append(sites, site)
				case *ast.SwitchStmt:
					if sw.Tag != nil {
						if tt := p.TypesInfo.TypeOf(sw.Tag); tt != nil && typeStr(tt) == "token.Token" {
							// switch tok { case token.EQL: ... default: panic(...) }
							var def *ast.CaseClause
							var handled []string
							okCases := true
							for _, c := range sw.Body.List {
								cc := c.(*ast.CaseClause)
								if cc.List == nil {
									def = cc
									continue
								}
								for _, e := range cc.List {
									sel, isSel := e.(*ast.SelectorExpr)
									if !isSel {
										okCases = false
										continue
									}
									handled = append(handled, "token."+sel.Sel.Name)
								}
							}
							if def != nil && okCases && panics(p, def) {
								counter[encl]++
								sort.Strings(handled)
								sites = append(sites, Site{
									ID:         rel + ":" + encl + "#token" + strconv.Itoa(counter[encl]),
									Pos:        fmt.Sprintf("%s:%d", rel, p.Fset.Position(sw.Pos()).Line),
									Kind:       "tokenswitch",
									Scrutinee:  "token.Token",
									Handled:    handled,
									DomainKind: "contextual", // the tokens that can reach the switch are listed in c03_expect.json
									Forms:      []string{},
									Analyzer:   analyzerOf(rel),
								})
							}
							return true
						}
					}
					// switch callee.Name() { case "append": ... default: panic(...) }
					call, ok := sw.Tag.(*ast.CallExpr)
					if !ok {
						return true
					}
					sel, ok := call.Fun.(*ast.SelectorExpr)
					if !ok || sel.Sel.Name != "Name" {
						return true
					}
					rt := p.TypesInfo.TypeOf(sel.X)
					if rt == nil || !strings.HasSuffix(typeStr(rt), "ir.Builtin") {
						return true
					}
					var def *ast.CaseClause
					var handled []string
					for _, c := range sw.Body.List {
						cc := c.(*ast.CaseClause)
						if cc.List == nil {
							def = cc
							continue
						}
						for _, e := range cc.List {
							if bl, ok := e.(*ast.BasicLit); ok && bl.Kind == token.STRING {
								s, _ := strconv.Unquote(bl.Value)
								handled = append(handled, s)
							}
						}
					}
					if def == nil || !panics(p, def) {
						return true
					}
					counter[encl]++
					sort.Strings(handled)
					sites = append(sites, Site{
						ID:         rel + ":" + encl + "#builtin" + strconv.Itoa(counter[encl]),
						Pos:        fmt.Sprintf("%s:%d", rel, p.Fset.Position(sw.Pos()).Line),
						Kind:       "nameswitch",
						Scrutinee:  "ir.Builtin.Name()",
						Handled:    handled,
						DomainKind: "builtin-names",
						Forms:      []string{},
						Analyzer:   analyzerOf(rel),
					})
				}
				return true
			})
		}
	}
	sort.Slice(sites, func(i, j int) bool { return sites[i].ID < sites[j].ID })
	var cons []string
	for k := range irConstructed {
		cons = append(cons, k)
	}
	sort.Strings(cons)
	astIfaces := map[string][]string{}
	for _, n := range []string{"Expr", "Stmt", "Decl", "Spec"} {
		iface := astPkg.Scope().Lookup(n).Type().Underlying().(*types.Interface)
		for _, t := range implementers(astPkg, iface) {
			if !strings.Contains(t, "Bad") {
				astIfaces["ast."+n] = append(astIfaces["ast."+n], t)
			}
		}
	}
	for _, n := range []string{"Type", "Object"} {
		iface := typesPkg.Scope().Lookup(n).Type().Underlying().(*types.Interface)
		astIfaces["types."+n] = implementers(typesPkg, iface)
	}
	// names of ir-internal builtins: Builtin{name: "ssa:..."} literals in package ir
	ssaNames := map[string]bool{}
	for _, p := range pkgs {
		if p.PkgPath != "honnef.co/go/tools/go/ir" {
			continue
		}
		for _, f := range p.Syntax {
			ast.Inspect(f, func(n ast.Node) bool {
				cl, ok := n.(*ast.CompositeLit)
				if !ok {
					return true
				}
				if T := p.TypesInfo.TypeOf(cl); T == nil || !strings.HasSuffix(typeStr(T), "ir.Builtin") {
					return true
				}
				for _, e := range cl.Elts {
					if kv, ok := e.(*ast.KeyValueExpr); ok {
						if bl, ok := kv.Value.(*ast.BasicLit); ok && bl.Kind == token.STRING {
							if s, _ := strconv.Unquote(bl.Value); strings.HasPrefix(s, "ssa:") {
								ssaNames[s] = true
							}
						}
					}
				}
				return true
			})
		}
	}
	var ssa []string
	for k := range ssaNames {
		ssa = append(ssa, k)
	}
	sort.Strings(ssa)
	enc := json.NewEncoder(os.Stdout)
	enc.SetIndent("", " ")
	enc.Encode(map[string]any{"sites": sites, "ir_constructed": cons, "ifaces": astIfaces, "ssa_builtin_names": ssa})
}

func expandIfaceCases(p *packages.Package, sw *ast.TypeSwitchStmt, handled, domain []string, astPkg, irPkg, typesPkg *types.Package, typeStr func(types.Type) string) []string {
	set := map[string]bool{}
	for _, h := range handled {
		set[h] = true
	}
	lookup := func(name string) types.Type {
		ptr := strings.HasPrefix(name, "*")
		name = strings.TrimPrefix(name, "*")
		parts := strings.SplitN(name, ".", 2)
		if len(parts) != 2 {
			return nil
		}
		var pkg *types.Package
		switch parts[0] {
		case "ast":
			pkg = astPkg
		case "ir":
			pkg = irPkg
		case "types":
			pkg = typesPkg
		}
		if pkg == nil {
			return nil
		}
		obj := pkg.Scope().Lookup(parts[1])
		if obj == nil {
			return nil
		}
		if ptr {
			return types.NewPointer(obj.Type())
		}
		return obj.Type()
	}
	for _, c := range sw.Body.List {
		for _, e := range c.(*ast.CaseClause).List {
			t := p.TypesInfo.TypeOf(e)
			if t == nil {
				continue
			}
			iface, ok := t.Underlying().(*types.Interface)
			if !ok {
				continue
			}
			for _, d := range domain {
				if dt := lookup(d); dt != nil && types.Implements(dt, iface) {
					set[d] = true
				}
			}
		}
	}
	var out []string
	for k := range set {
		out = append(out, k)
	}
	sort.Strings(out)
	return out
}

func analyseTypeSwitch(p *packages.Package, sw *ast.TypeSwitchStmt, typeStr func(types.Type) string) (def *ast.CaseClause, handled []string, ok bool) {
	for _, c := range sw.Body.List {
		cc := c.(*ast.CaseClause)
		if cc.List == nil {
			def = cc
			continue
		}
		for _, e := range cc.List {
			if id, isId := e.(*ast.Ident); isId && id.Name == "nil" {
				handled = append(handled, "nil")
				continue
			}
			t := p.TypesInfo.TypeOf(e)
			if t == nil {
				return nil, nil, false
			}
			handled = append(handled, typeStr(t))
		}
	}
	sort.Strings(handled)
	return def, handled, def != nil
}

// panics reports whether the default clause unconditionally panics: at the top level of the
// clause there is a call of panic / lint.ExhaustiveTypeSwitch, and the statements in front
// of it are simple (assignments / declarations computing the message). Statements after
// the call (an unreachable `return false`) do not matter.
func panics(p *packages.Package, cc *ast.CaseClause) bool {
	for _, s := range cc.Body {
		switch s := s.(type) {
		case *ast.AssignStmt, *ast.DeclStmt:
			continue
		case *ast.ExprStmt:
			call, ok := s.X.(*ast.CallExpr)
			if !ok {
				return false
			}
			switch fn := call.Fun.(type) {
			case *ast.Ident:
				return fn.Name == "panic"
			case *ast.SelectorExpr:
				return fn.Sel.Name == "ExhaustiveTypeSwitch"
			}
			return false
		default:
			return false
		}
	}
	return false
}

func hasForm(fs []string, f string) bool {
	for _, x := range fs {
		if x == f {
			return true
		}
	}
	return false
}

// analyzerOf maps a site's file to the package directory it lives in.
func analyzerOf(rel string) string {
	if i := strings.LastIndex(rel, "/"); i >= 0 {
		return rel[:i]
	}
	return rel
}

// scrutineeForms recognises how the switched-over value is computed.
func scrutineeForms(p *packages.Package, x ast.Expr, stack []ast.Node, typeStr func(types.Type) string) []string {
	forms := []string{}
	x = ast.Unparen(x)
	if id, ok := x.(*ast.Ident); ok {
		// "unparen-assigned": every assignment to the switched variable in the enclosing
		// function is a call of ast.Unparen / astutil.Unparen
		var encl ast.Node
		for i := len(stack) - 1; i >= 0 && encl == nil; i-- {
			switch stack[i].(type) {
			case *ast.FuncDecl, *ast.FuncLit:
				encl = stack[i]
			}
		}
		obj := p.TypesInfo.ObjectOf(id)
		if encl != nil && obj != nil {
			n, all := 0, true
			ast.Inspect(encl, func(nd ast.Node) bool {
				as, ok := nd.(*ast.AssignStmt)
				if !ok || len(as.Lhs) != len(as.Rhs) {
					if ok {
						for _, l := range as.Lhs {
							if lid, ok := l.(*ast.Ident); ok && p.TypesInfo.ObjectOf(lid) == obj {
								all = false
							}
						}
					}
					return true
				}
				for i, l := range as.Lhs {
					lid, ok := l.(*ast.Ident)
					if !ok || p.TypesInfo.ObjectOf(lid) != obj {
						continue
					}
					n++
					call, ok := as.Rhs[i].(*ast.CallExpr)
					if !ok {
						all = false
						continue
					}
					sel, ok := call.Fun.(*ast.SelectorExpr)
					if !ok || sel.Sel.Name != "Unparen" {
						all = false
					}
				}
				return true
			})
			if _, isVar := obj.(*types.Var); isVar && n > 0 && all {
				forms = append(forms, "unparen-assigned")
			}
		}
		return forms
	}
	call, ok := x.(*ast.CallExpr)
	if !ok {
		return forms
	}
	switch fn := call.Fun.(type) {
	case *ast.SelectorExpr:
		switch {
		case fn.Sel.Name == "Underlying" && len(call.Args) == 0:
			forms = append(forms, "underlying-call")
			// term.Type().Underlying()
			if inner, ok := ast.Unparen(fn.X).(*ast.CallExpr); ok {
				if isel, ok := inner.Fun.(*ast.SelectorExpr); ok && isel.Sel.Name == "Type" && len(inner.Args) == 0 {
					if t := p.TypesInfo.TypeOf(isel.X); t != nil && typeStr(t) == "*types.Term" {
						forms = append(forms, "term-type")
					}
				}
			}
		case fn.Sel.Name == "CoreType":
			forms = append(forms, "coretype-call")
		case fn.Sel.Name == "Unalias" && len(call.Args) == 1:
			forms = append(forms, "unalias-call")
		}
	}
	return forms
}

// labelStrip recognises the statement directly in front of the switch that removes
// *ast.LabeledStmt wrappers from the scrutinee variable V:
//
//	for { if l, ok := V.(*ast.LabeledStmt); ok { V = l.Stmt } else { break } }   -> mode "loop"
//	if l, ok := V.(*ast.LabeledStmt); ok { V = l.Stmt }                          -> mode "once"
func labelStrip(p *packages.Package, sw *ast.TypeSwitchStmt, x ast.Expr, stack []ast.Node, typeStr func(types.Type) string) *Strip {
	v, ok := ast.Unparen(x).(*ast.Ident)
	if !ok || len(stack) < 2 {
		return nil
	}
	var list []ast.Stmt
	switch parent := stack[len(stack)-2].(type) {
	case *ast.BlockStmt:
		list = parent.List
	case *ast.CaseClause:
		list = parent.Body
	default:
		return nil
	}
	var prev ast.Stmt
	for i, s := range list {
		if s == ast.Stmt(sw) && i > 0 {
			prev = list[i-1]
		}
	}
	if prev == nil {
		return nil
	}
	// the single stripping `if`
	stripIf := func(s ast.Stmt, wantBreakElse bool) (string, bool) {
		is, ok := s.(*ast.IfStmt)
		if !ok || is.Init == nil {
			return "", false
		}
		as, ok := is.Init.(*ast.AssignStmt)
		if !ok || len(as.Lhs) != 2 || len(as.Rhs) != 1 {
			return "", false
		}
		ta, ok := as.Rhs[0].(*ast.TypeAssertExpr)
		if !ok || ta.Type == nil {
			return "", false
		}
		if id, ok := ast.Unparen(ta.X).(*ast.Ident); !ok || p.TypesInfo.ObjectOf(id) != p.TypesInfo.ObjectOf(v) {
			return "", false
		}
		okID, isID := as.Lhs[1].(*ast.Ident)
		cond, isC := is.Cond.(*ast.Ident)
		if !isID || !isC || cond.Name != okID.Name {
			return "", false
		}
		// body: V = l.Stmt
		if len(is.Body.List) != 1 {
			return "", false
		}
		asg, ok := is.Body.List[0].(*ast.AssignStmt)
		if !ok || len(asg.Lhs) != 1 || len(asg.Rhs) != 1 {
			return "", false
		}
		if id, ok := asg.Lhs[0].(*ast.Ident); !ok || p.TypesInfo.ObjectOf(id) != p.TypesInfo.ObjectOf(v) {
			return "", false
		}
		sel, ok := asg.Rhs[0].(*ast.SelectorExpr)
		if !ok || sel.Sel.Name != "Stmt" {
			return "", false
		}
		if wantBreakElse {
			eb, ok := is.Else.(*ast.BlockStmt)
			if !ok || len(eb.List) != 1 {
				return "", false
			}
			if br, ok := eb.List[0].(*ast.BranchStmt); !ok || br.Tok != token.BREAK || br.Label != nil {
				return "", false
			}
		} else if is.Else != nil {
			return "", false
		}
		return typeStr(p.TypesInfo.TypeOf(ta.Type)), true
	}
	if fs, ok := prev.(*ast.ForStmt); ok && fs.Init == nil && fs.Cond == nil && fs.Post == nil && len(fs.Body.List) == 1 {
		if k, ok := stripIf(fs.Body.List[0], true); ok {
			return &Strip{Mode: "loop", Kind: k}
		}
		return nil
	}
	if k, ok := stripIf(prev, false); ok {
		return &Strip{Mode: "once", Kind: k}
	}
	return nil
}

func domainOf(p *packages.Package, st types.Type, x ast.Expr, stack []ast.Node, astPkg, irPkg, typesPkg *types.Package, irConstructed map[string]bool,
	implementers func(*types.Package, *types.Interface) []string, typeStr func(types.Type) string) (string, []string) {
	nt, ok := types.Unalias(st).(*types.Named)
	if !ok {
		return "contextual", nil
	}
	iface, ok := nt.Underlying().(*types.Interface)
	if !ok {
		return "contextual", nil
	}
	switch {
	case nt.Obj().Pkg() == astPkg && nt.Obj().Name() == "Node":
		// look for an enclosing call with (*ast.T)(nil) filter arguments and a func literal
		// argument containing this switch (code.Preorder / inspector.Preorder / WithStack ...)
		for i := len(stack) - 1; i >= 0; i-- {
			call, ok := stack[i].(*ast.CallExpr)
			if !ok {
				continue
			}
			if f := filterArgs(p, call, typeStr); f != nil {
				return "ast-filter", f
			}
		}
		// the func literal may be bound to a variable (fn := func(node ast.Node) {...}; code.Preorder(pass, fn, filters...))
		if f := filterViaVariable(p, stack, typeStr); f != nil {
			return "ast-filter", f
		}
		return "contextual", nil
	case nt.Obj().Pkg() == astPkg:
		var out []string
		for _, t := range implementers(astPkg, iface) {
			if strings.Contains(t, "Bad") {
				continue // BadExpr/BadStmt/BadDecl only arise from syntax errors
			}
			out = append(out, t)
		}
		return "ast-iface", out
	case nt.Obj().Pkg() == typesPkg && (nt.Obj().Name() == "Type" || nt.Obj().Name() == "Object"):
		// implementers in go/types of the current toolchain (export data)
		return "types-iface", implementers(typesPkg, iface)
	case nt.Obj().Pkg() == irPkg && (nt.Obj().Name() == "Instruction"):
		var out []string
		for _, t := range implementers(irPkg, iface) {
			if irConstructed[strings.TrimPrefix(t, "*ir.")] {
				out = append(out, t)
			}
		}
		return "ir-constructed", out
	}
	return "contextual", nil
}

func filterArgs(p *packages.Package, call *ast.CallExpr, typeStr func(types.Type) string) []string {
	var out []string
	var args []ast.Expr
	for _, a := range call.Args {
		// []ast.Node{(*ast.T)(nil), ...} (inspector.Nodes / WithStack)
		if cl, ok := a.(*ast.CompositeLit); ok {
			args = append(args, cl.Elts...)
		} else {
			args = append(args, a)
		}
	}
	for _, a := range args {
		// (*ast.T)(nil)
		c, ok := a.(*ast.CallExpr)
		if !ok || len(c.Args) != 1 {
			continue
		}
		if id, ok := c.Args[0].(*ast.Ident); !ok || id.Name != "nil" {
			continue
		}
		if tv, ok := p.TypesInfo.Types[c.Fun]; ok && tv.IsType() {
			out = append(out, typeStr(tv.Type))
		}
	}
	sort.Strings(out)
	return out
}

func filterViaVariable(p *packages.Package, stack []ast.Node, typeStr func(types.Type) string) []string {
	// find the innermost FuncLit on the stack and the statement `v := func...`
	for i := len(stack) - 1; i > 0; i-- {
		fl, ok := stack[i].(*ast.FuncLit)
		if !ok {
			continue
		}
		as, ok := stack[i-1].(*ast.AssignStmt)
		if !ok || len(as.Lhs) != 1 {
			return nil
		}
		id, ok := as.Lhs[0].(*ast.Ident)
		if !ok {
			return nil
		}
		obj := p.TypesInfo.ObjectOf(id)
		_ = fl
		// search the enclosing function body for calls using obj as an argument together with filters
		var res []string
		for j := i - 1; j >= 0; j-- {
			if fd, ok := stack[j].(*ast.FuncDecl); ok {
				uses := 0
				ast.Inspect(fd, func(n ast.Node) bool {
					call, ok := n.(*ast.CallExpr)
					if !ok {
						return true
					}
					for _, a := range call.Args {
						if aid, ok := a.(*ast.Ident); ok && p.TypesInfo.ObjectOf(aid) == obj {
							if f := filterArgs(p, call, typeStr); f != nil {
								uses++
								res = append(res, f...)
							}
						}
					}
					return true
				})
				if uses == 0 {
					return nil
				}
				sort.Strings(res)
				// dedup
				var out []string
				for k, s := range res {
					if k == 0 || s != res[k-1] {
						out = append(out, s)
					}
				}
				return out
			}
		}
		return nil
	}
	return nil
}
