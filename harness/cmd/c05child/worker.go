package main

import (
	"bytes"
	"crypto/sha256"
	"fmt"
	"os"
	"path/filepath"
	"strconv"

	"honnef.co/go/tools/lintcmd/cache"
)

// Key j of the concurrency test: the action id and the three content variants are fixed
// functions of j, so every process can evaluate the oracle by itself.  Role 'w' stores
// variant 0 only (one output per action id); role 'x' stores a random variant (several
// contents under one action id, as with the runner's gob-encoded facts): variant 1 has
// the same size and other bytes, variant 2 is one byte longer.  The oracle: a hit is
// exactly one of the variants of that key.
var keySizes = []int{0, 1, 2, 100, 4096, 32767, 32768, 32769, 70000, 200000}

func keyID(j int) cache.ActionID {
	return cache.ActionID(sha256.Sum256([]byte(fmt.Sprintf("c05-key-%d", j))))
}

func keyData(j, v int) []byte {
	n := keySizes[j%len(keySizes)]
	if v == 2 {
		n++
	}
	b := make([]byte, n)
	x := uint64(j)*0x9E3779B97F4A7C15 + 1 + uint64(v)*0x632BE59BD9B4E019
	for i := range b {
		x ^= x << 13
		x ^= x >> 7
		x ^= x << 17
		b[i] = byte(x >> 24)
	}
	return b
}

type rng struct{ s uint64 }

func (r *rng) next() uint64 {
	r.s += 0x9E3779B97F4A7C15
	z := r.s
	z = (z ^ (z >> 30)) * 0xBF58476D1CE4E5B9
	z = (z ^ (z >> 27)) * 0x94D049BB133111EB
	return z ^ (z >> 31)
}

func workerMode(args []string) {
	if len(args) != 5 {
		fatal("usage: worker <dir> <seed> <nops> <roles> <nkeys>")
	}
	dir := args[0]
	seed, _ := strconv.ParseUint(args[1], 10, 64)
	nops, _ := strconv.Atoi(args[2])
	roles := args[3]
	nkeys, _ := strconv.Atoi(args[4])
	if roles == "" || nkeys <= 0 {
		fatal("bad roles/nkeys")
	}
	c := openCache(dir)
	r := &rng{seed}
	datas := make([][3][]byte, nkeys)
	for j := range datas {
		for v := 0; v < 3; v++ {
			datas[j][v] = keyData(j, v)
		}
	}
	isVariant := func(j int, got []byte) bool {
		for v := 0; v < 3; v++ {
			if bytes.Equal(got, datas[j][v]) {
				return true
			}
		}
		return false
	}
	var puts, puterr, hits, misses, openerr, trims, viol int
	for i := 0; i < nops; i++ {
		role := roles[r.next()%uint64(len(roles))]
		j := int(r.next() % uint64(nkeys))
		switch role {
		case 'w', 'x':
			v := 0
			if role == 'x' {
				v = int(r.next() % 3)
			}
			if err := cache.PutBytes(c, keyID(j), datas[j][v]); err != nil {
				puterr++
			} else {
				puts++
			}
		case 'r':
			// the runner's lookup: GetFile, then open+read of the returned name
			file, _, err := cache.GetFile(c, keyID(j))
			if err != nil {
				misses++
			} else if got, err := os.ReadFile(file); err != nil {
				openerr++
			} else if !isVariant(j, got) {
				viol++
				kind := "getfile"
				for v := 0; v < 3; v++ {
					if len(got) < len(datas[j][v]) && bytes.Equal(got, datas[j][v][:len(got)]) {
						kind = "getfile-prefix" // a strict prefix of a stored content
					}
				}
				fmt.Printf("VIOL %s key=%d want_len=%d got_len=%d got_sha=%s\n", kind, j, len(datas[j][0]), len(got), sum(got))
			} else {
				hits++
			}
			got, _, err := cache.GetBytes(c, keyID(j))
			if err != nil {
				misses++
			} else if !isVariant(j, got) {
				viol++
				fmt.Printf("VIOL getbytes key=%d want_len=%d got_len=%d got_sha=%s\n", j, len(datas[j][0]), len(got), sum(got))
			} else {
				hits++
			}
		case 't':
			os.Remove(filepath.Join(dir, "trim.txt"))
			c.Trim()
			trims++
		default:
			fatal("bad role %q", role)
		}
	}
	fmt.Printf("DONE puts=%d puterr=%d hits=%d misses=%d openerr=%d trims=%d viol=%d\n", puts, puterr, hits, misses, openerr, trims, viol)
}
