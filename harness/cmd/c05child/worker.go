package main

import (
	"bytes"
	"crypto/sha256"
	"fmt"
	"os"
	"path/filepath"
	"strconv"

	"honnef.co/go/tools/lintcmd/cache"
)

// Key j of the concurrency test: action id and content are fixed functions of j, so
// every process stores the same bytes under the same id (one output per action id,
// the runner's situation) and every process can evaluate the oracle by itself.
var keySizes = []int{0, 1, 2, 100, 4096, 32767, 32768, 32769, 70000, 200000}

func keyID(j int) cache.ActionID {
	return cache.ActionID(sha256.Sum256([]byte(fmt.Sprintf("c05-key-%d", j))))
}

func keyData(j int) []byte {
	n := keySizes[j%len(keySizes)]
	b := make([]byte, n)
	x := uint64(j)*0x9E3779B97F4A7C15 + 1
	for i := range b {
		x ^= x << 13
		x ^= x >> 7
		x ^= x << 17
		b[i] = byte(x >> 24)
	}
	return b
}

type rng struct{ s uint64 }

func (r *rng) next() uint64 {
	r.s += 0x9E3779B97F4A7C15
	z := r.s
	z = (z ^ (z >> 30)) * 0xBF58476D1CE4E5B9
	z = (z ^ (z >> 27)) * 0x94D049BB133111EB
	return z ^ (z >> 31)
}

func workerMode(args []string) {
	if len(args) != 5 {
		fatal("usage: worker <dir> <seed> <nops> <roles> <nkeys>")
	}
	dir := args[0]
	seed, _ := strconv.ParseUint(args[1], 10, 64)
	nops, _ := strconv.Atoi(args[2])
	roles := args[3]
	nkeys, _ := strconv.Atoi(args[4])
	if roles == "" || nkeys <= 0 {
		fatal("bad roles/nkeys")
	}
	c := openCache(dir)
	r := &rng{seed}
	datas := make([][]byte, nkeys)
	for j := range datas {
		datas[j] = keyData(j)
	}
	var puts, puterr, hits, misses, openerr, trims, viol int
	for i := 0; i < nops; i++ {
		role := roles[r.next()%uint64(len(roles))]
		j := int(r.next() % uint64(nkeys))
		switch role {
		case 'w':
			if err := cache.PutBytes(c, keyID(j), datas[j]); err != nil {
				puterr++
			} else {
				puts++
			}
		case 'r':
			// the runner's lookup: GetFile, then open+read of the returned name
			file, _, err := cache.GetFile(c, keyID(j))
			if err != nil {
				misses++
			} else if got, err := os.ReadFile(file); err != nil {
				openerr++
			} else if !bytes.Equal(got, datas[j]) {
				viol++
				fmt.Printf("VIOL getfile key=%d want_len=%d got_len=%d got_sha=%s\n", j, len(datas[j]), len(got), sum(got))
			} else {
				hits++
			}
			got, _, err := cache.GetBytes(c, keyID(j))
			if err != nil {
				misses++
			} else if !bytes.Equal(got, datas[j]) {
				viol++
				fmt.Printf("VIOL getbytes key=%d want_len=%d got_len=%d got_sha=%s\n", j, len(datas[j]), len(got), sum(got))
			} else {
				hits++
			}
		case 't':
			os.Remove(filepath.Join(dir, "trim.txt"))
			c.Trim()
			trims++
		default:
			fatal("bad role %q", role)
		}
	}
	fmt.Printf("DONE puts=%d puterr=%d hits=%d misses=%d openerr=%d trims=%d viol=%d\n", puts, puterr, hits, misses, openerr, trims, viol)
}
