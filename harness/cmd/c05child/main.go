// c05child drives the REAL lintcmd/cache code for the C05 check.
//
//	c05child op put  <dir> <idhex> <datafile> [file]   one cache.Put between two marker syscalls (run under strace);
//	                                                   then the path cache.OutputFile(out) is opened and read as lintcmd/runner does
//	c05child op putflaky <dir> <idhex> <datafile> <data2file>  Put from a source that yields data2 on its second pass
//	c05child op look <dir> <idhex>                     Get / GetFile(+open+read) / GetBytes, one output line
//	c05child op getfile-hold <dir> <idhex>             GetFile, print the path, wait for a line on stdin, then open+read the path
//	c05child op trim <dir> x                           one real Trim (trim.txt removed first)
//	c05child batch                                     line commands on stdin, one output line each (in-process, volume)
//	c05child worker <dir> <seed> <nops> <roles> <nkeys>  concurrency worker with the oracle evaluated on every hit
//
// The main goroutine is locked to the main OS thread so that every syscall of Put is
// issued by one thread (strace's inject counter is per thread).
package main

import (
	"bufio"
	"bytes"
	"crypto/sha256"
	"encoding/hex"
	"fmt"
	"io"
	"os"
	"path/filepath"
	"runtime"
	"sort"
	"strconv"
	"strings"
	"time"

	"honnef.co/go/tools/lintcmd/cache"
)

func fatal(f string, a ...any) {
	fmt.Fprintf(os.Stderr, "c05child: "+f+"\n", a...)
	os.Exit(3)
}

func parseID(s string) cache.ActionID {
	var id cache.ActionID
	b, err := hex.DecodeString(s)
	if err != nil || len(b) != len(id) {
		fatal("bad id %q", s)
	}
	copy(id[:], b)
	return id
}

// marker issues a syscall that is easy to find in the strace log.
func marker(name string) {
	os.Stat("/VERIF_C05_MARK_" + name)
}

func sum(b []byte) string {
	h := sha256.Sum256(b)
	return hex.EncodeToString(h[:])
}

// look performs the three lookups of the cache API the way the runner does
// (GetFile, later open+read of the returned name) and canonicalises the results.
func look(c cache.Cache, id cache.ActionID) (string, [][]byte) {
	var hits [][]byte
	var sb strings.Builder
	e, err := c.Get(id)
	if err != nil {
		sb.WriteString("get=miss")
	} else {
		fmt.Fprintf(&sb, "get=hit:%x:%d", e.OutputID[:], e.Size)
	}
	file, _, err := cache.GetFile(c, id)
	if err != nil {
		sb.WriteString(" getfile=miss")
	} else {
		data, err := os.ReadFile(file)
		if err != nil {
			sb.WriteString(" getfile=openerr")
		} else {
			fmt.Fprintf(&sb, " getfile=hit:%s:%d", sum(data), len(data))
			hits = append(hits, data)
		}
	}
	data, _, err := cache.GetBytes(c, id)
	if err != nil {
		sb.WriteString(" getbytes=miss")
	} else {
		fmt.Fprintf(&sb, " getbytes=hit:%s:%d", sum(data), len(data))
		hits = append(hits, data)
	}
	return sb.String(), hits
}

// readOutputFile does what lintcmd/runner does with the result of a successful Put: it
// takes the path c.OutputFile(out) and later opens and reads it (no size check).
func readOutputFile(c cache.Cache, out cache.OutputID) string {
	data, err := os.ReadFile(c.OutputFile(out))
	if err != nil {
		return "outfile=openerr"
	}
	return fmt.Sprintf("outfile=hit:%s:%d", sum(data), len(data))
}

// flakySource yields a on the first pass and b after the second Seek to the start: the
// caller of Put breaks the contract "the content of file must not change between the
// two passes".
type flakySource struct {
	a, b  []byte
	seeks int
	r     *bytes.Reader
}

func (f *flakySource) Seek(off int64, whence int) (int64, error) {
	if off == 0 && whence == io.SeekStart {
		f.seeks++
		if f.seeks >= 2 {
			f.r = bytes.NewReader(f.b)
		} else {
			f.r = bytes.NewReader(f.a)
		}
		return 0, nil
	}
	if f.r == nil {
		f.r = bytes.NewReader(f.a)
	}
	return f.r.Seek(off, whence)
}

func (f *flakySource) Read(p []byte) (int, error) {
	if f.r == nil {
		f.r = bytes.NewReader(f.a)
	}
	return f.r.Read(p)
}

// indexTS returns the time stamp field of the index entry of id ("-" if unreadable).
func indexTS(dir string, id cache.ActionID) string {
	b, err := os.ReadFile(cachePath(dir, fmt.Sprintf("%x-a", id[:])))
	if err != nil || len(b) != 175 {
		return "-"
	}
	return strings.TrimSpace(string(b[154:174]))
}

func openCache(dir string) *cache.DiskCache {
	if err := os.MkdirAll(dir, 0777); err != nil {
		fatal("%v", err)
	}
	c, err := cache.Open(dir)
	if err != nil {
		fatal("open: %v", err)
	}
	return c
}

func opMode(args []string) {
	if len(args) < 3 {
		fatal("usage")
	}
	switch args[0] {
	case "put":
		if len(args) < 4 {
			fatal("usage")
		}
		c := openCache(args[1])
		id := parseID(args[2])
		var rs io.ReadSeeker
		if len(args) > 4 && args[4] == "file" {
			f, err := os.Open(args[3])
			if err != nil {
				fatal("%v", err)
			}
			rs = f
		} else {
			data, err := os.ReadFile(args[3])
			if err != nil {
				fatal("%v", err)
			}
			rs = bytes.NewReader(data)
		}
		marker("BEGIN")
		out, size, err := c.Put(id, rs)
		marker("END")
		if err != nil {
			fmt.Printf("put err %v\n", err)
		} else {
			fmt.Printf("put ok %x %d %s\n", out[:], size, readOutputFile(c, out))
		}
	case "putflaky":
		if len(args) < 5 {
			fatal("usage")
		}
		c := openCache(args[1])
		id := parseID(args[2])
		d1, err := os.ReadFile(args[3])
		if err != nil {
			fatal("%v", err)
		}
		d2, err := os.ReadFile(args[4])
		if err != nil {
			fatal("%v", err)
		}
		rs := &flakySource{a: d1, b: d2}
		marker("BEGIN")
		out, size, err := c.Put(id, rs)
		marker("END")
		if err != nil {
			fmt.Printf("put err %x %d\n", out[:], size)
		} else {
			fmt.Printf("put ok %x %d %s\n", out[:], size, readOutputFile(c, out))
		}
	case "getfile-hold":
		c := openCache(args[1])
		file, _, err := cache.GetFile(c, parseID(args[2]))
		if err != nil {
			fmt.Println("miss")
		} else {
			fmt.Println("path " + file)
		}
		os.Stdout.Sync()
		bufio.NewReader(os.Stdin).ReadString('\n')
		if err == nil {
			data, err := os.ReadFile(file)
			if err != nil {
				fmt.Println("read=openerr")
			} else {
				fmt.Printf("read=hit:%s:%d\n", sum(data), len(data))
			}
		}
	case "trim":
		c := openCache(args[1])
		os.Remove(filepath.Join(args[1], "trim.txt"))
		marker("BEGIN")
		c.Trim()
		marker("END")
		fmt.Println("trim ok")
	case "look":
		c := openCache(args[1])
		marker("BEGIN")
		s, _ := look(c, parseID(args[2]))
		marker("END")
		fmt.Println(s)
	default:
		fatal("unknown op %q", args[0])
	}
}

// listing prints every cache file (relative name, length, sha256), sorted.
func listing(dir string) string {
	var out []string
	filepath.Walk(dir, func(p string, info os.FileInfo, err error) error {
		if err != nil || info.IsDir() {
			return nil
		}
		if !strings.HasSuffix(p, "-a") && !strings.HasSuffix(p, "-d") {
			return nil
		}
		b, _ := os.ReadFile(p)
		out = append(out, fmt.Sprintf("%s:%d:%s", filepath.Base(p), len(b), sum(b)))
		return nil
	})
	sort.Strings(out)
	if len(out) == 0 {
		return "-"
	}
	return strings.Join(out, ",")
}

func cachePath(dir, base string) string {
	// cache files live in the subdirectory named by the first byte of the id
	return filepath.Join(dir, base[:2], base)
}

func batchMode() {
	in := bufio.NewReaderSize(os.Stdin, 1<<20)
	out := bufio.NewWriterSize(os.Stdout, 1<<20)
	defer out.Flush()
	var c *cache.DiskCache
	var dir string
	for {
		line, err := in.ReadString('\n')
		if line == "" && err != nil {
			break
		}
		t := strings.Fields(line)
		res := "bad-op"
		if len(t) > 0 {
			switch {
			case t[0] == "open" && len(t) == 2:
				dir = t[1]
				c = openCache(dir)
				res = "ok"
			case t[0] == "put" && len(t) == 3 && c != nil: // put <idhex> <datahex|->
				var data []byte
				if t[2] != "-" {
					data, err = hex.DecodeString(t[2])
					if err != nil {
						fatal("bad data hex")
					}
				}
				o, n, err := c.Put(parseID(t[1]), bytes.NewReader(data))
				if err != nil {
					res = "err"
				} else {
					res = fmt.Sprintf("ok %x %d %s %s", o[:], n, indexTS(dir, parseID(t[1])), readOutputFile(c, o))
				}
			case t[0] == "putflaky" && len(t) == 4 && c != nil: // putflaky <idhex> <datahex> <data2hex>
				d1, err1 := hex.DecodeString(t[2])
				d2, err2 := hex.DecodeString(t[3])
				if err1 != nil || err2 != nil {
					fatal("bad data hex")
				}
				o, n, err := c.Put(parseID(t[1]), &flakySource{a: d1, b: d2})
				if err != nil {
					res = fmt.Sprintf("err %x %d", o[:], n)
				} else {
					res = fmt.Sprintf("ok %x %d %s %s", o[:], n, indexTS(dir, parseID(t[1])), readOutputFile(c, o))
				}
			case t[0] == "age" && len(t) == 3 && c != nil: // age <basename> <seconds>: mtime := now - seconds
				sec, _ := strconv.ParseInt(t[2], 10, 64)
				tm := time.Now().Add(-time.Duration(sec) * time.Second)
				if err := os.Chtimes(cachePath(dir, t[1]), tm, tm); err != nil {
					res = "err"
				} else {
					res = "ok"
				}
			case t[0] == "putfile" && len(t) == 3 && c != nil: // put <idhex> <path>
				data, err := os.ReadFile(t[2])
				if err != nil {
					fatal("%v", err)
				}
				o, n, err := c.Put(parseID(t[1]), bytes.NewReader(data))
				if err != nil {
					res = "err"
				} else {
					res = fmt.Sprintf("ok %x %d %s %s", o[:], n, indexTS(dir, parseID(t[1])), readOutputFile(c, o))
				}
			case t[0] == "look" && len(t) == 2 && c != nil:
				res, _ = look(c, parseID(t[1]))
			case t[0] == "set" && len(t) == 3 && c != nil: // set <basename> <hex|->  write a cache file directly
				var data []byte
				if t[2] != "-" {
					data, err = hex.DecodeString(t[2])
					if err != nil {
						fatal("bad data hex")
					}
				}
				if err := os.WriteFile(cachePath(dir, t[1]), data, 0666); err != nil {
					fatal("%v", err)
				}
				res = "ok"
			case t[0] == "setfile" && len(t) == 4 && c != nil: // setfile <basename> <path> <n>: first n bytes of path
				data, err := os.ReadFile(t[2])
				if err != nil {
					fatal("%v", err)
				}
				n, _ := strconv.Atoi(t[3])
				if n > len(data) {
					fatal("setfile: n too large")
				}
				if err := os.WriteFile(cachePath(dir, t[1]), data[:n], 0666); err != nil {
					fatal("%v", err)
				}
				res = "ok"
			case t[0] == "trunc" && len(t) == 3 && c != nil:
				n, _ := strconv.ParseInt(t[2], 10, 64)
				if err := os.Truncate(cachePath(dir, t[1]), n); err != nil {
					res = "err"
				} else {
					res = "ok"
				}
			case t[0] == "rm" && len(t) == 2 && c != nil:
				if err := os.Remove(cachePath(dir, t[1])); err != nil {
					res = "err"
				} else {
					res = "ok"
				}
			case t[0] == "clear" && c != nil:
				filepath.Walk(dir, func(p string, info os.FileInfo, err error) error {
					if err == nil && !info.IsDir() {
						os.Remove(p)
					}
					return nil
				})
				res = "ok"
			case t[0] == "trim" && c != nil:
				os.Remove(filepath.Join(dir, "trim.txt"))
				c.Trim()
				res = "ok"
			case t[0] == "ls" && c != nil:
				res = listing(dir)
			}
		}
		fmt.Fprintln(out, res)
		if err != nil {
			break
		}
	}
}

func main() {
	runtime.LockOSThread()
	if len(os.Args) < 2 {
		fatal("usage")
	}
	switch os.Args[1] {
	case "op":
		opMode(os.Args[2:])
	case "batch":
		batchMode()
	case "worker":
		workerMode(os.Args[2:])
	default:
		fatal("unknown mode %q", os.Args[1])
	}
}
