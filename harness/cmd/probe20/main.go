// probe20 is a lintcmd-based linter with a single probe analyzer (VP2000) used by the
// C20 check: on every file it reports one problem per (bound kind, threshold) through
// the real report.Report, plus the effective versions code.LanguageVersion /
// code.StdlibVersion compute for that file. It runs through the real runner/loader.
package main

import (
	"fmt"
	"os"
	"strings"

	"golang.org/x/tools/go/analysis"
	"honnef.co/go/tools/analysis/code"
	"honnef.co/go/tools/analysis/lint"
	"honnef.co/go/tools/analysis/report"
	"honnef.co/go/tools/knowledge"
	"honnef.co/go/tools/lintcmd"
)

func thresholds() []string {
	if s := os.Getenv("VERIF_THRESHOLDS"); s != "" {
		return strings.Fields(s)
	}
	return nil
}

var probe = lint.InitializeAnalyzer(&lint.Analyzer{
	Analyzer: &analysis.Analyzer{
		Name: "VP2000",
		Run:  run,
	},
	Doc: &lint.RawDocumentation{
		Title:    "version probe",
		Since:    "2026.1",
		Severity: lint.SeverityWarning,
		MergeIf:  lint.MergeIfAny,
	},
})

func run(pass *analysis.Pass) (any, error) {
	kinds := []struct {
		name string
		opt  func(string) report.Option
	}{
		{"minlang", report.MinimumLanguageVersion},
		{"maxlang", report.MaximumLanguageVersion},
		{"minstd", report.MinimumStdlibVersion},
		{"maxstd", report.MaximumStdlibVersion},
	}
	for _, f := range pass.Files {
		pass.Report(analysis.Diagnostic{
			Pos:     f.Name.Pos(),
			End:     f.Name.End(),
			Message: fmt.Sprintf("eff %s %s", code.LanguageVersion(pass, f.Name), code.StdlibVersion(pass, f.Name)),
		})
		for _, k := range kinds {
			for _, thr := range thresholds() {
				report.Report(pass, f.Name, fmt.Sprintf("probe %s %s", k.name, thr), k.opt(thr))
			}
		}
	}
	return nil, nil
}

func main() {
	if len(os.Args) > 1 && os.Args[1] == "-setters" {
		// in-process tie for the option constructors: which field does each one set?
		for _, k := range []struct {
			name string
			opt  func(string) report.Option
		}{
			{"minlang", report.MinimumLanguageVersion},
			{"maxlang", report.MaximumLanguageVersion},
			{"minstd", report.MinimumStdlibVersion},
			{"maxstd", report.MaximumStdlibVersion},
		} {
			var o report.Options
			k.opt("go1.5")(&o)
			d := func(s string) string {
				if s == "" {
					return "-"
				}
				return s
			}
			fmt.Printf("%s %s %s %s %s\n", k.name, d(o.MinimumLanguageVersion), d(o.MaximumLanguageVersion), d(o.MinimumStdlibVersion), d(o.MaximumStdlibVersion))
		}
		return
	}
	if len(os.Args) > 1 && os.Args[1] == "-deprecations" {
		// the thresholds SA1019 uses, from the real knowledge table
		for _, n := range os.Args[2:] {
			d, ok := knowledge.StdlibDeprecations[n]
			if !ok {
				fmt.Printf("%s -\n", n)
				continue
			}
			fmt.Printf("%s %s\n", n, d.DeprecatedSince)
		}
		return
	}
	cmd := lintcmd.NewCommand("probe20")
	cmd.SetVersion("verif", "verif")
	cmd.ParseFlags(os.Args[1:])
	cmd.AddAnalyzers(probe)
	cmd.Run()
}
