// c19sizes: calls the real honnef.co/go/tools/go/gcsizes in-process.
//
// usage: c19sizes <file.go> <n>
// The file declares struct types T0 … T(n-1) (plus helper types). It is type-checked
// with go/types; for every Ti one line is printed:
//
//	<i> <Sizeof> <Alignof> <Offsetsof,…|-> <Sizeof of each field,…|-> <Alignof of each field,…|->
package main

import (
	"bufio"
	"fmt"
	"go/ast"
	"go/parser"
	"go/token"
	"go/types"
	"os"
	"strconv"
	"strings"

	"honnef.co/go/tools/go/gcsizes"
)

func join(xs []int64) string {
	if len(xs) == 0 {
		return "-"
	}
	ss := make([]string, len(xs))
	for i, x := range xs {
		ss[i] = strconv.FormatInt(x, 10)
	}
	return strings.Join(ss, ",")
}

type noImports struct{}

func (noImports) Import(path string) (*types.Package, error) {
	if path == "unsafe" {
		return types.Unsafe, nil
	}
	return nil, fmt.Errorf("unexpected import %q", path)
}

func main() {
	if len(os.Args) != 3 {
		fmt.Fprintln(os.Stderr, "usage: c19sizes file.go n")
		os.Exit(2)
	}
	n, err := strconv.Atoi(os.Args[2])
	if err != nil {
		fmt.Fprintln(os.Stderr, err)
		os.Exit(2)
	}
	fset := token.NewFileSet()
	f, err := parser.ParseFile(fset, os.Args[1], nil, 0)
	if err != nil {
		fmt.Fprintln(os.Stderr, err)
		os.Exit(2)
	}
	conf := types.Config{Importer: noImports{}}
	pkg, err := conf.Check("p", fset, []*ast.File{f}, nil)
	if err != nil {
		fmt.Fprintln(os.Stderr, err)
		os.Exit(2)
	}
	s := gcsizes.ForArch("amd64")
	w := bufio.NewWriter(os.Stdout)
	defer w.Flush()
	for i := 0; i < n; i++ {
		obj := pkg.Scope().Lookup("T" + strconv.Itoa(i))
		if obj == nil {
			fmt.Fprintf(os.Stderr, "no type T%d\n", i)
			os.Exit(2)
		}
		T := obj.Type()
		st, ok := T.Underlying().(*types.Struct)
		if !ok {
			fmt.Fprintf(os.Stderr, "T%d is not a struct\n", i)
			os.Exit(2)
		}
		var fields []*types.Var
		var sizes, aligns []int64
		for j := 0; j < st.NumFields(); j++ {
			fields = append(fields, st.Field(j))
			sizes = append(sizes, s.Sizeof(st.Field(j).Type()))
			aligns = append(aligns, s.Alignof(st.Field(j).Type()))
		}
		fmt.Fprintf(w, "%d %d %d %s %s %s\n", i, s.Sizeof(T), s.Alignof(T), join(s.Offsetsof(fields)), join(sizes), join(aligns))
	}
}
