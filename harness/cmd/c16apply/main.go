// c16apply runs the repository's own fix applier, analysis/lint/testutil.applyEdits (the
// code behind the golden-file tests; unexported, reached through go:linkname, no hook),
// and report.shortRange on inputs given on stdin.
//
//	apply <srchex> <nfix> (<k> (<start> <stop> <newhex>)*k)*nfix   ->  "<len> <fnv64>" per fix joined by ';' ("panic" if the applier panicked)
package main

import (
	"bufio"
	"encoding/hex"
	"fmt"
	"go/token"
	"os"
	"strconv"
	"strings"
	_ "unsafe"

	_ "honnef.co/go/tools/analysis/lint/testutil"
	"honnef.co/go/tools/lintcmd/runner"
)

//go:linkname applyEdits honnef.co/go/tools/analysis/lint/testutil.applyEdits
func applyEdits(src []byte, edits []runner.TextEdit) []byte

func fnv(b []byte) uint64 {
	h := uint64(14695981039346656037)
	for _, c := range b {
		h ^= uint64(c)
		h *= 1099511628211
	}
	return h
}

func unhex(s string) ([]byte, error) {
	if s == "-" {
		return nil, nil
	}
	return hex.DecodeString(s)
}

func safeApply(src []byte, edits []runner.TextEdit) (out []byte, panicked bool) {
	defer func() {
		if r := recover(); r != nil {
			panicked = true
		}
	}()
	return applyEdits(src, edits), false
}

func main() {
	in := bufio.NewReaderSize(os.Stdin, 1<<20)
	w := bufio.NewWriterSize(os.Stdout, 1<<20)
	defer w.Flush()
	for {
		line, err := in.ReadString('\n')
		line = strings.TrimRight(line, "\n")
		if line != "" {
			fmt.Fprintln(w, doLine(line))
		}
		if err != nil {
			break
		}
	}
}

func doLine(line string) string {
	t := strings.Fields(line)
	if len(t) < 3 || t[0] != "apply" {
		return "bad-op"
	}
	src, err := unhex(t[1])
	if err != nil {
		return "bad-op"
	}
	nfix, err := strconv.Atoi(t[2])
	if err != nil {
		return "bad-op"
	}
	i := 3
	var outs []string
	for f := 0; f < nfix; f++ {
		if i >= len(t) {
			return "bad-op"
		}
		k, err := strconv.Atoi(t[i])
		i++
		if err != nil || i+3*k > len(t) {
			return "bad-op"
		}
		var edits []runner.TextEdit
		for j := 0; j < k; j++ {
			s, e1 := strconv.Atoi(t[i])
			e, e2 := strconv.Atoi(t[i+1])
			nw, e3 := unhex(t[i+2])
			i += 3
			if e1 != nil || e2 != nil || e3 != nil {
				return "bad-op"
			}
			// Line is set so that an End at offset 0 is not mistaken for "no End"
			edits = append(edits, runner.TextEdit{
				Position: token.Position{Filename: "f.go", Offset: s, Line: 1, Column: s + 1},
				End:      token.Position{Filename: "f.go", Offset: e, Line: 1, Column: e + 1},
				NewText:  nw,
			})
		}
		out, p := safeApply(src, edits)
		if p {
			outs = append(outs, "panic")
		} else {
			outs = append(outs, fmt.Sprintf("%d %d", len(out), fnv(out)))
		}
	}
	if i != len(t) {
		return "bad-op"
	}
	return strings.Join(outs, ";")
}
