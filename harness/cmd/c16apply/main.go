// c16apply runs the repository's own fix applier, analysis/lint/testutil.applyEdits (the
// code behind the golden-file tests; unexported, reached through go:linkname, no hook),
// and report.shortRange on inputs given on stdin.
//
//	shortfile <path>   ->  one line per AST node "short <descriptor> = <pos> <end>" (offsets), terminated by a line "end <n>"
//	pos <filehex> <k> <off>*k  ->  "<nlines> <size> <line>:<col> ..." from go/scanner's line table and go/token's File.Position
//	apply <srchex> <nfix> (<k> (<start> <stop> <newhex>)*k)*nfix   ->  "<len> <fnv64>" per fix joined by ';' ("panic" if the applier panicked)
package main

import (
	"bufio"
	"encoding/hex"
	"fmt"
	"go/ast"
	"go/parser"
	"go/scanner"
	"go/token"
	"os"
	"strconv"
	"strings"
	_ "unsafe"

	_ "honnef.co/go/tools/analysis/lint/testutil"
	_ "honnef.co/go/tools/analysis/report"
	"honnef.co/go/tools/go/ast/astutil"
	"honnef.co/go/tools/lintcmd/runner"
)

//go:linkname shortRange honnef.co/go/tools/analysis/report.shortRange
func shortRange(node ast.Node) (pos, end token.Pos)

//go:linkname applyEdits honnef.co/go/tools/analysis/lint/testutil.applyEdits
func applyEdits(src []byte, edits []runner.TextEdit) []byte

func fnv(b []byte) uint64 {
	h := uint64(14695981039346656037)
	for _, c := range b {
		h ^= uint64(c)
		h *= 1099511628211
	}
	return h
}

func unhex(s string) ([]byte, error) {
	if s == "-" {
		return nil, nil
	}
	return hex.DecodeString(s)
}

func safeApply(src []byte, edits []runner.TextEdit) (out []byte, panicked bool) {
	defer func() {
		if r := recover(); r != nil {
			panicked = true
		}
	}()
	return applyEdits(src, edits), false
}

func main() {
	in := bufio.NewReaderSize(os.Stdin, 1<<20)
	w := bufio.NewWriterSize(os.Stdout, 1<<20)
	defer w.Flush()
	for {
		line, err := in.ReadString('\n')
		line = strings.TrimRight(line, "\n")
		if strings.HasPrefix(line, "shortfile ") {
			shortFile(w, strings.TrimPrefix(line, "shortfile "))
		} else if line != "" {
			fmt.Fprintln(w, doLine(line))
		}
		if err != nil {
			break
		}
	}
}

// describe lists exactly the positions a short range may be built from, per node kind.
func describe(n ast.Node, o func(token.Pos) string) string {
	opt := func(x ast.Node) string {
		if x == nil || (func() bool { // typed nil interface values
			switch v := x.(type) {
			case ast.Expr:
				return v == nil
			case ast.Stmt:
				return v == nil
			}
			return false
		})() {
			return "-"
		}
		return o(x.End())
	}
	pe := o(n.Pos()) + " "
	e := " " + o(n.End())
	switch n := n.(type) {
	case *ast.File:
		return "file " + pe + o(n.Name.End()) + e
	case *ast.CaseClause:
		return "caseClause " + pe + o(n.Colon) + e
	case *ast.CommClause:
		return "commClause " + pe + o(n.Colon) + e
	case *ast.DeferStmt:
		return "deferStmt " + pe + o(n.Defer) + e
	case *ast.ExprStmt:
		return "exprStmt " + describe(n.X, o)
	case *ast.ForStmt:
		var i, c, p ast.Node
		if n.Init != nil {
			i = n.Init
		}
		if n.Cond != nil {
			c = n.Cond
		}
		if n.Post != nil {
			p = n.Post
		}
		return "forStmt " + pe + o(n.For) + " " + opt(i) + " " + opt(c) + " " + opt(p) + e
	case *ast.FuncDecl:
		return "funcDecl " + pe + o(n.Type.End()) + e
	case *ast.FuncLit:
		return "funcLit " + pe + o(n.Type.End()) + e
	case *ast.GoStmt:
		lit := "0"
		if _, ok := astutil.Unparen(n.Call.Fun).(*ast.FuncLit); ok {
			lit = "1"
		}
		return "goStmt " + pe + o(n.Go) + " " + lit + e
	case *ast.IfStmt:
		return "ifStmt " + pe + o(n.Cond.End()) + e
	case *ast.RangeStmt:
		return "rangeStmt " + pe + o(n.X.End()) + e
	case *ast.SelectStmt:
		return "selectStmt " + strings.TrimSpace(pe) + e
	case *ast.SwitchStmt:
		var t, i ast.Node
		if n.Tag != nil {
			t = n.Tag
		}
		if n.Init != nil {
			i = n.Init
		}
		return "switchStmt " + pe + opt(t) + " " + opt(i) + e
	case *ast.TypeSwitchStmt:
		return "typeSwitchStmt " + pe + o(n.Assign.End()) + e
	default:
		return "other " + strings.TrimSpace(pe) + e
	}
}

func shortFile(w *bufio.Writer, path string) {
	fset := token.NewFileSet()
	f, err := parser.ParseFile(fset, path, nil, parser.ParseComments|parser.SkipObjectResolution)
	if err != nil {
		fmt.Fprintln(w, "end parse-error")
		return
	}
	tf := fset.File(f.Pos())
	base := tf.Base()
	o := func(p token.Pos) string { return strconv.Itoa(int(p) - base) }
	n := 0
	others := 0
	ast.Inspect(f, func(nd ast.Node) bool {
		if nd == nil {
			return true
		}
		if _, ok := nd.(*ast.Comment); ok {
			return true
		}
		d := describe(nd, o)
		if strings.HasPrefix(d, "other ") {
			others++
			if others%8 != 0 {
				return true
			}
		}
		p, e := shortRange(nd)
		fmt.Fprintf(w, "short %s = %d %d\n", d, int(p)-base, int(e)-base)
		n++
		return true
	})
	fmt.Fprintf(w, "end %d\n", n)
}

func posLine(t []string) string {
	if len(t) < 3 {
		return "bad-op"
	}
	src, err := unhex(t[1])
	k, err2 := strconv.Atoi(t[2])
	if err != nil || err2 != nil || len(t) != 3+k {
		return "bad-op"
	}
	fset := token.NewFileSet()
	tf := fset.AddFile("f.go", -1, len(src))
	var sc scanner.Scanner
	sc.Init(tf, src, func(token.Position, string) {}, scanner.ScanComments)
	for {
		_, tok, _ := sc.Scan()
		if tok == token.EOF {
			break
		}
	}
	out := []string{strconv.Itoa(tf.LineCount()), strconv.Itoa(tf.Size())}
	for _, a := range t[3:] {
		off, err := strconv.Atoi(a)
		if err != nil || off < 0 || off > len(src) {
			return "bad-op"
		}
		p := tf.PositionFor(tf.Pos(off), false)
		out = append(out, fmt.Sprintf("%d:%d", p.Line, p.Column))
	}
	return strings.Join(out, " ")
}

func doLine(line string) string {
	t := strings.Fields(line)
	if len(t) > 0 && t[0] == "pos" {
		return posLine(t)
	}
	if len(t) < 3 || t[0] != "apply" {
		return "bad-op"
	}
	src, err := unhex(t[1])
	if err != nil {
		return "bad-op"
	}
	nfix, err := strconv.Atoi(t[2])
	if err != nil {
		return "bad-op"
	}
	i := 3
	var outs []string
	for f := 0; f < nfix; f++ {
		if i >= len(t) {
			return "bad-op"
		}
		k, err := strconv.Atoi(t[i])
		i++
		if err != nil || i+3*k > len(t) {
			return "bad-op"
		}
		var edits []runner.TextEdit
		for j := 0; j < k; j++ {
			s, e1 := strconv.Atoi(t[i])
			e, e2 := strconv.Atoi(t[i+1])
			nw, e3 := unhex(t[i+2])
			i += 3
			if e1 != nil || e2 != nil || e3 != nil {
				return "bad-op"
			}
			// Line is set so that an End at offset 0 is not mistaken for "no End"
			edits = append(edits, runner.TextEdit{
				Position: token.Position{Filename: "f.go", Offset: s, Line: 1, Column: s + 1},
				End:      token.Position{Filename: "f.go", Offset: e, Line: 1, Column: e + 1},
				NewText:  nw,
			})
		}
		out, p := safeApply(src, edits)
		if p {
			outs = append(outs, "panic")
		} else {
			outs = append(outs, fmt.Sprintf("%d %d", len(out), fnv(out)))
		}
	}
	if i != len(t) {
		return "bad-op"
	}
	return strings.Join(outs, ";")
}
