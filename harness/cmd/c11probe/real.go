// Modes of c11probe that call unexported functions of lintcmd through go:linkname (no hook
// in /repo) and the exported config.Analyzer / config.Dir:
//
//	c11probe chars                     (code points on stdin, space separated, one line per batch)
//	    unicode.IsNumber and strings.ToLower of every code point: "<0|1>:<lower code points joined by +>"
//	c11probe sel                       (JSON {"all":[…],"sel":[…]})
//	    the real makeCaseFoldedStrings on both lists, the real filterAnalyzerNames; the keys
//	    of the returned map that are true, sorted.
//	c11probe tree <basedir>            (JSON: conf files of a directory tree, packages = file lists)
//	    writes the tree, sets config.DefaultConfig.Checks, XDG_CACHE_HOME=<basedir>/cache; per
//	    package: the real config.Analyzer.Run on a Pass whose files carry the given names
//	    (dirAST, Dir, Load, parseConfigs, mergeConfigs, normalizeList), Config.Merge(-checks),
//	    then the real filterAnalyzerNames over the given analyzers.
//	c11probe lintpkg                   (JSON: analyzers, list, problems, directives)
//	    real filterAnalyzerNames -> real success + filterIgnored (lintcmd.VerifC10FilterIgnored,
//	    the exported wrapper that exists for C10).
package main

import (
	"bufio"
	"fmt"
	"go/ast"
	"go/parser"
	"go/token"
	"os"
	"path/filepath"
	"sort"
	"strconv"
	"strings"
	"unicode"
	_ "unsafe" // go:linkname

	"golang.org/x/tools/go/analysis"
	"honnef.co/go/tools/config"
	"honnef.co/go/tools/lintcmd"
	"honnef.co/go/tools/lintcmd/runner"
)

// layout of lintcmd.caseFoldedString
type cfs struct{ s string }

//go:linkname realFilterAnalyzerNames honnef.co/go/tools/lintcmd.filterAnalyzerNames
func realFilterAnalyzerNames(all []cfs, selection []cfs) map[cfs]bool

//go:linkname realMakeCaseFoldedStrings honnef.co/go/tools/lintcmd.makeCaseFoldedStrings
func realMakeCaseFoldedStrings(ss []string) []cfs

// selected runs the real case folding and the real filterAnalyzerNames and returns the keys
// mapped to true, sorted.
func selected(all, sel []string) []string {
	m := realFilterAnalyzerNames(realMakeCaseFoldedStrings(all), realMakeCaseFoldedStrings(sel))
	out := []string{}
	for k, v := range m {
		if v {
			out = append(out, k.s)
		}
	}
	sort.Strings(out)
	return out
}

// ---------------------------------------------------------------- chars

func charsMain(out *bufio.Writer) {
	eachLine(func(line []byte) {
		var parts []string
		for _, f := range strings.Fields(string(line)) {
			n, err := strconv.Atoi(f)
			if err != nil {
				die("bad code point %q", f)
			}
			r := rune(n)
			num := 0
			if unicode.IsNumber(r) {
				num = 1
			}
			var low []string
			for _, l := range strings.ToLower(string(r)) {
				low = append(low, strconv.Itoa(int(l)))
			}
			parts = append(parts, fmt.Sprintf("%d:%s", num, strings.Join(low, "+")))
		}
		fmt.Fprintln(out, strings.Join(parts, " "))
	})
}

// ---------------------------------------------------------------- sel

type selCase struct {
	ID  int      `json:"id"`
	All []string `json:"all"`
	Sel []string `json:"sel"`
}

type selResult struct {
	ID   int      `json:"id"`
	True []string `json:"true"`
}

func doSel(c selCase) selResult {
	return selResult{ID: c.ID, True: selected(c.All, c.Sel)}
}

// ---------------------------------------------------------------- tree

type confSpec struct {
	Dir []string `json:"dir"` // components below the root of the case, outermost first
	levelSpec
}

type fileSpec struct {
	Dir   []string `json:"dir"`
	Cache bool     `json:"cache"`
}

type pkgSpec struct {
	Files []fileSpec `json:"files"`
}

type treeCase struct {
	ID    int        `json:"id"`
	All   []string   `json:"all"`
	Dflt  *[]string  `json:"dflt"`
	Cmd   *[]string  `json:"cmd"`
	Confs []confSpec `json:"confs"`
	Pkgs  []pkgSpec  `json:"pkgs"`
}

type pkgResult struct {
	Dir string    `json:"dir"` // directory config.Dir chose, relative to the root of the case ("" = none)
	Eff *[]string `json:"eff"`
	Sel []string  `json:"sel"`
	Err string    `json:"err,omitempty"`
}

type treeResult struct {
	ID   int         `json:"id"`
	Pkgs []pkgResult `json:"pkgs"`
}

func doTreePkg(root, cache string, c treeCase, p pkgSpec) (res pkgResult) {
	defer func() {
		if r := recover(); r != nil {
			res.Err = fmt.Sprintf("panic: %v", r)
		}
	}()
	fset := token.NewFileSet()
	var files []*ast.File
	var names []string
	for i, f := range p.Files {
		var name string
		if f.Cache {
			name = filepath.Join(cache, "go-build", "ab", fmt.Sprintf("f%d-d", i))
		} else {
			name = filepath.Join(append([]string{root}, f.Dir...)...)
			name = filepath.Join(name, fmt.Sprintf("f%d.go", i))
		}
		af, err := parser.ParseFile(fset, name, "package p\n", parser.PackageClauseOnly)
		if err != nil {
			die("parse: %v", err)
		}
		files = append(files, af)
		names = append(names, name)
	}
	if d := config.Dir(names); d != "" {
		rel, err := filepath.Rel(root, d)
		if err != nil {
			die("%v", err)
		}
		res.Dir = rel
	}
	v, err := config.Analyzer.Run(&analysis.Pass{Analyzer: config.Analyzer, Fset: fset, Files: files})
	if err != nil {
		res.Err = "error: " + err.Error()
		return res
	}
	cfg := *(v.(*config.Config))
	var cmd config.Config
	if c.Cmd != nil {
		cmd.Checks = append([]string{}, (*c.Cmd)...)
	}
	eff := cfg.Merge(cmd)
	res.Eff = ptr(eff.Checks)
	res.Sel = selected(c.All, eff.Checks)
	return res
}

func doTree(base string, c treeCase) treeResult {
	root := filepath.Join(base, fmt.Sprintf("t%d", c.ID))
	cache := filepath.Join(base, "cache")
	if err := os.MkdirAll(root, 0o755); err != nil {
		die("%v", err)
	}
	os.Setenv("XDG_CACHE_HOME", cache)
	if uc, err := os.UserCacheDir(); err != nil || uc != cache {
		die("os.UserCacheDir() = %q, %v; want %q", uc, err, cache)
	}
	for _, cf := range c.Confs {
		dir := filepath.Join(append([]string{root}, cf.Dir...)...)
		if err := os.MkdirAll(dir, 0o755); err != nil {
			die("%v", err)
		}
		switch cf.Kind {
		case "absent":
		case "dir":
			if err := os.Mkdir(filepath.Join(dir, config.ConfigName), 0o755); err != nil {
				die("%v", err)
			}
		default:
			if err := os.WriteFile(filepath.Join(dir, config.ConfigName), []byte(confText(cf.levelSpec)), 0o644); err != nil {
				die("%v", err)
			}
		}
	}
	if c.Dflt == nil {
		config.DefaultConfig.Checks = nil
	} else {
		config.DefaultConfig.Checks = append([]string{}, (*c.Dflt)...)
	}
	res := treeResult{ID: c.ID}
	for _, p := range c.Pkgs {
		res.Pkgs = append(res.Pkgs, doTreePkg(root, cache, c, p))
	}
	return res
}

// ---------------------------------------------------------------- lintpkg

type dirSpec struct {
	Kind   string   `json:"kind"` // l line ignore, f file ignore, m malformed (no reason), u unknown command
	Checks []string `json:"checks"`
	File   string   `json:"file"`
	Line   int      `json:"line"`
	Col    int      `json:"col"`
	DFile  string   `json:"dfile"`
	DLine  int      `json:"dline"`
	DCol   int      `json:"dcol"`
}

type lintPkgCase struct {
	ID    int        `json:"id"`
	All   []string   `json:"all"`
	Sel   []string   `json:"sel"`
	Diags []diagSpec `json:"diags"`
	Dirs  []dirSpec  `json:"dirs"`
}

type reported struct {
	Cat     string `json:"cat"`
	Ignored bool   `json:"ignored"`
	File    string `json:"file"`
	Line    int    `json:"line"`
	Col     int    `json:"col"`
}

type lintPkgResult struct {
	ID  int        `json:"id"`
	Out []reported `json:"out"`
	Err string     `json:"err,omitempty"`
}

func doLintPkg(c lintPkgCase) lintPkgResult {
	allowed := selected(c.All, c.Sel)
	var diags []runner.Diagnostic
	for _, d := range c.Diags {
		pos := token.Position{Filename: d.File, Line: d.Line, Column: d.Col}
		diags = append(diags, runner.Diagnostic{Position: pos, End: pos, Category: d.Cat, Message: d.Msg})
	}
	var dirs []runner.SerializedDirective
	for _, d := range c.Dirs {
		sd := runner.SerializedDirective{
			DirectivePosition: token.Position{Filename: d.DFile, Line: d.DLine, Column: d.DCol},
			NodePosition:      token.Position{Filename: d.File, Line: d.Line, Column: d.Col},
		}
		switch d.Kind {
		case "l":
			sd.Command, sd.Arguments = "ignore", []string{strings.Join(d.Checks, ","), "reason"}
		case "f":
			sd.Command, sd.Arguments = "file-ignore", []string{strings.Join(d.Checks, ","), "reason"}
		case "m":
			sd.Command, sd.Arguments = "ignore", []string{strings.Join(d.Checks, ",")}
		case "u":
			sd.Command, sd.Arguments = "nolint", []string{strings.Join(d.Checks, ","), "reason"}
		default:
			die("bad directive kind %q", d.Kind)
		}
		dirs = append(dirs, sd)
	}
	out, err := lintcmd.VerifC10FilterIgnored(diags, dirs, allowed, true)
	res := lintPkgResult{ID: c.ID, Out: []reported{}}
	if err != nil {
		res.Err = err.Error()
		return res
	}
	for _, d := range out {
		res.Out = append(res.Out, reported{Cat: d.Category, Ignored: d.Severity == "ignored", File: d.Position.Filename, Line: d.Position.Line, Col: d.Position.Column})
	}
	return res
}
