// c11probe drives the real code anchored by property C11 in-process, without hooks.
//
//	c11probe analyzers
//	    names and NonDefault flags of the analyzers cmd/staticcheck registers.
//	c11probe load <basedir>           (JSON cases on stdin, one per line)
//	    writes a directory tree with staticcheck.conf files, sets
//	    config.DefaultConfig.Checks, calls the real config.Load on the innermost
//	    directory and the real Config.Merge with the command-line list.
//	c11probe merge <workdir> [cwd]    (JSON cases on stdin)
//	    gob-encodes a lintResult (structurally identical local types; gob matches by
//	    field name), then runs the real lintcmd.Command in-process:
//	    ParseFlags(-merge -f FMT [-fail L] [-show-ignored] file); Execute().
//	    That is decodeGob, mergeRuns and printDiagnostics (filterAnalyzerNames on
//	    -fail, counting, exit status, formatters) with stdout captured.
//	c11probe gob                      (JSON cases on stdin: {"path":…, "diags":[…]})
//	    only writes the gob files (for runs of the real staticcheck binary).
//	c11probe chars | sel | tree <basedir> | lintpkg      see real.go
//
// One JSON result per case on stdout.
package main

import (
	"bufio"
	"encoding/gob"
	"encoding/json"
	"fmt"
	"go/token"
	"io"
	"os"
	"path/filepath"
	"sort"
	"strings"

	"golang.org/x/tools/go/analysis"
	"honnef.co/go/tools/analysis/lint"
	"honnef.co/go/tools/config"
	"honnef.co/go/tools/lintcmd"
	"honnef.co/go/tools/lintcmd/runner"
	"honnef.co/go/tools/simple"
	"honnef.co/go/tools/staticcheck"
	"honnef.co/go/tools/stylecheck"
	"honnef.co/go/tools/unused"
)

func die(format string, args ...any) {
	fmt.Fprintf(os.Stderr, "c11probe: "+format+"\n", args...)
	os.Exit(2)
}

// ---------------------------------------------------------------- analyzers

func analyzers() {
	var all []*lint.Analyzer
	all = append(all, simple.Analyzers...)
	all = append(all, staticcheck.Analyzers...)
	all = append(all, stylecheck.Analyzers...)
	all = append(all, unused.Analyzer)
	var lines []string
	for _, a := range all {
		nd := 0
		if a.Doc.NonDefault {
			nd = 1
		}
		lines = append(lines, fmt.Sprintf("%s %d", a.Analyzer.Name, nd))
	}
	sort.Strings(lines)
	for _, l := range lines {
		fmt.Println(l)
	}
}

// ---------------------------------------------------------------- load

type levelSpec struct {
	// "absent": no file; "empty": empty file; "other": file setting another option;
	// "set": file with checks = [...]; "dir": staticcheck.conf is a directory
	Kind   string   `json:"kind"`
	Checks []string `json:"checks"`
}

type loadCase struct {
	ID     int         `json:"id"`
	Dflt   *[]string   `json:"dflt"`
	Cmd    *[]string   `json:"cmd"`
	Levels []levelSpec `json:"levels"` // innermost first
}

type loadResult struct {
	ID   int       `json:"id"`
	Load *[]string `json:"load"`
	Eff  *[]string `json:"eff"`
	Err  string    `json:"err,omitempty"`
}

func tomlString(s string) string {
	var b strings.Builder
	b.WriteByte('"')
	for _, r := range s {
		switch {
		case r == '"' || r == '\\':
			b.WriteByte('\\')
			b.WriteRune(r)
		case r < 0x20 || r == 0x7f:
			fmt.Fprintf(&b, "\\u%04X", r)
		default:
			b.WriteRune(r)
		}
	}
	b.WriteByte('"')
	return b.String()
}

// ConfText is the text of a staticcheck.conf for one level.
func confText(l levelSpec) string {
	switch l.Kind {
	case "empty":
		return ""
	case "other":
		return "# no checks here\nhttp_status_code_whitelist = [\"200\"]\n"
	case "set":
		parts := make([]string, len(l.Checks))
		for i, c := range l.Checks {
			parts[i] = tomlString(c)
		}
		return "checks = [" + strings.Join(parts, ", ") + "]\n"
	}
	die("bad level kind %q", l.Kind)
	return ""
}

func ptr(l []string) *[]string {
	if l == nil {
		return nil
	}
	c := append([]string{}, l...)
	return &c
}

func doLoad(base string, c loadCase) (res loadResult) {
	res.ID = c.ID
	dir := filepath.Join(base, fmt.Sprintf("c%d", c.ID))
	// outermost directory first
	for i := len(c.Levels) - 1; i >= 0; i-- {
		dir = filepath.Join(dir, fmt.Sprintf("l%d", i))
		if err := os.MkdirAll(dir, 0o755); err != nil {
			die("%v", err)
		}
		l := c.Levels[i]
		switch l.Kind {
		case "absent":
		case "dir":
			if err := os.Mkdir(filepath.Join(dir, config.ConfigName), 0o755); err != nil {
				die("%v", err)
			}
		default:
			if err := os.WriteFile(filepath.Join(dir, config.ConfigName), []byte(confText(l)), 0o644); err != nil {
				die("%v", err)
			}
		}
	}
	if c.Dflt == nil {
		config.DefaultConfig.Checks = nil
	} else {
		config.DefaultConfig.Checks = append([]string{}, (*c.Dflt)...)
	}
	defer func() {
		if r := recover(); r != nil {
			res.Err = fmt.Sprintf("panic: %v", r)
		}
	}()
	cfg, err := config.Load(dir)
	if err != nil {
		res.Err = "error: " + err.Error()
		return res
	}
	res.Load = ptr(cfg.Checks)
	var cmd config.Config
	if c.Cmd != nil {
		cmd.Checks = append([]string{}, (*c.Cmd)...)
	}
	eff := cfg.Merge(cmd)
	res.Eff = ptr(eff.Checks)
	return res
}

// ---------------------------------------------------------------- merge

type relSpec struct {
	File  string `json:"file"`
	Line  int    `json:"line"`
	Col   int    `json:"col"`
	ELine int    `json:"eline"`
	ECol  int    `json:"ecol"`
	Msg   string `json:"msg"`
}

type diagSpec struct {
	File string `json:"file"`
	Line int    `json:"line"`
	Col  int    `json:"col"`
	Cat  string `json:"cat"`
	Msg  string `json:"msg"`
	Sev  uint8  `json:"sev"` // 0 error, 2 ignored (lintcmd.severity)
	// end position (same file); HasEnd false: End = Position, as before
	HasEnd  bool      `json:"has_end"`
	ELine   int       `json:"eline"`
	ECol    int       `json:"ecol"`
	Related []relSpec `json:"related"`
	Build   string    `json:"build"`
}

// structurally identical to lintcmd.diagnostic / lintcmd.lintResult
type diagnostic struct {
	runner.Diagnostic
	Severity  uint8
	MergeIf   int
	BuildName string
}

type lintResult struct {
	CheckedFiles []string
	Diagnostics  []diagnostic
	Warnings     []string
}

func writeGob(path string, diags []diagSpec) {
	var res lintResult
	seen := map[string]bool{}
	for _, d := range diags {
		if !seen[d.File] {
			seen[d.File] = true
			res.CheckedFiles = append(res.CheckedFiles, d.File)
		}
		pos := token.Position{Filename: d.File, Line: d.Line, Column: d.Col}
		end := pos
		if d.HasEnd {
			end = token.Position{Filename: d.File, Line: d.ELine, Column: d.ECol}
		}
		var rel []runner.RelatedInformation
		for _, r := range d.Related {
			rel = append(rel, runner.RelatedInformation{
				Position: token.Position{Filename: r.File, Line: r.Line, Column: r.Col},
				End:      token.Position{Filename: r.File, Line: r.ELine, Column: r.ECol},
				Message:  r.Msg,
			})
		}
		res.Diagnostics = append(res.Diagnostics, diagnostic{
			Diagnostic: runner.Diagnostic{Position: pos, End: end, Category: d.Cat, Message: d.Msg, Related: rel},
			Severity:   d.Sev,
			BuildName:  d.Build,
		})
	}
	f, err := os.Create(path)
	if err != nil {
		die("%v", err)
	}
	if err := gob.NewEncoder(f).Encode(res); err != nil {
		die("gob: %v", err)
	}
	f.Close()
}

type mergeCase struct {
	ID          int        `json:"id"`
	Analyzers   []string   `json:"analyzers"`
	Fail        *string    `json:"fail"` // nil: flag not given
	ShowIgnored bool       `json:"show_ignored"`
	NoCompile   bool       `json:"no_compile"` // -debug.no-compile-errors
	Format      string     `json:"format"`
	Diags       []diagSpec `json:"diags"`
}

type mergeResult struct {
	ID  int    `json:"id"`
	RC  int    `json:"rc"`
	Out string `json:"out"`
}

func doMerge(work string, capture *os.File, c mergeCase) mergeResult {
	gobPath := filepath.Join(work, "in.gob")
	writeGob(gobPath, c.Diags)

	cmd := lintcmd.NewCommand("staticcheck")
	var as []*analysis.Analyzer
	for _, n := range c.Analyzers {
		as = append(as, &analysis.Analyzer{Name: n, Doc: "probe " + n + "\n\nno text"})
	}
	cmd.AddBareAnalyzers(as...)
	args := []string{"-merge", "-f=" + c.Format}
	if c.Fail != nil {
		args = append(args, "-fail="+*c.Fail)
	}
	if c.ShowIgnored {
		args = append(args, "-show-ignored")
	}
	if c.NoCompile {
		args = append(args, "-debug.no-compile-errors")
	}
	args = append(args, gobPath)
	cmd.ParseFlags(args)

	if err := capture.Truncate(0); err != nil {
		die("%v", err)
	}
	if _, err := capture.Seek(0, io.SeekStart); err != nil {
		die("%v", err)
	}
	orig := os.Stdout
	os.Stdout = capture
	rc := cmd.Execute()
	os.Stdout = orig
	if _, err := capture.Seek(0, io.SeekStart); err != nil {
		die("%v", err)
	}
	out, err := io.ReadAll(capture)
	if err != nil {
		die("%v", err)
	}
	return mergeResult{ID: c.ID, RC: rc, Out: string(out)}
}

// nothing above the generated trees may contribute a configuration
func checkNoConfAbove(base string) {
	for d := filepath.Clean(base); ; d = filepath.Dir(d) {
		if _, err := os.Stat(filepath.Join(d, config.ConfigName)); err == nil {
			die("found %s in %s: the directory walk would pick it up", config.ConfigName, d)
		}
		if filepath.Dir(d) == d {
			break
		}
	}
}

// ---------------------------------------------------------------- main

func eachLine(f func(line []byte)) {
	r := bufio.NewReaderSize(os.Stdin, 1<<20)
	for {
		line, err := r.ReadBytes('\n')
		if len(strings.TrimSpace(string(line))) > 0 {
			f(line)
		}
		if err != nil {
			if err != io.EOF {
				die("%v", err)
			}
			return
		}
	}
}

func main() {
	if len(os.Args) < 2 {
		die("usage: c11probe analyzers|load <dir>|merge <dir>|gob|chars|sel|tree <dir>|lintpkg")
	}
	out := bufio.NewWriter(os.Stdout)
	defer out.Flush()
	enc := json.NewEncoder(out)
	switch os.Args[1] {
	case "analyzers":
		out.Flush()
		analyzers()
	case "load":
		if len(os.Args) != 3 {
			die("load <basedir>")
		}
		base := os.Args[2]
		checkNoConfAbove(base)
		eachLine(func(line []byte) {
			var c loadCase
			if err := json.Unmarshal(line, &c); err != nil {
				die("bad case: %v", err)
			}
			enc.Encode(doLoad(base, c))
		})
	case "merge":
		if len(os.Args) != 3 && len(os.Args) != 4 {
			die("merge <workdir> [cwd]")
		}
		work := os.Args[2]
		if err := os.MkdirAll(work, 0o755); err != nil {
			die("%v", err)
		}
		// the working directory decides how the formatters shorten paths; several
		// workers may share it (their scratch files live in <workdir>)
		cwd := work
		if len(os.Args) == 4 {
			cwd = os.Args[3]
		}
		if err := os.Chdir(cwd); err != nil {
			die("%v", err)
		}
		capture, err := os.CreateTemp(work, "stdout")
		if err != nil {
			die("%v", err)
		}
		defer os.Remove(capture.Name())
		stdout := os.Stdout
		eachLine(func(line []byte) {
			var c mergeCase
			if err := json.Unmarshal(line, &c); err != nil {
				die("bad case: %v", err)
			}
			r := doMerge(work, capture, c)
			os.Stdout = stdout
			enc.Encode(r)
		})
	case "gob":
		eachLine(func(line []byte) {
			var c struct {
				Path  string     `json:"path"`
				Diags []diagSpec `json:"diags"`
			}
			if err := json.Unmarshal(line, &c); err != nil {
				die("bad case: %v", err)
			}
			writeGob(c.Path, c.Diags)
			enc.Encode(map[string]string{"path": c.Path})
		})
	case "chars":
		charsMain(out)
	case "sel":
		eachLine(func(line []byte) {
			var c selCase
			if err := json.Unmarshal(line, &c); err != nil {
				die("bad case: %v", err)
			}
			enc.Encode(doSel(c))
		})
	case "tree":
		if len(os.Args) != 3 {
			die("tree <basedir>")
		}
		base := os.Args[2]
		checkNoConfAbove(base)
		eachLine(func(line []byte) {
			var c treeCase
			if err := json.Unmarshal(line, &c); err != nil {
				die("bad case: %v", err)
			}
			enc.Encode(doTree(base, c))
		})
	case "lintpkg":
		eachLine(func(line []byte) {
			var c lintPkgCase
			if err := json.Unmarshal(line, &c); err != nil {
				die("bad case: %v", err)
			}
			enc.Encode(doLintPkg(c))
		})
	default:
		die("unknown mode %q", os.Args[1])
	}
}
