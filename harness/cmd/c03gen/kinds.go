package main

// Kind is an operand type kind of grid (a). TP is the type parameter list the enclosing
// function needs (placeholders $P $E $K are renamed per operand), T the type expression.
// Core kinds are always in the quick grid; the others are sampled by seed in quick and
// exhaustive in thorough.
type Kind struct {
	Name string
	TP   string
	T    string
	Core bool
}

func k(name, t string) Kind       { return Kind{Name: name, T: t} }
func kc(name, t string) Kind      { return Kind{Name: name, T: t, Core: true} }
func tp(name, cons string) Kind   { return Kind{Name: "tp:" + name, TP: "$P " + cons, T: "$P", Core: true} }
func tp2(name, tps, t string) Kind { return Kind{Name: "tp2:" + name, TP: tps, T: t, Core: true} }
func tpb(name, cons string) Kind   { k := tp(name, cons); k.Core = false; return k }
func tp2b(name, tps, t string) Kind { k := tp2(name, tps, t); k.Core = false; return k }

var kinds = []Kind{
	// basic
	kc("bool", "bool"), kc("int", "int"), k("int8", "int8"), k("int16", "int16"), k("int32", "int32"), k("int64", "int64"),
	k("uint", "uint"), k("uint8", "uint8"), k("uint16", "uint16"), k("uint32", "uint32"), k("uint64", "uint64"), k("uintptr", "uintptr"),
	k("float32", "float32"), kc("float64", "float64"), k("complex64", "complex64"), k("complex128", "complex128"),
	kc("string", "string"), k("byte", "byte"), k("rune", "rune"), kc("unsafe.Pointer", "unsafe.Pointer"), kc("error", "error"), kc("any", "any"),
	// named / alias
	kc("NInt", "NInt"), k("NUint8", "NUint8"), kc("NStr", "NStr"), k("NBool", "NBool"), k("NFloat", "NFloat"), k("NCplx", "NCplx"),
	k("NUPtr", "NUPtr"), k("AInt", "AInt"), k("ASl", "ASl"), kc("APtr", "APtr"),
	// arrays
	k("[0]int", "[0]int"), kc("[4]byte", "[4]byte"), k("[8]byte", "[8]byte"), k("[3]string", "[3]string"), k("[2][2]int", "[2][2]int"),
	k("NArr0", "NArr0"), kc("NArr4", "NArr4"), k("[4]int", "[4]int"), k("[2]St", "[2]St"), k("[1]any", "[1]any"), k("[2]*int", "[2]*int"),
	// slices
	kc("[]int", "[]int"), k("[]byte", "[]byte"), k("[]rune", "[]rune"), k("[]string", "[]string"), k("[]any", "[]any"), k("[][]int", "[][]int"),
	k("[]St", "[]St"), k("[]*St", "[]*St"), kc("NSl", "NSl"), k("NBytes", "NBytes"), k("[]error", "[]error"), k("[]NInt", "[]NInt"),
	k("[]func()", "[]func()"), kc("GSl[int]", "GSl[int]"), k("AGen[int]", "AGen[int]"), k("[][4]byte", "[][4]byte"), k("[]chan int", "[]chan int"),
	k("[]map[string]int", "[]map[string]int"), k("[]float64", "[]float64"), k("[]bool", "[]bool"),
	// maps
	kc("map[string]int", "map[string]int"), k("map[int][]int", "map[int][]int"), k("map[St]bool", "map[St]bool"), k("map[any]any", "map[any]any"),
	kc("NMap", "NMap"), k("map[string]struct{}", "map[string]struct{}"), k("map[string]*St", "map[string]*St"), kc("GMap[string,int]", "GMap[string, int]"),
	k("map[[2]int]string", "map[[2]int]string"), k("map[IfM]int", "map[IfM]int"), k("map[string]St", "map[string]St"), k("map[string][]string", "map[string][]string"),
	k("map[string]bool", "map[string]bool"), k("map[int]func()", "map[int]func()"),
	// channels
	kc("chan int", "chan int"), k("<-chan int", "<-chan int"), k("chan<- int", "chan<- int"), k("chan struct{}", "chan struct{}"), kc("NCh", "NCh"),
	k("NChR", "NChR"), k("chan []int", "chan []int"), k("chan error", "chan error"), k("GCh[int]", "GCh[int]"), k("chan chan int", "chan chan int"),
	k("<-chan *St", "<-chan *St"), k("chan any", "chan any"), k("chan bool", "chan bool"),
	// functions, iterators
	kc("func()", "func()"), kc("func(int) int", "func(int) int"), k("func(...int)", "func(...int)"), k("func() (int, error)", "func() (int, error)"),
	k("func() error", "func() error"), k("func() *St", "func() *St"), kc("iter.Seq[int]", "iter.Seq[int]"), kc("iter.Seq2[string,int]", "iter.Seq2[string, int]"),
	kc("func(yield func() bool)", "func(yield func() bool)"), k("func(yield func(int) bool)", "func(yield func(int) bool)"),
	k("func(yield func(int, string) bool)", "func(yield func(int, string) bool)"), kc("NFn", "NFn"), k("NFn1", "NFn1"), k("NSeq", "NSeq"), k("NSeq0", "NSeq0"),
	k("GFn[int]", "GFn[int]"), k("func(func(int) bool) bool", "func(func(int) bool) bool"), k("func(yield func(int))", "func(yield func(int))"),
	k("func() any", "func() any"), k("func() []int", "func() []int"), k("func(string, ...any) string", "func(string, ...any) string"),
	k("func() func()", "func() func()"), k("iter.Seq[*St]", "iter.Seq[*St]"), k("func() chan int", "func() chan int"), k("func() bool", "func() bool"),
	// pointers
	kc("*int", "*int"), k("*string", "*string"), kc("*[4]byte", "*[4]byte"), kc("*[0]int", "*[0]int"), k("*[4]int", "*[4]int"), k("*[8]byte", "*[8]byte"),
	kc("*St", "*St"), kc("*Emb", "*Emb"), k("**int", "**int"), kc("*Gen[int]", "*Gen[int]"), k("NPInt", "NPInt"), kc("NPArr4", "NPArr4"), kc("NPSt", "NPSt"),
	k("*[]int", "*[]int"), k("*map[string]int", "*map[string]int"), k("*chan int", "*chan int"), k("*any", "*any"), k("*error", "*error"), k("*func()", "*func()"),
	k("*NInt", "*NInt"), k("*Empty", "*Empty"), kc("*Rec", "*Rec"), kc("*NArr4", "*NArr4"), k("GPtr[int]", "GPtr[int]"), k("*[2][2]int", "*[2][2]int"),
	k("*NSl", "*NSl"), k("*bool", "*bool"), k("*float64", "*float64"), k("**St", "**St"), k("*unsafe.Pointer", "*unsafe.Pointer"),
	// structs
	kc("St", "St"), k("Empty", "Empty"), kc("Emb", "Emb"), kc("EmbG", "EmbG"), k("struct{}", "struct{}"), k("struct{A int}", "struct{ A int }"),
	kc("Gen[int]", "Gen[int]"), k("Gen[string]", "Gen[string]"), k("Gen2[string,int]", "Gen2[string, int]"), k("Rec", "Rec"),
	k("struct{F func(); C chan int}", "struct {\n\tF func()\n\tC chan int\n}"), k("Gen[Gen[int]]", "Gen[Gen[int]]"), k("Gen[*St]", "Gen[*St]"), k("Gen[[]int]", "Gen[[]int]"),
	// interfaces
	kc("IfM", "IfM"), k("IfEmb", "IfEmb"), k("IfPriv", "IfPriv"), k("interface{M() int}", "interface{ M() int }"), k("interface{String() string}", "interface{ String() string }"),
	k("interface{Error() string}", "interface{ Error() string }"), k("interface{IfM; PM() *St}", "interface {\n\tIfM\n\tPM() *St\n}"),

	// type parameters, one per constraint shape
	tp("any", "any"), tp("comparable", "comparable"), tp("~int", "~int"), tp("~string", "~string"), tp("~[]int", "~[]int"), tpb("~[]byte", "~[]byte"),
	tp("[]byte|string", "[]byte | string"), tp("~[]byte|~string", "~[]byte | ~string"), tp("~int|~string", "~int | ~string"), tpb("~int|~float64", "~int | ~float64"),
	tp("Num", "Num"), tpb("signed", "~int8 | ~int16 | ~int32 | ~int64 | ~int"), tpb("unsigned", "~uint8 | ~uint16 | ~uint32 | ~uint64 | ~uint | ~uintptr"),
	tpb("~float32|~float64", "~float32 | ~float64"), tpb("~complex64|~complex128", "~complex64 | ~complex128"), tp("~bool", "~bool"), tpb("int", "int"),
	tp("*[4]byte|*[8]byte", "*[4]byte | *[8]byte"), tp("~*[4]byte", "~*[4]byte"), tpb("*[4]byte", "*[4]byte"), tpb("~*[4]byte|~*[8]byte", "~*[4]byte | ~*[8]byte"),
	tp("[4]byte|[8]byte", "[4]byte | [8]byte"), tpb("~[4]byte", "~[4]byte"), tp("[]int|[4]int", "[]int | [4]int"), tp("[]int|*[4]int", "[]int | *[4]int"),
	tp("~[]int|~[4]int|~*[4]int", "~[]int | ~[4]int | ~*[4]int"), tpb("[0]int|[4]int", "[0]int | [4]int"), tp("*[0]int|*[4]int", "*[0]int | *[4]int"),
	tpb("*[0]byte|*[4]byte", "*[0]byte | *[4]byte"), tp("[4]byte|*[4]byte", "[4]byte | *[4]byte"),
	tp("map[string]int|map[string]string", "map[string]int | map[string]string"), tp("~map[string]int", "~map[string]int"), tpb("map[string]int|map[int]int", "map[string]int | map[int]int"),
	tp("[]int|map[int]int", "[]int | map[int]int"), tp("[]int|[]string", "[]int | []string"),
	tp("chan int|<-chan int", "chan int | <-chan int"), tp("chan int|chan<- int", "chan int | chan<- int"), tp("~chan int", "~chan int"), tp("<-chan int|chan<- int", "<-chan int | chan<- int"),
	tpb("chan int|chan string", "chan int | chan string"), tpb("<-chan int", "<-chan int"), tpb("chan int|NCh", "chan int | NCh"),
	tp("func()", "func()"), tp("~func(yield func(int) bool)", "~func(yield func(int) bool)"), tp("iter.Seq[int]", "iter.Seq[int]"), tpb("func()|func(int)", "func() | func(int)"),
	tp("seq int|string", "func(yield func(int) bool) | func(yield func(string) bool)"), tp("iter.Seq[int]|NSeq", "iter.Seq[int] | NSeq"), tpb("~func() error", "~func() error"),
	tpb("func()|NFn", "func() | NFn"), tpb("~func() *St", "~func() *St"),
	tp("*int|*string", "*int | *string"), tp("~*St", "~*St"), tpb("*St", "*St"), tp("*St|*Emb", "*St | *Emb"), tpb("~*int", "~*int"), tpb("*St|NPSt", "*St | NPSt"),
	tp("~int+M", "interface {\n\t~int\n\tM() int\n}"), tp("IfM", "IfM"), tp("*St+M", "interface {\n\t*St\n\tM() int\n}"), tpb("comparable+M", "interface {\n\tcomparable\n\tM() int\n}"),
	tp("St|Emb", "St | Emb"), tp("~struct{A int}", "~struct{ A int }"), tpb("St", "St"), tpb("struct{A int}|struct{A int; B int}", "struct{ A int } | struct {\n\tA int\n\tB int\n}"),
	tp("unsafe.Pointer", "unsafe.Pointer"), tpb("~uintptr|unsafe.Pointer", "~uintptr | unsafe.Pointer"), tp("error", "error"), tpb("~[]byte+Len", "interface {\n\t~[]byte\n\tM() int\n}"),
	tp("string|[]byte|[]rune", "string | []byte | []rune"), tpb("~string|~[]rune", "~string | ~[]rune"), tp("int|[]int", "int | []int"), tpb("any|error", "any | error"),
	tp("*int|[]int|map[int]int|chan int|func()", "*int | []int | map[int]int | chan int | func()"), tpb("[]int|string", "[]int | string"),
	tp("int|uint|iter.Seq[int]", "int | uint | func(func(int) bool)"), tpb("int|string|[]int", "int | string | []int"), tp("empty", "interface {\n\tint\n\tstring\n}"),
	tpb("NSl|NBytes", "NSl | NBytes"), tpb("~[]int+comparable", "interface {\n\t~[]int\n\tcomparable\n}"), tpb("Gen[int]", "Gen[int]"), tp("Gen[int]|Gen[string]", "Gen[int] | Gen[string]"),
	tpb("*Gen[int]|*Gen[string]", "*Gen[int] | *Gen[string]"), tp("~[]*St", "~[]*St"), tpb("[][]int|[]string", "[][]int | []string"),

	// two type parameters / composite types mentioning a type parameter
	tp2("P~[]E", "$P ~[]$E, $E any", "$P"), tp2("P~map[K]E", "$P ~map[$K]$E, $K comparable, $E any", "$P"), tp2("P~chan E", "$P ~chan $E, $E any", "$P"),
	tp2("P*E", "$P *$E, $E any", "$P"), tp2("P*E+M", "$E any, $P interface {\n\t*$E\n\tM() int\n}", "$P"), tp2("P~func(E)E", "$P ~func($E) $E, $E any", "$P"),
	tp2b("P~[]E,E~int|~string", "$P ~[]$E, $E ~int | ~string", "$P"), tp2b("P~[4]E", "$P ~[4]$E, $E any", "$P"), tp2("P~*[4]E", "$P ~*[4]$E, $E any", "$P"),
	tp2("P~seq(E)", "$P ~func(yield func($E) bool), $E any", "$P"), tp2("P~[]E|~*[4]E", "$P ~[]$E | ~*[4]$E, $E any", "$P"), tp2("P~*[4]E|~*[8]E", "$P ~*[4]$E | ~*[8]$E, $E any", "$P"),
	tp2("[]E", "$E any", "[]$E"), tp2("map[string]E", "$E any", "map[string]$E"), tp2("chan E", "$E any", "chan $E"), tp2("*E", "$E any", "*$E"), tp2("func() E", "$E any", "func() $E"),
	tp2("[4]E", "$E any", "[4]$E"), tp2("*[4]E", "$E any", "*[4]$E"), tp2("Gen[E]", "$E any", "Gen[$E]"), tp2("*Gen[E]", "$E any", "*Gen[$E]"), tp2b("struct{V E}", "$E any", "struct{ V $E }"),
	tp2("iter.Seq[E]", "$E any", "iter.Seq[$E]"), tp2("seq(E)", "$E any", "func(yield func($E) bool)"), tp2b("GSl[E]", "$E any", "GSl[$E]"), tp2b("[]Gen[E]", "$E any", "[]Gen[$E]"),
	tp2b("map[E]int", "$E comparable", "map[$E]int"), tp2("[]E,E~int|~string", "$E ~int | ~string", "[]$E"), tp2b("[]E,E Num", "$E Num", "[]$E"), tp2b("*E,E~[4]byte", "$E ~[4]byte", "*$E"),
	tp2("*E,E [4]byte|[8]byte", "$E [4]byte | [8]byte", "*$E"), tp2b("[]E,E IfM", "$E IfM", "[]$E"), tp2b("GMap[K,E]", "$K comparable, $E any", "GMap[$K, $E]"), tp2b("<-chan E", "$E any", "<-chan $E"),
	tp2b("GPtr[E]", "$E any", "GPtr[$E]"), tp2b("AGen[E]", "$E any", "AGen[$E]"), tp2b("func(E) bool", "$E any", "func($E) bool"), tp2b("**E", "$E any", "**$E"),
}
