package main

import (
	"fmt"
	"strings"
)

// Grid (b): every statement kind nested directly inside every other statement kind.
// $B is a hole for the nested statement(s), $n a number unique per template instance.
// The function environment: a int, s []int, m map[string]int, ch chan int, v any,
// f func() int, p *St, e error, seq iter.Seq[int], str string; results (r int, err error).
type StmtT struct {
	Name string
	T    string
	B    bool // second tier (marked "~" in the lists)
}

func stmtTemplates(list string) []StmtT {
	var out []StmtT
	for _, l := range strings.Split(list, "\n") {
		l = strings.TrimSpace(l)
		if l == "" {
			continue
		}
		l, isB := strings.CutPrefix(l, "~")
		name, t, _ := strings.Cut(l, "|")
		out = append(out, StmtT{strings.TrimSpace(name), strings.ReplaceAll(strings.TrimSpace(t), " ;; ", "\n"), isB})
	}
	return out
}

var leafStmts = stmtTemplates(`
assign      | a = a + 1
define      | c$n := a ;; sink(c$n)
~shadow      | a := a ;; sink(a)
~shadowp     | p := p.P ;; sink(p)
incdec      | a++
~opassign    | a += 2
call        | f()
~callsink    | sink(a)
send        | ch <- a
~recv        | <-ch
~recvdef     | x$n, ok$n := <-ch ;; sink(x$n, ok$n)
go          | go f()
defer       | defer f()
~deferclose  | defer close(ch)
return      | return
returnv     | return a, nil
~returnerr   | return 0, e
break       | break
continue    | continue
fallthrough | fallthrough
empty       | ;
declvar     | var d$n int ;; sink(d$n)
~declvar2    | var d$n, e$n = a, str ;; sink(d$n, e$n)
~declconst   | const k$n = 1 ;; sink(k$n)
decltype    | type t$n struct{ F int } ;; sink(t$n{a})
~decltype2   | type t$n int ;; var u$n t$n ;; sink(u$n)
declalias   | type t$n = []int ;; sink(t$n(s))
~declfn      | g$n := func(a int) int { return a + 1 } ;; sink(g$n(a))
panic       | panic("x")
print       | print(a, str) ;; println()
~deref       | sink(p.A)
~storefield  | p.A = a
~mapassign   | m["k"] = a
~mapincr     | m[str]++
~tuple       | a, str = len(str), str[1:]
~commaok     | x$n, ok$n := m["k"] ;; sink(x$n, ok$n)
~assertok    | x$n, ok$n := v.(int) ;; sink(x$n, ok$n)
blank       | _ = a
~selfassign  | a = a
~append      | s = append(s, a)
~nilcheck    | if p == nil { return }
errcheck    | if e != nil { return 0, e }
selectempty | select {}
~forever     | for { }
emptyblock  | { }
emptyswitch | switch { }
emptyselect | select { default: }
`)

var containerStmts = stmtTemplates(`
block       | { ;; $B ;; }
if          | if a > 0 { ;; $B ;; }
ifelse      | if a > 0 { ;; $B ;; } else { ;; $B ;; }
~ifelseif    | if a > 0 { ;; $B ;; } else if a < 0 { ;; $B ;; } else { ;; $B ;; }
ifinit      | if c$n := f(); c$n > 0 { ;; $B ;; }
~ifnil       | if p != nil { ;; $B ;; }
~ifnot       | if !(a > 0) { ;; sink(a) ;; } else { ;; $B ;; }
~ifcommaok   | if x$n, ok$n := v.(int); ok$n { ;; sink(x$n) ;; $B ;; }
~iferr       | if err := e; err != nil { ;; $B ;; }
for         | for { ;; $B ;; }
~forcond     | for a < 10 { ;; $B ;; }
for3        | for i$n := 0; i$n < a; i$n++ { ;; $B ;; }
~forpost     | for ; a < 10; a++ { ;; $B ;; }
~rangeint    | for i$n := range a { ;; sink(i$n) ;; $B ;; }
rangesl     | for i$n, x$n := range s { ;; sink(i$n, x$n) ;; $B ;; }
rangemap    | for k$n := range m { ;; sink(k$n) ;; $B ;; }
rangech     | for x$n := range ch { ;; sink(x$n) ;; $B ;; }
~rangestr    | for _, c$n := range str { ;; sink(c$n) ;; $B ;; }
rangefn     | for x$n := range seq { ;; sink(x$n) ;; $B ;; }
~rangenov    | for range s { ;; $B ;; }
~rangeassign | for a = range s { ;; $B ;; }
switch      | switch { ;; case a > 0: ;; $B ;; default: ;; $B ;; }
~switchtag   | switch a { ;; case 1: ;; $B ;; case 2, 3: ;; sink(a) ;; default: ;; }
~switchlast  | switch a { ;; case 1: ;; default: ;; $B ;; }
switchinit  | switch c$n := f(); c$n { ;; case 1: ;; $B ;; }
~switchinit2 | switch c$n := f(); { ;; case c$n > 0: ;; $B ;; }
typeswitch  | switch x$n := v.(type) { ;; case int: ;; sink(x$n) ;; $B ;; case nil: ;; $B ;; default: ;; sink(x$n) ;; }
~typeswitch2 | switch v.(type) { ;; case string, error: ;; $B ;; }
~typeswitchi | switch x$n := f(); y$n := v.(type) { ;; case int: ;; sink(x$n, y$n) ;; $B ;; }
select      | select { ;; case x$n := <-ch: ;; sink(x$n) ;; $B ;; case ch <- a: ;; $B ;; default: ;; $B ;; }
~selectnodef | select { ;; case <-ch: ;; $B ;; }
~selectok    | select { ;; case x$n, ok$n := <-ch: ;; sink(x$n, ok$n) ;; $B ;; }
~selectasg   | select { ;; case a = <-ch: ;; $B ;; }
labelgoto   | L$n: ;; $B ;; if cond() { ;; goto L$n ;; }
labelfor    | L$n: ;; for a < 10 { ;; $B ;; if cond() { ;; break L$n ;; } ;; if cond() { ;; continue L$n ;; } ;; }
~labelrange  | L$n: ;; for range s { ;; $B ;; continue L$n ;; }
labelswitch | L$n: ;; switch { ;; case a > 0: ;; $B ;; break L$n ;; }
labelselect | L$n: ;; select { ;; case <-ch: ;; $B ;; break L$n ;; }
~labelblock  | L$n: ;; { ;; $B ;; if cond() { ;; goto L$n ;; } ;; }
labelinner  | for a < 10 { ;; L$n: ;; $B ;; if cond() { ;; goto L$n ;; } ;; }
gotofwd     | if cond() { ;; goto L$n ;; } ;; $B ;; L$n: ;; sink(a)
~gotoend     | $B ;; goto L$n ;; L$n:
gofn        | go func() { ;; $B ;; }()
deferfn     | defer func() { ;; $B ;; }()
deferrec    | defer func() { ;; if x$n := recover(); x$n != nil { ;; $B ;; } ;; }()
~callfn      | func() { ;; $B ;; }()
~fnval       | g$n := func(a int) (int, error) { ;; $B ;; return a, nil ;; } ;; sink(g$n)
~fnnamed     | g$n := func() (r int, err error) { ;; $B ;; return ;; } ;; sink(g$n)
iterfn      | it$n := func(yield func(int) bool) { ;; $B ;; yield(a) ;; } ;; for x$n := range it$n { ;; sink(x$n) ;; }
`)

type instCounter struct{ n int }

func (c *instCounter) inst(t StmtT, body func() string) string {
	c.n++
	out := strings.ReplaceAll(t.T, "$n", fmt.Sprint(c.n))
	for strings.Contains(out, "$B") {
		out = strings.Replace(out, "$B", body(), 1)
	}
	return out
}

const stmtEnv = "(a int, s []int, m map[string]int, ch chan int, v any, f func() int, p *St, e error, seq iter.Seq[int], str string) (r int, err error)"

// nest builds the body of one grid-(b) function: path[0] ⊃ path[1] ⊃ … ⊃ leaf.
func nest(path []StmtT, leaf StmtT) string {
	c := &instCounter{}
	var rec func(i int) string
	rec = func(i int) string {
		if i == len(path) {
			return c.inst(leaf, nil)
		}
		return c.inst(path[i], func() string { return rec(i + 1) })
	}
	return rec(0) + "\nreturn"
}
