package main

// preludeSrc is the shared part of every generated package: the named, generic and
// interface types the operand kinds refer to, and a few helpers. %s = package name.
const preludeSrc = `// Package %s is part of the generated C03 corpus (analyzers x language constructs).
package %s

import (
	"iter"
	"unsafe"
)

type (
	NInt   int
	NUint8 uint8
	NStr   string
	NBool  bool
	NFloat float64
	NCplx  complex128
	NUPtr  unsafe.Pointer
	AInt   = int
	ASl    = []int
	APtr   = *St
	NArr0  [0]int
	NArr4  [4]byte
	NSl    []int
	NBytes []byte
	NMap   map[string]int
	NCh    chan int
	NChR   <-chan int
	NFn    func()
	NFn1   func(int) int
	NSeq   func(yield func(int) bool)
	NSeq0  func(yield func() bool)
	NPInt  *int
	NPArr4 *[4]byte
	NPSt   *St
	St     struct {
		A int
		B string
		P *St
	}
	Empty struct{}
	Emb   struct {
		St
		*Empty
		C int
	}
	EmbG struct {
		Gen[int]
		*Gen2[int, string]
		NSl
	}
	IfM   interface{ M() int }
	IfEmb interface {
		IfM
		error
	}
	IfPriv                    interface{ m() }
	Gen[T any]                struct{ V T }
	Gen2[K comparable, V any] struct {
		K K
		V V
	}
	GSl[T any]                []T
	GMap[K comparable, V any] map[K]V
	GCh[T any]                chan T
	GFn[T any]                func(T) T
	GPtr[T any]               *T
	AGen[T any]               = []T
	Num                       interface{ ~int | ~int64 | ~float64 }
	Rec                       struct {
		Next *Rec
		Kids []Rec
		M    map[string]*Rec
	}
)

func (St) M() int              { return 0 }
func (s *St) PM() *St          { return s }
func (NInt) M() int            { return 1 }
func (n *NInt) Inc()           { *n++ }
func (n NSl) M() int           { return len(n) }
func (NFn) M() int             { return 2 }
func (NStr) m()                {}
func (e *Emb) Error() string   { return e.B }
func (g Gen[T]) Get() T        { return g.V }
func (g *Gen[T]) Set(v T)      { g.V = v }
func (g Gen2[K, V]) Pair() (K, V) { return g.K, g.V }
func (s GSl[T]) At(i int) T    { return s[i] }
func (r *Rec) Walk(f func(*Rec) bool) bool {
	if r == nil {
		return true
	}
	return f(r) && r.Next.Walk(f)
}

func id[T any](v T) T       { return v }
func ptrTo[T any](v T) *T   { return &v }
func zero[T any]() (z T)    { return }
func pair[A, B any](a A, b B) (A, B) { return a, b }
func sink(...any)           {}
func cond() bool            { return len(unsafeAnchor) > 0 }

func Mapf[T, U any](xs []T, f func(T) U) []U {
	out := make([]U, 0, len(xs))
	for _, x := range xs {
		out = append(out, f(x))
	}
	return out
}

func Sum[T Num](xs ...T) (s T) {
	for _, x := range xs {
		s += x
	}
	return s
}

func Seq(n int) iter.Seq[int] {
	return func(yield func(int) bool) {
		for i := range n {
			if !yield(i) {
				return
			}
		}
	}
}

var unsafeAnchor []unsafe.Pointer

var (
	_ = id[int]
	_ = ptrTo[int]
	_ = zero[int]
	_ = pair[int, int]
	_ = sink
	_ = cond
	_ IfPriv = NStr("")
)
`

// fileHeader starts every generated function file. %s = package name, %s = extra imports
// block, %s = anchors that keep the imports used when functions are removed by the bisection.
const fileHeader = `package %s

import (
	"iter"
	"unsafe"
%s)

var _ iter.Seq[int]
var _ unsafe.Pointer
%s
`

var libImports = []string{"bytes", "context", "encoding/binary", "encoding/json", "encoding/xml", "errors", "fmt", "io", "maps", "math", "os", "reflect", "regexp", "slices", "sort", "strconv", "strings", "sync", "sync/atomic", "time"}

const libAnchors = `var (
	_ = bytes.Equal
	_ = context.Background
	_ = binary.Size
	_ = json.Marshal
	_ = xml.Marshal
	_ = errors.New
	_ = fmt.Sprint
	_ = io.EOF
	_ = maps.Keys[map[int]int]
	_ = math.Abs
	_ = os.Getenv
	_ = reflect.TypeOf
	_ = regexp.MustCompile
	_ = slices.Sort[[]int]
	_ = sort.Ints
	_ = strconv.Itoa
	_ = strings.Contains
	_ sync.Mutex
	_ atomic.Value
	_ time.Duration
)
`
