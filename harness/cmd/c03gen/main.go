// c03gen generates the systematic C03 corpus: small Go functions on grids
//
//	(a) syntactic context x operand type kind (incl. type parameters of many constraint shapes),
//	    conversions between every pair of kinds, library-call contexts,
//	(b) statement kind nested in statement kind (depth 2, depth 3 sampled),
//	(d) declaration form x kind,
//
// type-checks every candidate in-process with go/types (combinations that do not compile
// are discarded and counted), wraps expressions so that their value flows to a result of
// the exact type (the nilness fact analysis only looks at returned values) and writes
// packages of -per functions into a scratch module. Random choices derive from -seed only.
//
// Output: <out>/go.mod, <out>/<pkg>/{prelude.go,f.go}, <out>/index.json.
package main

import (
	"bytes"
	"encoding/json"
	"flag"
	"fmt"
	"go/ast"
	"go/importer"
	"go/parser"
	"go/token"
	"go/types"
	"io"
	"os"
	"os/exec"
	"path/filepath"
	"sort"
	"strings"
	"sync"
)

type Cand struct {
	ID     string `json:"id"`
	Family string `json:"family"`
	Ctx    string `json:"ctx"`
	Kind   string `json:"kind"`
	Kind2  string `json:"kind2,omitempty"`
	Pkg    string `json:"pkg,omitempty"`

	lib    bool
	tps    string // type parameter list, "" or "[...]"
	params string
	expr   string // instantiated expression (expression candidates)
	body   string // instantiated statements (statement candidates)
	decl   string // instantiated declarations (declaration candidates)
	text   string // current source text
	stage  int    // 0 = simple form, 1 = full wrapper
	rtype  string
}

type splitmix struct{ s uint64 }

func (r *splitmix) next() uint64 {
	r.s += 0x9E3779B97F4A7C15
	z := r.s
	z = (z ^ (z >> 30)) * 0xBF58476D1CE4E5B9
	z = (z ^ (z >> 27)) * 0x94D049BB133111EB
	return z ^ (z >> 31)
}
func (r *splitmix) below(n int) int { return int(r.next() % uint64(n)) }

func subst(s string, m map[string]string) string {
	// longest keys first so that $[TP] is not clobbered by $T
	keys := make([]string, 0, len(m))
	for k := range m {
		keys = append(keys, k)
	}
	sort.Slice(keys, func(i, j int) bool { return len(keys[i]) > len(keys[j]) || len(keys[i]) == len(keys[j]) && keys[i] < keys[j] })
	for _, k := range keys {
		s = strings.ReplaceAll(s, k, m[k])
	}
	return s
}

func (k Kind) inst(p, e, kk string) (tp, t string) {
	m := map[string]string{"$P": p, "$E": e, "$K": kk}
	return subst(k.TP, m), subst(k.T, m)
}

// tpNames lists the type parameter names of an instantiated TP list ("P ~[]E, E any" -> P, E).
func tpNames(tp string) string {
	if tp == "" {
		return ""
	}
	f, err := parser.ParseFile(token.NewFileSet(), "", "package p\nfunc f["+tp+"]() {}", 0)
	if err != nil {
		panic(fmt.Sprintf("bad type parameter list %q: %v", tp, err))
	}
	var names []string
	for _, fl := range f.Decls[0].(*ast.FuncDecl).Type.TypeParams.List {
		for _, n := range fl.Names {
			names = append(names, n.Name)
		}
	}
	return strings.Join(names, ", ")
}

func brackets(s string) string {
	if s == "" {
		return ""
	}
	return "[" + s + "]"
}

const exprEnv = "i, j int, s string, b bool, bs []byte, a any, e error"

func (c *Cand) render(name string) string {
	switch {
	case c.decl != "":
		return strings.ReplaceAll(c.decl, "$n", c.ID)
	case c.expr != "" && c.stage == 1:
		// the value flows to a result of its exact type, directly and through an addressed
		// local; the second result makes every such function one with a pointer-like result,
		// which is what the nilness fact analysis looks at
		return fmt.Sprintf("func %s%s(%s) (%s, *%s) {\n\tv := %s\n\tif b {\n\t\treturn v, nil\n\t}\n\treturn %s, &v\n}", name, c.tps, c.params, c.rtype, c.rtype, c.expr, c.expr)
	case c.expr != "":
		return fmt.Sprintf("func %s%s(%s) {\n\t_ = %s\n}", name, c.tps, c.params, c.expr)
	default:
		return fmt.Sprintf("func %s%s(%s {\n%s\n}", name, c.tps, c.params, c.body)
	}
}

// ------------------------------------------------------------------ candidate enumeration

func ctxCands(ks []Kind, cs []Ctx, fam string) []*Cand {
	var out []*Cand
	for _, c := range cs {
		for _, k := range ks {
			tpd, t := k.inst("P", "E", "K")
			m := map[string]string{"$x": "x", "$y": "y", "$T": t}
			cd := &Cand{Family: fam, Ctx: c.Name, Kind: k.Name, lib: c.Lib, tps: brackets(tpd)}
			if c.Expr != "" {
				cd.expr = subst(c.Expr, m)
				cd.params = "x, y " + t + ", " + exprEnv
			} else {
				cd.body = subst(c.Stmt, m)
				cd.params = "x, y " + t + ", " + exprEnv + ")"
			}
			out = append(out, cd)
		}
	}
	return out
}

var convForms = []Ctx{
	{Name: "conv:U(x)", Expr: "($U)($x)"},
	{Name: "conv:var v U = x", Stmt: "var v $U = $x\nsink(v)"},
	{Name: "conv:any(x).(U)", Stmt: "v, ok := any($x).($U)\nsink(v, ok)"},
	{Name: "conv:[]U{x}", Expr: "[]$U{$x}"},
	{Name: "conv:U(x)==U(y)", Expr: "($U)($x) == ($U)($y)"},
	{Name: "conv:x==U", Stmt: "var u $U\nif $x == u {\n\treturn\n}"},
	{Name: "conv:range U(x)", Stmt: "for i, v := range ($U)($x) {\n\tsink(i, v)\n}"},
	{Name: "conv:*(*U)(unsafe.Pointer(&x))", Expr: "*(*$U)(unsafe.Pointer(&$x))"},
}

func convCands(src, dst []Kind, forms []Ctx) []*Cand {
	var out []*Cand
	for _, f := range forms {
		for _, s := range src {
			for _, d := range dst {
				stp, st := s.inst("P", "E", "K")
				dtp, dt := d.inst("Q", "F", "L")
				tpd := stp
				if dtp != "" {
					if tpd != "" {
						tpd += ", "
					}
					tpd += dtp
				}
				m := map[string]string{"$x": "x", "$y": "y", "$T": st, "$U": dt}
				cd := &Cand{Family: "conv", Ctx: f.Name, Kind: s.Name, Kind2: d.Name, tps: brackets(tpd)}
				if f.Expr != "" {
					cd.expr = subst(f.Expr, m)
					cd.params = "x, y " + st + ", " + exprEnv
				} else {
					cd.body = subst(f.Stmt, m)
					cd.params = "x, y " + st + ", " + exprEnv + ")"
				}
				out = append(out, cd)
			}
		}
	}
	return out
}

func allStmts() []StmtT { return append(append([]StmtT{}, leafStmts...), containerStmts...) }

func stmtCand(path []StmtT, leaf StmtT) *Cand {
	var names []string
	for _, p := range path {
		names = append(names, p.Name)
	}
	names = append(names, leaf.Name)
	return &Cand{Family: "stmt", Ctx: strings.Join(names, ">"), Kind: fmt.Sprint("depth", len(names)),
		params: stmtEnv[1:], body: nest(path, leaf)}
}

func isContainer(t StmtT) bool { return strings.Contains(t.T, "$B") }

func stmtCands(depth3 int, quick bool, rng *splitmix) []*Cand {
	var out []*Cand
	all := allStmts()
	fill := StmtT{Name: "callsink", T: "sink(a)"}
	one := func(path []StmtT, last StmtT) *Cand {
		if isContainer(last) {
			return stmtCand(append(append([]StmtT{}, path...), last), fill)
		}
		return stmtCand(path, last)
	}
	for _, s := range all {
		out = append(out, one(nil, s))
	}
	// depth 2: exhaustive; in quick the second-tier templates (near-duplicates, marked "~")
	// take part only at depth 1 and in the sampled depth-3 grid
	for _, c := range containerStmts {
		for _, s := range all {
			if quick && (c.B || s.B) {
				continue
			}
			out = append(out, one([]StmtT{c}, s))
		}
	}
	n3 := len(containerStmts) * len(containerStmts) * len(all)
	pick := func(i int) *Cand {
		s := all[i%len(all)]
		c2 := containerStmts[(i/len(all))%len(containerStmts)]
		c1 := containerStmts[i/len(all)/len(containerStmts)]
		return one([]StmtT{c1, c2}, s)
	}
	if depth3 < 0 || depth3 >= n3 {
		for i := 0; i < n3; i++ {
			out = append(out, pick(i))
		}
	} else {
		seen := map[int]bool{}
		for len(seen) < depth3 {
			i := rng.below(n3)
			if !seen[i] {
				seen[i] = true
				out = append(out, pick(i))
			}
		}
	}
	return out
}

func declCands(ks []Kind) []*Cand {
	var out []*Cand
	for _, d := range declTemplates {
		generic := strings.Contains(d.T, "$[TP]")
		for _, k := range ks {
			if k.TP != "" && !generic {
				continue
			}
			tpd, t := k.inst("P", "E", "K")
			comma := ""
			if tpd != "" {
				comma = ", " + tpd
			}
			m := map[string]string{"$T": t, "$[TP]": brackets(tpd), "$[TA]": brackets(tpNames(tpd)), "$[,TP]": comma}
			out = append(out, &Cand{Family: "decl", Ctx: d.Name, Kind: k.Name, decl: subst(d.T, m)})
		}
	}
	return out
}

// ------------------------------------------------------------------ type checking

type checker struct {
	exports map[string]string
	stats   map[string]int
	mu      sync.Mutex
	workers int
	imps    chan types.Importer // pool: one importer per worker (the gc importer is not goroutine safe)
}

func newChecker(workers int) *checker {
	// export data of the std packages the corpus imports, from the current toolchain
	args := append([]string{"list", "-export", "-deps", "-json=ImportPath,Export", "iter", "unsafe"}, libImports...)
	cmd := exec.Command("go", args...)
	cmd.Stderr = os.Stderr
	outb, err := cmd.Output()
	if err != nil {
		fatal("go list -export: %v", err)
	}
	exports := map[string]string{}
	dec := json.NewDecoder(bytes.NewReader(outb))
	for {
		var p struct{ ImportPath, Export string }
		if err := dec.Decode(&p); err == io.EOF {
			break
		} else if err != nil {
			fatal("go list output: %v", err)
		}
		exports[p.ImportPath] = p.Export
	}
	ck := &checker{exports: exports, stats: map[string]int{}, workers: workers, imps: make(chan types.Importer, workers)}
	for i := 0; i < workers; i++ {
		lookup := func(path string) (io.ReadCloser, error) {
			f, ok := exports[path]
			if !ok || f == "" {
				return nil, fmt.Errorf("no export data for %s", path)
			}
			return os.Open(f)
		}
		ck.imps <- importer.ForCompiler(token.NewFileSet(), "gc", lookup)
	}
	return ck
}

func (ck *checker) count(key string, n int) {
	ck.mu.Lock()
	ck.stats[key] += n
	ck.mu.Unlock()
}

func fatal(f string, a ...any) {
	fmt.Fprintf(os.Stderr, "c03gen: "+f+"\n", a...)
	os.Exit(2)
}

func header(pkg string, lib bool) string {
	imps, anchors := "", ""
	if lib {
		for _, p := range libImports {
			imps += "\t\"" + p + "\"\n"
		}
		anchors = libAnchors
	}
	return fmt.Sprintf(fileHeader, pkg, imps, anchors)
}

// check type-checks one chunk (prelude + candidates) and returns, per candidate, whether
// it is error free; for expression candidates in stage 0 it also records the result type.
func (ck *checker) check(imp types.Importer, cands []*Cand, lib bool) (res []bool) {
	// go/types itself can panic on unusual generic code (observed with go1.26: append with a
	// type parameter operand). The compiler shares that code, so such a candidate is not
	// buildable: split the chunk until the culprit is isolated and discard it.
	defer func() {
		if r := recover(); r != nil {
			if len(cands) == 1 {
				ck.count("typechecker_panics", 1)
				res = []bool{false}
				return
			}
			h := len(cands) / 2
			res = append(ck.check(imp, cands[:h], lib), ck.check(imp, cands[h:], lib)...)
		}
	}()
	var buf strings.Builder
	buf.WriteString(header("p", lib))
	start := make([]int, len(cands))
	line := strings.Count(buf.String(), "\n") + 1
	for i, c := range cands {
		start[i] = line
		buf.WriteString(c.text)
		buf.WriteString("\n\n")
		line += strings.Count(c.text, "\n") + 2
	}
	fset := token.NewFileSet()
	pf, err := parser.ParseFile(fset, "prelude.go", fmt.Sprintf(preludeSrc, "p", "p"), parser.SkipObjectResolution)
	if err != nil {
		fatal("prelude does not parse: %v", err)
	}
	ff, err := parser.ParseFile(fset, "f.go", buf.String(), parser.SkipObjectResolution)
	if err != nil {
		fatal("chunk does not parse although every candidate does: %v", err)
	}
	ok := make([]bool, len(cands))
	for i := range ok {
		ok[i] = true
	}
	conf := types.Config{
		Importer:  imp,
		GoVersion: goVersion,
		Sizes:     types.SizesFor("gc", "amd64"),
		Error: func(err error) {
			te, isT := err.(types.Error)
			if !isT {
				fatal("unexpected error %v", err)
			}
			if strings.HasPrefix(te.Msg, "\t") {
				return // continuation line pointing at a related position
			}
			pos := te.Fset.Position(te.Pos)
			if pos.Filename != "f.go" {
				fatal("error outside the candidates: %v", err)
			}
			i := sort.SearchInts(start, pos.Line+1) - 1
			if i < 0 {
				fatal("error in the file header: %v", err)
			}
			ok[i] = false
		},
	}
	info := &types.Info{Types: map[ast.Expr]types.TypeAndValue{}}
	pkg, _ := conf.Check("p", fset, []*ast.File{pf, ff}, info)
	qual := func(p *types.Package) string {
		if p == pkg {
			return ""
		}
		return p.Name()
	}
	// result types of stage-0 expression candidates
	byName := map[string]*Cand{}
	for i, c := range cands {
		if ok[i] && c.expr != "" && c.stage == 0 {
			byName["F"+c.ID] = c
		}
	}
	for _, d := range ff.Decls {
		fd, isF := d.(*ast.FuncDecl)
		if !isF || fd.Recv != nil {
			continue
		}
		c := byName[fd.Name.Name]
		if c == nil || len(fd.Body.List) != 1 {
			continue
		}
		as, isA := fd.Body.List[0].(*ast.AssignStmt)
		if !isA {
			continue
		}
		tv, has := info.Types[as.Rhs[0]]
		if !has || tv.Type == nil {
			continue
		}
		t := types.Default(tv.Type)
		if b, isB := t.(*types.Basic); isB && (b.Kind() == types.UntypedNil || b.Kind() == types.Invalid) {
			continue
		}
		if _, isT := t.(*types.Tuple); isT {
			continue
		}
		c.rtype = types.TypeString(t, qual)
	}
	return ok
}

var goVersion = "go1.26"

func syntaxOK(text string) bool {
	_, err := parser.ParseFile(token.NewFileSet(), "", "package p\n"+text, parser.SkipObjectResolution)
	return err == nil
}

// run type-checks the candidates in parallel chunks; ok[i] tells whether in[i] is clean.
func (ck *checker) run(in []*Cand) []bool {
	const chunk = 400
	ok := make([]bool, len(in))
	var wg sync.WaitGroup
	for i := 0; i < len(in); i += chunk {
		lo, hi := i, min(i+chunk, len(in))
		wg.Add(1)
		imp := <-ck.imps
		go func() {
			defer wg.Done()
			copy(ok[lo:hi], ck.check(imp, in[lo:hi], in[lo].lib))
			ck.imps <- imp
		}()
	}
	wg.Wait()
	return ok
}

// filter runs the candidates through the type checker (two stages for expressions) and
// returns the survivors with their final text.
func (ck *checker) filter(cands []*Cand, fam string) []*Cand {
	ck.count(fam+".candidates", len(cands))
	syn := make([]*Cand, 0, len(cands))
	synOK := make([]bool, len(cands))
	var wg sync.WaitGroup
	for w := 0; w < ck.workers; w++ {
		wg.Add(1)
		go func() {
			defer wg.Done()
			for i := w; i < len(cands); i += ck.workers {
				cands[i].text = cands[i].render("F" + cands[i].ID)
				synOK[i] = syntaxOK(cands[i].text)
			}
		}()
	}
	wg.Wait()
	for i, c := range cands {
		if synOK[i] {
			syn = append(syn, c)
		} else {
			ck.count(fam+".discarded_syntax", 1)
		}
	}
	var good []*Cand
	for i, ok := range ck.run(syn) {
		if ok {
			good = append(good, syn[i])
		} else {
			ck.count(fam+".discarded_types", 1)
		}
	}
	// stage 1: wrap expressions whose type is known; fall back to the simple form
	var wrapped []*Cand
	for _, c := range good {
		if c.expr != "" && c.rtype != "" {
			c.stage = 1
			c.text = c.render("F" + c.ID)
			wrapped = append(wrapped, c)
		}
	}
	for i, ok := range ck.run(wrapped) {
		if !ok {
			wrapped[i].stage = 0
			wrapped[i].text = wrapped[i].render("F" + wrapped[i].ID)
			ck.count(fam+".wrapper_fallback", 1)
		}
	}
	ck.count(fam+".valid", len(good))
	return good
}

// ------------------------------------------------------------------ main

// representative kinds for the grids whose templates are mostly type-insensitive (decl, lib):
// these x every template are always generated; the other kinds are sampled by seed in quick.
// kinds paired with the type-insensitive ("universal") contexts in quick
var univKinds = map[string]bool{"int": true, "string": true, "error": true, "unsafe.Pointer": true, "NInt": true, "[4]byte": true,
	"[]int": true, "map[string]int": true, "chan int": true, "func()": true, "iter.Seq[int]": true, "*[4]byte": true,
	"*St": true, "St": true, "EmbG": true, "Gen[int]": true, "IfM": true,
	"tp:any": true, "tp:~int|~string": true, "tp:*[4]byte|*[8]byte": true, "tp:[]int|map[int]int": true, "tp:IfM": true,
	"tp:empty": true, "tp2:P~[]E": true, "tp2:P*E+M": true, "tp2:Gen[E]": true}

// kinds paired with every declaration template in quick
var declKinds = map[string]bool{"int": true, "string": true, "St": true, "*St": true, "[]int": true, "NInt": true, "func()": true, "IfM": true, "tp:any": true, "tp2:P~[]E": true}

var repKinds = map[string]bool{"int": true, "string": true, "[]byte": true, "error": true, "St": true, "*St": true,
	"[]int": true, "map[string]int": true, "chan int": true, "func()": true, "iter.Seq[int]": true, "float64": true,
	"EmbG": true, "[4]byte": true, "tp:any": true, "tp:~[]byte|~string": true, "tp2:P~[]E": true}

func main() {
	out := flag.String("out", "", "output directory (scratch module)")
	tier := flag.String("tier", "quick", "quick | thorough")
	seed := flag.Uint64("seed", 1, "VERIF_SEED")
	per := flag.Int("per", 150, "functions per package")
	only := flag.String("only", "", "restrict to families (comma separated): ctx,conv,stmt,decl,lib")
	budget := flag.String("budget", "", "override sample sizes: ctxrest,convrest,convforms,stmt3,declrest,librest (comma separated numbers, -1 = all)")
	gover := flag.String("go", "1.26", "go directive of the generated module")
	workers := flag.Int("j", 8, "parallel type-check workers")
	restOnly := flag.Bool("restonly", false, "emit only the seed-sampled parts (escalated failing-input search: the exhaustive parts were linted already)")
	flag.Parse()
	if *out == "" {
		fatal("-out required")
	}
	goVersion = "go" + *gover
	rng := &splitmix{*seed}
	quick := *tier == "quick"
	want := func(f string) bool { return *only == "" || strings.Contains(","+*only+",", ","+f+",") }

	// sample sizes (by case count, never by time); -1 = exhaustive
	nCtxRest, nConvRest, nConvForms, nStmt3, nDeclRest, nLibRest := -1, -1, 10000, 6000, 10000, 8000
	if quick {
		nCtxRest, nConvRest, nConvForms, nStmt3, nDeclRest, nLibRest = 600, 150, 150, 300, 300, 200
	}
	if *budget != "" {
		fmt.Sscanf(*budget, "%d,%d,%d,%d,%d,%d", &nCtxRest, &nConvRest, &nConvForms, &nStmt3, &nDeclRest, &nLibRest)
	}

	ck := newChecker(*workers)
	id := 0
	number := func(cs []*Cand) []*Cand {
		for _, c := range cs {
			id++
			c.ID = fmt.Sprint(id)
		}
		return cs
	}
	// sample n of cs by seed, keeping the original order (n < 0: all)
	sample := func(cs []*Cand, n int) []*Cand {
		if n < 0 || n >= len(cs) {
			return cs
		}
		idx := make([]int, len(cs))
		for i := range idx {
			idx[i] = i
		}
		for i := 0; i < n; i++ {
			j := i + rng.below(len(idx)-i)
			idx[i], idx[j] = idx[j], idx[i]
		}
		pick := append([]int{}, idx[:n]...)
		sort.Ints(pick)
		outc := make([]*Cand, n)
		for i, p := range pick {
			outc[i] = cs[p]
		}
		return outc
	}
	// In quick the sampled parts are drawn from the candidates BEFORE type checking (about
	// 4 candidates per wanted function) to keep generation cheap; thorough checks everything.
	pre := func(cs []*Cand, n, factor int) []*Cand {
		if n < 0 {
			return cs
		}
		return sample(cs, n*factor)
	}
	split := func(cs []*Cand, always func(*Cand) bool) (a, r []*Cand) {
		for _, c := range cs {
			if always(c) {
				a = append(a, c)
			} else {
				r = append(r, c)
			}
		}
		return
	}
	coreKind := map[string]bool{}
	for _, k := range kinds {
		if k.Core {
			coreKind[k.Name] = true
		}
	}
	isTP := func(n string) bool { return strings.HasPrefix(n, "tp") }

	var groups [][]*Cand // each group is packed into its own run of packages
	if want("ctx") {
		bCtx := map[string]bool{}
		allCtx := append(append([]Ctx{}, exprCtxs...), stmtCtxs...)
		for _, c := range allCtx {
			if c.B {
				bCtx[c.Name] = true
			}
		}
		always, rest := split(ctxCands(kinds, allCtx, "ctx"), func(c *Cand) bool { return coreKind[c.Kind] && !bCtx[c.Ctx] })
		g := ck.filter(number(always), "ctx")
		// A context that type-checks for most kinds is not type-sensitive (wrappers such as
		// Gen[$T]{$x}): in quick it is paired with the representative kinds only, the other
		// combinations join the sampled pool.
		var moved []*Cand
		if quick {
			perCtx := map[string]int{}
			for _, c := range g {
				perCtx[c.Ctx]++
			}
			var kept []*Cand
			for _, c := range g {
				if 2*perCtx[c.Ctx] > len(coreKind) && !univKinds[c.Kind] {
					moved = append(moved, c)
				} else {
					kept = append(kept, c)
				}
			}
			ck.stats["ctx.universal_moved_to_sampled"] = len(moved)
			g = kept
		}
		ck.stats["ctx.always"] = len(g)
		r := ck.filter(number(pre(rest, nCtxRest, 4)), "ctxrest")
		r = sample(append(moved, r...), nCtxRest)
		ck.stats["ctxrest.emitted"] = len(r)
		if *restOnly {
			g = nil
		}
		groups = append(groups, g, r)
	}
	if want("conv") {
		// The plain conversion T(x): every pair (type parameter kind, ordinary kind) in both
		// directions and every type parameter kind with itself is always type-checked and kept;
		// the other pairs and the other conversion forms are sampled (all in thorough).
		always, rest := split(convCands(kinds, kinds, convForms[:1]), func(c *Cand) bool { return isTP(c.Kind) != isTP(c.Kind2) || c.Kind == c.Kind2 })
		keep := ck.filter(number(always), "conv")
		ck.stats["conv.always"] = len(keep)
		r := sample(ck.filter(number(pre(rest, nConvRest, 12)), "convrest"), nConvRest)
		forms := sample(ck.filter(number(pre(convCands(kinds, kinds, convForms[1:]), nConvForms, 5)), "convforms"), nConvForms)
		if *restOnly {
			keep = nil
		}
		ck.stats["conv.emitted"] = len(keep) + len(r) + len(forms)
		groups = append(groups, append(append(keep, r...), forms...))
	}
	if want("stmt") {
		g := ck.filter(number(stmtCands(nStmt3, quick, rng)), "stmt")
		if *restOnly {
			_, g = split(g, func(c *Cand) bool { return c.Kind != "depth3" })
		}
		groups = append(groups, g)
	}
	if want("decl") {
		always, rest := split(declCands(kinds), func(c *Cand) bool { return declKinds[c.Kind] })
		g := ck.filter(number(always), "decl")
		r := sample(ck.filter(number(pre(rest, nDeclRest, 2)), "declrest"), nDeclRest)
		ck.stats["declrest.emitted"] = len(r)
		if *restOnly {
			g = nil
		}
		groups = append(groups, append(g, r...))
	}
	if want("lib") {
		always, rest := split(ctxCands(kinds, libCtxs, "lib"), func(c *Cand) bool { return repKinds[c.Kind] })
		g := ck.filter(number(always), "lib")
		r := sample(ck.filter(number(pre(rest, nLibRest, 4)), "librest"), nLibRest)
		ck.stats["librest.emitted"] = len(r)
		if *restOnly {
			g = nil
		}
		groups = append(groups, append(g, r...))
	}

	// write the module
	if err := os.MkdirAll(*out, 0o755); err != nil {
		fatal("%v", err)
	}
	os.WriteFile(filepath.Join(*out, "go.mod"), []byte("module c03gen.test\n\ngo "+*gover+"\n"), 0o644)
	var index []*Cand
	npkg := 0
	for _, g := range groups {
		for i := 0; i < len(g); i += *per {
			part := g[i:min(i+*per, len(g))]
			pkg := fmt.Sprintf("g%03d%s", npkg, part[0].Family)
			npkg++
			dir := filepath.Join(*out, pkg)
			os.MkdirAll(dir, 0o755)
			os.WriteFile(filepath.Join(dir, "prelude.go"), []byte(fmt.Sprintf(preludeSrc, pkg, pkg)), 0o644)
			var buf strings.Builder
			buf.WriteString(header(pkg, part[0].lib))
			for _, c := range part {
				c.Pkg = pkg
				fmt.Fprintf(&buf, "//c03:begin %s\n%s\n//c03:end\n\n", c.ID, c.render("F"+c.ID))
				index = append(index, c)
			}
			os.WriteFile(filepath.Join(dir, "f.go"), []byte(buf.String()), 0o644)
		}
	}
	ck.stats["packages"] = npkg
	ck.stats["functions"] = len(index)
	ck.stats["kinds"] = len(kinds)
	ck.stats["kinds_core"] = len(coreKind)
	ck.stats["contexts"] = len(exprCtxs) + len(stmtCtxs)
	ck.stats["lib_contexts"] = len(libCtxs)
	ck.stats["stmt_templates"] = len(leafStmts) + len(containerStmts)
	ck.stats["decl_templates"] = len(declTemplates)
	f, _ := os.Create(filepath.Join(*out, "index.json"))
	enc := json.NewEncoder(f)
	enc.Encode(map[string]any{"stats": ck.stats, "functions": index})
	f.Close()
	js, _ := json.Marshal(ck.stats)
	fmt.Println(string(js))
}
