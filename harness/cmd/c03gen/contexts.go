package main

import "strings"

// Ctx is a syntactic context of grid (a). Expr contexts are expressions mentioning the
// operands $x, $y (both of the kind's type $T); Stmt contexts are statement lists. The
// function environment also offers i, j int; s string; b bool; bs []byte; a any; e error.
type Ctx struct {
	Name string
	Expr string // expression template ("" for statement contexts)
	Stmt string // statement template
	Lib  bool   // needs the std imports of the lib packages
	B    bool   // second-tier context (marked "~ " in the lists): sampled, not exhaustive, in the quick tier
}

func exprs(list string) []Ctx {
	var out []Ctx
	for _, l := range strings.Split(list, "\n") {
		l = strings.TrimSpace(l)
		if l == "" || strings.HasPrefix(l, "//") {
			continue
		}
		l, isB := strings.CutPrefix(l, "~ ")
		out = append(out, Ctx{Name: "e:" + l, Expr: l, B: isB})
	}
	return out
}

func stmts(list string) []Ctx {
	var out []Ctx
	for _, l := range strings.Split(list, "\n") {
		l = strings.TrimSpace(l)
		if l == "" || strings.HasPrefix(l, "//") {
			continue
		}
		l, isB := strings.CutPrefix(l, "~ ")
		out = append(out, Ctx{Name: "s:" + l, Stmt: strings.ReplaceAll(l, " ;; ", "\n"), B: isB})
	}
	return out
}

func lib(cs []Ctx) []Ctx {
	for i := range cs {
		cs[i].Lib = true
		cs[i].Name = "lib:" + cs[i].Name
	}
	return cs
}

var exprCtxs = exprs(`
len($x)
cap($x)
$x[0]
$x[i]
$x[i:j]
$x[:]
~ $x[i:j:j]
~ $x[1:]
$x["k"]
~ $x[s]
$x[$y[0]]
$x == nil
$x != nil
~ nil == $x
$x == $y
~ $x != $y
$x < $y
~ $x <= $y
$x + $y
~ $x - $y
~ $x * $y
$x / $y
~ $x % $y
$x & $y
~ $x | $y
~ $x ^ $y
~ $x &^ $y
$x << 1
~ $x >> i
~ $x << $y
~ 1 << $x
$x && $y
~ $x || $y
!$x
-$x
~ ^$x
~ +$x
$x + 1
~ $x * 2
~ $x + "s"
$x == 0
~ $x == ""
$x == $x
~ $x - $x
~ $x & $x
~ $x | $x
~ $x / 1
~ $x * 0
$x == true
~ $x != false
$x >= 0
$x < 0
~ $x > 255
~ $x &^ 0
~ $x ^ 0
~ $x % 1
&$x
&($x)
~ (($x))
~ *($x)
~ ($x)()
~ (<-$x)
~ ($x).A
~ ($x)[0]
~ (*($x)).A
*$x
~ **$x
~ &*$x
~ *&$x
$x.A
~ $x.B
~ $x.C
$x.V
$x.P
~ $x.P.P.A
$x.St
~ $x.St.A
$x.Next.Next
~ $x.Kids[0].M["k"]
$x.M()
$x.M
$x.PM()
$x.PM
$T.M
(*$T).M
(*$T).PM
$x.Get()
$x.Get
$x.Error()
~ $x.Error
~ $x.At(0)
~ (&$x).V
(&$x).M()
(*$x).M()
(*$x).A
(*$x)[0]
(*$x)[i:j]
(*$x)["k"]
len(*$x)
cap(*$x)
$x[0].A
$x[0][0]
$x["k"].A
~ $x["k"][0]
$x[0]()
<-$x[0]
*$x[0]
$x[0].M()
len($x[0])
~ $x.V.V
~ $x.V[0]
$x.(int)
$x.(IfM)
~ $x.(St)
$x.(*St)
$x.(error)
~ $x.(interface{ M() int })
any($x).($T)
any($x).(IfM)
any(&$x).(*$T)
a.($T)
a.(*$T)
~ a.([]$T)
~ a.(func() $T)
~ a.(map[string]$T)
~ a.(chan $T)
append($x, $x...)
append($x, $x[0])
~ append($x[:0], $x[1:]...)
append($x, 1)
~ append($x, "s"...)
~ append($x, s...)
append(bs, $x...)
append($x)
~ append($x, nil)
append([]$T{}, $x)
append([]$T(nil), $x, $y)
append($x[:i], $x[i+1:]...)
~ append($x[:i:i], $y...)
min($x, $y)
max($x, $y)
~ min($x, 1)
~ max($x, "a")
min($x)
~ max($x, $y, $x)
<-$x
$x()
$x(1)
~ $x(i, j)
$x($y)
$x(func(int) bool { return true })
~ $x(func() bool { return true })
$x(nil)
~ $x()()
<-$x()
*$x()
~ $x()[0]
~ $x().A
$T{}
&$T{}
$T{0}
~ $T{1, 2}
$T{0: 1}
$T{"a": 1}
~ $T{"a"}
$T{A: 1}
$T{V: 1}
$T{nil}
~ $T{{}}
~ $T{0: {}}
~ $T{"k": {}}
$T{St: St{}}
~ $T{St{}, nil, 1}
~ $T{Next: nil}
~ $T{K: "k", V: 1}
$T{$y[0]}
[]$T{$x}
~ []$T{$x, $y}
[...]$T{$x}
[1]$T{$x}
~ [...]$T{1: $x}
map[string]$T{"a": $x}
map[$T]int{$x: 1}
~ map[$T]$T{$x: $y}
~ map[$T]struct{}{}
struct{ F $T }{$x}
~ struct{ F $T }{F: $x}.F
&struct{ F *$T }{&$x}
Gen[$T]{$x}
Gen[$T]{V: $x}.Get()
&Gen[$T]{}
Gen2[string, $T]{"k", $x}
~ Gen2[$T, int]{K: $x}
GSl[$T]{$x}
GMap[string, $T]{"a": $x}
~ GMap[$T, $T]{$x: $y}
GPtr[$T](&$x)
AGen[$T]{$x}
[]*$T{&$x, nil}
~ []func() $T{func() $T { return $x }}
make($T)
make($T, 1)
make($T, i, j)
~ make($T, 0)
new($T)
*new($T)
make(chan $T)
~ make(chan $T, 1)
make([]$T, 2)
~ make([]$T, i, j)
make(map[string]$T)
~ make(map[$T]bool)
new(*$T)
~ new([]$T)
func() $T { return $x }()
func(v $T) $T { return v }($x)
func(v ...$T) []$T { return v }($x, $y)
func() (r $T) { defer func() { r = $y }(); return $x }()
~ func() (r $T) { r = $x; return }()
func() (r any) { defer func() { r = recover() }(); panic($x) }()
func() $T { if b { return $x }; return $y }
func() ($T, error) { return $x, nil }
func() *$T { return &$x }()
func() *$T { v := $x; return &v }()
~ func() *$T { return nil }()
~ func() []$T { return nil }()
id($x)
id[$T]($x)
id[$T]
ptrTo($x)
*ptrTo($x)
zero[$T]()
~ zero[*$T]()
~ zero[[]$T]()
Mapf([]$T{$x}, func(v $T) $T { return v })
~ Mapf[$T, string]
Mapf($x, func(v int) int { return v })
Sum($x, $y)
~ Sum($x...)
Sum[$T]
any($x)
~ interface{}($x)
IfM($x)
error($x)
IfEmb($x)
any($x) == any($y)
any($x) == nil
~ any($x) != a
any(&$x)
~ any($x) == $y
$x == a
IfM($x) == IfM($y)
unsafe.Sizeof($x)
unsafe.Alignof($x)
unsafe.Offsetof($x.A)
~ unsafe.Offsetof($x.St.A)
unsafe.Pointer($x)
unsafe.Pointer(&$x)
uintptr(unsafe.Pointer(&$x))
(*int)(unsafe.Pointer(&$x))
(*$T)(unsafe.Pointer(&i))
*(*$T)(unsafe.Pointer(&i))
unsafe.Slice($x, 1)
unsafe.Slice(&$x, 1)
unsafe.SliceData($x)
unsafe.String($x, 1)
unsafe.StringData($x)
unsafe.Add($x, 1)
unsafe.Add(unsafe.Pointer($x), i)
unsafe.Pointer(uintptr($x))
~ unsafe.Pointer(uintptr(unsafe.Pointer($x)) + 8)
real($x)
imag($x)
complex($x, $y)
[]any{$x}
~ [...]any{$x, $y}
map[any]any{$x: $y}
[]IfM{$x}
~ []error{$x, nil}
~ $x.A + $y.A
~ $x[0] + $y[0]
$x[0] == $y[0]
*$x == *$y
~ $x.V == $y.V
len($x) == 0
len($x) > 0 && $x[0] == $y[0]
~ len($x) + cap($y)
$x[len($x)-1]
$x[:len($x)]
~ $x[0:len($x)]
~ $x[len($x):]
$x[:0]
~ string($x[0])
~ $x[i:j][0]
`)

var stmtCtxs = stmts(`
for range $x { }
for i := range $x { sink(i) }
for i, v := range $x { sink(i, v) }
for _, v := range $x { sink(v) }
for i = range $x { }
~ for i, _ := range $x { sink(i) }
~ for _ = range $x { }
~ for _, _ = range $x { }
if $x != nil { ;; for range $x { } ;; }
if $x != nil { ;; for i := range $x { sink(i) } ;; }
if $x != nil { ;; for _, v := range $x { sink(v) } ;; }
if $x != nil { ;; for i, v := range $x { sink(i, v) } ;; }
if $x == nil { return } ;; for range $x { }
if $x != nil && len($x) > 0 { sink(1) }
if $x != nil && len($x) != 0 { sink(1) }
if $x == nil || len($x) == 0 { sink(1) }
~ if $x != nil && len($x) >= 1 { sink(1) }
~ if $x != nil && len($x) == 3 { sink(1) }
if len($x) > 0 && $x != nil { sink(1) }
if $x != nil && cap($x) > 0 { sink(1) }
if $x != nil { ;; if len($x) > 0 { sink(1) } ;; }
if len($x) == 0 { return } ;; sink($x[0])
for i := 0; i < len($x); i++ { sink($x[i]) }
for i := range $x { sink($x[i]) }
for i := range $x { $x[i] = $y[i] }
for i, v := range $x { $y[i] = v }
~ for i := 0; i < len($x); i++ { $y[i] = $x[i] }
for _, v := range $x { $y = append($y, v) }
for k, v := range $x { $y[k] = v }
for k := range $x { delete($x, k) }
for _, v := range $x { if v == $y[0] { return } }
for range $x { return }
for _, v := range $x { sink(v) ;; break }
~ for i := range $x { if i == j { continue } ;; return }
for { select { case v := <-$x: sink(v) } }
for { v, ok := <-$x ;; if !ok { break } ;; sink(v) }
for v := range $x { select { case $y <- v: default: } }
select { case <-$x: ;; default: }
select { case v := <-$x: sink(v) }
select { case v, ok := <-$x: sink(v, ok) }
select { case $x <- 0: }
select { case $x <- zero[$T](): ;; case <-$y: }
~ select { case $x <- 0: ;; default: }
select { case <-$x: ;; case <-$y: }
$x <- 0
$x <- nil
~ $x <- struct{}{}
~ $x <- zero[int]()
close($x)
v, ok := <-$x ;; sink(v, ok)
<-$x
~ v := <-$x ;; sink(v)
go $x()
defer $x()
$x()
~ go $x(1)
~ defer $x(1)
_ = $x()
~ _, _ = $x()
v, err := $x() ;; sink(v, err)
if err := $x(); err != nil { return }
~ if v, err := $x(); err == nil { sink(v) }
if $x() != nil { return }
~ if $x() == nil { return }
if v := $x(); v != nil { sink(*v) }
go func() { sink($x) }()
defer func() { sink($x) }()
defer func(v $T) { sink(v) }($x)
~ go func(v $T) { sink(v) }($x)
for v := range $x { defer sink(v) }
for v := range $x { go func() { sink(v) }() }
for i := range $x { defer func() { sink(i) }() }
go $x.M()
defer $x.M()
defer $x.PM()
~ defer $x.Get()
delete($x, "k")
delete($x, 0)
delete($x, $y)
clear($x)
copy($x, $y)
copy(bs, $x)
~ copy($x, s)
~ copy($x[:], $y[:])
n := copy($x, $y[1:]) ;; sink(n)
$x++
~ $x--
$x += $y
~ $x -= 1
~ $x *= 2
~ $x /= $y
~ $x %= 2
~ $x &= $y
~ $x |= 1
~ $x ^= $y
~ $x <<= 1
~ $x >>= i
~ $x &^= $y
$x += "s"
~ $x = $x + $y
~ $x = -$x
~ $x = !$x
$x = $y
$x, $y = $y, $x
($x) = $y
($x)++
~ (($x)) += 1
(*$x) = *$y
~ (*$x)++
($x.A) = 1
($x[0]) = $x[1]
~ ($x[0])++
~ ($x["k"]) = 1
*$x = *$y
~ *$x++
~ *$x += 1
*$x = nil
*$x = append(*$x, 1)
$x.A = 1
~ $x.A++
$x.V = $y.V
~ $x.P = $y.P
$x.P = &$y
~ $x.P.A = 1
~ $x.Next = $y.Next
~ $x.St = $y.St
$x[0] = $x[1]
$x[i], $x[j] = $x[j], $x[i]
$x[0]++
$x["k"]++
$x["k"] = 1
~ $x[0] += 1
~ $x["k"] += 1
$x[0] = nil
~ $x["k"] = nil
v, ok := $x["k"] ;; sink(v, ok)
~ v, ok := $x[0] ;; sink(v, ok)
if _, ok := $x["k"]; ok { delete($x, "k") }
if _, ok := $x["k"]; !ok { $x["k"] = 1 }
~ if v, ok := $x["k"]; ok { sink(v) } else { sink(ok) }
$x[i] = append($x[i], 1)
~ $x["k"] = append($x["k"], 1)
$x = nil
$x = $x
$x = append($x, $y...)
$x = append($x)
_ = append($x, 1)
$x = append($x[:i], $x[i+1:]...)
$x = $x[:len($x)-1]
~ $x = $x[1:]
var v $T ;; sink(v)
var v $T = $x ;; sink(v)
~ var v, w $T = $x, $y ;; v, w = w, v ;; sink(v, w)
var v = $x ;; sink(&v)
var v $T ;; v = $x ;; sink(v)
var p *$T = &$x ;; sink(*p)
var p *$T ;; sink(*p)
~ var p *$T ;; if b { p = &$x } ;; sink(*p)
var z [2]$T ;; z[0] = $x ;; sink(z)
var z []$T ;; z = append(z, $x) ;; sink(z)
m := map[string]$T{} ;; m["a"] = $x ;; sink(m)
var m map[string]$T ;; m["a"] = $x
var z struct{ F $T } ;; z.F = $x ;; sink(z)
type L $T ;; sink(L($x))
type L = $T ;; var v L = $x ;; sink(v)
type L struct{ F $T } ;; sink(L{$x})
type L struct{ $T } ;; sink(L{$x})
~ type L []$T ;; sink(L{$x})
~ type L interface{ M() $T } ;; var v L ;; sink(v)
switch $x.(type) { case nil: ;; case int: sink(1) ;; case IfM, error: ;; default: }
switch v := $x.(type) { case nil: sink(v) ;; case int: sink(v + 1) ;; case IfM: sink(v.M()) ;; case *St, St: sink(v) ;; default: sink(v) }
switch v := any($x).(type) { case $T: sink(v) ;; case *$T: sink(*v) ;; case []$T: sink(len(v)) ;; case func() $T: sink(v()) ;; default: sink(v) }
switch any($x).(type) { case $T: }
switch v := a.(type) { case $T: sink(v) ;; case *$T, []$T: sink(v) }
switch $x := $x.(type) { case int: sink($x) ;; case error: sink($x.Error()) }
v, ok := $x.(IfM) ;; sink(v, ok)
if v, ok := $x.(interface{ M() int }); ok { sink(v.M()) }
if _, ok := $x.(error); ok { return }
v, ok := any($x).($T) ;; sink(v, ok)
_ = $x.(IfM)
~ _, _ = $x.(error)
switch $x { case $y: sink(1) ;; default: }
switch $x { case nil: }
switch { case $x == $y: ;; case $x != $y: }
switch $x { case 1, 2: ;; case 3: fallthrough ;; default: }
~ switch $x { case "a": ;; case "b", "c": }
switch v := $x; v { case $y: }
switch $x { case true: ;; case false: }
switch { case $x: }
switch $x { case $x: }
~ switch $x { case 1: ;; case 1 + 0: }
if $x { return }
if !$x { return }
if $x == true { return }
~ if $x { return } else { sink(1) }
for $x { }
~ for !$x { break }
if $x == nil { panic("nil") } ;; sink(*$x)
if $x == nil { sink($x.A) }
if $x != nil { sink(1) } ;; sink($x.A)
sink(*$x) ;; if $x == nil { sink(2) }
sink($x.A) ;; if $x != nil { sink(2) }
if $x == nil { sink(1) } ;; sink($x[0])
if $x == nil { $x["k"] = 1 }
if $x == nil { $x() }
if $x == nil { sink($x.M()) }
~ if $x == nil { $x.PM() }
if $x == nil { <-$x }
if $x == nil { close($x) }
if $x == nil { $x = $y } ;; sink(*$x)
~ if $x == nil && $y == nil { return } ;; sink(*$x, *$y)
if $x != nil && $x.A > 0 { sink(1) }
if $x == nil || $x.A > 0 { sink(1) }
~ if $x != nil || $x.A > 0 { sink(1) }
~ if $x == nil && $x.A > 0 { sink(1) }
var z $T ;; z["k"] = 1
var z $T ;; sink(z[0])
var z $T ;; sink(*z)
var z $T ;; z()
var z $T ;; z <- 0
var z $T ;; <-z
var z $T ;; close(z)
var z $T ;; for range z { }
var z $T ;; z.A = 1
var z $T ;; sink(z.M())
var z $T ;; z.PM()
~ var z $T ;; sink(z.Error())
var z $T ;; z = append(z, $x...) ;; sink(z)
panic($x)
for i := 0; i < $x; i++ { }
~ for i := $x; i > 0; i-- { }
~ for i := range $x { if i > $y { break } }
for $x > 0 { $x-- }
for $x != nil { $x = $x.P }
for p := $x; p != nil; p = p.P { sink(p.A) }
~ for p := $x; p != nil; p = p.Next { }
L: ;; for range $x { continue L }
L: ;; for i := range $x { for range $y { if i == j { break L } } }
L1: ;; L2: ;; for range $x { if b { continue L2 } ;; goto L1 }
L: ;; switch $x { case $y: break L }
L: ;; select { case <-$x: break L }
L: ;; switch $x.(type) { case int: break L }
f := $x.M ;; sink(f())
g := $T.M ;; sink(g($x))
h := (*$T).PM ;; sink(h(&$x))
~ f := $x.Get ;; sink(f())
f := $x ;; f()
$x = func() { } ;; $x()
~ $x = func(v int) int { return v } ;; sink($x(1))
~ $x = func(yield func(int) bool) { yield(1) }
$x = func(yield func(int) bool) { for i := range 3 { if !yield(i) { return } } }
for v := range $x { if v == $y { break } }
for range $x { defer func() { recover() }() }
for v := range $x { sink(v) ;; return }
~ for v := range $x { sink(v) ;; goto end } ;; end: ;; sink(1)
L: ;; for v := range $x { for w := range $y { sink(v, w) ;; continue L } }
~ for v := range $x { func() { sink(v) }() }
return
~ if b { return } ;; sink($x)
`)

var libCtxs = lib(append(exprs(`
fmt.Sprint($x)
fmt.Sprintf("%d", $x)
fmt.Sprintf("%s", $x)
fmt.Sprintf("%v %T", $x, $x)
fmt.Sprintf("%x", $x)
fmt.Sprintf("%p", $x)
fmt.Sprintf("%t", $x)
fmt.Sprintf("%q", $x)
fmt.Sprintf("%f", $x)
fmt.Sprintf("%c", $x)
fmt.Sprintf("%*d", $x, i)
fmt.Sprintf("%[2]d", i, $x)
fmt.Sprintf("%d %d", $x)
fmt.Sprintf("%#v", &$x)
fmt.Sprintf($x)
fmt.Sprintf($x, i)
fmt.Sprintf("%s", $x.Error())
fmt.Sprintf("%s", $x.M())
fmt.Sprintf("%d", $x...)
fmt.Errorf("e: %w", $x)
fmt.Errorf("e: %w %w", $x, e)
fmt.Sprintln($x, $y)
errors.Is($x, $y)
errors.Is(e, $x)
errors.As(e, $x)
errors.As(e, &$x)
errors.New($x)
errors.Unwrap($x)
errors.Join($x, $y)
strings.Contains($x, $y)
strings.Index($x, $y) != -1
strings.Compare($x, $y) == 0
strings.ToLower($x) == strings.ToLower($y)
strings.Replace($x, $y, $x, -1)
strings.TrimLeft($x, "abc")
strings.TrimLeft($x, $y)
strings.Split($x, $y)
strings.NewReplacer($x, $y)
strings.NewReplacer($x...)
strings.Map(func(r rune) rune { return r }, $x)
strings.Join($x, ",")
strings.Repeat($x, i)
strings.Fields(string($x))
strings.EqualFold(string($x), s)
strings.HasPrefix($x, $y)
strings.Title($x)
bytes.Equal($x, $y)
bytes.Compare($x, $y) == 0
bytes.Contains($x, $y)
bytes.NewBuffer($x).String()
bytes.NewBufferString($x).Bytes()
string(bytes.ToLower($x)) == string(bytes.ToLower($y))
sort.SearchInts($x, 1)
sort.IntSlice($x)
sort.Reverse(sort.IntSlice($x))
slices.Contains($x, $y[0])
slices.Index($x, $y[0])
slices.Equal($x, $y)
slices.Clone($x)
slices.Collect($x)
slices.Values($x)
slices.All($x)
slices.Sorted(maps.Keys($x))
slices.Collect(maps.Values($x))
slices.Max($x)
maps.Keys($x)
maps.Clone($x)
json.Marshal($x)
json.Marshal(&$x)
json.Unmarshal(bs, $x)
json.Unmarshal(bs, &$x)
json.NewEncoder(os.Stdout).Encode($x)
json.NewDecoder(os.Stdin).Decode($x)
json.NewDecoder(os.Stdin).Decode(&$x)
json.Valid($x)
xml.Marshal($x)
xml.Marshal(&$x)
xml.Unmarshal(bs, &$x)
xml.Unmarshal(bs, $x)
xml.NewEncoder(os.Stdout).Encode($x)
xml.NewDecoder(os.Stdin).Decode(&$x)
binary.Write(os.Stdout, binary.LittleEndian, $x)
binary.Write(os.Stdout, binary.LittleEndian, &$x)
binary.Read(os.Stdin, binary.BigEndian, &$x)
binary.Read(os.Stdin, binary.BigEndian, $x)
binary.Size($x)
reflect.DeepEqual($x, $y)
reflect.TypeOf($x)
reflect.ValueOf($x).IsNil()
reflect.ValueOf(&$x).Elem()
reflect.ValueOf($x).Pointer()
sync.Pool{New: func() any { return $x }}
atomic.AddInt64(&$x, 1)
atomic.LoadInt32(&$x)
atomic.AddInt64($x, 1)
atomic.LoadPointer(&$x)
atomic.CompareAndSwapInt64(&$x, $y, 1)
time.Duration($x)
time.Duration($x) * time.Second
time.Duration($x) * time.Millisecond / 1000
time.Since(time.Unix(int64($x), 0))
time.After(time.Duration($x))
time.NewTimer(time.Duration($x) * time.Nanosecond)
time.Tick(time.Duration($x))
time.Unix(0, int64($x)).Sub(time.Unix(0, int64($y)))
strconv.Itoa($x)
strconv.Itoa(int($x))
strconv.FormatInt(int64($x), 10)
strconv.FormatUint(uint64($x), 2)
strconv.ParseInt($x, 10, 64)
strconv.ParseInt($x, 10, 65)
strconv.Atoi($x)
strconv.Quote(string($x))
regexp.MustCompile($x)
regexp.MatchString($x, $y)
regexp.MustCompile($x).FindAll($y, -1)
regexp.MustCompile("a(").Match($x)
os.Getenv($x)
os.Open($x)
os.WriteFile($x, bs, 0644)
io.WriteString(os.Stdout, $x)
io.ReadAll($x)
io.Copy(os.Stdout, $x)
os.Stdout.Write($x)
os.Stdout.Write([]byte($x))
os.Stdout.WriteString(string($x))
io.WriteString(os.Stdout, fmt.Sprintf("%v", $x))
context.WithValue(context.Background(), $x, $y)
context.WithValue(context.Background(), "k", $x)
context.WithTimeout(context.Background(), time.Duration($x))
math.Abs($x)
math.Pow($x, 2)
math.Sqrt(float64($x))
math.Float64bits($x)
math.IsNaN(float64($x))
$x > math.MaxInt32
$x <= math.MaxUint8
$x < math.MinInt64
$x == math.NaN()
uint64($x) > math.MaxUint64
int(math.Floor(float64($x)))
`), stmts(`
fmt.Println($x)
fmt.Printf("%d\n", $x)
fmt.Printf("%s %v\n", $x, $y)
fmt.Print($x, "\n")
fmt.Fprint(os.Stdout, $x)
fmt.Fprintf(os.Stderr, "%v", $x)
fmt.Sscan(s, $x)
fmt.Sscan(s, &$x)
fmt.Sscanf(s, "%d", &$x)
fmt.Sscanf(s, "%d", $x)
fmt.Println(fmt.Sprintf("%v", $x))
sort.Slice($x, func(i, j int) bool { return i < j })
sort.Slice($x, func(i, j int) bool { return $x[i] < $x[j] })
sort.SliceStable($x, func(i, j int) bool { return false })
sort.Sort(sort.IntSlice($x))
sort.Ints($x)
sort.Strings($x)
sort.Sort($x)
$x = sort.StringSlice($x)
slices.Sort($x)
slices.SortFunc($x, func(a, b int) int { return a - b })
slices.Reverse($x)
for k := range maps.Keys($x) { sink(k) }
for i, v := range slices.All($x) { sink(i, v) }
for v := range slices.Values($x) { sink(v) }
var mu sync.Mutex ;; mu.Lock() ;; defer mu.Unlock() ;; sink($x)
var mu sync.Mutex ;; mu.Lock() ;; sink($x) ;; mu.Unlock()
var mu sync.RWMutex ;; mu.RLock() ;; defer mu.RLock() ;; sink($x)
var wg sync.WaitGroup ;; go func() { wg.Add(1) ;; sink($x) ;; wg.Done() }() ;; wg.Wait()
var wg sync.WaitGroup ;; for v := range $x { wg.Add(1) ;; go func() { defer wg.Done() ;; sink(v) }() } ;; wg.Wait()
var once sync.Once ;; once.Do($x)
var p sync.Pool ;; p.Put($x)
var p sync.Pool ;; p.Put(&$x)
var p sync.Pool ;; v := p.Get().($T) ;; sink(v)
$x = atomic.AddInt64(&$x, 1)
var v atomic.Value ;; v.Store($x) ;; sink(v.Load().($T))
var ap atomic.Pointer[$T] ;; ap.Store(&$x) ;; sink(ap.Load())
var m sync.Map ;; m.Store($x, $y) ;; v, ok := m.Load($x) ;; sink(v, ok)
time.Sleep($x)
time.Sleep(time.Duration($x) * time.Second)
time.Sleep(time.Duration($x))
for range time.Tick(time.Duration($x)) { }
select { case <-time.After(time.Duration($x)): ;; case <-$y: }
t := time.NewTimer(time.Second) ;; select { case <-t.C: ;; case v := <-$x: sink(v) }
if err := json.Unmarshal(bs, &$x); err != nil { return }
if err, ok := e.($T); ok { sink(err) }
if errors.Is(e, $x) { return }
if e == $x { return }
if e != nil && e.Error() == $x { return }
switch e { case $x: ;; case $y: }
switch e.(type) { case $T: ;; case *$T: }
defer os.Remove($x)
if _, err := os.Stat($x); os.IsNotExist(err) { return }
f, err := os.Open($x) ;; defer f.Close() ;; if err != nil { return }
ctx, cancel := context.WithCancel(context.Background()) ;; defer cancel() ;; select { case <-ctx.Done(): ;; case v := <-$x: sink(v) }
ctx, _ := context.WithTimeout(context.Background(), time.Duration($x)) ;; <-ctx.Done()
var sb strings.Builder ;; sb.WriteString(fmt.Sprintf("%v", $x)) ;; sink(sb.String())
var sb strings.Builder ;; for _, v := range $x { sb.WriteString(string(v)) } ;; sink(sb.String())
var buf bytes.Buffer ;; buf.Write($x) ;; sink(buf.String())
var buf bytes.Buffer ;; fmt.Fprintf(&buf, "%v", $x) ;; sink(buf.Bytes())
r := strings.NewReader($x) ;; sink(io.ReadAll(r))
if strings.Index($x, $y) == -1 { return }
if strings.HasPrefix($x, $y) { $x = $x[len($y):] }
if strings.HasPrefix($x, $y) { $x = strings.TrimPrefix($x, $y) }
if bytes.HasPrefix($x, $y) { $x = $x[len($y):] }
for _, r := range []rune($x) { sink(r) }
for i, c := range []byte($x) { sink(i, c) }
for _, r := range string($x) { sink(r) }
re := regexp.MustCompile($x) ;; for range $y { sink(re.MatchString(s)) }
for range $y { sink(regexp.MustCompile($x)) }
v := reflect.ValueOf($x) ;; if v.Kind() == reflect.Ptr && v.IsNil() { return }
`)...))
