package main

import "strings"

// Grid (d): declaration forms x operand kinds. A candidate is a group of top-level
// declarations; $n makes names unique, $T is the kind's type, $[TP] the type parameter
// list in declaration form ("" or "[P C, E any]"), $[TA] in use form ("" or "[P, E]").
// Templates that contain neither $[TP] nor $[TA] are only instantiated for kinds
// without type parameters.
var declTemplates = func() []StmtT {
	var out []StmtT
	for _, l := range strings.Split(declList, "\n") {
		l = strings.TrimSpace(l)
		if l == "" {
			continue
		}
		out = append(out, StmtT{Name: "d:" + l, T: strings.ReplaceAll(l, " ;; ", "\n")})
	}
	return out
}()

const declList = `
// D$n is a type. ;; type D$n$[TP] $T
type D$n$[TP] $T ;; func (r D$n$[TA]) Get() $T { return $T(r) }
type D$n$[TP] $T ;; func (r *D$n$[TA]) Ptr() *D$n$[TA] { return r }
type D$n$[TP] $T ;; func (D$n$[TA]) Anon() {}
type D$n$[TP] $T ;; func (*D$n$[TA]) AnonP() {}
type D$n$[TP] $T ;; func (_ D$n$[TA]) Blank() {}
type D$n$[TP] $T ;; func (r (D$n$[TA])) Paren() {}
type D$n$[TP] $T ;; func (r (*D$n$[TA])) ParenP() {}
type D$n$[TP] $T ;; func (r *(D$n$[TA])) PParen() {}
type D$n$[TP] $T ;; // Exported does things. ;; func (r ((D$n$[TA]))) Exported() {}
type D$n$[TP] $T ;; func (r D$n$[TA]) String() string { return "" } ;; func (r D$n$[TA]) Error() string { return r.String() }
type D$n$[TP] $T ;; func (r D$n$[TA]) Len() int { return len(r) } ;; func (r D$n$[TA]) Less(i, j int) bool { return i < j } ;; func (r D$n$[TA]) Swap(i, j int) { r[i], r[j] = r[j], r[i] }
type D$n$[TP] $T ;; func (r D$n$[TA]) unusedMethod() {} ;; func unusedFunc$n$[TP](r D$n$[TA]) {}
type D$n$[TP] $T ;; func (r D$n$[TA]) MarshalJSON() ([]byte, error) { return nil, nil } ;; func (r *D$n$[TA]) UnmarshalJSON([]byte) error { return nil }
type D$n$[TP] = $T ;; var V$n D$n[int]
type D$n = $T
type D$n = $T ;; type E$n struct{ D$n }
type D$n = $T ;; type E$n struct{ *D$n }
type D$n$[TP] struct{ F $T }
type D$n$[TP] struct { ;; F $T ;; G []$T ;; H map[string]$T ;; I *$T ;; J func($T) $T ;; K chan $T ;; }
type D$n$[TP] struct{ $T }
type D$n$[TP] struct{ *$T }
type D$n$[TP] struct { ;; $T ;; n int ;; } ;; func (d D$n$[TA]) N() int { return d.n }
type d$n$[TP] struct { ;; f $T ;; g $T ;; } ;; func newD$n$[TP](v $T) *d$n$[TA] { return &d$n$[TA]{f: v} }
type D$n$[TP] struct { ;; F $T ` + "`json:\"f\"`" + ` ;; G $T ` + "`json:\"g,omitempty\" xml:\"g,attr\"`" + ` ;; H $T ` + "`json:\",string\"`" + ` ;; }
type D$n$[TP] struct { ;; F $T ` + "`json:\"f\"`" + ` ;; G $T ` + "`json:\"f\"`" + ` ;; h $T ` + "`json:\"h\"`" + ` ;; }
type D$n$[TP] struct { ;; _ $T ;; F, G $T ;; _ [0]func() ;; }
type D$n$[TP] struct{ F $T } ;; func (d D$n$[TA]) Get() $T { return d.F } ;; func (d *D$n$[TA]) Set(v $T) { d.F = v } ;; func (d D$n$[TA]) SetV(v $T) { d.F = v }
type D$n$[TP] struct{ F *D$n$[TA]; V $T }
type D$n$[TP] interface{ M() $T }
type D$n$[TP] interface{ M(v $T, w ...$T) (r $T, err error) }
type D$n$[TP] interface{ ~int | $T }
type D$n$[TP] interface{ $T } ;; func U$n[Q D$n$[TA]$[,TP]](q Q) Q { return q }
type D$n$[TP] interface { ;; $T ;; M() int ;; }
type D$n$[TP] interface { ;; IfM ;; N() $T ;; }
type D$n$[TP] func($T) $T
type D$n$[TP] func(yield func($T) bool)
type D$n$[TP] map[string]$T ;; func (d D$n$[TA]) Get(k string) $T { return d[k] }
type D$n$[TP] []$T ;; func (d D$n$[TA]) All() iter.Seq[$T] { return func(yield func($T) bool) { for _, v := range d { if !yield(v) { return } } } }
type D$n$[TP] chan $T
type D$n$[TP] *$T
type D$n$[TP] [2]$T
type D$n[Q any] struct { ;; F $T ;; G Q ;; } ;; func (d D$n[Q]) Get() Q { return d.G } ;; func (d *D$n[_]) Ptr() {}
type D$n[Q any, R comparable] struct { ;; F $T ;; G map[R]Q ;; } ;; func (d D$n[A, B]) Get(k B) A { return d.G[k] } ;; var V$n D$n[int, string]
type D$n[Q interface{ $T }] struct{ F Q }
type D$n[Q ~[]R, R interface{ $T }] struct{ F Q }
var V$n $T
var V$n, W$n $T
var V$n = func() $T { var z $T; return z }()
var V$n $T = W$n ;; var W$n $T
var ( ;; V$n $T ;; W$n = V$n ;; _ = W$n ;; )
var _ $T
var _ = [...]$T{}
var _ = map[string]$T{}
var v$n $T ;; func Get$n() $T { return v$n } ;; func init() { sink(v$n) }
var v$n, w$n $T ;; func init() { v$n, w$n = w$n, v$n }
var V$n = new($T)
var V$n = &D$n{} ;; type D$n struct{ F $T }
var V$n *$T ;; func Get$n() $T { return *V$n }
var V$n *$T ;; func Get$n() $T { if V$n == nil { return *new($T) } ;; return *V$n }
var V$n struct{ F $T } ;; func Get$n() $T { return V$n.F }
var V$n []$T ;; func Get$n() []$T { if V$n == nil { return nil } ;; return V$n }
var V$n map[string]$T ;; func Get$n() $T { return V$n["k"] }
var V$n func() $T ;; func Get$n() $T { return V$n() }
var V$n chan $T ;; func Get$n() $T { return <-V$n }
const C$n $T = 1
const C$n $T = "c"
const C$n = $T(1)
const C$n $T = true
const C$n $T = 1.5
const ( ;; C$n $T = iota ;; CC$n ;; _ ;; CCC$n ;; )
const ( ;; C$n $T = 1 << iota ;; CC$n ;; )
const ( ;; C$n $T = "a" ;; CC$n ;; )
const ( ;; C$n $T = iota ;; CC$n ;; ) ;; func (c $T) String() string { return "" }
const ( ;; C$n $T = iota + 1 ;; CC$n = C$n * 2 ;; cc$n ;; )
func F$n$[TP](v ...$T) []$T { return v }
func F$n$[TP](_ $T, _ int) {}
func F$n$[TP]() (r $T, err error) { return }
func F$n$[TP]($T) {}
func F$n$[TP](v $T) (_ $T) { return v }
func F$n$[TP](v $T) $T { return v }
func F$n$[TP](v *$T) $T { return *v }
func F$n$[TP](v *$T) $T { if v == nil { var z $T; return z } ;; return *v }
func F$n$[TP](v $T) *$T { return &v }
func F$n$[TP](v $T) *$T { if cond() { return nil } ;; return &v }
func F$n$[TP](v $T) any { return v }
func F$n$[TP](v $T) any { if cond() { return nil } ;; return v }
func F$n$[TP](v $T) (any, error) { return v, nil }
func F$n$[TP](v $T) error { return v }
func F$n$[TP](v $T) error { if cond() { return nil } ;; return v }
func F$n$[TP](v *$T) error { return v }
func F$n$[TP](v *$T) IfM { return v }
func F$n$[TP](v $T) IfM { return v }
func F$n$[TP](v $T) func() $T { return func() $T { return v } }
func F$n$[TP](v $T) []$T { return []$T{v} }
func F$n$[TP](v $T) map[string]$T { return map[string]$T{"k": v} }
func F$n$[TP](v $T) chan $T { c := make(chan $T, 1); c <- v; return c }
func F$n$[TP](v $T) iter.Seq[$T] { return func(yield func($T) bool) { yield(v) } }
func F$n$[TP](v $T) (r $T) { defer func() { recover() }() ;; return v }
func F$n$[TP](v $T) (r $T) { defer func() { if x := recover(); x != nil { r = v } }() ;; panic(v) }
func F$n$[TP](v $T) (r any) { defer func() { r = recover() }() ;; panic(v) }
func F$n$[TP](v $T) $T { return F$n(v) }
func F$n$[TP](v $T) $T { return F$n$[TA](v) }
func F$n$[TP](v $T) $T { if cond() { return v } ;; return G$n(v) } ;; func G$n$[TP](v $T) $T { return F$n(v) }
func F$n$[TP](f func($T) $T, v $T) $T { return f(f(v)) }
func F$n$[TP](v $T) unsafe.Pointer { return unsafe.Pointer(&v) }
func F$n$[TP](v $T) unsafe.Pointer { return unsafe.Pointer(v) }
func F$n$[TP](v, w $T) ($T, $T) { return w, v }
func F$n$[TP]() $T { var z $T; return z }
func F$n$[TP]() $T { return *new($T) }
func F$n$[TP]() $T { return nil }
func F$n$[TP]() $T { return $T{} }
func F$n$[TP]() $T { return make($T) }
func F$n$[TP]() $T { return make($T, 1) }
func F$n$[TP]() *$T { return new($T) }
func F$n$[TP]() *$T { return nil }
func F$n$[TP]() *$T { return &$T{} }
func F$n$[TP]() $T { panic("no") }
func F$n$[TP]() $T { for { } }
func F$n$[TP]() $T { select { } }
func F$n$[TP](a any) $T { return a.($T) }
func F$n$[TP](a any) $T { v, _ := a.($T); return v }
func F$n$[TP](a any) ($T, bool) { v, ok := a.($T); return v, ok }
func F$n$[TP](a any) *$T { return a.(*$T) }
func F$n$[TP](a any) *$T { if v, ok := a.(*$T); ok { return v } ;; return nil }
func F$n$[TP](m map[string]$T) $T { return m["k"] }
func F$n$[TP](m map[string]$T) ($T, bool) { v, ok := m["k"]; return v, ok }
func F$n$[TP](c chan $T) $T { return <-c }
func F$n$[TP](c chan $T) ($T, bool) { v, ok := <-c; return v, ok }
func F$n$[TP](s []$T) $T { return s[0] }
func F$n$[TP](s []$T) *$T { return &s[0] }
func F$n$[TP](s []$T) *$T { for i := range s { return &s[i] } ;; return nil }
func F$n$[TP](s *[4]$T) *$T { return &s[0] }
func F$n$[TP](s *struct{ F $T }) *$T { return &s.F }
func F$n$[TP](s *struct{ F $T }) $T { return s.F }
func F$n$[TP](s struct{ F *$T }) *$T { return s.F }
func F$n$[TP](s []$T) []$T { return s[1:] }
func F$n$[TP](s []$T) []$T { return append(s, s...) }
func F$n$[TP](s []$T) [4]$T { return [4]$T(s) }
func F$n$[TP](s []$T) *[4]$T { return (*[4]$T)(s) }
func F$n$[TP](s []$T) *[0]$T { return (*[0]$T)(s) }
func F$n$[TP](f func() $T) $T { return f() }
func F$n$[TP](f func() *$T) *$T { return f() }
func F$n$[TP](f func() ($T, error)) ($T, error) { return f() }
func F$n$[TP](f func() ($T, error)) $T { v, err := f() ;; if err != nil { panic(err) } ;; return v }
func F$n$[TP](v, w $T) $T { if cond() { return v } ;; return w }
func F$n$[TP](v, w *$T) *$T { if v != nil { return v } ;; return w }
func F$n$[TP](v, w *$T) *$T { if v == nil { v = w } ;; return v }
func F$n$[TP](v *$T) *$T { for v == nil { v = new($T) } ;; return v }
func F$n$[TP](v *$T) *$T { switch { case v == nil: return new($T) ;; default: return v } }
func F$n$[TP](s iter.Seq[$T]) $T { for v := range s { return v } ;; panic("empty") }
func F$n$[TP](s iter.Seq[*$T]) *$T { for v := range s { if v != nil { return v } } ;; return nil }
`
