// c10filter drives the real directive handling of /repo in-process (property C10).
//
// It reads the line protocol of lean/Verif/C10/Driver.lean from stdin and answers every
// line with the canonicalised result of the real code:
//
//	glob  -> path/filepath.Match (error discarded, as the callers in /repo do)
//	lower -> strings.ToLower
//	pd    -> analysis/lint.ParseDirectives on a one-declaration file carrying the comment
//	sup   -> lintcmd.parseDirectives + (line|file)Ignore.match   (via verif hook)
//	fi    -> lintcmd.success? + lintcmd.filterIgnored            (via verif hook)
//	u1k   -> unused.Graph + SerializedGraph.Results on a synthetic package (no hook)
//	pdf   -> analysis/lint.ParseDirectives + runner.serializeDirective (via verif hook) on a
//	         whole generated source file: the SerializedDirectives of the file, in comment order
//	src   -> (no code of /repo) the facts go/ast.NewCommentMap reads of the same file — node list
//	         in ast.Inspect order, comment groups, raw and //line-adjusted positions — in the
//	         input format of the model's op `att`
package main

import (
	"bufio"
	"encoding/hex"
	"errors"
	"fmt"
	"go/parser"
	"go/token"
	"go/types"
	"os"
	"path/filepath"
	"sort"
	"strconv"
	"strings"

	"go/ast"

	"honnef.co/go/tools/analysis/facts/generated"
	"honnef.co/go/tools/analysis/lint"
	"honnef.co/go/tools/lintcmd"
	"honnef.co/go/tools/lintcmd/runner"
	"honnef.co/go/tools/simple"
	"honnef.co/go/tools/staticcheck"
	"honnef.co/go/tools/stylecheck"
	"honnef.co/go/tools/unused"
)

var errBad = errors.New("bad-op")

type toks struct {
	t []string
}

func (t *toks) next() (string, error) {
	if len(t.t) == 0 {
		return "", errBad
	}
	s := t.t[0]
	t.t = t.t[1:]
	return s, nil
}

func (t *toks) str() (string, error) {
	s, err := t.next()
	if err != nil {
		return "", err
	}
	if s == "-" {
		return "", nil
	}
	b, err := hex.DecodeString(s)
	if err != nil {
		return "", errBad
	}
	return string(b), nil
}

func (t *toks) nat() (int, error) {
	s, err := t.next()
	if err != nil {
		return 0, err
	}
	n, err := strconv.Atoi(s)
	if err != nil || n < 0 {
		return 0, errBad
	}
	return n, nil
}

func (t *toks) pos() (token.Position, error) {
	f, err := t.str()
	if err != nil {
		return token.Position{}, err
	}
	l, err := t.nat()
	if err != nil {
		return token.Position{}, err
	}
	c, err := t.nat()
	if err != nil {
		return token.Position{}, err
	}
	return token.Position{Filename: f, Line: l, Column: c}, nil
}

func (t *toks) strs() ([]string, error) {
	n, err := t.nat()
	if err != nil {
		return nil, err
	}
	var out []string
	for i := 0; i < n; i++ {
		s, err := t.str()
		if err != nil {
			return nil, err
		}
		out = append(out, s)
	}
	return out, nil
}

func (t *toks) directive() (runner.SerializedDirective, error) {
	var d runner.SerializedDirective
	var err error
	if d.Command, err = t.str(); err != nil {
		return d, err
	}
	if d.Arguments, err = t.strs(); err != nil {
		return d, err
	}
	if d.DirectivePosition, err = t.pos(); err != nil {
		return d, err
	}
	if d.NodePosition, err = t.pos(); err != nil {
		return d, err
	}
	return d, nil
}

func (t *toks) diag() (runner.Diagnostic, string, error) {
	var d runner.Diagnostic
	var err error
	if d.Position, err = t.pos(); err != nil {
		return d, "", err
	}
	if d.Category, err = t.str(); err != nil {
		return d, "", err
	}
	if d.Message, err = t.str(); err != nil {
		return d, "", err
	}
	sev, err := t.next()
	if err != nil {
		return d, "", err
	}
	return d, sev, nil
}

func hexs(s string) string {
	if s == "" {
		return "-"
	}
	return hex.EncodeToString([]byte(s))
}

func b2s(b bool) string {
	if b {
		return "1"
	}
	return "0"
}

func sev(s string) string {
	switch s {
	case "error":
		return "e"
	case "warning":
		return "w"
	case "ignored":
		return "i"
	}
	return "?" + s
}

func step(line string) (string, error) {
	t := &toks{strings.Fields(line)}
	op, err := t.next()
	if err != nil {
		return "", err
	}
	switch op {
	case "glob":
		p, err := t.str()
		if err != nil {
			return "", err
		}
		n, err := t.str()
		if err != nil {
			return "", err
		}
		// as lineIgnore.match / fileIgnore.match / unused do: the error (ErrBadPattern) is discarded
		m, _ := filepath.Match(p, n)
		return b2s(m), nil
	case "lower":
		s, err := t.str()
		if err != nil {
			return "", err
		}
		return hexs(strings.ToLower(s)), nil
	case "pd":
		text, err := t.str()
		if err != nil {
			return "", err
		}
		src := "package p\n\n" + text + "\nvar X = 1\n"
		fset := token.NewFileSet()
		f, perr := parser.ParseFile(fset, "x.go", src, parser.ParseComments)
		if perr != nil {
			return "parse-error", nil
		}
		dirs := lint.ParseDirectives([]*ast.File{f}, fset)
		if len(dirs) == 0 {
			return "none", nil
		}
		if len(dirs) > 1 {
			return "many", nil
		}
		out := []string{hexs(dirs[0].Command), strconv.Itoa(len(dirs[0].Arguments))}
		for _, a := range dirs[0].Arguments {
			out = append(out, hexs(a))
		}
		return strings.Join(out, " "), nil
	case "sup":
		d, err := t.directive()
		if err != nil {
			return "", err
		}
		file, err := t.str()
		if err != nil {
			return "", err
		}
		ln, err := t.nat()
		if err != nil {
			return "", err
		}
		cat, err := t.str()
		if err != nil {
			return "", err
		}
		if len(t.t) != 0 {
			return "", errBad
		}
		return b2s(lintcmd.VerifC10Suppresses(d, file, ln, cat)), nil
	case "fi":
		succ, err := t.nat()
		if err != nil || succ > 1 {
			return "", errBad
		}
		allowed, err := t.strs()
		if err != nil {
			return "", err
		}
		nd, err := t.nat()
		if err != nil {
			return "", err
		}
		var diags []runner.Diagnostic
		for i := 0; i < nd; i++ {
			d, s, err := t.diag()
			if err != nil {
				return "", err
			}
			if s != "e" {
				// the real entry point starts from fresh diagnostics (severity zero value)
				return "", errBad
			}
			diags = append(diags, d)
		}
		ndir, err := t.nat()
		if err != nil {
			return "", err
		}
		var dirs []runner.SerializedDirective
		for i := 0; i < ndir; i++ {
			d, err := t.directive()
			if err != nil {
				return "", err
			}
			dirs = append(dirs, d)
		}
		if len(t.t) != 0 {
			return "", errBad
		}
		out, ferr := lintcmd.VerifC10FilterIgnored(diags, dirs, allowed, succ == 1)
		if ferr != nil {
			return "error", nil
		}
		parts := []string{strconv.Itoa(len(out))}
		for _, d := range out {
			parts = append(parts, hexs(d.Position.Filename), strconv.Itoa(d.Position.Line), strconv.Itoa(d.Position.Column),
				hexs(d.Category), hexs(d.Message), sev(d.Severity))
		}
		return strings.Join(parts, " "), nil
	case "pdf", "src":
		text, err := t.str()
		if err != nil || len(t.t) != 0 {
			return "", errBad
		}
		if op == "pdf" {
			return pdf(text), nil
		}
		return srcFacts(text), nil
	case "u1k":
		nfiles, err := t.nat()
		if err != nil {
			return "", err
		}
		nlines, err := t.nat()
		if err != nil {
			return "", err
		}
		ndir, err := t.nat()
		if err != nil {
			return "", err
		}
		var dirs []runner.SerializedDirective
		for i := 0; i < ndir; i++ {
			d, err := t.directive()
			if err != nil {
				return "", err
			}
			dirs = append(dirs, d)
		}
		if len(t.t) != 0 || nfiles > 8 || nlines > 64 {
			return "", errBad
		}
		return u1k(nfiles, nlines, dirs)
	}
	return "", errBad
}

// u1k runs the real U1000 graph (unused.Graph, the entry point the analyzer's run function
// uses, with DefaultOptions) on a synthetic package: files f<i>.go, each with one unexported,
// otherwise unused declaration on every line 3 … nlines+2 (var, const, func, type in turn).
// The directives are attached to the declaration that starts on their node line, as
// lint.ParseDirectives would have done for a comment directly above it.  It prints the
// declarations that end up used.
func u1k(nfiles, nlines int, sdirs []runner.SerializedDirective) (string, error) {
	fset := token.NewFileSet()
	var files []*ast.File
	byPos := map[[2]string]ast.Node{}
	for f := 0; f < nfiles; f++ {
		var b strings.Builder
		b.WriteString("package p\n\n")
		for l := 3; l < nlines+3; l++ {
			switch l % 4 {
			case 0:
				fmt.Fprintf(&b, "var v%d_%d = 0\n", f, l)
			case 1:
				fmt.Fprintf(&b, "const c%d_%d = 0\n", f, l)
			case 2:
				fmt.Fprintf(&b, "func f%d_%d() {}\n", f, l)
			default:
				fmt.Fprintf(&b, "type t%d_%d int\n", f, l)
			}
		}
		name := fmt.Sprintf("f%d.go", f)
		af, err := parser.ParseFile(fset, name, b.String(), parser.ParseComments)
		if err != nil {
			return "parse-error", nil
		}
		files = append(files, af)
		for _, d := range af.Decls {
			byPos[[2]string{name, strconv.Itoa(fset.Position(d.Pos()).Line)}] = d
		}
	}
	info := &types.Info{
		Types:      map[ast.Expr]types.TypeAndValue{},
		Defs:       map[*ast.Ident]types.Object{},
		Uses:       map[*ast.Ident]types.Object{},
		Implicits:  map[ast.Node]types.Object{},
		Selections: map[*ast.SelectorExpr]*types.Selection{},
		Scopes:     map[ast.Node]*types.Scope{},
		Instances:  map[*ast.Ident]types.Instance{},
	}
	pkg, err := (&types.Config{}).Check("example.com/p", fset, files, info)
	if err != nil {
		return "type-error", nil
	}
	var dirs []lint.Directive
	for _, sd := range sdirs {
		n, ok := byPos[[2]string{sd.NodePosition.Filename, strconv.Itoa(sd.NodePosition.Line)}]
		if !ok {
			return "", errBad
		}
		dirs = append(dirs, lint.Directive{Command: sd.Command, Arguments: sd.Arguments, Node: n})
	}
	nodes := unused.Graph(fset, files, pkg, info, dirs, map[string]generated.Generator{}, unused.DefaultOptions)
	var sg unused.SerializedGraph
	sg.Merge(nodes)
	res := sg.Results()
	type fl struct {
		file string
		line int
	}
	var used []fl
	seen := map[fl]bool{}
	for _, o := range res.Used {
		k := fl{o.Position.Filename, o.Position.Line}
		if _, ok := byPos[[2]string{k.file, strconv.Itoa(k.line)}]; ok && !seen[k] {
			seen[k] = true
			used = append(used, k)
		}
	}
	for _, o := range res.Unused {
		if seen[fl{o.Position.Filename, o.Position.Line}] {
			return "used-and-unused", nil
		}
	}
	if len(res.Used)+len(res.Unused) < nfiles*nlines {
		return "objects-missing", nil
	}
	sort.Slice(used, func(i, j int) bool {
		if used[i].file != used[j].file {
			return used[i].file < used[j].file
		}
		return used[i].line < used[j].line
	})
	out := []string{strconv.Itoa(len(used))}
	for _, k := range used {
		out = append(out, hexs(k.file), strconv.Itoa(k.line))
	}
	return strings.Join(out, " "), nil
}

// The generated file is parsed under this name; relative file names of //line directives are
// resolved against its directory by go/scanner, and only base names are printed.
const srcName = "/c10/x.go"

func posStr(p token.Position) string {
	return hexs(filepath.Base(p.Filename)) + " " + strconv.Itoa(p.Line) + " " + strconv.Itoa(p.Column)
}

// pdf: the real lint.ParseDirectives followed by the real runner.serializeDirective.
func pdf(text string) string {
	fset := token.NewFileSet()
	f, err := parser.ParseFile(fset, srcName, text, parser.ParseComments)
	if err != nil {
		return "parse-error"
	}
	dirs := lint.ParseDirectives([]*ast.File{f}, fset)
	// the comment map is a Go map: the order of the result is not specified
	sort.SliceStable(dirs, func(i, j int) bool { return dirs[i].Directive.Pos() < dirs[j].Directive.Pos() })
	out := []string{strconv.Itoa(len(dirs))}
	for _, d := range dirs {
		sd := runner.VerifC10SerializeDirective(d, fset)
		out = append(out, hexs(sd.Command), strconv.Itoa(len(sd.Arguments)))
		for _, a := range sd.Arguments {
			out = append(out, hexs(a))
		}
		out = append(out, posStr(sd.DirectivePosition), posStr(sd.NodePosition))
	}
	return strings.Join(out, " ")
}

// srcFacts prints what go/ast.NewCommentMap(fset, f, f.Comments) reads: the nodes in the
// order of ast.Inspect without comments (go/ast.nodeList), for each Pos/End offsets, the
// position of Pos() raw and adjusted, the adjusted line of End() and whether the node is a
// *File, *Field, Decl, Spec or Stmt; and the comment groups with the same data per comment.
func srcFacts(text string) string {
	fset := token.NewFileSet()
	f, err := parser.ParseFile(fset, srcName, text, parser.ParseComments)
	if err != nil {
		return "parse-error"
	}
	names := []string{}
	idx := map[string]int{}
	name := func(n string) string {
		n = filepath.Base(n)
		i, ok := idx[n]
		if !ok {
			i = len(names)
			idx[n] = i
			names = append(names, n)
		}
		return strconv.Itoa(i)
	}
	bad := false
	srcpos := func(p token.Pos) string {
		if !p.IsValid() {
			bad = true
			return ""
		}
		raw := fset.PositionFor(p, false)
		adj := fset.PositionFor(p, true)
		return name(raw.Filename) + " " + strconv.Itoa(raw.Line) + " " + strconv.Itoa(raw.Column) + " " +
			name(adj.Filename) + " " + strconv.Itoa(adj.Line) + " " + strconv.Itoa(adj.Column)
	}
	off := func(p token.Pos) string {
		if !p.IsValid() {
			bad = true
			return "0"
		}
		return strconv.Itoa(fset.PositionFor(p, false).Offset)
	}
	var nodes []string
	ast.Inspect(f, func(n ast.Node) bool {
		switch n.(type) {
		case nil, *ast.CommentGroup, *ast.Comment:
			return false
		}
		imp := "0"
		switch n.(type) {
		case *ast.File, *ast.Field, ast.Decl, ast.Spec, ast.Stmt:
			imp = "1"
		}
		nodes = append(nodes, off(n.Pos())+" "+off(n.End())+" "+srcpos(n.Pos())+" "+strconv.Itoa(fset.Position(n.End()).Line)+" "+imp)
		return true
	})
	var groups []string
	for _, cg := range f.Comments {
		g := []string{strconv.Itoa(len(cg.List))}
		for _, c := range cg.List {
			g = append(g, off(c.Pos()), off(c.End()), srcpos(c.Pos()), strconv.Itoa(fset.Position(c.End()).Line), hexs(c.Text))
		}
		groups = append(groups, strings.Join(g, " "))
	}
	if bad {
		return "nopos"
	}
	out := []string{"att", strconv.Itoa(len(names))}
	for _, n := range names {
		out = append(out, hexs(n))
	}
	out = append(out, strconv.Itoa(len(nodes)))
	out = append(out, nodes...)
	out = append(out, strconv.Itoa(len(groups)))
	out = append(out, groups...)
	return strings.Join(out, " ")
}

// nonDefault prints the names of the analyzers of cmd/staticcheck that are not enabled by
// default (lintcmd derives the default -checks value from this flag).
func nonDefault() {
	var as []*lint.Analyzer
	as = append(as, simple.Analyzers...)
	as = append(as, staticcheck.Analyzers...)
	as = append(as, stylecheck.Analyzers...)
	as = append(as, unused.Analyzer)
	for _, a := range as {
		if a.Doc.NonDefault {
			fmt.Println(a.Analyzer.Name)
		}
	}
}

func main() {
	if len(os.Args) > 1 && os.Args[1] == "-nondefault" {
		nonDefault()
		return
	}
	// unused.(*SerializedGraph).Merge traces every node to os.Stderr; nothing here reads it
	// (a panic of the runtime still reaches file descriptor 2)
	if devnull, err := os.OpenFile(os.DevNull, os.O_WRONLY, 0); err == nil {
		os.Stderr = devnull
	}
	in := bufio.NewReaderSize(os.Stdin, 1<<20)
	out := bufio.NewWriterSize(os.Stdout, 1<<20)
	defer out.Flush()
	for {
		line, err := in.ReadString('\n')
		if line == "" && err != nil {
			break
		}
		line = strings.TrimRight(line, "\n")
		res, serr := step(line)
		if serr != nil {
			res = "bad-op"
		}
		fmt.Fprintln(out, res)
		if err != nil {
			break
		}
	}
}
