// c17run runs the REAL honnef.co/go/tools/unused analyzer in-process on the packages
// named by job lines (JSON, one per line on stdin) and prints one JSON line per job: the
// use/own graph the real code dumped through unused.Debug (nodes in creation order with
// kind/name/position, use and own edges in list order), the colour the real code gave
// every node, and whether unused.Result is the partition of the nodes by those colours.
//
// The caller chooses the order of the files and permutes top-level declarations at the
// SOURCE level (generated packages: declaration strings; packages on disk: `c17run -split`
// cuts every file into header + one chunk per declaration).
//
//	c17run -split         {name,src} lines -> header and declaration chunks
//	c17run -dots <file>   parses a concatenation of graphs written by the real staticcheck
//	                      binary (-debug.unused-graph) and prints one JSON line per graph.
package main

import (
	"bufio"
	"encoding/json"
	"flag"
	"fmt"
	"go/ast"
	"go/parser"
	"go/token"
	"os"
	"strings"

	"verif/harness/internal/c17pkg"
)

type File struct {
	Name string `json:"name"`          // file name (base name for inline sources, path otherwise)
	Src  string `json:"src,omitempty"` // inline source; empty: read Name from disk
}

type Job struct {
	ID       string `json:"id"`
	Files    []File `json:"files"`    // in the order they are handed to the type checker and the analyzer
	PkgPath  string `json:"pkgpath"`  // import path to type-check as
	Register bool   `json:"register"` // make the type-checked package importable by later jobs under PkgPath
}

type Node struct {
	Kind string `json:"k"`
	Name string `json:"n"`
	Dir  string `json:"d,omitempty"`
	Base string `json:"b"`
	Line int    `json:"l"`
	Col  int    `json:"c"`
}

type Out struct {
	ID       string   `json:"id"`
	Err      string   `json:"err,omitempty"`       // harness-level failure (unused panicked, dump unreadable, …)
	TypeErrs []string `json:"type_errs,omitempty"` // the input package itself does not type-check
	N        int      `json:"n"`
	Uses     string   `json:"uses,omitempty"`
	Owns     string   `json:"owns,omitempty"`
	Colors   string   `json:"colors"`          // U/Q/X for nodes 1..N-1 as coloured by the real code
	Nodes    []Node   `json:"nodes,omitempty"` // nodes 1..N-1
	DotVsRes string   `json:"dot_vs_result,omitempty"`
}

// SplitOut cuts a source file into a header (package clause and imports) and one chunk of
// text per top-level declaration (with the comments in front of it and the rest of its last
// line), so that the caller can permute declarations at the SOURCE level: header +
// any permutation of the chunks is again a Go file with the same declarations.
type SplitOut struct {
	Name   string   `json:"name"`
	Err    string   `json:"err,omitempty"`
	Header string   `json:"header"`
	Chunks []string `json:"chunks"`
}

func split(name, src string) *SplitOut {
	o := &SplitOut{Name: name}
	fset := token.NewFileSet()
	f, err := parser.ParseFile(fset, name, src, parser.ParseComments|parser.SkipObjectResolution)
	if err != nil {
		o.Err = err.Error()
		return o
	}
	tf := fset.File(f.Pos())
	eol := func(p token.Pos) int {
		off := tf.Offset(p)
		for off < len(src) && src[off] != '\n' {
			off++
		}
		if off < len(src) {
			off++
		}
		return off
	}
	hdr := eol(f.Name.End())
	var rest []ast.Decl
	for _, d := range f.Decls {
		if gd, ok := d.(*ast.GenDecl); ok && gd.Tok == token.IMPORT {
			if e := eol(d.End()); e > hdr {
				hdr = e
			}
		} else {
			rest = append(rest, d)
		}
	}
	o.Header = src[:hdr]
	prev := hdr
	for i, d := range rest {
		end := eol(d.End())
		if i == len(rest)-1 {
			end = len(src)
		} else if tf.Offset(rest[i+1].Pos()) < end {
			continue // the next declaration starts on the line this one ends on: one chunk
		}
		c := src[prev:end]
		if !strings.HasSuffix(c, "\n") {
			c += "\n"
		}
		o.Chunks = append(o.Chunks, c)
		prev = end
	}
	if len(rest) == 0 && hdr < len(src) {
		o.Header = src
	}
	return o
}

func main() {
	dots := flag.String("dots", "", "parse a -debug.unused-graph dump of the real binary")
	doSplit := flag.Bool("split", false, "read {name,src} JSON lines, print header and declaration chunks of every file")
	flag.Parse()
	out := bufio.NewWriter(os.Stdout)
	defer out.Flush()
	enc := json.NewEncoder(out)
	enc.SetEscapeHTML(false)
	if *doSplit {
		dec := json.NewDecoder(bufio.NewReaderSize(os.Stdin, 1<<20))
		for dec.More() {
			var f File
			if err := dec.Decode(&f); err != nil {
				fmt.Fprintln(os.Stderr, "bad input:", err)
				os.Exit(2)
			}
			enc.Encode(split(f.Name, f.Src))
		}
		return
	}
	if *dots != "" {
		data, err := os.ReadFile(*dots)
		if err != nil {
			fmt.Fprintln(os.Stderr, err)
			os.Exit(2)
		}
		gs, err := c17pkg.ParseDots(string(data))
		if err != nil {
			fmt.Fprintln(os.Stderr, err)
			os.Exit(2)
		}
		for i := range gs {
			o := &Out{ID: fmt.Sprintf("dot/%d", i)}
			if err := fill(o, &gs[i]); err != nil {
				o.Err = err.Error()
			}
			enc.Encode(o)
		}
		return
	}
	imp := c17pkg.NewImporter()
	dec := json.NewDecoder(bufio.NewReaderSize(os.Stdin, 1<<20))
	for dec.More() {
		var job Job
		if err := dec.Decode(&job); err != nil {
			fmt.Fprintln(os.Stderr, "bad job:", err)
			os.Exit(2)
		}
		o := runJob(&job, imp)
		if err := enc.Encode(o); err != nil {
			fmt.Fprintln(os.Stderr, err)
			os.Exit(2)
		}
		out.Flush()
	}
}

func fill(o *Out, g *c17pkg.Graph) error {
	o.N = g.N
	o.Uses = c17pkg.EdgeString(g.Uses)
	o.Owns = c17pkg.EdgeString(g.Owns)
	if g.N > 1 {
		o.Colors = string(g.Colors[1:])
	}
	for i := 1; i < g.N; i++ {
		k, n, d, b, l, c, err := c17pkg.NodeDesc(g.Labels[i])
		if err != nil {
			return err
		}
		o.Nodes = append(o.Nodes, Node{k, n, d, b, l, c})
	}
	return nil
}

func runJob(job *Job, imp *c17pkg.Importer) (o *Out) {
	o = &Out{ID: job.ID}
	defer func() {
		if r := recover(); r != nil {
			o.Err = fmt.Sprintf("harness panic: %v", r)
		}
	}()
	var srcs []c17pkg.Source
	for _, f := range job.Files {
		s := c17pkg.Source{Path: f.Name}
		if f.Src != "" {
			s.Src = []byte(f.Src)
		}
		srcs = append(srcs, s)
	}
	l, errs := c17pkg.Load(srcs, job.PkgPath, imp)
	if len(errs) > 0 {
		for i, e := range errs {
			if i < 8 {
				o.TypeErrs = append(o.TypeErrs, e.Error())
			}
		}
		return o
	}
	if job.Register {
		imp.Registered[job.PkgPath] = l.Pkg
	}
	run, err := c17pkg.RunUnused(l)
	if err != nil {
		o.Err = err.Error()
		return o
	}
	if err := c17pkg.CheckResultAgainstDot(run); err != nil {
		o.DotVsRes = err.Error()
	} else {
		o.DotVsRes = "ok"
	}
	if err := fill(o, &run.Graph); err != nil {
		o.Err = err.Error()
	}
	return o
}
