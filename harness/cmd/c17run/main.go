// c17run runs the REAL honnef.co/go/tools/unused analyzer in-process on the packages
// named by job lines (JSON, one per line on stdin) and prints one JSON line per job: the
// use/own graph the real code dumped through unused.Debug (nodes in creation order with
// kind/name/position, use and own edges in list order), the colour the real code gave
// every node, and whether unused.Result is the partition of the nodes by those colours.
//
// The caller chooses the order of the files and permutes top-level declarations at the
// SOURCE level (generated packages: declaration strings; packages on disk: `c17run -split`
// cuts every file into header + one chunk per declaration).
//
//	c17run -split         {name,src} lines -> header and declaration chunks
//	c17run -dots <file>   parses a concatenation of graphs written by the real staticcheck
//	                      binary (-debug.unused-graph) and prints one JSON line per graph.
package main

import (
	"bufio"
	"encoding/json"
	"flag"
	"fmt"
	"go/ast"
	"go/parser"
	"go/token"
	"os"
	"path/filepath"
	"strings"

	"honnef.co/go/tools/unused"
	"verif/harness/internal/c17pkg"
)

type File struct {
	Name string `json:"name"`          // file name (base name for inline sources, path otherwise)
	Src  string `json:"src,omitempty"` // inline source; empty: read Name from disk
}

type Job struct {
	ID       string `json:"id"`
	Files    []File `json:"files"`    // in the order they are handed to the type checker and the analyzer
	PkgPath  string `json:"pkgpath"`  // import path to type-check as
	Register bool   `json:"register"` // make the type-checked package importable by later jobs under PkgPath
	Facts    bool   `json:"facts"`    // also print the struct table and the embedded fields (rule 6.5)

	// graph-level merge: the variants of one package (plain, with in-package tests, external test
	// package) and the orders in which to merge their graphs with the real SerializedGraph.Merge
	Variants []VariantSpec `json:"variants,omitempty"`
	Orders   [][]int       `json:"orders,omitempty"`
}

type VariantSpec struct {
	Tag      string `json:"tag"`
	PkgPath  string `json:"pkgpath"`
	Files    []File `json:"files"`
	Register bool   `json:"register"`
}

// VOut is one variant analysed alone: the raw []unused.Node of the real unused.Graph and the
// verdicts of the real unused.Analyzer.
type VOut struct {
	Tag      string   `json:"tag"`
	Err      string   `json:"err,omitempty"`
	TypeErrs []string `json:"type_errs,omitempty"`
	N        int      `json:"n"`
	Nodes    []Node   `json:"nodes,omitempty"` // nodes 1..N-1
	Uses     string   `json:"uses,omitempty"`
	Owns     string   `json:"owns,omitempty"`
	IDsOK    bool     `json:"ids_ok"` // node i carries id i
	Used     []string `json:"used"`   // keys of Result.Used / Unused / Quiet of the real analyzer on this variant
	Unused   []string `json:"unused"`
	Quiet    []string `json:"quiet"`
}

// MOut is the real merge of the variants in one order.
type MOut struct {
	Order  []int  `json:"order"`
	Err    string `json:"err,omitempty"`
	N      int    `json:"n"`
	Nodes  []Node `json:"nodes,omitempty"` // nodes 1..N-1 (roots of the merged subgraphs have kind "root")
	Uses   string `json:"uses,omitempty"`
	Owns   string `json:"owns,omitempty"`
	Colors string `json:"colors"`
	ResErr string `json:"res_err,omitempty"`
}

type Fact struct {
	St        int    `json:"st"`
	U         int    `json:"u"`
	TypeName  string `json:"tn"`
	TypeBase  string `json:"tb"`
	TypeLine  int    `json:"tl"`
	TypeCol   int    `json:"tc"`
	FieldName string `json:"fn"`
	FieldBase string `json:"fb"`
	FieldLine int    `json:"fl"`
	FieldCol  int    `json:"fc"`
	Exported  bool   `json:"exported,omitempty"`
	Host      bool   `json:"host,omitempty"`
	Methods   bool   `json:"meth,omitempty"`
}

type Node struct {
	Kind string `json:"k"`
	Name string `json:"n"`
	Dir  string `json:"d,omitempty"`
	Base string `json:"b"`
	Line int    `json:"l"`
	Col  int    `json:"c"`
	Path string `json:"p,omitempty"` // object path ("" = none); only in merge jobs
	Pos  string `json:"q,omitempty"` // full position key ("" = no column); only in merge jobs
}

type Out struct {
	ID       string   `json:"id"`
	Err      string   `json:"err,omitempty"`       // harness-level failure (unused panicked, dump unreadable, …)
	TypeErrs []string `json:"type_errs,omitempty"` // the input package itself does not type-check
	N        int      `json:"n"`
	Uses     string   `json:"uses,omitempty"`
	Owns     string   `json:"owns,omitempty"`
	Colors   string   `json:"colors"`          // U/Q/X for nodes 1..N-1 as coloured by the real code
	Nodes    []Node   `json:"nodes,omitempty"` // nodes 1..N-1
	DotVsRes string   `json:"dot_vs_result,omitempty"`

	Structs []string `json:"structs,omitempty"` // rule 6.5: struct table
	Facts   []Fact   `json:"facts,omitempty"`   // rule 6.5: embedded fields of struct declarations

	Variants []VOut `json:"variants,omitempty"`
	Merges   []MOut `json:"merges,omitempty"`
}

// SplitOut cuts a source file into a header (package clause and imports) and one chunk of
// text per top-level declaration (with the comments in front of it and the rest of its last
// line), so that the caller can permute declarations at the SOURCE level: header +
// any permutation of the chunks is again a Go file with the same declarations.
type SplitOut struct {
	Name   string   `json:"name"`
	Err    string   `json:"err,omitempty"`
	Header string   `json:"header"`
	Chunks []string `json:"chunks"`
}

func split(name, src string) *SplitOut {
	o := &SplitOut{Name: name}
	fset := token.NewFileSet()
	f, err := parser.ParseFile(fset, name, src, parser.ParseComments|parser.SkipObjectResolution)
	if err != nil {
		o.Err = err.Error()
		return o
	}
	tf := fset.File(f.Pos())
	eol := func(p token.Pos) int {
		off := tf.Offset(p)
		for off < len(src) && src[off] != '\n' {
			off++
		}
		if off < len(src) {
			off++
		}
		return off
	}
	hdr := eol(f.Name.End())
	var rest []ast.Decl
	for _, d := range f.Decls {
		if gd, ok := d.(*ast.GenDecl); ok && gd.Tok == token.IMPORT {
			if e := eol(d.End()); e > hdr {
				hdr = e
			}
		} else {
			rest = append(rest, d)
		}
	}
	o.Header = src[:hdr]
	prev := hdr
	for i, d := range rest {
		end := eol(d.End())
		if i == len(rest)-1 {
			end = len(src)
		} else if tf.Offset(rest[i+1].Pos()) < end {
			continue // the next declaration starts on the line this one ends on: one chunk
		}
		c := src[prev:end]
		if !strings.HasSuffix(c, "\n") {
			c += "\n"
		}
		o.Chunks = append(o.Chunks, c)
		prev = end
	}
	if len(rest) == 0 && hdr < len(src) {
		o.Header = src
	}
	return o
}

func main() {
	dots := flag.String("dots", "", "parse a -debug.unused-graph dump of the real binary")
	doSplit := flag.Bool("split", false, "read {name,src} JSON lines, print header and declaration chunks of every file")
	flag.Parse()
	out := bufio.NewWriter(os.Stdout)
	defer out.Flush()
	enc := json.NewEncoder(out)
	enc.SetEscapeHTML(false)
	if *doSplit {
		dec := json.NewDecoder(bufio.NewReaderSize(os.Stdin, 1<<20))
		for dec.More() {
			var f File
			if err := dec.Decode(&f); err != nil {
				fmt.Fprintln(os.Stderr, "bad input:", err)
				os.Exit(2)
			}
			enc.Encode(split(f.Name, f.Src))
		}
		return
	}
	if *dots != "" {
		data, err := os.ReadFile(*dots)
		if err != nil {
			fmt.Fprintln(os.Stderr, err)
			os.Exit(2)
		}
		gs, err := c17pkg.ParseDots(string(data))
		if err != nil {
			fmt.Fprintln(os.Stderr, err)
			os.Exit(2)
		}
		for i := range gs {
			o := &Out{ID: fmt.Sprintf("dot/%d", i)}
			if err := fill(o, &gs[i]); err != nil {
				o.Err = err.Error()
			}
			enc.Encode(o)
		}
		return
	}
	imp := c17pkg.NewImporter()
	dec := json.NewDecoder(bufio.NewReaderSize(os.Stdin, 1<<20))
	for dec.More() {
		var job Job
		if err := dec.Decode(&job); err != nil {
			fmt.Fprintln(os.Stderr, "bad job:", err)
			os.Exit(2)
		}
		o := runJob(&job, imp)
		if err := enc.Encode(o); err != nil {
			fmt.Fprintln(os.Stderr, err)
			os.Exit(2)
		}
		out.Flush()
	}
}

func fill(o *Out, g *c17pkg.Graph) error {
	o.N = g.N
	o.Uses = c17pkg.EdgeString(g.Uses)
	o.Owns = c17pkg.EdgeString(g.Owns)
	if g.N > 1 {
		o.Colors = string(g.Colors[1:])
	}
	for i := 1; i < g.N; i++ {
		k, n, d, b, l, c, err := c17pkg.NodeDesc(g.Labels[i])
		if err != nil {
			return err
		}
		o.Nodes = append(o.Nodes, Node{Kind: k, Name: n, Dir: d, Base: b, Line: l, Col: c})
	}
	return nil
}

func runJob(job *Job, imp *c17pkg.Importer) (o *Out) {
	o = &Out{ID: job.ID}
	defer func() {
		if r := recover(); r != nil {
			o.Err = fmt.Sprintf("harness panic: %v", r)
		}
	}()
	if len(job.Variants) > 0 {
		runVMerge(job, imp, o)
		return o
	}
	var srcs []c17pkg.Source
	for _, f := range job.Files {
		s := c17pkg.Source{Path: f.Name}
		if f.Src != "" {
			s.Src = []byte(f.Src)
		}
		srcs = append(srcs, s)
	}
	l, errs := c17pkg.Load(srcs, job.PkgPath, imp)
	if len(errs) > 0 {
		for i, e := range errs {
			if i < 8 {
				o.TypeErrs = append(o.TypeErrs, e.Error())
			}
		}
		return o
	}
	if job.Register {
		imp.Registered[job.PkgPath] = l.Pkg
	}
	run, err := c17pkg.RunUnused(l)
	if err != nil {
		o.Err = err.Error()
		return o
	}
	if err := c17pkg.CheckResultAgainstDot(run); err != nil {
		o.DotVsRes = err.Error()
	} else {
		o.DotVsRes = "ok"
	}
	if err := fill(o, &run.Graph); err != nil {
		o.Err = err.Error()
	}
	if job.Facts {
		table, qs := c17pkg.Rule65Facts(l)
		o.Structs = table
		for _, q := range qs {
			o.Facts = append(o.Facts, Fact{q.St, q.U, q.TypeName, filepath.Base(q.TypePos.Filename), q.TypePos.Line, q.TypePos.Column,
				q.FieldName, filepath.Base(q.FieldPos.Filename), q.FieldPos.Line, q.FieldPos.Column, q.Exported, q.HostLayout, q.Methods})
		}
	}
	return o
}

func objKey(obj unused.Object) string {
	return fmt.Sprintf("%s %s %s:%d:%d", obj.Kind, obj.Name, filepath.Base(obj.Position.Filename), obj.Position.Line, obj.Position.Column)
}

func rawEdges(raw []c17pkg.RawNode, owns bool) string {
	var es [][2]int
	for i, n := range raw {
		l := n.Uses
		if owns {
			l = n.Owns
		}
		for _, b := range l {
			es = append(es, [2]int{i, int(b)})
		}
	}
	return c17pkg.EdgeString(es)
}

// runVMerge: every variant through the real analyzer (verdicts) and the real unused.Graph
// (raw nodes); then the requested merge orders through the real SerializedGraph.Merge.
func runVMerge(job *Job, imp *c17pkg.Importer, o *Out) {
	var graphs [][]unused.Node
	var registered []string
	defer func() {
		for _, p := range registered {
			delete(imp.Registered, p)
		}
	}()
	okAll := true
	for _, vs := range job.Variants {
		vo := VOut{Tag: vs.Tag}
		var srcs []c17pkg.Source
		for _, f := range vs.Files {
			s := c17pkg.Source{Path: f.Name}
			if f.Src != "" {
				s.Src = []byte(f.Src)
			}
			srcs = append(srcs, s)
		}
		l, errs := c17pkg.Load(srcs, vs.PkgPath, imp)
		if len(errs) > 0 {
			for i, e := range errs {
				if i < 8 {
					vo.TypeErrs = append(vo.TypeErrs, e.Error())
				}
			}
			o.Variants = append(o.Variants, vo)
			graphs = append(graphs, nil)
			okAll = false
			continue
		}
		if vs.Register {
			imp.Registered[vs.PkgPath] = l.Pkg
			registered = append(registered, vs.PkgPath)
		}
		run, err := c17pkg.RunUnused(l)
		if err != nil {
			vo.Err = err.Error()
			o.Variants = append(o.Variants, vo)
			graphs = append(graphs, nil)
			okAll = false
			continue
		}
		for _, x := range run.Result.Used {
			vo.Used = append(vo.Used, objKey(x))
		}
		for _, x := range run.Result.Unused {
			vo.Unused = append(vo.Unused, objKey(x))
		}
		for _, x := range run.Result.Quiet {
			vo.Quiet = append(vo.Quiet, objKey(x))
		}
		nodes, err := c17pkg.RealGraph(l)
		if err != nil {
			vo.Err = err.Error()
			o.Variants = append(o.Variants, vo)
			graphs = append(graphs, nil)
			okAll = false
			continue
		}
		raw := c17pkg.Snapshot(nodes)
		vo.N = len(raw)
		vo.IDsOK = true
		for i, n := range raw {
			if n.ID != uint64(i) {
				vo.IDsOK = false
			}
			if i == 0 {
				continue
			}
			ob := n.Obj
			vo.Nodes = append(vo.Nodes, Node{Kind: ob.Kind, Name: ob.Name, Dir: filepath.Dir(ob.Position.Filename), Base: filepath.Base(ob.Position.Filename),
				Line: ob.Position.Line, Col: ob.Position.Column, Path: c17pkg.PathKey(&ob), Pos: c17pkg.PosKey(&ob)})
		}
		vo.Uses = rawEdges(raw, false)
		vo.Owns = rawEdges(raw, true)
		o.Variants = append(o.Variants, vo)
		graphs = append(graphs, nodes)
	}
	if !okAll {
		return
	}
	for _, ord := range job.Orders {
		mo := MOut{Order: ord}
		var list [][]unused.Node
		bad := false
		for _, i := range ord {
			if i < 0 || i >= len(graphs) {
				bad = true
				break
			}
			list = append(list, graphs[i])
		}
		if bad {
			mo.Err = "order refers to a missing variant"
			o.Merges = append(o.Merges, mo)
			continue
		}
		m, err := c17pkg.MergeReal(list)
		if err != nil {
			mo.Err = err.Error()
			o.Merges = append(o.Merges, mo)
			continue
		}
		mo.N = m.Graph.N
		mo.Uses = c17pkg.EdgeString(m.Graph.Uses)
		mo.Owns = c17pkg.EdgeString(m.Graph.Owns)
		if m.Graph.N > 1 {
			mo.Colors = string(m.Graph.Colors[1:])
		}
		mo.ResErr = m.ResErr
		for i := 1; i < m.Graph.N; i++ {
			nd := Node{Path: m.Paths[i], Pos: m.PosKey[i]}
			if m.Paths[i] == "" && m.PosKey[i] == "" {
				nd.Kind = "root"
			} else {
				k, n, d, b, l, c, err := c17pkg.NodeDesc(m.Graph.Labels[i])
				if err != nil {
					mo.Err = err.Error()
					break
				}
				nd.Kind, nd.Name, nd.Dir, nd.Base, nd.Line, nd.Col = k, n, d, b, l, c
			}
			mo.Nodes = append(mo.Nodes, nd)
		}
		o.Merges = append(o.Merges, mo)
	}
}
