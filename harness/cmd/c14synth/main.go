// c14synth runs the REAL ir.buildDomTree of the repository under test (reached through
// go:linkname, no hook in /repo) on hand-made control-flow graphs and dumps the result in
// the record format of harness/internal/c14dump.
//
// Why: source programs reach buildDomTree only through the builder, so (a) very large
// and very dense graphs are expensive to produce and (b) the recover block is always a
// lone return, so the second DFS of step 1 and the second numberDomTree never see more
// than one block.  Here the graph is the input:
//
//	family "rand"    random digraphs, every block reachable from block 0, block 0 without
//	                 predecessors (every such graph is realisable by goto/switch code)
//	family "deep"    long DFS spines with many retreating and cross edges (deep
//	                 semidominator chains, long bucket chains), up to -big blocks
//	family "spine"   one path 0→…→n-1 with forward edges j→k+1 and long retreating edges
//	                 far→k (EVAL must walk far-k links and find the minimum at the top)
//	family "recover" like rand plus a recover REGION of several blocks: the recover root
//	                 has no predecessors (as in the builder), the region's blocks are
//	                 reachable only from it, edges may lead from non-root region blocks
//	                 back into the entry region.  Not realisable by today's builder; it
//	                 is the generalisation the property text describes ("blocks reachable
//	                 only after a recovered panic").
//
//	c14synth -seed S -count N [-maxn 40] [-big 1500] [-nbig 4] [-full 100000]
package main

import (
	"bufio"
	"flag"
	"fmt"
	"go/token"
	"go/types"
	"os"
	_ "unsafe"

	"honnef.co/go/tools/go/ir"
	"verif/harness/internal/c14dump"
)

//go:linkname buildDomTree honnef.co/go/tools/go/ir.buildDomTree
func buildDomTree(fn *ir.Function)

type rng struct{ s uint64 }

func (r *rng) next() uint64 {
	r.s += 0x9E3779B97F4A7C15
	z := r.s
	z = (z ^ (z >> 30)) * 0xBF58476D1CE4E5B9
	z = (z ^ (z >> 27)) * 0x94D049BB133111EB
	return z ^ (z >> 31)
}
func (r *rng) below(n int) int { return int(r.next() % uint64(n)) }

type graph struct {
	n       int
	succ    [][]int
	recover int // -1: none
}

func (g *graph) edge(u, v int) { g.succ[u] = append(g.succ[u], v) }

// reach marks what is reachable from r.
func (g *graph) reach(r int, seen []bool) {
	st := []int{r}
	for len(st) > 0 {
		u := st[len(st)-1]
		st = st[:len(st)-1]
		if seen[u] {
			continue
		}
		seen[u] = true
		st = append(st, g.succ[u]...)
	}
}

// randGraph: blocks 0..n-1, block 0 has no predecessors, everything reachable from 0.
func randGraph(r *rng, n int, density int) *graph {
	g := &graph{n: n, succ: make([][]int, n), recover: -1}
	for u := 0; u < n; u++ {
		k := r.below(density + 1)
		if r.below(8) == 0 {
			k += r.below(5)
		}
		for j := 0; j < k && n > 1; j++ {
			g.edge(u, 1+r.below(n-1))
		}
	}
	connect(r, g, 0, n)
	return g
}

// connect makes blocks lo+1..hi-1 reachable from lo by adding edges from reachable blocks.
func connect(r *rng, g *graph, lo, hi int) {
	for {
		seen := make([]bool, g.n)
		g.reach(lo, seen)
		var reached, missing []int
		for v := lo; v < hi; v++ {
			if seen[v] {
				reached = append(reached, v)
			} else {
				missing = append(missing, v)
			}
		}
		if len(missing) == 0 {
			return
		}
		g.edge(reached[r.below(len(reached))], missing[r.below(len(missing))])
	}
}

// deepGraph: a DFS spine 0→1→…→n-1 with retreating, forward and cross edges of long span.
func deepGraph(r *rng, n int) *graph {
	g := &graph{n: n, succ: make([][]int, n), recover: -1}
	perm := make([]int, n) // spine order: perm[0] = 0
	for i := range perm {
		perm[i] = i
	}
	for i := n - 1; i > 1; i-- {
		j := 1 + r.below(i)
		perm[i], perm[j] = perm[j], perm[i]
	}
	branch := 2 + r.below(6)
	for i := 1; i < n; i++ {
		p := i - 1
		if r.below(branch) == 0 {
			p = r.below(i) // side branch of the spanning tree
		}
		g.edge(perm[p], perm[i])
	}
	extra := n/2 + r.below(n+1)
	for k := 0; k < extra; k++ {
		a, b := r.below(n), 1+r.below(n-1)
		if r.below(3) == 0 { // long retreating edge
			if a < b {
				a, b = b, a
			}
			if b == 0 {
				b = 1
			}
		}
		if perm[b] != 0 {
			g.edge(perm[a], perm[b])
		}
	}
	return g
}

// spineGraph: the path 0→1→…→n-1 (one deep DFS spine) with triples j < k < far of a forward
// edge j→k+1 and a long retreating edge far→k: when k is processed, EVAL(far) has to walk
// far-k links up to k+1, whose semidominator j is the minimum — the situation in which a
// wrong or truncated EVAL / path compression changes sdom(k) and idom(k).
func spineGraph(r *rng, n int) *graph {
	g := &graph{n: n, succ: make([][]int, n), recover: -1}
	for i := 0; i+1 < n; i++ {
		g.edge(i, i+1)
	}
	triples := 1 + r.below(n/6+1)
	for t := 0; t < triples && n >= 6; t++ {
		k := 2 + r.below(n-4)     // 2 .. n-3
		j := r.below(k - 1)       // 0 .. k-2
		far := k + 2 + r.below(n-k-2)
		if r.below(3) == 0 {
			far = n - 1 - r.below((n-k)/8+1)
			if far < k+2 {
				far = k + 2
			}
		}
		g.edge(j, k+1)
		g.edge(far, k)
	}
	for e := r.below(n/4 + 1); e > 0; e-- {
		g.edge(r.below(n), 1+r.below(n-1))
	}
	return g
}

// recoverGraph: entry region 0..m-1 as randGraph, recover region m..n-1 rooted at m.
func recoverGraph(r *rng, n int) *graph {
	m := 1 + r.below(n-1)
	g := randGraph(r, m, 2)
	g.n = n
	for len(g.succ) < n {
		g.succ = append(g.succ, nil)
	}
	g.recover = m
	// region edges: from region blocks to non-root region blocks, sometimes into the entry region
	for u := m; u < n; u++ {
		k := r.below(3)
		for j := 0; j < k; j++ {
			if n-m > 1 && r.below(4) != 0 {
				g.edge(u, m+1+r.below(n-m-1))
			} else if u != m && m > 1 {
				g.edge(u, 1+r.below(m-1)) // back into normal code (never from the recover root)
			}
		}
	}
	connect(r, g, m, n)
	return g
}

func build(prog *ir.Program, g *graph) *ir.Function {
	fn := &ir.Function{Prog: prog, Signature: types.NewSignatureType(nil, nil, nil, nil, nil, false)}
	bs := make([]*ir.BasicBlock, g.n)
	for i := range bs {
		bs[i] = &ir.BasicBlock{Index: i}
	}
	for u, ss := range g.succ {
		for _, v := range ss {
			bs[u].Succs = append(bs[u].Succs, bs[v])
			bs[v].Preds = append(bs[v].Preds, bs[u])
		}
	}
	fn.Blocks = bs
	if g.recover >= 0 {
		fn.Recover = bs[g.recover]
	}
	return fn
}

func main() {
	seed := flag.Uint64("seed", 1, "seed")
	count := flag.Int("count", 300, "graphs per family")
	maxn := flag.Int("maxn", 40, "max blocks of the small graphs")
	big := flag.Int("big", 1500, "blocks of the largest deep graph")
	nbig := flag.Int("nbig", 4, "number of big deep graphs")
	full := flag.Int("full", 100000, "complete matrix up to this many blocks")
	flag.Parse()

	w := bufio.NewWriterSize(os.Stdout, 1<<20)
	defer w.Flush()
	d := &c14dump.Dumper{W: w, Opt: c14dump.Options{Full: *full, Rows: 24, Seed: *seed}}
	prog := ir.NewProgram(token.NewFileSet(), 0)
	r := &rng{*seed*0x9E3779B97F4A7C15 + 14}

	run := func(pid int, name string, g *graph) {
		fn := build(prog, g)
		func() {
			defer func() {
				if e := recover(); e != nil {
					// a panic inside the real buildDomTree on a well-formed graph: reported with
					// the graph so that the check can make it a finding
					d.Error(pid, fmt.Sprintf("builder panic: ir.buildDomTree on synthetic graph %s: %v succs=%v recover=%d", name, e, g.succ, g.recover))
					fn = nil
				}
			}()
			buildDomTree(fn)
		}()
		if fn != nil {
			d.FunctionNamed(pid, fn, name, true)
		}
	}

	pid := d.Package("synthetic/rand", "")
	for i := 0; i < *count; i++ {
		n := 2 + r.below(*maxn-1)
		run(pid, fmt.Sprintf("rand#%d", i), randGraph(r, n, 1+r.below(3)))
	}
	pid = d.Package("synthetic/recover", "")
	for i := 0; i < *count; i++ {
		n := 3 + r.below(*maxn-2)
		run(pid, fmt.Sprintf("recover#%d", i), recoverGraph(r, n))
	}
	pid = d.Package("synthetic/deep", "")
	for i := 0; i < *count/4; i++ {
		run(pid, fmt.Sprintf("deep#%d", i), deepGraph(r, 8+r.below(120)))
	}
	for i := 0; i < *nbig; i++ {
		n := *big / (1 << uint(*nbig-1-i))
		if n < 50 {
			n = 50
		}
		run(pid, fmt.Sprintf("deepbig#%d", i), deepGraph(r, n))
	}
	pid = d.Package("synthetic/spine", "")
	for i := 0; i < *count/4; i++ {
		run(pid, fmt.Sprintf("spine#%d", i), spineGraph(r, 6+r.below(150)))
	}
	for i := 0; i < *nbig; i++ {
		n := *big / (1 << uint(*nbig-1-i))
		if n < 50 {
			n = 50
		}
		run(pid, fmt.Sprintf("spinebig#%d", i), spineGraph(r, n))
	}
	for i := 0; i < 2; i++ {
		run(pid, fmt.Sprintf("spinemax#%d", i), spineGraph(r, *big))
	}
}
