// empty: allows the body-less go:linkname declaration in main.go
