// c14dump builds IR with the real go/ir builder of the repository under test and dumps
// the dominance information of every source function (see harness/internal/c14dump for
// the record format).
//
//	c14dump [-full N] [-rows K] [-seed S] [-naive] -src a.go b.go ...
//	    every file is type-checked and built as its own package (imports through the
//	    "source" importer, i.e. GOROOT sources; generated programs import nothing)
//	c14dump [...] -dir D -pkgs pattern ...
//	    packages are loaded with go/packages (LoadSyntax) from directory D
//	c14dump [...] -srclist file
//	    like -src, file names read one per line
package main

import (
	"bufio"
	"flag"
	"fmt"
	"go/ast"
	"go/importer"
	"go/parser"
	"go/token"
	"go/types"
	"os"
	"runtime/debug"
	"sort"
	"strings"

	"golang.org/x/tools/go/packages"
	"honnef.co/go/tools/go/ir"
	"honnef.co/go/tools/go/ir/irutil"
	"verif/harness/internal/c14dump"
)

var allFuncs bool

// funcsOf returns the source functions of pkg (the order of SrcFuncs) and, with -all,
// after them every other function with a body that irutil.AllFunctions finds in the
// program and that belongs to pkg (synthetic wrappers, bound-method thunks, generic
// instantiations, and their anonymous functions), sorted by name. Functions attributed to
// no package (shared wrappers) are returned once, for the first package that asks.
func funcsOf(prog *ir.Program, pkg *ir.Package, seen map[*ir.Function]bool) []*ir.Function {
	var out []*ir.Function
	for _, fn := range c14dump.SrcFuncs(pkg) {
		if !seen[fn] {
			seen[fn] = true
			out = append(out, fn)
		}
	}
	if !allFuncs {
		return out
	}
	var extra []*ir.Function
	var add func(fn *ir.Function)
	add = func(fn *ir.Function) {
		if fn == nil || seen[fn] || len(fn.Blocks) == 0 {
			return
		}
		owner := ownerOf(fn)
		if owner != nil && owner != pkg {
			return
		}
		seen[fn] = true
		extra = append(extra, fn)
		for _, a := range fn.AnonFuncs {
			add(a)
		}
	}
	for fn := range irutil.AllFunctions(prog) {
		add(fn)
	}
	sort.SliceStable(extra, func(i, j int) bool {
		a, b := extra[i], extra[j]
		if a.String() != b.String() {
			return a.String() < b.String()
		}
		if a.Synthetic != b.Synthetic {
			return a.Synthetic < b.Synthetic
		}
		return len(a.Blocks) < len(b.Blocks)
	})
	return append(out, extra...)
}

// ownerOf attributes a function to a package (nil: shared synthetic function).
func ownerOf(fn *ir.Function) *ir.Package {
	for f := fn; f != nil; f = f.Parent() {
		if f.Pkg != nil {
			return f.Pkg
		}
		if o := f.Origin(); o != nil && o != f && o.Pkg != nil {
			return o.Pkg
		}
	}
	return nil
}

func main() {
	full := flag.Int("full", 64, "complete Dominates matrix for functions with at most this many blocks")
	rows := flag.Int("rows", 24, "sampled rows (plus idom chains) for larger functions")
	seed := flag.Uint64("seed", 1, "seed of the row sample")
	naive := flag.Bool("naive", false, "build with ir.NaiveForm (no lifting)")
	src := flag.Bool("src", false, "arguments are single-file packages")
	srclist := flag.String("srclist", "", "file with one source file name per line")
	pkgs := flag.Bool("pkgs", false, "arguments are go/packages patterns")
	dir := flag.String("dir", ".", "directory for -pkgs")
	flag.BoolVar(&allFuncs, "all", false, "also dump every function irutil.AllFunctions finds (wrappers, thunks, bound methods, instantiations)")
	flag.Parse()

	var mode ir.BuilderMode
	if *naive {
		mode |= ir.NaiveForm
	}
	w := bufio.NewWriterSize(os.Stdout, 1<<20)
	defer w.Flush()
	d := &c14dump.Dumper{W: w, Opt: c14dump.Options{Full: *full, Rows: *rows, Seed: *seed}}

	files := flag.Args()
	if *srclist != "" {
		data, err := os.ReadFile(*srclist)
		if err != nil {
			fmt.Fprintln(os.Stderr, err)
			os.Exit(2)
		}
		files = nil
		for _, l := range strings.Split(string(data), "\n") {
			if l = strings.TrimSpace(l); l != "" {
				files = append(files, l)
			}
		}
		*src = true
	}
	switch {
	case *src:
		for _, f := range files {
			dumpFile(d, f, mode)
		}
	case *pkgs:
		dumpPkgs(d, *dir, flag.Args(), mode)
	default:
		fmt.Fprintln(os.Stderr, "need -src, -srclist or -pkgs")
		os.Exit(2)
	}
}

// buildFile type-checks and builds one single-file package. A panic of the builder is
// returned as text (message + stack), never hidden: the caller records it.
func buildFile(file string, mode ir.BuilderMode) (pkg *ir.Package, errText string) {
	defer func() {
		if r := recover(); r != nil {
			pkg = nil
			errText = fmt.Sprintf("builder panic: %v\n%s", r, debug.Stack())
		}
	}()
	fset := token.NewFileSet()
	f, err := parser.ParseFile(fset, file, nil, parser.ParseComments|parser.SkipObjectResolution)
	if err != nil {
		return nil, "parse: " + err.Error()
	}
	tc := &types.Config{Importer: importer.ForCompiler(fset, "source", nil)}
	tpkg := types.NewPackage("c14/"+f.Name.Name, f.Name.Name)
	irpkg, _, err := irutil.BuildPackage(tc, fset, tpkg, []*ast.File{f}, mode)
	if err != nil {
		return nil, "types: " + err.Error()
	}
	return irpkg, ""
}

func dumpFile(d *c14dump.Dumper, file string, mode ir.BuilderMode) {
	pid := d.Package("src/"+file, file)
	irpkg, errText := buildFile(file, mode)
	if errText != "" {
		d.Error(pid, errText)
		if strings.HasPrefix(errText, "builder panic") && mode&ir.NaiveForm == 0 {
			// The dominator tree is built before lifting; without lifting (NaiveForm) the
			// CFG is the same, so the dominance information can still be observed.
			pid = d.Package("src/"+file+"#naive", file)
			irpkg, errText = buildFile(file, mode|ir.NaiveForm)
			if errText != "" {
				d.Error(pid, errText)
				return
			}
		} else {
			return
		}
	}
	for _, fn := range funcsOf(irpkg.Prog, irpkg, map[*ir.Function]bool{}) {
		d.Function(pid, fn)
	}
}

func dumpPkgs(d *c14dump.Dumper, dir string, patterns []string, mode ir.BuilderMode) {
	cfg := &packages.Config{Dir: dir, Mode: packages.LoadSyntax, Tests: false}
	initial, err := packages.Load(cfg, patterns...)
	if err != nil {
		fmt.Fprintln(os.Stderr, "packages.Load:", err)
		os.Exit(2)
	}
	var good []*packages.Package
	for _, p := range initial {
		if len(p.Errors) > 0 || p.Types == nil || p.IllTyped {
			pid := d.Package(p.PkgPath, "")
			msg := "ill-typed"
			if len(p.Errors) > 0 {
				msg = p.Errors[0].Error()
			}
			d.Error(pid, msg)
			continue
		}
		good = append(good, p)
	}
	prog, irpkgs := irutil.Packages(good, mode)
	seen := map[*ir.Function]bool{}
	// build everything first: wrappers and instantiations are created on demand
	built := make([]bool, len(irpkgs))
	for i, irpkg := range irpkgs {
		if irpkg == nil {
			continue
		}
		func() {
			defer func() {
				if r := recover(); r != nil {
					pid := d.Package(good[i].PkgPath, "")
					d.Error(pid, fmt.Sprintf("builder panic: %v\n%s", r, debug.Stack()))
				}
			}()
			irpkg.Build()
			built[i] = true
		}()
	}
	for i, irpkg := range irpkgs {
		if irpkg != nil && !built[i] {
			continue
		}
		pid := d.Package(good[i].PkgPath, "")
		if irpkg == nil {
			d.Error(pid, "no ir package")
			continue
		}
		func() {
			defer func() {
				if r := recover(); r != nil {
					d.Error(pid, fmt.Sprintf("builder panic: %v\n%s", r, debug.Stack()))
				}
			}()
			for _, fn := range funcsOf(prog, irpkg, seen) {
				d.Function(pid, fn)
			}
		}()
	}
}
