package main

import (
	"fmt"
	"sort"
	"strconv"
	"strings"
	_ "unsafe" // go:linkname

	"honnef.co/go/tools/analysis/dfa"
	"honnef.co/go/tools/analysis/facts/nilness"
)

// The nilness lattice is unexported. It is reached without a hook in /repo through
// go:linkname: the table variable and the three methods of nilness.lattice as compiled
// from the current tree.

//go:linkname realLatticeMerge honnef.co/go/tools/analysis/facts/nilness.latticeMerge
var realLatticeMerge [5][5]nilness.Nilness

//go:linkname realNilMerge honnef.co/go/tools/analysis/facts/nilness.lattice.Merge
func realNilMerge(l struct{}, a, b nilness.ValueNilness) nilness.ValueNilness

//go:linkname realNilIdent honnef.co/go/tools/analysis/facts/nilness.lattice.Ident
func realNilIdent(l struct{}) nilness.ValueNilness

//go:linkname realNilEquals honnef.co/go/tools/analysis/facts/nilness.lattice.Equals
func realNilEquals(l struct{}, a, b nilness.ValueNilness) bool

var _ = nilness.Analysis // keep the package linked

// nilLat is nilness.lattice seen from outside.
type nilLat struct{}

func (nilLat) Ident() nilness.ValueNilness { return realNilIdent(struct{}{}) }
func (nilLat) Equals(a, b nilness.ValueNilness) bool {
	return realNilEquals(struct{}{}, a, b)
}
func (nilLat) Merge(a, b nilness.ValueNilness) nilness.ValueNilness {
	return realNilMerge(struct{}{}, a, b)
}

func nilOfCode(c int) nilness.ValueNilness {
	return nilness.ValueNilness{Inner: nilness.Nilness(c / 5), Outer: nilness.Nilness(c % 5)}
}
func codeOfNil(v nilness.ValueNilness) int { return int(v.Inner)*5 + int(v.Outer) }

// n5Lat: one component of the nilness lattice (Inner = Outer), through the real Merge.
type n5Lat struct{}

func (n5Lat) Ident() int           { return codeOfNil(realNilIdent(struct{}{})) % 5 }
func (n5Lat) Equals(a, b int) bool { return a == b }
func (n5Lat) Merge(a, b int) int {
	r := realNilMerge(struct{}{}, nilness.ValueNilness{Inner: nilness.Nilness(a), Outer: nilness.Nilness(a)},
		nilness.ValueNilness{Inner: nilness.Nilness(b), Outer: nilness.Nilness(b)})
	return int(r.Outer)
}

// flatLat: constant propagation. 0 = bottom (Ident), 1 = top, c+2 = constant c.
type flatLat struct{}

func (flatLat) Ident() int           { return 0 }
func (flatLat) Equals(a, b int) bool { return a == b }
func (flatLat) Merge(a, b int) int {
	switch {
	case a == 0:
		return b
	case b == 0:
		return a
	case a == b:
		return a
	}
	return 1
}

// andElem: one bit under intersection; Ident = 1 (not the zero value).
type andElem struct{}

func (andElem) Ident() int           { return 1 }
func (andElem) Equals(a, b int) bool { return a == b }
func (andElem) Merge(a, b int) int   { return a & b }

// orElem: one bit under union.
type orElem struct{}

func (orElem) Ident() int           { return 0 }
func (orElem) Equals(a, b int) bool { return a == b }
func (orElem) Merge(a, b int) int   { return a | b }

// orBits: uint64 bitset under union (as in the package's own tests).
type orBits struct{}

func (orBits) Ident() uint64            { return 0 }
func (orBits) Equals(a, b uint64) bool  { return a == b }
func (orBits) Merge(a, b uint64) uint64 { return a | b }

// ---- lattices whose Ident() is NOT the Go zero value of the fact type (a solver that lets a
// zero-valued placeholder take part in a merge goes unnoticed with all the lattices above)

// andBits: uint64 bitset under intersection ("must" analysis); Ident = all ones.
type andBits struct{}

func (andBits) Ident() uint64            { return ^uint64(0) }
func (andBits) Equals(a, b uint64) bool  { return a == b }
func (andBits) Merge(a, b uint64) uint64 { return a & b }

// orInv: union of sets stored complemented (bit i set = element i absent); Ident = all ones.
type orInv struct{}

func (orInv) Ident() uint64            { return ^uint64(0) }
func (orInv) Equals(a, b uint64) bool  { return a == b }
func (orInv) Merge(a, b uint64) uint64 { return a & b }

// cpArr: constant propagation over up to 4 variables in a fixed-size array. A cell stores
// code^1, i.e. bottom (code 0, the Ident) is stored as 1 and the zero value of the array
// means "top everywhere".
type cpVec [4]uint8

type cpArr struct{}

func (cpArr) Ident() cpVec           { return cpVec{1, 1, 1, 1} }
func (cpArr) Equals(a, b cpVec) bool { return a == b }
func (cpArr) Merge(a, b cpVec) cpVec {
	var r cpVec
	for i := range r {
		r[i] = uint8(flatLat{}.Merge(int(a[i]^1), int(b[i]^1))) ^ 1
	}
	return r
}

// aoElem: product of one "must" bit and one "may" bit, code = 2*must + may; Ident = 2.
type aoElem struct{}

func (aoElem) Ident() int           { return 2 }
func (aoElem) Equals(a, b int) bool { return a == b }
func (aoElem) Merge(a, b int) int   { return (((a >> 1) & (b >> 1)) << 1) | ((a | b) & 1) }

// aoProd: the same product lattice over bit vectors: (must-set under intersection, may-set
// under union); Ident = (all ones, empty).
type aoFact struct{ must, may uint64 }

type aoProd struct{}

func (aoProd) Ident() aoFact           { return aoFact{^uint64(0), 0} }
func (aoProd) Equals(a, b aoFact) bool { return a == b }
func (aoProd) Merge(a, b aoFact) aoFact {
	return aoFact{a.must & b.must, a.may | b.may}
}

// bitsLat: int bitset under union (sparse solver).
type bitsLat struct{}

func (bitsLat) Ident() int           { return 0 }
func (bitsLat) Equals(a, b int) bool { return a == b }
func (bitsLat) Merge(a, b int) int   { return a | b }

// and2Lat / and3Lat: int bitsets of width 2 / 3 under intersection (sparse solver); Ident is the
// full set (3 / 7), not the zero value.
type and2Lat struct{}

func (and2Lat) Ident() int           { return 3 }
func (and2Lat) Equals(a, b int) bool { return a == b }
func (and2Lat) Merge(a, b int) int   { return a & b }

type and3Lat struct{}

func (and3Lat) Ident() int           { return 7 }
func (and3Lat) Equals(a, b int) bool { return a == b }
func (and3Lat) Merge(a, b int) int   { return a & b }

func printTable() {
	var rows []string
	for a := 0; a < 5; a++ {
		var r []string
		for b := 0; b < 5; b++ {
			r = append(r, strconv.Itoa(int(realLatticeMerge[a][b])))
		}
		rows = append(rows, strings.Join(r, ","))
	}
	fmt.Println("table " + strings.Join(rows, ";"))
	// the same 25 entries through lattice.Merge (Inner and Outer use the same table)
	var viaMerge []string
	for a := 0; a < 5; a++ {
		var r []string
		for b := 0; b < 5; b++ {
			m := realNilMerge(struct{}{}, nilness.ValueNilness{Inner: nilness.Nilness(a), Outer: nilness.Nilness(b)},
				nilness.ValueNilness{Inner: nilness.Nilness(b), Outer: nilness.Nilness(a)})
			r = append(r, fmt.Sprintf("%d/%d", m.Inner, m.Outer))
		}
		viaMerge = append(viaMerge, strings.Join(r, ","))
	}
	fmt.Println("merge " + strings.Join(viaMerge, ";"))
	id := realNilIdent(struct{}{})
	fmt.Printf("ident %d %d\n", id.Inner, id.Outer)
}

// ---- laws mode
//
//	laws <impl> <el> <e1> <e2> ... : check assoc/comm/idem/ident on all triples with the real
//	     Equals; impl ∈ map|dm|nil ; el ∈ cp|n5|or|and|nil ; elements `k=v,k=v`|- (map), `v.v`|- (dm),
//	     code (nil). Output "ok <triples>" or "fail <law> <elements>".
//	merge <impl> <el> <a> <b> : "<merge>;eq=<Equals a b>" canonical (maps sorted by key)

type elemLat interface {
	dfa.Semilattice[int]
}

func lawsLine(line string) string {
	tok := strings.Fields(line)
	if len(tok) < 3 {
		return "bad-op"
	}
	switch tok[0] {
	case "laws", "merge":
	default:
		return "bad-op"
	}
	impl, el := tok[1], tok[2]
	args := tok[3:]
	switch impl {
	case "map":
		switch el {
		case "cp":
			return lawsGeneric[dfa.MapLattice[int, int, flatLat]](tok[0], args, parseGoMap, showGoMap)
		case "n5":
			return lawsGeneric[dfa.MapLattice[int, int, n5Lat]](tok[0], args, parseGoMap, showGoMap)
		case "or":
			return lawsGeneric[dfa.MapLattice[int, int, orElem]](tok[0], args, parseGoMap, showGoMap)
		case "ao":
			return lawsGeneric[dfa.MapLattice[int, int, aoElem]](tok[0], args, parseGoMap, showGoMap)
		}
	case "dm":
		switch el {
		case "cp":
			return lawsGeneric[dfa.DenseMapLattice[int, flatLat]](tok[0], args, parseSlice, showSlice)
		case "n5":
			return lawsGeneric[dfa.DenseMapLattice[int, n5Lat]](tok[0], args, parseSlice, showSlice)
		case "or":
			return lawsGeneric[dfa.DenseMapLattice[int, orElem]](tok[0], args, parseSlice, showSlice)
		case "and":
			return lawsGeneric[dfa.DenseMapLattice[int, andElem]](tok[0], args, parseSlice, showSlice)
		case "ao":
			return lawsGeneric[dfa.DenseMapLattice[int, aoElem]](tok[0], args, parseSlice, showSlice)
		case "nil":
			return lawsGeneric[dfa.DenseMapLattice[nilness.ValueNilness, nilLat]](tok[0], args, parseNilSlice, showNilSlice)
		}
	case "nil":
		return lawsGeneric[nilLat](tok[0], args,
			func(s string) nilness.ValueNilness { return nilOfCode(atoi(s)) },
			func(v nilness.ValueNilness) string { return strconv.Itoa(codeOfNil(v)) })
	}
	return "bad-op"
}

func lawsGeneric[L dfa.Semilattice[T], T any](mode string, args []string, parse func(string) T, show func(T) string) string {
	var l L
	if mode == "merge" {
		if len(args) != 2 {
			return "bad-op"
		}
		a, b := parse(args[0]), parse(args[1])
		eq := l.Equals(a, b)
		m := l.Merge(a, b)
		return fmt.Sprintf("%s;eq=%s", show(m), b2s(eq))
	}
	elems := make([]T, len(args))
	for i, a := range args {
		elems[i] = parse(a)
	}
	id := l.Ident()
	n := 0
	for i, a := range elems {
		if !l.Equals(a, a) {
			return "fail equals-refl " + args[i]
		}
		if !l.Equals(l.Merge(a, a), a) {
			return "fail idempotence " + args[i]
		}
		if !l.Equals(l.Merge(a, id), a) {
			return "fail identity " + args[i]
		}
		if !l.Equals(l.Merge(id, a), a) {
			return "fail identity-left " + args[i]
		}
		for j, b := range elems {
			ab := l.Merge(a, b)
			if !l.Equals(ab, l.Merge(b, a)) {
				return "fail commutativity " + args[i] + " " + args[j]
			}
			if l.Equals(a, b) != l.Equals(b, a) {
				return "fail equals-symm " + args[i] + " " + args[j]
			}
			for k, c := range elems {
				n++
				if !l.Equals(l.Merge(a, l.Merge(b, c)), l.Merge(ab, c)) {
					return "fail associativity " + args[i] + " " + args[j] + " " + args[k]
				}
				if l.Equals(a, b) && l.Equals(b, c) && !l.Equals(a, c) {
					return "fail equals-trans " + args[i] + " " + args[j] + " " + args[k]
				}
				// Merge respects Equals
				if l.Equals(a, b) && !l.Equals(l.Merge(a, c), l.Merge(b, c)) {
					return "fail congruence " + args[i] + " " + args[j] + " " + args[k]
				}
			}
		}
	}
	return fmt.Sprintf("ok %d", n)
}

func b2s(b bool) string {
	if b {
		return "1"
	}
	return "0"
}

func atoi(s string) int {
	n, err := strconv.Atoi(s)
	if err != nil {
		bad("not a number: %q", s)
	}
	return n
}

func parseGoMap(s string) map[int]int {
	if s == "-" {
		return nil
	}
	m := map[int]int{}
	for _, kv := range strings.Split(s, ",") {
		p := strings.Split(kv, "=")
		if len(p) != 2 {
			bad("bad map entry %q", kv)
		}
		m[atoi(p[0])] = atoi(p[1])
	}
	return m
}

func showGoMap(m map[int]int) string {
	if len(m) == 0 {
		return "-"
	}
	keys := make([]int, 0, len(m))
	for k := range m {
		keys = append(keys, k)
	}
	sort.Ints(keys)
	var parts []string
	for _, k := range keys {
		parts = append(parts, fmt.Sprintf("%d=%d", k, m[k]))
	}
	return strings.Join(parts, ",")
}

func parseSlice(s string) []int {
	if s == "-" {
		return nil
	}
	var out []int
	for _, p := range strings.Split(s, ".") {
		out = append(out, atoi(p))
	}
	return out
}

func showSlice(s []int) string {
	if len(s) == 0 {
		return "-"
	}
	var parts []string
	for _, v := range s {
		parts = append(parts, strconv.Itoa(v))
	}
	return strings.Join(parts, ".")
}

func parseNilSlice(s string) []nilness.ValueNilness {
	var out []nilness.ValueNilness
	for _, c := range parseSlice(s) {
		out = append(out, nilOfCode(c))
	}
	return out
}

func showNilSlice(s []nilness.ValueNilness) string {
	var c []int
	for _, v := range s {
		c = append(c, codeOfNil(v))
	}
	return showSlice(c)
}
