package main

import (
	"encoding/hex"
	"fmt"
	"go/ast"
	"go/constant"
	"go/parser"
	"go/token"
	"go/types"
	"hash/fnv"
	"strconv"
	"strings"

	"honnef.co/go/tools/analysis/dfa"
	"honnef.co/go/tools/analysis/dfa/sparse"
	"honnef.co/go/tools/go/ir"
	"honnef.co/go/tools/go/ir/irutil"
)

// sparse <lat> <params> <tabs> <hexsrc> [<mm>]
//
// Builds the IR of function f of the given source with the real builder, runs the real
// sparse.Instance.Forward with a table-driven transfer and prints
//
//	sparse <lat> @ <n> <nvals> <instrs> <init> <tabs> => val=<code>,…[ ~ val=…]
//
// i.e. the structure the solver saw (instructions in block order numbered 0..n-1, the
// operands their transfer reads / their Referrers as the real IR reports them, the transfer
// assigned to each) in the input format of the Lean model, followed by the final
// Instance.Value of every value. The solver is run three times (its worklist is a Go map:
// another visiting order each time); differing results are all printed, separated by " ~ ".
//
// mm > 0 selects MULTI-MAPPING transfers (what sparse.Ms exists for): besides the mapping
// for its own value an instruction's transfer returns, before or after it,
//   - for operands that are not defined by an instruction (parameters, constants): a
//     constant mapping equal to the state the value was given with Set (a stable mapping,
//     e.g. "the source of this dependency is parameter p");
//   - for a value-defining call with a static callee: a constant summary state for the
//     callee function value, which no transfer reads (it starts at Ident and changes once);
//   - for the function's *ir.Return (when mm is divisible by 10): a summary mapping for the
//     function value itself, function ↦ merge of the states of the results (kind s<v>). Return
//     is not an ir.Value: Referrers() is nil.
//
// An instr entry is kind:ops:refs:pre:post with pre/post = the constant mappings `v=c,…`
// returned before / after the instruction's own mapping.

type stab struct {
	binary bool
	t      []int
}

func sparseLine(line string) (res string) {
	defer func() {
		if r := recover(); r != nil {
			if b, ok := r.(badInput); ok {
				res = "bad-op " + b.msg
				return
			}
			panic(r)
		}
	}()
	tok := strings.Fields(line)
	if (len(tok) != 5 && len(tok) != 6) || tok[0] != "sparse" {
		bad("sparse: want 5 or 6 tokens")
	}
	mm := 0
	if len(tok) == 6 {
		mm = atoi(tok[5])
		if mm < 0 {
			bad("mm < 0")
		}
	}
	lat := tok[1]
	size := 0
	switch {
	case lat == "cp":
		size = 10
	case lat == "n5":
		size = 5
	case lat == "and2":
		size = 4
	case lat == "and3":
		size = 8
	case strings.HasPrefix(lat, "bits"):
		size = 1 << uint(atoi(lat[4:]))
	default:
		bad("lattice %q", lat)
	}
	var params []int
	for _, p := range splitList(",", tok[2]) {
		params = append(params, atoi(p))
	}
	var tabs []stab
	var unary, binary []int
	for i, t := range splitList(";", tok[3]) {
		p := strings.Split(t, ":")
		if len(p) != 2 {
			bad("table %q", t)
		}
		st := stab{binary: p[0] == "b"}
		for _, c := range strings.Split(p[1], ".") {
			st.t = append(st.t, atoi(c))
		}
		if st.binary && len(st.t) != size*size || !st.binary && len(st.t) != size {
			bad("table size")
		}
		tabs = append(tabs, st)
		if st.binary {
			binary = append(binary, i)
		} else {
			unary = append(unary, i)
		}
	}
	if len(unary) == 0 || len(binary) == 0 {
		bad("need a unary and a binary table")
	}
	src, err := hex.DecodeString(tok[4])
	if err != nil {
		bad("hex: %v", err)
	}

	fset := token.NewFileSet()
	file, err := parser.ParseFile(fset, "p.go", src, 0)
	if err != nil {
		return "bad-source " + strings.ReplaceAll(err.Error(), "\n", " ")
	}
	pkg := types.NewPackage("p", "p")
	ipkg, _, err := irutil.BuildPackage(&types.Config{}, fset, pkg, []*ast.File{file}, ir.BuilderMode(0))
	if err != nil {
		return "bad-source " + strings.ReplaceAll(err.Error(), "\n", " ")
	}
	fn := ipkg.Func("f")
	if fn == nil {
		bad("no function f")
	}

	switch {
	case lat == "cp":
		return sparseRun[flatLat](fn, lat, size, params, tabs, unary, binary, tok[3], mm)
	case lat == "n5":
		return sparseRun[n5Lat](fn, lat, size, params, tabs, unary, binary, tok[3], mm)
	case lat == "and2":
		return sparseRun[and2Lat](fn, lat, size, params, tabs, unary, binary, tok[3], mm)
	case lat == "and3":
		return sparseRun[and3Lat](fn, lat, size, params, tabs, unary, binary, tok[3], mm)
	default:
		return sparseRun[bitsLat](fn, lat, size, params, tabs, unary, binary, tok[3], mm)
	}
}

type xmap struct {
	val  ir.Value
	code int
}

type ispec struct {
	kind      string // phi | none | u | b | s
	tab       int
	ops       []ir.Value // the values the transfer reads
	sum       ir.Value   // kind s: the value the instruction's (only) computed mapping is for
	pre, post []xmap     // constant extra mappings returned before / after the own one
}

func isCallee(v ir.Value) bool {
	switch v.(type) {
	case *ir.Function, *ir.Builtin:
		return true
	}
	return false
}

func sparseRun[L dfa.Semilattice[int]](fn *ir.Function, lat string, size int, params []int, tabs []stab, unary, binary []int, tabStr string, mm int) string {
	var l L
	// number the instructions
	var instrs []ir.Instruction
	idx := map[ir.Instruction]int{}
	for _, b := range fn.Blocks {
		for _, in := range b.Instrs {
			idx[in] = len(instrs)
			instrs = append(instrs, in)
		}
	}
	n := len(instrs)
	valIdx := map[ir.Value]int{}
	for i, in := range instrs {
		if v, ok := in.(ir.Value); ok {
			valIdx[v] = i
		}
	}
	var others []ir.Value
	numOf := func(v ir.Value) int {
		if i, ok := valIdx[v]; ok {
			return i
		}
		valIdx[v] = n + len(others)
		others = append(others, v)
		return valIdx[v]
	}
	hash := func(s string) int {
		h := fnv.New32a()
		h.Write([]byte(s))
		return int(h.Sum32() % 1000003)
	}

	specs := make([]ispec, n)
	allOps := make([][]ir.Value, n)
	for i, in := range instrs {
		var ops []ir.Value
		if phi, ok := in.(*ir.Phi); ok {
			ops = append(ops, phi.Edges...)
		} else {
			for _, p := range in.Operands(nil) {
				if p != nil && *p != nil {
					ops = append(ops, *p)
				}
			}
		}
		allOps[i] = ops
		for _, o := range ops {
			numOf(o)
		}
		// a transfer reads the data operands, not the callee of a call
		var rd []ir.Value
		for _, o := range ops {
			if !isCallee(o) {
				rd = append(rd, o)
			}
		}
		sp := ispec{ops: rd}
		_, isVal := in.(ir.Value)
		switch in := in.(type) {
		case *ir.Phi:
			sp.kind = "phi"
			sp.ops = ops
		case *ir.BinOp:
			sp.kind, sp.tab = "b", binary[int(in.Op)%len(binary)]
			if len(rd) != 2 {
				bad("BinOp with %d operands", len(rd))
			}
		case *ir.UnOp:
			sp.kind, sp.tab = "u", unary[int(in.Op)%len(unary)]
		case *ir.Return:
			sp.kind = "none"
			if mm > 0 && mm%10 == 0 && len(rd) > 0 {
				sp.kind, sp.sum = "s", fn
				numOf(fn)
			}
		default:
			if isVal {
				sp.kind, sp.tab = "u", unary[hash(fmt.Sprintf("%T", in))%len(unary)]
			} else {
				sp.kind = "none"
			}
		}
		specs[i] = sp
	}

	// initial states of non-instruction values
	initCode := map[ir.Value]int{}
	for _, v := range others {
		code := -1
		switch v := v.(type) {
		case *ir.Parameter:
			for pi, p := range fn.Params {
				if p == v && pi < len(params) {
					code = params[pi]
				}
			}
		case *ir.Const:
			if v.Value != nil && v.Value.Kind() == constant.Int {
				if x, ok := constant.Int64Val(v.Value); ok {
					code = int(((x % int64(size)) + int64(size)) % int64(size))
				}
			}
		}
		if code >= 0 && code != l.Ident() {
			initCode[v] = code
		}
	}
	stateOf := func(v ir.Value) int {
		if c, ok := initCode[v]; ok {
			return c
		}
		return l.Ident()
	}

	// multi-mapping transfers
	if mm > 0 {
		for i, in := range instrs {
			if specs[i].kind == "phi" {
				continue
			}
			_, isVal := in.(ir.Value)
			for j, o := range allOps[i] {
				if _, def := o.(ir.Instruction); def {
					if _, inFn := idx[o.(ir.Instruction)]; inFn {
						continue
					}
				}
				h := hash(fmt.Sprintf("mm/%d/%d/%d", mm, i, j))
				var x xmap
				switch {
				case isCallee(o):
					// the mapping changes once, so the instruction must have referrers to enqueue
					if !isVal || h%4 == 0 {
						continue
					}
					// a state different from Ident
					x = xmap{o, (l.Ident() + 1 + hash("callee/"+o.Name())%(size-1)) % size}
				default:
					if h%3 == 0 {
						continue
					}
					x = xmap{o, stateOf(o)}
				}
				if (h>>8)&1 == 0 {
					specs[i].pre = append(specs[i].pre, x)
				} else {
					specs[i].post = append(specs[i].post, x)
				}
			}
		}
	}

	calls := 0
	transfer := func(ins *sparse.Instance[L, int], in ir.Instruction) []sparse.Mapping[int] {
		calls++
		if calls > 2000000 {
			panic("diverges: more than 2000000 transfer calls")
		}
		sp := specs[idx[in]]
		var ms []sparse.Mapping[int]
		for _, x := range sp.pre {
			ms = append(ms, sparse.M(x.val, x.code, sparse.Decision{Source: true}))
		}
		switch sp.kind {
		case "u":
			d := l.Ident()
			for _, o := range sp.ops {
				d = l.Merge(d, ins.Value(o))
			}
			ms = append(ms, sparse.M(in.(ir.Value), tabs[sp.tab].t[d], sparse.Decision{Inputs: sp.ops}))
		case "b":
			a, b := ins.Value(sp.ops[0]), ins.Value(sp.ops[1])
			ms = append(ms, sparse.M(in.(ir.Value), tabs[sp.tab].t[a*size+b], sparse.Decision{Inputs: sp.ops}))
		case "s":
			d := l.Ident()
			for _, o := range sp.ops {
				d = l.Merge(d, ins.Value(o))
			}
			ms = append(ms, sparse.M(sp.sum, d, sparse.Decision{Inputs: sp.ops, Description: "summary"}))
		}
		for _, x := range sp.post {
			ms = append(ms, sparse.M(x.val, x.code, sparse.Decision{Source: true}))
		}
		return ms
	}

	var inits []string
	for _, v := range others {
		if c, ok := initCode[v]; ok {
			inits = append(inits, fmt.Sprintf("%d=%d", valIdx[v], c))
		}
	}
	nvals := n + len(others)

	var results []string
	for run := 0; run < 3; run++ {
		calls = 0
		ins := &sparse.Instance[L, int]{Transfer: transfer, Mapping: map[ir.Value]sparse.Mapping[int]{}}
		for _, v := range others {
			if c, ok := initCode[v]; ok {
				ins.Set(v, c)
			}
		}
		// a panic of the real solver is part of the result (the dump is still printed)
		msg := func() (msg string) {
			defer func() {
				if r := recover(); r != nil {
					msg = "panic: " + strings.ReplaceAll(strings.ReplaceAll(fmt.Sprint(r), "\n", " "), " ~ ", " ")
				}
			}()
			ins.Forward(fn)
			return ""
		}()
		vals := make([]string, nvals)
		for i := range vals {
			vals[i] = strconv.Itoa(l.Ident())
		}
		for v, i := range valIdx {
			vals[i] = strconv.Itoa(ins.Value(v))
		}
		r := "val=" + strings.Join(vals, ",")
		if msg != "" {
			r = msg
		}
		dup := false
		for _, o := range results {
			if o == r {
				dup = true
			}
		}
		if !dup {
			results = append(results, r)
		}
	}

	showX := func(xs []xmap) string {
		var p []string
		for _, x := range xs {
			p = append(p, fmt.Sprintf("%d=%d", valIdx[x.val], x.code))
		}
		return joinOr(p)
	}
	var parts []string
	for i, in := range instrs {
		sp := specs[i]
		k := sp.kind
		if k == "u" || k == "b" {
			k += strconv.Itoa(sp.tab)
		}
		if k == "s" {
			k += strconv.Itoa(valIdx[sp.sum])
		}
		var ops, refs []string
		for _, o := range sp.ops {
			ops = append(ops, strconv.Itoa(valIdx[o]))
		}
		if r := in.Referrers(); r != nil {
			for _, ref := range *r {
				j, ok := idx[ref]
				if !ok {
					bad("referrer outside the function")
				}
				refs = append(refs, strconv.Itoa(j))
			}
		}
		parts = append(parts, k+":"+joinOr(ops)+":"+joinOr(refs)+":"+showX(sp.pre)+":"+showX(sp.post))
	}
	return fmt.Sprintf("sparse %s @ %d %d %s %s %s => %s", lat, n, nvals, strings.Join(parts, ";"),
		joinOr(inits), tabStr, strings.Join(results, " ~ "))
}

func joinOr(s []string) string {
	if len(s) == 0 {
		return "-"
	}
	return strings.Join(s, ",")
}
