package main

import (
	"encoding/hex"
	"fmt"
	"go/ast"
	"go/constant"
	"go/parser"
	"go/token"
	"go/types"
	"hash/fnv"
	"strconv"
	"strings"

	"honnef.co/go/tools/analysis/dfa"
	"honnef.co/go/tools/analysis/dfa/sparse"
	"honnef.co/go/tools/go/ir"
	"honnef.co/go/tools/go/ir/irutil"
)

// sparse <lat> <params> <tabs> <hexsrc>
//
// Builds the IR of function f of the given source with the real builder, runs the real
// sparse.Instance.Forward with a table-driven transfer and prints
//
//	sparse <lat> @ <n> <nvals> <instrs> <init> <tabs> => val=<code>,…
//
// i.e. the structure the solver saw (instructions in block order numbered 0..n-1, their
// Operands / Referrers as the real IR reports them, the transfer assigned to each) in the
// input format of the Lean model, followed by the final Instance.Value of every value.

type stab struct {
	binary bool
	t      []int
}

func sparseLine(line string) (res string) {
	defer func() {
		if r := recover(); r != nil {
			if b, ok := r.(badInput); ok {
				res = "bad-op " + b.msg
				return
			}
			panic(r)
		}
	}()
	tok := strings.Fields(line)
	if len(tok) != 5 || tok[0] != "sparse" {
		bad("sparse: want 5 tokens")
	}
	lat := tok[1]
	size := 0
	switch {
	case lat == "cp":
		size = 10
	case lat == "n5":
		size = 5
	case strings.HasPrefix(lat, "bits"):
		size = 1 << uint(atoi(lat[4:]))
	default:
		bad("lattice %q", lat)
	}
	var params []int
	for _, p := range splitList(",", tok[2]) {
		params = append(params, atoi(p))
	}
	var tabs []stab
	var unary, binary []int
	for i, t := range splitList(";", tok[3]) {
		p := strings.Split(t, ":")
		if len(p) != 2 {
			bad("table %q", t)
		}
		st := stab{binary: p[0] == "b"}
		for _, c := range strings.Split(p[1], ".") {
			st.t = append(st.t, atoi(c))
		}
		if st.binary && len(st.t) != size*size || !st.binary && len(st.t) != size {
			bad("table size")
		}
		tabs = append(tabs, st)
		if st.binary {
			binary = append(binary, i)
		} else {
			unary = append(unary, i)
		}
	}
	if len(unary) == 0 || len(binary) == 0 {
		bad("need a unary and a binary table")
	}
	src, err := hex.DecodeString(tok[4])
	if err != nil {
		bad("hex: %v", err)
	}

	fset := token.NewFileSet()
	file, err := parser.ParseFile(fset, "p.go", src, 0)
	if err != nil {
		return "bad-source " + strings.ReplaceAll(err.Error(), "\n", " ")
	}
	pkg := types.NewPackage("p", "p")
	ipkg, _, err := irutil.BuildPackage(&types.Config{}, fset, pkg, []*ast.File{file}, ir.BuilderMode(0))
	if err != nil {
		return "bad-source " + strings.ReplaceAll(err.Error(), "\n", " ")
	}
	fn := ipkg.Func("f")
	if fn == nil {
		bad("no function f")
	}

	switch {
	case lat == "cp":
		return sparseRun[flatLat](fn, lat, size, params, tabs, unary, binary, tok[3])
	case lat == "n5":
		return sparseRun[n5Lat](fn, lat, size, params, tabs, unary, binary, tok[3])
	default:
		return sparseRun[bitsLat](fn, lat, size, params, tabs, unary, binary, tok[3])
	}
}

type ispec struct {
	kind string // phi | none | u | b
	tab  int
	ops  []ir.Value
}

func sparseRun[L dfa.Semilattice[int]](fn *ir.Function, lat string, size int, params []int, tabs []stab, unary, binary []int, tabStr string) string {
	var l L
	// number the instructions
	var instrs []ir.Instruction
	idx := map[ir.Instruction]int{}
	for _, b := range fn.Blocks {
		for _, in := range b.Instrs {
			idx[in] = len(instrs)
			instrs = append(instrs, in)
		}
	}
	n := len(instrs)
	valIdx := map[ir.Value]int{}
	for i, in := range instrs {
		if v, ok := in.(ir.Value); ok {
			valIdx[v] = i
		}
	}
	var others []ir.Value
	numOf := func(v ir.Value) int {
		if i, ok := valIdx[v]; ok {
			return i
		}
		valIdx[v] = n + len(others)
		others = append(others, v)
		return valIdx[v]
	}
	hash := func(s string) int {
		h := fnv.New32a()
		h.Write([]byte(s))
		return int(h.Sum32() % 1000003)
	}

	specs := make([]ispec, n)
	for i, in := range instrs {
		var ops []ir.Value
		if phi, ok := in.(*ir.Phi); ok {
			ops = append(ops, phi.Edges...)
		} else {
			for _, p := range in.Operands(nil) {
				if p != nil && *p != nil {
					ops = append(ops, *p)
				}
			}
		}
		sp := ispec{ops: ops}
		_, isVal := in.(ir.Value)
		switch in := in.(type) {
		case *ir.Phi:
			sp.kind = "phi"
		case *ir.BinOp:
			sp.kind, sp.tab = "b", binary[int(in.Op)%len(binary)]
			if len(ops) != 2 {
				bad("BinOp with %d operands", len(ops))
			}
		case *ir.UnOp:
			sp.kind, sp.tab = "u", unary[int(in.Op)%len(unary)]
		default:
			if isVal {
				sp.kind, sp.tab = "u", unary[hash(fmt.Sprintf("%T", in))%len(unary)]
			} else {
				sp.kind = "none"
			}
		}
		specs[i] = sp
		for _, o := range ops {
			numOf(o)
		}
	}

	calls := 0
	transfer := func(ins *sparse.Instance[L, int], in ir.Instruction) []sparse.Mapping[int] {
		calls++
		if calls > 2000000 {
			panic("diverges: more than 2000000 transfer calls")
		}
		sp := specs[idx[in]]
		switch sp.kind {
		case "u":
			d := l.Ident()
			for _, o := range sp.ops {
				d = l.Merge(d, ins.Value(o))
			}
			return []sparse.Mapping[int]{sparse.M(in.(ir.Value), tabs[sp.tab].t[d], sparse.Decision{})}
		case "b":
			a, b := ins.Value(sp.ops[0]), ins.Value(sp.ops[1])
			return []sparse.Mapping[int]{sparse.M(in.(ir.Value), tabs[sp.tab].t[a*size+b], sparse.Decision{})}
		}
		return nil
	}

	ins := &sparse.Instance[L, int]{Transfer: transfer, Mapping: map[ir.Value]sparse.Mapping[int]{}}
	// initial states of non-instruction values
	var inits []string
	for _, v := range others {
		code := -1
		switch v := v.(type) {
		case *ir.Parameter:
			for pi, p := range fn.Params {
				if p == v && pi < len(params) {
					code = params[pi]
				}
			}
		case *ir.Const:
			if v.Value != nil && v.Value.Kind() == constant.Int {
				if x, ok := constant.Int64Val(v.Value); ok {
					code = int(((x % int64(size)) + int64(size)) % int64(size))
				}
			}
		}
		if code >= 0 && code != l.Ident() {
			ins.Set(v, code)
			inits = append(inits, fmt.Sprintf("%d=%d", valIdx[v], code))
		}
	}

	ins.Forward(fn)

	var parts []string
	for i, in := range instrs {
		sp := specs[i]
		k := sp.kind
		if k == "u" || k == "b" {
			k += strconv.Itoa(sp.tab)
		}
		var ops, refs []string
		for _, o := range sp.ops {
			ops = append(ops, strconv.Itoa(valIdx[o]))
		}
		if r := in.Referrers(); r != nil {
			for _, ref := range *r {
				j, ok := idx[ref]
				if !ok {
					bad("referrer outside the function")
				}
				refs = append(refs, strconv.Itoa(j))
			}
		}
		parts = append(parts, k+":"+joinOr(ops)+":"+joinOr(refs))
	}
	nvals := n + len(others)
	vals := make([]string, nvals)
	for i := range vals {
		vals[i] = strconv.Itoa(l.Ident())
	}
	for v, i := range valIdx {
		vals[i] = strconv.Itoa(ins.Value(v))
	}
	return fmt.Sprintf("sparse %s @ %d %d %s %s %s => val=%s", lat, n, nvals, strings.Join(parts, ";"),
		joinOr(inits), tabStr, strings.Join(vals, ","))
}

func joinOr(s []string) string {
	if len(s) == 0 {
		return "-"
	}
	return strings.Join(s, ",")
}
