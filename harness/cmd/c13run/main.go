// Command c13run drives the real analysis/dfa code of /repo for property C13.
//
//	c13run table            print the real nilness latticeMerge table and Ident
//	c13run dense  < cases   run the real dense.Forward on each case line
//	c13run sparse < cases   build IR from generated Go source, run the real sparse.Forward
//	c13run laws   < cases   evaluate the real MapLattice / DenseMapLattice / nilness lattice
//
// One output line per input line. See checks/c13.py for the case formats.
package main

import (
	"bufio"
	"fmt"
	"os"
	"strings"
	"time"
)

func main() {
	if len(os.Args) < 2 {
		fmt.Fprintln(os.Stderr, "usage: c13run table|dense|sparse|laws")
		os.Exit(2)
	}
	var f func(string) string
	switch os.Args[1] {
	case "table":
		printTable()
		return
	case "dense":
		f = denseLine
	case "sparse":
		f = sparseLine
	case "laws":
		f = lawsLine
	default:
		fmt.Fprintln(os.Stderr, "unknown mode")
		os.Exit(2)
	}
	in := bufio.NewReaderSize(os.Stdin, 1<<20)
	out := bufio.NewWriterSize(os.Stdout, 1<<20)
	defer out.Flush()
	dead := false
	for {
		line, err := in.ReadString('\n')
		if line == "" && err != nil {
			break
		}
		line = strings.TrimRight(line, "\n")
		if dead {
			fmt.Fprintln(out, "skipped")
		} else {
			res, timedOut := guarded(f, line)
			if timedOut {
				// the real solver is still spinning in its goroutine; nothing more can be
				// run reliably in this process
				dead = true
			}
			fmt.Fprintln(out, res)
		}
		if err != nil {
			break
		}
	}
}

// guarded runs f(line), turning a panic of the real code into "panic: …" and a hang
// into "timeout".
func guarded(f func(string) string, line string) (string, bool) {
	ch := make(chan string, 1)
	go func() {
		defer func() {
			if r := recover(); r != nil {
				msg := strings.ReplaceAll(fmt.Sprint(r), "\n", " ")
				ch <- "panic: " + msg
			}
		}()
		ch <- f(line)
	}()
	select {
	case r := <-ch:
		return r, false
	case <-time.After(20 * time.Second):
		return "timeout", true
	}
}

type badInput struct{ msg string }

func bad(format string, args ...any) {
	panic(badInput{fmt.Sprintf(format, args...)})
}
