package main

import (
	"fmt"
	"iter"
	"slices"
	"strconv"
	"strings"

	"honnef.co/go/tools/analysis/dfa"
	"honnef.co/go/tools/analysis/dfa/dense"
	"honnef.co/go/tools/analysis/facts/nilness"
)

// ---- graph adapters: the three paths of graph.Compact

// intGraph: NodeID int, not marked compact (sorted-integer index).
type intGraph struct {
	n   int
	out [][]int
}

func (g *intGraph) NumNodes() int { return g.n }
func (g *intGraph) Nodes() iter.Seq[int] {
	return func(yield func(int) bool) {
		for i := range g.n {
			if !yield(i) {
				return
			}
		}
	}
}
func (g *intGraph) Out(n int) iter.Seq[int] { return slices.Values(g.out[n]) }

// cmpGraph: a CompactGraph (identity index).
type cmpGraph struct{ intGraph }

func (g *cmpGraph) IsCompact() {}

// strGraph: NodeID string, listed in reverse order (hash index, different numbering
// and therefore a different schedule).
type strGraph struct {
	n   int
	out [][]int
}

func nodeName(i int) string { return "n" + strconv.Itoa(i) }

func (g *strGraph) NumNodes() int { return g.n }
func (g *strGraph) Nodes() iter.Seq[string] {
	return func(yield func(string) bool) {
		for i := g.n - 1; i >= 0; i-- {
			if !yield(nodeName(i)) {
				return
			}
		}
	}
}
func (g *strGraph) Out(n string) iter.Seq[string] {
	i, _ := strconv.Atoi(n[1:])
	return func(yield func(string) bool) {
		for _, s := range g.out[i] {
			if !yield(nodeName(s)) {
				return
			}
		}
	}
}

// ---- case

type opT struct {
	kind    byte
	x, y, z int // z doubles as the constant
}

type dcase struct {
	impl, ids, lat string
	k, n           int
	edges          [][2]int
	entry          map[int][]int
	trs            map[[2]int][]opT
	calls          int
}

func splitList(sep, s string) []string {
	if s == "-" {
		return nil
	}
	return strings.Split(s, sep)
}

func parseVec(s string, k int) []int {
	p := strings.Split(s, ".")
	if len(p) != k {
		bad("fact %q: want %d elements", s, k)
	}
	v := make([]int, k)
	for i := range p {
		v[i] = atoi(p[i])
	}
	return v
}

func showVec(v []int) string {
	p := make([]string, len(v))
	for i := range v {
		p[i] = strconv.Itoa(v[i])
	}
	return strings.Join(p, ".")
}

func parseDense(tok []string) *dcase {
	// impl ids dense lat k sched n edges entry trs
	if len(tok) != 10 || tok[2] != "dense" {
		bad("dense: want 10 tokens")
	}
	c := &dcase{impl: tok[0], ids: tok[1], lat: tok[3], k: atoi(tok[4]), n: atoi(tok[6]),
		entry: map[int][]int{}, trs: map[[2]int][]opT{}}
	for _, e := range splitList(",", tok[7]) {
		p := strings.Split(e, ">")
		if len(p) != 2 {
			bad("edge %q", e)
		}
		c.edges = append(c.edges, [2]int{atoi(p[0]), atoi(p[1])})
	}
	for _, e := range splitList(";", tok[8]) {
		p := strings.Split(e, "=")
		if len(p) != 2 {
			bad("entry %q", e)
		}
		c.entry[atoi(p[0])] = parseVec(p[1], c.k)
	}
	trs := splitList(";", tok[9])
	if len(trs) != len(c.edges) {
		bad("transfers/edges mismatch")
	}
	for i, t := range trs {
		var ops []opT
		if t != "id" {
			for _, o := range strings.Split(t, ",") {
				p := strings.Split(o, ".")
				op := opT{kind: p[0][0]}
				switch {
				case (p[0] == "s" || p[0] == "c") && len(p) == 3:
					op.x, op.y = atoi(p[1]), atoi(p[2])
				case (p[0] == "m" || p[0] == "j" || p[0] == "a" || p[0] == "p") && len(p) == 4:
					op.x, op.y, op.z = atoi(p[1]), atoi(p[2]), atoi(p[3])
				default:
					bad("op %q", o)
				}
				ops = append(ops, op)
			}
		}
		if _, dup := c.trs[c.edges[i]]; !dup {
			c.trs[c.edges[i]] = ops
		}
	}
	return c
}

func cpAddC(v, c int) int {
	if v < 2 {
		return v
	}
	return (v-2+c)%8 + 2
}

func cpAdd(a, b int) int {
	switch {
	case a == 1 || b == 1:
		return 1
	case a == 0 || b == 0:
		return 0
	}
	return (a-2+b-2)%8 + 2
}

// apply runs the ops of edge (from,to) on a copy of the fact (as element codes);
// element merges go through the element lattice's real Merge.
func (c *dcase) apply(from, to int, v []int, merge func(a, b int) int) []int {
	c.calls++
	if c.calls > 2000000 {
		panic("diverges: more than 2000000 transfer calls")
	}
	ops, ok := c.trs[[2]int{from, to}]
	if !ok {
		panic(fmt.Sprintf("transfer called for a non-edge %d->%d", from, to))
	}
	for _, o := range ops {
		switch o.kind {
		case 's':
			v[o.x] = o.y
		case 'c':
			v[o.x] = v[o.y]
		case 'm':
			v[o.x] = merge(v[o.y], v[o.z])
		case 'j':
			v[o.x] = merge(v[o.y], o.z)
		case 'a':
			v[o.x] = cpAddC(v[o.y], o.z)
		case 'p':
			v[o.x] = cpAdd(v[o.y], v[o.z])
		}
	}
	return v
}

// runRep runs the real dense.Forward with lattice L over fact representation F.
func runRep[L dfa.Semilattice[F], F any](c *dcase, fromVec func([]int) F, toVec func(F) []int, merge func(a, b int) int) string {
	out := make([][]int, c.n)
	for _, e := range c.edges {
		out[e[0]] = append(out[e[0]], e[1])
	}
	ins := make([][]int, c.n)
	edgeF := make([][]int, len(c.edges))
	switch c.ids {
	case "int", "cmp":
		entry := map[int]F{}
		for n, v := range c.entry {
			entry[n] = fromVec(v)
		}
		tr := func(from, to int, f F) F { return fromVec(c.apply(from, to, toVec(f), merge)) }
		var a *dense.Analysis[F, int]
		if c.ids == "int" {
			a = dense.Forward[L](&intGraph{c.n, out}, entry, tr)
		} else {
			a = dense.Forward[L](&cmpGraph{intGraph{c.n, out}}, entry, tr)
		}
		for i := range c.n {
			ins[i] = toVec(a.In(i))
		}
		for i, e := range c.edges {
			edgeF[i] = toVec(a.Edge(e[0], e[1]))
		}
	case "str":
		entry := map[string]F{}
		for n, v := range c.entry {
			entry[nodeName(n)] = fromVec(v)
		}
		tr := func(from, to string, f F) F {
			fi, _ := strconv.Atoi(from[1:])
			ti, _ := strconv.Atoi(to[1:])
			return fromVec(c.apply(fi, ti, toVec(f), merge))
		}
		a := dense.Forward[L](&strGraph{c.n, out}, entry, tr)
		for i := range c.n {
			ins[i] = toVec(a.In(nodeName(i)))
		}
		for i, e := range c.edges {
			edgeF[i] = toVec(a.Edge(nodeName(e[0]), nodeName(e[1])))
		}
	default:
		bad("ids %q", c.ids)
	}
	var sb strings.Builder
	sb.WriteString("in=")
	for i, v := range ins {
		if i > 0 {
			sb.WriteByte('|')
		}
		sb.WriteString(showVec(v))
	}
	sb.WriteString(";out=")
	if len(edgeF) == 0 {
		sb.WriteByte('-')
	}
	for i, v := range edgeF {
		if i > 0 {
			sb.WriteByte('|')
		}
		sb.WriteString(showVec(v))
	}
	return sb.String()
}

// representations of a k-vector of element codes

func dmRep(k, ident int) (func([]int) []int, func([]int) []int) {
	from := func(v []int) []int {
		// shortest representative: drop trailing Ident elements (nil when all Ident)
		n := len(v)
		for n > 0 && v[n-1] == ident {
			n--
		}
		if n == 0 {
			return nil
		}
		return slices.Clone(v[:n])
	}
	to := func(f []int) []int {
		v := make([]int, k)
		for i := range v {
			v[i] = ident
			if i < len(f) {
				v[i] = f[i]
			}
		}
		return v
	}
	return from, to
}

func mapRep(k, ident int) (func([]int) map[int]int, func(map[int]int) []int) {
	from := func(v []int) map[int]int {
		var m map[int]int
		for i, x := range v {
			if x != ident {
				if m == nil {
					m = map[int]int{}
				}
				m[i] = x
			}
		}
		return m
	}
	to := func(m map[int]int) []int {
		v := make([]int, k)
		for i := range v {
			v[i] = ident
			if x, ok := m[i]; ok {
				v[i] = x
			}
		}
		return v
	}
	return from, to
}

func denseLine(line string) (res string) {
	defer func() {
		if r := recover(); r != nil {
			if b, ok := r.(badInput); ok {
				res = "bad-op " + b.msg
				return
			}
			panic(r)
		}
	}()
	c := parseDense(strings.Fields(line))
	key := c.lat + "/" + c.impl
	switch key {
	case "or/bits":
		if c.k > 60 {
			bad("k too large")
		}
		from := func(v []int) uint64 {
			var b uint64
			for i, x := range v {
				if x != 0 {
					b |= 1 << uint(i)
				}
			}
			return b
		}
		to := func(b uint64) []int {
			v := make([]int, c.k)
			for i := range v {
				v[i] = int(b >> uint(i) & 1)
			}
			return v
		}
		return runRep[orBits](c, from, to, orElem{}.Merge)
	case "or/inv":
		if c.k > 60 {
			bad("k too large")
		}
		// complemented storage: bits >= k stay set, so the all-absent vector is Ident
		from := func(v []int) uint64 {
			b := ^uint64(0)
			for i, x := range v {
				if x != 0 {
					b &^= 1 << uint(i)
				}
			}
			return b
		}
		to := func(b uint64) []int {
			v := make([]int, c.k)
			for i := range v {
				v[i] = int(^b >> uint(i) & 1)
			}
			return v
		}
		return runRep[orInv](c, from, to, orElem{}.Merge)
	case "and/bits":
		if c.k > 60 {
			bad("k too large")
		}
		from := func(v []int) uint64 {
			b := ^uint64(0)
			for i, x := range v {
				if x == 0 {
					b &^= 1 << uint(i)
				}
			}
			return b
		}
		to := func(b uint64) []int {
			v := make([]int, c.k)
			for i := range v {
				v[i] = int(b >> uint(i) & 1)
			}
			return v
		}
		return runRep[andBits](c, from, to, andElem{}.Merge)
	case "cp/arr":
		if c.k > 4 {
			bad("k too large")
		}
		from := func(v []int) cpVec {
			r := cpArr{}.Ident()
			for i, x := range v {
				r[i] = uint8(x) ^ 1
			}
			return r
		}
		to := func(f cpVec) []int {
			v := make([]int, c.k)
			for i := range v {
				v[i] = int(f[i] ^ 1)
			}
			return v
		}
		return runRep[cpArr](c, from, to, flatLat{}.Merge)
	case "ao/prod":
		if c.k > 60 {
			bad("k too large")
		}
		from := func(v []int) aoFact {
			f := aoProd{}.Ident()
			for i, x := range v {
				if x>>1 == 0 {
					f.must &^= 1 << uint(i)
				}
				if x&1 != 0 {
					f.may |= 1 << uint(i)
				}
			}
			return f
		}
		to := func(f aoFact) []int {
			v := make([]int, c.k)
			for i := range v {
				v[i] = int(f.must>>uint(i)&1)<<1 | int(f.may>>uint(i)&1)
			}
			return v
		}
		return runRep[aoProd](c, from, to, aoElem{}.Merge)
	case "ao/dm":
		f, t := dmRep(c.k, 2)
		return runRep[dfa.DenseMapLattice[int, aoElem]](c, f, t, aoElem{}.Merge)
	case "ao/map":
		f, t := mapRep(c.k, 2)
		return runRep[dfa.MapLattice[int, int, aoElem]](c, f, t, aoElem{}.Merge)
	case "or/dm":
		f, t := dmRep(c.k, 0)
		return runRep[dfa.DenseMapLattice[int, orElem]](c, f, t, orElem{}.Merge)
	case "or/map":
		f, t := mapRep(c.k, 0)
		return runRep[dfa.MapLattice[int, int, orElem]](c, f, t, orElem{}.Merge)
	case "and/dm":
		f, t := dmRep(c.k, 1)
		return runRep[dfa.DenseMapLattice[int, andElem]](c, f, t, andElem{}.Merge)
	case "and/map":
		f, t := mapRep(c.k, 1)
		return runRep[dfa.MapLattice[int, int, andElem]](c, f, t, andElem{}.Merge)
	case "cp/dm":
		f, t := dmRep(c.k, 0)
		return runRep[dfa.DenseMapLattice[int, flatLat]](c, f, t, flatLat{}.Merge)
	case "cp/map":
		f, t := mapRep(c.k, 0)
		return runRep[dfa.MapLattice[int, int, flatLat]](c, f, t, flatLat{}.Merge)
	case "nil/dm":
		// the lattice nilness.go itself uses with dense.Forward
		identCode := codeOfNil(nilLat{}.Ident())
		fi, ti := dmRep(c.k, identCode)
		from := func(v []int) []nilness.ValueNilness {
			s := fi(v)
			if s == nil {
				return nil
			}
			out := make([]nilness.ValueNilness, len(s))
			for i := range s {
				out[i] = nilOfCode(s[i])
			}
			return out
		}
		to := func(f []nilness.ValueNilness) []int {
			s := make([]int, len(f))
			for i := range f {
				s[i] = codeOfNil(f[i])
			}
			return ti(s)
		}
		merge := func(a, b int) int { return codeOfNil(nilLat{}.Merge(nilOfCode(a), nilOfCode(b))) }
		return runRep[dfa.DenseMapLattice[nilness.ValueNilness, nilLat]](c, from, to, merge)
	}
	return "bad-op lattice/impl " + key
}
