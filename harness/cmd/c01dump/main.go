// c01dump builds IR with the real go/ir builder of the repository under test for one
// package given as source files, once per requested builder mode, and dumps every
// function reachable from the package through the EXPORTED go/ir API only
// (Function.Blocks/Params/FreeVars/AnonFuncs/Recover, BasicBlock.Index/Preds/Succs/
// Instrs, Instruction.Operands order as documented by the struct fields, Value.Type/
// Name, exported fields of each instruction struct).
//
//	c01dump -modes N,L,ND,LD a.go b.go ...
//
// modes: N = ir.NaiveForm, L = default (lifted), suffix D = | ir.GlobalDebug, suffix I = | ir.InstantiateGenerics.
//
// Record format (one record per line, space separated, strings hex encoded, "-" = empty /
// absent):
//
//	prog <mode>
//	tkey <tid> <hexkey>          canonical key of the type (equal keys <=> types.Identical), follows its type record
//	type <tid> <kind> ...        basic <name> | named <hexname> <under> | ptr <elem> | slice <elem>
//	                             | array <len> <elem> | struct <n> <ftid>... | tuple <n> <tid>...
//	                             | sig | iface <n> <hexmethod>... | other <hexstring>
//	global <gid> <hexname> <elemtid>
//	func <fid> <hexname> <nparams> <nfree> <nresults> <recover bid|-> <nblocks> <external 0|1> <hexsynthetic> <restid>...
//	val <fid> <vid> <tid> <kind> ...    param <i> | free <i> | const nil | const int <dec> | const bool <0|1>
//	                             | const str <hex> | const other <hex> | global <gid> | func <fid> | builtin <hexname>
//	block <fid> <bid> <npreds> <pred>... <nsuccs> <succ>... <hexcomment>
//	ins <fid> <bid> <vid> <kind> <tid|-> <nops> <op vid|->... <nattrs> <attr>... <hexcomment>
//	endfunc <fid>
//	impl <ifacetid> <concretetid> <0|1>       for interface types asserted/switched on x types put into interfaces
//	method <concretetid> <hexmethodid> <fid>  method resolution for invoke
//	endprog
//
// types are hash-consed by types.Identical (typeutil.Map), so tid equality is type identity.
package main

import (
	"bufio"
	"encoding/hex"
	"flag"
	"fmt"
	"go/ast"
	"go/constant"
	"go/importer"
	"go/parser"
	"go/token"
	"go/types"
	"os"
	"sort"
	"strconv"
	"strings"

	"honnef.co/go/tools/go/ir"
	"honnef.co/go/tools/go/ir/irutil"
)

func hx(s string) string {
	if s == "" {
		return "-"
	}
	return hex.EncodeToString([]byte(s))
}

type dumper struct {
	w     *bufio.Writer
	prog  *ir.Program
	pkg   *ir.Package
	types map[string]int // canonical key of types.Type -> int
	ntype int
	tq    []string // type lines, emitted in order

	funcs  map[*ir.Function]int
	fqueue []*ir.Function

	globals map[*ir.Global]int

	ifaceTypes    []types.Type // asserted / switched interface types
	ifaceSeen     map[int]bool
	concreteTypes []types.Type // operand types of MakeInterface
	concreteSeen  map[int]bool
	invoked       map[string]bool // method ids used in invoke mode or bound
}

func (d *dumper) tid(t types.Type) int {
	if t == nil {
		return -1
	}
	t = types.Unalias(t)
	key := typeKey(t)
	if v, ok := d.types[key]; ok {
		return v
	}
	id := d.ntype
	d.ntype++
	d.types[key] = id
	idx := len(d.tq)
	d.tq = append(d.tq, "") // reserve the slot so that ids are emitted in order
	var line string
	switch t := t.(type) {
	case *types.Basic:
		line = "basic " + hx(t.Name())
	case *types.Alias:
		// identical to its target for types.Identical, so never reached with a fresh id
		// unless first seen as alias
		u := d.tidUnalias(types.Unalias(t))
		line = u
	case *types.Named:
		if t.TypeArgs().Len() == 0 && t.TypeParams().Len() > 0 {
			// an uninstantiated generic type
			line = "other " + hx(t.String())
		} else {
			line = fmt.Sprintf("named %s %d", hx(t.String()), d.tid(t.Underlying()))
		}
	case *types.Pointer:
		line = fmt.Sprintf("ptr %d", d.tid(t.Elem()))
	case *types.Slice:
		line = fmt.Sprintf("slice %d", d.tid(t.Elem()))
	case *types.Array:
		line = fmt.Sprintf("array %d %d", t.Len(), d.tid(t.Elem()))
	case *types.Struct:
		var sb strings.Builder
		fmt.Fprintf(&sb, "struct %d", t.NumFields())
		for i := 0; i < t.NumFields(); i++ {
			fmt.Fprintf(&sb, " %d", d.tid(t.Field(i).Type()))
		}
		line = sb.String()
	case *types.Tuple:
		var sb strings.Builder
		fmt.Fprintf(&sb, "tuple %d", t.Len())
		for i := 0; i < t.Len(); i++ {
			fmt.Fprintf(&sb, " %d", d.tid(t.At(i).Type()))
		}
		line = sb.String()
	case *types.Signature:
		line = "sig"
	case *types.Interface:
		var sb strings.Builder
		if t.IsMethodSet() {
			fmt.Fprintf(&sb, "iface %d", t.NumMethods())
			for i := 0; i < t.NumMethods(); i++ {
				fmt.Fprintf(&sb, " %s", hx(t.Method(i).Id()))
			}
			line = sb.String()
		} else {
			line = "other " + hx(t.String())
		}
	default:
		line = "other " + hx(t.String())
	}
	d.tq[idx] = fmt.Sprintf("type %d %s\ntkey %d %s", id, line, id, hx(key))
	return id
}

// typeKey is a canonical string for a type such that two types have the same key iff
// they are identical (types.Identical); go/ir's own pseudo types (iterator, deferStack)
// are handled by their String form.  (x/tools' typeutil.Map panics on those.)
func typeKey(t types.Type) string {
	var sb strings.Builder
	writeKey(&sb, t, 0)
	return sb.String()
}

func writeKey(sb *strings.Builder, t types.Type, depth int) {
	if depth > 50 {
		sb.WriteString("<deep>")
		return
	}
	switch t := t.(type) {
	case nil:
		sb.WriteString("<nil>")
	case *types.Basic:
		// byte/uint8 and rune/int32 are identical
		switch t.Kind() {
		case types.Uint8:
			sb.WriteString("uint8")
		case types.Int32:
			sb.WriteString("int32")
		default:
			sb.WriteString(t.Name())
		}
	case *types.Alias:
		writeKey(sb, types.Unalias(t), depth+1)
	case *types.Named:
		obj := t.Obj()
		sb.WriteString("N(")
		if obj.Pkg() != nil {
			sb.WriteString(obj.Pkg().Path())
		}
		fmt.Fprintf(sb, ".%s@%d", obj.Name(), obj.Pos())
		if ta := t.TypeArgs(); ta != nil {
			for i := 0; i < ta.Len(); i++ {
				sb.WriteByte(',')
				writeKey(sb, ta.At(i), depth+1)
			}
		}
		sb.WriteByte(')')
	case *types.TypeParam:
		fmt.Fprintf(sb, "TP(%s@%d)", t.Obj().Name(), t.Obj().Pos())
	case *types.Pointer:
		sb.WriteByte('*')
		writeKey(sb, t.Elem(), depth+1)
	case *types.Slice:
		sb.WriteString("[]")
		writeKey(sb, t.Elem(), depth+1)
	case *types.Array:
		fmt.Fprintf(sb, "[%d]", t.Len())
		writeKey(sb, t.Elem(), depth+1)
	case *types.Map:
		sb.WriteString("map[")
		writeKey(sb, t.Key(), depth+1)
		sb.WriteByte(']')
		writeKey(sb, t.Elem(), depth+1)
	case *types.Chan:
		fmt.Fprintf(sb, "chan%d ", t.Dir())
		writeKey(sb, t.Elem(), depth+1)
	case *types.Struct:
		sb.WriteString("struct{")
		for i := 0; i < t.NumFields(); i++ {
			f := t.Field(i)
			if !f.Exported() && f.Pkg() != nil {
				sb.WriteString(f.Pkg().Path())
				sb.WriteByte('.')
			}
			fmt.Fprintf(sb, "%s %v ", f.Name(), f.Embedded())
			writeKey(sb, f.Type(), depth+1)
			fmt.Fprintf(sb, " %q;", t.Tag(i))
		}
		sb.WriteByte('}')
	case *types.Tuple:
		sb.WriteByte('(')
		for i := 0; i < t.Len(); i++ {
			writeKey(sb, t.At(i).Type(), depth+1)
			sb.WriteByte(',')
		}
		sb.WriteByte(')')
	case *types.Signature:
		sb.WriteString("func")
		writeKey(sb, t.Params(), depth+1)
		writeKey(sb, t.Results(), depth+1)
		fmt.Fprintf(sb, "%v", t.Variadic())
	case *types.Interface:
		sb.WriteString("interface{")
		for i := 0; i < t.NumMethods(); i++ {
			m := t.Method(i)
			sb.WriteString(m.Id())
			writeKey(sb, m.Type(), depth+1)
			sb.WriteByte(';')
		}
		if !t.IsMethodSet() {
			sb.WriteString(t.String())
		}
		sb.WriteByte('}')
	default:
		fmt.Fprintf(sb, "%T:%s", t, t.String())
	}
}

func (d *dumper) tidUnalias(t types.Type) string {
	// an alias seen first: describe the target structurally by delegating
	switch t := t.(type) {
	case *types.Basic:
		return "basic " + hx(t.Name())
	}
	return "other " + hx(t.String())
}

func (d *dumper) flushTypes() {
	for _, l := range d.tq {
		fmt.Fprintln(d.w, l)
	}
	d.tq = d.tq[:0]
}

func (d *dumper) fid(f *ir.Function) int {
	if id, ok := d.funcs[f]; ok {
		return id
	}
	id := len(d.funcs)
	d.funcs[f] = id
	d.fqueue = append(d.fqueue, f)
	return id
}

func (d *dumper) gid(g *ir.Global) int {
	if id, ok := d.globals[g]; ok {
		return id
	}
	id := len(d.globals)
	d.globals[g] = id
	elem := g.Type().Underlying().(*types.Pointer).Elem()
	t := d.tid(elem)
	d.flushTypes()
	fmt.Fprintf(d.w, "global %d %s %d\n", id, hx(g.Name()), t)
	return id
}

func (d *dumper) noteIface(t types.Type) {
	if !types.IsInterface(t) {
		return
	}
	id := d.tid(t)
	if !d.ifaceSeen[id] {
		d.ifaceSeen[id] = true
		d.ifaceTypes = append(d.ifaceTypes, t)
	}
}

func (d *dumper) noteConcrete(t types.Type) {
	if types.IsInterface(t) {
		return
	}
	id := d.tid(t)
	if !d.concreteSeen[id] {
		d.concreteSeen[id] = true
		d.concreteTypes = append(d.concreteTypes, t)
	}
}

var binops = map[token.Token]string{
	token.ADD: "add", token.SUB: "sub", token.MUL: "mul", token.QUO: "quo", token.REM: "rem",
	token.AND: "and", token.OR: "or", token.XOR: "xor", token.SHL: "shl", token.SHR: "shr",
	token.AND_NOT: "andnot", token.EQL: "eql", token.NEQ: "neq", token.LSS: "lss", token.LEQ: "leq",
	token.GTR: "gtr", token.GEQ: "geq",
}
var unops = map[token.Token]string{token.NOT: "not", token.SUB: "neg", token.XOR: "compl"}

type fctx struct {
	d    *dumper
	fn   *ir.Function
	id   int
	vals map[ir.Value]int
	nval int
	late []string // val records of non-instruction operands
}

func (c *fctx) vid(v ir.Value) string {
	if v == nil {
		return "-"
	}
	if id, ok := c.vals[v]; ok {
		return strconv.Itoa(id)
	}
	id := c.nval
	c.nval++
	c.vals[v] = id
	d := c.d
	t := d.tid(v.Type())
	var desc string
	switch v := v.(type) {
	case *ir.Const:
		if v.Value == nil {
			desc = "const nil"
		} else {
			switch v.Value.Kind() {
			case constant.Int:
				desc = "const int " + v.Value.ExactString()
			case constant.Bool:
				if constant.BoolVal(v.Value) {
					desc = "const bool 1"
				} else {
					desc = "const bool 0"
				}
			case constant.String:
				desc = "const str " + hx(constant.StringVal(v.Value))
			default:
				// a float constant of integer type etc.
				if b, ok := v.Type().Underlying().(*types.Basic); ok && b.Info()&types.IsInteger != 0 {
					if iv := constant.ToInt(v.Value); iv.Kind() == constant.Int {
						desc = "const int " + iv.ExactString()
						break
					}
				}
				desc = "const other " + hx(v.Value.ExactString())
			}
		}
	case *ir.Global:
		desc = fmt.Sprintf("global %d", d.gid(v))
	case *ir.Function:
		desc = fmt.Sprintf("func %d", d.fid(v))
	case *ir.Builtin:
		desc = "builtin " + hx(v.Name())
	default:
		// an instruction / parameter / free variable of ANOTHER function or an unknown value kind
		desc = "foreign " + hx(fmt.Sprintf("%T", v))
	}
	c.late = append(c.late, fmt.Sprintf("val %d %d %d %s", c.id, id, t, desc))
	return strconv.Itoa(id)
}

func (c *fctx) ops(vs ...ir.Value) []string {
	out := make([]string, len(vs))
	for i, v := range vs {
		out[i] = c.vid(v)
	}
	return out
}

func (c *fctx) callAttrs(cc *ir.CallCommon) (ops []string, attrs []string) {
	d := c.d
	if cc.IsInvoke() {
		ops = append(ops, c.vid(cc.Value))
		attrs = []string{"invoke", hx(cc.Method.Id())}
		d.invoked[cc.Method.Id()] = true
		d.noteIface(cc.Value.Type())
	} else {
		switch v := cc.Value.(type) {
		case *ir.Function:
			ops = append(ops, c.vid(v))
			attrs = []string{"static", strconv.Itoa(d.fid(v))}
		case *ir.Builtin:
			ops = append(ops, c.vid(v))
			attrs = []string{"builtin", hx(v.Name())}
		default:
			ops = append(ops, c.vid(v))
			attrs = []string{"dyn"}
		}
	}
	for _, a := range cc.Args {
		ops = append(ops, c.vid(a))
	}
	return
}

func (d *dumper) dumpFunc(fn *ir.Function) {
	id := d.funcs[fn]
	c := &fctx{d: d, fn: fn, id: id, vals: map[ir.Value]int{}}
	sig := fn.Signature
	rec := "-"
	if fn.Recover != nil {
		rec = strconv.Itoa(fn.Recover.Index)
	}
	ext := 0
	if fn.Blocks == nil {
		ext = 1
	}
	var lines []string
	// number params, free vars, then all instructions in block order
	for i, p := range fn.Params {
		c.vals[p] = c.nval
		lines = append(lines, fmt.Sprintf("val %d %d %d param %d", id, c.nval, d.tid(p.Type()), i))
		c.nval++
	}
	for i, p := range fn.FreeVars {
		c.vals[p] = c.nval
		lines = append(lines, fmt.Sprintf("val %d %d %d free %d", id, c.nval, d.tid(p.Type()), i))
		c.nval++
	}
	type insid struct {
		ins ir.Instruction
		id  int
	}
	var all [][]insid
	for _, b := range fn.Blocks {
		var l []insid
		for _, ins := range b.Instrs {
			n := c.nval
			c.nval++
			if v, ok := ins.(ir.Value); ok {
				c.vals[v] = n
			}
			l = append(l, insid{ins, n})
		}
		all = append(all, l)
	}
	for bi, b := range fn.Blocks {
		var sb strings.Builder
		fmt.Fprintf(&sb, "block %d %d %d", id, b.Index, len(b.Preds))
		for _, p := range b.Preds {
			fmt.Fprintf(&sb, " %d", p.Index)
		}
		fmt.Fprintf(&sb, " %d", len(b.Succs))
		for _, p := range b.Succs {
			fmt.Fprintf(&sb, " %d", p.Index)
		}
		fmt.Fprintf(&sb, " %s", hx(b.Comment))
		lines = append(lines, sb.String())
		for _, ii := range all[bi] {
			lines = append(lines, c.dumpInstr(b, ii.ins, ii.id))
		}
	}
	var rts []string
	for i := 0; i < sig.Results().Len(); i++ {
		rts = append(rts, strconv.Itoa(d.tid(sig.Results().At(i).Type())))
	}
	d.flushTypes()
	np := len(fn.Params)
	if ext == 1 {
		np = sig.Params().Len()
		if sig.Recv() != nil {
			np++
		}
	}
	fmt.Fprintf(d.w, "func %d %s %d %d %d %s %d %d %s %s\n", id, hx(fn.String()), np, len(fn.FreeVars),
		sig.Results().Len(), rec, len(fn.Blocks), ext, hx(fn.Synthetic), strings.Join(rts, " "))
	for _, l := range lines {
		fmt.Fprintln(d.w, l)
	}
	for _, l := range c.late {
		fmt.Fprintln(d.w, l)
	}
	fmt.Fprintf(d.w, "endfunc %d %d\n", id, c.nval)
	for _, a := range fn.AnonFuncs {
		d.fid(a)
	}
}

func (c *fctx) dumpInstr(b *ir.BasicBlock, ins ir.Instruction, vid int) string {
	d := c.d
	kind := ""
	ty := "-"
	if v, ok := ins.(ir.Value); ok {
		ty = strconv.Itoa(d.tid(v.Type()))
	}
	var ops, attrs []string
	switch ins := ins.(type) {
	case *ir.Alloc:
		kind = "alloc"
		h := "0"
		if ins.Heap {
			h = "1"
		}
		// the source position identifies the variable (lift.go's "split alloc" inherits it)
		attrs = []string{h, strconv.Itoa(int(ins.Pos()))}
	case *ir.Phi:
		kind = "phi"
		ops = c.ops(ins.Edges...)
	case *ir.Call:
		kind = "call"
		ops, attrs = c.callAttrs(&ins.Call)
	case *ir.Defer:
		kind = "defer"
		ops, attrs = c.callAttrs(&ins.Call)
		ops = append(ops, c.vid(ins.DeferStack))
	case *ir.Go:
		kind = "go"
		ops, attrs = c.callAttrs(&ins.Call)
	case *ir.BinOp:
		kind = "binop"
		ops = c.ops(ins.X, ins.Y)
		o, ok := binops[ins.Op]
		if !ok {
			o = "unknown"
		}
		attrs = []string{o}
	case *ir.UnOp:
		kind = "unop"
		ops = c.ops(ins.X)
		o, ok := unops[ins.Op]
		if !ok {
			o = "unknown"
		}
		attrs = []string{o}
	case *ir.Load:
		kind = "load"
		ops = c.ops(ins.X)
	case *ir.Store:
		kind = "store"
		ops = c.ops(ins.Addr, ins.Val)
	case *ir.BlankStore:
		kind = "blankstore"
		ops = c.ops(ins.Val)
	case *ir.ChangeType:
		kind = "changetype"
		ops = c.ops(ins.X)
	case *ir.Convert:
		kind = "convert"
		ops = c.ops(ins.X)
	case *ir.ChangeInterface:
		kind = "changeinterface"
		ops = c.ops(ins.X)
	case *ir.MakeInterface:
		kind = "makeinterface"
		ops = c.ops(ins.X)
		d.noteConcrete(ins.X.Type())
		attrs = []string{strconv.Itoa(d.tid(ins.X.Type()))}
	case *ir.MakeClosure:
		kind = "makeclosure"
		ops = c.ops(ins.Fn)
		ops = append(ops, c.ops(ins.Bindings...)...)
		attrs = []string{strconv.Itoa(d.fid(ins.Fn.(*ir.Function)))}
	case *ir.MakeSlice:
		kind = "makeslice"
		ops = c.ops(ins.Len, ins.Cap)
	case *ir.Slice:
		kind = "slice"
		ops = c.ops(ins.X, ins.Low, ins.High, ins.Max)
	case *ir.FieldAddr:
		kind = "fieldaddr"
		ops = c.ops(ins.X)
		attrs = []string{strconv.Itoa(ins.Field)}
	case *ir.Field:
		kind = "field"
		ops = c.ops(ins.X)
		attrs = []string{strconv.Itoa(ins.Field)}
	case *ir.IndexAddr:
		kind = "indexaddr"
		ops = c.ops(ins.X, ins.Index)
	case *ir.Index:
		kind = "index"
		ops = c.ops(ins.X, ins.Index)
	case *ir.StringLookup:
		kind = "stringlookup"
		ops = c.ops(ins.X, ins.Index)
	case *ir.Range:
		kind = "range"
		ops = c.ops(ins.X)
	case *ir.Next:
		kind = "next"
		ops = c.ops(ins.Iter)
		s := "0"
		if ins.IsString {
			s = "1"
		}
		attrs = []string{s}
	case *ir.TypeAssert:
		kind = "typeassert"
		ops = c.ops(ins.X)
		ok := "0"
		if ins.CommaOk {
			ok = "1"
		}
		attrs = []string{strconv.Itoa(d.tid(ins.AssertedType)), ok}
		d.noteIface(ins.AssertedType)
		d.noteIface(ins.X.Type())
	case *ir.TypeSwitch:
		kind = "typeswitch"
		ops = c.ops(ins.Tag)
		for _, t := range ins.Conds {
			attrs = append(attrs, strconv.Itoa(d.tid(t)))
			d.noteIface(t)
		}
		d.noteIface(ins.Tag.Type())
	case *ir.Extract:
		kind = "extract"
		ops = c.ops(ins.Tuple)
		attrs = []string{strconv.Itoa(ins.Index)}
	case *ir.Jump:
		kind = "jump"
	case *ir.Unreachable:
		kind = "unreachable"
	case *ir.If:
		kind = "if"
		ops = c.ops(ins.Cond)
	case *ir.ConstantSwitch:
		kind = "constantswitch"
		ops = c.ops(ins.Tag)
		ops = append(ops, c.ops(ins.Conds...)...)
	case *ir.Return:
		kind = "return"
		ops = c.ops(ins.Results...)
	case *ir.RunDefers:
		kind = "rundefers"
	case *ir.Panic:
		kind = "panic"
		ops = c.ops(ins.X)
	case *ir.DebugRef:
		kind = "debugref"
		ops = c.ops(ins.X)
		a := "0"
		if ins.IsAddr {
			a = "1"
		}
		attrs = []string{a}
	case *ir.CompositeValue:
		kind = "compositevalue"
		ops = c.ops(ins.Values...)
	case *ir.MapLookup:
		kind = "maplookup"
		ops = c.ops(ins.X, ins.Index)
	case *ir.MapUpdate:
		kind = "mapupdate"
		ops = c.ops(ins.Map, ins.Key, ins.Value)
	case *ir.MakeMap:
		kind = "makemap"
		ops = c.ops(ins.Reserve)
	case *ir.MakeChan:
		kind = "makechan"
		ops = c.ops(ins.Size)
	case *ir.Send:
		kind = "send"
		ops = c.ops(ins.Chan, ins.X)
	case *ir.Recv:
		kind = "recv"
		ops = c.ops(ins.Chan)
	case *ir.Select:
		kind = "select"
	case *ir.MultiConvert:
		kind = "multiconvert"
		ops = c.ops(ins.X)
	case *ir.SliceToArrayPointer:
		kind = "slicetoarrayptr"
		ops = c.ops(ins.X)
	case *ir.SliceToArray:
		kind = "slicetoarray"
		ops = c.ops(ins.X)
	default:
		kind = "unknown"
		var rands []*ir.Value
		for _, r := range ins.Operands(rands) {
			ops = append(ops, c.vid(*r))
		}
		attrs = []string{hx(fmt.Sprintf("%T", ins))}
	}
	var sb strings.Builder
	fmt.Fprintf(&sb, "ins %d %d %d %s %s %d", c.id, b.Index, vid, kind, ty, len(ops))
	for _, o := range ops {
		sb.WriteByte(' ')
		sb.WriteString(o)
	}
	fmt.Fprintf(&sb, " %d", len(attrs))
	for _, a := range attrs {
		sb.WriteByte(' ')
		sb.WriteString(a)
	}
	sb.WriteByte(' ')
	sb.WriteString(hx(ins.Comment()))
	return sb.String()
}

func (d *dumper) run() {
	// roots: package level functions (incl. methods and init) in name order
	var roots []*ir.Function
	roots = append(roots, d.pkg.Functions...)
	sort.SliceStable(roots, func(i, j int) bool { return roots[i].String() < roots[j].String() })
	for _, f := range roots {
		d.fid(f)
	}
	done := 0
	methodsDone := map[string]bool{}
	var methodLines []string
	for {
		for done < len(d.fqueue) {
			f := d.fqueue[done]
			done++
			d.dumpFunc(f)
		}
		// method resolution for every concrete type put into an interface
		grew := false
		for _, ct := range d.concreteTypes {
			ms := d.prog.MethodSets.MethodSet(ct)
			for i := 0; i < ms.Len(); i++ {
				sel := ms.At(i)
				key := fmt.Sprintf("%d/%s", d.tid(ct), sel.Obj().Id())
				if methodsDone[key] {
					continue
				}
				methodsDone[key] = true
				fn := d.prog.MethodValue(sel)
				if fn == nil {
					continue
				}
				n := len(d.fqueue)
				id := d.fid(fn)
				if len(d.fqueue) > n {
					grew = true
				}
				methodLines = append(methodLines, fmt.Sprintf("method %d %s %d", d.tid(ct), hx(sel.Obj().Id()), id))
			}
		}
		if !grew && done == len(d.fqueue) {
			break
		}
	}
	d.flushTypes()
	for _, l := range methodLines {
		fmt.Fprintln(d.w, l)
	}
	for _, it := range d.ifaceTypes {
		iface := it.Underlying().(*types.Interface)
		for _, ct := range d.concreteTypes {
			v := 0
			if types.Implements(ct, iface) {
				v = 1
			}
			fmt.Fprintf(d.w, "impl %d %d %d\n", d.tid(it), d.tid(ct), v)
		}
	}
	d.flushTypes()
}

func main() {
	modes := flag.String("modes", "N,L", "comma separated builder modes: N, L, ND, LD")
	flag.Parse()
	fset := token.NewFileSet()
	var files []*ast.File
	for _, fn := range flag.Args() {
		f, err := parser.ParseFile(fset, fn, nil, parser.ParseComments|parser.SkipObjectResolution)
		if err != nil {
			fmt.Fprintln(os.Stderr, "parse:", err)
			os.Exit(3)
		}
		files = append(files, f)
	}
	if len(files) == 0 {
		fmt.Fprintln(os.Stderr, "no source files")
		os.Exit(2)
	}
	w := bufio.NewWriterSize(os.Stdout, 1<<20)
	defer w.Flush()
	for _, m := range strings.Split(*modes, ",") {
		var mode ir.BuilderMode
		for _, c := range m {
			switch c {
			case 'N':
				mode |= ir.NaiveForm
			case 'L':
			case 'D':
				mode |= ir.GlobalDebug
			case 'I':
				mode |= ir.InstantiateGenerics
			default:
				fmt.Fprintln(os.Stderr, "unknown mode", m)
				os.Exit(2)
			}
		}
		pkg := types.NewPackage(files[0].Name.Name, files[0].Name.Name)
		tc := &types.Config{Importer: importer.ForCompiler(fset, "source", nil)}
		irpkg, _, err := irutil.BuildPackage(tc, fset, pkg, files, mode)
		if err != nil {
			fmt.Fprintln(os.Stderr, "typecheck:", err)
			os.Exit(3)
		}
		d := &dumper{w: w, prog: irpkg.Prog, pkg: irpkg, types: map[string]int{}, funcs: map[*ir.Function]int{}, globals: map[*ir.Global]int{},
			ifaceSeen: map[int]bool{}, concreteSeen: map[int]bool{}, invoked: map[string]bool{}}
		fmt.Fprintf(w, "prog %s\n", m)
		d.run()
		fmt.Fprintf(w, "endprog %s\n", m)
	}
}
