package main

import (
	"bufio"
	"bytes"
	"encoding/gob"
	"encoding/json"
	"errors"
	"fmt"
	"io"
	"os"
	"strings"
)

// cmdRoundtrip is the run-time tie of the mirror types to lintcmd's real gob types:
// every run of a file written by the real `staticcheck -f binary` is decoded into the
// mirror lintResult and encoded again with a fresh encoder; the two gob streams must be
// the same message for message. A gob stream consists of type definitions (struct
// name, field names, field types, in declaration order) followed by the value with its
// non-zero fields. Type ids are process-global counters and differ between the real
// binary and this one, so both streams are parsed (wire format of encoding/gob, see
// gobMessages) and the ids renumbered in order of definition; then
//   - the definitions must be equal: a field of lintcmd.diagnostic / lintResult /
//     runner.Diagnostic that was renamed, added, removed, retyped or reordered shows up
//     here, whether or not any value carries it;
//   - the value messages must be byte-identical: a field the mirror does not know is
//     dropped by the decoder and missing from the re-encoding.
func cmdRoundtrip(paths []string) int {
	type res struct {
		File   string   `json:"file"`
		Runs   int      `json:"runs"`
		Equal  bool     `json:"equal"`
		Detail string   `json:"detail,omitempty"`
		Real   []string `json:"real_types,omitempty"`
		Mirror []string `json:"mirror_types,omitempty"`
	}
	enc := json.NewEncoder(os.Stdout)
	for _, p := range paths {
		orig, err := os.ReadFile(p)
		if err != nil {
			fmt.Fprintln(os.Stderr, err)
			return 2
		}
		br := bufio.NewReader(bytes.NewReader(orig))
		var again bytes.Buffer
		n := 0
		r := res{File: p}
		for {
			var lr lintResult
			if err := gob.NewDecoder(br).Decode(&lr); err != nil {
				if err == io.EOF {
					break
				}
				r.Detail = "decode: " + err.Error()
				break
			}
			n++
			if err := gob.NewEncoder(&again).Encode(lr); err != nil {
				r.Detail = "encode: " + err.Error()
				break
			}
		}
		r.Runs = n
		if r.Detail == "" {
			a, err1 := gobMessages(orig)
			b, err2 := gobMessages(again.Bytes())
			switch {
			case err1 != nil:
				r.Detail = "cannot parse the real stream: " + err1.Error()
			case err2 != nil:
				r.Detail = "cannot parse the mirror stream: " + err2.Error()
			case len(a) != len(b):
				r.Detail = fmt.Sprintf("real stream has %d messages, mirror stream %d", len(a), len(b))
			default:
				r.Equal = true
				for i := range a {
					if a[i] != b[i] {
						r.Equal = false
						r.Detail = fmt.Sprintf("message %d differs: real %q, mirror %q", i, clip(a[i]), clip(b[i]))
						break
					}
				}
			}
			if !r.Equal {
				for _, m := range a {
					if strings.HasPrefix(m, "type ") {
						r.Real = append(r.Real, m)
					}
				}
				for _, m := range b {
					if strings.HasPrefix(m, "type ") {
						r.Mirror = append(r.Mirror, m)
					}
				}
			}
		}
		if err := enc.Encode(r); err != nil {
			fmt.Fprintln(os.Stderr, err)
			return 2
		}
	}
	return 0
}

func clip(s string) string {
	if len(s) > 300 {
		return s[:300] + "…"
	}
	return s
}

// ---- a reader for the documented wire format of encoding/gob (type definitions only)

type gobReader struct {
	b []byte
	i int
}

var errShort = errors.New("truncated gob data")

func (g *gobReader) uint() (uint64, error) {
	if g.i >= len(g.b) {
		return 0, errShort
	}
	c := g.b[g.i]
	g.i++
	if c < 128 {
		return uint64(c), nil
	}
	n := int(-int8(c))
	if n < 1 || n > 8 || g.i+n > len(g.b) {
		return 0, errShort
	}
	var v uint64
	for k := 0; k < n; k++ {
		v = v<<8 | uint64(g.b[g.i+k])
	}
	g.i += n
	return v, nil
}

func (g *gobReader) int() (int64, error) {
	u, err := g.uint()
	if err != nil {
		return 0, err
	}
	if u&1 != 0 {
		return ^int64(u >> 1), nil
	}
	return int64(u >> 1), nil
}

func (g *gobReader) str() (string, error) {
	n, err := g.uint()
	if err != nil {
		return "", err
	}
	if g.i+int(n) > len(g.b) {
		return "", errShort
	}
	s := string(g.b[g.i : g.i+int(n)])
	g.i += int(n)
	return s, nil
}

// fields iterates over the (field number, value) pairs of an encoded struct.
func (g *gobReader) fields(f func(num int) error) error {
	num := -1
	for {
		d, err := g.uint()
		if err != nil {
			return err
		}
		if d == 0 {
			return nil
		}
		num += int(d)
		if err := f(num); err != nil {
			return err
		}
	}
}

type gobNorm struct {
	ids map[int64]int
}

func (n *gobNorm) id(id int64) string {
	if id < 64 { // predeclared ids (bool, int, uint, float, []byte, string, complex, interface, wire types)
		return fmt.Sprintf("b%d", id)
	}
	k, ok := n.ids[id]
	if !ok {
		k = len(n.ids)
		n.ids[id] = k
	}
	return fmt.Sprintf("t%d", k)
}

// commonType {Name string; Id typeId}
func (g *gobReader) commonType(n *gobNorm) (string, error) {
	var name, id string
	err := g.fields(func(num int) error {
		switch num {
		case 0:
			s, err := g.str()
			name = s
			return err
		case 1:
			v, err := g.int()
			id = n.id(v)
			return err
		}
		return fmt.Errorf("CommonType field %d", num)
	})
	// names of unnamed composite types carry the package of their element type
	// ("[]lintcmd.diagnostic"); the mirror lives in package main, so qualifiers are dropped
	return unqualify(name) + "#" + id, err
}

func unqualify(name string) string {
	var out []byte
	start := 0
	for i := 0; i < len(name); i++ {
		c := name[i]
		isIdent := c == '_' || c >= '0' && c <= '9' || c >= 'a' && c <= 'z' || c >= 'A' && c <= 'Z' || c >= 0x80
		if c == '.' {
			out = out[:start] // drop the qualifier collected since the last non-identifier byte
			continue
		}
		out = append(out, c)
		if !isIdent {
			start = len(out)
		}
	}
	return string(out)
}

// wireType {ArrayT, SliceT, StructT, MapT, GobEncoderT, BinaryMarshalerT, TextMarshalerT}
func (g *gobReader) wireType(n *gobNorm) (string, error) {
	var out []string
	err := g.fields(func(kind int) error {
		names := []string{"array", "slice", "struct", "map", "gobencoder", "binarymarshaler", "textmarshaler"}
		if kind < 0 || kind >= len(names) {
			return fmt.Errorf("wireType field %d", kind)
		}
		parts := []string{names[kind]}
		err := g.fields(func(num int) error {
			switch {
			case num == 0: // embedded CommonType
				c, err := g.commonType(n)
				parts = append(parts, c)
				return err
			case kind == 2 && num == 1: // structType.Field []fieldType{Name string; Id typeId}
				cnt, err := g.uint()
				if err != nil {
					return err
				}
				for k := uint64(0); k < cnt; k++ {
					var fname, fid string
					if err := g.fields(func(fn int) error {
						switch fn {
						case 0:
							s, err := g.str()
							fname = s
							return err
						case 1:
							v, err := g.int()
							fid = n.id(v)
							return err
						}
						return fmt.Errorf("fieldType field %d", fn)
					}); err != nil {
						return err
					}
					parts = append(parts, fname+":"+fid)
				}
				return nil
			case (kind == 0 || kind == 1 || kind == 3) && num == 1: // Elem / Key
				v, err := g.int()
				parts = append(parts, "elem:"+n.id(v))
				return err
			case (kind == 0 || kind == 3) && num == 2: // Len / Elem
				v, err := g.int()
				if kind == 0 {
					parts = append(parts, fmt.Sprintf("len:%d", v))
				} else {
					parts = append(parts, "elem2:"+n.id(v))
				}
				return err
			}
			return fmt.Errorf("wire type kind %d field %d", kind, num)
		})
		out = append(out, strings.Join(parts, " "))
		return err
	})
	return strings.Join(out, " | "), err
}

// gobMessages splits a stream into its messages: "type <normalised id> <definition>" or
// "value <normalised id> <hex content>".
func gobMessages(b []byte) ([]string, error) {
	g := &gobReader{b: b}
	n := &gobNorm{ids: map[int64]int{}}
	var out []string
	for g.i < len(g.b) {
		l, err := g.uint()
		if err != nil {
			return nil, err
		}
		end := g.i + int(l)
		if end > len(g.b) {
			return nil, errShort
		}
		id, err := g.int()
		if err != nil {
			return nil, err
		}
		if id < 0 {
			sub := &gobReader{b: g.b[:end], i: g.i}
			def, err := sub.wireType(n)
			if err != nil {
				return nil, err
			}
			if sub.i != end {
				return nil, fmt.Errorf("type definition has %d unread bytes", end-sub.i)
			}
			out = append(out, "type "+n.id(-id)+" "+def)
		} else {
			out = append(out, fmt.Sprintf("value %s %x", n.id(id), g.b[g.i:end]))
		}
		g.i = end
	}
	return out, nil
}
