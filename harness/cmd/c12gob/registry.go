package main

import (
	"encoding/json"
	"fmt"
	"os"
	"sort"

	"honnef.co/go/tools/analysis/lint"
	"honnef.co/go/tools/quickfix"
	"honnef.co/go/tools/simple"
	"honnef.co/go/tools/staticcheck"
	"honnef.co/go/tools/stylecheck"
	"honnef.co/go/tools/unused"
)

// cmdRegistry prints, for the analyzers that cmd/staticcheck registers (same four
// AddAnalyzers calls, same order; quickfix is registered only with a debug flag and is
// listed with "default": false), the name and the merge strategy of the analyzer's
// documentation (lint.Analyzer.Doc.MergeIf). This is the real registry of the tree under
// test (the harness module replaces honnef.co/go/tools by it), not a copy.
func cmdRegistry() int {
	type entry struct {
		Name    string `json:"name"`
		MergeIf int    `json:"mergeif"`
		Default bool   `json:"default"`
		HasDoc  bool   `json:"hasdoc"`
	}
	var out []entry
	add := func(def bool, as ...*lint.Analyzer) {
		for _, a := range as {
			e := entry{Name: a.Analyzer.Name, Default: def, HasDoc: a.Doc != nil}
			if a.Doc != nil {
				e.MergeIf = int(a.Doc.MergeIf)
			}
			out = append(out, e)
		}
	}
	add(true, simple.Analyzers...)
	add(true, staticcheck.Analyzers...)
	add(true, stylecheck.Analyzers...)
	add(true, unused.Analyzer)
	add(false, quickfix.Analyzers...)
	sort.SliceStable(out, func(i, j int) bool { return out[i].Name < out[j].Name })
	res := struct {
		Analyzers []entry `json:"analyzers"`
		Any       int     `json:"merge_if_any"`
		All       int     `json:"merge_if_all"`
	}{out, int(lint.MergeIfAny), int(lint.MergeIfAll)}
	if err := json.NewEncoder(os.Stdout).Encode(res); err != nil {
		fmt.Fprintln(os.Stderr, err)
		return 2
	}
	return 0
}
