// c12gob crafts and decodes `staticcheck -f binary` run files for the C12 check.
//
// The binary run format of lintcmd is a sequence of gob streams, one per run, each
// holding one value of the unexported type lintcmd.lintResult. gob matches struct
// fields by name, so structurally identical local types (embedding the real, exported
// runner.Diagnostic and using the real lint.MergeStrategy) produce byte streams the
// real `staticcheck -merge` decodes, and decode what the real `-f binary` writes.
// No hook in /repo is needed.
//
//	c12gob run -bin <staticcheck> -dir <scratch> [-j N] < jobs.jsonl > results.jsonl
//	    job:    {"id":…, "files":[[run,…],…], "stdin":bool, "formats":["text","json"]}
//	    result: {"id":…, "out":{"text":{"rc":…,"stdout":…,"stderr":…}, …}}
//	    The runs of files[i] are written, in order, into one file (one fresh gob
//	    encoder per run, as lintcmd does); the real binary is run as
//	    `staticcheck -merge -f <format> file0 file1 …`, or with all files concatenated
//	    on stdin when "stdin" is set.
//	c12gob dump <file>…   decodes run files, prints {"runs":[run,…]} (one line per file)
//	c12gob registry       name and documented merge strategy of every analyzer cmd/staticcheck registers (registry.go)
//	c12gob roundtrip <file>…  decodes real -f binary files into the mirror types and re-encodes them; byte comparison (roundtrip.go)
//	c12gob lessfields <lintcmd/cmd.go>  field order of the sort comparator of printDiagnostics (lessfields.go)
package main

import (
	"bufio"
	"bytes"
	"encoding/gob"
	"encoding/json"
	"flag"
	"fmt"
	"go/token"
	"io"
	"os"
	"os/exec"
	"path/filepath"
	"sync"

	"honnef.co/go/tools/analysis/lint"
	"honnef.co/go/tools/lintcmd/runner"
)

// mirror of lintcmd.diagnostic / lintcmd.lintResult (field names and types)
type severity uint8

type diagnostic struct {
	runner.Diagnostic

	Severity  severity
	MergeIf   lint.MergeStrategy
	BuildName string
}

type lintResult struct {
	CheckedFiles []string
	Diagnostics  []diagnostic
	Warnings     []string
}

// JSON side
type jdiag struct {
	File    string `json:"file"`
	Off     int    `json:"off"`
	Line    int    `json:"line"`
	Col     int    `json:"col"`
	EFile   string `json:"efile"`
	EOff    int    `json:"eoff"`
	ELine   int    `json:"eline"`
	ECol    int    `json:"ecol"`
	Cat     string `json:"cat"`
	Msg     string `json:"msg"`
	Sev     int    `json:"sev"`
	MergeIf int    `json:"mergeif"`
	Build   string `json:"build"`
	// only filled by dump: positions of related information and suggested fixes
	Aux []jpos `json:"aux,omitempty"`
}

type jpos struct {
	File string `json:"file"`
	Off  int    `json:"off"`
}

type jrun struct {
	Checked []string `json:"checked"`
	Diags   []jdiag  `json:"diags"`
}

type job struct {
	ID      int      `json:"id"`
	Files   [][]jrun `json:"files"`
	Stdin   bool     `json:"stdin"`
	Formats []string `json:"formats"`
	// extra flags placed before -merge (e.g. -show-ignored)
	Args []string `json:"args,omitempty"`
}

type procOut struct {
	RC     int    `json:"rc"`
	Stdout string `json:"stdout"`
	Stderr string `json:"stderr"`
}

type result struct {
	ID  int                `json:"id"`
	Out map[string]procOut `json:"out"`
	Err string             `json:"err,omitempty"`
}

func toResult(r jrun) lintResult {
	res := lintResult{CheckedFiles: append([]string(nil), r.Checked...)}
	for _, d := range r.Diags {
		res.Diagnostics = append(res.Diagnostics, diagnostic{
			Diagnostic: runner.Diagnostic{
				Position: token.Position{Filename: d.File, Offset: d.Off, Line: d.Line, Column: d.Col},
				End:      token.Position{Filename: d.EFile, Offset: d.EOff, Line: d.ELine, Column: d.ECol},
				Category: d.Cat,
				Message:  d.Msg,
			},
			Severity:  severity(d.Sev),
			MergeIf:   lint.MergeStrategy(d.MergeIf),
			BuildName: d.Build,
		})
	}
	return res
}

func fromResult(res lintResult) jrun {
	r := jrun{Checked: append([]string{}, res.CheckedFiles...), Diags: []jdiag{}}
	for _, d := range res.Diagnostics {
		jd := jdiag{
			File: d.Position.Filename, Off: d.Position.Offset, Line: d.Position.Line, Col: d.Position.Column,
			EFile: d.End.Filename, EOff: d.End.Offset, ELine: d.End.Line, ECol: d.End.Column,
			Cat: d.Category, Msg: d.Message, Sev: int(d.Severity), MergeIf: int(d.MergeIf), Build: d.BuildName,
		}
		for _, rel := range d.Related {
			jd.Aux = append(jd.Aux, jpos{rel.Position.Filename, rel.Position.Offset}, jpos{rel.End.Filename, rel.End.Offset})
		}
		r.Diags = append(r.Diags, jd)
	}
	return r
}

func encodeRuns(runs []jrun) ([]byte, error) {
	var buf bytes.Buffer
	for _, r := range runs {
		// one encoder per run: lintcmd writes each run with gob.NewEncoder(os.Stdout).Encode(res)
		if err := gob.NewEncoder(&buf).Encode(toResult(r)); err != nil {
			return nil, err
		}
	}
	return buf.Bytes(), nil
}

func doJob(bin, dir string, j job) result {
	res := result{ID: j.ID, Out: map[string]procOut{}}
	jd := filepath.Join(dir, fmt.Sprintf("job%d", j.ID))
	if err := os.MkdirAll(jd, 0o755); err != nil {
		res.Err = err.Error()
		return res
	}
	defer os.RemoveAll(jd)
	var paths []string
	var all []byte
	for i, runs := range j.Files {
		b, err := encodeRuns(runs)
		if err != nil {
			res.Err = err.Error()
			return res
		}
		if j.Stdin {
			all = append(all, b...)
			continue
		}
		p := filepath.Join(jd, fmt.Sprintf("run%d.bin", i))
		if err := os.WriteFile(p, b, 0o644); err != nil {
			res.Err = err.Error()
			return res
		}
		paths = append(paths, p)
	}
	for _, f := range j.Formats {
		args := append([]string{}, j.Args...)
		args = append(args, "-merge", "-f", f)
		args = append(args, paths...)
		cmd := exec.Command(bin, args...)
		cmd.Dir = jd
		if j.Stdin {
			cmd.Stdin = bytes.NewReader(all)
		}
		var so, se bytes.Buffer
		cmd.Stdout = &so
		cmd.Stderr = &se
		err := cmd.Run()
		rc := 0
		if err != nil {
			if ee, ok := err.(*exec.ExitError); ok {
				rc = ee.ExitCode()
			} else {
				res.Err = err.Error()
				return res
			}
		}
		res.Out[f] = procOut{RC: rc, Stdout: so.String(), Stderr: se.String()}
	}
	return res
}

func cmdRun(args []string) int {
	fs := flag.NewFlagSet("run", flag.ExitOnError)
	bin := fs.String("bin", "", "staticcheck binary built from the tree under test")
	dir := fs.String("dir", "", "scratch directory")
	par := fs.Int("j", 8, "parallel jobs")
	fs.Parse(args)
	if *bin == "" || *dir == "" {
		fmt.Fprintln(os.Stderr, "c12gob run: -bin and -dir are required")
		return 2
	}
	in := bufio.NewReaderSize(os.Stdin, 1<<20)
	var jobs []job
	for {
		line, err := in.ReadBytes('\n')
		if len(bytes.TrimSpace(line)) > 0 {
			var j job
			dec := json.NewDecoder(bytes.NewReader(line))
			dec.DisallowUnknownFields()
			if err := dec.Decode(&j); err != nil {
				fmt.Fprintf(os.Stderr, "c12gob run: bad job line: %v\n", err)
				return 2
			}
			jobs = append(jobs, j)
		}
		if err == io.EOF {
			break
		}
		if err != nil {
			fmt.Fprintln(os.Stderr, err)
			return 2
		}
	}
	results := make([]result, len(jobs))
	var wg sync.WaitGroup
	sem := make(chan struct{}, *par)
	for i := range jobs {
		wg.Add(1)
		sem <- struct{}{}
		go func(i int) {
			defer wg.Done()
			defer func() { <-sem }()
			results[i] = doJob(*bin, *dir, jobs[i])
		}(i)
	}
	wg.Wait()
	w := bufio.NewWriter(os.Stdout)
	defer w.Flush()
	enc := json.NewEncoder(w)
	for _, r := range results {
		if err := enc.Encode(r); err != nil {
			fmt.Fprintln(os.Stderr, err)
			return 2
		}
	}
	return 0
}

func cmdDump(paths []string) int {
	w := bufio.NewWriter(os.Stdout)
	defer w.Flush()
	enc := json.NewEncoder(w)
	for _, p := range paths {
		f, err := os.Open(p)
		if err != nil {
			fmt.Fprintln(os.Stderr, err)
			return 2
		}
		br := bufio.NewReader(f)
		out := struct {
			Runs []jrun `json:"runs"`
		}{Runs: []jrun{}}
		for {
			var res lintResult
			// same framing as lintcmd.decodeGob: a fresh decoder per run on one byte reader
			if err := gob.NewDecoder(br).Decode(&res); err != nil {
				if err == io.EOF {
					break
				}
				fmt.Fprintf(os.Stderr, "c12gob dump: %s: %v\n", p, err)
				f.Close()
				return 2
			}
			out.Runs = append(out.Runs, fromResult(res))
		}
		f.Close()
		if err := enc.Encode(out); err != nil {
			fmt.Fprintln(os.Stderr, err)
			return 2
		}
	}
	return 0
}

func main() {
	if len(os.Args) < 2 {
		fmt.Fprintln(os.Stderr, "usage: c12gob run|dump|registry|roundtrip|lessfields …")
		os.Exit(2)
	}
	switch os.Args[1] {
	case "run":
		os.Exit(cmdRun(os.Args[2:]))
	case "dump":
		os.Exit(cmdDump(os.Args[2:]))
	case "registry":
		os.Exit(cmdRegistry())
	case "roundtrip":
		os.Exit(cmdRoundtrip(os.Args[2:]))
	case "lessfields":
		os.Exit(cmdLessFields(os.Args[2:]))
	default:
		fmt.Fprintln(os.Stderr, "usage: c12gob run|dump|registry|roundtrip|lessfields …")
		os.Exit(2)
	}
}
