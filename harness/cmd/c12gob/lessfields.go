package main

import (
	"encoding/json"
	"fmt"
	"go/ast"
	"go/parser"
	"go/token"
	"os"
	"strings"
)

// cmdLessFields reads lintcmd/cmd.go of the tree under test and extracts the ORDER OF
// THE FIELDS compared by the `less` closure that printDiagnostics passes to sort.Slice
// (tie G). Only data is extracted, never the shape of the code beyond what is needed to
// read the data: the closure must be a sequence of
//
//	x := <path>                       (aliases: di := diagnostics[i]; pi := di.Position; …)
//	if A != B { return A < B }        (A, B: the same field path of the two elements)
//	return A < B                      (last statement)
//
// Output {"ok":true,"fields":["Position.Filename",…,"BuildName"]} or
// {"ok":false,"why":…} when the closure has another shape (then the check skips the G
// tie — it is not a finding).
func cmdLessFields(args []string) int {
	out := func(v any) int {
		if err := json.NewEncoder(os.Stdout).Encode(v); err != nil {
			fmt.Fprintln(os.Stderr, err)
			return 2
		}
		return 0
	}
	type no struct {
		OK  bool   `json:"ok"`
		Why string `json:"why"`
	}
	if len(args) != 1 {
		fmt.Fprintln(os.Stderr, "usage: c12gob lessfields <lintcmd/cmd.go>")
		return 2
	}
	fset := token.NewFileSet()
	f, err := parser.ParseFile(fset, args[0], nil, parser.SkipObjectResolution)
	if err != nil {
		fmt.Fprintln(os.Stderr, err)
		return 2
	}
	var fn *ast.FuncDecl
	for _, d := range f.Decls {
		if fd, ok := d.(*ast.FuncDecl); ok && fd.Name.Name == "printDiagnostics" && fd.Body != nil {
			fn = fd
		}
	}
	if fn == nil {
		return out(no{false, "no function printDiagnostics"})
	}
	var lit *ast.FuncLit
	var slice string
	ast.Inspect(fn.Body, func(n ast.Node) bool {
		c, ok := n.(*ast.CallExpr)
		if !ok || lit != nil {
			return true
		}
		se, ok := c.Fun.(*ast.SelectorExpr)
		if !ok || len(c.Args) != 2 {
			return true
		}
		if x, ok := se.X.(*ast.Ident); !ok || x.Name != "sort" || (se.Sel.Name != "Slice" && se.Sel.Name != "SliceStable") {
			return true
		}
		if fl, ok := c.Args[1].(*ast.FuncLit); ok {
			if id, ok := c.Args[0].(*ast.Ident); ok {
				lit, slice = fl, id.Name
			}
		}
		return true
	})
	if lit == nil {
		return out(no{false, "no sort.Slice(<ident>, func…) call in printDiagnostics"})
	}
	var params []string
	for _, fl := range lit.Type.Params.List {
		for _, n := range fl.Names {
			params = append(params, n.Name)
		}
	}
	if len(params) != 2 {
		return out(no{false, "comparator does not have two parameters"})
	}
	// alias -> (side, path); side 0/1 = first/second parameter
	type ref struct {
		side int
		path []string
	}
	alias := map[string]ref{}
	var resolve func(e ast.Expr) (ref, bool)
	resolve = func(e ast.Expr) (ref, bool) {
		switch e := e.(type) {
		case *ast.ParenExpr:
			return resolve(e.X)
		case *ast.Ident:
			r, ok := alias[e.Name]
			return r, ok
		case *ast.IndexExpr:
			x, ok1 := e.X.(*ast.Ident)
			i, ok2 := e.Index.(*ast.Ident)
			if ok1 && ok2 && x.Name == slice {
				for s, p := range params {
					if p == i.Name {
						return ref{side: s}, true
					}
				}
			}
			return ref{}, false
		case *ast.SelectorExpr:
			r, ok := resolve(e.X)
			if !ok {
				return ref{}, false
			}
			return ref{r.side, append(append([]string{}, r.path...), e.Sel.Name)}, true
		}
		return ref{}, false
	}
	// cmp(e, op): e is `A op B` with A on side 0 and B on side 1 and equal paths
	cmp := func(e ast.Expr, op token.Token) (string, bool) {
		be, ok := e.(*ast.BinaryExpr)
		if !ok || be.Op != op {
			return "", false
		}
		a, ok1 := resolve(be.X)
		b, ok2 := resolve(be.Y)
		if !ok1 || !ok2 || a.side != 0 || b.side != 1 || len(a.path) == 0 {
			return "", false
		}
		pa, pb := strings.Join(a.path, "."), strings.Join(b.path, ".")
		if pa != pb {
			return "", false
		}
		return pa, true
	}
	var fields []string
	stmts := lit.Body.List
	for idx, st := range stmts {
		pos := fset.Position(st.Pos())
		bad := func(why string) int {
			return out(no{false, fmt.Sprintf("%s:%d: %s", pos.Filename, pos.Line, why)})
		}
		switch st := st.(type) {
		case *ast.AssignStmt:
			if st.Tok != token.DEFINE || len(st.Lhs) != 1 || len(st.Rhs) != 1 {
				return bad("assignment of unknown shape")
			}
			id, ok := st.Lhs[0].(*ast.Ident)
			r, ok2 := resolve(st.Rhs[0])
			if !ok || !ok2 {
				return bad("alias of unknown shape")
			}
			alias[id.Name] = r
		case *ast.IfStmt:
			if st.Init != nil || st.Else != nil || len(st.Body.List) != 1 {
				return bad("if statement of unknown shape")
			}
			p1, ok := cmp(st.Cond, token.NEQ)
			ret, ok2 := st.Body.List[0].(*ast.ReturnStmt)
			if !ok || !ok2 || len(ret.Results) != 1 {
				return bad("if statement of unknown shape")
			}
			p2, ok := cmp(ret.Results[0], token.LSS)
			if !ok || p1 != p2 {
				return bad("`if A != B { return A < B }` expected")
			}
			fields = append(fields, p1)
		case *ast.ReturnStmt:
			if idx != len(stmts)-1 || len(st.Results) != 1 {
				return bad("return statement of unknown shape")
			}
			p, ok := cmp(st.Results[0], token.LSS)
			if !ok {
				return bad("`return A < B` expected")
			}
			fields = append(fields, p)
		default:
			return bad("statement of unknown shape")
		}
	}
	if len(stmts) == 0 {
		return out(no{false, "empty comparator"})
	}
	if _, ok := stmts[len(stmts)-1].(*ast.ReturnStmt); !ok {
		return out(no{false, "comparator does not end in a return statement"})
	}
	return out(struct {
		OK     bool     `json:"ok"`
		Fields []string `json:"fields"`
	}{true, fields})
}
