// Package kitchensink exercises every statement and expression form, every builtin and
// (through them) every IR instruction kind, so that each dispatch site of each analyzer
// sees each construct at least once. It compiles with the Go toolchain.
package kitchensink

import (
	"errors"
	"fmt"
	"iter"
	"os"
	"sort"
	"strings"
	"sync"
	"unsafe"
)

type Number interface {
	~int | ~int64 | ~float64
}

type Pair[K comparable, V any] struct {
	Key K
	Val V
}

func (p Pair[K, V]) String() string { return fmt.Sprint(p.Key, p.Val) }

func Map[T, U any](xs []T, f func(T) U) []U {
	out := make([]U, 0, len(xs))
	for _, x := range xs {
		out = append(out, f(x))
	}
	return out
}

func Sum[T Number](xs ...T) (s T) {
	for i := range xs {
		s += xs[i]
	}
	return
}

type Shape interface {
	Area() float64
	fmt.Stringer
}

type base struct {
	name string `json:"name"`
	mu   sync.Mutex
}

func (b *base) Name() string { return b.name }

type Rect struct {
	base
	W, H float64
}

func (r Rect) Area() float64    { return r.W * r.H }
func (r Rect) String() string   { return "rect " + r.name }
func (r *Rect) Scale(f float64) { r.W *= f; r.H *= f }

type Circle struct {
	*base
	R float64
}

func (c Circle) Area() float64  { return 3.14 * c.R * c.R }
func (c Circle) String() string { return "circle" }

type Color int

const (
	Red Color = iota
	Green
	Blue
	_
	last = iota * 2
)

var (
	global    = map[string][]int{"a": {1, 2}, "b": nil}
	globalPtr *int
	ErrNope   = errors.New("nope")
	arr       = [...]string{2: "c", 0: "a"}
	anon      = struct {
		X, Y int
	}{1, 2}
)

// Recovered has an interface result whose value comes from the recover builtin.
func Recovered(f func()) (r any) {
	defer func() {
		r = recover()
	}()
	f()
	return nil
}

// RecoverDirect returns the result of recover directly.
func RecoverDirect() any {
	return recover()
}

func RecoverErr() (err error) {
	defer func() {
		if r := recover(); r != nil {
			err, _ = r.(error)
		}
	}()
	panic(ErrNope)
}

func Builtins(s []int, m map[string]int, c chan int, p *int, str string, up unsafe.Pointer) (any, []int, *int, unsafe.Pointer, *byte) {
	s = append(s, 1, 2)
	s = append(s, s...)
	bs := append([]byte("x"), str...)
	n := copy(s, s[1:])
	n += len(s) + cap(s) + len(m) + len(c) + cap(c) + len(str) + len(arr)
	clear(m)
	clear(s)
	delete(m, "k")
	z := complex(1.5, float64(n))
	_ = real(z) + imag(z)
	x := min(n, 3, len(bs))
	y := max(1.5, float64(x))
	_ = y
	q := new(int)
	*q = x
	mm := make(map[int]string, 4)
	ch := make(chan int, 1)
	sl := make([]int, 2, 8)
	_, _, _ = mm, ch, sl
	print("a", 1)
	println()
	close(ch)
	ptr := unsafe.Add(up, 8)
	us := unsafe.Slice(p, 2)
	sd := unsafe.SliceData(s)
	st := unsafe.String((*byte)(up), 1)
	stp := unsafe.StringData(str + st)
	_ = unsafe.Sizeof(anon) + unsafe.Alignof(z) + unsafe.Offsetof(anon.Y)
	if n > 1000 {
		panic(fmt.Sprintf("too big: %d", n))
	}
	return recover(), us, sd, ptr, stp
}

func Conversions(s []int, str string, i int, f float64, e error, sh Shape) {
	a4 := [4]int(s)
	p4 := (*[4]int)(s)
	_ = a4[0] + p4[1]
	rs := []rune(str)
	bs := []byte(str)
	_ = string(rs) + string(bs) + string(rune(i))
	_ = int(f) + int(int8(i)) + int(uint(i)>>2)
	var any1 any = e
	var st fmt.Stringer = sh
	_, _ = any1, st
	up := unsafe.Pointer(&i)
	_ = uintptr(up)
	_ = (*float64)(up)
	type myInt int
	_ = myInt(i)
	fn := func(int) {}
	type F func(int)
	_ = F(fn)
}

func Statements(xs []int, m map[string]int, ch chan int, sh Shape, v any) (res int, err error) {
	var (
		a, b = 1, 2
		c    int
	)
	a, b = b, a
	c += a
	c -= b
	c *= 2
	c /= 1
	c %= 7
	c <<= 1
	c >>= 1
	c &= 0xff
	c |= 1
	c ^= 2
	c &^= 4
	c++
	c--
	_ = +c - -c + ^c
	ok := !(a < b) && a <= b || a > b && a >= b || a == b || a != b
	if x := c; x > 0 && ok {
		res = x
	} else if x < 0 {
		res = -x
	} else {
		res = 0
	}
	for i := 0; i < len(xs); i++ {
		if xs[i] == 0 {
			continue
		}
		if xs[i] < 0 {
			break
		}
		res += xs[i]
	}
	for c < 10 {
		c++
	}
outer:
	for i := range 3 {
		for k, val := range m {
			if val == i {
				continue outer
			}
			if k == "" {
				break outer
			}
		}
	}
	for i, r := range "héllo" {
		res += i + int(r)
	}
	for range ch {
		break
	}
	for i, x := range xs {
		_ = i
		_ = x
	}
	for i := range arr {
		_ = arr[i]
	}
	for _, x := range [3]int{1, 2, 3} {
		res += x
	}
	for x := range Seq(3) {
		res += x
	}
	for k, val := range Seq2(m) {
		if k == "stop" {
			return val, nil
		}
	}
	switch {
	case c > 5:
		res++
		fallthrough
	case c > 3:
		res += 2
	default:
		res = 0
	}
	switch y := c * 2; y {
	case 1, 2, 3:
		res = 1
	case 4:
	default:
	}
	switch t := v.(type) {
	case nil:
		res = -1
	case int:
		res = t
	case string, []byte:
		res = 2
	case error:
		err = t
	case Shape:
		res = int(t.Area())
	case func() int:
		res = t()
	default:
		_ = t
	}
	switch v.(type) {
	case fmt.Stringer:
	}
	select {
	case x := <-ch:
		res = x
	case x, ok := <-ch:
		if ok {
			res = x
		}
	case ch <- 1:
	default:
	}
	select {
	case <-ch:
	}
	go func() { ch <- 1 }()
	go Sum(1, 2)
	defer func(n int) { res += n }(1)
	defer sh.String()
	defer close(ch)
	if c > 100 {
		goto end
	}
	{
		var inner struct{ a, b int }
		inner.a = 1
		res += inner.a
	}
	;
	ch <- res
	if s, ok := v.(fmt.Stringer); ok {
		_ = s.String()
	}
	if n, ok := m["x"]; ok {
		res += n
	}
	if x, ok := <-ch; ok {
		res += x
	}
	m["y"]++
	xs[0] += 2
	*globalPtr = 3
	global["a"][0] = 1
end:
	return res, err
}

func Seq(n int) iter.Seq[int] {
	return func(yield func(int) bool) {
		for i := range n {
			if !yield(i) {
				return
			}
		}
	}
}

func Seq2(m map[string]int) iter.Seq2[string, int] {
	return func(yield func(string, int) bool) {
		keys := make([]string, 0, len(m))
		for k := range m {
			keys = append(keys, k)
		}
		sort.Strings(keys)
		for _, k := range keys {
			if !yield(k, m[k]) {
				return
			}
		}
	}
}

func Expressions(r Rect, pr *Rect, shapes []Shape, m map[string]Pair[string, int], fns []func(int) int) any {
	_ = r.W + pr.H
	_ = r.base.name + pr.name
	_ = r.Area() + pr.Area() + Rect.Area(r) + (*Rect).Area(pr)
	f := r.Area
	g := pr.Scale
	h := (*Rect).Scale
	k := Shape.Area
	g(2)
	h(pr, 2)
	_ = f() + k(r)
	_ = shapes[0].Area()
	_ = shapes[1:][0]
	_ = shapes[:1]
	_ = shapes[1:2:3]
	_ = "abc"[1:]
	_ = arr[:]
	_ = (&arr)[1:2]
	_ = m["a"].Key
	_ = fns[0](1)
	_ = func(a, b int, rest ...string) (int, string) { return a + b, strings.Join(rest, ",") }
	_ = Map[int, string]
	_ = Map([]int{1}, func(i int) string { return fmt.Sprint(i) })
	_ = Sum[float64](1, 2)
	_ = Pair[string, int]{Key: "a", Val: 1}
	_ = &Pair[string, []int]{"a", []int{1}}
	_ = []Pair[int, int]{{1, 2}, {Key: 3}}
	_ = map[Color][]string{Red: {"r"}, Blue: nil}
	_ = [...]*Rect{{W: 1}, nil}
	_ = struct{}{}
	_ = [2][2]int{{1, 2}, {3, 4}}[1][0]
	_ = *pr
	_ = &r.W
	_ = &shapes[0]
	_ = <-make(chan int)
	_ = (r.W)
	_ = r.W*2 + 3/r.H - 1
	_ = 1 << 3 >> 1 & 7 | 8 ^ 1 &^ 2
	_ = "a" + "b"
	_ = 'x' + 1
	_ = 1.5e3 + 0x1p-2
	_ = 2i * 3
	var e error = ErrNope
	var target *os.PathError
	_ = errors.As(e, &target)
	_ = e.(interface{ Error() string })
	var arrp *[3]int
	for i := range arrp {
		_ = i
	}
	var nilm map[string]int
	_ = nilm["x"]
	var np *Rect
	if np != nil && np.W > 0 {
		return np
	}
	var iface Shape
	if iface == nil {
		iface = r
	}
	if c, ok := iface.(Circle); ok {
		return c
	}
	return iface
}

type Tree[T any] struct {
	Left, Right *Tree[T]
	Val         T
}

func (t *Tree[T]) Walk(f func(T) bool) bool {
	if t == nil {
		return true
	}
	return t.Left.Walk(f) && f(t.Val) && t.Right.Walk(f)
}

func (t *Tree[T]) All() iter.Seq[T] {
	return func(yield func(T) bool) { t.Walk(yield) }
}

func NilResults(flag bool, p *int, s []int, m map[int]int, f func(), c chan int, e error) (*int, []int, map[int]int, func(), chan int, error, any, unsafe.Pointer) {
	if flag {
		return nil, nil, nil, nil, nil, nil, nil, nil
	}
	if p == nil {
		p = new(int)
	}
	_ = *p
	s = s[:0]
	var a any = p
	if e == nil {
		e = fmt.Errorf("wrapped: %w", ErrNope)
	}
	return p, append(s, 1), map[int]int{}, func() {}, make(chan int), e, a, unsafe.Pointer(p)
}

func typedNil() error {
	var p *os.PathError
	return p
}

func useTypedNil() bool {
	return typedNil() != nil
}

func unusedHelper() {}

type unusedType struct{ f int }

func init() {
	globalPtr = new(int)
	_ = useTypedNil
	var once sync.Once
	once.Do(func() { fmt.Fprintln(os.Stderr, Red, last) })
}
