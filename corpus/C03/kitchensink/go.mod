module example.com/kitchensink

go 1.26
