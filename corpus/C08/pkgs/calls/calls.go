// Package calls exercises the call forms of the C08 quantifier against the pattern
// pre-filters: plain, parenthesised, method value, generic instantiation, dot import,
// alias, renamed import, embedded promotion, conversions, builtins.
package calls

import (
	"bytes"
	"c08/q"
	"errors"
	"fmt"
	"io"
	. "math"
	"os"
	"regexp"
	"runtime"
	"sort"
	str "strings"
	"sync"
	"time"
)

type local struct {
	q.Emb
	mu sync.Mutex
}

type wrap struct{ *bytes.Buffer }

func variadic(xs ...int) int { return len(xs) }

func plain(xs []string, bs []byte, w io.Writer) (string, error) {
	s := fmt.Sprintf("%d", 1)
	s = (fmt.Sprintf)("%d", 2)
	s = (fmt.Sprintf("%d", 3))
	s = ((fmt.Sprintf))("%d", 4)
	fmt.Println(s)
	fmt.Fprintf(w, "x")
	_ = errors.New(fmt.Sprintf("%d", 5))
	_, _ = io.WriteString(w, string(bs))
	_ = str.ToUpper(s)
	_ = str.ToLower(s) == str.ToLower("A")
	lower := str.ToLower
	_ = lower("B")
	_ = Pow(2, 3)
	_ = (Pow)(2, 2)
	_ = regexp.MustCompile("a+")
	_ = runtime.GOOS == "linux"
	if runtime.GOARCH != "amd64" {
		fmt.Println("other")
	}
	return s, nil
}

func conversions(xs []string, fs []float64, n int, bs []byte, s string) {
	a := sort.StringSlice(xs)
	a.Sort()
	xs2 := xs
	xs2 = sort.StringSlice(xs2)
	_ = sort.Float64Slice(fs)
	_ = (sort.IntSlice)([]int{n})
	_ = time.Duration(n)
	_ = string(bs)
	_ = []byte(s)
	_ = q.SS(xs)
	_ = q.D(n)
	_ = float64(n)
	_ = xs2
}

func builtins(xs []int, m map[string]int) int {
	n := len(xs)
	n += (len)(xs)
	xs = append(xs, 1)
	ys := make([]int, len(xs))
	for i := 0; i < len(xs); i++ {
		ys[i] = xs[i]
	}
	for i, x := range xs {
		ys[i] = x
	}
	for i := range xs {
		ys[i] = xs[i]
	}
	delete(m, "a")
	if len(m) == 0 {
		return cap(ys)
	}
	return n + variadic(xs...)
}

func methods(t0 time.Time, buf *bytes.Buffer, wg *sync.WaitGroup) time.Duration {
	d := time.Now().Sub(t0)
	d = (time.Now()).Sub(t0)
	d += t0.Sub(time.Now())
	sub := t0.Sub
	_ = sub(t0)
	write := buf.Write
	_, _ = write(nil)
	_, _ = buf.Write([]byte("x"))
	_, _ = (buf.Write)(nil)
	var l local
	_, _ = l.Write(nil)
	_ = l.Len()
	w := wrap{buf}
	_, _ = w.Write(nil)
	var qb q.B
	_, _ = qb.Write(nil)
	go func() {
		wg.Add(1)
		defer wg.Done()
	}()
	time.Sleep(10)
	time.Sleep(time.Second)
	select {
	case <-time.After(5):
	}
	return d
}

func generics(x int) int {
	y := q.G[int](x)
	y += q.G(x)
	y += (q.G[int])(x)
	_ = q.G2[string, int]("a", 1)
	y += q.F(x)
	y += q.V(x)
	y += q.Fs[0](x)
	y += q.T{}.M(x)
	(&q.T{}).P()
	q.Gen[int]{}.GM()
	var g q.Gen[string]
	g.GM()
	y += q.C
	return y
}

func stmts(c chan int, p *int, i interface{}) (r int) {
	defer fmt.Println("done")
L:
	for {
		{
			fmt.Println("single")
		}
		{
			fmt.Println("a")
			fmt.Println("b")
		}
		switch x := i.(type) {
		case int:
			r = x
		default:
			break L
		}
		switch {
		case r > 1:
			r--
		}
		c <- *p
		r++
		if r > 3 {
			continue
		} else if r < 0 {
			goto End
		}
	}
End:
	var arr [3]int
	_ = arr[1:2]
	_ = map[string][]int{"a": {1, 2}}
	_ = struct{ A, B int }{1, 2}
	_ = func(a int) int { return -a + +1 }
	_, _ = os.Open("x")
	;
	return
}
