// Package noimp reaches sort, bytes only through package q (aliases, embedding).
package noimp

import "c08/q"

func f(xs []string, n int) int {
	_ = q.SS(xs)
	var b q.B
	_, _ = b.Write(nil)
	b.Reset()
	var e q.Emb
	_, _ = e.Write(nil)
	_ = q.B{}
	return len(xs) + q.F(n)
}

func g(w q.W, i q.I, err error) string {
	_, _ = w.Write(nil)
	w.IM()
	i.IM()
	q.Gen[int]{}.GM()
	return err.Error()
}
