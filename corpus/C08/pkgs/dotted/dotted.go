//c08:path c08.example/x.y/dotted

// Package dotted has an import path with dots in several elements: symbolToIndexSymbol
// must split "c08.example/x.y/dotted.F" and "(*c08.example/x.y/dotted.T).M" at the last dot.
package dotted

type T struct{ N int }

func (T) M(x int) int  { return x }
func (*T) P(x int) int { return x }

type D int

type I interface{ IM(x int) int }

var V = func(x int) int { return x }

func F(x int) int { return x }

func G[E any](x E) E { return x }

type Gen[E any] struct{ X E }

func (Gen[E]) GM(x int) int { return x }
