// Package usesdot calls into a package whose import path contains dots.
package usesdot

import (
	dd "c08.example/x.y/dotted"
)

func f(n int, i dd.I) int {
	n = dd.F(n)
	n = (dd.F)(n)
	n += dd.G[int](n)
	n += dd.G(n)
	n += dd.T{}.M(n)
	n += (&dd.T{}).P(n)
	n += int(dd.D(n))
	n += dd.V(n)
	n += i.IM(n)
	n += dd.Gen[int]{}.GM(n)
	var g dd.Gen[dd.T]
	n += g.GM(n)
	m := dd.T{}.M
	return m(n)
}
