// Package plain imports nothing.
package plain

type S struct {
	A, B int
	C    string `json:"c"`
}

type E interface {
	error
	M(xs ...string) (n int, err error)
}

func variadic(prefix string, xs ...int) (total int) {
	for _, x := range xs {
		total += x
	}
	return
}

func empty() {}

func one(a int) int { return a }

func g(xs []int, s string, m map[string]S) (int, string) {
	n := len(xs) + cap(xs)
	if n < len(s) {
		n = -1
	} else {
		n = +2
	}
	xs = append(xs, n)
	_ = make([]int, 3)
	_ = string(rune(n))
	_ = int64(n)
	_ = new(S)
	_ = S{A: 1, B: 2}
	_ = m["k"].A
	_ = (n)
	_ = ((n + 1) * 2)
	var i interface{} = n
	_, _ = i.(int)
	i = nil
	{
		empty()
	}
	{
		empty()
		empty()
	}
	func() {}()
	ch := make(chan int, 1)
	ch <- 1
	<-ch
	for i := 0; i < len(xs); i++ {
		xs[i] = xs[i]
	}
lbl:
	for n > 0 {
		n--
		continue lbl
	}
	copy(xs, xs)
	println(variadic("p", xs...), one(1))
	return n, s[1:2]
}
