// Package own declares the symbols a pattern names (the statement's hypothesis fails).
package own

type T int

func F(x int) int { return x }

func (T) M() {}

var V = 1

func use(t T) int {
	t.M()
	_ = T(3)
	return F(V) + F(2)
}
