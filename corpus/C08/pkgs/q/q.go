// Package q is a helper package of the C08 corpus: aliases, embedding, generic and
// func-typed package-level symbols that other corpus packages reach without importing
// the packages behind them.
package q

import (
	"bytes"
	"io"
	"sort"
)

type B = bytes.Buffer
type SS = sort.StringSlice
type Emb struct{ bytes.Buffer }

var Fs = []func(int) int{func(x int) int { return x }}
var V = func(x int) int { return x }

const C = 7

func F(x int) int { return x }

func G[T any](x T) T { return x }

func G2[K comparable, V any](k K, v V) V { return v }

type T struct{ N int }

func (T) M(x int) int { return x }
func (*T) P()         {}

type Gen[E any] struct{ X E }

func (Gen[E]) GM() {}

type I interface{ IM() }

type D int

// W embeds an interface of a package the importers need not import.
type W interface {
	io.Writer
	IM()
}
