// Fixed graph families for C14 (generated once by a script; goto-built).
package p

func ltpaper(a int, p bool) (r int) {
N0:
	a += 1
	switch a % 3 {
	case 0:
		goto N1
	case 1:
		goto N2
	default:
		goto N3
	}
N1:
	a += 2
	goto N4
N2:
	a += 3
	switch a % 3 {
	case 0:
		goto N1
	case 1:
		goto N4
	default:
		goto N5
	}
N3:
	a += 4
	if a%5 == 0 {
		goto N6
	}
	goto N7
N4:
	a += 5
	goto N12
N5:
	a += 6
	goto N8
N6:
	a += 7
	goto N9
N7:
	a += 8
	if a%9 == 0 {
		goto N9
	}
	goto N10
N8:
	a += 9
	if a%10 == 0 {
		goto N5
	}
	goto N11
N9:
	a += 10
	goto N11
N10:
	a += 11
	goto N9
N11:
	a += 12
	if a%13 == 0 {
		goto N9
	}
	goto N0
N12:
	a += 13
	goto N8
}

func ltpaperRecover(a int, p bool) (r int) {
	defer func() { recover() }()
N0:
	a += 1
	switch a % 3 {
	case 0:
		goto N1
	case 1:
		goto N2
	default:
		goto N3
	}
N1:
	a += 2
	goto N4
N2:
	a += 3
	switch a % 3 {
	case 0:
		goto N1
	case 1:
		goto N4
	default:
		goto N5
	}
N3:
	a += 4
	if a%5 == 0 {
		goto N6
	}
	goto N7
N4:
	a += 5
	goto N12
N5:
	a += 6
	goto N8
N6:
	a += 7
	goto N9
N7:
	a += 8
	if a%9 == 0 {
		goto N9
	}
	goto N10
N8:
	a += 9
	if a%10 == 0 {
		goto N5
	}
	goto N11
N9:
	a += 10
	goto N11
N10:
	a += 11
	goto N9
N11:
	a += 12
	if a%13 == 0 {
		goto N9
	}
	goto N0
N12:
	a += 13
	goto N8
}

func irr2(a int, p bool) (r int) {
	a += 1
	if a%2 == 0 {
		goto N1
	}
	goto N2
N1:
	a += 2
	if a%3 == 0 {
		goto N2
	}
	goto N3
N2:
	a += 3
	if a%4 == 0 {
		goto N1
	}
	goto N3
N3:
	a += 4
	return a
}

func ladder3(a int, p bool) (r int) {
	a += 1
	if a%2 == 0 {
		goto N1
	}
	goto N3
N1:
	a += 2
	goto N2
N2:
	a += 3
	switch a % 3 {
	case 0:
		goto N3
	case 1:
		goto N1
	default:
		goto N4
	}
N3:
	a += 4
	goto N2
N4:
	a += 5
	return a
}

func ladder6(a int, p bool) (r int) {
	a += 1
	if a%2 == 0 {
		goto N1
	}
	goto N6
N1:
	a += 2
	goto N2
N2:
	a += 3
	if a%4 == 0 {
		goto N3
	}
	goto N1
N3:
	a += 4
	switch a % 3 {
	case 0:
		goto N4
	case 1:
		goto N2
	default:
		goto N7
	}
N4:
	a += 5
	if a%6 == 0 {
		goto N5
	}
	goto N3
N5:
	a += 6
	if a%7 == 0 {
		goto N6
	}
	goto N4
N6:
	a += 7
	goto N5
N7:
	a += 8
	return a
}

func ladder12(a int, p bool) (r int) {
	defer func() { recover() }()
	a += 1
	if a%2 == 0 {
		goto N1
	}
	goto N12
N1:
	a += 2
	goto N2
N2:
	a += 3
	if a%4 == 0 {
		goto N3
	}
	goto N1
N3:
	a += 4
	if a%5 == 0 {
		goto N4
	}
	goto N2
N4:
	a += 5
	if a%6 == 0 {
		goto N5
	}
	goto N3
N5:
	a += 6
	if a%7 == 0 {
		goto N6
	}
	goto N4
N6:
	a += 7
	switch a % 3 {
	case 0:
		goto N7
	case 1:
		goto N5
	default:
		goto N13
	}
N7:
	a += 8
	if a%9 == 0 {
		goto N8
	}
	goto N6
N8:
	a += 9
	if a%10 == 0 {
		goto N9
	}
	goto N7
N9:
	a += 10
	if a%11 == 0 {
		goto N10
	}
	goto N8
N10:
	a += 11
	if a%12 == 0 {
		goto N11
	}
	goto N9
N11:
	a += 12
	if a%13 == 0 {
		goto N12
	}
	goto N10
N12:
	a += 13
	goto N11
N13:
	a += 14
	return a
}

func ladder25(a int, p bool) (r int) {
	a += 1
	if a%2 == 0 {
		goto N1
	}
	goto N25
N1:
	a += 2
	goto N2
N2:
	a += 3
	if a%4 == 0 {
		goto N3
	}
	goto N1
N3:
	a += 4
	if a%5 == 0 {
		goto N4
	}
	goto N2
N4:
	a += 5
	if a%6 == 0 {
		goto N5
	}
	goto N3
N5:
	a += 6
	if a%7 == 0 {
		goto N6
	}
	goto N4
N6:
	a += 7
	if a%8 == 0 {
		goto N7
	}
	goto N5
N7:
	a += 8
	if a%9 == 0 {
		goto N8
	}
	goto N6
N8:
	a += 9
	if a%10 == 0 {
		goto N9
	}
	goto N7
N9:
	a += 10
	if a%11 == 0 {
		goto N10
	}
	goto N8
N10:
	a += 11
	if a%12 == 0 {
		goto N11
	}
	goto N9
N11:
	a += 12
	if a%13 == 0 {
		goto N12
	}
	goto N10
N12:
	a += 13
	if a%14 == 0 {
		goto N13
	}
	goto N11
N13:
	a += 14
	switch a % 3 {
	case 0:
		goto N14
	case 1:
		goto N12
	default:
		goto N26
	}
N14:
	a += 15
	if a%16 == 0 {
		goto N15
	}
	goto N13
N15:
	a += 16
	if a%17 == 0 {
		goto N16
	}
	goto N14
N16:
	a += 17
	if a%18 == 0 {
		goto N17
	}
	goto N15
N17:
	a += 18
	if a%19 == 0 {
		goto N18
	}
	goto N16
N18:
	a += 19
	if a%20 == 0 {
		goto N19
	}
	goto N17
N19:
	a += 20
	if a%21 == 0 {
		goto N20
	}
	goto N18
N20:
	a += 21
	if a%22 == 0 {
		goto N21
	}
	goto N19
N21:
	a += 22
	if a%23 == 0 {
		goto N22
	}
	goto N20
N22:
	a += 23
	if a%24 == 0 {
		goto N23
	}
	goto N21
N23:
	a += 24
	if a%25 == 0 {
		goto N24
	}
	goto N22
N24:
	a += 25
	if a%26 == 0 {
		goto N25
	}
	goto N23
N25:
	a += 26
	goto N24
N26:
	a += 27
	return a
}

func ladder40(a int, p bool) (r int) {
	a += 1
	if a%2 == 0 {
		goto N1
	}
	goto N40
N1:
	a += 2
	goto N2
N2:
	a += 3
	if a%4 == 0 {
		goto N3
	}
	goto N1
N3:
	a += 4
	if a%5 == 0 {
		goto N4
	}
	goto N2
N4:
	a += 5
	if a%6 == 0 {
		goto N5
	}
	goto N3
N5:
	a += 6
	if a%7 == 0 {
		goto N6
	}
	goto N4
N6:
	a += 7
	if a%8 == 0 {
		goto N7
	}
	goto N5
N7:
	a += 8
	if a%9 == 0 {
		goto N8
	}
	goto N6
N8:
	a += 9
	if a%10 == 0 {
		goto N9
	}
	goto N7
N9:
	a += 10
	if a%11 == 0 {
		goto N10
	}
	goto N8
N10:
	a += 11
	if a%12 == 0 {
		goto N11
	}
	goto N9
N11:
	a += 12
	if a%13 == 0 {
		goto N12
	}
	goto N10
N12:
	a += 13
	if a%14 == 0 {
		goto N13
	}
	goto N11
N13:
	a += 14
	if a%15 == 0 {
		goto N14
	}
	goto N12
N14:
	a += 15
	if a%16 == 0 {
		goto N15
	}
	goto N13
N15:
	a += 16
	if a%17 == 0 {
		goto N16
	}
	goto N14
N16:
	a += 17
	if a%18 == 0 {
		goto N17
	}
	goto N15
N17:
	a += 18
	if a%19 == 0 {
		goto N18
	}
	goto N16
N18:
	a += 19
	if a%20 == 0 {
		goto N19
	}
	goto N17
N19:
	a += 20
	if a%21 == 0 {
		goto N20
	}
	goto N18
N20:
	a += 21
	switch a % 3 {
	case 0:
		goto N21
	case 1:
		goto N19
	default:
		goto N41
	}
N21:
	a += 22
	if a%23 == 0 {
		goto N22
	}
	goto N20
N22:
	a += 23
	if a%24 == 0 {
		goto N23
	}
	goto N21
N23:
	a += 24
	if a%25 == 0 {
		goto N24
	}
	goto N22
N24:
	a += 25
	if a%26 == 0 {
		goto N25
	}
	goto N23
N25:
	a += 26
	if a%27 == 0 {
		goto N26
	}
	goto N24
N26:
	a += 27
	if a%28 == 0 {
		goto N27
	}
	goto N25
N27:
	a += 28
	if a%29 == 0 {
		goto N28
	}
	goto N26
N28:
	a += 29
	if a%30 == 0 {
		goto N29
	}
	goto N27
N29:
	a += 30
	if a%31 == 0 {
		goto N30
	}
	goto N28
N30:
	a += 31
	if a%32 == 0 {
		goto N31
	}
	goto N29
N31:
	a += 32
	if a%33 == 0 {
		goto N32
	}
	goto N30
N32:
	a += 33
	if a%34 == 0 {
		goto N33
	}
	goto N31
N33:
	a += 34
	if a%35 == 0 {
		goto N34
	}
	goto N32
N34:
	a += 35
	if a%36 == 0 {
		goto N35
	}
	goto N33
N35:
	a += 36
	if a%37 == 0 {
		goto N36
	}
	goto N34
N36:
	a += 37
	if a%38 == 0 {
		goto N37
	}
	goto N35
N37:
	a += 38
	if a%39 == 0 {
		goto N38
	}
	goto N36
N38:
	a += 39
	if a%40 == 0 {
		goto N39
	}
	goto N37
N39:
	a += 40
	if a%41 == 0 {
		goto N40
	}
	goto N38
N40:
	a += 41
	goto N39
N41:
	a += 42
	return a
}

func itworst4(a int, p bool) (r int) {
	a += 1
	goto N1
N1:
	a += 2
	if a%3 == 0 {
		goto N2
	}
	goto N12
N2:
	a += 3
	if a%4 == 0 {
		goto N3
	}
	goto N11
N3:
	a += 4
	if a%5 == 0 {
		goto N4
	}
	goto N10
N4:
	a += 5
	if a%6 == 0 {
		goto N5
	}
	goto N9
N5:
	a += 6
	goto N6
N6:
	a += 7
	goto N7
N7:
	a += 8
	goto N8
N8:
	a += 9
	goto N9
N9:
	a += 10
	if a%11 == 0 {
		goto N10
	}
	goto N5
N10:
	a += 11
	if a%12 == 0 {
		goto N11
	}
	goto N6
N11:
	a += 12
	if a%13 == 0 {
		goto N12
	}
	goto N7
N12:
	a += 13
	if a%14 == 0 {
		goto N8
	}
	goto N13
N13:
	a += 14
	return a
}

func itworst8(a int, p bool) (r int) {
	a += 1
	goto N1
N1:
	a += 2
	if a%3 == 0 {
		goto N2
	}
	goto N24
N2:
	a += 3
	if a%4 == 0 {
		goto N3
	}
	goto N23
N3:
	a += 4
	if a%5 == 0 {
		goto N4
	}
	goto N22
N4:
	a += 5
	if a%6 == 0 {
		goto N5
	}
	goto N21
N5:
	a += 6
	if a%7 == 0 {
		goto N6
	}
	goto N20
N6:
	a += 7
	if a%8 == 0 {
		goto N7
	}
	goto N19
N7:
	a += 8
	if a%9 == 0 {
		goto N8
	}
	goto N18
N8:
	a += 9
	if a%10 == 0 {
		goto N9
	}
	goto N17
N9:
	a += 10
	goto N10
N10:
	a += 11
	goto N11
N11:
	a += 12
	goto N12
N12:
	a += 13
	goto N13
N13:
	a += 14
	goto N14
N14:
	a += 15
	goto N15
N15:
	a += 16
	goto N16
N16:
	a += 17
	goto N17
N17:
	a += 18
	if a%19 == 0 {
		goto N18
	}
	goto N9
N18:
	a += 19
	if a%20 == 0 {
		goto N19
	}
	goto N10
N19:
	a += 20
	if a%21 == 0 {
		goto N20
	}
	goto N11
N20:
	a += 21
	if a%22 == 0 {
		goto N21
	}
	goto N12
N21:
	a += 22
	if a%23 == 0 {
		goto N22
	}
	goto N13
N22:
	a += 23
	if a%24 == 0 {
		goto N23
	}
	goto N14
N23:
	a += 24
	if a%25 == 0 {
		goto N24
	}
	goto N15
N24:
	a += 25
	if a%26 == 0 {
		goto N16
	}
	goto N25
N25:
	a += 26
	return a
}

func itworst16(a int, p bool) (r int) {
	a += 1
	goto N1
N1:
	a += 2
	if a%3 == 0 {
		goto N2
	}
	goto N48
N2:
	a += 3
	if a%4 == 0 {
		goto N3
	}
	goto N47
N3:
	a += 4
	if a%5 == 0 {
		goto N4
	}
	goto N46
N4:
	a += 5
	if a%6 == 0 {
		goto N5
	}
	goto N45
N5:
	a += 6
	if a%7 == 0 {
		goto N6
	}
	goto N44
N6:
	a += 7
	if a%8 == 0 {
		goto N7
	}
	goto N43
N7:
	a += 8
	if a%9 == 0 {
		goto N8
	}
	goto N42
N8:
	a += 9
	if a%10 == 0 {
		goto N9
	}
	goto N41
N9:
	a += 10
	if a%11 == 0 {
		goto N10
	}
	goto N40
N10:
	a += 11
	if a%12 == 0 {
		goto N11
	}
	goto N39
N11:
	a += 12
	if a%13 == 0 {
		goto N12
	}
	goto N38
N12:
	a += 13
	if a%14 == 0 {
		goto N13
	}
	goto N37
N13:
	a += 14
	if a%15 == 0 {
		goto N14
	}
	goto N36
N14:
	a += 15
	if a%16 == 0 {
		goto N15
	}
	goto N35
N15:
	a += 16
	if a%17 == 0 {
		goto N16
	}
	goto N34
N16:
	a += 17
	if a%18 == 0 {
		goto N17
	}
	goto N33
N17:
	a += 18
	goto N18
N18:
	a += 19
	goto N19
N19:
	a += 20
	goto N20
N20:
	a += 21
	goto N21
N21:
	a += 22
	goto N22
N22:
	a += 23
	goto N23
N23:
	a += 24
	goto N24
N24:
	a += 25
	goto N25
N25:
	a += 26
	goto N26
N26:
	a += 27
	goto N27
N27:
	a += 28
	goto N28
N28:
	a += 29
	goto N29
N29:
	a += 30
	goto N30
N30:
	a += 31
	goto N31
N31:
	a += 32
	goto N32
N32:
	a += 33
	goto N33
N33:
	a += 34
	if a%35 == 0 {
		goto N34
	}
	goto N17
N34:
	a += 35
	if a%36 == 0 {
		goto N35
	}
	goto N18
N35:
	a += 36
	if a%37 == 0 {
		goto N36
	}
	goto N19
N36:
	a += 37
	if a%38 == 0 {
		goto N37
	}
	goto N20
N37:
	a += 38
	if a%39 == 0 {
		goto N38
	}
	goto N21
N38:
	a += 39
	if a%40 == 0 {
		goto N39
	}
	goto N22
N39:
	a += 40
	if a%41 == 0 {
		goto N40
	}
	goto N23
N40:
	a += 41
	if a%42 == 0 {
		goto N41
	}
	goto N24
N41:
	a += 42
	if a%43 == 0 {
		goto N42
	}
	goto N25
N42:
	a += 43
	if a%44 == 0 {
		goto N43
	}
	goto N26
N43:
	a += 44
	if a%45 == 0 {
		goto N44
	}
	goto N27
N44:
	a += 45
	if a%46 == 0 {
		goto N45
	}
	goto N28
N45:
	a += 46
	if a%47 == 0 {
		goto N46
	}
	goto N29
N46:
	a += 47
	if a%48 == 0 {
		goto N47
	}
	goto N30
N47:
	a += 48
	if a%49 == 0 {
		goto N48
	}
	goto N31
N48:
	a += 49
	if a%50 == 0 {
		goto N32
	}
	goto N49
N49:
	a += 50
	return a
}

func dense5(a int, p bool) (r int) {
	a += 1
	goto N1
N1:
	a += 2
	switch a % 4 {
	case 0:
		goto N2
	case 1:
		goto N3
	case 2:
		goto N4
	default:
		goto N5
	}
N2:
	a += 3
	switch a % 4 {
	case 0:
		goto N3
	case 1:
		goto N4
	case 2:
		goto N5
	default:
		goto N1
	}
N3:
	a += 4
	switch a % 3 {
	case 0:
		goto N4
	case 1:
		goto N5
	default:
		goto N1
	}
N4:
	a += 5
	if a%6 == 0 {
		goto N5
	}
	goto N1
N5:
	a += 6
	if a%7 == 0 {
		goto N1
	}
	goto N6
N6:
	a += 7
	return a
}

func dense9(a int, p bool) (r int) {
	a += 1
	goto N1
N1:
	a += 2
	switch a % 8 {
	case 0:
		goto N2
	case 1:
		goto N3
	case 2:
		goto N4
	case 3:
		goto N5
	case 4:
		goto N6
	case 5:
		goto N7
	case 6:
		goto N8
	default:
		goto N9
	}
N2:
	a += 3
	switch a % 8 {
	case 0:
		goto N3
	case 1:
		goto N4
	case 2:
		goto N5
	case 3:
		goto N6
	case 4:
		goto N7
	case 5:
		goto N8
	case 6:
		goto N9
	default:
		goto N1
	}
N3:
	a += 4
	switch a % 7 {
	case 0:
		goto N4
	case 1:
		goto N5
	case 2:
		goto N6
	case 3:
		goto N7
	case 4:
		goto N8
	case 5:
		goto N9
	default:
		goto N1
	}
N4:
	a += 5
	switch a % 6 {
	case 0:
		goto N5
	case 1:
		goto N6
	case 2:
		goto N7
	case 3:
		goto N8
	case 4:
		goto N9
	default:
		goto N1
	}
N5:
	a += 6
	switch a % 5 {
	case 0:
		goto N6
	case 1:
		goto N7
	case 2:
		goto N8
	case 3:
		goto N9
	default:
		goto N1
	}
N6:
	a += 7
	switch a % 4 {
	case 0:
		goto N7
	case 1:
		goto N8
	case 2:
		goto N9
	default:
		goto N1
	}
N7:
	a += 8
	switch a % 3 {
	case 0:
		goto N8
	case 1:
		goto N9
	default:
		goto N1
	}
N8:
	a += 9
	if a%10 == 0 {
		goto N9
	}
	goto N1
N9:
	a += 10
	if a%11 == 0 {
		goto N1
	}
	goto N10
N10:
	a += 11
	return a
}
