// Fixed regression inputs for C14 (dominance). No imports.
package p

// the function of go/ir/dom_test.go
func domtest(cond bool) {
	print(0)
	if cond {
		print(1)
	} else {
		print(2)
	}
	print(3)
}

func straight(a int) int { return a + 1 }

func loops(n int) (s int) {
	for i := 0; i < n; i++ {
		for j := 0; j < i; j++ {
			if j%2 == 0 {
				continue
			}
			if j > 7 {
				break
			}
			s += j
		}
	}
	return
}

// named result + deferred recover: a Recover block that reloads r
func recovers(a int) (r int) {
	defer func() {
		if e := recover(); e != nil {
			r = -1
		}
	}()
	if a > 3 {
		panic("big")
	}
	for a > 0 {
		a--
		r++
	}
	return r
}

// recover block in a function that never returns normally
func recoverOnly(a int) (r int) {
	defer func() { recover() }()
	for {
		if a > 0 {
			panic(a)
		}
		a++
	}
}

func switches(a int) (r int) {
	switch a {
	case 0:
		r = 1
		fallthrough
	case 1:
		r += 2
	default:
		r = 9
		fallthrough
	case 2:
		r += 3
	case 3:
	}
	switch {
	case a > 5 && r > 2 || a == 1:
		r++
	case r == 0:
		return 7
	}
	return
}

func labelled(a, b int) (r int) {
outer:
	for i := 0; i < a; i++ {
	inner:
		for j := 0; j < b; j++ {
			switch {
			case j == 3:
				continue outer
			case j == 4:
				break inner
			case j == 5:
				break outer
			case j == 6:
				continue inner
			case j == 7:
				break
			}
			r += j
		}
		r -= i
	}
	return
}

func selects(ch chan int, done chan bool) (r int) {
	for {
		select {
		case v := <-ch:
			if v < 0 {
				continue
			}
			r += v
		case <-done:
			return
		default:
			r--
			if r < -10 {
				return
			}
		}
	}
}

func rangefunc(seq func(func(int) bool), lim int) (r int) {
	defer func() { recover() }()
loop:
	for v := range seq {
		if v > lim {
			break
		}
		for w := range seq {
			if w == v {
				continue loop
			}
			if w > lim {
				return w
			}
			if w < 0 {
				goto out
			}
			r += w
		}
	}
	return r
out:
	return -1
}

// unreachable code after return / panic / goto and an infinite loop
func dead(a int) int {
	if a > 0 {
		return 1
		a++
	}
	goto end
	a = 5
	for {
		a++
	}
end:
	panic("x")
	return a
}

func closures(a int) func() int {
	return func() int {
		if a > 0 {
			return func() int {
				for a > 3 {
					a--
				}
				return a
			}()
		}
		return 0
	}
}
