package embed_cycle

// Rule 6.5 on mutually recursive embedded structs (the shape of seeded change C17-1-3):
// q reaches the exported field X only through p.  Declaring p cuts the cycle at p, so p does
// not use its field *q by rule 6.5; r and s, declared anywhere, must use their embedded
// fields (r -> q -> p -> X).  Nothing here may be reported, in any order of declarations.

type p struct {
	*q
	X int
}

type q struct {
	*p
}

type r struct {
	q
}

type s struct {
	r
}

func Use() {
	var a p
	_ = a.q
	var b q
	_ = b.p
	_ = r{}
	_ = s{}
}
