package embed_cycle

// a 3-cycle whose exported field hides behind an embedded unexported leaf, and a cycle
// without any exported field (its unselected embedded fields are reported in every order)

type leaf struct {
	Y int
	z int
}

type c0 struct {
	*c1
	leaf
}

type c1 struct {
	*c2
}

type c2 struct {
	*c0
}

type out0 struct {
	c2
}

type out1 struct {
	*out0
}

type d0 struct {
	*d1
	k int
}

type d1 struct {
	*d0
}

type dout struct {
	d1
}

func UseMore() {
	_ = c0{}
	_ = c1{}
	_ = c2{}
	_ = out0{}
	_ = new(out1)
	_ = d0{}
	_ = d1{}
	_ = dout{}
	_ = leaf{}.z
}
