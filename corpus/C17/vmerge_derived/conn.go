package vmerge_derived

// The shape of seeded change C17-1-2: `attempts` is read only by test code, and the test
// file declares `type fakeTransport transport`, whose name sorts before `transport`, so
// objectpath.For routes the field through it in the test variant: the same field object has
// the path transport.UF1 in the plain variant and fakeTransport.UF1 in the test variant.
// Merging the variants' graphs must still identify the two nodes (by position).

type transport struct {
	addr     string
	attempts int // only read by the tests
}

func Dial(addr string) *transport { return &transport{addr: addr} }

func (t *transport) Addr() string { return t.addr }

func neverUsed() {}
