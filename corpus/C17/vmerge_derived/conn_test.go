package vmerge_derived

type fakeTransport transport

type aWrapper struct {
	fakeTransport
	extra int
}

type zAlias = transport

func TestHelperAttempts() int {
	ft := fakeTransport{addr: "x"}
	var w aWrapper
	_ = w
	var z zAlias
	_ = z.addr
	return ft.attempts
}
