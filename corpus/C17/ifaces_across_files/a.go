package pkg

type shape interface {
	area() int
	name() string
}

func Describe(s shape) string { return s.name() }

type unusedIface interface {
	never()
}
