package pkg

type base struct{ label string }

func (b base) name() string { return b.label }

func (b base) never() {}

func New() (square, *circle) { return square{}, &circle{} }

type orphan struct{ x int }

func (o orphan) area() int    { return o.x }
func (o orphan) name() string { return "" }
