package pkg

type square struct{ side int }

func (s square) area() int    { return s.side * s.side }
func (s square) name() string { return "square" }
func (s square) extra() int   { return 0 }

type circle struct {
	base
	r int
}

func (c *circle) area() int { return 3 * c.r * c.r }
