package pkg

//lint:ignore U1000 reserved
func reserved() { helper() }

func helper() {}

func dead() { deader() }

func deader() {}

type twin1 struct {
	p int
	q int
}

type twin2 struct {
	p int
	q int
}

func Conv(t twin1) int {
	u := twin2(t)
	return u.p
}
