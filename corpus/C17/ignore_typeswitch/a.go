package pkg

//lint:ignore U1000 kept for documentation
type legacy struct {
	old int
}

func (legacy) method() {}

type other struct{ f int }

func (other) method() {}

func Kind(x any) int {
	switch v := x.(type) {
	case int:
		return v
	case string:
		return len(v)
	case other:
		return v.f
	}
	return 0
}

func first(t struct {
	a int
	b int
}) {
	_ = t.a
	second(t)
}

func second(t struct {
	a int
	b int
}) {
	_ = t.b
}

func Use() {
	first(struct {
		a int
		b int
	}{})
}

const (
	c0 = iota
	c1
	c2
)

const lonely = 1

var _ = c1
