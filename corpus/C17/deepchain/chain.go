package pkg

func link12() {
	link13()
}

func link14() {
	link15()
}

func link29() {
	link43()
	link30()
}

func link39() {
	link40()
}

func link46() {
	link47()
}

func link47() {
	link48()
}

func Head() {
	link1()
}

func link5() {
	link43()
	link6()
}

func link28() {
	link29()
}

func side() {
	link20()
}

func link36() {
	link37()
}

func link44() {
	link45()
}

func link41() {
	link47()
	link42()
}

func link35() {
	link36()
}

func link40() {
	link41()
}

func link13() {
	link43()
	link14()
}

func link9() {
	link39()
	link10()
}

func link2() {
	link3()
}

func link31() {
	link32()
}

func link48() {
}

func link10() {
	link11()
}

func link27() {
	link28()
}

func link21() {
	link27()
	link22()
}

func link38() {
	link39()
}

func link43() {
	link44()
}

func link22() {
	link23()
}

func link30() {
	link31()
}

func link6() {
	link7()
}

func Table() []func() { return table }

func link37() {
	link43()
	link38()
}

func link4() {
	link5()
}

func link3() {
	link4()
}

func link8() {
	link9()
}

func link25() {
	link43()
	link26()
}

func link20() {
	link21()
}

func link32() {
	link33()
}

func link16() {
	link17()
}

var table = []func(){link30, link44}

func link24() {
	link25()
}

func link15() {
	link16()
}

func link1() {
	link11()
	link2()
}

func link7() {
	link8()
}

func link17() {
	link27()
	link18()
}

func link42() {
	link43()
}

func link34() {
	link35()
}

func link45() {
	link46()
}

func link11() {
	link12()
}

func link18() {
	link19()
}

func link23() {
	link24()
}

func link19() {
	link20()
}

func link26() {
	link27()
}

func link33() {
	link39()
	link34()
}
