package p

// G is rendered from tmpl.go.
func G(x int) bool {
//line tmpl.go:40
	//lint:ignore SA4000 in a remapped region
	if x == x {
		return true
	}
	// note
	//lint:ignore SA4000 second line, remapped
	if x != x {
		return false
	}
//line gram.y:7
	//lint:ignore SA4000 the adjusted file is no Go file
	return x == x
}
