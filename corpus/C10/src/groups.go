// Package p: directives at every index of a comment group (regression input of C10).
package p

func A(x int) bool {
	//lint:ignore SA4000 alone in its group
	if x == x {
		return true
	}
	return x != x
}

func B(x int) bool {
	// An explanatory line first.
	//lint:ignore SA4000 second line of its group
	if x == x {
		return true
	}
	return x != x
}

func C(x int) bool {
	//lint:ignore SA4000 first line of its group
	// An explanatory line second.
	if x == x {
		return true
	}
	return x != x
}

// helper is unused; gofmt moves a directive to the end of the doc comment.
//
//lint:ignore U1000 last line of the doc comment
func helper() {}

func D(x int) bool {
	// no reason below
	//lint:ignore SA4000
	if x == x {
		return true
	}
	// nothing to suppress below
	//lint:ignore SA4000 nothing here
	return x > 0 //lint:ignore SA4003 trailing
}

var last = 1 //lint:ignore U1000 trailing the last declaration: go/ast attaches it to the file
