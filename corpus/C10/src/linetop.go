//line tmpl2.go:1
package p

//lint:file-ignore SA4000 the //line comment precedes the package clause

// H is rendered from tmpl2.go.
func H(x int) bool {
	if x == x {
		return true
	}
	return x+0 > 1
}
