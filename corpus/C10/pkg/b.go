// Second file of the package: the same constructs, one line further down.
package p

type T2 struct{ n int }

func (t T2) unusedMethod() int { return t.n }

func unusedFunc2() int {
	return helper2()
}

func helper2() int { return 1 }

var unused_var2 = 3

var Exported_var2 = 4

func F2(a int, b bool, u uint) int {
	x := 1
	x = 2
	if a == a {
		return x
	}
	if b == true {
		return 1
	}
	if u < 0 {
		return 2
	}
	a = a
	var s []int
	s = append(s, 1)
	return 0
}

func G2(xs []int) int {
	n := 0
	for i, _ := range xs {
		n += i
	}
	return n
}

func H2(x int) int {
	var y int
	y = x
	if x == x || y != y {
		return y
	}
	return 0
}
