package p

type T struct{ n int }

func (t T) unusedMethod() int { return t.n }

func unusedFunc() int {
	return helper()
}

func helper() int { return 1 }

var unused_var = 3

var Exported_var = 4

func F(a int, b bool, u uint) int {
	x := 1
	x = 2
	if a == a {
		return x
	}
	if b == true {
		return 1
	}
	if u < 0 {
		return 2
	}
	a = a
	var s []int
	s = append(s, 1)
	return 0
}

func G(xs []int) int {
	n := 0
	for i, _ := range xs {
		n += i
	}
	return n
}

func H(x int) int {
	var y int
	y = x
	if x == x || y != y {
		return y
	}
	return 0
}
