module example.com/c10pkg

go 1.22
