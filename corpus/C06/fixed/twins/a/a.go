// Package a uses clamp, pair.left, limit and meter.bump of its copy of helpers.go.
package a

// Percent clamps v to 0..100.
func Percent(v int) int {
	var m meter
	m.bump()
	return clamp(v, 0, limit*10) + pair{}.left + m.n
}
