// Package b uses scale, pair.right, table and meter.reset of its copy of helpers.go.
package b

// Percent does not clamp.
func Percent(v int) int {
	var m meter
	m.reset()
	return scale(v, table[0]) + pair{}.right + m.n
}
