package b

func clamp(v, lo, hi int) int {
	if v < lo {
		return lo
	}
	if v > hi {
		return hi
	}
	return v
}

func scale(v, k int) int { return v * k }

type pair struct {
	left  int
	right int
}

const limit = 10

var table = [3]int{1, 2, 3}

type meter struct{ n int }

func (m *meter) bump() { m.n++ }

func (m *meter) reset() { m.n = 0 }
