package util

// Percent does not clamp.
func Percent(v int) int { return v }
