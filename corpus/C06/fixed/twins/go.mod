module example.com/twins

go 1.22
