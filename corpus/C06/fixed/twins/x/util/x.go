package util

// Percent clamps v to 0..100.
func Percent(v int) int { return clamp(v, 0, 100) + width(span{from: v}) }
