// Package util is copied verbatim into two directories.
package util

func clamp(v, lo, hi int) int {
	if v < lo {
		return lo
	}
	if v > hi {
		return hi
	}
	return v
}

type span struct {
	from int
	to   int
}

func width(s span) int { return s.to - s.from }
