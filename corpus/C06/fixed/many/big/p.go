// Package big: two dozen analyzers report dozens of problems each on one package.
package big

// T1 is a type.
type T1 struct {
	a            int
	unusedField1 int
}

// Get_1 has an underscore.
func (self *T1) Get_1() int { return self.a }

// G1 has more unrelated problems.
func G1(u uint, s []int, m map[int]int, b bool, str string, t *T1) (r bool) {
	if u < 0 {
		return true
	}
	x := 1
	x = 2
	_ = x
	var y int
	y = 3
	_ = y
	if b {
	}
	if s != nil && len(s) > 0 {
		u++
	}
	for i, _ := range s {
		u += uint(i)
	}
	for k := range m {
		delete(m, k)
	}
	var z []int = nil
	_ = z
	if len(str) == 0 && str != "" {
		u++
	}
	switch {
	case b:
		u++
	case b:
		u--
	}
	if !(u == 3) {
		u++
	}
	u = u &^ 0
	_ = u | 0
	_ = s[:len(s)]
	for {
		select {
		default:
		}
		break
	}
	if t == nil {
		_ = t.a
	}
	var e error
	if e != nil {
		return e == nil
	}
	c := make(chan int)
	select {
	case <-c:
	}
	_ = str + string(rune('a'))
	if len(s) > 0 {
		return true
	}
	return false
}

// H1 returns.
func H1(p *int) {
	defer func() {}()
	_ = *p
	if p != nil {
		return
	}
	return
}

func unusedG1() {}

const unusedC1 = 1

var unusedV1 = 1

type unusedT1 int

// F1 has several unrelated problems.
func F1(a int, b bool, xs []int) bool {
	if a == a {
		a++
	}
	if b == true {
		a++
	}
	for _ = range xs {
		a++
	}
	if 5 == a {
		a++
	}
	if !!b {
		a++
	}
	a = a
	for i := 0; i < len(xs); i++ {
		break
	}
	return a > 0
}

func unused1() {}

// T2 is a type.
type T2 struct {
	a            int
	unusedField2 int
}

// Get_2 has an underscore.
func (self *T2) Get_2() int { return self.a }

// G2 has more unrelated problems.
func G2(u uint, s []int, m map[int]int, b bool, str string, t *T2) (r bool) {
	if u < 0 {
		return true
	}
	x := 1
	x = 2
	_ = x
	var y int
	y = 3
	_ = y
	if b {
	}
	if s != nil && len(s) > 0 {
		u++
	}
	for i, _ := range s {
		u += uint(i)
	}
	for k := range m {
		delete(m, k)
	}
	var z []int = nil
	_ = z
	if len(str) == 0 && str != "" {
		u++
	}
	switch {
	case b:
		u++
	case b:
		u--
	}
	if !(u == 3) {
		u++
	}
	u = u &^ 0
	_ = u | 0
	_ = s[:len(s)]
	for {
		select {
		default:
		}
		break
	}
	if t == nil {
		_ = t.a
	}
	var e error
	if e != nil {
		return e == nil
	}
	c := make(chan int)
	select {
	case <-c:
	}
	_ = str + string(rune('a'))
	if len(s) > 0 {
		return true
	}
	return false
}

// H2 returns.
func H2(p *int) {
	defer func() {}()
	_ = *p
	if p != nil {
		return
	}
	return
}

func unusedG2() {}

const unusedC2 = 2

var unusedV2 = 1

type unusedT2 int

// F2 has several unrelated problems.
func F2(a int, b bool, xs []int) bool {
	if a == a {
		a++
	}
	if b == true {
		a++
	}
	for _ = range xs {
		a++
	}
	if 5 == a {
		a++
	}
	if !!b {
		a++
	}
	a = a
	for i := 0; i < len(xs); i++ {
		break
	}
	return a > 0
}

func unused2() {}

// T3 is a type.
type T3 struct {
	a            int
	unusedField3 int
}

// Get_3 has an underscore.
func (self *T3) Get_3() int { return self.a }

// G3 has more unrelated problems.
func G3(u uint, s []int, m map[int]int, b bool, str string, t *T3) (r bool) {
	if u < 0 {
		return true
	}
	x := 1
	x = 2
	_ = x
	var y int
	y = 3
	_ = y
	if b {
	}
	if s != nil && len(s) > 0 {
		u++
	}
	for i, _ := range s {
		u += uint(i)
	}
	for k := range m {
		delete(m, k)
	}
	var z []int = nil
	_ = z
	if len(str) == 0 && str != "" {
		u++
	}
	switch {
	case b:
		u++
	case b:
		u--
	}
	if !(u == 3) {
		u++
	}
	u = u &^ 0
	_ = u | 0
	_ = s[:len(s)]
	for {
		select {
		default:
		}
		break
	}
	if t == nil {
		_ = t.a
	}
	var e error
	if e != nil {
		return e == nil
	}
	c := make(chan int)
	select {
	case <-c:
	}
	_ = str + string(rune('a'))
	if len(s) > 0 {
		return true
	}
	return false
}

// H3 returns.
func H3(p *int) {
	defer func() {}()
	_ = *p
	if p != nil {
		return
	}
	return
}

func unusedG3() {}

const unusedC3 = 3

var unusedV3 = 1

type unusedT3 int

// F3 has several unrelated problems.
func F3(a int, b bool, xs []int) bool {
	if a == a {
		a++
	}
	if b == true {
		a++
	}
	for _ = range xs {
		a++
	}
	if 5 == a {
		a++
	}
	if !!b {
		a++
	}
	a = a
	for i := 0; i < len(xs); i++ {
		break
	}
	return a > 0
}

func unused3() {}

// T4 is a type.
type T4 struct {
	a            int
	unusedField4 int
}

// Get_4 has an underscore.
func (self *T4) Get_4() int { return self.a }

// G4 has more unrelated problems.
func G4(u uint, s []int, m map[int]int, b bool, str string, t *T4) (r bool) {
	if u < 0 {
		return true
	}
	x := 1
	x = 2
	_ = x
	var y int
	y = 3
	_ = y
	if b {
	}
	if s != nil && len(s) > 0 {
		u++
	}
	for i, _ := range s {
		u += uint(i)
	}
	for k := range m {
		delete(m, k)
	}
	var z []int = nil
	_ = z
	if len(str) == 0 && str != "" {
		u++
	}
	switch {
	case b:
		u++
	case b:
		u--
	}
	if !(u == 3) {
		u++
	}
	u = u &^ 0
	_ = u | 0
	_ = s[:len(s)]
	for {
		select {
		default:
		}
		break
	}
	if t == nil {
		_ = t.a
	}
	var e error
	if e != nil {
		return e == nil
	}
	c := make(chan int)
	select {
	case <-c:
	}
	_ = str + string(rune('a'))
	if len(s) > 0 {
		return true
	}
	return false
}

// H4 returns.
func H4(p *int) {
	defer func() {}()
	_ = *p
	if p != nil {
		return
	}
	return
}

func unusedG4() {}

const unusedC4 = 4

var unusedV4 = 1

type unusedT4 int

// F4 has several unrelated problems.
func F4(a int, b bool, xs []int) bool {
	if a == a {
		a++
	}
	if b == true {
		a++
	}
	for _ = range xs {
		a++
	}
	if 5 == a {
		a++
	}
	if !!b {
		a++
	}
	a = a
	for i := 0; i < len(xs); i++ {
		break
	}
	return a > 0
}

func unused4() {}

// T5 is a type.
type T5 struct {
	a            int
	unusedField5 int
}

// Get_5 has an underscore.
func (self *T5) Get_5() int { return self.a }

// G5 has more unrelated problems.
func G5(u uint, s []int, m map[int]int, b bool, str string, t *T5) (r bool) {
	if u < 0 {
		return true
	}
	x := 1
	x = 2
	_ = x
	var y int
	y = 3
	_ = y
	if b {
	}
	if s != nil && len(s) > 0 {
		u++
	}
	for i, _ := range s {
		u += uint(i)
	}
	for k := range m {
		delete(m, k)
	}
	var z []int = nil
	_ = z
	if len(str) == 0 && str != "" {
		u++
	}
	switch {
	case b:
		u++
	case b:
		u--
	}
	if !(u == 3) {
		u++
	}
	u = u &^ 0
	_ = u | 0
	_ = s[:len(s)]
	for {
		select {
		default:
		}
		break
	}
	if t == nil {
		_ = t.a
	}
	var e error
	if e != nil {
		return e == nil
	}
	c := make(chan int)
	select {
	case <-c:
	}
	_ = str + string(rune('a'))
	if len(s) > 0 {
		return true
	}
	return false
}

// H5 returns.
func H5(p *int) {
	defer func() {}()
	_ = *p
	if p != nil {
		return
	}
	return
}

func unusedG5() {}

const unusedC5 = 5

var unusedV5 = 1

type unusedT5 int

// F5 has several unrelated problems.
func F5(a int, b bool, xs []int) bool {
	if a == a {
		a++
	}
	if b == true {
		a++
	}
	for _ = range xs {
		a++
	}
	if 5 == a {
		a++
	}
	if !!b {
		a++
	}
	a = a
	for i := 0; i < len(xs); i++ {
		break
	}
	return a > 0
}

func unused5() {}

// T6 is a type.
type T6 struct {
	a            int
	unusedField6 int
}

// Get_6 has an underscore.
func (self *T6) Get_6() int { return self.a }

// G6 has more unrelated problems.
func G6(u uint, s []int, m map[int]int, b bool, str string, t *T6) (r bool) {
	if u < 0 {
		return true
	}
	x := 1
	x = 2
	_ = x
	var y int
	y = 3
	_ = y
	if b {
	}
	if s != nil && len(s) > 0 {
		u++
	}
	for i, _ := range s {
		u += uint(i)
	}
	for k := range m {
		delete(m, k)
	}
	var z []int = nil
	_ = z
	if len(str) == 0 && str != "" {
		u++
	}
	switch {
	case b:
		u++
	case b:
		u--
	}
	if !(u == 3) {
		u++
	}
	u = u &^ 0
	_ = u | 0
	_ = s[:len(s)]
	for {
		select {
		default:
		}
		break
	}
	if t == nil {
		_ = t.a
	}
	var e error
	if e != nil {
		return e == nil
	}
	c := make(chan int)
	select {
	case <-c:
	}
	_ = str + string(rune('a'))
	if len(s) > 0 {
		return true
	}
	return false
}

// H6 returns.
func H6(p *int) {
	defer func() {}()
	_ = *p
	if p != nil {
		return
	}
	return
}

func unusedG6() {}

const unusedC6 = 6

var unusedV6 = 1

type unusedT6 int

// F6 has several unrelated problems.
func F6(a int, b bool, xs []int) bool {
	if a == a {
		a++
	}
	if b == true {
		a++
	}
	for _ = range xs {
		a++
	}
	if 5 == a {
		a++
	}
	if !!b {
		a++
	}
	a = a
	for i := 0; i < len(xs); i++ {
		break
	}
	return a > 0
}

func unused6() {}

// T7 is a type.
type T7 struct {
	a            int
	unusedField7 int
}

// Get_7 has an underscore.
func (self *T7) Get_7() int { return self.a }

// G7 has more unrelated problems.
func G7(u uint, s []int, m map[int]int, b bool, str string, t *T7) (r bool) {
	if u < 0 {
		return true
	}
	x := 1
	x = 2
	_ = x
	var y int
	y = 3
	_ = y
	if b {
	}
	if s != nil && len(s) > 0 {
		u++
	}
	for i, _ := range s {
		u += uint(i)
	}
	for k := range m {
		delete(m, k)
	}
	var z []int = nil
	_ = z
	if len(str) == 0 && str != "" {
		u++
	}
	switch {
	case b:
		u++
	case b:
		u--
	}
	if !(u == 3) {
		u++
	}
	u = u &^ 0
	_ = u | 0
	_ = s[:len(s)]
	for {
		select {
		default:
		}
		break
	}
	if t == nil {
		_ = t.a
	}
	var e error
	if e != nil {
		return e == nil
	}
	c := make(chan int)
	select {
	case <-c:
	}
	_ = str + string(rune('a'))
	if len(s) > 0 {
		return true
	}
	return false
}

// H7 returns.
func H7(p *int) {
	defer func() {}()
	_ = *p
	if p != nil {
		return
	}
	return
}

func unusedG7() {}

const unusedC7 = 7

var unusedV7 = 1

type unusedT7 int

// F7 has several unrelated problems.
func F7(a int, b bool, xs []int) bool {
	if a == a {
		a++
	}
	if b == true {
		a++
	}
	for _ = range xs {
		a++
	}
	if 5 == a {
		a++
	}
	if !!b {
		a++
	}
	a = a
	for i := 0; i < len(xs); i++ {
		break
	}
	return a > 0
}

func unused7() {}

// T8 is a type.
type T8 struct {
	a            int
	unusedField8 int
}

// Get_8 has an underscore.
func (self *T8) Get_8() int { return self.a }

// G8 has more unrelated problems.
func G8(u uint, s []int, m map[int]int, b bool, str string, t *T8) (r bool) {
	if u < 0 {
		return true
	}
	x := 1
	x = 2
	_ = x
	var y int
	y = 3
	_ = y
	if b {
	}
	if s != nil && len(s) > 0 {
		u++
	}
	for i, _ := range s {
		u += uint(i)
	}
	for k := range m {
		delete(m, k)
	}
	var z []int = nil
	_ = z
	if len(str) == 0 && str != "" {
		u++
	}
	switch {
	case b:
		u++
	case b:
		u--
	}
	if !(u == 3) {
		u++
	}
	u = u &^ 0
	_ = u | 0
	_ = s[:len(s)]
	for {
		select {
		default:
		}
		break
	}
	if t == nil {
		_ = t.a
	}
	var e error
	if e != nil {
		return e == nil
	}
	c := make(chan int)
	select {
	case <-c:
	}
	_ = str + string(rune('a'))
	if len(s) > 0 {
		return true
	}
	return false
}

// H8 returns.
func H8(p *int) {
	defer func() {}()
	_ = *p
	if p != nil {
		return
	}
	return
}

func unusedG8() {}

const unusedC8 = 8

var unusedV8 = 1

type unusedT8 int

// F8 has several unrelated problems.
func F8(a int, b bool, xs []int) bool {
	if a == a {
		a++
	}
	if b == true {
		a++
	}
	for _ = range xs {
		a++
	}
	if 5 == a {
		a++
	}
	if !!b {
		a++
	}
	a = a
	for i := 0; i < len(xs); i++ {
		break
	}
	return a > 0
}

func unused8() {}

// T9 is a type.
type T9 struct {
	a            int
	unusedField9 int
}

// Get_9 has an underscore.
func (self *T9) Get_9() int { return self.a }

// G9 has more unrelated problems.
func G9(u uint, s []int, m map[int]int, b bool, str string, t *T9) (r bool) {
	if u < 0 {
		return true
	}
	x := 1
	x = 2
	_ = x
	var y int
	y = 3
	_ = y
	if b {
	}
	if s != nil && len(s) > 0 {
		u++
	}
	for i, _ := range s {
		u += uint(i)
	}
	for k := range m {
		delete(m, k)
	}
	var z []int = nil
	_ = z
	if len(str) == 0 && str != "" {
		u++
	}
	switch {
	case b:
		u++
	case b:
		u--
	}
	if !(u == 3) {
		u++
	}
	u = u &^ 0
	_ = u | 0
	_ = s[:len(s)]
	for {
		select {
		default:
		}
		break
	}
	if t == nil {
		_ = t.a
	}
	var e error
	if e != nil {
		return e == nil
	}
	c := make(chan int)
	select {
	case <-c:
	}
	_ = str + string(rune('a'))
	if len(s) > 0 {
		return true
	}
	return false
}

// H9 returns.
func H9(p *int) {
	defer func() {}()
	_ = *p
	if p != nil {
		return
	}
	return
}

func unusedG9() {}

const unusedC9 = 9

var unusedV9 = 1

type unusedT9 int

// F9 has several unrelated problems.
func F9(a int, b bool, xs []int) bool {
	if a == a {
		a++
	}
	if b == true {
		a++
	}
	for _ = range xs {
		a++
	}
	if 5 == a {
		a++
	}
	if !!b {
		a++
	}
	a = a
	for i := 0; i < len(xs); i++ {
		break
	}
	return a > 0
}

func unused9() {}

// T10 is a type.
type T10 struct {
	a             int
	unusedField10 int
}

// Get_10 has an underscore.
func (self *T10) Get_10() int { return self.a }

// G10 has more unrelated problems.
func G10(u uint, s []int, m map[int]int, b bool, str string, t *T10) (r bool) {
	if u < 0 {
		return true
	}
	x := 1
	x = 2
	_ = x
	var y int
	y = 3
	_ = y
	if b {
	}
	if s != nil && len(s) > 0 {
		u++
	}
	for i, _ := range s {
		u += uint(i)
	}
	for k := range m {
		delete(m, k)
	}
	var z []int = nil
	_ = z
	if len(str) == 0 && str != "" {
		u++
	}
	switch {
	case b:
		u++
	case b:
		u--
	}
	if !(u == 3) {
		u++
	}
	u = u &^ 0
	_ = u | 0
	_ = s[:len(s)]
	for {
		select {
		default:
		}
		break
	}
	if t == nil {
		_ = t.a
	}
	var e error
	if e != nil {
		return e == nil
	}
	c := make(chan int)
	select {
	case <-c:
	}
	_ = str + string(rune('a'))
	if len(s) > 0 {
		return true
	}
	return false
}

// H10 returns.
func H10(p *int) {
	defer func() {}()
	_ = *p
	if p != nil {
		return
	}
	return
}

func unusedG10() {}

const unusedC10 = 10

var unusedV10 = 1

type unusedT10 int

// F10 has several unrelated problems.
func F10(a int, b bool, xs []int) bool {
	if a == a {
		a++
	}
	if b == true {
		a++
	}
	for _ = range xs {
		a++
	}
	if 5 == a {
		a++
	}
	if !!b {
		a++
	}
	a = a
	for i := 0; i < len(xs); i++ {
		break
	}
	return a > 0
}

func unused10() {}

// T11 is a type.
type T11 struct {
	a             int
	unusedField11 int
}

// Get_11 has an underscore.
func (self *T11) Get_11() int { return self.a }

// G11 has more unrelated problems.
func G11(u uint, s []int, m map[int]int, b bool, str string, t *T11) (r bool) {
	if u < 0 {
		return true
	}
	x := 1
	x = 2
	_ = x
	var y int
	y = 3
	_ = y
	if b {
	}
	if s != nil && len(s) > 0 {
		u++
	}
	for i, _ := range s {
		u += uint(i)
	}
	for k := range m {
		delete(m, k)
	}
	var z []int = nil
	_ = z
	if len(str) == 0 && str != "" {
		u++
	}
	switch {
	case b:
		u++
	case b:
		u--
	}
	if !(u == 3) {
		u++
	}
	u = u &^ 0
	_ = u | 0
	_ = s[:len(s)]
	for {
		select {
		default:
		}
		break
	}
	if t == nil {
		_ = t.a
	}
	var e error
	if e != nil {
		return e == nil
	}
	c := make(chan int)
	select {
	case <-c:
	}
	_ = str + string(rune('a'))
	if len(s) > 0 {
		return true
	}
	return false
}

// H11 returns.
func H11(p *int) {
	defer func() {}()
	_ = *p
	if p != nil {
		return
	}
	return
}

func unusedG11() {}

const unusedC11 = 11

var unusedV11 = 1

type unusedT11 int

// F11 has several unrelated problems.
func F11(a int, b bool, xs []int) bool {
	if a == a {
		a++
	}
	if b == true {
		a++
	}
	for _ = range xs {
		a++
	}
	if 5 == a {
		a++
	}
	if !!b {
		a++
	}
	a = a
	for i := 0; i < len(xs); i++ {
		break
	}
	return a > 0
}

func unused11() {}

// T12 is a type.
type T12 struct {
	a             int
	unusedField12 int
}

// Get_12 has an underscore.
func (self *T12) Get_12() int { return self.a }

// G12 has more unrelated problems.
func G12(u uint, s []int, m map[int]int, b bool, str string, t *T12) (r bool) {
	if u < 0 {
		return true
	}
	x := 1
	x = 2
	_ = x
	var y int
	y = 3
	_ = y
	if b {
	}
	if s != nil && len(s) > 0 {
		u++
	}
	for i, _ := range s {
		u += uint(i)
	}
	for k := range m {
		delete(m, k)
	}
	var z []int = nil
	_ = z
	if len(str) == 0 && str != "" {
		u++
	}
	switch {
	case b:
		u++
	case b:
		u--
	}
	if !(u == 3) {
		u++
	}
	u = u &^ 0
	_ = u | 0
	_ = s[:len(s)]
	for {
		select {
		default:
		}
		break
	}
	if t == nil {
		_ = t.a
	}
	var e error
	if e != nil {
		return e == nil
	}
	c := make(chan int)
	select {
	case <-c:
	}
	_ = str + string(rune('a'))
	if len(s) > 0 {
		return true
	}
	return false
}

// H12 returns.
func H12(p *int) {
	defer func() {}()
	_ = *p
	if p != nil {
		return
	}
	return
}

func unusedG12() {}

const unusedC12 = 12

var unusedV12 = 1

type unusedT12 int

// F12 has several unrelated problems.
func F12(a int, b bool, xs []int) bool {
	if a == a {
		a++
	}
	if b == true {
		a++
	}
	for _ = range xs {
		a++
	}
	if 5 == a {
		a++
	}
	if !!b {
		a++
	}
	a = a
	for i := 0; i < len(xs); i++ {
		break
	}
	return a > 0
}

func unused12() {}

// T13 is a type.
type T13 struct {
	a             int
	unusedField13 int
}

// Get_13 has an underscore.
func (self *T13) Get_13() int { return self.a }

// G13 has more unrelated problems.
func G13(u uint, s []int, m map[int]int, b bool, str string, t *T13) (r bool) {
	if u < 0 {
		return true
	}
	x := 1
	x = 2
	_ = x
	var y int
	y = 3
	_ = y
	if b {
	}
	if s != nil && len(s) > 0 {
		u++
	}
	for i, _ := range s {
		u += uint(i)
	}
	for k := range m {
		delete(m, k)
	}
	var z []int = nil
	_ = z
	if len(str) == 0 && str != "" {
		u++
	}
	switch {
	case b:
		u++
	case b:
		u--
	}
	if !(u == 3) {
		u++
	}
	u = u &^ 0
	_ = u | 0
	_ = s[:len(s)]
	for {
		select {
		default:
		}
		break
	}
	if t == nil {
		_ = t.a
	}
	var e error
	if e != nil {
		return e == nil
	}
	c := make(chan int)
	select {
	case <-c:
	}
	_ = str + string(rune('a'))
	if len(s) > 0 {
		return true
	}
	return false
}

// H13 returns.
func H13(p *int) {
	defer func() {}()
	_ = *p
	if p != nil {
		return
	}
	return
}

func unusedG13() {}

const unusedC13 = 13

var unusedV13 = 1

type unusedT13 int

// F13 has several unrelated problems.
func F13(a int, b bool, xs []int) bool {
	if a == a {
		a++
	}
	if b == true {
		a++
	}
	for _ = range xs {
		a++
	}
	if 5 == a {
		a++
	}
	if !!b {
		a++
	}
	a = a
	for i := 0; i < len(xs); i++ {
		break
	}
	return a > 0
}

func unused13() {}

// T14 is a type.
type T14 struct {
	a             int
	unusedField14 int
}

// Get_14 has an underscore.
func (self *T14) Get_14() int { return self.a }

// G14 has more unrelated problems.
func G14(u uint, s []int, m map[int]int, b bool, str string, t *T14) (r bool) {
	if u < 0 {
		return true
	}
	x := 1
	x = 2
	_ = x
	var y int
	y = 3
	_ = y
	if b {
	}
	if s != nil && len(s) > 0 {
		u++
	}
	for i, _ := range s {
		u += uint(i)
	}
	for k := range m {
		delete(m, k)
	}
	var z []int = nil
	_ = z
	if len(str) == 0 && str != "" {
		u++
	}
	switch {
	case b:
		u++
	case b:
		u--
	}
	if !(u == 3) {
		u++
	}
	u = u &^ 0
	_ = u | 0
	_ = s[:len(s)]
	for {
		select {
		default:
		}
		break
	}
	if t == nil {
		_ = t.a
	}
	var e error
	if e != nil {
		return e == nil
	}
	c := make(chan int)
	select {
	case <-c:
	}
	_ = str + string(rune('a'))
	if len(s) > 0 {
		return true
	}
	return false
}

// H14 returns.
func H14(p *int) {
	defer func() {}()
	_ = *p
	if p != nil {
		return
	}
	return
}

func unusedG14() {}

const unusedC14 = 14

var unusedV14 = 1

type unusedT14 int

// F14 has several unrelated problems.
func F14(a int, b bool, xs []int) bool {
	if a == a {
		a++
	}
	if b == true {
		a++
	}
	for _ = range xs {
		a++
	}
	if 5 == a {
		a++
	}
	if !!b {
		a++
	}
	a = a
	for i := 0; i < len(xs); i++ {
		break
	}
	return a > 0
}

func unused14() {}

// T15 is a type.
type T15 struct {
	a             int
	unusedField15 int
}

// Get_15 has an underscore.
func (self *T15) Get_15() int { return self.a }

// G15 has more unrelated problems.
func G15(u uint, s []int, m map[int]int, b bool, str string, t *T15) (r bool) {
	if u < 0 {
		return true
	}
	x := 1
	x = 2
	_ = x
	var y int
	y = 3
	_ = y
	if b {
	}
	if s != nil && len(s) > 0 {
		u++
	}
	for i, _ := range s {
		u += uint(i)
	}
	for k := range m {
		delete(m, k)
	}
	var z []int = nil
	_ = z
	if len(str) == 0 && str != "" {
		u++
	}
	switch {
	case b:
		u++
	case b:
		u--
	}
	if !(u == 3) {
		u++
	}
	u = u &^ 0
	_ = u | 0
	_ = s[:len(s)]
	for {
		select {
		default:
		}
		break
	}
	if t == nil {
		_ = t.a
	}
	var e error
	if e != nil {
		return e == nil
	}
	c := make(chan int)
	select {
	case <-c:
	}
	_ = str + string(rune('a'))
	if len(s) > 0 {
		return true
	}
	return false
}

// H15 returns.
func H15(p *int) {
	defer func() {}()
	_ = *p
	if p != nil {
		return
	}
	return
}

func unusedG15() {}

const unusedC15 = 15

var unusedV15 = 1

type unusedT15 int

// F15 has several unrelated problems.
func F15(a int, b bool, xs []int) bool {
	if a == a {
		a++
	}
	if b == true {
		a++
	}
	for _ = range xs {
		a++
	}
	if 5 == a {
		a++
	}
	if !!b {
		a++
	}
	a = a
	for i := 0; i < len(xs); i++ {
		break
	}
	return a > 0
}

func unused15() {}

// T16 is a type.
type T16 struct {
	a             int
	unusedField16 int
}

// Get_16 has an underscore.
func (self *T16) Get_16() int { return self.a }

// G16 has more unrelated problems.
func G16(u uint, s []int, m map[int]int, b bool, str string, t *T16) (r bool) {
	if u < 0 {
		return true
	}
	x := 1
	x = 2
	_ = x
	var y int
	y = 3
	_ = y
	if b {
	}
	if s != nil && len(s) > 0 {
		u++
	}
	for i, _ := range s {
		u += uint(i)
	}
	for k := range m {
		delete(m, k)
	}
	var z []int = nil
	_ = z
	if len(str) == 0 && str != "" {
		u++
	}
	switch {
	case b:
		u++
	case b:
		u--
	}
	if !(u == 3) {
		u++
	}
	u = u &^ 0
	_ = u | 0
	_ = s[:len(s)]
	for {
		select {
		default:
		}
		break
	}
	if t == nil {
		_ = t.a
	}
	var e error
	if e != nil {
		return e == nil
	}
	c := make(chan int)
	select {
	case <-c:
	}
	_ = str + string(rune('a'))
	if len(s) > 0 {
		return true
	}
	return false
}

// H16 returns.
func H16(p *int) {
	defer func() {}()
	_ = *p
	if p != nil {
		return
	}
	return
}

func unusedG16() {}

const unusedC16 = 16

var unusedV16 = 1

type unusedT16 int

// F16 has several unrelated problems.
func F16(a int, b bool, xs []int) bool {
	if a == a {
		a++
	}
	if b == true {
		a++
	}
	for _ = range xs {
		a++
	}
	if 5 == a {
		a++
	}
	if !!b {
		a++
	}
	a = a
	for i := 0; i < len(xs); i++ {
		break
	}
	return a > 0
}

func unused16() {}

// T17 is a type.
type T17 struct {
	a             int
	unusedField17 int
}

// Get_17 has an underscore.
func (self *T17) Get_17() int { return self.a }

// G17 has more unrelated problems.
func G17(u uint, s []int, m map[int]int, b bool, str string, t *T17) (r bool) {
	if u < 0 {
		return true
	}
	x := 1
	x = 2
	_ = x
	var y int
	y = 3
	_ = y
	if b {
	}
	if s != nil && len(s) > 0 {
		u++
	}
	for i, _ := range s {
		u += uint(i)
	}
	for k := range m {
		delete(m, k)
	}
	var z []int = nil
	_ = z
	if len(str) == 0 && str != "" {
		u++
	}
	switch {
	case b:
		u++
	case b:
		u--
	}
	if !(u == 3) {
		u++
	}
	u = u &^ 0
	_ = u | 0
	_ = s[:len(s)]
	for {
		select {
		default:
		}
		break
	}
	if t == nil {
		_ = t.a
	}
	var e error
	if e != nil {
		return e == nil
	}
	c := make(chan int)
	select {
	case <-c:
	}
	_ = str + string(rune('a'))
	if len(s) > 0 {
		return true
	}
	return false
}

// H17 returns.
func H17(p *int) {
	defer func() {}()
	_ = *p
	if p != nil {
		return
	}
	return
}

func unusedG17() {}

const unusedC17 = 17

var unusedV17 = 1

type unusedT17 int

// F17 has several unrelated problems.
func F17(a int, b bool, xs []int) bool {
	if a == a {
		a++
	}
	if b == true {
		a++
	}
	for _ = range xs {
		a++
	}
	if 5 == a {
		a++
	}
	if !!b {
		a++
	}
	a = a
	for i := 0; i < len(xs); i++ {
		break
	}
	return a > 0
}

func unused17() {}

// T18 is a type.
type T18 struct {
	a             int
	unusedField18 int
}

// Get_18 has an underscore.
func (self *T18) Get_18() int { return self.a }

// G18 has more unrelated problems.
func G18(u uint, s []int, m map[int]int, b bool, str string, t *T18) (r bool) {
	if u < 0 {
		return true
	}
	x := 1
	x = 2
	_ = x
	var y int
	y = 3
	_ = y
	if b {
	}
	if s != nil && len(s) > 0 {
		u++
	}
	for i, _ := range s {
		u += uint(i)
	}
	for k := range m {
		delete(m, k)
	}
	var z []int = nil
	_ = z
	if len(str) == 0 && str != "" {
		u++
	}
	switch {
	case b:
		u++
	case b:
		u--
	}
	if !(u == 3) {
		u++
	}
	u = u &^ 0
	_ = u | 0
	_ = s[:len(s)]
	for {
		select {
		default:
		}
		break
	}
	if t == nil {
		_ = t.a
	}
	var e error
	if e != nil {
		return e == nil
	}
	c := make(chan int)
	select {
	case <-c:
	}
	_ = str + string(rune('a'))
	if len(s) > 0 {
		return true
	}
	return false
}

// H18 returns.
func H18(p *int) {
	defer func() {}()
	_ = *p
	if p != nil {
		return
	}
	return
}

func unusedG18() {}

const unusedC18 = 18

var unusedV18 = 1

type unusedT18 int

// F18 has several unrelated problems.
func F18(a int, b bool, xs []int) bool {
	if a == a {
		a++
	}
	if b == true {
		a++
	}
	for _ = range xs {
		a++
	}
	if 5 == a {
		a++
	}
	if !!b {
		a++
	}
	a = a
	for i := 0; i < len(xs); i++ {
		break
	}
	return a > 0
}

func unused18() {}

// T19 is a type.
type T19 struct {
	a             int
	unusedField19 int
}

// Get_19 has an underscore.
func (self *T19) Get_19() int { return self.a }

// G19 has more unrelated problems.
func G19(u uint, s []int, m map[int]int, b bool, str string, t *T19) (r bool) {
	if u < 0 {
		return true
	}
	x := 1
	x = 2
	_ = x
	var y int
	y = 3
	_ = y
	if b {
	}
	if s != nil && len(s) > 0 {
		u++
	}
	for i, _ := range s {
		u += uint(i)
	}
	for k := range m {
		delete(m, k)
	}
	var z []int = nil
	_ = z
	if len(str) == 0 && str != "" {
		u++
	}
	switch {
	case b:
		u++
	case b:
		u--
	}
	if !(u == 3) {
		u++
	}
	u = u &^ 0
	_ = u | 0
	_ = s[:len(s)]
	for {
		select {
		default:
		}
		break
	}
	if t == nil {
		_ = t.a
	}
	var e error
	if e != nil {
		return e == nil
	}
	c := make(chan int)
	select {
	case <-c:
	}
	_ = str + string(rune('a'))
	if len(s) > 0 {
		return true
	}
	return false
}

// H19 returns.
func H19(p *int) {
	defer func() {}()
	_ = *p
	if p != nil {
		return
	}
	return
}

func unusedG19() {}

const unusedC19 = 19

var unusedV19 = 1

type unusedT19 int

// F19 has several unrelated problems.
func F19(a int, b bool, xs []int) bool {
	if a == a {
		a++
	}
	if b == true {
		a++
	}
	for _ = range xs {
		a++
	}
	if 5 == a {
		a++
	}
	if !!b {
		a++
	}
	a = a
	for i := 0; i < len(xs); i++ {
		break
	}
	return a > 0
}

func unused19() {}

// T20 is a type.
type T20 struct {
	a             int
	unusedField20 int
}

// Get_20 has an underscore.
func (self *T20) Get_20() int { return self.a }

// G20 has more unrelated problems.
func G20(u uint, s []int, m map[int]int, b bool, str string, t *T20) (r bool) {
	if u < 0 {
		return true
	}
	x := 1
	x = 2
	_ = x
	var y int
	y = 3
	_ = y
	if b {
	}
	if s != nil && len(s) > 0 {
		u++
	}
	for i, _ := range s {
		u += uint(i)
	}
	for k := range m {
		delete(m, k)
	}
	var z []int = nil
	_ = z
	if len(str) == 0 && str != "" {
		u++
	}
	switch {
	case b:
		u++
	case b:
		u--
	}
	if !(u == 3) {
		u++
	}
	u = u &^ 0
	_ = u | 0
	_ = s[:len(s)]
	for {
		select {
		default:
		}
		break
	}
	if t == nil {
		_ = t.a
	}
	var e error
	if e != nil {
		return e == nil
	}
	c := make(chan int)
	select {
	case <-c:
	}
	_ = str + string(rune('a'))
	if len(s) > 0 {
		return true
	}
	return false
}

// H20 returns.
func H20(p *int) {
	defer func() {}()
	_ = *p
	if p != nil {
		return
	}
	return
}

func unusedG20() {}

const unusedC20 = 20

var unusedV20 = 1

type unusedT20 int

// F20 has several unrelated problems.
func F20(a int, b bool, xs []int) bool {
	if a == a {
		a++
	}
	if b == true {
		a++
	}
	for _ = range xs {
		a++
	}
	if 5 == a {
		a++
	}
	if !!b {
		a++
	}
	a = a
	for i := 0; i < len(xs); i++ {
		break
	}
	return a > 0
}

func unused20() {}

// T21 is a type.
type T21 struct {
	a             int
	unusedField21 int
}

// Get_21 has an underscore.
func (self *T21) Get_21() int { return self.a }

// G21 has more unrelated problems.
func G21(u uint, s []int, m map[int]int, b bool, str string, t *T21) (r bool) {
	if u < 0 {
		return true
	}
	x := 1
	x = 2
	_ = x
	var y int
	y = 3
	_ = y
	if b {
	}
	if s != nil && len(s) > 0 {
		u++
	}
	for i, _ := range s {
		u += uint(i)
	}
	for k := range m {
		delete(m, k)
	}
	var z []int = nil
	_ = z
	if len(str) == 0 && str != "" {
		u++
	}
	switch {
	case b:
		u++
	case b:
		u--
	}
	if !(u == 3) {
		u++
	}
	u = u &^ 0
	_ = u | 0
	_ = s[:len(s)]
	for {
		select {
		default:
		}
		break
	}
	if t == nil {
		_ = t.a
	}
	var e error
	if e != nil {
		return e == nil
	}
	c := make(chan int)
	select {
	case <-c:
	}
	_ = str + string(rune('a'))
	if len(s) > 0 {
		return true
	}
	return false
}

// H21 returns.
func H21(p *int) {
	defer func() {}()
	_ = *p
	if p != nil {
		return
	}
	return
}

func unusedG21() {}

const unusedC21 = 21

var unusedV21 = 1

type unusedT21 int

// F21 has several unrelated problems.
func F21(a int, b bool, xs []int) bool {
	if a == a {
		a++
	}
	if b == true {
		a++
	}
	for _ = range xs {
		a++
	}
	if 5 == a {
		a++
	}
	if !!b {
		a++
	}
	a = a
	for i := 0; i < len(xs); i++ {
		break
	}
	return a > 0
}

func unused21() {}

// T22 is a type.
type T22 struct {
	a             int
	unusedField22 int
}

// Get_22 has an underscore.
func (self *T22) Get_22() int { return self.a }

// G22 has more unrelated problems.
func G22(u uint, s []int, m map[int]int, b bool, str string, t *T22) (r bool) {
	if u < 0 {
		return true
	}
	x := 1
	x = 2
	_ = x
	var y int
	y = 3
	_ = y
	if b {
	}
	if s != nil && len(s) > 0 {
		u++
	}
	for i, _ := range s {
		u += uint(i)
	}
	for k := range m {
		delete(m, k)
	}
	var z []int = nil
	_ = z
	if len(str) == 0 && str != "" {
		u++
	}
	switch {
	case b:
		u++
	case b:
		u--
	}
	if !(u == 3) {
		u++
	}
	u = u &^ 0
	_ = u | 0
	_ = s[:len(s)]
	for {
		select {
		default:
		}
		break
	}
	if t == nil {
		_ = t.a
	}
	var e error
	if e != nil {
		return e == nil
	}
	c := make(chan int)
	select {
	case <-c:
	}
	_ = str + string(rune('a'))
	if len(s) > 0 {
		return true
	}
	return false
}

// H22 returns.
func H22(p *int) {
	defer func() {}()
	_ = *p
	if p != nil {
		return
	}
	return
}

func unusedG22() {}

const unusedC22 = 22

var unusedV22 = 1

type unusedT22 int

// F22 has several unrelated problems.
func F22(a int, b bool, xs []int) bool {
	if a == a {
		a++
	}
	if b == true {
		a++
	}
	for _ = range xs {
		a++
	}
	if 5 == a {
		a++
	}
	if !!b {
		a++
	}
	a = a
	for i := 0; i < len(xs); i++ {
		break
	}
	return a > 0
}

func unused22() {}

// T23 is a type.
type T23 struct {
	a             int
	unusedField23 int
}

// Get_23 has an underscore.
func (self *T23) Get_23() int { return self.a }

// G23 has more unrelated problems.
func G23(u uint, s []int, m map[int]int, b bool, str string, t *T23) (r bool) {
	if u < 0 {
		return true
	}
	x := 1
	x = 2
	_ = x
	var y int
	y = 3
	_ = y
	if b {
	}
	if s != nil && len(s) > 0 {
		u++
	}
	for i, _ := range s {
		u += uint(i)
	}
	for k := range m {
		delete(m, k)
	}
	var z []int = nil
	_ = z
	if len(str) == 0 && str != "" {
		u++
	}
	switch {
	case b:
		u++
	case b:
		u--
	}
	if !(u == 3) {
		u++
	}
	u = u &^ 0
	_ = u | 0
	_ = s[:len(s)]
	for {
		select {
		default:
		}
		break
	}
	if t == nil {
		_ = t.a
	}
	var e error
	if e != nil {
		return e == nil
	}
	c := make(chan int)
	select {
	case <-c:
	}
	_ = str + string(rune('a'))
	if len(s) > 0 {
		return true
	}
	return false
}

// H23 returns.
func H23(p *int) {
	defer func() {}()
	_ = *p
	if p != nil {
		return
	}
	return
}

func unusedG23() {}

const unusedC23 = 23

var unusedV23 = 1

type unusedT23 int

// F23 has several unrelated problems.
func F23(a int, b bool, xs []int) bool {
	if a == a {
		a++
	}
	if b == true {
		a++
	}
	for _ = range xs {
		a++
	}
	if 5 == a {
		a++
	}
	if !!b {
		a++
	}
	a = a
	for i := 0; i < len(xs); i++ {
		break
	}
	return a > 0
}

func unused23() {}

// T24 is a type.
type T24 struct {
	a             int
	unusedField24 int
}

// Get_24 has an underscore.
func (self *T24) Get_24() int { return self.a }

// G24 has more unrelated problems.
func G24(u uint, s []int, m map[int]int, b bool, str string, t *T24) (r bool) {
	if u < 0 {
		return true
	}
	x := 1
	x = 2
	_ = x
	var y int
	y = 3
	_ = y
	if b {
	}
	if s != nil && len(s) > 0 {
		u++
	}
	for i, _ := range s {
		u += uint(i)
	}
	for k := range m {
		delete(m, k)
	}
	var z []int = nil
	_ = z
	if len(str) == 0 && str != "" {
		u++
	}
	switch {
	case b:
		u++
	case b:
		u--
	}
	if !(u == 3) {
		u++
	}
	u = u &^ 0
	_ = u | 0
	_ = s[:len(s)]
	for {
		select {
		default:
		}
		break
	}
	if t == nil {
		_ = t.a
	}
	var e error
	if e != nil {
		return e == nil
	}
	c := make(chan int)
	select {
	case <-c:
	}
	_ = str + string(rune('a'))
	if len(s) > 0 {
		return true
	}
	return false
}

// H24 returns.
func H24(p *int) {
	defer func() {}()
	_ = *p
	if p != nil {
		return
	}
	return
}

func unusedG24() {}

const unusedC24 = 24

var unusedV24 = 1

type unusedT24 int

// F24 has several unrelated problems.
func F24(a int, b bool, xs []int) bool {
	if a == a {
		a++
	}
	if b == true {
		a++
	}
	for _ = range xs {
		a++
	}
	if 5 == a {
		a++
	}
	if !!b {
		a++
	}
	a = a
	for i := 0; i < len(xs); i++ {
		break
	}
	return a > 0
}

func unused24() {}

// T25 is a type.
type T25 struct {
	a             int
	unusedField25 int
}

// Get_25 has an underscore.
func (self *T25) Get_25() int { return self.a }

// G25 has more unrelated problems.
func G25(u uint, s []int, m map[int]int, b bool, str string, t *T25) (r bool) {
	if u < 0 {
		return true
	}
	x := 1
	x = 2
	_ = x
	var y int
	y = 3
	_ = y
	if b {
	}
	if s != nil && len(s) > 0 {
		u++
	}
	for i, _ := range s {
		u += uint(i)
	}
	for k := range m {
		delete(m, k)
	}
	var z []int = nil
	_ = z
	if len(str) == 0 && str != "" {
		u++
	}
	switch {
	case b:
		u++
	case b:
		u--
	}
	if !(u == 3) {
		u++
	}
	u = u &^ 0
	_ = u | 0
	_ = s[:len(s)]
	for {
		select {
		default:
		}
		break
	}
	if t == nil {
		_ = t.a
	}
	var e error
	if e != nil {
		return e == nil
	}
	c := make(chan int)
	select {
	case <-c:
	}
	_ = str + string(rune('a'))
	if len(s) > 0 {
		return true
	}
	return false
}

// H25 returns.
func H25(p *int) {
	defer func() {}()
	_ = *p
	if p != nil {
		return
	}
	return
}

func unusedG25() {}

const unusedC25 = 25

var unusedV25 = 1

type unusedT25 int

// F25 has several unrelated problems.
func F25(a int, b bool, xs []int) bool {
	if a == a {
		a++
	}
	if b == true {
		a++
	}
	for _ = range xs {
		a++
	}
	if 5 == a {
		a++
	}
	if !!b {
		a++
	}
	a = a
	for i := 0; i < len(xs); i++ {
		break
	}
	return a > 0
}

func unused25() {}

// T26 is a type.
type T26 struct {
	a             int
	unusedField26 int
}

// Get_26 has an underscore.
func (self *T26) Get_26() int { return self.a }

// G26 has more unrelated problems.
func G26(u uint, s []int, m map[int]int, b bool, str string, t *T26) (r bool) {
	if u < 0 {
		return true
	}
	x := 1
	x = 2
	_ = x
	var y int
	y = 3
	_ = y
	if b {
	}
	if s != nil && len(s) > 0 {
		u++
	}
	for i, _ := range s {
		u += uint(i)
	}
	for k := range m {
		delete(m, k)
	}
	var z []int = nil
	_ = z
	if len(str) == 0 && str != "" {
		u++
	}
	switch {
	case b:
		u++
	case b:
		u--
	}
	if !(u == 3) {
		u++
	}
	u = u &^ 0
	_ = u | 0
	_ = s[:len(s)]
	for {
		select {
		default:
		}
		break
	}
	if t == nil {
		_ = t.a
	}
	var e error
	if e != nil {
		return e == nil
	}
	c := make(chan int)
	select {
	case <-c:
	}
	_ = str + string(rune('a'))
	if len(s) > 0 {
		return true
	}
	return false
}

// H26 returns.
func H26(p *int) {
	defer func() {}()
	_ = *p
	if p != nil {
		return
	}
	return
}

func unusedG26() {}

const unusedC26 = 26

var unusedV26 = 1

type unusedT26 int

// F26 has several unrelated problems.
func F26(a int, b bool, xs []int) bool {
	if a == a {
		a++
	}
	if b == true {
		a++
	}
	for _ = range xs {
		a++
	}
	if 5 == a {
		a++
	}
	if !!b {
		a++
	}
	a = a
	for i := 0; i < len(xs); i++ {
		break
	}
	return a > 0
}

func unused26() {}

// T27 is a type.
type T27 struct {
	a             int
	unusedField27 int
}

// Get_27 has an underscore.
func (self *T27) Get_27() int { return self.a }

// G27 has more unrelated problems.
func G27(u uint, s []int, m map[int]int, b bool, str string, t *T27) (r bool) {
	if u < 0 {
		return true
	}
	x := 1
	x = 2
	_ = x
	var y int
	y = 3
	_ = y
	if b {
	}
	if s != nil && len(s) > 0 {
		u++
	}
	for i, _ := range s {
		u += uint(i)
	}
	for k := range m {
		delete(m, k)
	}
	var z []int = nil
	_ = z
	if len(str) == 0 && str != "" {
		u++
	}
	switch {
	case b:
		u++
	case b:
		u--
	}
	if !(u == 3) {
		u++
	}
	u = u &^ 0
	_ = u | 0
	_ = s[:len(s)]
	for {
		select {
		default:
		}
		break
	}
	if t == nil {
		_ = t.a
	}
	var e error
	if e != nil {
		return e == nil
	}
	c := make(chan int)
	select {
	case <-c:
	}
	_ = str + string(rune('a'))
	if len(s) > 0 {
		return true
	}
	return false
}

// H27 returns.
func H27(p *int) {
	defer func() {}()
	_ = *p
	if p != nil {
		return
	}
	return
}

func unusedG27() {}

const unusedC27 = 27

var unusedV27 = 1

type unusedT27 int

// F27 has several unrelated problems.
func F27(a int, b bool, xs []int) bool {
	if a == a {
		a++
	}
	if b == true {
		a++
	}
	for _ = range xs {
		a++
	}
	if 5 == a {
		a++
	}
	if !!b {
		a++
	}
	a = a
	for i := 0; i < len(xs); i++ {
		break
	}
	return a > 0
}

func unused27() {}

// T28 is a type.
type T28 struct {
	a             int
	unusedField28 int
}

// Get_28 has an underscore.
func (self *T28) Get_28() int { return self.a }

// G28 has more unrelated problems.
func G28(u uint, s []int, m map[int]int, b bool, str string, t *T28) (r bool) {
	if u < 0 {
		return true
	}
	x := 1
	x = 2
	_ = x
	var y int
	y = 3
	_ = y
	if b {
	}
	if s != nil && len(s) > 0 {
		u++
	}
	for i, _ := range s {
		u += uint(i)
	}
	for k := range m {
		delete(m, k)
	}
	var z []int = nil
	_ = z
	if len(str) == 0 && str != "" {
		u++
	}
	switch {
	case b:
		u++
	case b:
		u--
	}
	if !(u == 3) {
		u++
	}
	u = u &^ 0
	_ = u | 0
	_ = s[:len(s)]
	for {
		select {
		default:
		}
		break
	}
	if t == nil {
		_ = t.a
	}
	var e error
	if e != nil {
		return e == nil
	}
	c := make(chan int)
	select {
	case <-c:
	}
	_ = str + string(rune('a'))
	if len(s) > 0 {
		return true
	}
	return false
}

// H28 returns.
func H28(p *int) {
	defer func() {}()
	_ = *p
	if p != nil {
		return
	}
	return
}

func unusedG28() {}

const unusedC28 = 28

var unusedV28 = 1

type unusedT28 int

// F28 has several unrelated problems.
func F28(a int, b bool, xs []int) bool {
	if a == a {
		a++
	}
	if b == true {
		a++
	}
	for _ = range xs {
		a++
	}
	if 5 == a {
		a++
	}
	if !!b {
		a++
	}
	a = a
	for i := 0; i < len(xs); i++ {
		break
	}
	return a > 0
}

func unused28() {}

// T29 is a type.
type T29 struct {
	a             int
	unusedField29 int
}

// Get_29 has an underscore.
func (self *T29) Get_29() int { return self.a }

// G29 has more unrelated problems.
func G29(u uint, s []int, m map[int]int, b bool, str string, t *T29) (r bool) {
	if u < 0 {
		return true
	}
	x := 1
	x = 2
	_ = x
	var y int
	y = 3
	_ = y
	if b {
	}
	if s != nil && len(s) > 0 {
		u++
	}
	for i, _ := range s {
		u += uint(i)
	}
	for k := range m {
		delete(m, k)
	}
	var z []int = nil
	_ = z
	if len(str) == 0 && str != "" {
		u++
	}
	switch {
	case b:
		u++
	case b:
		u--
	}
	if !(u == 3) {
		u++
	}
	u = u &^ 0
	_ = u | 0
	_ = s[:len(s)]
	for {
		select {
		default:
		}
		break
	}
	if t == nil {
		_ = t.a
	}
	var e error
	if e != nil {
		return e == nil
	}
	c := make(chan int)
	select {
	case <-c:
	}
	_ = str + string(rune('a'))
	if len(s) > 0 {
		return true
	}
	return false
}

// H29 returns.
func H29(p *int) {
	defer func() {}()
	_ = *p
	if p != nil {
		return
	}
	return
}

func unusedG29() {}

const unusedC29 = 29

var unusedV29 = 1

type unusedT29 int

// F29 has several unrelated problems.
func F29(a int, b bool, xs []int) bool {
	if a == a {
		a++
	}
	if b == true {
		a++
	}
	for _ = range xs {
		a++
	}
	if 5 == a {
		a++
	}
	if !!b {
		a++
	}
	a = a
	for i := 0; i < len(xs); i++ {
		break
	}
	return a > 0
}

func unused29() {}

// T30 is a type.
type T30 struct {
	a             int
	unusedField30 int
}

// Get_30 has an underscore.
func (self *T30) Get_30() int { return self.a }

// G30 has more unrelated problems.
func G30(u uint, s []int, m map[int]int, b bool, str string, t *T30) (r bool) {
	if u < 0 {
		return true
	}
	x := 1
	x = 2
	_ = x
	var y int
	y = 3
	_ = y
	if b {
	}
	if s != nil && len(s) > 0 {
		u++
	}
	for i, _ := range s {
		u += uint(i)
	}
	for k := range m {
		delete(m, k)
	}
	var z []int = nil
	_ = z
	if len(str) == 0 && str != "" {
		u++
	}
	switch {
	case b:
		u++
	case b:
		u--
	}
	if !(u == 3) {
		u++
	}
	u = u &^ 0
	_ = u | 0
	_ = s[:len(s)]
	for {
		select {
		default:
		}
		break
	}
	if t == nil {
		_ = t.a
	}
	var e error
	if e != nil {
		return e == nil
	}
	c := make(chan int)
	select {
	case <-c:
	}
	_ = str + string(rune('a'))
	if len(s) > 0 {
		return true
	}
	return false
}

// H30 returns.
func H30(p *int) {
	defer func() {}()
	_ = *p
	if p != nil {
		return
	}
	return
}

func unusedG30() {}

const unusedC30 = 30

var unusedV30 = 1

type unusedT30 int

// F30 has several unrelated problems.
func F30(a int, b bool, xs []int) bool {
	if a == a {
		a++
	}
	if b == true {
		a++
	}
	for _ = range xs {
		a++
	}
	if 5 == a {
		a++
	}
	if !!b {
		a++
	}
	a = a
	for i := 0; i < len(xs); i++ {
		break
	}
	return a > 0
}

func unused30() {}

// T31 is a type.
type T31 struct {
	a             int
	unusedField31 int
}

// Get_31 has an underscore.
func (self *T31) Get_31() int { return self.a }

// G31 has more unrelated problems.
func G31(u uint, s []int, m map[int]int, b bool, str string, t *T31) (r bool) {
	if u < 0 {
		return true
	}
	x := 1
	x = 2
	_ = x
	var y int
	y = 3
	_ = y
	if b {
	}
	if s != nil && len(s) > 0 {
		u++
	}
	for i, _ := range s {
		u += uint(i)
	}
	for k := range m {
		delete(m, k)
	}
	var z []int = nil
	_ = z
	if len(str) == 0 && str != "" {
		u++
	}
	switch {
	case b:
		u++
	case b:
		u--
	}
	if !(u == 3) {
		u++
	}
	u = u &^ 0
	_ = u | 0
	_ = s[:len(s)]
	for {
		select {
		default:
		}
		break
	}
	if t == nil {
		_ = t.a
	}
	var e error
	if e != nil {
		return e == nil
	}
	c := make(chan int)
	select {
	case <-c:
	}
	_ = str + string(rune('a'))
	if len(s) > 0 {
		return true
	}
	return false
}

// H31 returns.
func H31(p *int) {
	defer func() {}()
	_ = *p
	if p != nil {
		return
	}
	return
}

func unusedG31() {}

const unusedC31 = 31

var unusedV31 = 1

type unusedT31 int

// F31 has several unrelated problems.
func F31(a int, b bool, xs []int) bool {
	if a == a {
		a++
	}
	if b == true {
		a++
	}
	for _ = range xs {
		a++
	}
	if 5 == a {
		a++
	}
	if !!b {
		a++
	}
	a = a
	for i := 0; i < len(xs); i++ {
		break
	}
	return a > 0
}

func unused31() {}

// T32 is a type.
type T32 struct {
	a             int
	unusedField32 int
}

// Get_32 has an underscore.
func (self *T32) Get_32() int { return self.a }

// G32 has more unrelated problems.
func G32(u uint, s []int, m map[int]int, b bool, str string, t *T32) (r bool) {
	if u < 0 {
		return true
	}
	x := 1
	x = 2
	_ = x
	var y int
	y = 3
	_ = y
	if b {
	}
	if s != nil && len(s) > 0 {
		u++
	}
	for i, _ := range s {
		u += uint(i)
	}
	for k := range m {
		delete(m, k)
	}
	var z []int = nil
	_ = z
	if len(str) == 0 && str != "" {
		u++
	}
	switch {
	case b:
		u++
	case b:
		u--
	}
	if !(u == 3) {
		u++
	}
	u = u &^ 0
	_ = u | 0
	_ = s[:len(s)]
	for {
		select {
		default:
		}
		break
	}
	if t == nil {
		_ = t.a
	}
	var e error
	if e != nil {
		return e == nil
	}
	c := make(chan int)
	select {
	case <-c:
	}
	_ = str + string(rune('a'))
	if len(s) > 0 {
		return true
	}
	return false
}

// H32 returns.
func H32(p *int) {
	defer func() {}()
	_ = *p
	if p != nil {
		return
	}
	return
}

func unusedG32() {}

const unusedC32 = 32

var unusedV32 = 1

type unusedT32 int

// F32 has several unrelated problems.
func F32(a int, b bool, xs []int) bool {
	if a == a {
		a++
	}
	if b == true {
		a++
	}
	for _ = range xs {
		a++
	}
	if 5 == a {
		a++
	}
	if !!b {
		a++
	}
	a = a
	for i := 0; i < len(xs); i++ {
		break
	}
	return a > 0
}

func unused32() {}

// T33 is a type.
type T33 struct {
	a             int
	unusedField33 int
}

// Get_33 has an underscore.
func (self *T33) Get_33() int { return self.a }

// G33 has more unrelated problems.
func G33(u uint, s []int, m map[int]int, b bool, str string, t *T33) (r bool) {
	if u < 0 {
		return true
	}
	x := 1
	x = 2
	_ = x
	var y int
	y = 3
	_ = y
	if b {
	}
	if s != nil && len(s) > 0 {
		u++
	}
	for i, _ := range s {
		u += uint(i)
	}
	for k := range m {
		delete(m, k)
	}
	var z []int = nil
	_ = z
	if len(str) == 0 && str != "" {
		u++
	}
	switch {
	case b:
		u++
	case b:
		u--
	}
	if !(u == 3) {
		u++
	}
	u = u &^ 0
	_ = u | 0
	_ = s[:len(s)]
	for {
		select {
		default:
		}
		break
	}
	if t == nil {
		_ = t.a
	}
	var e error
	if e != nil {
		return e == nil
	}
	c := make(chan int)
	select {
	case <-c:
	}
	_ = str + string(rune('a'))
	if len(s) > 0 {
		return true
	}
	return false
}

// H33 returns.
func H33(p *int) {
	defer func() {}()
	_ = *p
	if p != nil {
		return
	}
	return
}

func unusedG33() {}

const unusedC33 = 33

var unusedV33 = 1

type unusedT33 int

// F33 has several unrelated problems.
func F33(a int, b bool, xs []int) bool {
	if a == a {
		a++
	}
	if b == true {
		a++
	}
	for _ = range xs {
		a++
	}
	if 5 == a {
		a++
	}
	if !!b {
		a++
	}
	a = a
	for i := 0; i < len(xs); i++ {
		break
	}
	return a > 0
}

func unused33() {}

// T34 is a type.
type T34 struct {
	a             int
	unusedField34 int
}

// Get_34 has an underscore.
func (self *T34) Get_34() int { return self.a }

// G34 has more unrelated problems.
func G34(u uint, s []int, m map[int]int, b bool, str string, t *T34) (r bool) {
	if u < 0 {
		return true
	}
	x := 1
	x = 2
	_ = x
	var y int
	y = 3
	_ = y
	if b {
	}
	if s != nil && len(s) > 0 {
		u++
	}
	for i, _ := range s {
		u += uint(i)
	}
	for k := range m {
		delete(m, k)
	}
	var z []int = nil
	_ = z
	if len(str) == 0 && str != "" {
		u++
	}
	switch {
	case b:
		u++
	case b:
		u--
	}
	if !(u == 3) {
		u++
	}
	u = u &^ 0
	_ = u | 0
	_ = s[:len(s)]
	for {
		select {
		default:
		}
		break
	}
	if t == nil {
		_ = t.a
	}
	var e error
	if e != nil {
		return e == nil
	}
	c := make(chan int)
	select {
	case <-c:
	}
	_ = str + string(rune('a'))
	if len(s) > 0 {
		return true
	}
	return false
}

// H34 returns.
func H34(p *int) {
	defer func() {}()
	_ = *p
	if p != nil {
		return
	}
	return
}

func unusedG34() {}

const unusedC34 = 34

var unusedV34 = 1

type unusedT34 int

// F34 has several unrelated problems.
func F34(a int, b bool, xs []int) bool {
	if a == a {
		a++
	}
	if b == true {
		a++
	}
	for _ = range xs {
		a++
	}
	if 5 == a {
		a++
	}
	if !!b {
		a++
	}
	a = a
	for i := 0; i < len(xs); i++ {
		break
	}
	return a > 0
}

func unused34() {}

// T35 is a type.
type T35 struct {
	a             int
	unusedField35 int
}

// Get_35 has an underscore.
func (self *T35) Get_35() int { return self.a }

// G35 has more unrelated problems.
func G35(u uint, s []int, m map[int]int, b bool, str string, t *T35) (r bool) {
	if u < 0 {
		return true
	}
	x := 1
	x = 2
	_ = x
	var y int
	y = 3
	_ = y
	if b {
	}
	if s != nil && len(s) > 0 {
		u++
	}
	for i, _ := range s {
		u += uint(i)
	}
	for k := range m {
		delete(m, k)
	}
	var z []int = nil
	_ = z
	if len(str) == 0 && str != "" {
		u++
	}
	switch {
	case b:
		u++
	case b:
		u--
	}
	if !(u == 3) {
		u++
	}
	u = u &^ 0
	_ = u | 0
	_ = s[:len(s)]
	for {
		select {
		default:
		}
		break
	}
	if t == nil {
		_ = t.a
	}
	var e error
	if e != nil {
		return e == nil
	}
	c := make(chan int)
	select {
	case <-c:
	}
	_ = str + string(rune('a'))
	if len(s) > 0 {
		return true
	}
	return false
}

// H35 returns.
func H35(p *int) {
	defer func() {}()
	_ = *p
	if p != nil {
		return
	}
	return
}

func unusedG35() {}

const unusedC35 = 35

var unusedV35 = 1

type unusedT35 int

// F35 has several unrelated problems.
func F35(a int, b bool, xs []int) bool {
	if a == a {
		a++
	}
	if b == true {
		a++
	}
	for _ = range xs {
		a++
	}
	if 5 == a {
		a++
	}
	if !!b {
		a++
	}
	a = a
	for i := 0; i < len(xs); i++ {
		break
	}
	return a > 0
}

func unused35() {}

// T36 is a type.
type T36 struct {
	a             int
	unusedField36 int
}

// Get_36 has an underscore.
func (self *T36) Get_36() int { return self.a }

// G36 has more unrelated problems.
func G36(u uint, s []int, m map[int]int, b bool, str string, t *T36) (r bool) {
	if u < 0 {
		return true
	}
	x := 1
	x = 2
	_ = x
	var y int
	y = 3
	_ = y
	if b {
	}
	if s != nil && len(s) > 0 {
		u++
	}
	for i, _ := range s {
		u += uint(i)
	}
	for k := range m {
		delete(m, k)
	}
	var z []int = nil
	_ = z
	if len(str) == 0 && str != "" {
		u++
	}
	switch {
	case b:
		u++
	case b:
		u--
	}
	if !(u == 3) {
		u++
	}
	u = u &^ 0
	_ = u | 0
	_ = s[:len(s)]
	for {
		select {
		default:
		}
		break
	}
	if t == nil {
		_ = t.a
	}
	var e error
	if e != nil {
		return e == nil
	}
	c := make(chan int)
	select {
	case <-c:
	}
	_ = str + string(rune('a'))
	if len(s) > 0 {
		return true
	}
	return false
}

// H36 returns.
func H36(p *int) {
	defer func() {}()
	_ = *p
	if p != nil {
		return
	}
	return
}

func unusedG36() {}

const unusedC36 = 36

var unusedV36 = 1

type unusedT36 int

// F36 has several unrelated problems.
func F36(a int, b bool, xs []int) bool {
	if a == a {
		a++
	}
	if b == true {
		a++
	}
	for _ = range xs {
		a++
	}
	if 5 == a {
		a++
	}
	if !!b {
		a++
	}
	a = a
	for i := 0; i < len(xs); i++ {
		break
	}
	return a > 0
}

func unused36() {}

// T37 is a type.
type T37 struct {
	a             int
	unusedField37 int
}

// Get_37 has an underscore.
func (self *T37) Get_37() int { return self.a }

// G37 has more unrelated problems.
func G37(u uint, s []int, m map[int]int, b bool, str string, t *T37) (r bool) {
	if u < 0 {
		return true
	}
	x := 1
	x = 2
	_ = x
	var y int
	y = 3
	_ = y
	if b {
	}
	if s != nil && len(s) > 0 {
		u++
	}
	for i, _ := range s {
		u += uint(i)
	}
	for k := range m {
		delete(m, k)
	}
	var z []int = nil
	_ = z
	if len(str) == 0 && str != "" {
		u++
	}
	switch {
	case b:
		u++
	case b:
		u--
	}
	if !(u == 3) {
		u++
	}
	u = u &^ 0
	_ = u | 0
	_ = s[:len(s)]
	for {
		select {
		default:
		}
		break
	}
	if t == nil {
		_ = t.a
	}
	var e error
	if e != nil {
		return e == nil
	}
	c := make(chan int)
	select {
	case <-c:
	}
	_ = str + string(rune('a'))
	if len(s) > 0 {
		return true
	}
	return false
}

// H37 returns.
func H37(p *int) {
	defer func() {}()
	_ = *p
	if p != nil {
		return
	}
	return
}

func unusedG37() {}

const unusedC37 = 37

var unusedV37 = 1

type unusedT37 int

// F37 has several unrelated problems.
func F37(a int, b bool, xs []int) bool {
	if a == a {
		a++
	}
	if b == true {
		a++
	}
	for _ = range xs {
		a++
	}
	if 5 == a {
		a++
	}
	if !!b {
		a++
	}
	a = a
	for i := 0; i < len(xs); i++ {
		break
	}
	return a > 0
}

func unused37() {}

// T38 is a type.
type T38 struct {
	a             int
	unusedField38 int
}

// Get_38 has an underscore.
func (self *T38) Get_38() int { return self.a }

// G38 has more unrelated problems.
func G38(u uint, s []int, m map[int]int, b bool, str string, t *T38) (r bool) {
	if u < 0 {
		return true
	}
	x := 1
	x = 2
	_ = x
	var y int
	y = 3
	_ = y
	if b {
	}
	if s != nil && len(s) > 0 {
		u++
	}
	for i, _ := range s {
		u += uint(i)
	}
	for k := range m {
		delete(m, k)
	}
	var z []int = nil
	_ = z
	if len(str) == 0 && str != "" {
		u++
	}
	switch {
	case b:
		u++
	case b:
		u--
	}
	if !(u == 3) {
		u++
	}
	u = u &^ 0
	_ = u | 0
	_ = s[:len(s)]
	for {
		select {
		default:
		}
		break
	}
	if t == nil {
		_ = t.a
	}
	var e error
	if e != nil {
		return e == nil
	}
	c := make(chan int)
	select {
	case <-c:
	}
	_ = str + string(rune('a'))
	if len(s) > 0 {
		return true
	}
	return false
}

// H38 returns.
func H38(p *int) {
	defer func() {}()
	_ = *p
	if p != nil {
		return
	}
	return
}

func unusedG38() {}

const unusedC38 = 38

var unusedV38 = 1

type unusedT38 int

// F38 has several unrelated problems.
func F38(a int, b bool, xs []int) bool {
	if a == a {
		a++
	}
	if b == true {
		a++
	}
	for _ = range xs {
		a++
	}
	if 5 == a {
		a++
	}
	if !!b {
		a++
	}
	a = a
	for i := 0; i < len(xs); i++ {
		break
	}
	return a > 0
}

func unused38() {}

// T39 is a type.
type T39 struct {
	a             int
	unusedField39 int
}

// Get_39 has an underscore.
func (self *T39) Get_39() int { return self.a }

// G39 has more unrelated problems.
func G39(u uint, s []int, m map[int]int, b bool, str string, t *T39) (r bool) {
	if u < 0 {
		return true
	}
	x := 1
	x = 2
	_ = x
	var y int
	y = 3
	_ = y
	if b {
	}
	if s != nil && len(s) > 0 {
		u++
	}
	for i, _ := range s {
		u += uint(i)
	}
	for k := range m {
		delete(m, k)
	}
	var z []int = nil
	_ = z
	if len(str) == 0 && str != "" {
		u++
	}
	switch {
	case b:
		u++
	case b:
		u--
	}
	if !(u == 3) {
		u++
	}
	u = u &^ 0
	_ = u | 0
	_ = s[:len(s)]
	for {
		select {
		default:
		}
		break
	}
	if t == nil {
		_ = t.a
	}
	var e error
	if e != nil {
		return e == nil
	}
	c := make(chan int)
	select {
	case <-c:
	}
	_ = str + string(rune('a'))
	if len(s) > 0 {
		return true
	}
	return false
}

// H39 returns.
func H39(p *int) {
	defer func() {}()
	_ = *p
	if p != nil {
		return
	}
	return
}

func unusedG39() {}

const unusedC39 = 39

var unusedV39 = 1

type unusedT39 int

// F39 has several unrelated problems.
func F39(a int, b bool, xs []int) bool {
	if a == a {
		a++
	}
	if b == true {
		a++
	}
	for _ = range xs {
		a++
	}
	if 5 == a {
		a++
	}
	if !!b {
		a++
	}
	a = a
	for i := 0; i < len(xs); i++ {
		break
	}
	return a > 0
}

func unused39() {}

// T40 is a type.
type T40 struct {
	a             int
	unusedField40 int
}

// Get_40 has an underscore.
func (self *T40) Get_40() int { return self.a }

// G40 has more unrelated problems.
func G40(u uint, s []int, m map[int]int, b bool, str string, t *T40) (r bool) {
	if u < 0 {
		return true
	}
	x := 1
	x = 2
	_ = x
	var y int
	y = 3
	_ = y
	if b {
	}
	if s != nil && len(s) > 0 {
		u++
	}
	for i, _ := range s {
		u += uint(i)
	}
	for k := range m {
		delete(m, k)
	}
	var z []int = nil
	_ = z
	if len(str) == 0 && str != "" {
		u++
	}
	switch {
	case b:
		u++
	case b:
		u--
	}
	if !(u == 3) {
		u++
	}
	u = u &^ 0
	_ = u | 0
	_ = s[:len(s)]
	for {
		select {
		default:
		}
		break
	}
	if t == nil {
		_ = t.a
	}
	var e error
	if e != nil {
		return e == nil
	}
	c := make(chan int)
	select {
	case <-c:
	}
	_ = str + string(rune('a'))
	if len(s) > 0 {
		return true
	}
	return false
}

// H40 returns.
func H40(p *int) {
	defer func() {}()
	_ = *p
	if p != nil {
		return
	}
	return
}

func unusedG40() {}

const unusedC40 = 40

var unusedV40 = 1

type unusedT40 int

// F40 has several unrelated problems.
func F40(a int, b bool, xs []int) bool {
	if a == a {
		a++
	}
	if b == true {
		a++
	}
	for _ = range xs {
		a++
	}
	if 5 == a {
		a++
	}
	if !!b {
		a++
	}
	a = a
	for i := 0; i < len(xs); i++ {
		break
	}
	return a > 0
}

func unused40() {}
