module example.com/many

go 1.22
