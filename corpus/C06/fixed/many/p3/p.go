// Package p3: many analyzers report many problems on one package.
package p3

// F1 has several unrelated problems.
func F1(a int, b bool, xs []int) bool {
	if a == a {
		a++
	}
	if b == true {
		a++
	}
	for _ = range xs {
		a++
	}
	if 5 == a {
		a++
	}
	if !!b {
		a++
	}
	a = a
	for i := 0; i < len(xs); i++ {
		break
	}
	return a > 0
}

func unused1() {}

// F2 has several unrelated problems.
func F2(a int, b bool, xs []int) bool {
	if a == a {
		a++
	}
	if b == true {
		a++
	}
	for _ = range xs {
		a++
	}
	if 5 == a {
		a++
	}
	if !!b {
		a++
	}
	a = a
	for i := 0; i < len(xs); i++ {
		break
	}
	return a > 0
}

func unused2() {}

// F3 has several unrelated problems.
func F3(a int, b bool, xs []int) bool {
	if a == a {
		a++
	}
	if b == true {
		a++
	}
	for _ = range xs {
		a++
	}
	if 5 == a {
		a++
	}
	if !!b {
		a++
	}
	a = a
	for i := 0; i < len(xs); i++ {
		break
	}
	return a > 0
}

func unused3() {}

// F4 has several unrelated problems.
func F4(a int, b bool, xs []int) bool {
	if a == a {
		a++
	}
	if b == true {
		a++
	}
	for _ = range xs {
		a++
	}
	if 5 == a {
		a++
	}
	if !!b {
		a++
	}
	a = a
	for i := 0; i < len(xs); i++ {
		break
	}
	return a > 0
}

func unused4() {}

// F5 has several unrelated problems.
func F5(a int, b bool, xs []int) bool {
	if a == a {
		a++
	}
	if b == true {
		a++
	}
	for _ = range xs {
		a++
	}
	if 5 == a {
		a++
	}
	if !!b {
		a++
	}
	a = a
	for i := 0; i < len(xs); i++ {
		break
	}
	return a > 0
}

func unused5() {}

// F6 has several unrelated problems.
func F6(a int, b bool, xs []int) bool {
	if a == a {
		a++
	}
	if b == true {
		a++
	}
	for _ = range xs {
		a++
	}
	if 5 == a {
		a++
	}
	if !!b {
		a++
	}
	a = a
	for i := 0; i < len(xs); i++ {
		break
	}
	return a > 0
}

func unused6() {}

// F7 has several unrelated problems.
func F7(a int, b bool, xs []int) bool {
	if a == a {
		a++
	}
	if b == true {
		a++
	}
	for _ = range xs {
		a++
	}
	if 5 == a {
		a++
	}
	if !!b {
		a++
	}
	a = a
	for i := 0; i < len(xs); i++ {
		break
	}
	return a > 0
}

func unused7() {}

// F8 has several unrelated problems.
func F8(a int, b bool, xs []int) bool {
	if a == a {
		a++
	}
	if b == true {
		a++
	}
	for _ = range xs {
		a++
	}
	if 5 == a {
		a++
	}
	if !!b {
		a++
	}
	a = a
	for i := 0; i < len(xs); i++ {
		break
	}
	return a > 0
}

func unused8() {}

// F9 has several unrelated problems.
func F9(a int, b bool, xs []int) bool {
	if a == a {
		a++
	}
	if b == true {
		a++
	}
	for _ = range xs {
		a++
	}
	if 5 == a {
		a++
	}
	if !!b {
		a++
	}
	a = a
	for i := 0; i < len(xs); i++ {
		break
	}
	return a > 0
}

func unused9() {}

// F10 has several unrelated problems.
func F10(a int, b bool, xs []int) bool {
	if a == a {
		a++
	}
	if b == true {
		a++
	}
	for _ = range xs {
		a++
	}
	if 5 == a {
		a++
	}
	if !!b {
		a++
	}
	a = a
	for i := 0; i < len(xs); i++ {
		break
	}
	return a > 0
}

func unused10() {}

// F11 has several unrelated problems.
func F11(a int, b bool, xs []int) bool {
	if a == a {
		a++
	}
	if b == true {
		a++
	}
	for _ = range xs {
		a++
	}
	if 5 == a {
		a++
	}
	if !!b {
		a++
	}
	a = a
	for i := 0; i < len(xs); i++ {
		break
	}
	return a > 0
}

func unused11() {}

// F12 has several unrelated problems.
func F12(a int, b bool, xs []int) bool {
	if a == a {
		a++
	}
	if b == true {
		a++
	}
	for _ = range xs {
		a++
	}
	if 5 == a {
		a++
	}
	if !!b {
		a++
	}
	a = a
	for i := 0; i < len(xs); i++ {
		break
	}
	return a > 0
}

func unused12() {}

// F13 has several unrelated problems.
func F13(a int, b bool, xs []int) bool {
	if a == a {
		a++
	}
	if b == true {
		a++
	}
	for _ = range xs {
		a++
	}
	if 5 == a {
		a++
	}
	if !!b {
		a++
	}
	a = a
	for i := 0; i < len(xs); i++ {
		break
	}
	return a > 0
}

func unused13() {}

// F14 has several unrelated problems.
func F14(a int, b bool, xs []int) bool {
	if a == a {
		a++
	}
	if b == true {
		a++
	}
	for _ = range xs {
		a++
	}
	if 5 == a {
		a++
	}
	if !!b {
		a++
	}
	a = a
	for i := 0; i < len(xs); i++ {
		break
	}
	return a > 0
}

func unused14() {}

// F15 has several unrelated problems.
func F15(a int, b bool, xs []int) bool {
	if a == a {
		a++
	}
	if b == true {
		a++
	}
	for _ = range xs {
		a++
	}
	if 5 == a {
		a++
	}
	if !!b {
		a++
	}
	a = a
	for i := 0; i < len(xs); i++ {
		break
	}
	return a > 0
}

func unused15() {}

// F16 has several unrelated problems.
func F16(a int, b bool, xs []int) bool {
	if a == a {
		a++
	}
	if b == true {
		a++
	}
	for _ = range xs {
		a++
	}
	if 5 == a {
		a++
	}
	if !!b {
		a++
	}
	a = a
	for i := 0; i < len(xs); i++ {
		break
	}
	return a > 0
}

func unused16() {}

// F17 has several unrelated problems.
func F17(a int, b bool, xs []int) bool {
	if a == a {
		a++
	}
	if b == true {
		a++
	}
	for _ = range xs {
		a++
	}
	if 5 == a {
		a++
	}
	if !!b {
		a++
	}
	a = a
	for i := 0; i < len(xs); i++ {
		break
	}
	return a > 0
}

func unused17() {}

// F18 has several unrelated problems.
func F18(a int, b bool, xs []int) bool {
	if a == a {
		a++
	}
	if b == true {
		a++
	}
	for _ = range xs {
		a++
	}
	if 5 == a {
		a++
	}
	if !!b {
		a++
	}
	a = a
	for i := 0; i < len(xs); i++ {
		break
	}
	return a > 0
}

func unused18() {}

// F19 has several unrelated problems.
func F19(a int, b bool, xs []int) bool {
	if a == a {
		a++
	}
	if b == true {
		a++
	}
	for _ = range xs {
		a++
	}
	if 5 == a {
		a++
	}
	if !!b {
		a++
	}
	a = a
	for i := 0; i < len(xs); i++ {
		break
	}
	return a > 0
}

func unused19() {}

// F20 has several unrelated problems.
func F20(a int, b bool, xs []int) bool {
	if a == a {
		a++
	}
	if b == true {
		a++
	}
	for _ = range xs {
		a++
	}
	if 5 == a {
		a++
	}
	if !!b {
		a++
	}
	a = a
	for i := 0; i < len(xs); i++ {
		break
	}
	return a > 0
}

func unused20() {}

// F21 has several unrelated problems.
func F21(a int, b bool, xs []int) bool {
	if a == a {
		a++
	}
	if b == true {
		a++
	}
	for _ = range xs {
		a++
	}
	if 5 == a {
		a++
	}
	if !!b {
		a++
	}
	a = a
	for i := 0; i < len(xs); i++ {
		break
	}
	return a > 0
}

func unused21() {}

// F22 has several unrelated problems.
func F22(a int, b bool, xs []int) bool {
	if a == a {
		a++
	}
	if b == true {
		a++
	}
	for _ = range xs {
		a++
	}
	if 5 == a {
		a++
	}
	if !!b {
		a++
	}
	a = a
	for i := 0; i < len(xs); i++ {
		break
	}
	return a > 0
}

func unused22() {}

// F23 has several unrelated problems.
func F23(a int, b bool, xs []int) bool {
	if a == a {
		a++
	}
	if b == true {
		a++
	}
	for _ = range xs {
		a++
	}
	if 5 == a {
		a++
	}
	if !!b {
		a++
	}
	a = a
	for i := 0; i < len(xs); i++ {
		break
	}
	return a > 0
}

func unused23() {}

// F24 has several unrelated problems.
func F24(a int, b bool, xs []int) bool {
	if a == a {
		a++
	}
	if b == true {
		a++
	}
	for _ = range xs {
		a++
	}
	if 5 == a {
		a++
	}
	if !!b {
		a++
	}
	a = a
	for i := 0; i < len(xs); i++ {
		break
	}
	return a > 0
}

func unused24() {}

// F25 has several unrelated problems.
func F25(a int, b bool, xs []int) bool {
	if a == a {
		a++
	}
	if b == true {
		a++
	}
	for _ = range xs {
		a++
	}
	if 5 == a {
		a++
	}
	if !!b {
		a++
	}
	a = a
	for i := 0; i < len(xs); i++ {
		break
	}
	return a > 0
}

func unused25() {}

// F26 has several unrelated problems.
func F26(a int, b bool, xs []int) bool {
	if a == a {
		a++
	}
	if b == true {
		a++
	}
	for _ = range xs {
		a++
	}
	if 5 == a {
		a++
	}
	if !!b {
		a++
	}
	a = a
	for i := 0; i < len(xs); i++ {
		break
	}
	return a > 0
}

func unused26() {}

// F27 has several unrelated problems.
func F27(a int, b bool, xs []int) bool {
	if a == a {
		a++
	}
	if b == true {
		a++
	}
	for _ = range xs {
		a++
	}
	if 5 == a {
		a++
	}
	if !!b {
		a++
	}
	a = a
	for i := 0; i < len(xs); i++ {
		break
	}
	return a > 0
}

func unused27() {}

// F28 has several unrelated problems.
func F28(a int, b bool, xs []int) bool {
	if a == a {
		a++
	}
	if b == true {
		a++
	}
	for _ = range xs {
		a++
	}
	if 5 == a {
		a++
	}
	if !!b {
		a++
	}
	a = a
	for i := 0; i < len(xs); i++ {
		break
	}
	return a > 0
}

func unused28() {}

// F29 has several unrelated problems.
func F29(a int, b bool, xs []int) bool {
	if a == a {
		a++
	}
	if b == true {
		a++
	}
	for _ = range xs {
		a++
	}
	if 5 == a {
		a++
	}
	if !!b {
		a++
	}
	a = a
	for i := 0; i < len(xs); i++ {
		break
	}
	return a > 0
}

func unused29() {}

// F30 has several unrelated problems.
func F30(a int, b bool, xs []int) bool {
	if a == a {
		a++
	}
	if b == true {
		a++
	}
	for _ = range xs {
		a++
	}
	if 5 == a {
		a++
	}
	if !!b {
		a++
	}
	a = a
	for i := 0; i < len(xs); i++ {
		break
	}
	return a > 0
}

func unused30() {}

// F31 has several unrelated problems.
func F31(a int, b bool, xs []int) bool {
	if a == a {
		a++
	}
	if b == true {
		a++
	}
	for _ = range xs {
		a++
	}
	if 5 == a {
		a++
	}
	if !!b {
		a++
	}
	a = a
	for i := 0; i < len(xs); i++ {
		break
	}
	return a > 0
}

func unused31() {}

// F32 has several unrelated problems.
func F32(a int, b bool, xs []int) bool {
	if a == a {
		a++
	}
	if b == true {
		a++
	}
	for _ = range xs {
		a++
	}
	if 5 == a {
		a++
	}
	if !!b {
		a++
	}
	a = a
	for i := 0; i < len(xs); i++ {
		break
	}
	return a > 0
}

func unused32() {}

// F33 has several unrelated problems.
func F33(a int, b bool, xs []int) bool {
	if a == a {
		a++
	}
	if b == true {
		a++
	}
	for _ = range xs {
		a++
	}
	if 5 == a {
		a++
	}
	if !!b {
		a++
	}
	a = a
	for i := 0; i < len(xs); i++ {
		break
	}
	return a > 0
}

func unused33() {}

// F34 has several unrelated problems.
func F34(a int, b bool, xs []int) bool {
	if a == a {
		a++
	}
	if b == true {
		a++
	}
	for _ = range xs {
		a++
	}
	if 5 == a {
		a++
	}
	if !!b {
		a++
	}
	a = a
	for i := 0; i < len(xs); i++ {
		break
	}
	return a > 0
}

func unused34() {}

// F35 has several unrelated problems.
func F35(a int, b bool, xs []int) bool {
	if a == a {
		a++
	}
	if b == true {
		a++
	}
	for _ = range xs {
		a++
	}
	if 5 == a {
		a++
	}
	if !!b {
		a++
	}
	a = a
	for i := 0; i < len(xs); i++ {
		break
	}
	return a > 0
}

func unused35() {}

// F36 has several unrelated problems.
func F36(a int, b bool, xs []int) bool {
	if a == a {
		a++
	}
	if b == true {
		a++
	}
	for _ = range xs {
		a++
	}
	if 5 == a {
		a++
	}
	if !!b {
		a++
	}
	a = a
	for i := 0; i < len(xs); i++ {
		break
	}
	return a > 0
}

func unused36() {}

// F37 has several unrelated problems.
func F37(a int, b bool, xs []int) bool {
	if a == a {
		a++
	}
	if b == true {
		a++
	}
	for _ = range xs {
		a++
	}
	if 5 == a {
		a++
	}
	if !!b {
		a++
	}
	a = a
	for i := 0; i < len(xs); i++ {
		break
	}
	return a > 0
}

func unused37() {}

// F38 has several unrelated problems.
func F38(a int, b bool, xs []int) bool {
	if a == a {
		a++
	}
	if b == true {
		a++
	}
	for _ = range xs {
		a++
	}
	if 5 == a {
		a++
	}
	if !!b {
		a++
	}
	a = a
	for i := 0; i < len(xs); i++ {
		break
	}
	return a > 0
}

func unused38() {}

// F39 has several unrelated problems.
func F39(a int, b bool, xs []int) bool {
	if a == a {
		a++
	}
	if b == true {
		a++
	}
	for _ = range xs {
		a++
	}
	if 5 == a {
		a++
	}
	if !!b {
		a++
	}
	a = a
	for i := 0; i < len(xs); i++ {
		break
	}
	return a > 0
}

func unused39() {}

// F40 has several unrelated problems.
func F40(a int, b bool, xs []int) bool {
	if a == a {
		a++
	}
	if b == true {
		a++
	}
	for _ = range xs {
		a++
	}
	if 5 == a {
		a++
	}
	if !!b {
		a++
	}
	a = a
	for i := 0; i < len(xs); i++ {
		break
	}
	return a > 0
}

func unused40() {}

// F41 has several unrelated problems.
func F41(a int, b bool, xs []int) bool {
	if a == a {
		a++
	}
	if b == true {
		a++
	}
	for _ = range xs {
		a++
	}
	if 5 == a {
		a++
	}
	if !!b {
		a++
	}
	a = a
	for i := 0; i < len(xs); i++ {
		break
	}
	return a > 0
}

func unused41() {}

// F42 has several unrelated problems.
func F42(a int, b bool, xs []int) bool {
	if a == a {
		a++
	}
	if b == true {
		a++
	}
	for _ = range xs {
		a++
	}
	if 5 == a {
		a++
	}
	if !!b {
		a++
	}
	a = a
	for i := 0; i < len(xs); i++ {
		break
	}
	return a > 0
}

func unused42() {}

// F43 has several unrelated problems.
func F43(a int, b bool, xs []int) bool {
	if a == a {
		a++
	}
	if b == true {
		a++
	}
	for _ = range xs {
		a++
	}
	if 5 == a {
		a++
	}
	if !!b {
		a++
	}
	a = a
	for i := 0; i < len(xs); i++ {
		break
	}
	return a > 0
}

func unused43() {}

// F44 has several unrelated problems.
func F44(a int, b bool, xs []int) bool {
	if a == a {
		a++
	}
	if b == true {
		a++
	}
	for _ = range xs {
		a++
	}
	if 5 == a {
		a++
	}
	if !!b {
		a++
	}
	a = a
	for i := 0; i < len(xs); i++ {
		break
	}
	return a > 0
}

func unused44() {}

// F45 has several unrelated problems.
func F45(a int, b bool, xs []int) bool {
	if a == a {
		a++
	}
	if b == true {
		a++
	}
	for _ = range xs {
		a++
	}
	if 5 == a {
		a++
	}
	if !!b {
		a++
	}
	a = a
	for i := 0; i < len(xs); i++ {
		break
	}
	return a > 0
}

func unused45() {}

// F46 has several unrelated problems.
func F46(a int, b bool, xs []int) bool {
	if a == a {
		a++
	}
	if b == true {
		a++
	}
	for _ = range xs {
		a++
	}
	if 5 == a {
		a++
	}
	if !!b {
		a++
	}
	a = a
	for i := 0; i < len(xs); i++ {
		break
	}
	return a > 0
}

func unused46() {}

// F47 has several unrelated problems.
func F47(a int, b bool, xs []int) bool {
	if a == a {
		a++
	}
	if b == true {
		a++
	}
	for _ = range xs {
		a++
	}
	if 5 == a {
		a++
	}
	if !!b {
		a++
	}
	a = a
	for i := 0; i < len(xs); i++ {
		break
	}
	return a > 0
}

func unused47() {}

// F48 has several unrelated problems.
func F48(a int, b bool, xs []int) bool {
	if a == a {
		a++
	}
	if b == true {
		a++
	}
	for _ = range xs {
		a++
	}
	if 5 == a {
		a++
	}
	if !!b {
		a++
	}
	a = a
	for i := 0; i < len(xs); i++ {
		break
	}
	return a > 0
}

func unused48() {}

// F49 has several unrelated problems.
func F49(a int, b bool, xs []int) bool {
	if a == a {
		a++
	}
	if b == true {
		a++
	}
	for _ = range xs {
		a++
	}
	if 5 == a {
		a++
	}
	if !!b {
		a++
	}
	a = a
	for i := 0; i < len(xs); i++ {
		break
	}
	return a > 0
}

func unused49() {}

// F50 has several unrelated problems.
func F50(a int, b bool, xs []int) bool {
	if a == a {
		a++
	}
	if b == true {
		a++
	}
	for _ = range xs {
		a++
	}
	if 5 == a {
		a++
	}
	if !!b {
		a++
	}
	a = a
	for i := 0; i < len(xs); i++ {
		break
	}
	return a > 0
}

func unused50() {}

// F51 has several unrelated problems.
func F51(a int, b bool, xs []int) bool {
	if a == a {
		a++
	}
	if b == true {
		a++
	}
	for _ = range xs {
		a++
	}
	if 5 == a {
		a++
	}
	if !!b {
		a++
	}
	a = a
	for i := 0; i < len(xs); i++ {
		break
	}
	return a > 0
}

func unused51() {}

// F52 has several unrelated problems.
func F52(a int, b bool, xs []int) bool {
	if a == a {
		a++
	}
	if b == true {
		a++
	}
	for _ = range xs {
		a++
	}
	if 5 == a {
		a++
	}
	if !!b {
		a++
	}
	a = a
	for i := 0; i < len(xs); i++ {
		break
	}
	return a > 0
}

func unused52() {}

// F53 has several unrelated problems.
func F53(a int, b bool, xs []int) bool {
	if a == a {
		a++
	}
	if b == true {
		a++
	}
	for _ = range xs {
		a++
	}
	if 5 == a {
		a++
	}
	if !!b {
		a++
	}
	a = a
	for i := 0; i < len(xs); i++ {
		break
	}
	return a > 0
}

func unused53() {}

// F54 has several unrelated problems.
func F54(a int, b bool, xs []int) bool {
	if a == a {
		a++
	}
	if b == true {
		a++
	}
	for _ = range xs {
		a++
	}
	if 5 == a {
		a++
	}
	if !!b {
		a++
	}
	a = a
	for i := 0; i < len(xs); i++ {
		break
	}
	return a > 0
}

func unused54() {}

// F55 has several unrelated problems.
func F55(a int, b bool, xs []int) bool {
	if a == a {
		a++
	}
	if b == true {
		a++
	}
	for _ = range xs {
		a++
	}
	if 5 == a {
		a++
	}
	if !!b {
		a++
	}
	a = a
	for i := 0; i < len(xs); i++ {
		break
	}
	return a > 0
}

func unused55() {}

// F56 has several unrelated problems.
func F56(a int, b bool, xs []int) bool {
	if a == a {
		a++
	}
	if b == true {
		a++
	}
	for _ = range xs {
		a++
	}
	if 5 == a {
		a++
	}
	if !!b {
		a++
	}
	a = a
	for i := 0; i < len(xs); i++ {
		break
	}
	return a > 0
}

func unused56() {}

// F57 has several unrelated problems.
func F57(a int, b bool, xs []int) bool {
	if a == a {
		a++
	}
	if b == true {
		a++
	}
	for _ = range xs {
		a++
	}
	if 5 == a {
		a++
	}
	if !!b {
		a++
	}
	a = a
	for i := 0; i < len(xs); i++ {
		break
	}
	return a > 0
}

func unused57() {}

// F58 has several unrelated problems.
func F58(a int, b bool, xs []int) bool {
	if a == a {
		a++
	}
	if b == true {
		a++
	}
	for _ = range xs {
		a++
	}
	if 5 == a {
		a++
	}
	if !!b {
		a++
	}
	a = a
	for i := 0; i < len(xs); i++ {
		break
	}
	return a > 0
}

func unused58() {}

// F59 has several unrelated problems.
func F59(a int, b bool, xs []int) bool {
	if a == a {
		a++
	}
	if b == true {
		a++
	}
	for _ = range xs {
		a++
	}
	if 5 == a {
		a++
	}
	if !!b {
		a++
	}
	a = a
	for i := 0; i < len(xs); i++ {
		break
	}
	return a > 0
}

func unused59() {}

// F60 has several unrelated problems.
func F60(a int, b bool, xs []int) bool {
	if a == a {
		a++
	}
	if b == true {
		a++
	}
	for _ = range xs {
		a++
	}
	if 5 == a {
		a++
	}
	if !!b {
		a++
	}
	a = a
	for i := 0; i < len(xs); i++ {
		break
	}
	return a > 0
}

func unused60() {}
