package p

//lint:file-ignore ST1017 this file does that on purpose

// OddC is flagged by ST1017, which is ignored twice.
func OddC(a int) bool {
	//lint:ignore ST1017 that is the whole point
	return 5 == a
}

// AddCx1 adds 1 to a.
func AddCx1(a int) int {
	// the sum
	return a + 1
}

// AddCx2 adds 2 to a.
func AddCx2(a int) int {
	// the sum
	return a + 2
}

// AddCx3 adds 3 to a.
func AddCx3(a int) int {
	// the sum
	return a + 3
}

// AddCx4 adds 4 to a.
func AddCx4(a int) int {
	// the sum
	return a + 4
}

// AddCx5 adds 5 to a.
func AddCx5(a int) int {
	// the sum
	return a + 5
}

// AddCx6 adds 6 to a.
func AddCx6(a int) int {
	// the sum
	return a + 6
}

// AddCx7 adds 7 to a.
func AddCx7(a int) int {
	// the sum
	return a + 7
}

// AddCx8 adds 8 to a.
func AddCx8(a int) int {
	// the sum
	return a + 8
}

// AddCx9 adds 9 to a.
func AddCx9(a int) int {
	// the sum
	return a + 9
}

// AddCx10 adds 10 to a.
func AddCx10(a int) int {
	// the sum
	return a + 10
}

// AddCx11 adds 11 to a.
func AddCx11(a int) int {
	// the sum
	return a + 11
}

// AddCx12 adds 12 to a.
func AddCx12(a int) int {
	// the sum
	return a + 12
}

// AddCx13 adds 13 to a.
func AddCx13(a int) int {
	// the sum
	return a + 13
}

// AddCx14 adds 14 to a.
func AddCx14(a int) int {
	// the sum
	return a + 14
}

// PlainC carries a directive that matches nothing: it is reported, on every run.
func PlainC(a int) int {
	//lint:ignore SA4006 nothing is wrong on the next line
	return a
}
