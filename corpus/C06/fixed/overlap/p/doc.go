// Package p has overlapping file-level and line-level linter directives.
package p
