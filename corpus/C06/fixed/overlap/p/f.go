package p

//lint:file-ignore SA4000 this file does that on purpose

// OddF is flagged by SA4000, which is ignored twice.
func OddF(a int) bool {
	//lint:ignore SA4000 that is the whole point
	return a != a
}

// AddFx1 adds 1 to a.
func AddFx1(a int) int {
	// the sum
	return a + 1
}

// AddFx2 adds 2 to a.
func AddFx2(a int) int {
	// the sum
	return a + 2
}

// AddFx3 adds 3 to a.
func AddFx3(a int) int {
	// the sum
	return a + 3
}

// AddFx4 adds 4 to a.
func AddFx4(a int) int {
	// the sum
	return a + 4
}

// AddFx5 adds 5 to a.
func AddFx5(a int) int {
	// the sum
	return a + 5
}

// AddFx6 adds 6 to a.
func AddFx6(a int) int {
	// the sum
	return a + 6
}

// AddFx7 adds 7 to a.
func AddFx7(a int) int {
	// the sum
	return a + 7
}

// AddFx8 adds 8 to a.
func AddFx8(a int) int {
	// the sum
	return a + 8
}

// AddFx9 adds 9 to a.
func AddFx9(a int) int {
	// the sum
	return a + 9
}

// AddFx10 adds 10 to a.
func AddFx10(a int) int {
	// the sum
	return a + 10
}

// AddFx11 adds 11 to a.
func AddFx11(a int) int {
	// the sum
	return a + 11
}

// AddFx12 adds 12 to a.
func AddFx12(a int) int {
	// the sum
	return a + 12
}

// AddFx13 adds 13 to a.
func AddFx13(a int) int {
	// the sum
	return a + 13
}

// AddFx14 adds 14 to a.
func AddFx14(a int) int {
	// the sum
	return a + 14
}

// PlainF carries a directive that matches nothing: it is reported, on every run.
func PlainF(a int) int {
	//lint:ignore SA4006 nothing is wrong on the next line
	return a
}
