package p

//lint:file-ignore SA4013 this file does that on purpose

// OddE is flagged by SA4013, which is ignored twice.
func OddE(b bool) bool {
	//lint:ignore SA4013 that is the whole point
	return !!b
}

// AddEx1 adds 1 to a.
func AddEx1(a int) int {
	// the sum
	return a + 1
}

// AddEx2 adds 2 to a.
func AddEx2(a int) int {
	// the sum
	return a + 2
}

// AddEx3 adds 3 to a.
func AddEx3(a int) int {
	// the sum
	return a + 3
}

// AddEx4 adds 4 to a.
func AddEx4(a int) int {
	// the sum
	return a + 4
}

// AddEx5 adds 5 to a.
func AddEx5(a int) int {
	// the sum
	return a + 5
}

// AddEx6 adds 6 to a.
func AddEx6(a int) int {
	// the sum
	return a + 6
}

// AddEx7 adds 7 to a.
func AddEx7(a int) int {
	// the sum
	return a + 7
}

// AddEx8 adds 8 to a.
func AddEx8(a int) int {
	// the sum
	return a + 8
}

// AddEx9 adds 9 to a.
func AddEx9(a int) int {
	// the sum
	return a + 9
}

// AddEx10 adds 10 to a.
func AddEx10(a int) int {
	// the sum
	return a + 10
}

// AddEx11 adds 11 to a.
func AddEx11(a int) int {
	// the sum
	return a + 11
}

// AddEx12 adds 12 to a.
func AddEx12(a int) int {
	// the sum
	return a + 12
}

// AddEx13 adds 13 to a.
func AddEx13(a int) int {
	// the sum
	return a + 13
}

// AddEx14 adds 14 to a.
func AddEx14(a int) int {
	// the sum
	return a + 14
}

// PlainE carries a directive that matches nothing: it is reported, on every run.
func PlainE(a int) int {
	//lint:ignore SA4006 nothing is wrong on the next line
	return a
}
