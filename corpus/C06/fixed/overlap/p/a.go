package p

//lint:file-ignore SA4000 this file does that on purpose

// OddA is flagged by SA4000, which is ignored twice.
func OddA(a int) bool {
	//lint:ignore SA4000 that is the whole point
	return a == a
}

// AddAx1 adds 1 to a.
func AddAx1(a int) int {
	// the sum
	return a + 1
}

// AddAx2 adds 2 to a.
func AddAx2(a int) int {
	// the sum
	return a + 2
}

// AddAx3 adds 3 to a.
func AddAx3(a int) int {
	// the sum
	return a + 3
}

// AddAx4 adds 4 to a.
func AddAx4(a int) int {
	// the sum
	return a + 4
}

// AddAx5 adds 5 to a.
func AddAx5(a int) int {
	// the sum
	return a + 5
}

// AddAx6 adds 6 to a.
func AddAx6(a int) int {
	// the sum
	return a + 6
}

// AddAx7 adds 7 to a.
func AddAx7(a int) int {
	// the sum
	return a + 7
}

// AddAx8 adds 8 to a.
func AddAx8(a int) int {
	// the sum
	return a + 8
}

// AddAx9 adds 9 to a.
func AddAx9(a int) int {
	// the sum
	return a + 9
}

// AddAx10 adds 10 to a.
func AddAx10(a int) int {
	// the sum
	return a + 10
}

// AddAx11 adds 11 to a.
func AddAx11(a int) int {
	// the sum
	return a + 11
}

// AddAx12 adds 12 to a.
func AddAx12(a int) int {
	// the sum
	return a + 12
}

// AddAx13 adds 13 to a.
func AddAx13(a int) int {
	// the sum
	return a + 13
}

// AddAx14 adds 14 to a.
func AddAx14(a int) int {
	// the sum
	return a + 14
}

// PlainA carries a directive that matches nothing: it is reported, on every run.
func PlainA(a int) int {
	//lint:ignore SA4006 nothing is wrong on the next line
	return a
}
