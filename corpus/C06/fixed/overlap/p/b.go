package p

//lint:file-ignore S1002 this file does that on purpose

// OddB is flagged by S1002, which is ignored twice.
func OddB(b bool) int {
	//lint:ignore S1002 that is the whole point
	if b == true {
		return 1
	}
	return 0
}

// AddBx1 adds 1 to a.
func AddBx1(a int) int {
	// the sum
	return a + 1
}

// AddBx2 adds 2 to a.
func AddBx2(a int) int {
	// the sum
	return a + 2
}

// AddBx3 adds 3 to a.
func AddBx3(a int) int {
	// the sum
	return a + 3
}

// AddBx4 adds 4 to a.
func AddBx4(a int) int {
	// the sum
	return a + 4
}

// AddBx5 adds 5 to a.
func AddBx5(a int) int {
	// the sum
	return a + 5
}

// AddBx6 adds 6 to a.
func AddBx6(a int) int {
	// the sum
	return a + 6
}

// AddBx7 adds 7 to a.
func AddBx7(a int) int {
	// the sum
	return a + 7
}

// AddBx8 adds 8 to a.
func AddBx8(a int) int {
	// the sum
	return a + 8
}

// AddBx9 adds 9 to a.
func AddBx9(a int) int {
	// the sum
	return a + 9
}

// AddBx10 adds 10 to a.
func AddBx10(a int) int {
	// the sum
	return a + 10
}

// AddBx11 adds 11 to a.
func AddBx11(a int) int {
	// the sum
	return a + 11
}

// AddBx12 adds 12 to a.
func AddBx12(a int) int {
	// the sum
	return a + 12
}

// AddBx13 adds 13 to a.
func AddBx13(a int) int {
	// the sum
	return a + 13
}

// AddBx14 adds 14 to a.
func AddBx14(a int) int {
	// the sum
	return a + 14
}

// PlainB carries a directive that matches nothing: it is reported, on every run.
func PlainB(a int) int {
	//lint:ignore SA4006 nothing is wrong on the next line
	return a
}
