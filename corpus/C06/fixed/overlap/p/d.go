package p

//lint:file-ignore SA4018 this file does that on purpose

// OddD is flagged by SA4018, which is ignored twice.
func OddD(a int) int {
	//lint:ignore SA4018 that is the whole point
	a = a
	return a
}

// AddDx1 adds 1 to a.
func AddDx1(a int) int {
	// the sum
	return a + 1
}

// AddDx2 adds 2 to a.
func AddDx2(a int) int {
	// the sum
	return a + 2
}

// AddDx3 adds 3 to a.
func AddDx3(a int) int {
	// the sum
	return a + 3
}

// AddDx4 adds 4 to a.
func AddDx4(a int) int {
	// the sum
	return a + 4
}

// AddDx5 adds 5 to a.
func AddDx5(a int) int {
	// the sum
	return a + 5
}

// AddDx6 adds 6 to a.
func AddDx6(a int) int {
	// the sum
	return a + 6
}

// AddDx7 adds 7 to a.
func AddDx7(a int) int {
	// the sum
	return a + 7
}

// AddDx8 adds 8 to a.
func AddDx8(a int) int {
	// the sum
	return a + 8
}

// AddDx9 adds 9 to a.
func AddDx9(a int) int {
	// the sum
	return a + 9
}

// AddDx10 adds 10 to a.
func AddDx10(a int) int {
	// the sum
	return a + 10
}

// AddDx11 adds 11 to a.
func AddDx11(a int) int {
	// the sum
	return a + 11
}

// AddDx12 adds 12 to a.
func AddDx12(a int) int {
	// the sum
	return a + 12
}

// AddDx13 adds 13 to a.
func AddDx13(a int) int {
	// the sum
	return a + 13
}

// AddDx14 adds 14 to a.
func AddDx14(a int) int {
	// the sum
	return a + 14
}

// PlainD carries a directive that matches nothing: it is reported, on every run.
func PlainD(a int) int {
	//lint:ignore SA4006 nothing is wrong on the next line
	return a
}
