module example.com/overlap

go 1.22
