package q

//lint:file-ignore SA* every SA check

// OddI is flagged by SA4018, which is ignored twice.
func OddI(a int) int {
	//lint:ignore SA4018 the point
	a = a
	return a
}

// AddIx1 adds 1 to a.
func AddIx1(a int) int {
	// the sum
	return a + 1
}

// AddIx2 adds 2 to a.
func AddIx2(a int) int {
	// the sum
	return a + 2
}

// AddIx3 adds 3 to a.
func AddIx3(a int) int {
	// the sum
	return a + 3
}

// AddIx4 adds 4 to a.
func AddIx4(a int) int {
	// the sum
	return a + 4
}

// AddIx5 adds 5 to a.
func AddIx5(a int) int {
	// the sum
	return a + 5
}

// AddIx6 adds 6 to a.
func AddIx6(a int) int {
	// the sum
	return a + 6
}

// AddIx7 adds 7 to a.
func AddIx7(a int) int {
	// the sum
	return a + 7
}

// AddIx8 adds 8 to a.
func AddIx8(a int) int {
	// the sum
	return a + 8
}

// AddIx9 adds 9 to a.
func AddIx9(a int) int {
	// the sum
	return a + 9
}

// AddIx10 adds 10 to a.
func AddIx10(a int) int {
	// the sum
	return a + 10
}

// AddIx11 adds 11 to a.
func AddIx11(a int) int {
	// the sum
	return a + 11
}

// AddIx12 adds 12 to a.
func AddIx12(a int) int {
	// the sum
	return a + 12
}

// AddIx13 adds 13 to a.
func AddIx13(a int) int {
	// the sum
	return a + 13
}

// AddIx14 adds 14 to a.
func AddIx14(a int) int {
	// the sum
	return a + 14
}

// PlainI carries a directive that matches nothing: it is reported, on every run.
func PlainI(a int) int {
	//lint:ignore SA4006 nothing is wrong on the next line
	return a
}
