package q

//lint:file-ignore SA4000,S1002 both on purpose

// OddG is flagged by SA4000, which is ignored twice.
func OddG(a int) bool {
	//lint:ignore SA4000 the point
	return a == a
}

// OddH is flagged by S1002, which is ignored twice.
func OddH(b bool) int {
	//lint:ignore S1002 the point
	if b == true {
		return 1
	}
	return 0
}

// AddGx1 adds 1 to a.
func AddGx1(a int) int {
	// the sum
	return a + 1
}

// AddGx2 adds 2 to a.
func AddGx2(a int) int {
	// the sum
	return a + 2
}

// AddGx3 adds 3 to a.
func AddGx3(a int) int {
	// the sum
	return a + 3
}

// AddGx4 adds 4 to a.
func AddGx4(a int) int {
	// the sum
	return a + 4
}

// AddGx5 adds 5 to a.
func AddGx5(a int) int {
	// the sum
	return a + 5
}

// AddGx6 adds 6 to a.
func AddGx6(a int) int {
	// the sum
	return a + 6
}

// AddGx7 adds 7 to a.
func AddGx7(a int) int {
	// the sum
	return a + 7
}

// AddGx8 adds 8 to a.
func AddGx8(a int) int {
	// the sum
	return a + 8
}

// AddGx9 adds 9 to a.
func AddGx9(a int) int {
	// the sum
	return a + 9
}

// AddGx10 adds 10 to a.
func AddGx10(a int) int {
	// the sum
	return a + 10
}

// AddGx11 adds 11 to a.
func AddGx11(a int) int {
	// the sum
	return a + 11
}

// AddGx12 adds 12 to a.
func AddGx12(a int) int {
	// the sum
	return a + 12
}

// AddGx13 adds 13 to a.
func AddGx13(a int) int {
	// the sum
	return a + 13
}

// AddGx14 adds 14 to a.
func AddGx14(a int) int {
	// the sum
	return a + 14
}

// PlainG carries a directive that matches nothing: it is reported, on every run.
func PlainG(a int) int {
	//lint:ignore SA4006 nothing is wrong on the next line
	return a
}
