// Package q has overlapping file-level and line-level linter directives.
package q
