package main

// Fixed regression inputs of C16 (minimised past failures).  Every function is linted with
// the generated shapes on every run; the fix of the check named in the function name is
// applied and the function is executed before and after on the inputs of support.go.

import (
	"fmt"
	"math"
	"strings"
)

var _ = []any{fmt.Sprint, math.Pow, strings.Index}

// S1002: the operand of the comparison with a bool constant is itself a comparison;
// "!" + operand binds to the operand's first term ("!i1 != i2": does not type-check).
func R_S1002_1(in In) (res string) {
	i1, i2 := in.i1, in.i2
	if i1 != i2 != true {
		res += "T"
	}
	return res
}

func R_S1002_2(in In) (res string) {
	res += fmt.Sprint(in.i0 < in.i1 == false)
	return res
}

func R_S1002_3(in In) (res string) {
	v := in.s0+"a" == in.s1 != true
	res += fmt.Sprint(v)
	return res
}

// QF1001: the negated expression is itself the operand of a "!": the replacement
// "!a || !b" is not parenthesised, "!!(a && b)" became "!!a || !b".
func R_QF1001_1(in In) (res string) {
	res += fmt.Sprint(!!(in.b0 && tb(1, in.b1)))
	return res
}

// QF1001 "& simplify": SimplifyParentheses re-associates `a op (b op c)` into `(a op b) op c`
// for every operator: wrong for `-` (different value) and for comparisons of mixed types
// (does not type-check).
func R_QF1001_2(in In) (res string) {
	res += fmt.Sprint(!(in.b0 || in.i0-(in.i1-in.i2) < 1))
	return res
}

func R_QF1001_3(in In) (res string) {
	res += fmt.Sprint(!(in.b0 || in.b1 == (in.s0 != in.s1)))
	return res
}

// QF1005: math.Pow(x, n) as operand of a tighter or non-associative operator:
// "f0 / f1 * f1", "f0 - f0 + f1", "--f1" (does not parse).
func R_QF1005_1(in In) (res string) {
	res += fmt.Sprint(in.f0 / math.Pow(in.f1, 2))
	return res
}

func R_QF1005_2(in In) (res string) {
	res += fmt.Sprint(in.f0 - math.Pow(in.f0+in.f1, 1))
	return res
}

func R_QF1005_3(in In) (res string) {
	res += fmt.Sprint(-math.Pow(-in.f1, 1))
	return res
}

// QF1003 / QF1002: the same constant compared twice (dead but valid): a tagged switch
// with duplicate constant cases does not type-check.
func R_QF1003_1(in In) (res string) {
	i0 := in.i0
	if i0 == 1 {
		res += "a"
	} else if i0 == 2 || i0 == 1 {
		res += "b"
	}
	return res
}

func R_QF1002_1(in In) (res string) {
	i0 := in.i0
	switch {
	case i0 == 1:
		res += "a"
	case i0 == 2 || i0 == 1:
		res += "b"
	}
	return res
}

// S1033: the guard evaluates the key twice; an effectful key is evaluated once after the fix.
func R_S1033_1(in In) (res string) {
	m := map[string]int{"a": 1, "b": 2}
	if _, ok := m[ts(1, in.s0)]; ok {
		delete(m, ts(1, in.s0))
	}
	res += fmt.Sprint(len(m))
	return res
}

// SA4013 "Remove double negation": the operand lost its parentheses ("!!!(s0 == s1)" became "!s0 == s1").
func R_SA4013_1(in In) (res string) {
	res += fmt.Sprint(!!!(in.s0 == in.s1))
	return res
}

// S1001 / S1018: a loop that panics when the destination is too short (or the bounds are
// negative) is replaced by copy(), which copies the shorter length / panics on other bounds.
func R_S1001_1(in In) (res string) {
	xs := in.xs
	dst := make([]int, 1)
	for i, x := range xs {
		dst[i] = x
	}
	res += fmt.Sprint(dst)
	return res
}

func R_S1018_1(in In) (res string) {
	ys := append([]int(nil), in.xs...)
	n, off := len(ys)-1, 2
	for i := 0; i < n; i++ {
		ys[i] = ys[off+i]
	}
	res += fmt.Sprint(ys)
	return res
}

// Guards: comparisons S1003 must leave alone (if it ever rewrites one, the fix is executed
// and compared), and every comparison operator under a De Morgan negation.
func G_S1003_1(in In) (res string) {
	res += fmt.Sprint(strings.Index(in.s0, in.s1) == 0)
	return res
}

func G_S1003_2(in In) (res string) {
	res += fmt.Sprint(strings.Index(in.s0, in.s1) > 0)
	return res
}

func G_S1003_3(in In) (res string) {
	res += fmt.Sprint(strings.Index(in.s0, in.s1) >= -1)
	return res
}

func G_S1003_4(in In) (res string) {
	res += fmt.Sprint(strings.Index(in.s0, in.s1) != 0)
	return res
}

func G_S1003_5(in In) (res string) {
	res += fmt.Sprint(strings.Index(in.s0, in.s1) < 1)
	return res
}

func G_QF1001_1(in In) (res string) {
	res += fmt.Sprint(!(in.b0 && in.i0 <= in.i1))
	return res
}

func G_QF1001_2(in In) (res string) {
	res += fmt.Sprint(!(in.b0 && in.i0 >= in.i1))
	return res
}

func G_QF1001_3(in In) (res string) {
	res += fmt.Sprint(!(in.b0 || in.i0 < in.i1))
	return res
}

func G_QF1001_4(in In) (res string) {
	res += fmt.Sprint(!(in.b0 || in.i0 != in.i1 && in.s0 > in.s1))
	return res
}
