package main

// Fixed regression inputs of C16 (minimised past failures).  Every function is linted with
// the generated shapes on every run; the fix of the check named in the function name is
// applied and the function is executed before and after on the inputs of support.go.

import (
	"fmt"
	"math"
	"strings"
)

var _ = []any{fmt.Sprint, math.Pow, strings.Index}

// S1002: the operand of the comparison with a bool constant is itself a comparison;
// "!" + operand binds to the operand's first term ("!i1 != i2": does not type-check).
func R_S1002_1(in In) (res string) {
	i1, i2 := in.i1, in.i2
	if i1 != i2 != true {
		res += "T"
	}
	return res
}

func R_S1002_2(in In) (res string) {
	res += fmt.Sprint(in.i0 < in.i1 == false)
	return res
}

func R_S1002_3(in In) (res string) {
	v := in.s0+"a" == in.s1 != true
	res += fmt.Sprint(v)
	return res
}

// QF1001: the negated expression is itself the operand of a "!": the replacement
// "!a || !b" is not parenthesised, "!!(a && b)" became "!!a || !b".
func R_QF1001_1(in In) (res string) {
	res += fmt.Sprint(!!(in.b0 && tb(1, in.b1)))
	return res
}

// QF1001 "& simplify": SimplifyParentheses re-associates `a op (b op c)` into `(a op b) op c`
// for every operator: wrong for `-` (different value) and for comparisons of mixed types
// (does not type-check).
func R_QF1001_2(in In) (res string) {
	res += fmt.Sprint(!(in.b0 || in.i0-(in.i1-in.i2) < 1))
	return res
}

func R_QF1001_3(in In) (res string) {
	res += fmt.Sprint(!(in.b0 || in.b1 == (in.s0 != in.s1)))
	return res
}

// QF1005: math.Pow(x, n) as operand of a tighter or non-associative operator:
// "f0 / f1 * f1", "f0 - f0 + f1", "--f1" (does not parse).
func R_QF1005_1(in In) (res string) {
	res += fmt.Sprint(in.f0 / math.Pow(in.f1, 2))
	return res
}

func R_QF1005_2(in In) (res string) {
	res += fmt.Sprint(in.f0 - math.Pow(in.f0+in.f1, 1))
	return res
}

func R_QF1005_3(in In) (res string) {
	res += fmt.Sprint(-math.Pow(-in.f1, 1))
	return res
}

// QF1003 / QF1002: the same constant compared twice (dead but valid): a tagged switch
// with duplicate constant cases does not type-check.
func R_QF1003_1(in In) (res string) {
	i0 := in.i0
	if i0 == 1 {
		res += "a"
	} else if i0 == 2 || i0 == 1 {
		res += "b"
	}
	return res
}

func R_QF1002_1(in In) (res string) {
	i0 := in.i0
	switch {
	case i0 == 1:
		res += "a"
	case i0 == 2 || i0 == 1:
		res += "b"
	}
	return res
}

// S1033: the guard evaluates the key twice; an effectful key is evaluated once after the fix.
func R_S1033_1(in In) (res string) {
	m := map[string]int{"a": 1, "b": 2}
	if _, ok := m[ts(1, in.s0)]; ok {
		delete(m, ts(1, in.s0))
	}
	res += fmt.Sprint(len(m))
	return res
}

// SA4013 "Remove double negation": the operand lost its parentheses ("!!!(s0 == s1)" became "!s0 == s1").
func R_SA4013_1(in In) (res string) {
	res += fmt.Sprint(!!!(in.s0 == in.s1))
	return res
}

// S1001 / S1018: a loop that panics when the destination is too short (or the bounds are
// negative) is replaced by copy(), which copies the shorter length / panics on other bounds.
func R_S1001_1(in In) (res string) {
	xs := in.xs
	dst := make([]int, 1)
	for i, x := range xs {
		dst[i] = x
	}
	res += fmt.Sprint(dst)
	return res
}

func R_S1018_1(in In) (res string) {
	ys := append([]int(nil), in.xs...)
	n, off := len(ys)-1, 2
	for i := 0; i < n; i++ {
		ys[i] = ys[off+i]
	}
	res += fmt.Sprint(ys)
	return res
}

// Guards: comparisons S1003 must leave alone (if it ever rewrites one, the fix is executed
// and compared), and every comparison operator under a De Morgan negation.
func G_S1003_1(in In) (res string) {
	res += fmt.Sprint(strings.Index(in.s0, in.s1) == 0)
	return res
}

func G_S1003_2(in In) (res string) {
	res += fmt.Sprint(strings.Index(in.s0, in.s1) > 0)
	return res
}

func G_S1003_3(in In) (res string) {
	res += fmt.Sprint(strings.Index(in.s0, in.s1) >= -1)
	return res
}

func G_S1003_4(in In) (res string) {
	res += fmt.Sprint(strings.Index(in.s0, in.s1) != 0)
	return res
}

func G_S1003_5(in In) (res string) {
	res += fmt.Sprint(strings.Index(in.s0, in.s1) < 1)
	return res
}

func G_QF1001_1(in In) (res string) {
	res += fmt.Sprint(!(in.b0 && in.i0 <= in.i1))
	return res
}

func G_QF1001_2(in In) (res string) {
	res += fmt.Sprint(!(in.b0 && in.i0 >= in.i1))
	return res
}

func G_QF1001_3(in In) (res string) {
	res += fmt.Sprint(!(in.b0 || in.i0 < in.i1))
	return res
}

func G_QF1001_4(in In) (res string) {
	res += fmt.Sprint(!(in.b0 || in.i0 != in.i1 && in.s0 > in.s1))
	return res
}

// ---- round 2 (strengthening): operand positions, labels, repeated constants

// QF1005 with exponent 1: the replacement is the first argument itself; when that is a
// binary/unary expression and the call is an operand, it must stay one operand.
func G_QF1005_1(in In) (res string) {
	res += fmt.Sprint(in.f1 * math.Pow(in.f0+in.f1, 1))
	return res
}

func G_QF1005_2(in In) (res string) {
	res += fmt.Sprint(in.f0 / math.Pow(in.f0*in.f1, 1))
	return res
}

func G_QF1005_3(in In) (res string) {
	res += fmt.Sprint(-math.Pow(in.f0-in.f1, 1))
	return res
}

func G_QF1005_4(in In) (res string) {
	res += fmt.Sprint(math.Pow(in.f0+in.f1, 1) * in.f1)
	return res
}

func G_QF1005_5(in In) (res string) {
	res += fmt.Sprint(in.f0 - math.Pow(-in.f1, 1) - math.Pow(in.f0-in.f1, 1))
	return res
}

// QF1006: a break that names an ENCLOSING loop must not be lifted into the condition of
// the inner loop (only the inner loop would end); the label is used by a continue as well,
// so the rewritten code still compiles.
func G_QF1006_1(in In) (res string) {
	rows := [][]int{in.xs, {4, -1, 5}, in.xs, {6, 7}}
rows:
	for _, row := range rows {
		i := 0
		for {
			if i < len(row) && row[i] < 0 {
				break rows
			}
			if i >= len(row) {
				continue rows
			}
			res += fmt.Sprint(row[i])
			i++
		}
	}
	return res
}

// a break naming the loop's own label is equivalent to a plain break
func G_QF1006_2(in In) (res string) {
	n := 0
own:
	for {
		if n >= len(in.xs) || in.xs[n] == 0 {
			break own
		}
		res += fmt.Sprint(in.xs[n])
		n++
	}
	return res
}

func G_QF1006_3(in In) (res string) {
	n := 0
	for {
		if n >= len(in.xs) || tb(1, in.xs[n] == 0) {
			break
		}
		res += fmt.Sprint(in.xs[n])
		n++
	}
	return res
}

// QF1003: the same constant VALUE in two different branches (other spelling), three branches
func G_QF1003_1(in In) (res string) {
	i0 := in.i0
	if i0 == 1 {
		res += "a"
	} else if i0 == 4 || i0 == 3 {
		res += "b"
	} else if i0 == 2 || i0 == 0x1 {
		res += "c"
	}
	return res
}

func G_QF1003_2(in In) (res string) {
	i0 := in.i0
	if i0 == 2 {
		res += "a"
	} else if i0 == 3 {
		res += "b"
	} else if i0 == 1+1 {
		res += "c"
	} else {
		res += "e"
	}
	return res
}

// QF1003: a break in the final else leaves the enclosing loop; inside a switch it would
// only leave the switch.
func R_QF1003_2(in In) (res string) {
	for n := 0; n < 4; n++ {
		if in.i0+n == 1 {
			res += "a"
		} else if in.i0+n == 2 {
			res += "b"
		} else {
			break
		}
		res += "."
	}
	return res
}

func G_QF1003_3(in In) (res string) {
	for n := 0; n < 4; n++ {
		if in.i0+n == 1 {
			res += "a"
		} else if in.i0+n == 2 {
			res += "b"
		} else {
			res += "c"
			continue
		}
		res += "."
	}
	return res
}

// S1034: a comma-ok assertion inside the clause cannot become "v, ok := x"
func R_S1034_1(in In) (res string) {
	var x any = in.i0
	if in.b0 {
		x = in.s0
	}
	switch x.(type) {
	case int:
		v, ok := x.(int)
		res += fmt.Sprint(v, ok)
	case string:
		res += x.(string)
	}
	return res
}

func G_S1034_1(in In) (res string) {
	var x any = in.i0
	if in.b0 {
		x = in.s0
	}
	switch x.(type) {
	case int:
		res += fmt.Sprint(x.(int) + 1)
	case string:
		res += x.(string)
	}
	return res
}

// S1016: the address of a parenthesised literal: a conversion is not addressable
func R_S1016_1(in In) (res string) {
	v := Inner{in.i0, in.i1}
	w := &(Inner2{A: v.A, B: v.B})
	res += fmt.Sprint(*w)
	return res
}

// S1025: the Sprintf call is the base of a slice / index expression and its argument is
// not a primary expression
func R_S1025_1(in In) (res string) {
	res += fmt.Sprintf("%s", in.s0+in.s1)[1:]
	return res
}

func R_S1025_2(in In) (res string) {
	p := &in.s0
	res += fmt.Sprint(fmt.Sprintf("%s", *p)[0])
	return res
}

func R_S1025_3(in In) (res string) {
	ch := make(chan string, 1)
	ch <- in.s1
	res += fmt.Sprintf("%s", <-ch)[:1]
	return res
}

func G_S1034_2(in In) (res string) {
	var x any = in.i0
	if in.b0 {
		x = in.s0
	}
	switch x.(type) {
	case int:
		var v, ok = x.(int)
		res += fmt.Sprint(v, ok)
	case string:
		res += x.(string)
	}
	return res
}

func G_S1034_3(in In) (res string) {
	var x any = in.i0
	if in.b0 {
		x = in.s0
	}
	switch x.(type) {
	case int:
		res += fmt.Sprint(x.(int))
	case string:
		if _, ok := (x.(string)); ok {
			res += "s"
		}
	}
	return res
}

// S1005: every deletion range
func G_S1005_1(in In) (res string) {
	for _ = range in.xs {
		res += "x"
	}
	return res
}

func G_S1005_2(in In) (res string) {
	for _, _ = range in.xs {
		res += "y"
	}
	return res
}

func G_S1005_3(in In) (res string) {
	for i, _ := range in.xs {
		res += fmt.Sprint(i)
	}
	return res
}
