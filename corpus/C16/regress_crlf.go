package main

// Fixed regression inputs that are materialised with CRLF line endings (gen_d.go).
// go/scanner strips the carriage returns from the VALUE of a raw string literal, so
// offsets into BasicLit.Value are not offsets into the file behind the first line break.

import "fmt"

// ST1018: a three-byte format character (U+200B) on the third line of a raw string
func R_ST1018_1(in In) (res string) {
	v := `a
b
c​d`
	res += fmt.Sprint(len(v))
	return res
}

// one-byte control character on the second line
func R_ST1018_2(in In) (res string) {
	v := `a
bc`
	res += fmt.Sprint(len(v))
	return res
}

// two offenders (the multi-edit branch)
func R_ST1018_3(in In) (res string) {
	v := `a​
b​c`
	res += fmt.Sprint(len(v))
	return res
}

// single-line literals are unaffected
func G_ST1018_1(in In) (res string) {
	v := `a​b` + "c​d"
	res += fmt.Sprint(len(v))
	return res
}
