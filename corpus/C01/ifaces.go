package main

// interfaces: nil pointers inside interfaces, assertions, interface to interface, equality, embedded interfaces

//c01:global G0 int 0
//c01:entry i0(int) int,bool,bool
//c01:entry i1(int) int,string
//c01:entry i2(int,int) int,int
//c01:entry i3(int) int,bool
//c01:entry i4(int) int

var G0 int = 0

type Shape interface {
	Area() int
}

type Named interface {
	Shape
	Name() string
}

type Sq struct{ s int }

func (q Sq) Area() int { return q.s * q.s }

func (q Sq) Name() string { return "sq" }

type Circ struct{ r int }

func (c *Circ) Area() int {
	if c == nil {
		return -1
	}
	return 3 * c.r * c.r
}

type MyErr struct{ code int }

func (e MyErr) Error() string { return "myerr" }

func pick(a int) Shape {
	switch a % 4 {
	case 0:
		return Sq{a}
	case 1:
		return &Circ{a}
	case 2:
		var c *Circ
		return c // non-nil interface holding a nil pointer
	}
	return nil
}

func i0(a int) (r int, isNil bool, isNamed bool) {
	defer func() {
		if e := recover(); e != nil {
			r = -7
		}
	}()
	s := pick(a)
	isNil = s == nil
	_, isNamed = s.(Named)
	return s.Area(), isNil, isNamed // nil interface: method call panics
}

func i1(a int) (n int, out string) {
	defer func() {
		e := recover()
		if e == nil {
			return
		}
		if err, ok := e.(error); ok {
			out = "E:" + err.Error()[:9]
			return
		}
		out = "other"
	}()
	s := pick(a)
	if a%5 == 0 {
		panic(MyErr{a})
	}
	nm := s.(Named) // may panic: interface conversion
	out = nm.Name()
	c := s.(*Circ) // may panic too
	return c.Area(), out
}

func i2(a, b int) (int, int) {
	var x, y any = a, b
	var z any = int8(a)
	n := 0
	if x == y {
		n |= 1
	}
	if x == any(a) {
		n |= 2
	}
	if z == x {
		n |= 4
	}
	var s1, s2 Shape = Sq{a}, Sq{b}
	if s1 == s2 {
		n |= 8
	}
	c := &Circ{a}
	var s3, s4 Shape = c, c
	if s3 == s4 && s3 != s1 {
		n |= 16
	}
	var e1 error = MyErr{a}
	var e2 any = e1
	m := 0
	switch v := e2.(type) {
	case Shape:
		m = 1
	case error:
		m = 2 + len(v.Error())
	}
	return n, m
}

func i3(a int) (int, bool) {
	shapes := []Shape{Sq{1}, &Circ{2}, Sq{a}, (*Circ)(nil)}
	tot := 0
	named := 0
	for _, s := range shapes {
		tot += s.Area()
		if nm, ok := s.(Named); ok {
			named += len(nm.Name())
		}
		switch t := s.(type) {
		case Sq:
			tot += t.s
		case *Circ:
			if t != nil {
				tot += t.r
			}
		}
	}
	var f func(int) int
	return tot*10 + named, f == nil
}

func i4(a int) (r int) {
	defer func() {
		if recover() != nil {
			r += 1000
		}
	}()
	var f func(int) int
	if a > 1 {
		f = func(x int) int { return x * 2 }
	}
	r = 5
	r = f(a) // nil function call panics
	var sh Shape
	if a > 3 {
		sh = Sq{a}
	}
	g := sh.Area // method value of nil interface panics here
	r += 100
	return r + g()
}
