package main

// closures: nested capture, recursion, counters, capture of parameters and results, function-valued fields

//c01:global G0 int 0
//c01:entry q0(int) int,int
//c01:entry q1(int,int) int
//c01:entry q2(int) int,int
//c01:entry q3(int) int
//c01:entry q4(int,string) int,string

var G0 int = 0

type Op struct {
	name string
	f    func(int, int) int
}

func counter(start int) (func() int, func(int)) {
	c := start
	return func() int { c++; return c }, func(d int) { c += d }
}

func fib(n int) int {
	if n < 2 {
		return n
	}
	return fib(n-1) + fib(n-2)
}

func even(n int) bool {
	if n == 0 {
		return true
	}
	return odd(n - 1)
}

func odd(n int) bool {
	if n == 0 {
		return false
	}
	return even(n - 1)
}

func q0(a int) (int, int) {
	next, add := counter(a)
	next()
	add(10)
	n2, _ := counter(100)
	return next() + n2(), next()
}

func q1(a, b int) int {
	x := a
	f := func() func() int {
		y := b
		return func() int {
			x++
			y += x
			return func() int { return x*100 + y }()
		}
	}()
	f()
	x += 10
	return f()
}

func q2(a int) (r, s int) {
	var rec func(int) int
	rec = func(k int) int {
		if k <= 0 {
			return a
		}
		r++
		return rec(k-1) + k
	}
	s = rec(a & 7)
	if even(a&7) != !odd(a&7) {
		s = -1
	}
	return r, s + fib(a&7)
}

func q3(a int) int {
	ops := []Op{{"add", func(x, y int) int { return x + y }}, {"mul", func(x, y int) int { return x * y }}, {name: "nil"}}
	acc := a
	for i, o := range ops {
		if o.f == nil {
			acc += len(o.name) + i
			continue
		}
		acc = o.f(acc, i+2)
	}
	func() {
		acc := acc * 2 // shadows
		G0 = acc
	}()
	return acc
}

func q4(a int, s string) (n int, out string) {
	app := func(t string) { out += t; n++ }
	defer app("!")
	for i := 0; i < a&3; i++ {
		defer func() { app(s[:i&1]) }()
		app("a")
	}
	func(f func(string)) { f("z") }(app)
	return n * 10, out + "r"
}
