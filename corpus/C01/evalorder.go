package main

// order of evaluation: calls inside one expression happen in lexical left-to-right order

//c01:global G0 int 0
//c01:entry e0(int,int) bool,int
//c01:entry e1(int,int) int,int
//c01:entry e2(int) int,string
//c01:entry e3(int,int) int,int,int
//c01:entry e4(int) int

var G0 int = 0

type P struct{ X, Y int }

func id(k int) int {
	obsI(k)
	return k
}

func ids(s string) string {
	obsS(s)
	return s
}

func pp(k int) *P {
	obsI(k)
	return &P{k, -k}
}

func sl(k int) []int {
	obsI(k)
	return []int{k, k + 1, k + 2, k + 3}
}

func two(k int) (int, int) {
	obsI(k)
	return k, k * 2
}

func e0(a, b int) (bool, int) {
	c1 := id(a) < id(b)
	c2 := id(a+1) == id(b+1)
	c3 := id(a+2) >= id(b)+id(3)
	n := 0
	if id(10) != id(11) {
		n = id(a)<<uint(id(2)&3) | id(b)>>uint(id(1))
	}
	return c1 != c2 || c3, n
}

func e1(a, b int) (int, int) {
	x := id(1)*id(2) - id(3)/(id(a)|1) + id(4)%(id(b)|1)
	y := sl(id(5))[id(a)&3] + sl(6)[id(1):id(3)][id(0)]
	return x, y
}

func e2(a int) (int, string) {
	p := P{id(1), id(2)}
	q := &P{Y: id(3), X: id(4)}
	arr := [3]int{id(5), 2: id(6), 1: id(7)}
	s := ids("a") + ids("b") + ids("c")
	t := []string{ids("x"), ids("y")}
	return p.X + q.Y*10 + arr[1]*100 + pp(id(8)).Y + a, s + t[id(1)&1]
}

func add3(x, y, z int) int { return x*100 + y*10 + z }

func e3(a, b int) (int, int, int) {
	r := add3(id(a), id(b), id(a+b))
	u, v := two(id(7))
	var k [4]int
	k[id(1)], k[id(2)] = id(3), id(4)
	pp(5).X, pp(6).Y = id(7), id(8)
	return r, u + v, k[1]*10 + k[2]
}

func e4(a int) (r int) {
	defer obsI(id(100) + id(200))
	for i := id(0); i < id(2); i += id(1) {
		r += i
	}
	switch id(a & 1) {
	case id(9) - 9:
		r += 10
	case id(1):
		r += 20
	}
	return r + id(a)
}
