package main

// composite literals, assignments whose right-hand side reads the assigned variable (storebuf), lvalue forms

//c01:global G0 int 0
//c01:reset gp P{1, 2}
//c01:entry l0(int,int) int,int
//c01:entry l1(int) int,int
//c01:entry l2(int,int) int
//c01:entry l3(int) int,string
//c01:entry l4(int,int) int,int
//c01:entry l5(int) int
//c01:entry l6(int,int) int,int

var G0 int = 0

type P struct{ X, Y int }

type Q struct {
	A  P
	B  *P
	Cs [3]int
	S  []P
}

var gp = P{1, 2}

func mk(a int) *Q {
	obsI(a)
	return &Q{A: P{a, a + 1}, B: &P{Y: a}, Cs: [3]int{2: a}, S: []P{{a, 0}, {Y: 3}}}
}

func l0(a, b int) (int, int) {
	p := P{a, b}
	p = P{p.Y, p.X} // must read both fields before storing
	arr := [3]int{a, b, 7}
	arr = [3]int{arr[2], arr[0], arr[1]}
	q := Q{A: p}
	q = Q{A: P{q.A.Y, q.A.X}, Cs: [3]int{q.A.X, q.A.Y}}
	pp := &p
	*pp = P{pp.Y + 1, pp.X + 1}
	return p.X*100 + p.Y, arr[0]*10000 + arr[1]*100 + arr[2] + q.A.X*1000000 + q.Cs[1]
}

func l1(a int) (int, int) {
	q := mk(a)
	q.A.X += 5
	q.B.X = q.A.X * 2
	q.Cs[a&1]++
	q.S[1].X--
	q.S = append(q.S[:1:1], P{9, 9})
	mk(a+1).Cs[2] += 100
	(*q).A.Y, q.S[0].Y = q.S[0].Y, q.A.Y
	gp.X, gp.Y = gp.Y, gp.X+a
	_ = q.B.Y
	_, x := q.A.X, q.Cs[0]
	return q.A.X + q.B.X*10 + q.A.Y*1000, x + q.S[1].X + q.S[0].Y*100 + gp.X*10000
}

func l2(a, b int) int {
	m := [2][2]P{{{1, 2}, {3, 4}}, {{5, 6}, {a, b}}}
	n := m
	n[1][1].X, n[0][0] = n[0][0].Y, n[1][1]
	ps := [...]*P{&m[0][0], &n[0][0], nil}
	s := 0
	for _, p := range ps {
		if p != nil {
			s = s*10 + p.X
		}
	}
	ss := []*[2]int{{1, 2}, {a}}
	ss[1][1] = ss[0][0] + b
	return s*1000 + ss[1][1]*10 + len(ss[0])
}

func l3(a int) (int, string) {
	type Rec struct {
		N    int
		Tags []string
		In   struct{ K, V string }
	}
	r := Rec{N: a, Tags: []string{"x"}}
	r.In.K = "k"
	r2 := r
	r2.Tags[0] = "shared"
	r2.Tags = append(r2.Tags[:1:1], "own")
	r2.In.V = r.In.K + r2.In.K
	rp := &r2
	rp.N *= 2
	anon := struct {
		a, b int
	}{b: a}
	return r.N + rp.N + len(r2.Tags) + anon.a + anon.b*7, r.Tags[0] + r2.In.V + r.In.V
}

func l4(a, b int) (int, int) {
	xs := make([]int, 3)
	i := 0
	i, xs[i] = 1, a // xs[0] = a
	xs[i], i = b, 2 // xs[1] = b
	xs[i] = xs[0] + xs[1]
	var p *int = &xs[2]
	*p++
	*p <<= 1
	k := new(int)
	*k = *p
	*p, *k = *k+1, *p+2
	return xs[2], *k
}

func l5(a int) (r int) {
	defer func() {
		if recover() != nil {
			r = -r - 1
		}
	}()
	var q *Q
	r = 1
	if a > 0 {
		q = mk(a)
	}
	r = 2
	q.Cs[1] = a // nil dereference when a <= 0
	r = 3
	var arr *[2]int
	if a > 5 {
		arr = &[2]int{a, a}
	}
	r += len(arr) // no dereference
	r += arr[1]   // dereference
	return r
}

func l6(a, b int) (int, int) {
	p := P{a, b}
	arr := [3]int{a, b, a + b}
	q := &Q{A: p, Cs: arr}
	s1 := p.X + arr[2] + q.A.Y
	p = P{}       // resets an initialised variable
	arr = [3]int{} // likewise
	q.A = P{Y: 1}  // partial literal zeroes the other field
	*q = Q{B: &p}
	var r P
	for i := 0; i < 3; i++ {
		r = P{X: i} // Y must be reset in every iteration
		if i == 1 {
			r.Y = 50 + b
		}
	}
	ps := []P{{a, b}, {b, a}}
	ps[0] = P{}
	ps[1] = P{X: ps[1].Y}
	return s1, p.X + p.Y + arr[0] + arr[1] + arr[2] + q.A.X + q.A.Y + q.Cs[1] + r.X*100 + r.Y + ps[0].X + ps[1].X*1000 + ps[1].Y
}
