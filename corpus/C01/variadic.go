package main

// variadic calls, append/copy forms, min/max/clear, tuple assignment, op-assign evaluated once

//c01:global G0 int 0
//c01:entry v0(int,int) int,int
//c01:entry v1(int) int,int
//c01:entry v2(int,int) int,int,int
//c01:entry v3(int,string) int,string
//c01:entry v4(int) int,int

var G0 int = 0

func sum(base int, xs ...int) int {
	for _, x := range xs {
		base += x
	}
	if len(xs) > 0 {
		xs[0] = 99
	}
	return base
}

func idx(k int) int {
	obsI(k)
	G0++
	return k
}

func two(a int) (int, int) { return a + 1, a * 2 }

func v0(a, b int) (int, int) {
	xs := []int{a, b}
	s1 := sum(1)
	s2 := sum(1, a, b)
	s3 := sum(1, xs...)
	return s1 + s2*10 + s3*100, xs[0]
}

func v1(a int) (int, int) {
	arr := [4]int{1, 2, 3, 4}
	arr[idx(a&3)] += 10
	arr[idx((a+1)&3)]++
	s := arr[:]
	s[idx(0)], s[idx(1)] = s[1], s[0]
	x, y := two(a)
	x, y = y, x+y
	return arr[0]*1000 + arr[1]*100 + arr[2]*10 + arr[3], x - y
}

func v2(a, b int) (int, int, int) {
	m := min(a, b, 3)
	M := max(a, b)
	s := []int{a, b, 7}
	clear(s[:2])
	t := make([]int, 2, 5)
	n := copy(t, s[1:])
	t = append(t, s...)
	return m*100 + M, n*10 + len(t), t[1] + t[4]
}

func v3(a int, s string) (int, string) {
	ss := []string{s}
	ss = append(ss, "b", "c")
	ss = append(ss[:1:1], ss[2:]...)
	f := func(parts ...string) string {
		r := ""
		for i := len(parts) - 1; i >= 0; i-- {
			r += parts[i]
		}
		return r
	}
	return len(ss) + a, f(ss...) + f() + min(s, "m")
}

func v4(a int) (int, int) {
	i := a & 1
	xs := []int{10, 20, 30}
	i, xs[i] = 2, i+5 // index evaluated before the assignments
	p := &xs[0]
	*p, xs[0] = 1, 2
	return i, xs[0]*10000 + xs[1]*100 + xs[2]
}
