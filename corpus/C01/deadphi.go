package main

// variables that are assigned on some paths and never read afterwards: their phis are trivial or dead
// and must disappear from the lifted form (a phi that stays behind refers to removed phis)

//c01:global G0 int 0
//c01:entry p0(uint64,int) int
//c01:entry p1(int,int) int,int
//c01:entry p2(int,string) int

var G0 int = 0

func p0(a1 uint64, c int) int {
	k := 3
	if c > 0 {
		a1++
	} else if c < 0 {
		obsI(1)
	} else {
		obsI(2)
	}
	switch c & 3 {
	default:
		obsI(3)
	case 0:
		if c == 8 {
			a1 = a1
		}
		obsI(4)
	case 1:
		obsI(5)
	}
	return c + k
}

func p1(a, b int) (int, int) {
	x, y := a, b
	for i := 0; i < 3; i++ {
		if i == a&3 {
			x = y
		} else {
			y = y + 0
		}
		if b > i {
			x, y = y, x
		}
	}
	z := x
	for j := 0; j < 2; j++ {
		if a > j {
			z = z
		}
		G0 += j
	}
	return x, y
}

func p2(a int, s string) int {
	t := s
	n := a
	for i := range 3 {
		switch {
		case i == a:
			t = t + "x"
		case i > a:
			n = n
		default:
			t = s
		}
		if len(s) > i {
			continue
		}
		n++
	}
	return n
}
