package main

// generic functions and types (instantiated with int, string, a struct and an interface).
// NI/LI = ir.InstantiateGenerics: the monomorphised bodies are executable; in the default modes
// generic bodies are only reached through instantiation wrappers and are not executable (SKIP).

//c01:modes N,L,NI,LI
//c01:global G0 int 0
//c01:entry g0(int,int) int,string
//c01:entry g1(int,string) int,string,bool
//c01:entry g2(int) int,int
//c01:entry g3(int,int) int,bool
//c01:entry g4(string,int) string,int

var G0 int = 0

type Num interface {
	~int | ~int8 | ~int64 | ~uint8
}

type MyInt int

func Sum[T Num](xs []T) T {
	var s T
	for _, x := range xs {
		s += x
	}
	return s
}

func Map[T, U any](xs []T, f func(T) U) []U {
	out := make([]U, 0, len(xs))
	for _, x := range xs {
		out = append(out, f(x))
	}
	return out
}

func Pick[T any](c bool, a, b T) T {
	if c {
		return a
	}
	return b
}

type Stack[T any] struct {
	items []T
	n     int
}

func (s *Stack[T]) Push(x T) {
	s.items = append(s.items[:len(s.items):len(s.items)], x)
	s.n++
}

func (s *Stack[T]) Pop() (T, bool) {
	var zero T
	if len(s.items) == 0 {
		return zero, false
	}
	x := s.items[len(s.items)-1]
	s.items = s.items[:len(s.items)-1]
	return x, true
}

type Pair[K comparable, V any] struct {
	Key K
	Val V
}

func Find[K comparable, V any](ps []Pair[K, V], k K) (V, bool) {
	for _, p := range ps {
		if p.Key == k {
			return p.Val, true
		}
	}
	var z V
	return z, false
}

func Max[T Num](a, b T) T {
	if a > b {
		return a
	}
	return b
}

func g0(a, b int) (int, string) {
	xs := []int{a, b, a + b}
	ys := []MyInt{MyInt(a), 3}
	s := Sum(xs) + int(Sum(ys))
	strs := Map(xs, func(x int) string {
		if x < 0 {
			return "n"
		}
		return "p"
	})
	r := ""
	for _, t := range strs {
		r += t
	}
	obsI(int(Sum([]int8{int8(a), 100, 100})))
	return s, r
}

func g1(a int, s string) (int, string, bool) {
	var st Stack[string]
	st.Push(s)
	st.Push(s + "x")
	var si Stack[int]
	for i := 0; i < a%4; i++ {
		si.Push(i * a)
	}
	x, ok := si.Pop()
	y, _ := st.Pop()
	obsI(si.n)
	return x, y, ok
}

func g2(a int) (int, int) {
	ps := []Pair[int, int]{{1, 10}, {2, 20}, {a, 30}}
	v, ok := Find(ps, a)
	if !ok {
		v = -1
	}
	qs := []Pair[string, Pair[int, int]]{{"a", ps[0]}, {"b", ps[1]}}
	w, _ := Find(qs, "b")
	return v, w.Val + Pick(a > 1, w.Key, -w.Key)
}

func g3(a, b int) (int, bool) {
	m := Max(a, b)
	n := Max(uint8(a), uint8(b))
	obsI(int(n))
	G0 += int(Max(MyInt(a), MyInt(3)))
	return m, Pick(a < b, true, false)
}

func g4(s string, a int) (string, int) {
	f := Pick[func(int) int](a > 0, func(x int) int { return x + 1 }, func(x int) int { return x - 1 })
	t := Pick(a%2 == 0, s, "odd")
	return t, f(a)
}
