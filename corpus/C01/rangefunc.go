package main

// range over func: break / continue / return / labels / nesting / two values

//c01:global G0 int 0
//c01:entry r0(int) int
//c01:entry r1(int,int) int,int
//c01:entry r2(int) int,string
//c01:entry r3(int) int
//c01:entry r4(int) int

var G0 int = 0

func upto(n int) func(func(int) bool) {
	return func(yield func(int) bool) {
		for i := 0; i < n; i++ {
			if !yield(i) {
				obsI(-i)
				return
			}
		}
		obsI(1000 + n)
	}
}

func pairs(s string) func(func(int, rune) bool) {
	return func(yield func(int, rune) bool) {
		for i, r := range s {
			if !yield(i, r) {
				return
			}
		}
	}
}

func ticks(yield func() bool) {
	for yield() && yield() {
		G0++
	}
}

func r0(a int) int {
	s := 0
	for i := range upto(5) {
		if i == a {
			continue
		}
		if i == a+2 {
			break
		}
		s += i + 1
	}
	return s
}

func r1(a, b int) (int, int) {
	s := 0
outer:
	for i := range upto(4) {
		for j := range upto(4) {
			if i+j == a {
				continue outer
			}
			if i*j == b {
				break outer
			}
			if j > i {
				break
			}
			s += i*10 + j
		}
		s += 100
	}
	return s, G0
}

func r2(a int) (int, string) {
	out := ""
	for i, r := range pairs("héllo") {
		if i == a {
			return i, out
		}
		out += string(r)
	}
	n := 0
	for range ticks {
		n++
		if n > a&7 {
			break
		}
	}
	return -n, out
}

func r3(a int) (r int) {
	defer func() {
		if e := recover(); e != nil {
			r = -100
		}
	}()
	for i := range upto(3) {
		defer func() { r += i }()
		if i == a {
			panic("in body")
		}
		if i+10 == a {
			goto out
		}
	}
	return 1
out:
	return 2
}

func r4(a int) int {
	x := 0
	for i := range upto(3) {
		f := func() int { x += i; return x }
		for j := range upto(2) {
			if f()+j > a {
				return x
			}
		}
	}
	return -x
}
