package main

// deferred calls made in the body of a range-over-func loop run when the ENCLOSING function
// returns (they are pushed on its defer stack by the synthesized yield function).

//c01:global G0 int 0
//c01:entry f0(int) int
//c01:entry f1(int) int
//c01:entry f2(int) int

var G0 int = 0

func seq(yield func(int) bool) {
	for i := 0; i < 3; i++ {
		if !yield(i) {
			return
		}
	}
}

func f0(a int) int {
	for x := range seq {
		defer obsI(x + a)
	}
	obsI(100)
	return a
}

func f1(a int) (r int) {
	x := 1
	for i := range seq {
		x += i
		if i == a {
			return x
		}
	}
	return -x
}

func f2(a int) (r int) {
	for i := range seq {
		defer func() {
			G0 += i
			r += G0
		}()
		if i == a {
			break
		}
	}
	obsI(G0)
	return a * 10
}
