package main

// control flow: goto, labels, fallthrough, switch forms, loop variables

//c01:global G0 int 0
//c01:entry k0(int,int) int
//c01:entry k1(int) int,int
//c01:entry k2(int,int) int,string
//c01:entry k3(int) int
//c01:entry k4(int,bool) int
//c01:entry k5(int) int,int
//c01:entry k6(int,int) int

var G0 int = 0

func k0(a, b int) int {
	s := 0
outer:
	for i := 0; i < 4; i++ {
		for j := range 4 {
			switch {
			case (i+j+a)%5 == 0:
				continue outer
			case (i*j+b)%7 == 3:
				break outer
			case j == 2:
				continue
			}
			s += i*10 + j
		}
		s += 1000
	}
	return s
}

func k1(a int) (int, int) {
	i, n := 0, 0
loop:
	if i < 5 {
		n += i * a
		i++
		if n > 20 {
			goto done
		}
		goto loop
	}
	n = -n
done:
	return i, n
}

func k2(a, b int) (int, string) {
	r := ""
	n := 0
	switch x := a % 6; x {
	case 0:
		r += "z"
		fallthrough
	case 1, 2:
		r += "a"
		n++
		if b > 0 {
			break
		}
		fallthrough
	default:
		r += "d"
		n += 10
	case 4:
		r += "4"
		fallthrough
	case 5:
		r += "5"
	}
	switch {
	case a > b, tb(a):
		n += 100
	case tb(b):
		n += 200
	}
	return n, r
}

func k3(a int) int {
	var fs []func() int
	for i := 0; i < 3; i++ {
		fs = append(fs, func() int { i += a; return i })
	}
	s := 0
	for _, f := range fs {
		s = s*7 + f() + f()
	}
	arr := [4]int{1, 2, 3, 4}
	for i, v := range &arr {
		arr[3-i] = v * 2
	}
	for i, v := range arr {
		arr[3-i] = v + s
		s += v
	}
	return s + arr[0]
}

func k4(a int, c bool) int {
	n := 0
	for i, j := 0, 10; i < j; i, j = i+1, j-2 {
		if c && i == a {
			break
		}
		n += i * j
	}
	for n < 100 {
		n += a&3 + 1
		if n%17 == 0 {
			continue
		}
		n++
	}
	for {
		n--
		if n%9 == 0 {
			break
		}
	}
	return n
}

func k5(a int) (int, int) {
	x, y := a, 0
	if x > 2 {
		goto L1
	}
	x += 5
	{
		z := x * 2
		y = z
	}
L1:
	y += x
	switch {
	default:
		y++
	}
	switch y & 1 {
	}
	return x, y
}

func k6(a, b int) int {
	n := 0
	// constant cases, tag with control flow of its own
	switch a > 0 && b > 0 {
	case true:
		n = 1
	case false:
		n = 2
	}
	switch a < 0 || tb(b) {
	case false:
		n += 10
	default:
		n += 20
	}
	switch x := a & 1; x == 1 && tb(a) || b == 3 {
	case true:
		n += 100
		fallthrough
	case false:
		n += 200
	}
	return n
}

func tb(k int) bool {
	obsI(k)
	return k%2 == 0
}
