package main

// integer arithmetic corner cases: shifts with mixed types, division, overflow, conversions, comparisons

//c01:entry x0(int,uint8) int,uint8,int8
//c01:entry x1(int64,int8) int64,int64,int8
//c01:entry x2(uint64,int) uint64,uint32,int
//c01:entry x3(int32,int32) int32,int32,bool
//c01:entry x4(int,int) int,int,bool
//c01:entry x5(uint16,int16) uint16,int16,int

func x0(a int, s uint8) (int, uint8, int8) {
	x := a << s
	y := uint8(a) >> (s & 15)
	z := int8(a) << (s % 9)
	x |= a >> s
	var big uint64 = 1 << 63
	x ^= 1 << (big >> 60) // shift count of type uint64
	return x, y<<1 | y>>7, z >> 1
}

func x1(a int64, b int8) (r0 int64, r1 int64, r2 int8) {
	defer func() {
		if recover() != nil {
			r2 = -128
		}
	}()
	r0 = a / int64(b|1)
	r1 = a % int64(b|1)
	m := int8(-128)
	r2 = m / (b | 1) // -128 / -1 wraps
	r2 += m % (b | 1)
	r2 = -r2
	r0 += a << uint(b&63)
	r1 = r1 >> b // negative signed shift count panics
	return
}

func x2(a uint64, b int) (uint64, uint32, int) {
	x := a*a + ^a
	y := uint32(a) * uint32(a>>7)
	z := int(a>>1) - b
	x &^= uint64(b)
	y -= uint32(b)
	if a > uint64(b) && b >= 0 {
		z = -z
	}
	return x / 3, y % 7, z / 2
}

func x3(a, b int32) (int32, int32, bool) {
	s := a + b
	d := a - b
	p := a * b
	ov := (s > a) == (b > 0)
	return s ^ d, p - (^b), ov
}

func x4(a, b int) (int, int, bool) {
	const k = 1<<40 + 3
	c := k * a
	kk := int64(k)
	d := int(int32(kk)) + b
	e := 7 / 2 * a
	f := -7 / 2
	g := -7 % 3
	h := 7 % -3
	return c + d, e*1000 + f*100 + g*10 + h, uint(a) < uint(b)
}

func x5(a uint16, b int16) (uint16, int16, int) {
	x := a + 65535
	y := b - 32767
	z := int(a) * int(b)
	x -= uint16(b)
	y += int16(a)
	x++
	y--
	return x, y, z + int(int16(x)) + int(uint16(y))
}
