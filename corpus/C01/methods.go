package main

// method values, method expressions, embedded structs and promoted methods (wrappers.go)

//c01:global G0 int 0
//c01:entry m0(int,int) int,int
//c01:entry m1(int) int,int,int
//c01:entry m2(int,string) int,string
//c01:entry m3(int) int,int
//c01:entry m4(int) int
//c01:entry m5(int,int) int,int
//c01:entry m6(int) int,string

var G0 int = 0

type Base struct {
	id int
	nm string
}

func (b Base) ID() int { return b.id }

func (b *Base) SetID(x int) { b.id = x; obsI(x) }

func (b Base) Name() string { return b.nm }

type Mid struct {
	Base
	extra int
}

func (m Mid) Extra() int { return m.extra + m.id }

type Top struct {
	*Mid
	tag string
}

type IDer interface {
	ID() int
}

type Setter interface {
	IDer
	SetID(int)
}

type Cnt int

func (c *Cnt) Inc(d int) int { *c += Cnt(d); return int(*c) }

func (c Cnt) Get() int { return int(c) }

func apply(f func(int) int, x int) int { return f(x) }

func m0(a, b int) (int, int) {
	var c Cnt = Cnt(a)
	inc := c.Inc // bound method value, receiver &c
	get := c.Get // receiver copied now
	inc(b)
	inc(1)
	obsI(get())
	f := (*Cnt).Inc
	f(&c, 10)
	g := Cnt.Get
	r := g(c) + apply(inc, 2)
	return int(c), r
}

func m1(a int) (int, int, int) {
	m := Mid{Base{a, "m"}, 5}
	m.SetID(a + 1) // promoted pointer method on addressable value
	var i IDer = m  // value method through embedding: wrapper
	var s Setter = &m
	s.SetID(i.ID() * 2)
	t := Top{&m, "t"}
	t.SetID(t.ID() + 1)
	var j IDer = t
	return i.ID(), j.ID(), m.Extra()
}

func m2(a int, s string) (int, string) {
	b := Base{a, s}
	idf := b.ID
	nf := Base.Name
	b.id = 99
	p := &b
	sf := p.SetID
	sf(a * 3)
	return idf() + b.id, nf(b)
}

func m3(a int) (int, int) {
	fs := []func() int{}
	cs := []Cnt{1, 2, 3}
	for i := range cs {
		fs = append(fs, cs[i].Get)
		cs[i].Inc(a)
	}
	s := 0
	for _, f := range fs {
		s = s*10 + f()
	}
	var ider IDer = &Mid{Base{a, ""}, 1}
	h := ider.ID
	return s, h()
}

func m4(a int) (r int) {
	var t Top // nil *Mid: promoted method through nil pointer panics
	defer func() {
		if e := recover(); e != nil {
			r = -1
		}
	}()
	if a > 0 {
		t.Mid = &Mid{Base{a, ""}, a}
	}
	return t.Extra()
}

type Wrap struct {
	IDer // embedded interface: promoted method dispatches dynamically
	n    int
}

type Deep struct {
	Wrap
	*Cnt
}

func m5(a, b int) (int, int) {
	w := Wrap{Base{a, "b"}, 1}
	c := Cnt(b)
	d := Deep{w, &c}
	d.Inc(2) // through embedded *Cnt
	f := d.ID  // bound through two levels of embedding, the second an interface
	d.IDer = Mid{Base{b, ""}, 0}
	g := Deep.ID // method expression on the outer struct
	h := (*Mid).SetID
	m := Mid{Base{1, ""}, 2}
	h(&m, a+b)
	var i IDer = d
	return f()*1000 + g(d)*10 + i.ID(), d.Get() + m.ID()
}

type Labeler interface{ Label(int) string }

type L1 struct{ pre string }

func (l L1) Label(k int) string { return l.pre + string(rune('a'+k%26)) }

type L2 struct {
	Labeler
	suffix string
}

func (l L2) Label(k int) string { return l.Labeler.Label(k) + l.suffix }

func m6(a int) (int, string) {
	if a < 0 {
		a = -a
	}
	var lb Labeler = L2{L2{L1{"<"}, "1"}, "2"}
	fs := []func(int) string{lb.Label, L1{"-"}.Label, nil}[:2]
	me := Labeler.Label
	out := me(lb, a+7)
	for i, f := range fs {
		out += f(a + i)
	}
	return len(out), out
}
