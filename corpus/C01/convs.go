package main

// conversions: string <-> []byte / []rune / rune, named types, integer widths

//c01:entry c0(string,int) string,int
//c01:entry c1(string) int,string
//c01:entry c2(int,uint8) string,int
//c01:entry c3(int64,int8) int,uint16,int32
//c01:entry c4(string,string) bool,int,string

type Str string
type Bytes []byte

func c0(s string, a int) (string, int) {
	b := []byte(s)
	if len(b) > 0 {
		b[0] = 'X'
	}
	b = append(b, "yz"...)
	t := string(b)
	n := copy(b, "q")
	return t + string(b[:1]), n + len(s) + a
}

func c1(s string) (int, string) {
	rs := []rune(s)
	n := 0
	for i, r := range rs {
		n += i * int(r)
	}
	for i := 0; i < len(rs)/2; i++ {
		rs[i], rs[len(rs)-1-i] = rs[len(rs)-1-i], rs[i]
	}
	return n, string(rs)
}

func c2(a int, b uint8) (string, int) {
	r := rune(a%26 + 'a')
	s := string(r) + string(rune(b))
	u := Str(s) + "!"
	bs := Bytes(u)
	return string(u), len(bs) + int(bs[0])
}

func c3(a int64, b int8) (int, uint16, int32) {
	x := int(uint8(a)) + int(b)
	y := uint16(a) + uint16(b)
	z := int32(a>>3) ^ int32(uint8(b))
	return x, y, z
}

func c4(s, t string) (bool, int, string) {
	eq := Str(s) == Str(t)
	n := 0
	for i := 0; i < len(s) && i < len(t); i++ {
		if s[i] == t[i] {
			n++
		}
	}
	var bb []byte
	bb = append(bb, s...)
	bb = append(bb, t...)
	return eq || s < t, n, string(bb[len(s):])
}
