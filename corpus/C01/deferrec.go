package main

// defer / panic / recover

//c01:global G0 int 0
//c01:global G1 string ""
//c01:entry d0(int) int,string
//c01:entry d1(int,int) int
//c01:entry d2(int) int,int
//c01:entry d3(int) int
//c01:entry d4(int,int) int,string
//c01:entry d5(int) int
//c01:entry d6(int) int

var G0 int = 0
var G1 string = ""

type Acc struct{ n int }

func (a *Acc) Add(d int) { a.n += d; obsI(a.n) }

func d0(a int) (r int, s string) {
	defer func() {
		if e := recover(); e != nil {
			if m, ok := e.(string); ok {
				s = "rec:" + m
			} else if k, ok := e.(int); ok {
				r = k * 2
				s = "int"
			} else {
				s = "other"
			}
		}
	}()
	for i := 0; i < 3; i++ {
		defer obsI(i*10 + a)
	}
	switch a % 4 {
	case 0:
		panic("zero")
	case 1:
		panic(a)
	case 2:
		var p *Acc
		p.n++
	}
	return a, "ok"
}

func d1(a, b int) (r int) {
	defer func() {
		r += 100
	}()
	defer func() {
		if recover() != nil {
			r = -1
		}
	}()
	xs := []int{1, 2, 3}
	return xs[a&3] / b
}

func d2(a int) (x, y int) {
	acc := &Acc{a}
	defer acc.Add(1)
	add := acc.Add
	defer add(10)
	defer func(k int) {
		x += k
		y = acc.n
	}(acc.n)
	acc.n *= 2
	return acc.n, 0
}

func thrower(a int) {
	defer func() {
		G0++
		if a == 2 {
			panic("second")
		}
	}()
	if a > 0 {
		panic("first")
	}
}

func d3(a int) (r int) {
	defer func() {
		e := recover()
		if e == "second" {
			r = 2
		} else if e == "first" {
			r = 1
		} else if e == nil {
			r = 0
		}
		r += G0 * 10
	}()
	thrower(a % 3)
	return 7
}

func d4(a, b int) (n int, s string) {
	defer func() {
		e := recover()
		if e != nil {
			s += "R"
			defer func() {
				if recover() != nil {
					s += "r2"
				}
			}()
			if a > b {
				panic("again")
			}
		}
		s += "D"
	}()
	if a != b {
		s = "p"
		panic(a - b)
	}
	return a, "n"
}

func d5(a int) int {
	n := 0
	func() {
		defer func() { n += 1 }()
		func() {
			defer func() { recover(); n += 10 }()
			if a > 0 {
				panic("x")
			}
			n += 100
		}()
		n += 1000
	}()
	return n
}

func rec(k int) (r int) {
	defer func() {
		if e := recover(); e != nil {
			r = e.(int) + k
			if k > 0 {
				panic(r)
			}
		}
	}()
	if k >= 3 {
		panic(0)
	}
	return rec(k+1) + 1
}

func d6(a int) int {
	if a < 0 {
		a = -a
	}
	return rec(a % 5)
}
