package main

// arrays, structs, slices of slices, value semantics, equality

//c01:global G0 int 0
//c01:entry a0(int,int) int,int
//c01:entry a1(int) int,bool,bool
//c01:entry a2(int,string) int,string
//c01:entry a3(int) int,int
//c01:entry a4(int,int) bool,bool,int
//c01:entry a5(int) int

var G0 int = 0

type P struct{ X, Y int }

type R struct {
	Min, Max P
	Tag      string
	Arr      [2]P
}

type Node struct {
	Val  int
	Next *Node
}

func mod(r R, d int) R {
	r.Min.X += d
	r.Arr[1].Y = d
	return r
}

func modp(r *R, d int) {
	r.Max.Y += d
	r.Arr[0] = P{d, d}
}

func a0(a, b int) (int, int) {
	r := R{Min: P{a, b}, Tag: "t"}
	r2 := mod(r, 5)
	modp(&r, 7)
	arr := [3][2]int{{1, 2}, {3, 4}}
	brr := arr
	brr[1][0] = a
	arr[2] = brr[1]
	return r.Min.X + r2.Min.X*10 + r.Max.Y*100 + r2.Arr[1].Y*1000 + r.Arr[0].X*10000, arr[2][0] + arr[1][0] + brr[1][1]
}

func a1(a int) (int, bool, bool) {
	p, q := P{a, 1}, P{1, a}
	rs := [2]R{{Tag: "x"}, {Tag: "x"}}
	rs[a&1].Arr[a&1].X = a
	eq := rs[0] == rs[1]
	var i, j any = p, q
	var k any = [2]int{a, 1}
	return p.X - q.Y, eq, i == j || k == [2]int{1, 1}
}

func a2(a int, s string) (int, string) {
	grid := [][]string{{"a"}, {}, {s, s + "!"}}
	grid[1] = append(grid[1], grid[2]...)
	grid[2][0] = "z"
	n := 0
	out := ""
	for i, row := range grid {
		for j := range row {
			n += i*3 + j + a
			out += row[j]
		}
	}
	return n, out
}

func a3(a int) (int, int) {
	var head *Node
	for i := 0; i < a%5+1; i++ {
		head = &Node{i * a, head}
	}
	s, n := 0, 0
	for p := head; p != nil; p = p.Next {
		s += p.Val
		n++
		if p.Next != nil {
			p.Next.Val++
		}
	}
	ps := []*P{{1, 2}, {3, 4}}
	ps[0], ps[1] = ps[1], ps[0]
	ps[0].X += a
	return s + ps[0].X, n + ps[1].Y
}

func a4(a, b int) (r1, r2 bool, n int) {
	defer func() {
		if recover() != nil {
			n = -1
		}
	}()
	var x, y any
	x, y = a, b
	r1 = x == y
	if a > 2 {
		x = []int{a}
		y = x
	}
	r2 = x != nil
	if x == y {
		n = 1
	}
	return
}

func a5(a int) int {
	type T struct {
		p *int
		a [2]*int
	}
	v := a
	t := T{p: &v}
	t.a[1] = t.p
	*t.a[1] += 5
	u := t
	w := 100
	u.p = &w
	*u.p += *t.p
	var z T
	if z.p == nil && z.a[0] == nil {
		w++
	}
	return v + w
}
