package main

// && || ! with side effects, conditions feeding phis, nested ifs, blockopt shapes

//c01:global G0 int 0
//c01:entry s0(int,int) bool,int
//c01:entry s1(int,bool,bool) int
//c01:entry s2(int) int,bool
//c01:entry s3(int,int) int
//c01:entry s4(bool,bool,bool) int,bool

var G0 int = 0

func t(k int) bool {
	obsI(k)
	return k%2 == 0
}

func s0(a, b int) (bool, int) {
	x := t(a) && t(b) || t(a+b) && !t(a*b)
	y := (a > 0 || t(1)) && (b > 0 || t(2) || t(3))
	n := 0
	if x && !y || t(a-b) {
		n = 1
	} else if !(x || y) {
		n = 2
	}
	z := x != y
	return z, n
}

func s1(a int, p, q bool) int {
	n := 0
	for i := 0; i < 3 && (p || i < a); i++ {
		if q && i == 1 {
			continue
		}
		n += i + 1
		p = p && !q
	}
	if p {
		if q {
			n += 10
		}
	} else {
	}
	if !p {
	}
	return n
}

func s2(a int) (int, bool) {
	var p *int
	ok := p != nil && *p > 0
	if a > 2 {
		p = &a
	}
	ok2 := p == nil || *p > 3
	v := 0
	if p != nil && (*p)&1 == 0 || ok {
		v = 5
	}
	return v, ok2
}

func s3(a, b int) int {
	r := 0
	if a > 0 {
		if b > 0 {
			r = 1
		} else {
			r = 2
		}
	} else {
		if b > 0 {
			r = 3
		}
	}
	if a > b {
		return r
	}
	if a == b {
		return r * 10
	}
	return r * 100
}

func s4(a, b, c bool) (int, bool) {
	n := 0
	if a {
		n |= 1
	}
	if a && b {
		n |= 2
	}
	if a || b && c {
		n |= 4
	}
	d := a
	if b {
		d = c
	}
	e := !d
	if c {
		e = d || a
	}
	return n, e && (a || !b)
}
