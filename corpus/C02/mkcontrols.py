#!/usr/bin/env python3
"""Regenerates corpus/C02/controls.txt (validator self-test of checks/c02.py).

    python3 corpus/C02/mkcontrols.py <c02dump binary> > corpus/C02/controls.txt

Two real dumps (c02dump, mode "-") are the accepted bases:
  base1  func f(n int, p *int) int { s := 0; for i := 0; i < n; i++ { s += i }; *p = s; return s }
  base2  func sw(x int, s string) T { switch x { case 1: return T{a: x}; case 2, 3: return T{x, 2} }; return T{} }
every other line is a single structural edit of one of them together with the verdict the
validator must give.  The script parses the case line of harness/internal/c02ir into a
structure, edits it, and serialises it again.
"""
import copy
import os
import subprocess
import sys
import tempfile

SRC = '''package p

type T struct{ a, b int }

func f(n int, p *int) int { s := 0; for i := 0; i < n; i++ { s += i }; *p = s; return s }

func sw(x int, s string) T {
	switch x {
	case 1:
		return T{a: x}
	case 2, 3:
		return T{x, 2}
	}
	return T{}
}
'''


def plist(t, i):
    k = int(t[i])
    return t[i + 1:i + 1 + k], i + 1 + k


def prefs(t, i):
    if t[i] == "~":
        return None, i + 1
    return plist(t, i)


def parse(case):
    t = case.split(" ")
    assert t[0] == "chk"
    nb, ni, nv, nt = map(int, t[1:5])
    d = {"recover": t[5]}
    i = 6
    d["results"], i = plist(t, i)
    d["params"], i = plist(t, i)
    d["sig"], i = plist(t, i)
    d["free"], i = plist(t, i)
    d["locals"], i = plist(t, i)
    d["naive"] = t[i]
    i += 1
    assert t[i] == "T"
    i += 1
    d["types"] = []
    for _ in range(nt):
        e = t[i:i + 5]
        kids, i = plist(t, i + 5)
        d["types"].append((e, kids))
    assert t[i] == "V"
    i += 1
    d["vals"] = []
    for _ in range(nv):
        e = t[i:i + 2]
        refs, i = prefs(t, i + 2)
        d["vals"].append([e, refs])
    assert t[i] == "B"
    i += 1
    d["blocks"] = []
    for _ in range(nb):
        idx = t[i]
        preds, i = plist(t, i + 1)
        succs, i = plist(t, i)
        d["blocks"].append({"index": idx, "preds": preds, "succs": succs, "n": int(t[i])})
        i += 1
    assert t[i] == "I"
    i += 1
    d["instrs"] = []
    for _ in range(ni):
        ins = {"kind": t[i], "ty": t[i + 1], "blk": t[i + 2], "id": t[i + 3], "a": t[i + 4], "b": t[i + 5], "c": t[i + 6]}
        ins["xs"], i = plist(t, i + 7)
        ins["ops"], i = plist(t, i)
        ins["fops"], i = plist(t, i)
        ins["refs"], i = prefs(t, i)
        d["instrs"].append(ins)
    assert i == len(t)
    return d


def ser(d):
    def L(xs):
        return [str(len(xs))] + list(xs)

    def R(r):
        return ["~"] if r is None else L(r)
    o = ["chk", str(len(d["blocks"])), str(len(d["instrs"])), str(len(d["vals"])), str(len(d["types"])), d["recover"]]
    o += L(d["results"]) + L(d["params"]) + L(d["sig"]) + L(d["free"]) + L(d["locals"]) + [d["naive"]]
    o.append("T")
    for e, kids in d["types"]:
        o += list(e) + L(kids)
    o.append("V")
    for e, refs in d["vals"]:
        o += list(e) + R(refs)
    o.append("B")
    for b in d["blocks"]:
        o += [b["index"]] + L(b["preds"]) + L(b["succs"]) + [str(b["n"])]
    o.append("I")
    for ins in d["instrs"]:
        o += [ins["kind"], ins["ty"], ins["blk"], ins["id"], ins["a"], ins["b"], ins["c"]] + L(ins["xs"]) + L(ins["ops"]) + L(ins["fops"]) + R(ins["refs"])
    return " ".join(o)


def both(ins, f):
    ins["ops"] = f(list(ins["ops"]))
    ins["fops"] = f(list(ins["fops"]))


def main():
    tool = sys.argv[1]
    with tempfile.TemporaryDirectory() as td:
        p = os.path.join(td, "ctl.go")
        open(p, "w").write(SRC)
        out = subprocess.run([tool, "-modes", "-", "-src", p], stdout=subprocess.PIPE, text=True, check=True).stdout
    names, cases = {}, {}
    for line in out.splitlines():
        t = line.split(" ", 3)
        if t[0] == "F":
            names[t[1]] = bytes.fromhex(line.split(" ")[3]).decode()
        elif t[0] == "C":
            cases[names[t[1]].rsplit(".", 1)[-1]] = line.split(" ", 2)[2]
    b1, b2 = parse(cases["f"]), parse(cases["sw"])
    assert ser(b1) == cases["f"] and ser(b2) == cases["sw"]
    ni = len(b1["instrs"])
    rows = []

    def add(name, want, base, edit):
        d = copy.deepcopy(base)
        edit(d)
        rows.append("%s %s %s" % (name, want, ser(d)))

    I = lambda d, k: d["instrs"][k]
    # base1: instructions  0 Jump | 1 Phi s  2 Phi i  3 BinOp i<n  4 If | 5 BinOp s+i  6 BinOp i+1  7 Jump | 8 Store  9 Return
    # values: 10 n, 11 p, 12.. constants
    add("accepted", "ok", b1, lambda d: None)
    add("phi-edge-not-dominated", "fail:defs-dominate-uses", b1, lambda d: (both(I(d, 1), lambda o: ["5", "5"]), I(d, 5).__setitem__("refs", ["1"]), d["vals"][2].__setitem__(1, None)))
    add("use-not-dominated", "fail:defs-dominate-uses", b1, lambda d: (both(I(d, 9), lambda o: ["5"]), I(d, 1).__setitem__("refs", ["5", "8"]), I(d, 5).__setitem__("refs", ["1", "9"])))
    add("use-before-def-in-block", "fail:defs-dominate-uses", b1, lambda d: (both(I(d, 5), lambda o: ["6", "2"]), I(d, 6).__setitem__("refs", ["2", "5"]), I(d, 1).__setitem__("refs", ["8", "9"])))
    add("phi-type", "fail:typing", b1, lambda d: I(d, 2).__setitem__("ty", "2"))
    add("pred-missing", "fail:cfg-inverse,phis,defs-dominate-uses", b1, lambda d: d["blocks"][1].__setitem__("preds", ["0"]))
    add("jump-two-succs", "fail:cfg-inverse,terminators", b1, lambda d: d["blocks"][0].__setitem__("succs", ["1", "1"]))
    add("referrer-missing", "fail:refs-inverse", b1, lambda d: I(d, 5).__setitem__("refs", []))
    add("referrer-stale", "fail:refs-inverse", b1, lambda d: I(d, 5).__setitem__("refs", ["1", "9"]))
    add("wrong-block-pointer", "fail:shape", b1, lambda d: I(d, 5).__setitem__("blk", "1"))
    add("duplicate-id", "fail:shape", b1, lambda d: I(d, 5).__setitem__("id", I(d, 6)["id"]))
    add("arith-yields-bool", "fail:typing", b1, lambda d: I(d, 5).__setitem__("ty", "2"))
    add("block-index", "fail:shape", b1, lambda d: d["blocks"][2].__setitem__("index", "3"))
    add("terminator-mid-block", "fail:terminators", b1, lambda d: I(d, 5).__setitem__("kind", "Jump") or both(I(d, 5), lambda o: []) or I(d, 5).__setitem__("ty", "-") or I(d, 5).__setitem__("refs", None)
        or both(I(d, 1), lambda o: [o[0], "6"]) or I(d, 6).__setitem__("refs", ["1", "2"]) or I(d, 1).__setitem__("refs", ["3", "8", "9"][1:] ) or I(d, 2).__setitem__("refs", ["3", "6"]))
    # clause 8: Operands() vs the fields of the struct
    add("field-operand-forgotten", "fail:operands-complete", b1, lambda d: I(d, 3).__setitem__("fops", I(d, 3)["fops"] + ["5"]))
    add("field-operand-dangling", "fail:operands-complete", b1, lambda d: (d["vals"].append([["dangling", "0"], []]), I(d, 8).__setitem__("fops", I(d, 8)["fops"] + [str(ni + len(d["vals"]) - 1)])))
    add("field-operands-reordered", "ok", b1, lambda d: I(d, 3).__setitem__("fops", I(d, 3)["fops"][::-1]))
    add("operand-dangling", "fail:defs-dominate-uses", b1, lambda d: (d["vals"].append([["dangling", "0"], ["9"]]), both(I(d, 9), lambda o: [str(ni + len(d["vals"]) - 1)]), I(d, 1).__setitem__("refs", ["5", "8"])))
    # clause 9: function level
    add("params-swapped", "fail:function", b1, lambda d: d.__setitem__("params", d["params"][::-1]))
    add("param-not-listed", "fail:function", b1, lambda d: (d.__setitem__("params", d["params"][:1]), d.__setitem__("sig", d["sig"][:1])))
    add("param-count", "fail:function", b1, lambda d: d.__setitem__("sig", d["sig"][:1]))
    add("local-in-no-block-lifted", "fail:function", b1, lambda d: d.__setitem__("locals", ["-"]))
    add("local-in-no-block-naive", "ok", b1, lambda d: (d.__setitem__("locals", ["-"]), d.__setitem__("naive", "1")))
    add("local-not-an-alloc", "fail:function", b1, lambda d: d.__setitem__("locals", ["5"]))
    # base2: 0 ConstantSwitch x [1 2 3 nil] | 1 CompositeValue 2 Return | 3 CompositeValue 4 Return | 5 Jump | 6 Jump | 7 Return
    add("accepted-switch", "ok", b2, lambda d: None)
    px = b2["params"][0]
    add("switch-cond-not-constant", "fail:typing", b2, lambda d: both(I(d, 0), lambda o: [o[0], px] + o[2:]))
    add("switch-two-defaults", "fail:typing", b2, lambda d: both(I(d, 0), lambda o: o[:3] + ["-", "-"]))
    add("switch-cond-of-other-type", "fail:typing", b2, lambda d: d["vals"][int(I(d, 0)["ops"][1]) - len(d["instrs"])][0].__setitem__(1, "1"))
    add("switch-successor-count", "fail:terminators", b2, lambda d: (both(I(d, 0), lambda o: o[:4]), I(d, 0).__setitem__("a", "3")))
    add("composite-missing-field", "fail:typing", b2, lambda d: (both(I(d, 1), lambda o: o[:1]), I(d, 1).__setitem__("a", "1")))
    add("composite-field-type", "fail:typing", b2, lambda d: d["vals"][int(I(d, 3)["ops"][1]) - len(d["instrs"])][0].__setitem__(1, "1"))
    print("# validator self-test: <name> <expected verdict> <case line>; generated by corpus/C02/mkcontrols.py from the real dumps of")
    print("# func f(n int, p *int) int { s := 0; for i := 0; i < n; i++ { s += i }; *p = s; return s } and")
    print("# func sw(x int, s string) T { switch x { case 1: return T{a: x}; case 2, 3: return T{x, 2} }; return T{} } by single edits")
    for r in rows:
        print(r)


if __name__ == "__main__":
    main()
