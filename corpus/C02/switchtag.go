// Constant-case switches whose tag expression creates control flow of its own
// (short-circuit operators, function literals called in place): the ConstantSwitch must
// end the block that is current AFTER the tag has been evaluated.
package p

func andTag(a, b bool) int {
	switch a && b {
	case true:
		return 1
	}
	return 0
}

func orTag(a, b bool, n int) int {
	switch x := n; a || (b && x > 0) {
	case true:
		return 1
	case false:
		return 2
	default:
		return 3
	}
}

func nestedTag(a, b bool, s []int) int {
	for _, v := range s {
		switch (a && v > 0) || (b && v < 0) {
		case false:
			continue
		case true:
			return v
		}
	}
	return 0
}

func litTag(a, b bool) int {
	switch func() bool { return a && b }() {
	case true:
		return 1
	}
	return 0
}

func intTag(a bool, x, y int) string {
	switch f := func() int {
		if a && x > y {
			return x
		}
		return y
	}; f() {
	case 1:
		return "one"
	case 2, 3:
		return "few"
	}
	return "many"
}
