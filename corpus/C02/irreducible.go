// Fixed C02 regression inputs: goto-built irreducible control flow with locals that
// escape on some paths only (split allocs), named results with recover, per-iteration
// loop variables, range-over-func bodies with non-local exits, generics.
package p

type T struct {
	a, b int
	n    *T
}

type I interface{ M(int) int }

func (t T) M(x int) int   { return t.a + x }
func (t *T) P(x int) int  { t.a += x; return t.b }
func escape(p *int) int   { *p++; return *p }
func g(x int) int         { return x + 1 }
func id[X any](v X) X     { return v }
func use(vs ...any)       {}

type Num interface{ ~int | ~int64 }

func sum[X Num](xs []X) (t X) {
	for _, x := range xs {
		t += x
	}
	return
}

// two entries into the loop {L1, L2}; x escapes only on the L2 side
func irr1(a, b int, p bool) int {
	var x, y int
	if p {
		goto L2
	}
L1:
	x += a
	y = x * 2
	if y > b {
		goto done
	}
L2:
	y += escape(&x)
	if x < b {
		goto L1
	}
done:
	return x + y
}

// goto into the middle of a hand-built loop whose variables are captured by a closure
func irr2(a, b int, p, q bool) (r int) {
	var x, i int
	var f func() int
	if p {
		goto inside
	}
loop:
	if !(i < a) {
		goto out
	}
	x += i
inside:
	if q {
		f = func() int { return x + i }
	}
	x ^= b
	if x > 100 {
		goto out
	}
	i++
	goto loop
out:
	if f != nil {
		r = f()
	}
	return r + x
}

// switch-driven state machine: every state can reach every other one
func irr3(a int, s string) (n int, err error) {
	var t T
	var pt *T
	st := a & 3
L0:
	switch st {
	case 0:
		t.a++
		st = 1
		goto L1
	case 1:
		goto L2
	default:
		goto L3
	}
L1:
	n += t.a
	if n > 10 {
		pt = &t
		goto L3
	}
	st = 2
	goto L0
L2:
	t.b = len(s)
	if pt != nil {
		pt.a = n
	}
	st = 3
	if n%2 == 0 {
		goto L1
	}
	goto L0
L3:
	if pt != nil && pt.a > 3 {
		return pt.a, nil
	}
	return n + t.b, err
}

// named results reloaded in the recover block
func rec1(a int, xs []int) (r int, err error) {
	defer func() {
		if v := recover(); v != nil {
			r = -1
			err, _ = v.(error)
		}
	}()
	var x int
L:
	for i, v := range xs {
		x += v
		if x > a {
			r = escape(&x)
			continue L
		}
		if i > 3 {
			panic("big")
		}
	}
	return r + x, nil
}

// per-iteration loop variables: address taken, captured, deferred
func loopvars(n int, xs []int) (fs []func() int, ps []*int) {
	for i := 0; i < n; i++ {
		if i%2 == 0 {
			fs = append(fs, func() int { return i })
		} else {
			ps = append(ps, &i)
		}
		defer func() { n += i }()
	}
	for i, v := range xs {
		if v > i {
			ps = append(ps, &v)
			continue
		}
		fs = append(fs, func() int { return v + i })
	}
	return
}

// range-over-func bodies with break, continue, goto, return and defer
func rangefunc(seq func(func(int) bool), seq2 func(func(int, string) bool), lim int) (r int, s string) {
	var x int
	defer func() { r += x }()
outer:
	for i := range seq {
		if i > lim {
			break
		}
		for j, t := range seq2 {
			x += j
			switch {
			case j == i:
				continue outer
			case j > lim:
				break outer
			case len(t) > 3:
				goto done
			case j < 0:
				return j, t
			}
			defer g(j)
			s += t
		}
		x = escape(&x)
	}
done:
	return x, s
}

func short(a, b int, p, q bool, it I) int {
	x := a
	if p && (q || a > b) && it != nil {
		x = it.M(b)
	} else if !p || (a < b && q) {
		x = -x
	}
	for x > 0 && (p || x%3 != 0) {
		x--
	}
	return x
}

func sel(ch, ch2 chan int, done <-chan struct{}) (n int, ok bool) {
	var x int
	for {
		select {
		case v := <-ch:
			x += v
			if x > 10 {
				goto out
			}
		case v, more := <-ch2:
			if !more {
				return x, false
			}
			n = escape(&v)
		case ch <- x:
			continue
		case <-done:
			break
		default:
			x--
		}
		if x < -10 {
			break
		}
	}
out:
	return n + x, true
}

func tswitch(e any, it I) (r int) {
	switch v := e.(type) {
	case int:
		r = v
	case string, []byte:
		r = -1
		use(v)
	case I:
		r = v.M(1)
		fallthroughish(&r)
	case *T:
		if v == nil {
			goto none
		}
		r = v.P(2)
	case nil:
		r = 0
	default:
		r = it.M(3)
	}
	return
none:
	return -2
}

func fallthroughish(p *int) {
	switch *p {
	case 0:
		*p = 1
		fallthrough
	case 1:
		*p += 2
	case 2:
		break
	default:
		*p = 0
	}
}

func generic[X any, Y Num](xs []X, ys []Y, f func(X) Y) (t Y, first X) {
	var acc []Y
	for i, x := range xs {
		if i == 0 {
			first = id(x)
		}
		y := f(x)
		if y > 3 {
			acc = append(acc, y)
			continue
		}
		t += y
	}
	t += sum(acc) + sum(ys)
	var e any = first
	if _, ok := e.(Y); ok {
		t++
	}
	return
}

func callGeneric() (int, string, int64) {
	a, b := generic([]string{"x"}, []int{1}, func(s string) int { return len(s) })
	c, _ := generic([]T{{}}, []int64{2}, func(t T) int64 { return int64(t.a) })
	return a, b, c
}

func arrays(a [4]int, s []int, m map[string][]int, k string) (r [2]int, z []int) {
	p := &a
	for i := range p {
		p[i] += a[(i+1)&3]
	}
	q := (*[2]int)(s)
	r = [2]int(s)
	r[0] += q[1]
	m[k] = append(m[k], s[1:3:4]...)
	if v, ok := m[k]; ok && len(v) > 0 {
		z = v[:len(v)-1]
	}
	b := []byte(k)
	k2 := string(b[:1]) + string(rune(a[0]))
	z = append(z, len(k2), int(k2[0]))
	return
}

// a branch-local variable that escapes on one path through the branch; the join after
// the branch has a predecessor that never saw the variable (split alloc: the copy into
// the escaping cell must not be placed in that predecessor)
func splitjoin(a, b int, p, q bool) (r int) {
	var pp *int
	if p {
		y := a * 2
		y += b
		if q {
			pp = &y
		}
		y++
		r = y
	}
	for i := 0; i < a; i++ {
		z := T{a: i}
		if i == b {
			continue
		}
		if q && i > 2 {
			pp = &z.a
			break
		}
		z.b += i
		r += z.a + z.b
	}
	if pp != nil {
		r += *pp
	}
	return r
}

func splitgoto(a, b int, p bool) (r int) {
	var pp *int
	var x int
L0:
	if a > b {
		v := x + a
		if p {
			pp = &v
		}
		v += b
		x = v
		if x < 100 {
			a--
			goto L0
		}
	}
	if b > 10 {
		w := [4]int{a, b}
		if !p {
			pp = &w[1]
			goto L1
		}
		w[2] = x
		r = w[a&3]
	}
L1:
	if pp != nil {
		r += *pp
	}
	b--
	if b > 0 {
		goto L0
	}
	return r + x
}
