package p

// An unexported function and variable that only the in-package test file uses: reported
// without tests, not reported (and needed) with tests.

func onlyTest() int { return counter }

var counter int

func nowhere() int { return 1 }

func Exported() int { return 2 }
