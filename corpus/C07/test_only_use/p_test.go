package p

// exported, hence used (rule 1.2): the only user of onlyTest and, through it, of counter
func UseOnly() int { return onlyTest() }

func helperUsedByNobody() int { return nowhere() }

var Sink = Exported()
