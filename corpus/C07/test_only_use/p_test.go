package p

func helperUsedByNobody() int { return onlyTest() }

var sink = Exported()
