package p

// Minimised from seeded change C07-1-1: a function-LOCAL struct type that satisfies an
// interface only through the method promoted from an embedded field (rules 6.3 / 8.2).
// The embedded field, its type and the method are needed by the implicit conversion.

type stepper interface{ step() int }

type base struct{ n int }

func (b base) step() int { return b.n }

func drive(s stepper) int { return s.step() }

func Run() int {
	type wrapper struct {
		base
		tag string
	}
	w := wrapper{tag: "x"}
	_ = w.tag
	return drive(w)
}

func reallyUnused() {}
