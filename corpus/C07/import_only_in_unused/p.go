package p

import (
	"math/bits"
	"unicode/utf8"
)

// The only users of both imports are unused: deleting them leaves "imported and not used",
// which the statement exempts.

func width(r rune) int { return utf8.RuneLen(r) }

var lead = bits.LeadingZeros8(1)

func Keep() int { return 1 }
