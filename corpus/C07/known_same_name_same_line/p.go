package p

// KNOWN FINDING key=unusedkey-no-column: lintcmd's merge key is (package, file base, line,
// name) — no column, no kind.  The Used parameter `spare` masks the zero-reference
// package-level variable `spare` declared on the same line: unused.Analyzer's Result has the
// variable as Unused, the staticcheck binary does not print it.

func Use(spare int) int { return spare }; var spare = 3
