package p

// Minimised from seeded change C07-1-3: several objects declared on ONE line, one used, the
// others without any reference.  Only the staticcheck binary (lintcmd's merge keyed by
// package, file, line and NAME) shows the difference.

var limit, spare = 10, 20

const lo, hi = 1, 2

type pair struct{ left, right int }; var dead int

func Limit() int { p := pair{}; return limit + lo + p.left }

func reallyUnused() {}
