package p

// Minimised from seeded change C07-1-2: one multi-value initialiser shared by two
// package-level variables; only the SECOND one is referred to.  The called function is
// needed as long as any of the names is kept.

func pair() (int, error) { return 1, nil }

var first, second = pair()

func Err() error { return second }

func localPair() (int, error) { return 2, nil }

func Local() error {
	var a, b = localPair()
	_ = a
	return b
}

func reallyUnused() {}
