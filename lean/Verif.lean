import Verif.Common.Proto
