import Verif.C16.Driver
def main : IO UInt32 := do
  Verif.Proto.runLines Verif.C16.step
  return 0
