namespace Verif.C16.Rw
def step (_ : List String) : String := "bad-op"
end Verif.C16.Rw
