/-
C16 (iv) driver: the rewrite functions of Verif.C16.Rewrite on expressions in a prefix
token encoding (shared with harness/cmd/c16apply, which runs the real
astutil.NegateDeMorgan / astutil.SimplifyParentheses on the same expressions).

  v N | n I | t | f | c F e | p P e e | ( e | ! e | && e e | || e e | == != < <= > >= e e | + e e | / e e

  rw negdm <0|1> e      -> encoding of negDM
  rw simplify e         -> encoding of simplify
  rw s1002 <==|!=> <t|f> e   -> encoding of the S1002 replacement
  rw qf1001 <0|1> <0|1> <0|1> e  -> encoding of the QF1001 replacement of `!e`, or "none"
-/
import Verif.C16.Rewrite
namespace Verif.C16.Rw

def parseCmp : String → Option CmpOp
  | "==" => some .eq | "!=" => some .ne | "<" => some .lt | "<=" => some .le | ">" => some .gt | ">=" => some .ge
  | _ => none

def parseExpr : Nat → List String → Option (Expr × List String)
  | 0, _ => none
  | _ + 1, [] => none
  | fuel + 1, tok :: rest =>
    match tok with
    | "t" => some (.lit (.bool true), rest)
    | "f" => some (.lit (.bool false), rest)
    | "v" => match rest with
      | n :: r => n.toNat?.map fun n => (.var n, r)
      | [] => none
    | "n" => match rest with
      | n :: r => n.toInt?.map fun n => (.lit (.int n), r)
      | [] => none
    | "c" => match rest with
      | f :: r => do
        let f ← f.toNat?
        let (a, r) ← parseExpr fuel r
        pure (.call f a, r)
      | [] => none
    | "p" => match rest with
      | p :: r => do
        let p ← p.toNat?
        let (a, r) ← parseExpr fuel r
        let (b, r) ← parseExpr fuel r
        pure (.prim p a b, r)
      | [] => none
    | "(" => do let (e, r) ← parseExpr fuel rest; pure (.paren e, r)
    | "!" => do let (e, r) ← parseExpr fuel rest; pure (.not e, r)
    | "&&" => do let (a, r) ← parseExpr fuel rest; let (b, r) ← parseExpr fuel r; pure (.and a b, r)
    | "||" => do let (a, r) ← parseExpr fuel rest; let (b, r) ← parseExpr fuel r; pure (.or a b, r)
    | "+" => do let (a, r) ← parseExpr fuel rest; let (b, r) ← parseExpr fuel r; pure (.add a b, r)
    | "/" => do let (a, r) ← parseExpr fuel rest; let (b, r) ← parseExpr fuel r; pure (.div a b, r)
    | op => do
      let op ← parseCmp op
      let (a, r) ← parseExpr fuel rest
      let (b, r) ← parseExpr fuel r
      pure (.cmp op a b, r)

def showCmp : CmpOp → String
  | .eq => "==" | .ne => "!=" | .lt => "<" | .le => "<=" | .gt => ">" | .ge => ">="

def showExpr : Expr → String
  | .lit (.bool true) => "t"
  | .lit (.bool false) => "f"
  | .lit (.int n) => s!"n {n}"
  | .var x => s!"v {x}"
  | .call f a => s!"c {f} {showExpr a}"
  | .prim p a b => s!"p {p} {showExpr a} {showExpr b}"
  | .paren e => s!"( {showExpr e}"
  | .not e => s!"! {showExpr e}"
  | .and a b => s!"&& {showExpr a} {showExpr b}"
  | .or a b => s!"|| {showExpr a} {showExpr b}"
  | .cmp op a b => s!"{showCmp op} {showExpr a} {showExpr b}"
  | .add a b => s!"+ {showExpr a} {showExpr b}"
  | .div a b => s!"/ {showExpr a} {showExpr b}"

def parseAll (ts : List String) : Option Expr :=
  match parseExpr (ts.length + 1) ts with
  | some (e, []) => some e
  | _ => none

def flag : String → Option Bool
  | "1" => some true | "0" => some false | _ => none

def step : List String → String
  | "negdm" :: r :: ts =>
    match flag r, parseAll ts with
    | some r, some e => showExpr (negDM r e)
    | _, _ => "bad-op"
  | "simplify" :: ts =>
    match parseAll ts with
    | some e => showExpr (simplify e)
    | none => "bad-op"
  | "s1002" :: op :: v :: ts =>
    match parseCmp op, (if v = "t" then some true else if v = "f" then some false else none), parseAll ts with
    | some op, some v, some e => match s1002 op v e with | some e' => showExpr e' | none => "none"
    | _, _, _ => "bad-op"
  | "qf1001" :: r :: si :: pa :: ts =>
    match flag r, flag si, flag pa, parseAll ts with
    | some r, some si, some pa, some e => match qf1001 r si pa e with | some e' => showExpr e' | none => "none"
    | _, _, _, _ => "bad-op"
  | _ => "bad-op"

end Verif.C16.Rw
