/-
C16 (iii) — applying a set of text edits (analysis.TextEdit: [start, stop) replaced by new).

Three ways of applying a set of edits are modelled:

* `applySorted` — the specification: one pass over the edits sorted by position, copying
  the untouched text between them (`spliceFrom`).
* `applyGo` — transliteration of the repository's own fix applier,
  `analysis/lint/testutil.applyEdits` (the code the golden-file tests run): sort the edits
  by (start, end), then patch a copy of the text in place while keeping a running
  `offset` (an `int`, here `Int`) by which all later edits are displaced.
  All five branches of the Go loop (pure deletion, pure insertion, exact replacement,
  longer, shorter) compute `out[:start] ++ new ++ out[end:]` and `offset += len(new) -
  (end-start)`; that common value is what `runGo` does.  (An edit without End is an
  insertion; the harness hands it over with `stop = start`.)
* `applySeq` — a client that applies the edits one after the other *in the order given*,
  re-basing the edits still to be applied after each step (`shift`).

Theorems.lean proves for edits within bounds and pairwise non-overlapping: the sorted
order is unique (so neither the listing order nor the stability of the sort can matter),
`applyGo` equals the specification, the length formula, and — for edit sets in which no
pure insertion touches another edit — that `applySeq` gives the same result in every
order (with a counterexample showing that this extra condition is needed for a re-basing
client).
-/
namespace Verif.C16

structure Edit (α : Type) where
  start : Nat
  stop : Nat
  new : List α
  deriving Repr, DecidableEq

variable {α : Type}

def applyOne (src : List α) (e : Edit α) : List α :=
  src.take e.start ++ e.new ++ src.drop e.stop

/-- `a` lies entirely before `b` (touching is allowed, but two empty edits at the same
offset are not ordered: their result would depend on the order). -/
def Edit.before (a b : Edit α) : Prop := a.stop ≤ b.start ∧ a.start < b.stop

instance (a b : Edit α) : Decidable (a.before b) := by unfold Edit.before; exact inferInstance

/-- "do not overlap" -/
def Edit.disjoint (a b : Edit α) : Prop := a.before b ∨ b.before a

instance (a b : Edit α) : Decidable (a.disjoint b) := by unfold Edit.disjoint; exact inferInstance

/-- The sort key of `testutil.applyEdits` (and of the harness): by start, then by end.
`le a b` is "not (b sorts strictly before a)". -/
def Edit.le (a b : Edit α) : Prop := a.start < b.start ∨ (a.start = b.start ∧ a.stop ≤ b.stop)

instance (a b : Edit α) : Decidable (a.le b) := by unfold Edit.le; exact inferInstance

/-- Re-base `x` after `a` has been applied: edits behind `a` move by the length change. -/
def shift (a x : Edit α) : Edit α :=
  if a.stop ≤ x.start ∧ a.start < x.stop then
    { x with start := x.start - (a.stop - a.start) + a.new.length,
             stop := x.stop - (a.stop - a.start) + a.new.length }
  else x

def applySeq (src : List α) : List (Edit α) → List α
  | [] => src
  | e :: rest => applySeq (applyOne src e) (rest.map (shift e))
termination_by es => es.length
decreasing_by simp

/-- One-pass splice; `pos` is how much of the original text has been consumed. Edits
must be sorted. -/
def spliceFrom (src : List α) (pos : Nat) : List (Edit α) → List α
  | [] => src.drop pos
  | e :: rest => (src.take e.start).drop pos ++ e.new ++ spliceFrom src e.stop rest

def applySorted (src : List α) (es : List (Edit α)) : List α := spliceFrom src 0 es

/-- Within bounds. -/
def Edit.inBounds (n : Nat) (e : Edit α) : Prop := e.start ≤ e.stop ∧ e.stop ≤ n

instance (n : Nat) (e : Edit α) : Decidable (e.inBounds n) := by unfold Edit.inBounds; exact inferInstance

/-- Well-formed edit set for a text of length `n`: the statement's "within one file's
bounds and do not overlap". -/
def WFEdits (n : Nat) (es : List (Edit α)) : Prop :=
  (∀ e ∈ es, e.inBounds n) ∧ es.Pairwise Edit.disjoint

instance (n : Nat) (es : List (Edit α)) : Decidable (WFEdits n es) := by unfold WFEdits; exact inferInstance

/-- Sorted chain: each edit lies before all later ones. -/
def SortedEdits (es : List (Edit α)) : Prop := es.Pairwise Edit.before

/-- insertion sort by (start, stop) -/
def insertEdit (e : Edit α) : List (Edit α) → List (Edit α)
  | [] => [e]
  | x :: xs => if e.le x then e :: x :: xs else x :: insertEdit e xs

def sortEdits : List (Edit α) → List (Edit α)
  | [] => []
  | e :: es => insertEdit e (sortEdits es)

/-- The loop of `testutil.applyEdits` over the sorted edits: `out` is the text patched so
far, `off` the running displacement. -/
def runGo : List α → Int → List (Edit α) → List α
  | out, _, [] => out
  | out, off, e :: rest =>
    let s := ((e.start : Int) + off).toNat
    let t := ((e.stop : Int) + off).toNat
    runGo (out.take s ++ e.new ++ out.drop t) (off + (e.new.length : Int) - ((e.stop : Int) - (e.start : Int))) rest

/-- `testutil.applyEdits`. -/
def applyGo (src : List α) (es : List (Edit α)) : List α := runGo src 0 (sortEdits es)

def inBoundsB (n : Nat) (es : List (Edit α)) : Bool := es.all fun e => e.start ≤ e.stop && e.stop ≤ n

/-- adjacent pairs of a sorted list do not overlap (`overlap` in the sense of the
statement: a later edit starts before the previous one stops) -/
def noOverlapSorted : List (Edit α) → Bool
  | [] => true
  | [_] => true
  | a :: b :: rest => a.stop ≤ b.start && noOverlapSorted (b :: rest)

/-- adjacent pairs are strictly ordered by `before` (no two empty edits at one offset) -/
def chainBefore : List (Edit α) → Bool
  | [] => true
  | [_] => true
  | a :: b :: rest => decide (a.before b) && chainBefore (b :: rest)

def totalNew (es : List (Edit α)) : Nat := (es.map fun e => e.new.length).sum
def totalOld (es : List (Edit α)) : Nat := (es.map fun e => e.stop - e.start).sum

/-- A pure insertion (empty range) that touches another edit.  Only relevant for clients
that apply edits one by one with re-basing (`applySeq`). -/
def Edit.apart (a b : Edit α) : Prop :=
  a.disjoint b ∧ (a.start = a.stop ∨ b.start = b.stop → a.stop < b.start ∨ b.stop < a.start)

instance (a b : Edit α) : Decidable (a.apart b) := by unfold Edit.apart; exact inferInstance

end Verif.C16
