/-
C16 (iii) — applying a set of text edits (analysis.TextEdit: [start, stop) replaced by new).

`applyOne` splices a single edit.  `applySeq` applies a list of edits one after the other
in the given order, re-basing the edits still to be applied after each step (`shift`) —
this is what any client does that applies edits sequentially.  `applySorted` is the usual
one-pass splice over edits sorted by position (what the harness does).  Theorems.lean
proves: for edits within bounds and pairwise non-overlapping the result of `applySeq` does
not depend on the order, equals `applySorted` on the sorted list, and has the expected
length.
-/
namespace Verif.C16

structure Edit (α : Type) where
  start : Nat
  stop : Nat
  new : List α
  deriving Repr

variable {α : Type}

def applyOne (src : List α) (e : Edit α) : List α :=
  src.take e.start ++ e.new ++ src.drop e.stop

/-- `a` lies entirely before `b` (touching is allowed, but two empty edits at the same
offset are not ordered: their result would depend on the order). -/
def Edit.before (a b : Edit α) : Prop := a.stop ≤ b.start ∧ a.start < b.stop

instance (a b : Edit α) : Decidable (a.before b) := by unfold Edit.before; exact inferInstance

def Edit.disjoint (a b : Edit α) : Prop := a.before b ∨ b.before a

instance (a b : Edit α) : Decidable (a.disjoint b) := by unfold Edit.disjoint; exact inferInstance

/-- Re-base `x` after `a` has been applied: edits behind `a` move by the length change. -/
def shift (a x : Edit α) : Edit α :=
  if a.stop ≤ x.start ∧ a.start < x.stop then
    { x with start := x.start - (a.stop - a.start) + a.new.length,
             stop := x.stop - (a.stop - a.start) + a.new.length }
  else x

def applySeq (src : List α) : List (Edit α) → List α
  | [] => src
  | e :: rest => applySeq (applyOne src e) (rest.map (shift e))
termination_by es => es.length
decreasing_by simp

/-- One-pass splice; `pos` is how much of the original text has been consumed. Edits
must be sorted. -/
def spliceFrom (src : List α) (pos : Nat) : List (Edit α) → List α
  | [] => src.drop pos
  | e :: rest => (src.take e.start).drop pos ++ e.new ++ spliceFrom src e.stop rest

def applySorted (src : List α) (es : List (Edit α)) : List α := spliceFrom src 0 es

/-- Within bounds. -/
def Edit.inBounds (n : Nat) (e : Edit α) : Prop := e.start ≤ e.stop ∧ e.stop ≤ n

instance (n : Nat) (e : Edit α) : Decidable (e.inBounds n) := by unfold Edit.inBounds; exact inferInstance

/-- Well-formed edit set for a text of length `n`. -/
def WFEdits (n : Nat) (es : List (Edit α)) : Prop :=
  (∀ e ∈ es, e.inBounds n) ∧ es.Pairwise Edit.disjoint

/-- Sorted chain: each edit lies before all later ones. -/
def SortedEdits (es : List (Edit α)) : Prop := es.Pairwise Edit.before

/-- insertion sort by (start, stop) -/
def insertEdit (e : Edit α) : List (Edit α) → List (Edit α)
  | [] => [e]
  | x :: xs => if e.start < x.start ∨ (e.start = x.start ∧ e.stop ≤ x.stop) then e :: x :: xs else x :: insertEdit e xs

def sortEdits : List (Edit α) → List (Edit α)
  | [] => []
  | e :: es => insertEdit e (sortEdits es)

def inBoundsB (n : Nat) (es : List (Edit α)) : Bool := es.all fun e => e.start ≤ e.stop && e.stop ≤ n

/-- adjacent pairs of a sorted list do not overlap (`overlap` in the sense of the
statement: a later edit starts before the previous one stops) -/
def noOverlapSorted : List (Edit α) → Bool
  | [] => true
  | [_] => true
  | a :: b :: rest => a.stop ≤ b.start && noOverlapSorted (b :: rest)

/-- adjacent pairs are strictly ordered by `before` (no two empty edits at one offset) -/
def chainBefore : List (Edit α) → Bool
  | [] => true
  | [_] => true
  | a :: b :: rest => decide (a.before b) && chainBefore (b :: rest)

def totalNew (es : List (Edit α)) : Nat := (es.map fun e => e.new.length).sum
def totalOld (es : List (Edit α)) : Nat := (es.map fun e => e.stop - e.start).sum

end Verif.C16
