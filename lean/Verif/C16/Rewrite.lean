/-
C16 (iv) — behaviour of the rewrite rules of the simplification / quick-fix checks.

An effectful expression language (the fragment of Go expressions the first batch of rules
rewrites): integer and boolean values, variables, calls of opaque functions (each call is
an observable event; what a call returns — or whether it panics — may depend on every
earlier event, so the functions may have arbitrary state), pure binary primitives
(strings.Index and friends, specified by hypotheses), parentheses, `!`, short-circuit
`&&` / `||`, the six comparisons, `+`, `/` (panics on a zero divisor).

`eval` returns the result (a value or a panic) and the trace of events, newest first.
Operands are evaluated left to right; `&&`/`||` skip their right operand as Go does.
Ill-typed applications (e.g. `!` of an integer) cannot occur in type-checked Go; they are
mapped to `panic` and excluded by the typing hypothesis `tyOf … = some …`.

The rewrite functions transliterate what the checks build (at AST level):
  `s1002`      simple/s1002 (comparison with a boolean constant; after the fix: a binary
               operand is parenthesised before it is negated; `!!` pairs are stripped)
  `negDM`      go/ast/astutil.NegateDeMorgan (quickfix/qf1001, qf1006)
  `stripParens` what SimplifyParentheses may do (remove redundant parentheses)
  `qf1007`     quickfix/qf1007 (`x := true; if c { x = false }` ⇒ `x := !c`)
  `s1003tab`   the `allowed` table of simple/s1003 (Index… compared with -1 / 0)
  `s1004`      simple/s1004 (bytes.Compare(a, b) ==/!= 0)
  `ifChain` / `tagSwitch`   quickfix/qf1003, qf1002 (if-else chain / tagless switch ⇒ tagged switch)
-/
namespace Verif.C16.Rw

inductive Ty | int | bool
  deriving DecidableEq, Repr

inductive Val
  | int (n : Int)
  | bool (b : Bool)
  deriving DecidableEq, Repr

def Val.ty : Val → Ty
  | .int _ => .int
  | .bool _ => .bool

inductive CmpOp | eq | ne | lt | le | gt | ge
  deriving DecidableEq, Repr

/-- the operator NegateDeMorgan substitutes -/
def CmpOp.neg : CmpOp → CmpOp
  | .eq => .ne | .ne => .eq | .lt => .ge | .ge => .lt | .gt => .le | .le => .gt

inductive Expr
  | lit (v : Val)
  | var (x : Nat)
  | call (f : Nat) (a : Expr)
  | prim (p : Nat) (a b : Expr)
  | paren (e : Expr)
  | not (e : Expr)
  | and (a b : Expr)
  | or (a b : Expr)
  | cmp (op : CmpOp) (a b : Expr)
  | add (a b : Expr)
  | div (a b : Expr)
  deriving Repr, DecidableEq

/-- an observable event: opaque function, argument, what it returned (`none`: it panicked) -/
structure Event where
  f : Nat
  arg : Val
  ret : Option Val
  deriving DecidableEq, Repr

/-- opaque functions: result (or `none` = panic) from the argument and the history -/
abbrev World := Nat → Val → List Event → Option Val
/-- pure primitives -/
abbrev Prims := Nat → Val → Val → Val

inductive Res
  | val (v : Val)
  | panic
  deriving DecidableEq, Repr

def cmpInt : CmpOp → Int → Int → Bool
  | .eq, a, b => decide (a = b)
  | .ne, a, b => decide (a ≠ b)
  | .lt, a, b => decide (a < b)
  | .le, a, b => decide (a ≤ b)
  | .gt, a, b => decide (a > b)
  | .ge, a, b => decide (a ≥ b)

def evalCmp (op : CmpOp) : Val → Val → Res
  | .int a, .int b => .val (.bool (cmpInt op a b))
  | .bool a, .bool b =>
    match op with
    | .eq => .val (.bool (a == b))
    | .ne => .val (.bool (a != b))
    | _ => .panic
  | _, _ => .panic

def evalNot : Val → Res
  | .bool b => .val (.bool (!b))
  | _ => .panic

def asBool : Val → Res
  | .bool b => .val (.bool b)
  | _ => .panic

def evalAdd : Val → Val → Res
  | .int a, .int b => .val (.int (a + b))
  | _, _ => .panic

def evalDiv : Val → Val → Res
  | .int a, .int b => if b = 0 then .panic else .val (.int (a / b))
  | _, _ => .panic

structure Sem where
  w : World
  p : Prims
  env : Nat → Val

def eval (s : Sem) : Expr → List Event → Res × List Event
  | .lit v, t => (.val v, t)
  | .var x, t => (.val (s.env x), t)
  | .call f a, t =>
    match eval s a t with
    | (.val v, t1) =>
      match s.w f v t1 with
      | some r => (.val r, ⟨f, v, some r⟩ :: t1)
      | none => (.panic, ⟨f, v, none⟩ :: t1)
    | (.panic, t1) => (.panic, t1)
  | .prim p a b, t =>
    match eval s a t with
    | (.val va, t1) =>
      match eval s b t1 with
      | (.val vb, t2) => (.val (s.p p va vb), t2)
      | (.panic, t2) => (.panic, t2)
    | (.panic, t1) => (.panic, t1)
  | .paren e, t => eval s e t
  | .not e, t =>
    match eval s e t with
    | (.val v, t1) => (evalNot v, t1)
    | (.panic, t1) => (.panic, t1)
  | .and a b, t =>
    match eval s a t with
    | (.val (.bool true), t1) =>
      match eval s b t1 with
      | (.val v, t2) => (asBool v, t2)
      | (.panic, t2) => (.panic, t2)
    | (.val (.bool false), t1) => (.val (.bool false), t1)
    | (.val (.int _), t1) => (.panic, t1)
    | (.panic, t1) => (.panic, t1)
  | .or a b, t =>
    match eval s a t with
    | (.val (.bool false), t1) =>
      match eval s b t1 with
      | (.val v, t2) => (asBool v, t2)
      | (.panic, t2) => (.panic, t2)
    | (.val (.bool true), t1) => (.val (.bool true), t1)
    | (.val (.int _), t1) => (.panic, t1)
    | (.panic, t1) => (.panic, t1)
  | .cmp op a b, t =>
    match eval s a t with
    | (.val va, t1) =>
      match eval s b t1 with
      | (.val vb, t2) => (evalCmp op va vb, t2)
      | (.panic, t2) => (.panic, t2)
    | (.panic, t1) => (.panic, t1)
  | .add a b, t =>
    match eval s a t with
    | (.val va, t1) =>
      match eval s b t1 with
      | (.val vb, t2) => (evalAdd va vb, t2)
      | (.panic, t2) => (.panic, t2)
    | (.panic, t1) => (.panic, t1)
  | .div a b, t =>
    match eval s a t with
    | (.val va, t1) =>
      match eval s b t1 with
      | (.val vb, t2) => (evalDiv va vb, t2)
      | (.panic, t2) => (.panic, t2)
    | (.panic, t1) => (.panic, t1)

/-! ### static types -/

structure Sig where
  var : Nat → Ty
  callArg : Nat → Ty
  callRet : Nat → Ty
  primA : Nat → Ty
  primB : Nat → Ty
  primRet : Nat → Ty

def tyOf (g : Sig) : Expr → Option Ty
  | .lit v => some v.ty
  | .var x => some (g.var x)
  | .call f a => if tyOf g a = some (g.callArg f) then some (g.callRet f) else none
  | .prim p a b => if tyOf g a = some (g.primA p) ∧ tyOf g b = some (g.primB p) then some (g.primRet p) else none
  | .paren e => tyOf g e
  | .not e => if tyOf g e = some .bool then some .bool else none
  | .and a b => if tyOf g a = some .bool ∧ tyOf g b = some .bool then some .bool else none
  | .or a b => if tyOf g a = some .bool ∧ tyOf g b = some .bool then some .bool else none
  | .cmp op a b =>
    if tyOf g a = some .int ∧ tyOf g b = some .int then some .bool
    else if tyOf g a = some .bool ∧ tyOf g b = some .bool ∧ (op = .eq ∨ op = .ne) then some .bool
    else none
  | .add a b => if tyOf g a = some .int ∧ tyOf g b = some .int then some .int else none
  | .div a b => if tyOf g a = some .int ∧ tyOf g b = some .int then some .int else none

/-- the environment, the opaque functions and the primitives respect the signature -/
structure SemOk (g : Sig) (s : Sem) : Prop where
  env : ∀ x, (s.env x).ty = g.var x
  call : ∀ f v t r, s.w f v t = some r → r.ty = g.callRet f
  prim : ∀ p a b, (s.p p a b).ty = g.primRet p

/-! ### the rewrite functions -/

def isBinary : Expr → Bool
  | .and _ _ | .or _ _ | .cmp _ _ _ | .add _ _ | .div _ _ => true
  | _ => false

/-- TrimLeft("!") + parity of simple/s1002 on the outermost negations. -/
def stripNots : Expr → Expr
  | .not (.not e) => stripNots e
  | e => e

/-- simple/s1002: `other` compared (`==` / `!=`) with the boolean constant `val`. -/
def s1002 (op : CmpOp) (val : Bool) (other : Expr) : Option Expr :=
  match op with
  | .eq => some (stripNots (if val then other else .not (if isBinary other then .paren other else other)))
  | .ne => some (stripNots (if val then .not (if isBinary other then .paren other else other) else other))
  | _ => none

/-- go/ast/astutil.NegateDeMorgan -/
def negDM (recursive : Bool) : Expr → Expr
  | .cmp op a b => .cmp op.neg a b
  | .and a b => .or (negDM recursive a) (negDM recursive b)
  | .or a b => .and (negDM recursive a) (negDM recursive b)
  | .paren e => if recursive then .paren (negDM recursive e) else .not (.paren e)
  | .not e => e
  | e => .not e

/-- removing parentheses (what SimplifyParentheses does where it applies) -/
def stripParens : Expr → Expr
  | .paren e => stripParens e
  | .not e => .not (stripParens e)
  | .and a b => .and (stripParens a) (stripParens b)
  | .or a b => .or (stripParens a) (stripParens b)
  | .cmp op a b => .cmp op (stripParens a) (stripParens b)
  | .add a b => .add (stripParens a) (stripParens b)
  | .div a b => .div (stripParens a) (stripParens b)
  | .call f a => .call f (stripParens a)
  | .prim p a b => .prim p (stripParens a) (stripParens b)
  | e => e

/-- left-nest a conjunction completely: `a && (b && (c && d))` ⇒ `((a && b) && c) && d` (the re-association step of
SimplifyParentheses, which — after the fix — is done for `&&` and `||` only) -/
def rotAnd (a : Expr) : Expr → Expr
  | .and b c => rotAnd (rotAnd a b) c
  | e => .and a e

def rotOr (a : Expr) : Expr → Expr
  | .or b c => rotOr (rotOr a b) c
  | e => .or a e

def rotAdd (a : Expr) : Expr → Expr
  | .add b c => rotAdd (rotAdd a b) c
  | e => .add a e

/-- go/ast/astutil.SimplifyParentheses: drop every ParenExpr (go/printer re-inserts the
ones precedence requires) and left-nest chains of one associative operator (after the
fix: `&&`, `||`, `+`, `*`, `&`, `|`, `^`; of these the language here has `&&`, `||`, `+`). -/
def simplify : Expr → Expr
  | .paren e => simplify e
  | .not e => .not (simplify e)
  | .and a b => rotAnd (simplify a) (simplify b)
  | .or a b => rotOr (simplify a) (simplify b)
  | .cmp op a b => .cmp op (simplify a) (simplify b)
  | .add a b => rotAdd (simplify a) (simplify b)
  | .div a b => .div (simplify a) (simplify b)
  | .call f a => .call f (simplify a)
  | .prim p a b => .prim p (simplify a) (simplify b)
  | e => e

/-- strip the parentheses around the operand of `!` (the pattern matcher looks through them) -/
def unparen : Expr → Expr
  | .paren e => unparen e
  | e => e

/-- quickfix/qf1001 on `!operand`: the four suggested fixes (recursive?, simplify?), each
wrapped in parentheses when the parent is an operator or a statement header (`parens`). -/
def qf1001 (recursive simp parens : Bool) (operand : Expr) : Option Expr :=
  match unparen operand with
  | .and a b =>
    let n := negDM recursive (.and a b)
    let n := if simp then simplify n else n
    some (if parens then .paren n else n)
  | .or a b =>
    let n := negDM recursive (.or a b)
    let n := if simp then simplify n else n
    some (if parens then .paren n else n)
  | .cmp op a b =>
    let n := negDM recursive (.cmp op a b)
    let n := if simp then simplify n else n
    some (if parens then .paren n else n)
  | _ => none

/-- quickfix/qf1007: the declared value `init`, overwritten by `!init` if `cond` holds.
Before: value of `x` after `x := init; if cond { x = !init }`; after: `x := cond` or `x := !cond`. -/
def qf1007 (init : Bool) (cond : Expr) : Expr := if init then .not cond else cond

/-- the `allowed` table of simple/s1003: (constant, operator, result is `Contains` (true) or `!Contains`) -/
def s1003tab : List (Int × CmpOp × Bool) :=
  [(-1, .gt, true), (-1, .ne, true), (-1, .eq, false), (0, .ge, true), (0, .lt, false)]

/-- simple/s1003 on `prim idx a b <op> c`: `cont` is the Contains… counterpart -/
def s1003 (cont : Nat) (op : CmpOp) (c : Int) (a b : Expr) : Option Expr :=
  match s1003tab.find? (fun e => e.1 == c && e.2.1 == op) with
  | some (_, _, true) => some (.prim cont a b)
  | some (_, _, false) => some (.not (.prim cont a b))
  | none => none

/-- simple/s1004 on `bytes.Compare(a, b) <op> 0` -/
def s1004 (equal : Nat) (op : CmpOp) (a b : Expr) : Option Expr :=
  match op with
  | .eq => some (.prim equal a b)
  | .ne => some (.not (.prim equal a b))
  | _ => none

/-! ### if-else chains and switches (quickfix/qf1003, qf1002) -/

/-- `x == y₁ || x == y₂ || …` -/
def orChain (x : Expr) : List Expr → Expr
  | [] => .lit (.bool false)
  | [y] => .cmp .eq x y
  | y :: ys => .or (.cmp .eq x y) (orChain x ys)

/-- Which branch an if-else chain `if x==y.. {0} else if x==y.. {1} … else {n}` takes
(`none`: falls through all of them), or a panic; `k` numbers the clauses. -/
def ifChain (s : Sem) (x : Expr) : List (List Expr) → Nat → List Event → (Option (Option Nat)) × List Event
  | [], _, t => (some none, t)
  | ys :: rest, k, t =>
    match eval s (orChain x ys) t with
    | (.val (.bool true), t1) => (some (some k), t1)
    | (.val (.bool false), t1) => ifChain s x rest (k + 1) t1
    | (_, t1) => (none, t1)

/-- compare the tag value with the case values in order -/
def matchCases (s : Sem) (v : Val) : List Expr → List Event → (Option Bool) × List Event
  | [], t => (some false, t)
  | y :: ys, t =>
    match eval s y t with
    | (.val vy, t1) =>
      match evalCmp .eq v vy with
      | .val (.bool true) => (some true, t1)
      | .val (.bool false) => matchCases s v ys t1
      | _ => (none, t1)
    | (.panic, t1) => (none, t1)

def switchClauses (s : Sem) (v : Val) : List (List Expr) → Nat → List Event → (Option (Option Nat)) × List Event
  | [], _, t => (some none, t)
  | ys :: rest, k, t =>
    match matchCases s v ys t with
    | (some true, t1) => (some (some k), t1)
    | (some false, t1) => switchClauses s v rest (k + 1) t1
    | (none, t1) => (none, t1)

/-- `switch x { case y..: 0  case y..: 1 … }`: the tag is evaluated once -/
def tagSwitch (s : Sem) (x : Expr) (clauses : List (List Expr)) (t : List Event) : (Option (Option Nat)) × List Event :=
  match eval s x t with
  | (.val v, t1) => switchClauses s v clauses 0 t1
  | (.panic, t1) => (none, t1)

/-- no calls of opaque functions (code.MayHaveSideEffects is false) -/
def callFree : Expr → Bool
  | .lit _ | .var _ => true
  | .call _ _ => false
  | .prim _ a b => callFree a && callFree b
  | .paren e | .not e => callFree e
  | .and a b | .or a b | .cmp _ a b | .add a b | .div a b => callFree a && callFree b

end Verif.C16.Rw
