/-
C16 line-protocol driver.

  pos <filehex> <k> <off>*k                      -> "<nlines> <size> <line>:<col> ..."   (fileOf + position)
  tab <size> <n> <linestart>*n <k> <off>*k       -> "<wf 0|1> <line>:<col> ..."          (position on a given table)
  short <node descriptor>                        -> "<inv 0|1> <pos> <end>"             (shortRange, invB)
  apply <srchex> <nfix> (<k> (<start> <stop> <newhex>)*k)*nfix
        -> per fix "<wf> <apart> <len> <fnv64 applyGo> <fnv64 applySorted∘sortEdits> <fnv64 applySeq as listed | ->" joined by ';'
  rw ...                                         -> see Verif.C16.RwDriver
-/
import Verif.Common.Proto
import Verif.C16.Pos
import Verif.C16.Short
import Verif.C16.Edits
import Verif.C16.RwDriver
namespace Verif.C16
open Verif.Proto

def hexBytes (s : String) : Option (List Nat) :=
  if s = "-" then some [] else (hexDecodeBytes s.toList).map (·.map UInt8.toNat)

def fnv64 (bs : List Nat) : UInt64 :=
  bs.foldl (fun h b => (h ^^^ UInt64.ofNat b) * 1099511628211) 14695981039346656037

def parseNats : List String → Option (List Nat)
  | [] => some []
  | s :: rest => do let n ← s.toNat?; let r ← parseNats rest; pure (n :: r)

def showPos (p : Nat × Nat) : String := s!"{p.1}:{p.2}"

def parseOptNat (s : String) : Option (Option Nat) :=
  if s = "-" then some none else s.toNat?.map some

def parseNode : List String → Option Node
  | ["file", p, ne, e] => do pure (.file (← p.toNat?) (← ne.toNat?) (← e.toNat?))
  | ["caseClause", p, c, e] => do pure (.caseClause (← p.toNat?) (← c.toNat?) (← e.toNat?))
  | ["commClause", p, c, e] => do pure (.commClause (← p.toNat?) (← c.toNat?) (← e.toNat?))
  | ["deferStmt", p, d, e] => do pure (.deferStmt (← p.toNat?) (← d.toNat?) (← e.toNat?))
  | "exprStmt" :: rest => do pure (.exprStmt (← parseNode rest))
  | ["forStmt", p, f, i, c, po, e] => do
    pure (.forStmt (← p.toNat?) (← f.toNat?) (← parseOptNat i) (← parseOptNat c) (← parseOptNat po) (← e.toNat?))
  | ["funcDecl", p, t, e] => do pure (.funcDecl (← p.toNat?) (← t.toNat?) (← e.toNat?))
  | ["funcLit", p, t, e] => do pure (.funcLit (← p.toNat?) (← t.toNat?) (← e.toNat?))
  | ["goStmt", p, g, l, e] => do pure (.goStmt (← p.toNat?) (← g.toNat?) (← parseBool l) (← e.toNat?))
  | ["ifStmt", p, c, e] => do pure (.ifStmt (← p.toNat?) (← c.toNat?) (← e.toNat?))
  | ["rangeStmt", p, x, e] => do pure (.rangeStmt (← p.toNat?) (← x.toNat?) (← e.toNat?))
  | ["selectStmt", p, e] => do pure (.selectStmt (← p.toNat?) (← e.toNat?))
  | ["switchStmt", p, t, i, e] => do
    pure (.switchStmt (← p.toNat?) (← parseOptNat t) (← parseOptNat i) (← e.toNat?))
  | ["typeSwitchStmt", p, a, e] => do pure (.typeSwitchStmt (← p.toNat?) (← a.toNat?) (← e.toNat?))
  | ["other", p, e] => do pure (.other (← p.toNat?) (← e.toNat?))
  | _ => none

/-- `k` edits, 3 tokens each; returns the edits and the remaining tokens. -/
def parseEdits : Nat → List String → Option (List (Edit Nat) × List String)
  | 0, ts => some ([], ts)
  | k + 1, s :: t :: nw :: rest => do
    let s ← s.toNat?
    let t ← t.toNat?
    let nw ← hexBytes nw
    let (es, rest') ← parseEdits k rest
    pure ({ start := s, stop := t, new := nw } :: es, rest')
  | _, _ => none

def parseFixes : Nat → List String → Option (List (List (Edit Nat)))
  | 0, [] => some []
  | 0, _ => none
  | n + 1, k :: rest => do
    let k ← k.toNat?
    let (es, rest') ← parseEdits k rest
    let more ← parseFixes n rest'
    pure (es :: more)
  | _, _ => none

def pairwiseB {β : Type} (r : β → β → Bool) : List β → Bool
  | [] => true
  | x :: xs => xs.all (r x) && pairwiseB r xs

def wfB (n : Nat) (es : List (Edit Nat)) : Bool :=
  inBoundsB n es && pairwiseB (fun a b => decide (a.disjoint b)) es

def apartB (es : List (Edit Nat)) : Bool := pairwiseB (fun a b => decide (a.apart b)) es

def applyLine (src : List Nat) (es : List (Edit Nat)) : String :=
  let wf := wfB src.length es
  let ap := wf && apartB es
  let g := applyGo src es
  let s := applySorted src (sortEdits es)
  let q := if ap then toString (fnv64 (applySeq src es)) else "-"
  s!"{showBool wf} {showBool ap} {g.length} {fnv64 g} {fnv64 s} {q}"

def step (line : String) : String :=
  match tokens line with
  | "pos" :: hex :: k :: offs =>
    match hexBytes hex, k.toNat?, parseNats offs with
    | some bs, some k, some offs =>
      if offs.length ≠ k then "bad-op" else
      let f := fileOf bs
      String.intercalate " " (toString f.lines.length :: toString f.size :: offs.map (fun o => showPos (position f o)))
    | _, _, _ => "bad-op"
  | "tab" :: size :: n :: rest =>
    match size.toNat?, n.toNat? with
    | some size, some n =>
      match parseNats (rest.take n), rest.drop n with
      | some ls, k :: offs =>
        match k.toNat?, parseNats offs with
        | some k, some offs =>
          if ls.length ≠ n ∨ offs.length ≠ k then "bad-op" else
          let f : TFile := { size := size, lines := ls }
          String.intercalate " " (showBool (decide f.WF) :: offs.map (fun o => showPos (position f o)))
        | _, _ => "bad-op"
      | _, _ => "bad-op"
    | _, _ => "bad-op"
  | "short" :: rest =>
    match parseNode rest with
    | some n => let r := shortRange n; s!"{showBool (invB n)} {r.1} {r.2}"
    | none => "bad-op"
  | "apply" :: hex :: nfix :: rest =>
    match hexBytes hex, nfix.toNat? with
    | some src, some nfix =>
      match parseFixes nfix rest with
      | some fixes => String.intercalate ";" (fixes.map (applyLine src))
      | none => "bad-op"
    | _, _ => "bad-op"
  | "rw" :: rest => Rw.step rest
  | _ => "bad-op"

end Verif.C16
