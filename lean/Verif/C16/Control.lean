/-
C16 — control-flow side of the statement rewrites (round 2).

  `loopIf` / `loopCond`   quickfix/qf1006: `own: for { if c { break lab }; body }`  ⇒  `own: for !c { body }`
                          (the pattern's label slot is `nil`: lab = none)
  `ifStmt` / `switchStmt` quickfix/qf1003 + qf1002: the bodies of an if-else chain (and its final else) become the
                          clauses of a switch statement, which consumes an unlabelled `break`
  `scanBranch` / `noDup`  quickfix/qf1003 + qf1002: the `seen` set of constant case values, one set for the whole chain

Conditions and bodies are arbitrary state transformers (effects = state changes), bodies end
in an outcome (`Out`).  Loops take fuel; every statement is about all fuels.
-/
namespace Verif.C16.Ctl

/-- how a statement list ends -/
inductive Out
  | normal
  | brk (l : Option Nat)      -- `break` / `break L`
  | cont (l : Option Nat)     -- `continue` / `continue L`
  | ret
  deriving DecidableEq, Repr

/-- does this outcome of the body end the loop labelled `own` (and nothing else)? -/
def exitsLoop (own : Option Nat) : Out → Bool
  | .brk none => true
  | .brk (some l) => own == some l
  | _ => false

/-- does this outcome of the body start the next iteration of the loop labelled `own`? -/
def nextIter (own : Option Nat) : Out → Bool
  | .normal => true
  | .cont none => true
  | .cont (some l) => own == some l
  | _ => false

variable {σ : Type}

/-- `own: for { if c { break lab }; body }` -/
def loopIf (own lab : Option Nat) (c : σ → Bool × σ) (body : σ → Out × σ) : Nat → σ → Option (Out × σ)
  | 0, _ => none
  | n + 1, s =>
    if (c s).1 then
      (if exitsLoop own (.brk lab) then some (.normal, (c s).2) else some (.brk lab, (c s).2))
    else
      if nextIter own (body (c s).2).1 then loopIf own lab c body n (body (c s).2).2
      else if exitsLoop own (body (c s).2).1 then some (.normal, (body (c s).2).2)
      else some (body (c s).2)

/-- `own: for !c { body }` (that the printed condition evaluates to `!c` is `Rw.qf1006_condition`) -/
def loopCond (own : Option Nat) (c : σ → Bool × σ) (body : σ → Out × σ) : Nat → σ → Option (Out × σ)
  | 0, _ => none
  | n + 1, s =>
    if (c s).1 then some (.normal, (c s).2)
    else
      if nextIter own (body (c s).2).1 then loopCond own c body n (body (c s).2).2
      else if exitsLoop own (body (c s).2).1 then some (.normal, (body (c s).2).2)
      else some (body (c s).2)

/-- what a switch statement labelled `own` makes of the outcome of the clause it ran -/
def switchOut (own : Option Nat) : Out → Out
  | .brk none => .normal
  | .brk (some l) => if own = some l then .normal else .brk (some l)
  | o => o

/-- run branch `k` of a chain (`none`: no condition held — the final else, if any) -/
def runBranch (bodies : List (σ → Out × σ)) (els : Option (σ → Out × σ)) (k : Option Nat) (s : σ) : Out × σ :=
  match k with
  | some i => match bodies[i]? with
    | some b => b s
    | none => (.normal, s)
  | none => match els with
    | some b => b s
    | none => (.normal, s)

/-- the if-else chain as a statement: the outcome of the selected body is the outcome of the chain -/
def ifStmt (bodies : List (σ → Out × σ)) (els : Option (σ → Out × σ)) (k : Option Nat) (s : σ) : Out × σ :=
  runBranch bodies els k s

/-- the (unlabelled) switch built from it: same selected clause (`Rw.qf1003_preserves`), outcome filtered -/
def switchStmt (bodies : List (σ → Out × σ)) (els : Option (σ → Out × σ)) (k : Option Nat) (s : σ) : Out × σ :=
  (switchOut none (runBranch bodies els k s).1, (runBranch bodies els k s).2)

/-! ### the `seen` set of constant case values -/

/-- one branch: `none` = the compared value is not a constant (skipped by the analyzer) -/
def scanBranch (seen : List String) : List (Option String) → Option (List String)
  | [] => some seen
  | none :: cs => scanBranch seen cs
  | some c :: cs => if c ∈ seen then none else scanBranch (c :: seen) cs

/-- transliteration of the duplicate check: ONE set for all branches of the chain -/
def noDupFrom (seen : List String) : List (List (Option String)) → Bool
  | [] => true
  | br :: rest =>
    match scanBranch seen br with
    | none => false
    | some seen' => noDupFrom seen' rest

def noDup (brs : List (List (Option String))) : Bool := noDupFrom [] brs

/-- the variant with a fresh set per branch (what the check must NOT do) -/
def noDupPerBranch (brs : List (List (Option String))) : Bool :=
  brs.all (fun br => (scanBranch [] br).isSome)

/-- the constants listed by one branch / by all case clauses of the switch -/
def consts (br : List (Option String)) : List String := br.filterMap id

def allConsts : List (List (Option String)) → List String
  | [] => []
  | br :: rest => consts br ++ allConsts rest

end Verif.C16.Ctl
