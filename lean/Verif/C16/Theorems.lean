/-
C16 — property theorems over the models Pos (go/token line table), Short
(report.shortRange / getRange), Edits (applying a suggested fix) and Rewrite (behaviour of
the rewrite rules).  Helper lemmas: PosLemmas, EditLemmas, SeqLemmas, RewriteLemmas.
-/
import Verif.C16.PosLemmas
import Verif.C16.Short
import Verif.C16.SeqLemmas
namespace Verif.C16
variable {α : Type}

/-! ## (i) positions -/

theorem lineStartsFrom_mem (size : Nat) (bs : List Nat) (i x : Nat) (h : x ∈ lineStartsFrom size i bs) :
    i < x ∧ x < size := by
  induction bs generalizing i with
  | nil => simp [lineStartsFrom] at h
  | cons b rest ih =>
    simp only [lineStartsFrom] at h
    split at h
    · rename_i hb
      cases h with
      | head => omega
      | tail _ h' => have := ih (i + 1) h'; omega
    · have := ih (i + 1) h; omega

theorem lineStartsFrom_sorted (size : Nat) (bs : List Nat) (i : Nat) :
    (lineStartsFrom size i bs).Pairwise (· < ·) := by
  induction bs generalizing i with
  | nil => simp [lineStartsFrom]
  | cons b rest ih =>
    simp only [lineStartsFrom]
    split
    · refine List.Pairwise.cons ?_ (ih (i + 1))
      intro x hx; exact (lineStartsFrom_mem size rest (i + 1) x hx).1
    · exact ih (i + 1)

/-- The table the scanner builds (0, and i+1 for every newline at i that is not the last
byte) is well-formed for every byte sequence — so the theorems below apply to every file. -/
theorem fileOf_wf (bytes : List Nat) : (fileOf bytes).WF := by
  refine ⟨rfl, ?_, ?_⟩
  · refine List.Pairwise.cons ?_ (lineStartsFrom_sorted _ _ _)
    intro x hx; have := lineStartsFrom_mem _ _ _ _ hx; omega
  · intro l hl
    simp only [fileOf, List.mem_cons] at hl
    rcases hl with rfl | hl
    · exact Nat.zero_le _
    · have := lineStartsFrom_mem _ _ _ _ hl; simp only [fileOf]; omega

/-- (i) For ALL well-formed line tables and ALL offsets: `File.position` yields a line that
exists (1 ≤ line ≤ number of lines) and a column that exists in that line (1 ≤ col ≤
length of the line + 1; `lineLen + 1` is the place just behind the last byte of the line).
Offsets beyond the file are clamped by `fixOffset`, as in go/token. -/
theorem position_valid (f : TFile) (hf : f.WF) (off : Nat) :
    1 ≤ (position f off).1 ∧ (position f off).1 ≤ f.lines.length ∧
    1 ≤ (position f off).2 ∧ (position f off).2 ≤ lineLen f ((position f off).1 - 1) + 1 := by
  obtain ⟨h0, _, hle⟩ := hf
  have hne : f.lines ≠ [] := by intro h; simp [h] at h0
  have hlt := lineIdx_lt f.lines (fixOffset f off) hne
  have hge := lineIdx_le f.lines (fixOffset f off) (by intro a ha; rw [h0] at ha; cases ha; omega)
  simp only [position, lineLen, Nat.add_sub_cancel]
  refine ⟨by omega, by omega, by omega, ?_⟩
  split
  · rename_i hn
    have := lineIdx_next f.lines (fixOffset f off) hn
    omega
  · have : fixOffset f off ≤ f.size := by unfold fixOffset; omega
    omega

example : (fileOf [112, 10, 10, 120, 121, 10]).WF := by decide
example : position (fileOf [112, 10, 10, 120, 121, 10]) 4 = (3, 2) := by decide
example : position (fileOf [112, 10, 10, 120, 121, 10]) 6 = (3, 4) := by decide

/-- offset → (line, column) → offset: the start of the reported line plus the reported
column (minus one) is the offset again; distinct offsets are distinct places. -/
theorem position_roundtrip (f : TFile) (hf : f.WF) (off : Nat) (h : off ≤ f.size) :
    f.lines.getD ((position f off).1 - 1) 0 + (position f off).2 - 1 = off := by
  obtain ⟨h0, _, hle⟩ := hf
  have hge := lineIdx_le f.lines (fixOffset f off) (by intro a ha; rw [h0] at ha; cases ha; omega)
  have : fixOffset f off = off := by unfold fixOffset; omega
  simp only [position, Nat.add_sub_cancel]
  omega

example : let f := fileOf [112, 10, 10, 120, 121, 10]
    f.lines.getD ((position f 4).1 - 1) 0 + (position f 4).2 - 1 = 4 := by decide

/-- A range whose end offset is not before its start offset has an end position that does
not precede the start position (same file, same table) — for ALL tables, even ill-formed. -/
theorem end_not_before_start (f : TFile) (s e : Nat) (h : s ≤ e) :
    posLe (position f s) (position f e) := by
  have hm : fixOffset f s ≤ fixOffset f e := by unfold fixOffset; omega
  have := lineIdx_mono f.lines _ _ hm
  unfold posLe position
  simp only
  by_cases heq : lineIdx f.lines (fixOffset f s) = lineIdx f.lines (fixOffset f e)
  · right; rw [heq]; refine ⟨rfl, ?_⟩; omega
  · left; omega

example : posLe (position (fileOf [112, 10, 10, 120, 121, 10]) 1) (position (fileOf [112, 10, 10, 120, 121, 10]) 4) := by decide

/-! ## (ii) short ranges -/

/-- (ii) Under the parser invariants the short range starts at the node's Pos, is not
negative, and ends inside the node — for ALL nodes (all kinds, all positions). -/
theorem shortRange_within (n : Node) (h : Inv n) :
    (shortRange n).1 = n.pos ∧ (shortRange n).1 ≤ (shortRange n).2 ∧ (shortRange n).2 ≤ n.end_ := by
  induction n with
  | exprStmt x ih => simpa [shortRange, Node.pos, Node.end_] using ih h
  | forStmt p f ini cond post e =>
    obtain ⟨hp, h3, hpost, hcond, hini⟩ := h
    cases post with
    | some pe => have := hpost pe rfl; simp [shortRange, Node.pos, Node.end_]; omega
    | none =>
      cases cond with
      | some ce => have := hcond ce rfl; simp [shortRange, Node.pos, Node.end_]; omega
      | none =>
        cases ini with
        | some ie => have := hini ie rfl; simp [shortRange, Node.pos, Node.end_]; omega
        | none => simp [shortRange, Node.pos, Node.end_]; omega
  | switchStmt p tag ini e =>
    obtain ⟨h6, htag, hini⟩ := h
    cases tag with
    | some te => have := htag te rfl; simp [shortRange, Node.pos, Node.end_]; omega
    | none =>
      cases ini with
      | some ie => have := hini ie rfl; simp [shortRange, Node.pos, Node.end_]; omega
      | none => simp [shortRange, Node.pos, Node.end_]; omega
  | goStmt p g l e =>
    obtain ⟨hp, h2⟩ := h
    cases l <;> simp [shortRange, Node.pos, Node.end_] <;> omega
  | _ => simp only [Inv] at h; simp [shortRange, Node.pos, Node.end_] <;> omega

/-- The executable invariant check the driver runs on corpus nodes decides `Inv`. -/
theorem invB_iff (n : Node) : invB n = true ↔ Inv n := by
  induction n with
  | exprStmt x ih => simpa [invB, Inv] using ih
  | forStmt p f ini cond post e =>
    cases post <;> cases cond <;> cases ini <;> simp [invB, Inv, and_assoc]
  | switchStmt p tag ini e => cases tag <;> cases ini <;> simp [invB, Inv, and_assoc]
  | _ => simp [invB, Inv]

example : Inv (.forStmt 10 10 (some 20) none none 30) := (invB_iff _).1 (by decide)
example : shortRange (.forStmt 10 10 (some 20) none none 30) = (10, 21) := by decide

/-- `getRange`: whenever it yields a range with an end, the end does not precede the start
(and, with `shortRange_within`, lies inside the node). -/
theorem getRange_within (t : Target) (short : Bool) (h : t.Inv) (p : Nat) (e : Nat)
    (hr : getRange t short = some (p, some e)) : p ≤ e := by
  cases t with
  | posOnly q => simp [getRange] at hr
  | sourcer s =>
    cases s with
    | none => simp [getRange] at hr
    | some s =>
      have hs := shortRange_within s h
      cases short <;> simp [getRange] at hr <;> obtain ⟨rfl, rfl⟩ := hr <;> omega
  | full n =>
    have hs := shortRange_within n h
    cases short <;> simp [getRange] at hr <;> obtain ⟨rfl, rfl⟩ := hr <;> omega

example : getRange (.full (.ifStmt 5 9 40)) true = some (5, some 9) := by decide

/-! ## (iii) applying the edits of a fix -/

/-- (iii-a) "Independent of order": for a well-formed edit set (within bounds, pairwise
non-overlapping) ANY listing `l` of the same edits that is sorted by the sort key — the
output of any correct sort, stable or not, started from any permutation — is the one
`before`-chain `sortEdits es`.  Hence the fix applier's result cannot depend on the order
in which the analyzer listed the edits nor on `sort.Slice` being unstable. -/
theorem apply_wellformed (n : Nat) (es l : List (Edit α)) (h : WFEdits n es) (hp : l.Perm es)
    (hs : l.Pairwise Edit.le) : l = sortEdits es ∧ SortedEdits (sortEdits es) := by
  have h1 := sortEdits_sorted n es h
  refine ⟨?_, h1⟩
  exact chain_unique l (sortEdits es) (le_sorted_is_chain n l (wf_perm n es l h hp) hs) h1
    (hp.trans (sortEdits_perm es).symm)

/-- Corollary: the model of `testutil.applyEdits` gives the same text for every listing
order of the edits. -/
theorem applyGo_perm (src : List α) (es es' : List (Edit α)) (h : WFEdits src.length es)
    (hp : es'.Perm es) : applyGo src es' = applyGo src es := by
  unfold applyGo
  have h' := wf_perm _ es es' h hp
  have := chain_unique (sortEdits es') (sortEdits es) (sortEdits_sorted _ es' h') (sortEdits_sorted _ es h)
    ((sortEdits_perm es').trans (hp.trans (sortEdits_perm es).symm))
  rw [this]

/-- (iii-b) The repository's fix applier (`testutil.applyEdits`: sort, then patch in place
with a running offset) computes the specification (one-pass splice of the sorted edits)
for ALL texts and ALL well-formed edit sets. -/
theorem apply_sorted_eq_spec (src : List α) (es : List (Edit α)) (h : WFEdits src.length es) :
    applyGo src es = applySorted src (sortEdits es) := by
  unfold applyGo applySorted
  exact applyGo_sorted src (sortEdits es)
    (fun e he => h.1 e ((sortEdits_perm es).mem_iff.1 he)) (sortEdits_sorted _ es h)

/-- (iii-c) Length formula: new length = old length − bytes removed + bytes inserted. -/
theorem apply_length (src : List α) (es : List (Edit α)) (h : WFEdits src.length es) :
    (applyGo src es).length + totalOld es = src.length + totalNew es := by
  rw [apply_sorted_eq_spec src es h]
  have := spliceFrom_length src (sortEdits es) 0 (Nat.zero_le _)
    (fun e he => h.1 e ((sortEdits_perm es).mem_iff.1 he)) (fun _ _ => Nat.zero_le _)
    (sortEdits_sorted _ es h)
  rw [totalOld_perm _ _ (sortEdits_perm es), totalNew_perm _ _ (sortEdits_perm es)] at this
  unfold applySorted
  omega

/-- (iii-d) A client that applies the edits one after the other in ANY order, re-basing
the remaining ones after each step, obtains the specification result too — provided no
pure insertion touches another edit (`WFApart`; see `applySeq_order_matters` for why the
proviso is needed for such a client). -/
theorem apply_any_order (src : List α) (es es' : List (Edit α)) (h : WFApart src.length es)
    (hp : es'.Perm es) : applySeq src es' = applySorted src (sortEdits es) := by
  have hwf : WFEdits src.length es := ⟨h.1, h.2.imp (fun hab => hab.1)⟩
  have h' := wfApart_perm _ es es' h hp
  rw [applySeq_perm es'.length es' (sortEdits es) src rfl (hp.trans (sortEdits_perm es).symm) h']
  unfold applySorted
  exact applySeq_sorted src (sortEdits es)
    (fun e he => h.1 e ((sortEdits_perm es).mem_iff.1 he)) (sortEdits_sorted _ es hwf)

/-- Without the proviso a re-basing client is order dependent: text "abc", delete "b",
insert "Y" before it and "X" behind it (pairwise non-overlapping, in bounds). -/
theorem applySeq_order_matters :
    let a : Edit Nat := ⟨1, 2, []⟩
    let y : Edit Nat := ⟨1, 1, [89]⟩
    let x : Edit Nat := ⟨2, 2, [88]⟩
    WFEdits 3 [a, y, x] ∧ applySeq [97, 98, 99] [a, x, y] ≠ applySeq [97, 98, 99] [a, y, x] := by
  refine ⟨by decide, ?_⟩
  simp [applySeq, applyOne, shift]

-- non-vacuity: three edits (a replacement, a touching deletion, an insertion) on "abcdef"
example : WFEdits 6 ([⟨4, 4, [9]⟩, ⟨0, 2, [7, 7, 7]⟩, ⟨2, 3, []⟩] : List (Edit Nat)) := by decide
example : applyGo [1, 2, 3, 4, 5, 6] ([⟨4, 4, [9]⟩, ⟨0, 2, [7, 7, 7]⟩, ⟨2, 3, []⟩] : List (Edit Nat))
    = [7, 7, 7, 4, 9, 5, 6] := by decide
example : WFApart 6 ([⟨4, 5, [9]⟩, ⟨0, 2, [7, 7, 7]⟩, ⟨2, 3, []⟩] : List (Edit Nat)) := by
  decide
example : applySeq [1, 2, 3, 4, 5, 6] ([⟨4, 5, [9]⟩, ⟨0, 2, [7, 7, 7]⟩, ⟨2, 3, []⟩] : List (Edit Nat))
    = [7, 7, 7, 4, 9, 6] := by simp [applySeq, applyOne, shift]

end Verif.C16
