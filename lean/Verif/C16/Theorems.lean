/-
C16 — property theorems over the models Pos (go/token line table), Short
(report.shortRange / getRange), Edits (applying a suggested fix) and Rewrite (behaviour of
the rewrite rules).  Helper lemmas: PosLemmas, EditLemmas, SeqLemmas, RewriteLemmas.
-/
import Verif.C16.PosLemmas
import Verif.C16.Short
import Verif.C16.SeqLemmas
import Verif.C16.RewriteLemmas
namespace Verif.C16
variable {α : Type}

/-! ## (i) positions -/

theorem lineStartsFrom_mem (size : Nat) (bs : List Nat) (i x : Nat) (h : x ∈ lineStartsFrom size i bs) :
    i < x ∧ x < size := by
  induction bs generalizing i with
  | nil => simp [lineStartsFrom] at h
  | cons b rest ih =>
    simp only [lineStartsFrom] at h
    split at h
    · rename_i hb
      cases h with
      | head => omega
      | tail _ h' => have := ih (i + 1) h'; omega
    · have := ih (i + 1) h; omega

theorem lineStartsFrom_sorted (size : Nat) (bs : List Nat) (i : Nat) :
    (lineStartsFrom size i bs).Pairwise (· < ·) := by
  induction bs generalizing i with
  | nil => simp [lineStartsFrom]
  | cons b rest ih =>
    simp only [lineStartsFrom]
    split
    · refine List.Pairwise.cons ?_ (ih (i + 1))
      intro x hx; exact (lineStartsFrom_mem size rest (i + 1) x hx).1
    · exact ih (i + 1)

/-- The table the scanner builds (0, and i+1 for every newline at i that is not the last
byte) is well-formed for every byte sequence — so the theorems below apply to every file. -/
theorem fileOf_wf (bytes : List Nat) : (fileOf bytes).WF := by
  refine ⟨rfl, ?_, ?_⟩
  · refine List.Pairwise.cons ?_ (lineStartsFrom_sorted _ _ _)
    intro x hx; have := lineStartsFrom_mem _ _ _ _ hx; omega
  · intro l hl
    simp only [fileOf, List.mem_cons] at hl
    rcases hl with rfl | hl
    · exact Nat.zero_le _
    · have := lineStartsFrom_mem _ _ _ _ hl; simp only [fileOf]; omega

/-- (i) For ALL well-formed line tables and ALL offsets: `File.position` yields a line that
exists (1 ≤ line ≤ number of lines) and a column that exists in that line (1 ≤ col ≤
length of the line + 1; `lineLen + 1` is the place just behind the last byte of the line).
Offsets beyond the file are clamped by `fixOffset`, as in go/token. -/
theorem position_valid (f : TFile) (hf : f.WF) (off : Nat) :
    1 ≤ (position f off).1 ∧ (position f off).1 ≤ f.lines.length ∧
    1 ≤ (position f off).2 ∧ (position f off).2 ≤ lineLen f ((position f off).1 - 1) + 1 := by
  obtain ⟨h0, _, hle⟩ := hf
  have hne : f.lines ≠ [] := by intro h; simp [h] at h0
  have hlt := lineIdx_lt f.lines (fixOffset f off) hne
  have hge := lineIdx_le f.lines (fixOffset f off) (by intro a ha; rw [h0] at ha; cases ha; omega)
  simp only [position, lineLen, Nat.add_sub_cancel]
  refine ⟨by omega, by omega, by omega, ?_⟩
  split
  · rename_i hn
    have := lineIdx_next f.lines (fixOffset f off) hn
    omega
  · have : fixOffset f off ≤ f.size := by unfold fixOffset; omega
    omega

example : (fileOf [112, 10, 10, 120, 121, 10]).WF := by decide
example : position (fileOf [112, 10, 10, 120, 121, 10]) 4 = (3, 2) := by decide
example : position (fileOf [112, 10, 10, 120, 121, 10]) 6 = (3, 4) := by decide

/-- offset → (line, column) → offset: the start of the reported line plus the reported
column (minus one) is the offset again; distinct offsets are distinct places. -/
theorem position_roundtrip (f : TFile) (hf : f.WF) (off : Nat) (h : off ≤ f.size) :
    f.lines.getD ((position f off).1 - 1) 0 + (position f off).2 - 1 = off := by
  obtain ⟨h0, _, hle⟩ := hf
  have hge := lineIdx_le f.lines (fixOffset f off) (by intro a ha; rw [h0] at ha; cases ha; omega)
  have : fixOffset f off = off := by unfold fixOffset; omega
  simp only [position, Nat.add_sub_cancel]
  omega

example : let f := fileOf [112, 10, 10, 120, 121, 10]
    f.lines.getD ((position f 4).1 - 1) 0 + (position f 4).2 - 1 = 4 := by decide

/-- A range whose end offset is not before its start offset has an end position that does
not precede the start position (same file, same table) — for ALL tables, even ill-formed. -/
theorem end_not_before_start (f : TFile) (s e : Nat) (h : s ≤ e) :
    posLe (position f s) (position f e) := by
  have hm : fixOffset f s ≤ fixOffset f e := by unfold fixOffset; omega
  have := lineIdx_mono f.lines _ _ hm
  unfold posLe position
  simp only
  by_cases heq : lineIdx f.lines (fixOffset f s) = lineIdx f.lines (fixOffset f e)
  · right; rw [heq]; refine ⟨rfl, ?_⟩; omega
  · left; omega

example : posLe (position (fileOf [112, 10, 10, 120, 121, 10]) 1) (position (fileOf [112, 10, 10, 120, 121, 10]) 4) := by decide

/-! ## (ii) short ranges -/

/-- (ii) Under the parser invariants the short range starts at the node's Pos, is not
negative, and ends inside the node — for ALL nodes (all kinds, all positions). -/
theorem shortRange_within (n : Node) (h : Inv n) :
    (shortRange n).1 = n.pos ∧ (shortRange n).1 ≤ (shortRange n).2 ∧ (shortRange n).2 ≤ n.end_ := by
  induction n with
  | exprStmt x ih => simpa [shortRange, Node.pos, Node.end_] using ih h
  | forStmt p f ini cond post e =>
    obtain ⟨hp, h3, hpost, hcond, hini⟩ := h
    cases post with
    | some pe => have := hpost pe rfl; simp [shortRange, Node.pos, Node.end_]; omega
    | none =>
      cases cond with
      | some ce => have := hcond ce rfl; simp [shortRange, Node.pos, Node.end_]; omega
      | none =>
        cases ini with
        | some ie => have := hini ie rfl; simp [shortRange, Node.pos, Node.end_]; omega
        | none => simp [shortRange, Node.pos, Node.end_]; omega
  | switchStmt p tag ini e =>
    obtain ⟨h6, htag, hini⟩ := h
    cases tag with
    | some te => have := htag te rfl; simp [shortRange, Node.pos, Node.end_]; omega
    | none =>
      cases ini with
      | some ie => have := hini ie rfl; simp [shortRange, Node.pos, Node.end_]; omega
      | none => simp [shortRange, Node.pos, Node.end_]; omega
  | goStmt p g l e =>
    obtain ⟨hp, h2⟩ := h
    cases l <;> simp [shortRange, Node.pos, Node.end_] <;> omega
  | _ => simp only [Inv] at h; simp [shortRange, Node.pos, Node.end_] <;> omega

/-- The executable invariant check the driver runs on corpus nodes decides `Inv`. -/
theorem invB_iff (n : Node) : invB n = true ↔ Inv n := by
  induction n with
  | exprStmt x ih => simpa [invB, Inv] using ih
  | forStmt p f ini cond post e =>
    cases post <;> cases cond <;> cases ini <;> simp [invB, Inv, and_assoc]
  | switchStmt p tag ini e => cases tag <;> cases ini <;> simp [invB, Inv, and_assoc]
  | _ => simp [invB, Inv]

example : Inv (.forStmt 10 10 (some 20) none none 30) := (invB_iff _).1 (by decide)
example : shortRange (.forStmt 10 10 (some 20) none none 30) = (10, 21) := by decide

/-- `getRange`: whenever it yields a range with an end, the end does not precede the start
(and, with `shortRange_within`, lies inside the node). -/
theorem getRange_within (t : Target) (short : Bool) (h : t.Inv) (p : Nat) (e : Nat)
    (hr : getRange t short = some (p, some e)) : p ≤ e := by
  cases t with
  | posOnly q => simp [getRange] at hr
  | sourcer s =>
    cases s with
    | none => simp [getRange] at hr
    | some s =>
      have hs := shortRange_within s h
      cases short <;> simp [getRange] at hr <;> obtain ⟨rfl, rfl⟩ := hr <;> omega
  | full n =>
    have hs := shortRange_within n h
    cases short <;> simp [getRange] at hr <;> obtain ⟨rfl, rfl⟩ := hr <;> omega

example : getRange (.full (.ifStmt 5 9 40)) true = some (5, some 9) := by decide

/-! ## (iii) applying the edits of a fix -/

/-- (iii-a) "Independent of order": for a well-formed edit set (within bounds, pairwise
non-overlapping) ANY listing `l` of the same edits that is sorted by the sort key — the
output of any correct sort, stable or not, started from any permutation — is the one
`before`-chain `sortEdits es`.  Hence the fix applier's result cannot depend on the order
in which the analyzer listed the edits nor on `sort.Slice` being unstable. -/
theorem apply_wellformed (n : Nat) (es l : List (Edit α)) (h : WFEdits n es) (hp : l.Perm es)
    (hs : l.Pairwise Edit.le) : l = sortEdits es ∧ SortedEdits (sortEdits es) := by
  have h1 := sortEdits_sorted n es h
  refine ⟨?_, h1⟩
  exact chain_unique l (sortEdits es) (le_sorted_is_chain n l (wf_perm n es l h hp) hs) h1
    (hp.trans (sortEdits_perm es).symm)

/-- Corollary: the model of `testutil.applyEdits` gives the same text for every listing
order of the edits. -/
theorem applyGo_perm (src : List α) (es es' : List (Edit α)) (h : WFEdits src.length es)
    (hp : es'.Perm es) : applyGo src es' = applyGo src es := by
  unfold applyGo
  have h' := wf_perm _ es es' h hp
  have := chain_unique (sortEdits es') (sortEdits es) (sortEdits_sorted _ es' h') (sortEdits_sorted _ es h)
    ((sortEdits_perm es').trans (hp.trans (sortEdits_perm es).symm))
  rw [this]

/-- (iii-b) The repository's fix applier (`testutil.applyEdits`: sort, then patch in place
with a running offset) computes the specification (one-pass splice of the sorted edits)
for ALL texts and ALL well-formed edit sets. -/
theorem apply_sorted_eq_spec (src : List α) (es : List (Edit α)) (h : WFEdits src.length es) :
    applyGo src es = applySorted src (sortEdits es) := by
  unfold applyGo applySorted
  exact applyGo_sorted src (sortEdits es)
    (fun e he => h.1 e ((sortEdits_perm es).mem_iff.1 he)) (sortEdits_sorted _ es h)

/-- (iii-c) Length formula: new length = old length − bytes removed + bytes inserted. -/
theorem apply_length (src : List α) (es : List (Edit α)) (h : WFEdits src.length es) :
    (applyGo src es).length + totalOld es = src.length + totalNew es := by
  rw [apply_sorted_eq_spec src es h]
  have := spliceFrom_length src (sortEdits es) 0 (Nat.zero_le _)
    (fun e he => h.1 e ((sortEdits_perm es).mem_iff.1 he)) (fun _ _ => Nat.zero_le _)
    (sortEdits_sorted _ es h)
  rw [totalOld_perm _ _ (sortEdits_perm es), totalNew_perm _ _ (sortEdits_perm es)] at this
  unfold applySorted
  omega

/-- (iii-d) A client that applies the edits one after the other in ANY order, re-basing
the remaining ones after each step, obtains the specification result too — provided no
pure insertion touches another edit (`WFApart`; see `applySeq_order_matters` for why the
proviso is needed for such a client). -/
theorem apply_any_order (src : List α) (es es' : List (Edit α)) (h : WFApart src.length es)
    (hp : es'.Perm es) : applySeq src es' = applySorted src (sortEdits es) := by
  have hwf : WFEdits src.length es := ⟨h.1, h.2.imp (fun hab => hab.1)⟩
  have h' := wfApart_perm _ es es' h hp
  rw [applySeq_perm es'.length es' (sortEdits es) src rfl (hp.trans (sortEdits_perm es).symm) h']
  unfold applySorted
  exact applySeq_sorted src (sortEdits es)
    (fun e he => h.1 e ((sortEdits_perm es).mem_iff.1 he)) (sortEdits_sorted _ es hwf)

/-- Without the proviso a re-basing client is order dependent: text "abc", delete "b",
insert "Y" before it and "X" behind it (pairwise non-overlapping, in bounds). -/
theorem applySeq_order_matters :
    let a : Edit Nat := ⟨1, 2, []⟩
    let y : Edit Nat := ⟨1, 1, [89]⟩
    let x : Edit Nat := ⟨2, 2, [88]⟩
    WFEdits 3 [a, y, x] ∧ applySeq [97, 98, 99] [a, x, y] ≠ applySeq [97, 98, 99] [a, y, x] := by
  refine ⟨by decide, ?_⟩
  simp [applySeq, applyOne, shift]

-- non-vacuity: three edits (a replacement, a touching deletion, an insertion) on "abcdef"
example : WFEdits 6 ([⟨4, 4, [9]⟩, ⟨0, 2, [7, 7, 7]⟩, ⟨2, 3, []⟩] : List (Edit Nat)) := by decide
example : applyGo [1, 2, 3, 4, 5, 6] ([⟨4, 4, [9]⟩, ⟨0, 2, [7, 7, 7]⟩, ⟨2, 3, []⟩] : List (Edit Nat))
    = [7, 7, 7, 4, 9, 5, 6] := by decide
example : WFApart 6 ([⟨4, 5, [9]⟩, ⟨0, 2, [7, 7, 7]⟩, ⟨2, 3, []⟩] : List (Edit Nat)) := by
  decide
example : applySeq [1, 2, 3, 4, 5, 6] ([⟨4, 5, [9]⟩, ⟨0, 2, [7, 7, 7]⟩, ⟨2, 3, []⟩] : List (Edit Nat))
    = [7, 7, 7, 4, 9, 6] := by simp [applySeq, applyOne, shift]

/-! ## (iv) behaviour of the rewrite rules (first batch) -/

namespace Rw

/-- S1002 (constant on the right): `other == true`, `other != false` ⇒ `other`;
`other == false`, `other != true` ⇒ `!other` (a binary operand parenthesised), `!!` stripped. -/
theorem s1002_preserves (g : Sig) (s : Sem) (ok : SemOk g s) (op : CmpOp) (val : Bool) (other e' : Expr)
    (hty : tyOf g other = some .bool) (h : s1002 op val other = some e') (t : List Event) :
    eval s e' t = eval s (.cmp op other (.lit (.bool val))) t := by
  have wrap : ∀ t, eval s (.not (if isBinary other then .paren other else other)) t = eval s (.not other) t := by
    intro t; split <;> simp only [eval]
  have wrapTy : tyOf g (.not (if isBinary other then .paren other else other)) = some .bool := by
    split <;> simp [tyOf, hty]
  cases op with
  | eq =>
    cases val with
    | true =>
      simp only [s1002, if_true] at h; injection h with h; subst h
      rw [eval_stripNots g s ok _ hty, eval_cmp_eq_true g s ok other hty]
    | false =>
      simp only [s1002, Bool.false_eq_true, if_false] at h; injection h with h; subst h
      rw [eval_stripNots g s ok _ wrapTy, wrap, eval_cmp_eq_false g s ok other hty]
  | ne =>
    cases val with
    | true =>
      simp only [s1002, if_true] at h; injection h with h; subst h
      rw [eval_stripNots g s ok _ wrapTy, wrap, eval_cmp_ne_true g s ok other hty]
    | false =>
      simp only [s1002, Bool.false_eq_true, if_false] at h; injection h with h; subst h
      rw [eval_stripNots g s ok _ hty, eval_cmp_ne_false g s ok other hty]
  | lt => simp [s1002] at h
  | le => simp [s1002] at h
  | gt => simp [s1002] at h
  | ge => simp [s1002] at h

/-- S1002 with the constant on the left (`true == other`): the constant has no effects, so
the evaluation order does not matter. -/
theorem s1002_preserves_left (g : Sig) (s : Sem) (ok : SemOk g s) (op : CmpOp) (val : Bool) (other e' : Expr)
    (hty : tyOf g other = some .bool) (h : s1002 op val other = some e') (t : List Event) :
    eval s e' t = eval s (.cmp op (.lit (.bool val)) other) t := by
  rw [s1002_preserves g s ok op val other e' hty h t]
  simp only [eval]
  cases hev : eval s other t with
  | mk r t1 =>
    cases r with
    | panic => rfl
    | val v =>
      have := ty_sound g s ok other .bool t v t1 hty hev
      cases v with
      | int n => simp [Val.ty] at this
      | bool b => cases op <;> cases b <;> cases val <;> rfl

/-- QF1001: every one of the four suggested fixes (De Morgan, recursively or not,
simplified or not, parenthesised or not) evaluates like `!operand`: same result, same
panics, same events in the same order. -/
theorem qf1001_preserves (g : Sig) (s : Sem) (ok : SemOk g s) (recursive simp parens : Bool)
    (operand e' : Expr) (hty : tyOf g (.not operand) = some .bool)
    (h : qf1001 recursive simp parens operand = some e') (t : List Event) :
    eval s e' t = eval s (.not operand) t := by
  have hop : tyOf g (unparen operand) = some .bool := by rw [tyOf_unparen]; exact tyOf_not hty
  have base : eval s (.not operand) t = eval s (.not (unparen operand)) t := by
    simp only [eval, eval_unparen]
  rw [base]
  have fin : ∀ e, eval s (negDM recursive e) t = eval s (.not e) t →
      tyOf g (negDM recursive e) = some .bool →
      eval s (if parens then Expr.paren (if simp then simplify (negDM recursive e) else negDM recursive e)
              else (if simp then simplify (negDM recursive e) else negDM recursive e)) t = eval s (.not e) t := by
    intro e he hte
    cases parens <;> cases simp <;>
      simp only [if_true, if_false, Bool.false_eq_true, eval, eval_simplify g s ok _ _ hte] <;>
      (try simp only [eval] at he) <;> exact he
  unfold qf1001 at h
  split at h
  · rename_i a b heq; injection h with h; subst h; rw [heq] at hop ⊢
    exact fin _ (eval_negDM g s ok recursive _ hop t) (tyOf_negDM g recursive _ hop)
  · rename_i a b heq; injection h with h; subst h; rw [heq] at hop ⊢
    exact fin _ (eval_negDM g s ok recursive _ hop t) (tyOf_negDM g recursive _ hop)
  · rename_i op a b heq; injection h with h; subst h; rw [heq] at hop ⊢
    exact fin _ (eval_negDM g s ok recursive _ hop t) (tyOf_negDM g recursive _ hop)
  · exact absurd h (by simp)

/-- QF1006: the lifted loop condition `NegateDeMorgan(cond)` is `!cond`. -/
theorem qf1006_condition (g : Sig) (s : Sem) (ok : SemOk g s) (cond : Expr) (hty : tyOf g cond = some .bool)
    (t : List Event) : eval s (negDM false cond) t = eval s (.not cond) t :=
  eval_negDM g s ok false cond hty t

/-- QF1007: `x := init; if cond { x = !init }` assigns what `x := cond` / `x := !cond` assigns,
with the same panics and events. -/
theorem qf1007_preserves (g : Sig) (s : Sem) (ok : SemOk g s) (init : Bool) (cond : Expr)
    (hty : tyOf g cond = some .bool) (t : List Event) :
    eval s (qf1007 init cond) t =
      (match eval s cond t with
       | (.val (.bool c), t1) => (.val (.bool (if c then !init else init)), t1)
       | (.val (.int _), t1) => (.panic, t1)
       | (.panic, t1) => (.panic, t1)) := by
  unfold qf1007
  cases hev : eval s cond t with
  | mk r t1 =>
    cases r with
    | panic => cases init <;> simp [eval, hev]
    | val v =>
      have := ty_sound g s ok cond .bool t v t1 hty hev
      cases v with
      | int n => simp [Val.ty] at this
      | bool c => cases init <;> cases c <;> simp [eval, hev, evalNot]

/-- S1003's table: for every entry and every possible result `n ≥ -1` of Index…, the
comparison is `n ≠ -1` (entry says Contains) or `n = -1` (entry says !Contains). -/
theorem s1003_table_correct : ∀ e ∈ s1003tab, ∀ n : Int, -1 ≤ n →
    cmpInt e.2.1 n e.1 = (if e.2.2 then decide (n ≠ -1) else decide (n = -1)) := by
  intro e he n hn
  simp only [s1003tab, List.mem_cons, List.not_mem_nil, or_false] at he
  rcases he with rfl | rfl | rfl | rfl | rfl <;>
    simp only [cmpInt, if_true, if_false, Bool.false_eq_true] <;> apply decide_eq_decide.2 <;> omega

/-- S1003: `Index…(a, b) <op> c` ⇒ `Contains…(a, b)` / `!Contains…(a, b)`, given the
specification of the two library functions (`n ≥ -1`, Contains ⇔ `n ≠ -1`). -/
theorem s1003_preserves (s : Sem) (idx cont : Nat) (op : CmpOp) (c : Int) (a b e' : Expr)
    (spec : ∀ x y, ∃ n : Int, s.p idx x y = .int n ∧ -1 ≤ n ∧ s.p cont x y = .bool (decide (n ≠ -1)))
    (h : s1003 cont op c a b = some e') (t : List Event) :
    eval s e' t = eval s (.cmp op (.prim idx a b) (.lit (.int c))) t := by
  have hval : ∀ (res : Bool), (c, op, res) ∈ s1003tab → ∀ x y,
      evalCmp op (s.p idx x y) (.int c) = .val (.bool (if res then (match s.p cont x y with | .bool q => q | _ => false)
        else !(match s.p cont x y with | .bool q => q | _ => false))) := by
    intro res hmem x y
    obtain ⟨n, h1, h2, h3⟩ := spec x y
    have := s1003_table_correct _ hmem n h2
    rw [h1, h3]; simp only [evalCmp] at this ⊢
    rw [this]; cases res <;> simp
  unfold s1003 at h
  split at h
  · rename_i c' op' heq
    have hm := List.mem_of_find?_eq_some heq
    have hp := List.find?_some heq
    simp only [Bool.and_eq_true, beq_iff_eq] at hp
    obtain ⟨rfl, rfl⟩ := hp
    injection h with h; subst h
    simp only [eval]
    cases eval s a t with
    | mk ra t1 => cases ra with
      | panic => rfl
      | val va =>
        simp only
        cases eval s b t1 with
        | mk rb t2 => cases rb with
          | panic => rfl
          | val vb =>
            simp only [hval true hm va vb]
            obtain ⟨n, _, _, h3⟩ := spec va vb
            rw [h3]; simp
  · rename_i c' op' heq
    have hm := List.mem_of_find?_eq_some heq
    have hp := List.find?_some heq
    simp only [Bool.and_eq_true, beq_iff_eq] at hp
    obtain ⟨rfl, rfl⟩ := hp
    injection h with h; subst h
    simp only [eval]
    cases eval s a t with
    | mk ra t1 => cases ra with
      | panic => rfl
      | val va =>
        simp only
        cases eval s b t1 with
        | mk rb t2 => cases rb with
          | panic => rfl
          | val vb =>
            simp only [hval false hm va vb]
            obtain ⟨n, _, _, h3⟩ := spec va vb
            rw [h3]; simp [evalNot]
  · exact absurd h (by simp)

/-- S1004: `bytes.Compare(a, b) == 0` ⇒ `bytes.Equal(a, b)`, `!= 0` ⇒ `!bytes.Equal(a, b)`. -/
theorem s1004_preserves (s : Sem) (cmpP eqP : Nat) (op : CmpOp) (a b e' : Expr)
    (spec : ∀ x y, ∃ n : Int, s.p cmpP x y = .int n ∧ s.p eqP x y = .bool (decide (n = 0)))
    (h : s1004 eqP op a b = some e') (t : List Event) :
    eval s e' t = eval s (.cmp op (.prim cmpP a b) (.lit (.int 0))) t := by
  have core : ∀ (neg : Bool), eval s (if neg then .not (.prim eqP a b) else .prim eqP a b) t =
      eval s (.cmp (if neg then .ne else .eq) (.prim cmpP a b) (.lit (.int 0))) t := by
    intro neg
    cases neg <;> simp only [if_true, if_false, Bool.false_eq_true, eval] <;>
    (cases eval s a t with
     | mk ra t1 => cases ra with
       | panic => rfl
       | val va =>
         simp only
         cases eval s b t1 with
         | mk rb t2 => cases rb with
           | panic => rfl
           | val vb =>
             obtain ⟨n, h1, h2⟩ := spec va vb
             simp [h1, h2, evalCmp, cmpInt, evalNot])
  cases op with
  | eq => simp only [s1004] at h; injection h with h; subst h; exact core false
  | ne => simp only [s1004] at h; injection h with h; subst h; exact core true
  | lt => simp [s1004] at h
  | le => simp [s1004] at h
  | gt => simp [s1004] at h
  | ge => simp [s1004] at h

/-- QF1003 / QF1002: an if-else chain (or tagless switch) whose conditions compare one
call-free expression `x` with lists of values takes the same branch, panics alike and
produces the same events as the tagged switch that evaluates `x` once.  (The case values
may have effects; the check is more conservative and rejects those.) -/
theorem qf1003_preserves (s : Sem) (x : Expr) (ys : List Expr) (rest : List (List Expr))
    (hx : callFree x = true) (hne : ∀ c ∈ ys :: rest, c ≠ []) (t : List Event) :
    ifChain s x (ys :: rest) 0 t = tagSwitch s x (ys :: rest) t := by
  have hxe : ∀ t, eval s x t = ((eval s x []).1, t) := callFree_trace s x hx
  unfold tagSwitch
  rw [hxe t]
  cases hv : (eval s x []).1 with
  | val v => exact ifChain_switch s x v hx hv _ hne 0 t
  | panic => exact ifChain_panic s x hx hv ys rest (hne ys (by simp)) 0 t

example : ifChain ⟨fun _ _ _ => none, fun _ _ _ => .int 0, fun _ => .int 2⟩ (.var 0)
    [[.lit (.int 1)], [.lit (.int 2), .lit (.int 3)]] 0 [] = (some (some 1), []) := by decide

/-- The rules of the first batch as one relation: `Rewrites e e'` holds when one of the
modelled checks replaces `e` by `e'`. -/
inductive Rewrites (s : Sem) : Expr → Expr → Prop
  | s1002 (op val other e') : s1002 op val other = some e' →
      Rewrites s (.cmp op other (.lit (.bool val))) e'
  | s1002_left (op val other e') : s1002 op val other = some e' →
      Rewrites s (.cmp op (.lit (.bool val)) other) e'
  | qf1001 (r si pa operand e') : qf1001 r si pa operand = some e' → Rewrites s (.not operand) e'
  | s1003 (idx cont op c a b e') :
      (∀ x y, ∃ n : Int, s.p idx x y = .int n ∧ -1 ≤ n ∧ s.p cont x y = .bool (decide (n ≠ -1))) →
      s1003 cont op c a b = some e' → Rewrites s (.cmp op (.prim idx a b) (.lit (.int c))) e'
  | s1004 (cmpP eqP op a b e') :
      (∀ x y, ∃ n : Int, s.p cmpP x y = .int n ∧ s.p eqP x y = .bool (decide (n = 0))) →
      s1004 eqP op a b = some e' → Rewrites s (.cmp op (.prim cmpP a b) (.lit (.int 0))) e'
  | simplify (e) : Rewrites s e (simplify e)

/-- (iv) For ALL well-typed expressions (all operand instantiations, arbitrary stateful
opaque functions, arbitrary environments and histories): a rewrite of the first batch
does not change the result, the panics or the visible effects. -/
theorem rewrite_preserves (g : Sig) (s : Sem) (ok : SemOk g s) (e e' : Expr) (τ : Ty)
    (hty : tyOf g e = some τ) (h : Rewrites s e e') (t : List Event) : eval s e' t = eval s e t := by
  cases h with
  | s1002 op val other e' h =>
    refine s1002_preserves g s ok op val other e' ?_ h t
    cases op <;> simp [s1002] at h <;> (simp only [tyOf] at hty; split at hty <;> simp_all [Val.ty])
  | s1002_left op val other e' h =>
    refine s1002_preserves_left g s ok op val other e' ?_ h t
    cases op <;> simp [s1002] at h <;> (simp only [tyOf] at hty; split at hty <;> simp_all [Val.ty])
  | qf1001 r si pa operand e' h =>
    have : tyOf g (.not operand) = some .bool := by
      have := tyOf_not hty; simp [tyOf, this]
    exact qf1001_preserves g s ok r si pa operand e' this h t
  | s1003 idx cont op c a b e' spec h => exact s1003_preserves s idx cont op c a b e' spec h t
  | s1004 cmpP eqP op a b e' spec h => exact s1004_preserves s cmpP eqP op a b e' spec h t
  | simplify e => exact eval_simplify g s ok e τ hty t

-- non-vacuity: `!(f(x) && y < 3)` with a stateful f, its De Morgan form, and S1002 on a comparison
example : qf1001 false true true (.paren (.and (.call 0 (.var 0)) (.cmp .lt (.var 1) (.lit (.int 3))))) =
    some (.paren (.or (.not (.call 0 (.var 0))) (.cmp .ge (.var 1) (.lit (.int 3))))) := by decide
example : s1002 .eq false (.cmp .lt (.var 1) (.lit (.int 3))) =
    some (.not (.paren (.cmp .lt (.var 1) (.lit (.int 3))))) := by decide
example : tyOf ⟨fun _ => .int, fun _ => .int, fun _ => .bool, fun _ => .int, fun _ => .int, fun _ => .int⟩
    (.not (.paren (.and (.call 0 (.var 0)) (.cmp .lt (.var 1) (.lit (.int 3)))))) = some .bool := by decide

end Rw

end Verif.C16
