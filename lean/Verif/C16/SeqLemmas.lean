import Verif.C16.EditLemmas
namespace Verif.C16
variable {α : Type}

/-! ### re-basing (`shift`) keeps an edit set well-formed and commutes -/

theorem shift_apart (a x y : Edit α) (ha : a.start ≤ a.stop) (hx : x.start ≤ x.stop) (hy : y.start ≤ y.stop)
    (hax : a.apart x) (hay : a.apart y) (hxy : x.apart y) : (shift a x).apart (shift a y) := by
  unfold Edit.apart Edit.disjoint Edit.before shift at *
  split <;> split <;> (try dsimp only) <;> omega

theorem shift_inBounds (a x : Edit α) (n : Nat) (ha : a.inBounds n) (hx : x.inBounds n) (hax : a.disjoint x) :
    (shift a x).inBounds (a.start + a.new.length + (n - a.stop)) := by
  unfold Edit.inBounds Edit.disjoint Edit.before shift at *
  split <;> (try dsimp only) <;> omega

/-- `x` displaced by the length change of `a`. -/
def moved (a x : Edit α) : Edit α :=
  { x with start := x.start - (a.stop - a.start) + a.new.length,
           stop := x.stop - (a.stop - a.start) + a.new.length }

theorem moved_start (a x : Edit α) : (moved a x).start = x.start - (a.stop - a.start) + a.new.length := rfl
theorem moved_stop (a x : Edit α) : (moved a x).stop = x.stop - (a.stop - a.start) + a.new.length := rfl
theorem moved_new (a x : Edit α) : (moved a x).new = x.new := rfl

theorem shift_pos (a x : Edit α) (h : a.stop ≤ x.start ∧ a.start < x.stop) : shift a x = moved a x := by
  simp [shift, moved, h]

theorem shift_neg (a x : Edit α) (h : ¬ (a.stop ≤ x.start ∧ a.start < x.stop)) : shift a x = x := by
  simp [shift, h]

theorem edit_ext (x y : Edit α) (h1 : x.start = y.start) (h2 : x.stop = y.stop) (h3 : x.new = y.new) : x = y := by
  cases x; cases y; simp_all

theorem shift_shift (a b x : Edit α) (ha : a.start ≤ a.stop) (hb : b.start ≤ b.stop) (hx : x.start ≤ x.stop)
    (hab : a.apart b) (hax : a.apart x) (hbx : b.apart x) :
    shift (shift a b) (shift a x) = shift (shift b a) (shift b x) := by
  unfold Edit.apart Edit.disjoint Edit.before at *
  obtain ⟨hab, hab'⟩ := hab
  obtain ⟨hax, hax'⟩ := hax
  obtain ⟨hbx, hbx'⟩ := hbx
  rcases hab with hab | hab <;> rcases hax with hax | hax <;> rcases hbx with hbx | hbx <;>
    first
    | (exfalso; omega)
    | (simp (disch := ((try simp only [moved_start, moved_stop, moved_new]); omega)) only [shift_pos, shift_neg]
       try (apply edit_ext <;> simp only [moved_start, moved_stop, moved_new] <;> omega))

/-! ### two disjoint edits commute -/

theorem split_at (l : List α) (n : Nat) (h : n ≤ l.length) : ∃ P S, l = P ++ S ∧ P.length = n :=
  ⟨l.take n, l.drop n, (List.take_append_drop n l).symm, by simp [List.length_take]; omega⟩

theorem applyOne_decomp (P A S : List α) (e : Edit α) (h1 : e.start = P.length)
    (h2 : e.stop = P.length + A.length) : applyOne (P ++ (A ++ S)) e = P ++ (e.new ++ S) := by
  unfold applyOne
  rw [h1, h2]
  have t : List.take P.length (P ++ (A ++ S)) = P := by simp
  have d : List.drop (P.length + A.length) (P ++ (A ++ S)) = S := by
    rw [List.drop_length_add_append]; simp
  rw [t, d, List.append_assoc]

theorem applyOne_comm_before (src : List α) (a b : Edit α) (ha : a.inBounds src.length)
    (hb : b.inBounds src.length) (hab : a.before b) :
    applyOne (applyOne src a) (shift a b) = applyOne (applyOne src b) (shift b a) := by
  unfold Edit.inBounds Edit.before at *
  rw [shift_pos a b hab, shift_neg b a (by omega)]
  obtain ⟨P, T1, rfl, hP⟩ := split_at src a.start (by omega)
  obtain ⟨A, T2, rfl, hA⟩ := split_at T1 (a.stop - a.start) (by simp at *; omega)
  obtain ⟨M, T3, rfl, hM⟩ := split_at T2 (b.start - a.stop) (by simp at *; omega)
  obtain ⟨B, S, rfl, hB⟩ := split_at T3 (b.stop - b.start) (by simp at *; omega)
  rw [applyOne_decomp P A (M ++ (B ++ S)) a (by omega) (by omega)]
  have e1 : P ++ (a.new ++ (M ++ (B ++ S))) = (P ++ (a.new ++ M)) ++ (B ++ S) := by simp
  rw [e1, applyOne_decomp (P ++ (a.new ++ M)) B S (moved a b)
    (by simp [moved_start]; omega) (by simp [moved_stop]; omega)]
  have e2 : P ++ (A ++ (M ++ (B ++ S))) = (P ++ (A ++ M)) ++ (B ++ S) := by simp
  rw [e2, applyOne_decomp (P ++ (A ++ M)) B S b (by simp; omega) (by simp; omega)]
  have e3 : (P ++ (A ++ M)) ++ (b.new ++ S) = P ++ (A ++ (M ++ (b.new ++ S))) := by simp
  rw [e3, applyOne_decomp P A (M ++ (b.new ++ S)) a (by omega) (by omega)]
  simp [moved_new]

theorem applyOne_comm (src : List α) (a b : Edit α) (ha : a.inBounds src.length)
    (hb : b.inBounds src.length) (hab : a.disjoint b) :
    applyOne (applyOne src a) (shift a b) = applyOne (applyOne src b) (shift b a) := by
  rcases hab with h | h
  · exact applyOne_comm_before src a b ha hb h
  · exact (applyOne_comm_before src b a hb ha h).symm

theorem applyOne_length (src : List α) (a : Edit α) (ha : a.inBounds src.length) :
    (applyOne src a).length = a.start + a.new.length + (src.length - a.stop) := by
  unfold Edit.inBounds at ha
  simp [applyOne, List.length_take, List.length_drop]; omega

/-! ### sequential application: invariance under reordering -/

/-- Well-formed for a re-basing client: within bounds, pairwise non-overlapping, and no
pure insertion touches another edit. -/
def WFApart (n : Nat) (es : List (Edit α)) : Prop :=
  (∀ e ∈ es, e.inBounds n) ∧ es.Pairwise Edit.apart

instance (n : Nat) (es : List (Edit α)) : Decidable (WFApart n es) := by unfold WFApart; exact inferInstance

theorem applySeq_cons (src : List α) (e : Edit α) (rest : List (Edit α)) :
    applySeq src (e :: rest) = applySeq (applyOne src e) (rest.map (shift e)) := by
  rw [applySeq]

theorem apart_symm (a b : Edit α) (h : a.apart b) : b.apart a := by
  unfold Edit.apart Edit.disjoint at *
  obtain ⟨h1, h2⟩ := h
  exact ⟨h1.symm, fun h => (h2 h.symm).symm⟩

theorem wfApart_step (src : List α) (a : Edit α) (rest : List (Edit α))
    (h : WFApart src.length (a :: rest)) :
    WFApart (applyOne src a).length (rest.map (shift a)) := by
  obtain ⟨hb, hp⟩ := h
  rw [List.pairwise_cons] at hp
  have hab := hb a (by simp)
  refine ⟨?_, ?_⟩
  · intro e he
    obtain ⟨x, hx, rfl⟩ := List.mem_map.1 he
    rw [applyOne_length src a hab]
    exact shift_inBounds a x _ hab (hb x (by simp [hx])) (hp.1 x hx).1
  · rw [List.pairwise_map]
    refine List.Pairwise.imp_of_mem ?_ hp.2
    intro x y hx hy hxy
    exact shift_apart a x y hab.1 (hb x (by simp [hx])).1 (hb y (by simp [hy])).1 (hp.1 x hx) (hp.1 y hy) hxy

theorem wfApart_perm (n : Nat) (es es' : List (Edit α)) (h : WFApart n es) (hp : es'.Perm es) :
    WFApart n es' :=
  ⟨fun e he => h.1 e (hp.mem_iff.1 he),
   (hp.pairwise_iff (fun {a b} hab => apart_symm a b hab)).2 h.2⟩

theorem applySeq_swap (src : List α) (a b : Edit α) (rest : List (Edit α))
    (h : WFApart src.length (a :: b :: rest)) :
    applySeq src (a :: b :: rest) = applySeq src (b :: a :: rest) := by
  obtain ⟨hb, hp⟩ := h
  rw [List.pairwise_cons, List.pairwise_cons] at hp
  have ha' := hb a (by simp)
  have hb' := hb b (by simp)
  have hab := hp.1 b (by simp)
  simp only [applySeq_cons, List.map_cons, List.map_map]
  rw [applyOne_comm src a b ha' hb' hab.1]
  congr 1
  apply List.map_congr_left
  intro x hx
  simp only [Function.comp]
  exact shift_shift a b x ha'.1 hb'.1 (hb x (by simp [hx])).1 hab (hp.1 x (by simp [hx])) (hp.2.1 x hx)

theorem applySeq_front : ∀ (k : Nat) (l : List (Edit α)) (src : List α) (a : Edit α) (m : List (Edit α)),
    l.length = k → WFApart src.length (l ++ a :: m) →
    applySeq src (l ++ a :: m) = applySeq src (a :: (l ++ m)) := by
  intro k
  induction k with
  | zero =>
    intro l src a m hl _
    have : l = [] := List.eq_nil_of_length_eq_zero hl
    subst this; rfl
  | succ k ih =>
    intro l src a m hl h
    cases l with
    | nil => simp at hl
    | cons x l =>
      have h1 := wfApart_step src x (l ++ a :: m) h
      rw [List.cons_append, applySeq_cons, List.map_append, List.map_cons]
      rw [List.map_append, List.map_cons] at h1
      rw [ih (l.map (shift x)) _ _ _ (by simp at hl ⊢; omega) h1]
      have e : shift x a :: (l.map (shift x) ++ m.map (shift x)) = (a :: (l ++ m)).map (shift x) := by simp
      rw [e, ← applySeq_cons]
      refine applySeq_swap src x a (l ++ m) (wfApart_perm _ _ _ h ?_)
      exact (List.Perm.cons x (List.perm_middle.symm))

theorem applySeq_perm : ∀ (n : Nat) (es es' : List (Edit α)) (src : List α), es.length = n → es.Perm es' →
    WFApart src.length es → applySeq src es = applySeq src es' := by
  intro n
  induction n with
  | zero =>
    intro es es' src hl hp _
    have : es = [] := List.eq_nil_of_length_eq_zero hl
    subst this
    rw [List.nil_perm.1 hp]
  | succ n ih =>
    intro es es' src hl hp h
    cases es with
    | nil => simp at hl
    | cons a r =>
      have ham : a ∈ es' := hp.subset (by simp)
      obtain ⟨l, m, rfl⟩ := List.append_of_mem ham
      have h' : WFApart src.length (l ++ a :: m) := wfApart_perm _ _ _ h hp.symm
      rw [applySeq_front l.length l src a m rfl h', applySeq_cons, applySeq_cons]
      have hr : r.Perm (l ++ m) := (hp.trans List.perm_middle).cons_inv
      exact ih (r.map (shift a)) ((l ++ m).map (shift a)) _ (by simp at hl ⊢; omega) (hr.map _)
        (wfApart_step src a r h)

/-! ### sequential application of a sorted chain = splice -/

/-- Positions relative to a text whose first `pos` original bytes were replaced by `k` bytes. -/
def rebase (pos k : Nat) (x : Edit α) : Edit α :=
  { x with start := x.start - pos + k, stop := x.stop - pos + k }

theorem applySeq_splice (src : List α) (es : List (Edit α)) :
    ∀ (pos : Nat) (R : List α), pos ≤ src.length →
      (∀ e ∈ es, e.inBounds src.length) → (∀ e ∈ es, pos ≤ e.start) → SortedEdits es →
      applySeq (R ++ src.drop pos) (es.map (rebase pos R.length)) = R ++ spliceFrom src pos es := by
  induction es with
  | nil => intro pos R _ _ _ _; simp [applySeq, spliceFrom]
  | cons e rest ih =>
    intro pos R hpos hb hge hs
    obtain ⟨hse, hen⟩ := hb e (by simp)
    have hpe := hge e (by simp)
    unfold SortedEdits at hs
    rw [List.pairwise_cons] at hs
    rw [List.map_cons, applySeq_cons, List.map_map]
    have happ : applyOne (R ++ List.drop pos src) (rebase pos R.length e) =
        (R ++ List.drop pos (List.take e.start src) ++ e.new) ++ List.drop e.stop src := by
      unfold applyOne rebase
      dsimp only
      have s1 : e.start - pos + R.length = R.length + (e.start - pos) := by omega
      have t1 : e.stop - pos + R.length = R.length + (e.stop - pos) := by omega
      rw [s1, t1, List.take_length_add_append, List.drop_length_add_append, List.drop_drop]
      have e1 : pos + (e.stop - pos) = e.stop := by omega
      rw [e1, List.drop_take]
    have hlen : (R ++ List.drop pos (List.take e.start src) ++ e.new).length = R.length + (e.start - pos) + e.new.length := by
      simp [List.length_append, List.length_drop, List.length_take]; omega
    have hmap : rest.map (shift (rebase pos R.length e) ∘ rebase pos R.length) =
        rest.map (rebase e.stop (R ++ List.drop pos (List.take e.start src) ++ e.new).length) := by
      apply List.map_congr_left
      intro x hx
      have hx1 := hs.1 x hx
      have hxb := hb x (by simp [hx])
      unfold Edit.before Edit.inBounds at *
      simp only [Function.comp]
      rw [shift_pos _ _ (by unfold rebase; dsimp only; omega)]
      rw [hlen]
      apply edit_ext
      · simp only [moved_start, rebase]; omega
      · simp only [moved_stop, rebase]; omega
      · simp [moved_new, rebase]
    rw [happ, hmap]
    rw [ih e.stop _ hen (fun x hx => hb x (by simp [hx])) (fun x hx => (hs.1 x hx).1) hs.2]
    simp [spliceFrom, List.append_assoc]

theorem rebase_zero (es : List (Edit α)) : es.map (rebase 0 0) = es := by
  have : (rebase 0 0 : Edit α → Edit α) = id := by
    funext x; cases x; simp [rebase]
  rw [this, List.map_id]

theorem applySeq_sorted (src : List α) (es : List (Edit α)) (hb : ∀ e ∈ es, e.inBounds src.length)
    (hs : SortedEdits es) : applySeq src es = spliceFrom src 0 es := by
  have := applySeq_splice src es 0 [] (Nat.zero_le _) hb (fun _ _ => Nat.zero_le _) hs
  simpa [rebase_zero] using this

end Verif.C16
