/-
C16 — theorems about the control-flow side of QF1006 and QF1003/QF1002 (model: Control.lean).
-/
import Verif.C16.Control
namespace Verif.C16.Ctl
variable {σ : Type}

/-! ## QF1006: lifting `if c { break lab }` into the loop condition -/

/-- For ALL conditions and bodies (arbitrary effects and outcomes: labelled/unlabelled break and
continue, return), all fuels and states: if the lifted `break lab` ends exactly the loop it is
lifted out of (`lab` is absent or is the loop's own label), then `own: for { if c { break lab };
body }` and `own: for !c { body }` end the same way in the same state. -/
theorem qf1006_loop_preserves (own lab : Option Nat) (c : σ → Bool × σ) (body : σ → Out × σ)
    (h : exitsLoop own (.brk lab) = true) (n : Nat) (s : σ) :
    loopIf own lab c body n s = loopCond own c body n s := by
  induction n generalizing s with
  | zero => rfl
  | succ n ih =>
    simp only [loopIf, loopCond, h, if_true]
    split
    · rfl
    · split
      · exact ih _
      · rfl

/-- The side condition is what the analyzer's pattern demands: no label at all. -/
theorem qf1006_pattern_ok (own : Option Nat) : exitsLoop own (.brk none) = true := rfl

example : loopIf (σ := Nat) (some 1) (some 1) (fun s => (decide (s ≥ 2), s)) (fun s => (.normal, s + 1)) 5 0
    = some (.normal, 2) := by decide

/-- A break that names ANOTHER (enclosing) statement must not be lifted: as soon as the
condition holds, the original leaves the loop with `break l` pending — the enclosing
statement labelled `l` ends — while the rewritten loop just ends normally. -/
theorem qf1006_outer_label_differs (own : Option Nat) (l : Nat) (hne : own ≠ some l)
    (c : σ → Bool × σ) (body : σ → Out × σ) (n : Nat) (s : σ) (hc : (c s).1 = true) :
    loopIf own (some l) c body (n + 1) s = some (.brk (some l), (c s).2) ∧
    loopCond own c body (n + 1) s = some (.normal, (c s).2) := by
  have h : exitsLoop own (.brk (some l)) = false := by
    simp [exitsLoop, hne]
  simp [loopIf, loopCond, hc, h]

example : loopIf (σ := Nat) none (some 7) (fun s => (true, s)) (fun s => (.normal, s)) 1 0
    ≠ loopCond none (fun s => (true, s)) (fun s => (.normal, s)) 1 0 := by decide

/-! ## QF1003 / QF1002: bodies of the chain become clauses of a switch -/

/-- If no body of the chain INCLUDING the final else ends in a break that the new switch would
consume, the switch statement ends like the if-else chain, in the same state — for every
selected branch. -/
theorem qf1003_bodies_preserve (bodies : List (σ → Out × σ)) (els : Option (σ → Out × σ))
    (hb : ∀ b ∈ bodies, ∀ s, (b s).1 ≠ .brk none)
    (he : ∀ b, els = some b → ∀ s, (b s).1 ≠ .brk none)
    (k : Option Nat) (s : σ) :
    switchStmt bodies els k s = ifStmt bodies els k s := by
  have key : (runBranch bodies els k s).1 ≠ .brk none := by
    unfold runBranch
    split
    · split
      · rename_i b hi
        exact hb b (List.mem_of_getElem? hi) s
      · simp
    · split
      · first
          | exact he _ rfl s
          | (rename_i b h; exact he b h s)
      · simp
  unfold switchStmt ifStmt
  generalize runBranch bodies els k s = r at key ⊢
  obtain ⟨o, s'⟩ := r
  cases o with
  | brk l =>
    cases l with
    | none => exact absurd rfl key
    | some l => simp [switchOut]
  | _ => rfl

example : switchStmt (σ := Nat) [fun s => (.cont none, s + 1)] (some (fun s => (.ret, s))) (some 0) 3
    = (.cont none, 4) := by decide

/-- The final else is not exempt: a `break` there leaves the enclosing loop before the
rewrite and only the switch after it. -/
theorem qf1003_else_break_differs (bodies : List (σ → Out × σ)) (s : σ) :
    ifStmt bodies (some (fun s => (.brk none, s))) none s = (.brk none, s) ∧
    switchStmt bodies (some (fun s => (.brk none, s))) none s = (.normal, s) := by
  simp [ifStmt, switchStmt, runBranch, switchOut]

/-! ## QF1003 / QF1002: no constant is listed twice -/

theorem mem_consts (c : String) (br : List (Option String)) : c ∈ consts br ↔ some c ∈ br := by
  simp [consts]

theorem scanBranch_spec (br : List (Option String)) : ∀ seen : List String,
    match scanBranch seen br with
    | none => ¬ ((consts br).Nodup ∧ ∀ c ∈ consts br, c ∉ seen)
    | some seen' => (consts br).Nodup ∧ (∀ c ∈ consts br, c ∉ seen) ∧
        ∀ x, x ∈ seen' ↔ (x ∈ seen ∨ x ∈ consts br) := by
  induction br with
  | nil => intro seen; simp [scanBranch, consts]
  | cons a rest ih =>
    intro seen
    cases a with
    | none =>
      have := ih seen
      simpa [scanBranch, consts] using this
    | some c =>
      by_cases hc : c ∈ seen
      · simp only [scanBranch, hc, if_true]
        intro h
        exact h.2 c (by simp [consts]) hc
      · simp only [scanBranch, hc, if_false]
        have := ih (c :: seen)
        have hcons : consts (some c :: rest) = c :: consts rest := by simp [consts]
        cases hs : scanBranch (c :: seen) rest with
        | none =>
          rw [hs] at this
          simp only at this ⊢
          rw [hcons]
          intro h
          apply this
          refine ⟨(List.nodup_cons.mp h.1).2, ?_⟩
          intro x hx
          simp only [List.mem_cons, not_or]
          refine ⟨?_, h.2 x (List.mem_cons_of_mem _ hx)⟩
          intro hxc
          subst hxc
          exact (List.nodup_cons.mp h.1).1 hx
        | some seen' =>
          rw [hs] at this
          simp only at this ⊢
          rw [hcons]
          obtain ⟨hnd, hdis, hmem⟩ := this
          refine ⟨List.nodup_cons.mpr ⟨?_, hnd⟩, ?_, ?_⟩
          · intro hin
            exact hdis c hin (List.mem_cons_self)
          · intro x hx
            cases List.mem_cons.mp hx with
            | inl h => subst h; exact hc
            | inr h => exact fun hxs => hdis x h (List.mem_cons_of_mem _ hxs)
          · intro x
            rw [hmem x]
            simp only [List.mem_cons]
            constructor
            · rintro ((h | h) | h)
              · exact Or.inr (Or.inl h)
              · exact Or.inl h
              · exact Or.inr (Or.inr h)
            · rintro (h | h | h)
              · exact Or.inl (Or.inr h)
              · exact Or.inl (Or.inl h)
              · exact Or.inr h

theorem noDupFrom_spec (brs : List (List (Option String))) : ∀ seen : List String,
    noDupFrom seen brs = true ↔ ((allConsts brs).Nodup ∧ ∀ c ∈ allConsts brs, c ∉ seen) := by
  induction brs with
  | nil => intro seen; simp [noDupFrom, allConsts]
  | cons br rest ih =>
    intro seen
    have hsp := scanBranch_spec br seen
    cases hs : scanBranch seen br with
    | none =>
      rw [hs] at hsp
      simp only at hsp
      simp only [noDupFrom, hs, allConsts]
      constructor
      · intro h; cases h
      · intro h
        exfalso
        apply hsp
        refine ⟨(List.nodup_append.mp h.1).1, ?_⟩
        intro c hcm
        exact h.2 c (List.mem_append_left _ hcm)
    | some seen' =>
      rw [hs] at hsp
      simp only at hsp
      obtain ⟨hnd, hdis, hmem⟩ := hsp
      simp only [noDupFrom, hs, allConsts]
      rw [ih seen']
      constructor
      · rintro ⟨hr, hrs⟩
        refine ⟨List.nodup_append.mpr ⟨hnd, hr, ?_⟩, ?_⟩
        · intro a ha b hb hab
          subst hab
          exact hrs a hb ((hmem a).mpr (Or.inr ha))
        · intro c hcm
          cases List.mem_append.mp hcm with
          | inl h => exact hdis c h
          | inr h => exact fun hcs => hrs c h ((hmem c).mpr (Or.inl hcs))
      · rintro ⟨hall, hseen⟩
        obtain ⟨_, hr, hx⟩ := List.nodup_append.mp hall
        refine ⟨hr, ?_⟩
        intro c hcr hcs
        cases (hmem c).mp hcs with
        | inl h => exact hseen c (List.mem_append_right _ hcr) h
        | inr h => exact hx c h c hcr rfl

/-- The chain-wide `seen` set accepts a chain EXACTLY when the constant case values of the
resulting switch are pairwise distinct (no "duplicate case" error).  Being an `iff` with an
order-independent right-hand side, the verdict does not depend on the (random, the branches
are kept in a Go map) order in which the branches are visited. -/
theorem qf1003_seen_iff_nodup (brs : List (List (Option String))) :
    noDup brs = true ↔ (allConsts brs).Nodup := by
  unfold noDup
  rw [noDupFrom_spec brs []]
  simp

example : noDup [[some "200"], [some "404", none, some "410"], [some "204"]] = true := by decide

/-- A fresh set per branch is not enough: it accepts a chain that lists 200 in two
different branches. -/
theorem qf1003_per_branch_seen_insufficient :
    noDupPerBranch [[some "200"], [some "204", some "200"]] = true ∧
    ¬ (allConsts [[some "200"], [some "204", some "200"]]).Nodup ∧
    noDup [[some "200"], [some "204", some "200"]] = false := by
  decide

end Verif.C16.Ctl
