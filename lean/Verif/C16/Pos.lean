/-
C16 (i) — model of go/token's `File`: the line table and `File.position`.

Go (go/token/position.go):

    type File struct { name string; base, size int; lines []int; ... }
    func (f *File) unpack(offset int, adjusted bool) (filename string, line, column int) {
        if i := searchInts(f.lines, offset); i >= 0 { line, column = i+1, offset-f.lines[i]+1 } ... }
    func (f *File) fixOffset(offset) -- clamps to [0, size]
    AddLine(offset): appended iff (no lines yet or last < offset) and offset < size

`lines[0] = 0`; the scanner adds a line start after every '\n' that is not the last byte.
`searchInts` (a binary search for the largest i with lines[i] <= offset) is modelled by
the linear scan `lineIdx`, which is its specification on a sorted table.
//line-adjusted positions are outside this model (the statement exempts them).
-/
namespace Verif.C16

structure TFile where
  size : Nat
  lines : List Nat
  deriving Repr

/-- Index of the last line start that is `≤ x` (scan from the left, stop at the first
larger one).  For a sorted table this is `searchInts`. -/
def lineIdx : List Nat → Nat → Nat
  | [], _ => 0
  | [_], _ => 0
  | _ :: b :: rest, x => if b ≤ x then 1 + lineIdx (b :: rest) x else 0

/-- `fixOffset`: offsets are clamped into the file. -/
def fixOffset (f : TFile) (off : Nat) : Nat := min off f.size

/-- `File.position` without //line adjustment: 1-based line and column. -/
def position (f : TFile) (off : Nat) : Nat × Nat :=
  let o := fixOffset f off
  let i := lineIdx f.lines o
  (i + 1, o - f.lines.getD i 0 + 1)

/-- Number of bytes of 0-based line `i` before its terminating newline (the last line
extends to the end of the file). -/
def lineLen (f : TFile) (i : Nat) : Nat :=
  (if i + 1 < f.lines.length then f.lines.getD (i + 1) 0 - 1 else f.size) - f.lines.getD i 0

/-- The table `go/scanner` builds for a byte sequence: 0, and `i+1` for every newline at
`i` that is not the last byte (AddLine ignores offsets `≥ size`). -/
def lineStartsFrom (size : Nat) : Nat → List Nat → List Nat
  | _, [] => []
  | i, b :: rest =>
    if b = 10 ∧ i + 1 < size then (i + 1) :: lineStartsFrom size (i + 1) rest
    else lineStartsFrom size (i + 1) rest

def fileOf (bytes : List Nat) : TFile :=
  { size := bytes.length, lines := 0 :: lineStartsFrom bytes.length 0 bytes }

/-- Well-formed table: starts with 0, strictly increasing, every start inside the file. -/
def TFile.WF (f : TFile) : Prop :=
  f.lines.head? = some 0 ∧ f.lines.Pairwise (· < ·) ∧ ∀ l ∈ f.lines, l ≤ f.size

instance (f : TFile) : Decidable f.WF := by unfold TFile.WF; exact inferInstance

/-- Lexicographic order on (line, column). -/
def posLe (a b : Nat × Nat) : Prop := a.1 < b.1 ∨ (a.1 = b.1 ∧ a.2 ≤ b.2)

instance (a b : Nat × Nat) : Decidable (posLe a b) := by unfold posLe; exact inferInstance

end Verif.C16
