import Verif.C16.Pos
namespace Verif.C16

theorem lineIdx_lt (l : List Nat) (x : Nat) (h : l ≠ []) : lineIdx l x < l.length := by
  induction l with
  | nil => exact absurd rfl h
  | cons a t ih =>
    cases t with
    | nil => simp [lineIdx]
    | cons b rest =>
      simp only [lineIdx]
      split
      · have := ih (by simp); simp only [List.length_cons] at this ⊢; omega
      · simp

theorem lineIdx_le (l : List Nat) (x : Nat) (h0 : ∀ a, l.head? = some a → a ≤ x) :
    l.getD (lineIdx l x) 0 ≤ x := by
  induction l with
  | nil => simp [lineIdx]
  | cons a t ih =>
    cases t with
    | nil => simpa [lineIdx] using h0 a
    | cons b rest =>
      simp only [lineIdx]
      split
      · rename_i hb
        have := ih (by intro a' ha'; simp at ha'; omega)
        rw [Nat.add_comm]; simpa using this
      · simpa using h0 a

theorem lineIdx_next (l : List Nat) (x : Nat) (h : lineIdx l x + 1 < l.length) :
    x < l.getD (lineIdx l x + 1) 0 := by
  induction l with
  | nil => simp at h
  | cons a t ih =>
    cases t with
    | nil => simp [lineIdx] at h
    | cons b rest =>
      simp only [lineIdx] at h ⊢
      split
      · rename_i hb
        rw [if_pos hb] at h
        have := ih (by simp only [List.length_cons] at h ⊢; omega)
        have e : 1 + lineIdx (b :: rest) x + 1 = (lineIdx (b :: rest) x + 1) + 1 := by omega
        rw [e]; simpa using this
      · rename_i hb; simp; omega

theorem lineIdx_mono (l : List Nat) (x y : Nat) (h : x ≤ y) : lineIdx l x ≤ lineIdx l y := by
  induction l with
  | nil => simp [lineIdx]
  | cons a t ih =>
    cases t with
    | nil => simp [lineIdx]
    | cons b rest =>
      simp only [lineIdx]
      by_cases hb : b ≤ x
      · have hb' : b ≤ y := by omega
        simp [hb, hb']; exact ih
      · simp [hb]

end Verif.C16
