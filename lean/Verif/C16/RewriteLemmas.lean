import Verif.C16.Rewrite
namespace Verif.C16.Rw

theorem evalNot_ty {v r : Val} (h : evalNot v = .val r) : r.ty = .bool := by
  cases v <;> simp [evalNot] at h; subst h; rfl

theorem asBool_ty {v r : Val} (h : asBool v = .val r) : r.ty = .bool := by
  cases v <;> simp [asBool] at h; subst h; rfl

theorem evalCmp_ty {op : CmpOp} {a b r : Val} (h : evalCmp op a b = .val r) : r.ty = .bool := by
  cases a <;> cases b <;> cases op <;> simp [evalCmp] at h <;> subst h <;> rfl

theorem evalAdd_ty {a b r : Val} (h : evalAdd a b = .val r) : r.ty = .int := by
  cases a <;> cases b <;> simp [evalAdd] at h; subst h; rfl

theorem evalDiv_ty {a b r : Val} (h : evalDiv a b = .val r) : r.ty = .int := by
  cases a with
  | bool _ => cases b <;> simp [evalDiv] at h
  | int x =>
    cases b with
    | bool _ => simp [evalDiv] at h
    | int y =>
      simp only [evalDiv] at h
      split at h
      · simp at h
      · simp at h; subst h; rfl

/-- Type soundness: a well-typed expression evaluates to a value of its type (or panics). -/
theorem ty_sound (g : Sig) (s : Sem) (ok : SemOk g s) :
    ∀ (e : Expr) (τ : Ty) (t : List Event) (v : Val) (t' : List Event),
      tyOf g e = some τ → eval s e t = (.val v, t') → v.ty = τ := by
  intro e
  induction e with
  | lit v0 => intro τ t v t' hty he; simp [tyOf] at hty; simp [eval] at he; rw [← he.1]; exact hty
  | var x => intro τ t v t' hty he; simp [tyOf] at hty; simp [eval] at he; rw [← he.1, ok.env]; exact hty
  | call f a iha =>
    intro τ t v t' hty he
    simp only [tyOf] at hty
    split at hty <;> simp at hty
    simp only [eval] at he
    split at he
    · split at he
      · rename_i r hw; simp at he; rw [← he.1, ok.call _ _ _ _ hw]; exact hty
      · simp at he
    · simp at he
  | prim p a b iha ihb =>
    intro τ t v t' hty he
    simp only [tyOf] at hty
    split at hty <;> simp at hty
    simp only [eval] at he
    split at he
    · split at he
      · simp at he; rw [← he.1, ok.prim]; exact hty
      · simp at he
    · simp at he
  | paren e ih => intro τ t v t' hty he; exact ih τ t v t' (by simpa [tyOf] using hty) (by simpa [eval] using he)
  | not e ih =>
    intro τ t v t' hty he
    simp only [tyOf] at hty
    split at hty <;> simp at hty
    simp only [eval] at he
    split at he
    · simp at he; rw [← hty]; exact evalNot_ty he.1
    · simp at he
  | and a b iha ihb =>
    intro τ t v t' hty he
    simp only [tyOf] at hty
    split at hty <;> simp at hty
    simp only [eval] at he
    split at he
    · split at he
      · simp at he; rw [← hty]; exact asBool_ty he.1
      · simp at he
    · simp at he; rw [← hty, ← he.1]; rfl
    · simp at he
    · simp at he
  | or a b iha ihb =>
    intro τ t v t' hty he
    simp only [tyOf] at hty
    split at hty <;> simp at hty
    simp only [eval] at he
    split at he
    · split at he
      · simp at he; rw [← hty]; exact asBool_ty he.1
      · simp at he
    · simp at he; rw [← hty, ← he.1]; rfl
    · simp at he
    · simp at he
  | cmp op a b iha ihb =>
    intro τ t v t' hty he
    have hτ : τ = .bool := by
      simp only [tyOf] at hty
      split at hty
      · simpa using hty.symm
      · split at hty
        · simpa using hty.symm
        · simp at hty
    simp only [eval] at he
    split at he
    · split at he
      · simp at he; rw [hτ]; exact evalCmp_ty he.1
      · simp at he
    · simp at he
  | add a b iha ihb =>
    intro τ t v t' hty he
    simp only [tyOf] at hty
    split at hty <;> simp at hty
    simp only [eval] at he
    split at he
    · split at he
      · simp at he; rw [← hty]; exact evalAdd_ty he.1
      · simp at he
    · simp at he
  | div a b iha ihb =>
    intro τ t v t' hty he
    simp only [tyOf] at hty
    split at hty <;> simp at hty
    simp only [eval] at he
    split at he
    · split at he
      · simp at he; rw [← hty]; exact evalDiv_ty he.1
      · simp at he
    · simp at he

/-! ### evaluation lemmas for the rules -/

theorem tyOf_not {g : Sig} {e : Expr} {τ : Ty} (h : tyOf g (.not e) = some τ) : tyOf g e = some .bool := by
  simp only [tyOf] at h; split at h <;> simp at h; assumption

theorem eval_not_not (g : Sig) (s : Sem) (ok : SemOk g s) (e : Expr) (h : tyOf g e = some .bool) (t : List Event) :
    eval s (.not (.not e)) t = eval s e t := by
  simp only [eval]
  cases he : eval s e t with
  | mk r t1 =>
    cases r with
    | panic => rfl
    | val v =>
      have := ty_sound g s ok e .bool t v t1 h he
      cases v with
      | int n => simp [Val.ty] at this
      | bool b => simp [evalNot]

theorem eval_cmp_eq_true (g : Sig) (s : Sem) (ok : SemOk g s) (e : Expr) (h : tyOf g e = some .bool) (t : List Event) :
    eval s (.cmp .eq e (.lit (.bool true))) t = eval s e t := by
  simp only [eval]
  cases he : eval s e t with
  | mk r t1 =>
    cases r with
    | panic => rfl
    | val v =>
      have := ty_sound g s ok e .bool t v t1 h he
      cases v with
      | int n => simp [Val.ty] at this
      | bool b => cases b <;> rfl

theorem eval_cmp_ne_false (g : Sig) (s : Sem) (ok : SemOk g s) (e : Expr) (h : tyOf g e = some .bool) (t : List Event) :
    eval s (.cmp .ne e (.lit (.bool false))) t = eval s e t := by
  simp only [eval]
  cases he : eval s e t with
  | mk r t1 =>
    cases r with
    | panic => rfl
    | val v =>
      have := ty_sound g s ok e .bool t v t1 h he
      cases v with
      | int n => simp [Val.ty] at this
      | bool b => cases b <;> rfl

theorem eval_cmp_eq_false (g : Sig) (s : Sem) (ok : SemOk g s) (e : Expr) (h : tyOf g e = some .bool) (t : List Event) :
    eval s (.cmp .eq e (.lit (.bool false))) t = eval s (.not e) t := by
  simp only [eval]
  cases he : eval s e t with
  | mk r t1 =>
    cases r with
    | panic => rfl
    | val v =>
      have := ty_sound g s ok e .bool t v t1 h he
      cases v with
      | int n => simp [Val.ty] at this
      | bool b => cases b <;> rfl

theorem eval_cmp_ne_true (g : Sig) (s : Sem) (ok : SemOk g s) (e : Expr) (h : tyOf g e = some .bool) (t : List Event) :
    eval s (.cmp .ne e (.lit (.bool true))) t = eval s (.not e) t := by
  simp only [eval]
  cases he : eval s e t with
  | mk r t1 =>
    cases r with
    | panic => rfl
    | val v =>
      have := ty_sound g s ok e .bool t v t1 h he
      cases v with
      | int n => simp [Val.ty] at this
      | bool b => cases b <;> rfl

theorem tyOf_stripNots (g : Sig) (e : Expr) (h : tyOf g e = some .bool) : tyOf g (stripNots e) = some .bool := by
  fun_induction stripNots e with
  | case1 e ih =>
    exact ih (tyOf_not (tyOf_not h))
  | case2 e _ => exact h

theorem eval_stripNots (g : Sig) (s : Sem) (ok : SemOk g s) (e : Expr) (h : tyOf g e = some .bool) (t : List Event) :
    eval s (stripNots e) t = eval s e t := by
  fun_induction stripNots e with
  | case1 e ih =>
    have he : tyOf g e = some .bool := tyOf_not (tyOf_not h)
    rw [ih he, eval_not_not g s ok e he]
  | case2 e _ => rfl

theorem cmpInt_neg (op : CmpOp) (a b : Int) : cmpInt op.neg a b = !cmpInt op a b := by
  cases op <;> simp only [cmpInt, CmpOp.neg] <;> rw [← decide_not] <;> apply decide_eq_decide.2 <;> omega

theorem evalCmp_neg (op : CmpOp) (a b : Val) :
    evalCmp op.neg a b = (match evalCmp op a b with | .val v => evalNot v | .panic => .panic) := by
  cases a with
  | int x => cases b <;> simp [evalCmp, evalNot, cmpInt_neg]
  | bool x =>
    cases b with
    | int y => simp [evalCmp]
    | bool y => cases op <;> cases x <;> cases y <;> simp [evalCmp, CmpOp.neg, evalNot]

theorem tyOf_and {g : Sig} {a b : Expr} {τ : Ty} (h : tyOf g (.and a b) = some τ) :
    tyOf g a = some .bool ∧ tyOf g b = some .bool := by
  simp only [tyOf] at h; split at h <;> simp at h; assumption

theorem tyOf_or {g : Sig} {a b : Expr} {τ : Ty} (h : tyOf g (.or a b) = some τ) :
    tyOf g a = some .bool ∧ tyOf g b = some .bool := by
  simp only [tyOf] at h; split at h <;> simp at h; assumption

/-- NegateDeMorgan computes the negation: same value, same panics, same events in the same
order (short-circuit evaluation is preserved). -/
theorem eval_negDM (g : Sig) (s : Sem) (ok : SemOk g s) (r : Bool) :
    ∀ (e : Expr), tyOf g e = some .bool → ∀ t, eval s (negDM r e) t = eval s (.not e) t := by
  intro e
  induction e with
  | cmp op a b _ _ =>
    intro _ t
    simp only [negDM, eval]
    cases eval s a t with
    | mk ra t1 =>
      cases ra with
      | panic => rfl
      | val va =>
        simp only
        cases eval s b t1 with
        | mk rb t2 =>
          cases rb with
          | panic => rfl
          | val vb =>
            simp only [evalCmp_neg]
            cases evalCmp op va vb <;> rfl
  | and a b iha ihb =>
    intro h t
    obtain ⟨ha, hb⟩ := tyOf_and h
    simp only [negDM, eval]
    have iha' := iha ha t
    simp only [eval] at iha'
    rw [iha']
    cases eval s a t with
    | mk ra t1 =>
      cases ra with
      | panic => rfl
      | val va =>
        cases va with
        | int n => rfl
        | bool ba =>
          cases ba with
          | false => rfl
          | true =>
            simp only [evalNot, Bool.not_true]
            have ihb' := ihb hb t1
            simp only [eval] at ihb'
            rw [ihb']
            cases eval s b t1 with
            | mk rb t2 =>
              cases rb with
              | panic => rfl
              | val vb => cases vb <;> rfl
  | or a b iha ihb =>
    intro h t
    obtain ⟨ha, hb⟩ := tyOf_or h
    simp only [negDM, eval]
    have iha' := iha ha t
    simp only [eval] at iha'
    rw [iha']
    cases eval s a t with
    | mk ra t1 =>
      cases ra with
      | panic => rfl
      | val va =>
        cases va with
        | int n => rfl
        | bool ba =>
          cases ba with
          | true => rfl
          | false =>
            simp only [evalNot, Bool.not_false]
            have ihb' := ihb hb t1
            simp only [eval] at ihb'
            rw [ihb']
            cases eval s b t1 with
            | mk rb t2 =>
              cases rb with
              | panic => rfl
              | val vb => cases vb <;> rfl
  | paren e ih =>
    intro h t
    cases r with
    | false => rfl
    | true =>
      simp only [negDM, if_true]
      have := ih (by simpa [tyOf] using h) t
      simp only [eval] at this ⊢
      exact this
  | not e _ =>
    intro h t
    simp only [negDM]
    exact (eval_not_not g s ok e (tyOf_not h) t).symm
  | lit _ => intro _ _; rfl
  | var _ => intro _ _; rfl
  | call _ _ _ => intro _ _; rfl
  | prim _ _ _ _ _ => intro _ _; rfl
  | add _ _ _ _ => intro _ _; rfl
  | div _ _ _ _ => intro _ _; rfl

theorem tyOf_negDM (g : Sig) (r : Bool) : ∀ (e : Expr), tyOf g e = some .bool → tyOf g (negDM r e) = some .bool := by
  intro e
  induction e with
  | cmp op a b _ _ =>
    intro h
    simp only [negDM, tyOf] at h ⊢
    split at h
    · rename_i h1; simp [h1]
    · split at h
      · rename_i h0 h1
        have : ¬ (tyOf g a = some Ty.int ∧ tyOf g b = some Ty.int) := h0
        simp only [this, if_false]
        have hop : op.neg = .eq ∨ op.neg = .ne := by
          rcases h1.2.2 with rfl | rfl <;> simp [CmpOp.neg]
        simp [h1.1, h1.2.1, hop]
      · simp at h
  | and a b iha ihb =>
    intro h
    obtain ⟨ha, hb⟩ := tyOf_and h
    simp [negDM, tyOf, iha ha, ihb hb]
  | or a b iha ihb =>
    intro h
    obtain ⟨ha, hb⟩ := tyOf_or h
    simp [negDM, tyOf, iha ha, ihb hb]
  | paren e ih =>
    intro h
    cases r with
    | false => simp only [negDM, Bool.false_eq_true, if_false, tyOf] at h ⊢; simp [h]
    | true => simp only [negDM, if_true, tyOf] at h ⊢; exact ih h
  | not e _ => intro h; exact tyOf_not h
  | lit _ => intro h; simp only [negDM, tyOf] at h ⊢; simp [h]
  | var _ => intro h; simp only [negDM, tyOf] at h ⊢; simp [h]
  | call _ _ _ => intro h; simp only [negDM]; simp only [tyOf] at h ⊢; simp [h]
  | prim _ _ _ _ _ => intro h; simp only [negDM]; simp only [tyOf] at h ⊢; simp [h]
  | add _ _ _ _ => intro h; simp only [negDM]; simp only [tyOf] at h ⊢; simp [h]
  | div _ _ _ _ => intro h; simp only [negDM]; simp only [tyOf] at h ⊢; simp [h]

theorem eval_stripParens (s : Sem) : ∀ (e : Expr) (t : List Event), eval s (stripParens e) t = eval s e t := by
  intro e
  induction e with
  | paren e ih => intro t; simp only [stripParens, eval, ih]
  | not e ih => intro t; simp only [stripParens, eval, ih]
  | and a b iha ihb => intro t; simp only [stripParens, eval, iha, ihb]
  | or a b iha ihb => intro t; simp only [stripParens, eval, iha, ihb]
  | cmp op a b iha ihb => intro t; simp only [stripParens, eval, iha, ihb]
  | add a b iha ihb => intro t; simp only [stripParens, eval, iha, ihb]
  | div a b iha ihb => intro t; simp only [stripParens, eval, iha, ihb]
  | call f a ih => intro t; simp only [stripParens, eval, ih]
  | prim p a b iha ihb => intro t; simp only [stripParens, eval, iha, ihb]
  | lit _ => intro t; rfl
  | var _ => intro t; rfl

/-! ### SimplifyParentheses -/

theorem eval_and_assoc (s : Sem) (a b c : Expr) (t : List Event) :
    eval s (.and (.and a b) c) t = eval s (.and a (.and b c)) t := by
  simp only [eval]
  cases eval s a t with
  | mk ra t1 =>
    cases ra with
    | panic => rfl
    | val va =>
      cases va with
      | int n => rfl
      | bool ba =>
        cases ba with
        | false => rfl
        | true =>
          simp only
          cases eval s b t1 with
          | mk rb t2 =>
            cases rb with
            | panic => rfl
            | val vb =>
              cases vb with
              | int n => rfl
              | bool bb =>
                cases bb with
                | false => rfl
                | true =>
                  simp only [asBool]
                  cases eval s c t2 with
                  | mk rc t3 =>
                    cases rc with
                    | panic => rfl
                    | val vc => cases vc <;> rfl

theorem eval_or_assoc (s : Sem) (a b c : Expr) (t : List Event) :
    eval s (.or (.or a b) c) t = eval s (.or a (.or b c)) t := by
  simp only [eval]
  cases eval s a t with
  | mk ra t1 =>
    cases ra with
    | panic => rfl
    | val va =>
      cases va with
      | int n => rfl
      | bool ba =>
        cases ba with
        | true => rfl
        | false =>
          simp only
          cases eval s b t1 with
          | mk rb t2 =>
            cases rb with
            | panic => rfl
            | val vb =>
              cases vb with
              | int n => rfl
              | bool bb =>
                cases bb with
                | true => rfl
                | false =>
                  simp only [asBool]
                  cases eval s c t2 with
                  | mk rc t3 =>
                    cases rc with
                    | panic => rfl
                    | val vc => cases vc <;> rfl

theorem eval_rotAnd (s : Sem) : ∀ (b a : Expr) (t : List Event), eval s (rotAnd a b) t = eval s (.and a b) t := by
  intro b
  induction b with
  | and b c ihb ihc =>
    intro a t
    rw [rotAnd, ihc, ← eval_and_assoc]
    simp only [eval, ihb]
  | _ => intro a t; rfl

theorem eval_rotOr (s : Sem) : ∀ (b a : Expr) (t : List Event), eval s (rotOr a b) t = eval s (.or a b) t := by
  intro b
  induction b with
  | or b c ihb ihc =>
    intro a t
    rw [rotOr, ihc, ← eval_or_assoc]
    simp only [eval, ihb]
  | _ => intro a t; rfl

theorem tyOf_add {g : Sig} {a b : Expr} {τ : Ty} (h : tyOf g (.add a b) = some τ) :
    tyOf g a = some .int ∧ tyOf g b = some .int ∧ τ = .int := by
  simp only [tyOf] at h; split at h <;> simp at h
  rename_i h1; exact ⟨h1.1, h1.2, h.symm⟩

theorem eval_add_assoc (g : Sig) (s : Sem) (ok : SemOk g s) (a b c : Expr)
    (ha : tyOf g a = some .int) (hb : tyOf g b = some .int) (hc : tyOf g c = some .int) (t : List Event) :
    eval s (.add (.add a b) c) t = eval s (.add a (.add b c)) t := by
  simp only [eval]
  cases hea : eval s a t with
  | mk ra t1 =>
    cases ra with
    | panic => rfl
    | val va =>
      have := ty_sound g s ok a .int t va t1 ha hea
      cases va with
      | bool x => simp [Val.ty] at this
      | int x =>
        simp only
        cases heb : eval s b t1 with
        | mk rb t2 =>
          cases rb with
          | panic => rfl
          | val vb =>
            have := ty_sound g s ok b .int t1 vb t2 hb heb
            cases vb with
            | bool y => simp [Val.ty] at this
            | int y =>
              simp only [evalAdd]
              cases hec : eval s c t2 with
              | mk rc t3 =>
                cases rc with
                | panic => rfl
                | val vc =>
                  have := ty_sound g s ok c .int t2 vc t3 hc hec
                  cases vc with
                  | bool z => simp [Val.ty] at this
                  | int z => simp [Int.add_assoc]

theorem tyOf_rotAnd (g : Sig) : ∀ (b a : Expr), tyOf g (rotAnd a b) = tyOf g (.and a b) := by
  intro b
  induction b with
  | and b c ihb ihc =>
    intro a; rw [rotAnd, ihc]; simp only [tyOf, ihb]
    by_cases h1 : tyOf g a = some .bool <;> by_cases h2 : tyOf g b = some .bool <;>
      by_cases h3 : tyOf g c = some .bool <;> simp [h1, h2, h3]
  | _ => intro a; rfl

theorem tyOf_rotOr (g : Sig) : ∀ (b a : Expr), tyOf g (rotOr a b) = tyOf g (.or a b) := by
  intro b
  induction b with
  | or b c ihb ihc =>
    intro a; rw [rotOr, ihc]; simp only [tyOf, ihb]
    by_cases h1 : tyOf g a = some .bool <;> by_cases h2 : tyOf g b = some .bool <;>
      by_cases h3 : tyOf g c = some .bool <;> simp [h1, h2, h3]
  | _ => intro a; rfl

theorem tyOf_rotAdd (g : Sig) : ∀ (b a : Expr), tyOf g (rotAdd a b) = tyOf g (.add a b) := by
  intro b
  induction b with
  | add b c ihb ihc =>
    intro a; rw [rotAdd, ihc]; simp only [tyOf, ihb]
    by_cases h1 : tyOf g a = some .int <;> by_cases h2 : tyOf g b = some .int <;>
      by_cases h3 : tyOf g c = some .int <;> simp [h1, h2, h3]
  | _ => intro a; rfl

theorem tyOf_simplify (g : Sig) : ∀ (e : Expr), tyOf g (simplify e) = tyOf g e := by
  intro e
  induction e with
  | paren e ih => simp only [simplify, tyOf, ih]
  | not e ih => simp only [simplify, tyOf, ih]
  | and a b iha ihb => simp only [simplify, tyOf_rotAnd, tyOf, iha, ihb]
  | or a b iha ihb => simp only [simplify, tyOf_rotOr, tyOf, iha, ihb]
  | add a b iha ihb => simp only [simplify, tyOf_rotAdd, tyOf, iha, ihb]
  | cmp op a b iha ihb => simp only [simplify, tyOf, iha, ihb]
  | div a b iha ihb => simp only [simplify, tyOf, iha, ihb]
  | call f a ih => simp only [simplify, tyOf, ih]
  | prim p a b iha ihb => simp only [simplify, tyOf, iha, ihb]
  | lit _ => rfl
  | var _ => rfl

theorem eval_rotAdd (g : Sig) (s : Sem) (ok : SemOk g s) : ∀ (b a : Expr),
    tyOf g a = some .int → tyOf g b = some .int → ∀ t, eval s (rotAdd a b) t = eval s (.add a b) t := by
  intro b
  induction b with
  | add b c ihb ihc =>
    intro a ha hbc t
    obtain ⟨hb, hc, _⟩ := tyOf_add hbc
    rw [rotAdd, ihc (rotAdd a b) (by rw [tyOf_rotAdd]; simp [tyOf, ha, hb]) hc t, ← eval_add_assoc g s ok a b c ha hb hc]
    simp only [eval, ihb a ha hb]
  | _ => intro a _ _ t; rfl

/-- SimplifyParentheses does not change what a well-typed expression computes. -/
theorem eval_simplify (g : Sig) (s : Sem) (ok : SemOk g s) :
    ∀ (e : Expr) (τ : Ty), tyOf g e = some τ → ∀ t, eval s (simplify e) t = eval s e t := by
  intro e
  induction e with
  | paren e ih => intro τ h t; simp only [simplify, eval]; exact ih τ (by simpa [tyOf] using h) t
  | not e ih => intro τ h t; simp only [simplify, eval, ih .bool (tyOf_not h)]
  | and a b iha ihb =>
    intro τ h t
    obtain ⟨ha, hb⟩ := tyOf_and h
    simp only [simplify, eval_rotAnd, eval, iha .bool ha, ihb .bool hb]
  | or a b iha ihb =>
    intro τ h t
    obtain ⟨ha, hb⟩ := tyOf_or h
    simp only [simplify, eval_rotOr, eval, iha .bool ha, ihb .bool hb]
  | add a b iha ihb =>
    intro τ h t
    obtain ⟨ha, hb, _⟩ := tyOf_add h
    simp only [simplify]
    rw [eval_rotAdd g s ok _ _ (by rw [tyOf_simplify]; exact ha) (by rw [tyOf_simplify]; exact hb)]
    simp only [eval, iha .int ha, ihb .int hb]
  | cmp op a b iha ihb =>
    intro τ h t
    have : ∃ σ, tyOf g a = some σ ∧ tyOf g b = some σ := by
      simp only [tyOf] at h
      split at h
      · rename_i h1; exact ⟨.int, h1.1, h1.2⟩
      · split at h
        · rename_i h1; exact ⟨.bool, h1.1, h1.2.1⟩
        · simp at h
    obtain ⟨σ, ha, hb⟩ := this
    simp only [simplify, eval, iha σ ha, ihb σ hb]
  | div a b iha ihb =>
    intro τ h t
    have : tyOf g a = some .int ∧ tyOf g b = some .int := by
      simp only [tyOf] at h; split at h <;> simp at h; assumption
    simp only [simplify, eval, iha .int this.1, ihb .int this.2]
  | call f a ih =>
    intro τ h t
    have : tyOf g a = some (g.callArg f) := by
      simp only [tyOf] at h; split at h <;> simp at h; assumption
    simp only [simplify, eval, ih _ this]
  | prim p a b iha ihb =>
    intro τ h t
    have : tyOf g a = some (g.primA p) ∧ tyOf g b = some (g.primB p) := by
      simp only [tyOf] at h; split at h <;> simp at h; assumption
    simp only [simplify, eval, iha _ this.1, ihb _ this.2]
  | lit _ => intro _ _ t; rfl
  | var _ => intro _ _ t; rfl

theorem eval_unparen (s : Sem) : ∀ (e : Expr) (t : List Event), eval s (unparen e) t = eval s e t := by
  intro e
  induction e with
  | paren e ih => intro t; simp only [unparen, eval, ih]
  | _ => intro t; rfl

theorem tyOf_unparen (g : Sig) : ∀ (e : Expr), tyOf g (unparen e) = tyOf g e := by
  intro e
  induction e with
  | paren e ih => simp only [unparen, tyOf, ih]
  | _ => rfl

/-! ### call-free expressions -/

theorem callFree_trace (s : Sem) : ∀ (e : Expr), callFree e = true → ∀ t, eval s e t = ((eval s e []).1, t) := by
  intro e
  induction e with
  | lit _ => intro _ t; rfl
  | var _ => intro _ t; rfl
  | call _ _ _ => intro h; simp [callFree] at h
  | paren e ih => intro h t; simp only [eval]; exact ih (by simpa [callFree] using h) t
  | not e ih =>
    intro h t
    have := ih (by simpa [callFree] using h)
    simp only [eval]
    rw [this t, this []]
    cases (eval s e []).1 <;> rfl
  | prim p a b iha ihb =>
    intro h t
    simp only [callFree, Bool.and_eq_true] at h
    have ha := iha h.1
    have hb := ihb h.2
    simp only [eval]
    rw [ha t, ha []]
    cases (eval s a []).1 with
    | panic => rfl
    | val va =>
      simp only
      rw [hb t, hb []]
      cases (eval s b []).1 <;> rfl
  | cmp op a b iha ihb =>
    intro h t
    simp only [callFree, Bool.and_eq_true] at h
    have ha := iha h.1
    have hb := ihb h.2
    simp only [eval]
    rw [ha t, ha []]
    cases (eval s a []).1 with
    | panic => rfl
    | val va =>
      simp only
      rw [hb t, hb []]
      cases (eval s b []).1 <;> rfl
  | add a b iha ihb =>
    intro h t
    simp only [callFree, Bool.and_eq_true] at h
    have ha := iha h.1
    have hb := ihb h.2
    simp only [eval]
    rw [ha t, ha []]
    cases (eval s a []).1 with
    | panic => rfl
    | val va =>
      simp only
      rw [hb t, hb []]
      cases (eval s b []).1 <;> rfl
  | div a b iha ihb =>
    intro h t
    simp only [callFree, Bool.and_eq_true] at h
    have ha := iha h.1
    have hb := ihb h.2
    simp only [eval]
    rw [ha t, ha []]
    cases (eval s a []).1 with
    | panic => rfl
    | val va =>
      simp only
      rw [hb t, hb []]
      cases (eval s b []).1 <;> rfl
  | and a b iha ihb =>
    intro h t
    simp only [callFree, Bool.and_eq_true] at h
    have ha := iha h.1
    have hb := ihb h.2
    simp only [eval]
    rw [ha t, ha []]
    cases (eval s a []).1 with
    | panic => rfl
    | val va =>
      cases va with
      | int n => rfl
      | bool ba =>
        cases ba with
        | false => rfl
        | true =>
          simp only
          rw [hb t, hb []]
          cases (eval s b []).1 <;> rfl
  | or a b iha ihb =>
    intro h t
    simp only [callFree, Bool.and_eq_true] at h
    have ha := iha h.1
    have hb := ihb h.2
    simp only [eval]
    rw [ha t, ha []]
    cases (eval s a []).1 with
    | panic => rfl
    | val va =>
      cases va with
      | int n => rfl
      | bool ba =>
        cases ba with
        | true => rfl
        | false =>
          simp only
          rw [hb t, hb []]
          cases (eval s b []).1 <;> rfl

/-! ### if-else chains and tagged switches -/

theorem evalCmp_eq_cases (a b : Val) : (∃ q, evalCmp .eq a b = .val (.bool q)) ∨ evalCmp .eq a b = .panic := by
  cases a <;> cases b <;> simp [evalCmp]

/-- one clause: `x == y₁ || …` decides like comparing the (once evaluated) tag with the case values -/
theorem orChain_match (s : Sem) (x : Expr) (v : Val) (hx : callFree x = true) (hv : (eval s x []).1 = .val v) :
    ∀ (ys : List Expr), ys ≠ [] → ∀ t,
      (match eval s (orChain x ys) t with
       | (.val (.bool b), t1) => ((some b : Option Bool), t1)
       | (_, t1) => (none, t1)) = matchCases s v ys t := by
  have hxe : ∀ t, eval s x t = (.val v, t) := by
    intro t; rw [callFree_trace s x hx t, hv]
  intro ys
  induction ys with
  | nil => intro h; exact absurd rfl h
  | cons y rest ih =>
    intro _ t
    cases rest with
    | nil =>
      simp only [orChain, eval, hxe, matchCases]
      cases eval s y t with
      | mk ry t1 =>
        cases ry with
        | panic => rfl
        | val vy =>
          simp only
          rcases evalCmp_eq_cases v vy with ⟨q, hq⟩ | hq <;> rw [hq]
          · cases q <;> simp
    | cons y2 rest2 =>
      have ih' := ih (by simp)
      simp only [orChain, eval, hxe]
      rw [matchCases]
      cases eval s y t with
      | mk ry t1 =>
        cases ry with
        | panic => rfl
        | val vy =>
          simp only
          rcases evalCmp_eq_cases v vy with ⟨q, hq⟩ | hq <;> rw [hq]
          · cases q with
            | true => rfl
            | false =>
              simp only
              rw [← ih' t1]
              cases eval s (orChain x (y2 :: rest2)) t1 with
              | mk r2 t2 =>
                cases r2 with
                | panic => rfl
                | val v2 => cases v2 with
                  | int n => rfl
                  | bool b => cases b <;> rfl

theorem ifChain_switch (s : Sem) (x : Expr) (v : Val) (hx : callFree x = true) (hv : (eval s x []).1 = .val v) :
    ∀ (clauses : List (List Expr)), (∀ ys ∈ clauses, ys ≠ []) → ∀ k t,
      ifChain s x clauses k t = switchClauses s v clauses k t := by
  intro clauses
  induction clauses with
  | nil => intro _ k t; rfl
  | cons ys rest ih =>
    intro hne k t
    have hm := orChain_match s x v hx hv ys (hne ys (by simp)) t
    rw [ifChain, switchClauses, ← hm]
    cases eval s (orChain x ys) t with
    | mk r t1 =>
      cases r with
      | panic => rfl
      | val w =>
        cases w with
        | int n => rfl
        | bool b =>
          cases b with
          | true => rfl
          | false => exact ih (fun ys' h' => hne ys' (by simp [h'])) (k + 1) t1

theorem ifChain_panic (s : Sem) (x : Expr) (hx : callFree x = true) (hv : (eval s x []).1 = .panic)
    (ys : List Expr) (rest : List (List Expr)) (hys : ys ≠ []) (k : Nat) (t : List Event) :
    ifChain s x (ys :: rest) k t = (none, t) := by
  have hxe : eval s x t = (.panic, t) := by rw [callFree_trace s x hx t, hv]
  rw [ifChain]
  cases ys with
  | nil => exact absurd rfl hys
  | cons y r =>
    cases r with
    | nil => simp only [orChain, eval, hxe]
    | cons y2 r2 => simp only [orChain, eval, hxe]

end Verif.C16.Rw
