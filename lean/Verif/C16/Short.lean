/-
C16 (ii) — model of `report.shortRange` / `report.getRange` (analysis/report/report.go).

A node is described by exactly the positions `shortRange` reads (all as file offsets /
token.Pos values): its own Pos/End and, per kind, the keyword or child positions of the
case table.  `Inv` states the parser invariants the theorem needs (children nested in
their parent, a keyword's text lies inside the node, the `;` after a lone init
statement); the harness validates `Inv` on every node of the corpus.
-/
namespace Verif.C16

inductive Node where
  /-- `*ast.File`: Pos (package keyword), Name.End, End -/
  | file (pos nameEnd end_ : Nat)
  /-- `*ast.CaseClause` / `*ast.CommClause`: Pos, Colon, End -/
  | caseClause (pos colon end_ : Nat)
  | commClause (pos colon end_ : Nat)
  /-- `*ast.DeferStmt`: Pos, Defer, End -/
  | deferStmt (pos deferPos end_ : Nat)
  /-- `*ast.ExprStmt`: its X -/
  | exprStmt (x : Node)
  /-- `*ast.ForStmt`: Pos, For, End of Init / Cond / Post when present, End -/
  | forStmt (pos forPos : Nat) (initEnd condEnd postEnd : Option Nat) (end_ : Nat)
  /-- `*ast.FuncDecl` / `*ast.FuncLit`: Pos, Type.End, End -/
  | funcDecl (pos typeEnd end_ : Nat)
  | funcLit (pos typeEnd end_ : Nat)
  /-- `*ast.GoStmt`: Pos, Go, is the callee (unparenthesised) a FuncLit, End -/
  | goStmt (pos goPos : Nat) (funcLit : Bool) (end_ : Nat)
  /-- `*ast.IfStmt`: Pos, Cond.End, End -/
  | ifStmt (pos condEnd end_ : Nat)
  /-- `*ast.RangeStmt`: Pos, X.End, End -/
  | rangeStmt (pos xEnd end_ : Nat)
  /-- `*ast.SelectStmt`: Pos, End -/
  | selectStmt (pos end_ : Nat)
  /-- `*ast.SwitchStmt`: Pos, Tag.End / Init.End when present, End -/
  | switchStmt (pos : Nat) (tagEnd initEnd : Option Nat) (end_ : Nat)
  /-- `*ast.TypeSwitchStmt`: Pos, Assign.End, End -/
  | typeSwitchStmt (pos assignEnd end_ : Nat)
  /-- every other node kind -/
  | other (pos end_ : Nat)
  deriving Repr

namespace Node

def pos : Node → Nat
  | file p _ _ | caseClause p _ _ | commClause p _ _ | deferStmt p _ _ => p
  | exprStmt x => x.pos
  | forStmt p _ _ _ _ _ | funcDecl p _ _ | funcLit p _ _ | goStmt p _ _ _ => p
  | ifStmt p _ _ | rangeStmt p _ _ | selectStmt p _ | switchStmt p _ _ _ => p
  | typeSwitchStmt p _ _ | other p _ => p

def end_ : Node → Nat
  | file _ _ e | caseClause _ _ e | commClause _ _ e | deferStmt _ _ e => e
  | exprStmt x => x.end_
  | forStmt _ _ _ _ _ e | funcDecl _ _ e | funcLit _ _ e | goStmt _ _ _ e => e
  | ifStmt _ _ e | rangeStmt _ _ e | selectStmt _ e | switchStmt _ _ _ e => e
  | typeSwitchStmt _ _ e | other _ e => e

end Node

/-- `shortRange`, case by case as in report.go. -/
def shortRange : Node → Nat × Nat
  | .file p ne _ => (p, ne)
  | .caseClause p c _ => (p, c + 1)
  | .commClause p c _ => (p, c + 1)
  | .deferStmt p d _ => (p, d + 5)
  | .exprStmt x => shortRange x
  | .forStmt p f ini cond post _ =>
    match post with
    | some pe => (f, pe)
    | none =>
      match cond with
      | some ce => (f, ce)
      | none =>
        match ini with
        | some ie => (p, ie + 1)
        | none => (p, f + 3)
  | .funcDecl p te _ => (p, te)
  | .funcLit p te _ => (p, te)
  | .goStmt p g isLit e => if isLit then (p, g + 2) else (p, e)
  | .ifStmt p ce _ => (p, ce)
  | .rangeStmt p xe _ => (p, xe)
  | .selectStmt p _ => (p, p + 6)
  | .switchStmt p tag ini _ =>
    match tag with
    | some te => (p, te)
    | none =>
      match ini with
      | some ie => (p, ie + 1)
      | none => (p, p + 6)
  | .typeSwitchStmt p ae _ => (p, ae)
  | .other p e => (p, e)

/-- Parser invariants used by `shortRange_within`. -/
def Inv : Node → Prop
  | .file p ne e => p ≤ ne ∧ ne ≤ e
  | .caseClause p c e => p ≤ c ∧ c + 1 ≤ e
  | .commClause p c e => p ≤ c ∧ c + 1 ≤ e
  | .deferStmt p d e => p = d ∧ d + 5 ≤ e
  | .exprStmt x => Inv x
  | .forStmt p f ini cond post e =>
    p = f ∧ f + 3 ≤ e ∧
    (∀ x, post = some x → f ≤ x ∧ x ≤ e) ∧
    (∀ x, cond = some x → f ≤ x ∧ x ≤ e) ∧
    (∀ x, ini = some x → f ≤ x ∧ x + 1 ≤ e)
  | .funcDecl p te e => p ≤ te ∧ te ≤ e
  | .funcLit p te e => p ≤ te ∧ te ≤ e
  | .goStmt p g _ e => p = g ∧ g + 2 ≤ e
  | .ifStmt p ce e => p ≤ ce ∧ ce ≤ e
  | .rangeStmt p xe e => p ≤ xe ∧ xe ≤ e
  | .selectStmt p e => p + 6 ≤ e
  | .switchStmt p tag ini e =>
    p + 6 ≤ e ∧ (∀ x, tag = some x → p ≤ x ∧ x ≤ e) ∧ (∀ x, ini = some x → p ≤ x ∧ x + 1 ≤ e)
  | .typeSwitchStmt p ae e => p ≤ ae ∧ ae ≤ e
  | .other p e => p ≤ e

/-- Executable version of `Inv` (used by the driver on corpus nodes). -/
def invB : Node → Bool
  | .file p ne e => p ≤ ne && ne ≤ e
  | .caseClause p c e => p ≤ c && c + 1 ≤ e
  | .commClause p c e => p ≤ c && c + 1 ≤ e
  | .deferStmt p d e => p == d && d + 5 ≤ e
  | .exprStmt x => invB x
  | .forStmt p f ini cond post e =>
    p == f && f + 3 ≤ e &&
    (match post with | some x => f ≤ x && x ≤ e | none => true) &&
    (match cond with | some x => f ≤ x && x ≤ e | none => true) &&
    (match ini with | some x => f ≤ x && x + 1 ≤ e | none => true)
  | .funcDecl p te e => p ≤ te && te ≤ e
  | .funcLit p te e => p ≤ te && te ≤ e
  | .goStmt p g _ e => p == g && g + 2 ≤ e
  | .ifStmt p ce e => p ≤ ce && ce ≤ e
  | .rangeStmt p xe e => p ≤ xe && xe ≤ e
  | .selectStmt p e => p + 6 ≤ e
  | .switchStmt p tag ini e =>
    p + 6 ≤ e && (match tag with | some x => p ≤ x && x ≤ e | none => true) &&
      (match ini with | some x => p ≤ x && x + 1 ≤ e | none => true)
  | .typeSwitchStmt p ae e => p ≤ ae && ae ≤ e
  | .other p e => p ≤ e

/-- What `getRange` is handed: a value with `Source()` (IR values; the source may be
missing), a node with Pos and End, or something with a Pos only. -/
inductive Target where
  | sourcer (src : Option Node)
  | full (n : Node)
  | posOnly (p : Nat)

/-- `getRange`: `none` = `ok == false`; the end is `none` for `token.NoPos`. -/
def getRange : Target → Bool → Option (Nat × Option Nat)
  | .sourcer none, _ => none
  | .sourcer (some s), short =>
    if short then let r := shortRange s; some (r.1, some r.2) else some (s.pos, some s.end_)
  | .full n, short =>
    if short then let r := shortRange n; some (r.1, some r.2) else some (n.pos, some n.end_)
  | .posOnly p, _ => some (p, none)

def Target.Inv : Target → Prop
  | .sourcer none => True
  | .sourcer (some s) => Verif.C16.Inv s
  | .full n => Verif.C16.Inv n
  | .posOnly _ => True

end Verif.C16
