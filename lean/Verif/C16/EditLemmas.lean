import Verif.C16.Edits
namespace Verif.C16
variable {α : Type}

/-! ### order facts -/

theorem before_of_le (a b : Edit α) (ha : a.start ≤ a.stop) (hb : b.start ≤ b.stop)
    (hd : a.disjoint b) (hle : a.le b) : a.before b := by
  unfold Edit.disjoint Edit.before Edit.le at *
  omega

theorem before_of_not_le (a b : Edit α) (ha : a.start ≤ a.stop) (hb : b.start ≤ b.stop)
    (hd : a.disjoint b) (hle : ¬ a.le b) : b.before a := by
  unfold Edit.disjoint Edit.before Edit.le at *
  omega

theorem before_trans (a b c : Edit α) (ha : a.start ≤ a.stop) (hb : b.start ≤ b.stop)
    (h1 : a.before b) (h2 : b.before c) : a.before c := by
  unfold Edit.before at *
  omega

theorem before_asymm (a b : Edit α) (h1 : a.before b) (h2 : b.before a) : False := by
  unfold Edit.before at *
  omega

theorem disjoint_symm (a b : Edit α) (h : a.disjoint b) : b.disjoint a := by
  unfold Edit.disjoint at *; exact h.symm

/-! ### insertion sort -/

theorem insertEdit_perm (e : Edit α) (l : List (Edit α)) : (insertEdit e l).Perm (e :: l) := by
  induction l with
  | nil => exact List.Perm.refl _
  | cons x xs ih =>
    simp only [insertEdit]
    split
    · exact List.Perm.refl _
    · exact (List.Perm.cons x ih).trans (List.Perm.swap e x xs)

theorem sortEdits_perm (l : List (Edit α)) : (sortEdits l).Perm l := by
  induction l with
  | nil => exact List.Perm.refl _
  | cons e es ih => exact (insertEdit_perm e _).trans (List.Perm.cons e ih)

theorem mem_insertEdit (e z : Edit α) (l : List (Edit α)) : z ∈ insertEdit e l ↔ z = e ∨ z ∈ l := by
  rw [(insertEdit_perm e l).mem_iff]; simp

theorem insertEdit_sorted (e : Edit α) (l : List (Edit α)) (he : e.start ≤ e.stop)
    (hl : ∀ x ∈ l, x.start ≤ x.stop) (hd : ∀ x ∈ l, e.disjoint x)
    (hs : l.Pairwise Edit.before) : (insertEdit e l).Pairwise Edit.before := by
  induction l with
  | nil => simp [insertEdit]
  | cons x xs ih =>
    have hx := hl x (by simp)
    have hdx := hd x (by simp)
    rw [List.pairwise_cons] at hs
    simp only [insertEdit]
    split
    · rename_i hle
      have hex := before_of_le e x he hx hdx hle
      refine List.Pairwise.cons ?_ (List.Pairwise.cons hs.1 hs.2)
      intro y hy
      rcases List.mem_cons.1 hy with rfl | hy
      · exact hex
      · exact before_trans e x y he hx hex (hs.1 y hy)
    · rename_i hle
      have hxe := before_of_not_le e x he hx hdx hle
      refine List.Pairwise.cons ?_ (ih (fun y hy => hl y (by simp [hy])) (fun y hy => hd y (by simp [hy])) hs.2)
      intro y hy
      rcases (mem_insertEdit e y xs).1 hy with rfl | hy
      · exact hxe
      · exact hs.1 y hy

theorem sortEdits_sorted (n : Nat) (es : List (Edit α)) (h : WFEdits n es) : SortedEdits (sortEdits es) := by
  induction es with
  | nil => simp [sortEdits, SortedEdits]
  | cons e es ih =>
    obtain ⟨hb, hp⟩ := h
    rw [List.pairwise_cons] at hp
    have ih' := ih ⟨fun x hx => hb x (by simp [hx]), hp.2⟩
    simp only [sortEdits]
    refine insertEdit_sorted e _ (hb e (by simp)).1 ?_ ?_ ih'
    · intro x hx
      exact (hb x (by simp [(sortEdits_perm es).mem_iff.1 hx])).1
    · intro x hx
      exact hp.1 x ((sortEdits_perm es).mem_iff.1 hx)

theorem wf_perm (n : Nat) (es es' : List (Edit α)) (h : WFEdits n es) (hp : es'.Perm es) : WFEdits n es' := by
  refine ⟨fun e he => h.1 e (hp.mem_iff.1 he), ?_⟩
  exact (hp.pairwise_iff (fun {a b} hab => disjoint_symm a b hab)).2 h.2

/-- A listing that is sorted by the sort key (the output of *any* correct sort, stable or
not) of a well-formed edit set is a `before`-chain. -/
theorem le_sorted_is_chain (n : Nat) (l : List (Edit α)) (h : WFEdits n l)
    (hs : l.Pairwise Edit.le) : SortedEdits l := by
  unfold SortedEdits
  obtain ⟨hb, hd⟩ := h
  induction l with
  | nil => simp
  | cons x xs ih =>
    rw [List.pairwise_cons] at hs hd ⊢
    refine ⟨fun y hy => ?_, ih hs.2 (fun e he => hb e (by simp [he])) hd.2⟩
    exact before_of_le x y (hb x (by simp)).1 (hb y (by simp [hy])).1 (hd.1 y hy) (hs.1 y hy)

theorem chain_unique (l₁ l₂ : List (Edit α)) (h₁ : SortedEdits l₁) (h₂ : SortedEdits l₂)
    (hp : l₁.Perm l₂) : l₁ = l₂ :=
  List.Perm.eq_of_pairwise (le := Edit.before)
    (fun a b _ _ hab hba => (before_asymm a b hab hba).elim) h₁ h₂ hp

/-! ### splice = Go's running-offset loop -/

theorem runGo_splice (src : List α) (es : List (Edit α)) :
    ∀ (pos : Nat) (R : List α) (off : Int),
      (R.length : Int) = (pos : Int) + off → pos ≤ src.length →
      (∀ e ∈ es, e.inBounds src.length) → (∀ e ∈ es, pos ≤ e.start) → SortedEdits es →
      runGo (R ++ src.drop pos) off es = R ++ spliceFrom src pos es := by
  induction es with
  | nil => intro pos R off _ _ _ _ _; simp [runGo, spliceFrom]
  | cons e rest ih =>
    intro pos R off hR hpos hb hge hs
    obtain ⟨hse, hen⟩ := hb e (by simp)
    have hpe := hge e (by simp)
    unfold SortedEdits at hs
    rw [List.pairwise_cons] at hs
    simp only [runGo, spliceFrom]
    have hs1 : ((e.start : Int) + off).toNat = R.length + (e.start - pos) := by omega
    have ht1 : ((e.stop : Int) + off).toNat = R.length + (e.stop - pos) := by omega
    rw [hs1, ht1, List.take_length_add_append, List.drop_length_add_append, List.drop_drop]
    have e1 : pos + (e.stop - pos) = e.stop := by omega
    rw [e1]
    have e2 : List.take (e.start - pos) (List.drop pos src) = List.drop pos (List.take e.start src) := by
      rw [List.drop_take]
    rw [e2]
    have hlen : (R ++ List.drop pos (List.take e.start src) ++ e.new).length = R.length + (e.start - pos) + e.new.length := by
      simp [List.length_append, List.length_drop, List.length_take]; omega
    have := ih e.stop (R ++ List.drop pos (List.take e.start src) ++ e.new)
      (off + (e.new.length : Int) - ((e.stop : Int) - (e.start : Int)))
      (by rw [hlen]; push_cast; omega) hen (fun x hx => hb x (by simp [hx]))
      (fun x hx => (hs.1 x hx).1) hs.2
    rw [this]
    simp [List.append_assoc]

theorem applyGo_sorted (src : List α) (es : List (Edit α)) (hb : ∀ e ∈ es, e.inBounds src.length)
    (hs : SortedEdits es) : runGo src 0 es = spliceFrom src 0 es := by
  have := runGo_splice src es 0 [] 0 (by simp) (Nat.zero_le _) hb (fun _ _ => Nat.zero_le _) hs
  simpa using this

/-! ### length -/

theorem spliceFrom_length (src : List α) (es : List (Edit α)) :
    ∀ pos, pos ≤ src.length → (∀ e ∈ es, e.inBounds src.length) → (∀ e ∈ es, pos ≤ e.start) →
      SortedEdits es →
      (spliceFrom src pos es).length + totalOld es + pos = src.length + totalNew es := by
  induction es with
  | nil => intro pos hp _ _ _; simp [spliceFrom, totalOld, totalNew]; omega
  | cons e rest ih =>
    intro pos hp hb hge hs
    obtain ⟨hse, hen⟩ := hb e (by simp)
    have hpe := hge e (by simp)
    unfold SortedEdits at hs
    rw [List.pairwise_cons] at hs
    have := ih e.stop hen (fun x hx => hb x (by simp [hx])) (fun x hx => (hs.1 x hx).1) hs.2
    simp only [spliceFrom, totalOld, totalNew, List.map_cons, List.sum_cons, List.length_append,
      List.length_drop, List.length_take] at this ⊢
    omega

theorem totalOld_perm (l₁ l₂ : List (Edit α)) (h : l₁.Perm l₂) : totalOld l₁ = totalOld l₂ := by
  unfold totalOld; exact (h.map _).sum_nat

theorem totalNew_perm (l₁ l₂ : List (Edit α)) (h : l₁.Perm l₂) : totalNew l₁ = totalNew l₂ := by
  unfold totalNew; exact (h.map _).sum_nat

end Verif.C16
