/-
C14 — dominance: specification and verified reference algorithm (core Lean only).

This module is meant to be imported by other properties (C02: "definitions dominate
uses").  It contains

* `Graph`       finite directed graphs: adjacency lists over `Nat` block indices
                (`succ[i]` = `Succs` of block `i`; an index outside the list has no
                successors, so every `Graph` value is a finite graph and every finite
                graph over `Nat` is a `Graph` value);
* `Path`        control-flow paths (both end points included in the node list);
* `Dominates`   the path-based definition with the two-root reading of the property
                statement: paths from the entry; for blocks not reachable from the
                entry (reachable only after a recovered panic) paths from the recover
                block;
* `reachAvoid`  reachability after removing one node (worklist DFS, fuel = a potential
                bound that is proved sufficient), `mem_reachAvoid`;
* `dom`/`domSets`/`domRow`  the reference decision procedure ("d dominates v iff v is
                unreachable from the root once d is removed") with
                `dom_correct`, `domSets_correct`, `domRow_correct` for ALL graphs.

How go/ir/dom.go treats the two roots (derived from `buildDomTree`): the DFS of step 1
numbers everything reachable from `Blocks[0]` first and then runs a second DFS from
`fn.Recover`, which only picks up blocks the first one did not reach; the entry and the
recover block both get `idom = nil`, and `numberDomTree` numbers the entry tree first and
the recover tree after it, so no block of one tree is reported to dominate a block of
the other.  `deleteUnreachableBlocks` keeps exactly the blocks reachable from one of the
two roots.  That is the reading `Dominates` formalises.  (In the trees the builder
produces today the recover block has neither predecessors nor successors — it is a lone
`return` — so "reachable only after a recovered panic" is the recover block itself.)
-/
namespace Verif.C14

/-- Finite directed graph over `Nat` indices. -/
structure Graph where
  succ : List (List Nat)
deriving Repr

namespace Graph
/-- Number of blocks. -/
def size (G : Graph) : Nat := G.succ.length
/-- Successors of `u` (none for an index outside the graph). -/
def succs (G : Graph) (u : Nat) : List Nat := G.succ.getD u []

theorem succs_of_size_le (G : Graph) {u : Nat} (h : G.size ≤ u) : G.succs u = [] := by
  simp [succs, size] at *
  simp [List.getElem?_eq_none h]
end Graph

/-- `Path G u p v`: `p` is the list of nodes of a control-flow path from `u` to `v`
(both included; a single node is a path). -/
inductive Path (G : Graph) : Nat → List Nat → Nat → Prop
  | single (u : Nat) : Path G u [u] u
  | cons {u w v : Nat} {p : List Nat} : w ∈ G.succs u → Path G w p v → Path G u (u :: p) v

/-- `v` is reachable from `r`. -/
def Reach (G : Graph) (r v : Nat) : Prop := ∃ p, Path G r p v

/-- Every path from `r` to `v` passes through `d`. -/
def DomFrom (G : Graph) (r d v : Nat) : Prop := ∀ p, Path G r p v → d ∈ p

/-- The two entry points of a function. -/
structure Roots where
  entry : Nat
  recover : Option Nat
deriving Repr, DecidableEq

/-- **The specification.** `d` dominates `v`: every control-flow path from the function
entry to `v` passes through `d`; for a block not reachable from the entry (reachable
only after a recovered panic), every path from the recover block does. -/
def Dominates (G : Graph) (R : Roots) (d v : Nat) : Prop :=
  (Reach G R.entry v → DomFrom G R.entry d v) ∧
  (¬ Reach G R.entry v → ∀ r, R.recover = some r → DomFrom G r d v)

/-! ### Paths -/

theorem Path.head_mem {G : Graph} {u v : Nat} {p : List Nat} (h : Path G u p v) : u ∈ p := by
  cases h <;> simp

theorem Path.last_mem {G : Graph} {u v : Nat} {p : List Nat} (h : Path G u p v) : v ∈ p := by
  induction h with
  | single u => simp
  | cons _ _ ih => exact List.mem_cons_of_mem _ ih

theorem Path.snoc {G : Graph} {r u w : Nat} {p : List Nat} (h : Path G r p u)
    (e : w ∈ G.succs u) : Path G r (p ++ [w]) w := by
  induction h with
  | single u => exact Path.cons e (Path.single w)
  | cons e' _ ih => exact Path.cons e' (ih e)

theorem Path.append {G : Graph} {a b c : Nat} {p q : List Nat} (h₁ : Path G a p b)
    (h₂ : Path G b (b :: q) c) : Path G a (p ++ q) c := by
  induction h₁ with
  | single u => simpa using h₂
  | cons e _ ih => exact Path.cons e (ih h₂)

/-- `v` can be reached from `r` on a path that avoids `a` (no node avoided if `a = none`). -/
def RA (G : Graph) (a : Option Nat) (r v : Nat) : Prop :=
  ∃ p, Path G r p v ∧ ∀ x ∈ p, a ≠ some x

theorem RA.root {G : Graph} {a : Option Nat} {r : Nat} (h : a ≠ some r) : RA G a r r :=
  ⟨[r], Path.single r, by simpa using h⟩

theorem RA.step {G : Graph} {a : Option Nat} {r u w : Nat} (h : RA G a r u)
    (e : w ∈ G.succs u) (hw : a ≠ some w) : RA G a r w := by
  obtain ⟨p, hp, hav⟩ := h
  refine ⟨p ++ [w], hp.snoc e, ?_⟩
  intro x hx
  rcases List.mem_append.mp hx with h | h
  · exact hav x h
  · simp at h; subst h; exact hw

/-- A set that contains the root and is closed under non-avoided successors contains
everything reachable on an avoiding path. -/
theorem RA.mem_of_closed {G : Graph} {a : Option Nat} {r v : Nat} {S : List Nat}
    (hroot : a = some r ∨ r ∈ S)
    (hcl : ∀ u ∈ S, ∀ w ∈ G.succs u, a = some w ∨ w ∈ S)
    (h : RA G a r v) : v ∈ S := by
  obtain ⟨p, hp, hav⟩ := h
  have hr : r ∈ S := by
    rcases hroot with h | h
    · exact absurd h (hav r hp.head_mem)
    · exact h
  clear hroot
  induction hp with
  | single u => exact hr
  | @cons u w v p e hp ih =>
    have hw : a ≠ some w := hav w (List.mem_cons_of_mem _ hp.head_mem)
    have : w ∈ S := by
      rcases hcl u hr w e with h | h
      · exact absurd h hw
      · exact h
    exact ih (fun x hx => hav x (List.mem_cons_of_mem _ hx)) this

/-! ### Reachability after removal: worklist DFS -/

/-- Worklist depth-first search from the stack `st`, never entering node `a`. -/
def dfs (G : Graph) (a : Option Nat) : Nat → List Nat → List Nat → List Nat
  | 0, _, vis => vis
  | _ + 1, [], vis => vis
  | f + 1, x :: st, vis =>
    if a == some x || vis.contains x then dfs G a f st vis
    else dfs G a f (G.succs x ++ st) (x :: vis)

/-- Potential: cost of the nodes of `L` not yet visited. -/
def wtL (c : Nat → Nat) (vis : List Nat) : List Nat → Nat
  | [] => 0
  | u :: L => (if u ∈ vis then 0 else c u) + wtL c vis L

theorem wtL_mono (c : Nat → Nat) (vis : List Nat) (x : Nat) (L : List Nat) :
    wtL c (x :: vis) L ≤ wtL c vis L := by
  induction L with
  | nil => simp [wtL]
  | cons u L ih =>
    simp only [wtL]
    by_cases h1 : u ∈ vis
    · have h2 : u ∈ x :: vis := List.mem_cons_of_mem _ h1
      rw [if_pos h1, if_pos h2]; omega
    · by_cases h2 : u ∈ x :: vis
      · rw [if_neg h1, if_pos h2]; omega
      · rw [if_neg h1, if_neg h2]; omega

theorem wtL_visit (c : Nat → Nat) (vis : List Nat) (x : Nat) (L : List Nat)
    (hx : x ∈ L) (hv : x ∉ vis) :
    wtL c (x :: vis) L + c x ≤ wtL c vis L := by
  induction L with
  | nil => simp at hx
  | cons u L ih =>
    simp only [wtL]
    by_cases hux : u = x
    · subst hux
      have h2 : u ∈ u :: vis := by simp
      have := wtL_mono c vis u L
      rw [if_pos h2, if_neg hv]; omega
    · have hxL : x ∈ L := by
        rcases List.mem_cons.mp hx with h | h
        · exact absurd h.symm hux
        · exact h
      have ih' := ih hxL
      by_cases h1 : u ∈ vis
      · have h2 : u ∈ x :: vis := List.mem_cons_of_mem _ h1
        rw [if_pos h1, if_pos h2]; omega
      · have h2 : u ∉ x :: vis := by
          intro h; rcases List.mem_cons.mp h with e | e
          · exact hux e
          · exact h1 e
        rw [if_neg h1, if_neg h2]; omega

/-- Cost of a node: one for its own visit plus one for every out-edge pushed. -/
def cost (G : Graph) (u : Nat) : Nat := 1 + (G.succs u).length

def wt (G : Graph) (vis : List Nat) : Nat := wtL (cost G) vis (List.range G.size)

/-- Fuel that is always sufficient (`dfs_final`). -/
def fuel (G : Graph) : Nat := 1 + wt G []

/-- Nodes reachable from `r` once `a` is removed. -/
def reachAvoid (G : Graph) (a : Option Nat) (r : Nat) : List Nat :=
  dfs G a (fuel G) [r] []

structure Inv (G : Graph) (a : Option Nat) (r : Nat) (st vis : List Nat) : Prop where
  vis_sound : ∀ x ∈ vis, RA G a r x
  st_sound : ∀ x ∈ st, x = r ∨ ∃ u, RA G a r u ∧ x ∈ G.succs u
  closed : ∀ u ∈ vis, ∀ w ∈ G.succs u, a = some w ∨ w ∈ vis ∨ w ∈ st
  root : a = some r ∨ r ∈ vis ∨ r ∈ st

structure Final (G : Graph) (a : Option Nat) (r : Nat) (res : List Nat) : Prop where
  sound : ∀ x ∈ res, RA G a r x
  root : a = some r ∨ r ∈ res
  closed : ∀ u ∈ res, ∀ w ∈ G.succs u, a = some w ∨ w ∈ res

theorem Final.of_inv_nil {G : Graph} {a : Option Nat} {r : Nat} {vis : List Nat}
    (h : Inv G a r [] vis) : Final G a r vis := by
  refine ⟨h.vis_sound, ?_, ?_⟩
  · rcases h.root with h | h | h
    · exact Or.inl h
    · exact Or.inr h
    · simp at h
  · intro u hu w hw
    rcases h.closed u hu w hw with h | h | h
    · exact Or.inl h
    · exact Or.inr h
    · simp at h

theorem Inv.skip {G : Graph} {a : Option Nat} {r x : Nat} {st vis : List Nat}
    (h : Inv G a r (x :: st) vis) (hx : a = some x ∨ x ∈ vis) : Inv G a r st vis := by
  refine ⟨h.vis_sound, fun y hy => h.st_sound y (List.mem_cons_of_mem _ hy), ?_, ?_⟩
  · intro u hu w hw
    rcases h.closed u hu w hw with h' | h' | h'
    · exact Or.inl h'
    · exact Or.inr (Or.inl h')
    · rcases List.mem_cons.mp h' with e | e
      · subst e
        rcases hx with hx | hx
        · exact Or.inl hx
        · exact Or.inr (Or.inl hx)
      · exact Or.inr (Or.inr e)
  · rcases h.root with h' | h' | h'
    · exact Or.inl h'
    · exact Or.inr (Or.inl h')
    · rcases List.mem_cons.mp h' with e | e
      · subst e
        rcases hx with hx | hx
        · exact Or.inl hx
        · exact Or.inr (Or.inl hx)
      · exact Or.inr (Or.inr e)

theorem Inv.visit {G : Graph} {a : Option Nat} {r x : Nat} {st vis : List Nat}
    (h : Inv G a r (x :: st) vis) (hx : a ≠ some x) :
    Inv G a r (G.succs x ++ st) (x :: vis) := by
  have hRAx : RA G a r x := by
    rcases h.st_sound x (by simp) with e | ⟨u, hu, e⟩
    · subst e; exact RA.root hx
    · exact hu.step e hx
  refine ⟨?_, ?_, ?_, ?_⟩
  · intro y hy
    rcases List.mem_cons.mp hy with e | e
    · subst e; exact hRAx
    · exact h.vis_sound y e
  · intro y hy
    rcases List.mem_append.mp hy with e | e
    · exact Or.inr ⟨x, hRAx, e⟩
    · exact h.st_sound y (List.mem_cons_of_mem _ e)
  · intro u hu w hw
    rcases List.mem_cons.mp hu with e | e
    · subst e
      exact Or.inr (Or.inr (List.mem_append.mpr (Or.inl hw)))
    · rcases h.closed u e w hw with h' | h' | h'
      · exact Or.inl h'
      · exact Or.inr (Or.inl (List.mem_cons_of_mem _ h'))
      · rcases List.mem_cons.mp h' with e' | e'
        · subst e'; exact Or.inr (Or.inl (by simp))
        · exact Or.inr (Or.inr (List.mem_append.mpr (Or.inr e')))
  · rcases h.root with h' | h' | h'
    · exact Or.inl h'
    · exact Or.inr (Or.inl (List.mem_cons_of_mem _ h'))
    · rcases List.mem_cons.mp h' with e' | e'
      · subst e'; exact Or.inr (Or.inl (by simp))
      · exact Or.inr (Or.inr (List.mem_append.mpr (Or.inr e')))

theorem wt_visit (G : Graph) (vis : List Nat) (x : Nat) (hv : x ∉ vis) :
    wt G (x :: vis) + (G.succs x).length ≤ wt G vis := by
  by_cases hx : x < G.size
  · have := wtL_visit (cost G) vis x (List.range G.size) (List.mem_range.mpr hx) hv
    simp only [wt, cost] at *; omega
  · have h0 : G.succs x = [] := G.succs_of_size_le (Nat.le_of_not_lt hx)
    have := wtL_mono (cost G) vis x (List.range G.size)
    simp only [wt, h0, List.length_nil] at *; omega

/-- The DFS terminates within the potential bound with a sound, closed set. -/
theorem dfs_final (G : Graph) (a : Option Nat) (r : Nat) :
    ∀ (f : Nat) (st vis : List Nat), Inv G a r st vis → st.length + wt G vis ≤ f →
      Final G a r (dfs G a f st vis) := by
  intro f
  induction f with
  | zero =>
    intro st vis hinv hle
    have : st = [] := by
      cases st with
      | nil => rfl
      | cons _ _ => simp at hle
    subst this
    simpa [dfs] using Final.of_inv_nil hinv
  | succ f ih =>
    intro st vis hinv hle
    cases st with
    | nil => simpa [dfs] using Final.of_inv_nil hinv
    | cons x st =>
      simp only [dfs]
      by_cases hc : (a == some x || vis.contains x) = true
      · rw [if_pos hc]
        apply ih
        · apply hinv.skip
          simp only [Bool.or_eq_true, beq_iff_eq, List.contains_iff_mem] at hc
          exact hc
        · simp at hle; omega
      · rw [if_neg hc]
        simp only [Bool.or_eq_true, beq_iff_eq, not_or] at hc
        apply ih
        · exact hinv.visit hc.1
        · have hv : x ∉ vis := by simpa using hc.2
          have := wt_visit G vis x hv
          simp at hle ⊢; omega

/-- **Reachability after removal is exact**, for every graph, root and removed node. -/
theorem mem_reachAvoid (G : Graph) (a : Option Nat) (r v : Nat) :
    v ∈ reachAvoid G a r ↔ RA G a r v := by
  have hinv : Inv G a r [r] [] :=
    ⟨by simp, by simp, by simp, Or.inr (Or.inr (by simp))⟩
  have hfin := dfs_final G a r (fuel G) [r] [] hinv (by simp [fuel])
  constructor
  · exact hfin.sound v
  · exact RA.mem_of_closed hfin.root hfin.closed

theorem RA_none_iff_reach (G : Graph) (r v : Nat) : RA G none r v ↔ Reach G r v := by
  constructor
  · rintro ⟨p, hp, _⟩; exact ⟨p, hp⟩
  · rintro ⟨p, hp⟩; exact ⟨p, hp, by simp⟩

/-- Plain reachability. -/
def reach (G : Graph) (r : Nat) : List Nat := reachAvoid G none r

theorem mem_reach (G : Graph) (r v : Nat) : v ∈ reach G r ↔ Reach G r v := by
  simp [reach, mem_reachAvoid, RA_none_iff_reach]

theorem not_RA_iff_domFrom (G : Graph) (r d v : Nat) : ¬ RA G (some d) r v ↔ DomFrom G r d v := by
  constructor
  · intro h p hp
    by_cases hd : d ∈ p
    · exact hd
    · exact absurd ⟨p, hp, fun x hx e => hd (by simp at e; subst e; exact hx)⟩ h
  · rintro h ⟨p, hp, hav⟩
    exact hav d (h p hp) rfl

/-! ### The reference decision procedure -/

/-- The root whose paths count for `v`, given `RE` = the blocks reachable from the entry. -/
def rootFor (R : Roots) (RE : List Nat) (v : Nat) : Nat :=
  if RE.contains v then R.entry else R.recover.getD R.entry

/-- Reference: `d` dominates `v` iff `v` is unreachable from its root once `d` is removed. -/
def dom (G : Graph) (R : Roots) (d v : Nat) : Bool :=
  !(reachAvoid G (some d) (rootFor R (reach G R.entry) v)).contains v

theorem dom_correct (G : Graph) (R : Roots) (d v : Nat) :
    dom G R d v = true ↔ Dominates G R d v := by
  unfold dom rootFor Dominates
  by_cases hre : Reach G R.entry v
  · have : (reach G R.entry).contains v = true := by
      simp [mem_reach, hre]
    simp only [this, if_true, Bool.not_eq_true', ← Bool.not_eq_true, List.contains_iff_mem,
      mem_reachAvoid, not_RA_iff_domFrom]
    constructor
    · intro h; exact ⟨fun _ => h, fun hn => absurd hre hn⟩
    · intro h; exact h.1 hre
  · have : (reach G R.entry).contains v = false := by
      rw [← Bool.not_eq_true, List.contains_iff_mem, mem_reach]; exact hre
    simp only [this, Bool.false_eq_true, if_false, Bool.not_eq_true', ← Bool.not_eq_true,
      List.contains_iff_mem, mem_reachAvoid, not_RA_iff_domFrom]
    constructor
    · intro h
      refine ⟨fun hr => absurd hr hre, fun _ r hr => ?_⟩
      simpa [hr] using h
    · intro h
      cases hrec : R.recover with
      | none =>
        intro p hp
        exact absurd ⟨p, hp⟩ hre
      | some r =>
        simpa using h.2 hre r hrec

/-- All dominators of `v` among the blocks of `G`. -/
def domSets (G : Graph) (R : Roots) (v : Nat) : List Nat :=
  (List.range G.size).filter (fun d => dom G R d v)

/-- **The reference algorithm is exact** on every finite graph. -/
theorem domSets_correct (G : Graph) (R : Roots) (d v : Nat) (hd : d < G.size) :
    d ∈ domSets G R v ↔ Dominates G R d v := by
  simp [domSets, List.mem_filter, hd, dom_correct]

/-- Row `d` of the relation, computed with two searches: `row[v] = dom d v`.
`RE` must be `reach G R.entry` (passed in so that callers compute it once). -/
def domRow (G : Graph) (R : Roots) (RE : List Nat) (d : Nat) : List Bool :=
  let A := reachAvoid G (some d) R.entry
  let B := reachAvoid G (some d) (R.recover.getD R.entry)
  (List.range G.size).map fun v => if RE.contains v then !A.contains v else !B.contains v

theorem domRow_length (G : Graph) (R : Roots) (RE : List Nat) (d : Nat) :
    (domRow G R RE d).length = G.size := by simp [domRow]

theorem domRow_eq_dom (G : Graph) (R : Roots) (d v : Nat) (hv : v < G.size) :
    (domRow G R (reach G R.entry) d)[v]? = some (dom G R d v) := by
  simp only [domRow, dom, rootFor, List.getElem?_map, List.getElem?_range hv, Option.map_some]
  split <;> rfl

theorem domRow_correct (G : Graph) (R : Roots) (d v : Nat) (hv : v < G.size) :
    (domRow G R (reach G R.entry) d)[v]? = some true ↔ Dominates G R d v := by
  rw [domRow_eq_dom G R d v hv, ← dom_correct]; simp

/-! ### Non-vacuity: an irreducible graph with a recover block

blocks: 0 → 1, 2; 1 → 2, 3; 2 → 1, 3 (the loop {1,2} has two entries); 4 = recover → 5. -/
def exG : Graph := ⟨[[1, 2], [2, 3], [1, 3], [], [5], []]⟩
def exR : Roots := ⟨0, some 4⟩

example : domSets exG exR 3 = [0, 3] := by decide
example : domSets exG exR 5 = [4, 5] := by decide
example : Dominates exG exR 4 5 := (domSets_correct exG exR 4 5 (by decide)).mp (by decide)
example : ¬ Dominates exG exR 1 3 := fun h =>
  absurd ((domSets_correct exG exR 1 3 (by decide)).mpr h) (by decide)

end Verif.C14
