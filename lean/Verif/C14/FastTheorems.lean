/-
C14 — soundness of the any-size validator `domCheckF` (Fast.lean).

`domCheckF_sound`: if `domCheckF` accepts what the exported API reported for a function
with control-flow graph `G` — of ANY size, no rows needed — then
* `Idom()` of every block is its immediate dominator (`IsIdom`, path-based),
* `Dominees()` is the inverse of `Idom()` without repetitions,
* `DomPreorder()`/`DomPostorder()` are the preorder/postorder traversals of ONE forest
  with distinct blocks whose ancestor-or-self relation is exactly path dominance
  (two-root reading) — the dominator forest,
* hence for ALL ordered pairs of blocks the O(1) interval test on the listing positions,
  and `BasicBlock.Dominates` as modelled by `numberDomTree` + `NumState.dominates` on that
  forest (`ancestor_iff_intervals`), is exactly path dominance,
* every dumped `Dominates(a, b)` answer is exactly path dominance and equals the interval
  test; with a complete dump (`full`) that is all ordered pairs.
This is where `ancestor_iff_positions`, `ancestor_iff_intervals` and the proved algorithm
`domBits` enter the soundness chain.
-/
import Verif.C14.Theorems
import Verif.C14.Forest
import Verif.C14.IterTotal
namespace Verif.C14

/-- What an accepted dump guarantees, for functions of any size. -/
structure ExactTree (G : Graph) (r : Report) : Prop where
  size : G.size = r.n
  pos_n : 0 < r.n
  /-- `Idom()` is the immediate dominator of every block -/
  idom : ∀ b, b < r.n → IsIdom G r.roots r.n (r.idomOf b) b
  /-- `Dominees()` is the inverse of `Idom()` -/
  dominees : ∀ a, a < r.n → ∀ b, b ∈ r.domineesOf a ↔ (b < r.n ∧ r.idomOf b = some a)
  dominees_once : ∀ a, a < r.n → ∀ b, b ∈ r.domineesOf a →
    ((r.domineesOf a).filter (· == b)).length = 1
  pre_listing : IsListing r.n r.preL
  post_listing : IsListing r.n r.postL
  /-- the listings are the traversals of the dominator forest -/
  forest : ∃ ts : List Tree, (preF ts).Nodup ∧ r.preL = preF ts ∧ r.postL = postF ts ∧
    (∀ a b, a < r.n → b < r.n → (AncF ts a b ↔ Dominates G r.roots a b)) ∧
    (∀ a b, a < r.n → b < r.n →
      ((numberForest ts).dominates a b = true ↔ Dominates G r.roots a b))
  /-- for ALL ordered pairs, path dominance is the interval test on the listing positions -/
  intervals_all : ∀ a b, a < r.n → b < r.n →
    (Dominates G r.roots a b ↔
      pos a r.preL ≤ pos b r.preL ∧ pos b r.postL ≤ pos a r.postL)
  /-- every dumped answer of `Dominates(a, b)` is exactly path dominance -/
  rel_exact : ∀ a b, a ∈ r.rows.map Prod.fst → b < r.n →
    (r.rel a b = true ↔ Dominates G r.roots a b)
  /-- with the complete matrix: all ordered pairs -/
  rel_all : r.full = true → ∀ a b, a < r.n → b < r.n →
    (r.rel a b = true ↔ Dominates G r.roots a b)

/-! ### Clause lemmas -/

theorem dominates_refl (G : Graph) (R : Roots) (d : Nat) : Dominates G R d d :=
  ⟨fun _ _ hp => hp.last_mem, fun _ _ _ _ hp => hp.last_mem⟩

theorem nodupB_sound : ∀ {l : List Nat}, nodupB l = true → l.Nodup
  | [], _ => List.nodup_nil
  | x :: xs, h => by
    simp only [nodupB, Bool.and_eq_true, Bool.not_eq_true', ← Bool.not_eq_true,
      List.contains_iff_mem] at h
    exact List.nodup_cons.mpr ⟨h.1, nodupB_sound h.2⟩

theorem rowOk_sound (D : Array Nat) (a : Nat) : ∀ (bits : List Bool) (s : Nat),
    rowOk D a bits s = true → ∀ k, k < bits.length →
      bits.getD k false = (dget D (s + k)).testBit a
  | [], _, _, k, hk => by simp at hk
  | x :: xs, s, h, k, hk => by
    simp only [rowOk, Bool.and_eq_true, beq_iff_eq] at h
    cases k with
    | zero => simpa using h.1
    | succ k =>
      have := rowOk_sound D a xs (s + 1) h.2 k (by simpa using hk)
      simp only [List.getD_cons_succ]
      rw [this]; congr 2; omega

theorem fRows_sound {G : Graph} {r : Report} {D : Array Nat}
    (hD : ∀ v d, v < r.n → d < r.n → ((dget D v).testBit d = true ↔ Dominates G r.roots d v))
    (h : fRows D r = true) (a b : Nat) (ha : a ∈ r.rows.map Prod.fst) (hb : b < r.n) :
    (r.rel a b = true ↔ Dominates G r.roots a b) := by
  obtain ⟨bits, hl⟩ := lookup_isSome_of_mem_keys a r.rows ha
  have hm := lookup_mem a bits r.rows hl
  simp only [fRows, List.all_eq_true] at h
  have := h (a, bits) hm
  simp only [Bool.and_eq_true, decide_eq_true_eq, beq_iff_eq] at this
  obtain ⟨⟨han, hlen⟩, hrow⟩ := this
  have hbit := rowOk_sound D a bits 0 hrow b (by omega)
  simp only [Report.rel, hl]
  rw [hbit, Nat.zero_add]
  exact hD b a hb han

theorem fIdom_sound {G : Graph} {r : Report} {D : Array Nat}
    (hD : ∀ v d, v < r.n → d < r.n → ((dget D v).testBit d = true ↔ Dominates G r.roots d v))
    (h : fIdom D r = true) (b : Nat) (hb : b < r.n) :
    IsIdom G r.roots r.n (r.idomOf b) b := by
  simp only [fIdom, List.all_eq_true, List.mem_range] at h
  have h := h b hb
  unfold IsIdom
  cases hi : r.idomOf b with
  | none =>
    simp only [hi, beq_iff_eq] at h
    intro a ha hdom
    have := (hD b a hb ha).mpr hdom
    rw [h, testBit_bit] at this
    simp only [decide_eq_true_eq] at this
    exact this.symm
  | some d =>
    simp only [hi, Bool.and_eq_true, decide_eq_true_eq, bne_iff_ne, ne_eq, beq_iff_eq] at h
    obtain ⟨⟨hd, hne⟩, heq⟩ := h
    have hstep := fun a => testBit_eq_union (a := a) heq
    refine ⟨hd, hne, ?_, fun c hc hcb hdom => ?_⟩
    · exact (hD b d hb hd).mp ((hstep d).mpr (Or.inr ((hD d d hd hd).mpr (dominates_refl _ _ _))))
    · rcases (hstep c).mp ((hD b c hb hc).mpr hdom) with e | h'
      · exact absurd e hcb
      · exact (hD d c hd hc).mp h'

theorem fDominees_sound {r : Report} (h : fDominees r = true) (a : Nat) (ha : a < r.n) :
    (∀ b, b ∈ r.domineesOf a ↔ (b < r.n ∧ r.idomOf b = some a)) ∧
    (∀ b, b ∈ r.domineesOf a → ((r.domineesOf a).filter (· == b)).length = 1) := by
  simp only [fDominees, Bool.and_eq_true, List.all_eq_true, List.mem_range] at h
  obtain ⟨h1, h2⟩ := h
  have h1 := h1 a ha
  simp only [decide_eq_true_eq, beq_iff_eq] at h1
  obtain ⟨hall, hnd⟩ := h1
  have hnd := nodupB_sound hnd
  refine ⟨fun b => ⟨fun hb => hall b hb, fun ⟨hb, hi⟩ => ?_⟩, fun b hb => ?_⟩
  · have := h2 b hb
    simp only [hi, List.contains_iff_mem] at this
    exact this
  · rw [← List.count_eq_length_filter, hnd.count, if_pos hb]

/-! ### Soundness -/

/-- **Soundness of the any-size validator.** -/
theorem domCheckF_sound (G : Graph) (r : Report) (h : domCheckF G r = true) : ExactTree G r := by
  simp only [domCheckF, Bool.and_eq_true] at h
  obtain ⟨hshape, h⟩ := h
  have hshape' := hshape
  simp only [cShape, Bool.and_eq_true, beq_iff_eq, decide_eq_true_eq] at hshape'
  have hsz : G.size = r.n := hshape'.1.1.1.1
  have hpos : 0 < r.n := hshape'.1.1.1.2
  split at h
  · simp at h
  · rename_i D hbits
    simp only [Bool.and_eq_true, Bool.or_eq_true, Bool.not_eq_true'] at h
    obtain ⟨⟨⟨⟨hrows, hidom⟩, hdominees⟩, hforest⟩, hfull⟩ := h
    have hD : ∀ v d, v < r.n → d < r.n →
        ((dget D v).testBit d = true ↔ Dominates G r.roots d v) :=
      fun v d hv hd => domBits_correct G r.roots D hbits v d (hsz ▸ hv) (hsz ▸ hd)
    -- the forest
    simp only [fForest] at hforest
    split at hforest
    · simp at hforest
    · rename_i ts _
      simp only [Bool.and_eq_true, beq_iff_eq] at hforest
      obtain ⟨⟨⟨⟨hgood, hpre⟩, hpost⟩, hperm⟩, hnd⟩ := hforest
      have hnd := nodupB_sound hnd
      have hndF : (preF ts).Nodup := hpre ▸ hnd
      have hpreL : IsListing r.n r.preL := isPerm_sound hperm
      have hlen := hpreL.length
      have hlt := hpreL.lt
      have hmemPre := hpreL.mem
      have hpostL : IsListing r.n r.postL := by
        refine ⟨?_, ?_, ?_⟩
        · rw [← hpost, length_postF, hpre, hlen]
        · intro x hx
          rw [← hpost] at hx
          exact hlt x (hpre ▸ (mem_postF_iff ts x).mp hx)
        · intro x hx
          rw [← hpost]
          exact (mem_postF_iff ts x).mpr (hpre ▸ hmemPre x hx)
      have hmemF : ∀ x, x < r.n → x ∈ preF ts := fun x hx => hpre ▸ hmemPre x hx
      have hanc : ∀ a b, a < r.n → b < r.n → (AncF ts a b ↔ Dominates G r.roots a b) :=
        fun a b ha hb => (forest_anc_iff_bits D ts hndF hgood b (hmemF b hb) a).trans (hD b a hb ha)
      have hint : ∀ a b, a < r.n → b < r.n →
          (Dominates G r.roots a b ↔
            pos a r.preL ≤ pos b r.preL ∧ pos b r.postL ≤ pos a r.postL) := by
        intro a b ha hb
        rw [← hanc a b ha hb, ← hpre, ← hpost]
        exact (ancestor_iff_positions ts hndF a b (hmemF a ha) (hmemF b hb)).symm
      have hrel := fRows_sound hD hrows
      exact
        { size := hsz
          pos_n := hpos
          idom := fIdom_sound hD hidom
          dominees := fun a ha => (fDominees_sound hdominees a ha).1
          dominees_once := fun a ha => (fDominees_sound hdominees a ha).2
          pre_listing := hpreL
          post_listing := hpostL
          forest := ⟨ts, hndF, hpre.symm, hpost.symm, hanc, fun a b ha hb =>
            (ancestor_iff_intervals ts hndF a b (hmemF a ha) (hmemF b hb)).trans (hanc a b ha hb)⟩
          intervals_all := hint
          rel_exact := hrel
          rel_all := fun hf a b ha hb => by
            rcases hfull with hfull | hfull
            · rw [hf] at hfull; exact absurd hfull (by simp)
            · exact hrel a b (cRowsFull_sound hfull a ha) hb }

/-- In the words of the property, for a function of any size: on an accepted dump the
interval test that `BasicBlock.Dominates` performs on the listing positions holds exactly
when every control-flow path from the entry (for blocks not reachable from the entry: from
the recover block) to `b` passes through `a`. -/
theorem interval_iff_all_paths (G : Graph) (r : Report) (h : domCheckF G r = true)
    (a b : Nat) (ha : a < r.n) (hb : b < r.n) :
    r.interval a b = true ↔
      ((Reach G 0 b → ∀ p, Path G 0 p b → a ∈ p) ∧
       (¬ Reach G 0 b → ∀ rb, r.recover = some rb → ∀ p, Path G rb p b → a ∈ p)) := by
  have := (domCheckF_sound G r h).intervals_all a b ha hb
  simp only [Report.interval, Bool.and_eq_true, decide_eq_true_eq]
  exact this.symm

/-- The validator never fails for lack of fuel: its dominator sets always exist and are
exact (`domBits_total_correct`), so a rejection is always a rejection of the REPORT. -/
theorem domCheckF_reject_is_about_report (G : Graph) (r : Report) (hs : cShape G r = true)
    (h : domCheckF G r = false) :
    ∃ D, domBits G r.roots = some D ∧
      (fRows D r && fIdom D r && fDominees r && fForest D r && (!r.full || cRowsFull r)) = false := by
  obtain ⟨D, hD⟩ := domBits_isSome G r.roots
  refine ⟨D, hD, ?_⟩
  simp only [domCheckF, hs, hD, Bool.true_and] at h
  exact h

/-! ### Non-vacuity: `exRep` (Theorems.lean) is accepted also WITHOUT any row; a wrong
`Idom` (block 3 hung below block 1) and a listing that is not a traversal are rejected. -/
def exRepNoRows : Report := { exRep with full := false, rows := [] }

example : domCheckF exG2 exRep = true := by decide +kernel
example : domCheckF exG2 exRepNoRows = true := by decide +kernel
example : ExactTree exG2 exRepNoRows := domCheckF_sound _ _ (by decide +kernel)
example : IsIdom exG2 exRepNoRows.roots 5 (some 0) 3 :=
  (domCheckF_sound exG2 exRepNoRows (by decide +kernel)).idom 3 (by decide)
example : domCheckF exG2 { exRepNoRows with
    idom := [none, some 0, some 0, some 1, none], dominees := [[1, 2], [3], [], [], []],
    preL := [0, 1, 3, 2, 4], postL := [3, 1, 2, 0, 4] } = false := by decide +kernel
example : domCheckF exG2 { exRepNoRows with postL := [2, 1, 3, 0, 4] } = false := by decide +kernel
example : ∀ p, Path exG2 0 p 3 → 0 ∈ p :=
  ((interval_iff_all_paths exG2 exRepNoRows (by decide +kernel) 0 3 (by decide) (by decide)).mp
    (by decide)).1 ⟨[0, 1, 3], .cons (by decide) (.cons (by decide) (.single 3))⟩

end Verif.C14
