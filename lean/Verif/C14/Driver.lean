/-
C14 driver: one dumped function per line.

  chk <n> <recover|-> <full 0|1> S <succs × n> P <preds × n> I <idom × n> C <dominees × n>
      PRE <csv DomPreorder> POST <csv DomPostorder> R <k> (<a> <bits>) × k

(csv = comma separated block indices, `-` = empty / nil.)  Output:

  <verdict> num=<ok|diff> lt=<ok|diff|panic> preds=<ok|diff> [details]

`chkf …` has the same arguments as `chk` but runs only the any-size validator.

verdict = `ok` when the proved validators accept (`domCheckF` always; `domCheck`, the
O(n³) comparison with the path-based reference, only for `chk`), otherwise
`fail:<first failing clause>` (clauses of `domCheckF` are prefixed `f-`); `preds` probes
that the dumped `Preds` are the inverse of `Succs`; `num` / `lt` are the correspondence of the
`numberDomTree` / `buildDomTree` transliterations with what was reported.  Details (only
on failure, produced by unverified reporting code) name a block pair and both answers.

  ref <n> <recover|-> S <succs × n>     →  the reference relation, one row per block
-/
import Verif.Common.Proto
import Verif.C14.Model
import Verif.C14.Fast
namespace Verif.C14
open Verif.Proto

def parseCsv (s : String) : Option (List Nat) :=
  if s = "-" then some [] else (s.splitOn ",").mapM (·.toNat?)

def parseOptNat (s : String) : Option (Option Nat) :=
  if s = "-" then some none else s.toNat?.map some

def parseBits (s : String) : Option (List Bool) :=
  s.toList.mapM fun c => if c = '1' then some true else if c = '0' then some false else none

def showBits (l : List Bool) : String := String.ofList (l.map fun b => if b then '1' else '0')

/-- Take exactly `n` tokens. -/
def takeN (n : Nat) (ts : List String) : Option (List String × List String) :=
  if ts.length < n then none else some (ts.take n, ts.drop n)

def expect (tag : String) : List String → Option (List String)
  | t :: ts => if t = tag then some ts else none
  | [] => none

def parseRows : Nat → List String → Option (List (Nat × List Bool) × List String)
  | 0, ts => some ([], ts)
  | k + 1, a :: bits :: ts => do
    let a ← a.toNat?
    let bits ← parseBits bits
    let (rest, ts) ← parseRows k ts
    pure ((a, bits) :: rest, ts)
  | _, _ => none

structure Case where
  G : Graph
  preds : List (List Nat)
  rep : Report

def parseCase (ts : List String) : Option Case := do
  match ts with
  | n :: rec :: full :: ts =>
    let n ← n.toNat?
    let rec ← parseOptNat rec
    let full ← parseBool full
    let ts ← expect "S" ts
    let (s, ts) ← takeN n ts
    let succ ← s.mapM parseCsv
    let ts ← expect "P" ts
    let (p, ts) ← takeN n ts
    let preds ← p.mapM parseCsv
    let ts ← expect "I" ts
    let (i, ts) ← takeN n ts
    let idom ← i.mapM parseOptNat
    let ts ← expect "C" ts
    let (c, ts) ← takeN n ts
    let dominees ← c.mapM parseCsv
    let ts ← expect "PRE" ts
    let (pre, ts) ← takeN 1 ts
    let preL ← parseCsv (pre.headD "")
    let ts ← expect "POST" ts
    let (post, ts) ← takeN 1 ts
    let postL ← parseCsv (post.headD "")
    let ts ← expect "R" ts
    let (k, ts) ← takeN 1 ts
    let k ← (k.headD "").toNat?
    let (rows, ts) ← parseRows k ts
    if ts ≠ [] then none
    pure ⟨⟨succ⟩, preds, ⟨n, rec, idom, dominees, preL, postL, full, rows⟩⟩
  | _ => none

/-- First index where two rows differ. -/
def firstDiff : List Bool → List Bool → Nat → Option (Nat × Bool × Bool)
  | x :: xs, y :: ys, i => if x != y then some (i, x, y) else firstDiff xs ys (i + 1)
  | _, _, _ => none

/-- Unverified reporting: a block pair and both answers for the failing clause. -/
def details (G : Graph) (r : Report) (clause : String) : String :=
  let n := r.n
  if clause = "rows-exact" then
    let RE := reach G 0
    match r.rows.findSome? (fun (a, bits) =>
      let refRow := domRow G r.roots RE a
      if bits == refRow then none else
      match firstDiff bits refRow 0 with
      | some (b, x, y) => some s!"a={a} b={b} reported={showBool x} reference={showBool y}"
      | none => some s!"a={a} row-length reported={bits.length} reference={refRow.length}") with
    | some s => s
    | none => ""
  else if clause = "idom" then
    match (List.range n).find? (fun b =>
      !(match r.idomOf b with
        | none => (List.range n).all fun a => !(r.rel a b) || a == b
        | some d => decide (d < n) && d != b && r.rel d b &&
            (List.range n).all fun c => c == b || !(r.rel c b) || r.rel c d)) with
    | some b =>
      let doms := (List.range n).filter (fun a => r.rel a b && a != b)
      s!"b={b} idom={r.idomOf b} strict-dominators={doms}"
    | none => ""
  else if clause = "dominees" then
    match (List.range n).find? (fun a =>
      let want := (List.range n).filter (fun b => r.idomOf b == some a)
      !(want.all (r.domineesOf a).contains && (r.domineesOf a).length == want.length)) with
    | some a => s!"a={a} dominees={r.domineesOf a} blocks-with-idom-a={(List.range n).filter (fun b => r.idomOf b == some a)}"
    | none => ""
  else if clause = "intervals" then
    match r.rows.findSome? (fun (a, _) =>
      ((List.range n).find? fun b => r.rel a b != r.interval a b).map fun b => (a, b)) with
    | some (a, b) => s!"a={a} b={b} reported={showBool (r.rel a b)} interval-test={showBool (r.interval a b)}"
    | none => ""
  else if clause = "traversal" then
    match (List.range n).findSome? (fun a =>
      let k := r.cnt a
      let pa := pos a r.preL
      let qa := pos a r.postL
      ((List.range n).find? fun b =>
        !((r.rel a b == (decide (pa ≤ pos b r.preL) && decide (pos b r.preL < pa + k))) &&
          (r.rel a b == (decide (pos b r.postL ≤ qa) && decide (qa < pos b r.postL + k))))).map
        fun b => (a, b)) with
    | some (a, b) => s!"a={a} b={b} dominates={showBool (r.rel a b)} cnt={r.cnt a} pre=({pos a r.preL},{pos b r.preL}) post=({pos a r.postL},{pos b r.postL})"
    | none => ""
  else ""

/-- Unverified reporting for the clauses of the any-size validator. -/
def detailsF (G : Graph) (r : Report) (clause : String) : String :=
  let n := r.n
  match domBits G r.roots with
  | none => "the iterative dominator algorithm did not stabilise within its fuel"
  | some D =>
  if clause = "f-rows-exact" then
    match r.rows.findSome? (fun (a, bits) =>
      if bits.length != n then some s!"a={a} row-length reported={bits.length} reference={n}" else
      ((List.range n).find? fun b => bits.getD b false != (dget D b).testBit a).map fun b =>
        s!"a={a} b={b} reported={showBool (bits.getD b false)} reference={showBool ((dget D b).testBit a)}") with
    | some s => s
    | none => ""
  else if clause = "f-idom" then
    match (List.range n).find? (fun v =>
      !(match r.idomOf v with
        | none => dget D v == bit v
        | some d => decide (d < n) && d != v && dget D v == (bit v ||| dget D d))) with
    | some v =>
      let doms := (List.range n).filter (fun a => (dget D v).testBit a && a != v)
      s!"b={v} idom={r.idomOf v} strict-dominators(reference)={doms}"
    | none => ""
  else if clause = "f-dominees" then
    match (List.range n).find? (fun a =>
      let want := (List.range n).filter (fun b => r.idomOf b == some a)
      !(want.all (r.domineesOf a).contains && (r.domineesOf a).length == want.length)) with
    | some a => s!"a={a} dominees={r.domineesOf a} blocks-with-idom-a={(List.range n).filter (fun b => r.idomOf b == some a)}"
    | none => ""
  else if clause = "f-forest" then
    match forestF r with
    | none => "the reported Dominees lists do not unfold to a forest (cycle)"
    | some ts =>
      if !forestGood D ts then "a tree edge of the reported Dominees is not an immediate-dominance edge"
      else if preF ts != r.preL then s!"DomPreorder={r.preL} is not the preorder traversal {preF ts} of the dominator forest"
      else if postF ts != r.postL then s!"DomPostorder={r.postL} is not the postorder traversal {postF ts} of the dominator forest (children in DomPreorder order)"
      else "DomPreorder is not a permutation of the blocks"
  else ""

/-- `ref = true`: also run the O(n³) validator `domCheck` against the path-based reference. -/
def check (c : Case) (ref : Bool) : String :=
  let r := c.rep
  let G := c.G
  let clF := clausesF G r
  let vF := domCheckF G r
  let badF := (clF.find? (fun p => !p.2)).map (·.1)
  let cl := if ref then clauses G r else []
  let v := if ref then domCheck G r else true
  let bad := (cl.find? (fun p => !p.2)).map (·.1)
  let verdict :=
    if vF && v then
      (if badF.isSome || bad.isSome then "fail:clauses-disagree" else "ok")
    else if !vF then
      match badF with
      | some name => s!"fail:{name}"
      | none => "fail:?"
    else
      match bad with
      | some name => s!"fail:{name}"
      | none => "fail:?"
  let num := if numberCheckT r then "ok" else "diff"
  let preds := fun v => c.preds.getD v []
  let lt := match ltBuild G preds r.recover with
    | none => "panic"
    | some _ => if ltCheckT G preds r then "ok" else "diff"
  let pc := if predsConsistent G c.preds then "ok" else "diff"
  let det :=
    if !vF then (match badF with | some name => " " ++ detailsF G r name | none => "")
    else if !v then (match bad with | some name => " " ++ details G r name | none => "")
    else ""
  s!"{verdict} num={num} lt={lt} preds={pc}{det}"

def step (line : String) : String :=
  match tokens line with
  | "chk" :: ts =>
    match parseCase ts with
    | some c => check c true
    | none => "bad-op"
  | "chkf" :: ts =>
    match parseCase ts with
    | some c => check c false
    | none => "bad-op"
  | ["ref", n, rec, "S"] => if n = "0" ∧ rec = "-" then "" else "bad-op"
  | "ref" :: n :: rec :: "S" :: ts =>
    match n.toNat?, parseOptNat rec, ts.mapM parseCsv with
    | some n, some rec, some succ =>
      if succ.length ≠ n then "bad-op" else
      let G : Graph := ⟨succ⟩
      let R : Roots := ⟨0, rec⟩
      let RE := reach G 0
      " ".intercalate ((List.range n).map fun a => showBits (domRow G R RE a))
    | _, _, _ => "bad-op"
  | _ => "bad-op"

end Verif.C14
