/-
C14 — `numberDomTree`: the pre/post numbering decides ancestor-or-self.

* `number_spec` / `numberF_spec`: the transliterated `numberDomTree` assigns `pre`
  numbers `p, p+1, …` along `Tree.pre` and `post` numbers `q, q+1, …` along `Tree.post`.
* `ancestor_iff_positions`: in a forest with distinct blocks, `pos a pre ≤ pos b pre ∧
  pos b post ≤ pos a post` iff `a` is an ancestor of `b` or `b` itself.
* `ancestor_iff_intervals`: the same for the numbers `numberDomTree` assigns, i.e. for
  `BasicBlock.Dominates` as dom.go computes it.
-/
import Verif.C14.Model
namespace Verif.C14

/-! ### positions -/

theorem pos_append_mem {x : Nat} {l₁ l₂ : List Nat} (h : x ∈ l₁) :
    pos x (l₁ ++ l₂) = pos x l₁ := by
  induction l₁ with
  | nil => simp at h
  | cons y l ih =>
    simp only [List.cons_append, pos]
    by_cases hy : y = x
    · simp [hy]
    · have : x ∈ l := by
        rcases List.mem_cons.mp h with e | e
        · exact absurd e.symm hy
        · exact e
      simp [hy, ih this]

theorem pos_append_not_mem {x : Nat} {l₁ l₂ : List Nat} (h : x ∉ l₁) :
    pos x (l₁ ++ l₂) = l₁.length + pos x l₂ := by
  induction l₁ with
  | nil => simp
  | cons y l ih =>
    have hy : y ≠ x := fun e => h (by simp [e])
    have hl : x ∉ l := fun e => h (List.mem_cons_of_mem _ e)
    simp only [List.cons_append, pos, hy, if_false, ih hl, List.length_cons]
    omega

theorem pos_lt_length {x : Nat} {l : List Nat} (h : x ∈ l) : pos x l < l.length := by
  induction l with
  | nil => simp at h
  | cons y l ih =>
    simp only [pos, List.length_cons]
    by_cases hy : y = x
    · simp [hy]
    · have : x ∈ l := by
        rcases List.mem_cons.mp h with e | e
        · exact absurd e.symm hy
        · exact e
      simp only [hy, if_false]
      have := ih this
      omega

/-! ### traversals of the same tree -/

mutual
theorem Tree.mem_post_iff : ∀ (t : Tree) (x : Nat), x ∈ t.post ↔ x ∈ t.pre
  | .node v cs, x => by
    simp only [Tree.post, Tree.pre, List.mem_append, List.mem_cons,
      List.not_mem_nil, or_false, mem_postF_iff cs x]
    constructor
    · rintro (h | h)
      · exact Or.inr h
      · exact Or.inl h
    · rintro (h | h)
      · exact Or.inr h
      · exact Or.inl h
theorem mem_postF_iff : ∀ (ts : List Tree) (x : Nat), x ∈ postF ts ↔ x ∈ preF ts
  | [], x => by simp [postF, preF]
  | t :: ts, x => by
    simp only [postF, preF, List.mem_append, Tree.mem_post_iff t x, mem_postF_iff ts x]
end

mutual
theorem Tree.length_post : ∀ (t : Tree), t.post.length = t.pre.length
  | .node v cs => by simp [Tree.post, Tree.pre, length_postF cs]
theorem length_postF : ∀ (ts : List Tree), (postF ts).length = (preF ts).length
  | [] => by simp [postF, preF]
  | t :: ts => by simp [postF, preF, Tree.length_post t, length_postF ts]
end

mutual
theorem Tree.Anc.mem : ∀ (t : Tree) (a b : Nat), t.Anc a b → a ∈ t.pre ∧ b ∈ t.pre
  | .node v cs, a, b, h => by
    simp only [Tree.Anc] at h
    simp only [Tree.pre, List.mem_cons]
    rcases h with ⟨rfl, hb⟩ | h
    · exact ⟨Or.inl rfl, hb⟩
    · have := AncF.mem cs a b h
      exact ⟨Or.inr this.1, Or.inr this.2⟩
theorem AncF.mem : ∀ (ts : List Tree) (a b : Nat), AncF ts a b → a ∈ preF ts ∧ b ∈ preF ts
  | [], a, b, h => by simp [AncF] at h
  | t :: ts, a, b, h => by
    simp only [AncF] at h
    simp only [preF, List.mem_append]
    rcases h with h | h
    · have := Tree.Anc.mem t a b h
      exact ⟨Or.inl this.1, Or.inl this.2⟩
    · have := AncF.mem ts a b h
      exact ⟨Or.inr this.1, Or.inr this.2⟩
end

/-! ### positions decide ancestry -/

mutual
theorem Tree.anc_iff_positions : ∀ (t : Tree), t.pre.Nodup → ∀ a b, a ∈ t.pre → b ∈ t.pre →
    ((pos a t.pre ≤ pos b t.pre ∧ pos b t.post ≤ pos a t.post) ↔ t.Anc a b)
  | .node v cs, hnd, a, b, ha, hb => by
    simp only [Tree.pre] at hnd ha hb
    have hv : v ∉ preF cs := (List.nodup_cons.mp hnd).1
    have hcs : (preF cs).Nodup := (List.nodup_cons.mp hnd).2
    have hvp : v ∉ postF cs := fun h => hv ((mem_postF_iff cs v).mp h)
    simp only [Tree.pre, Tree.post, Tree.Anc]
    by_cases hav : a = v
    · subst hav
      -- the root: first in pre, last in post
      have h1 : pos a (a :: preF cs) = 0 := by simp [pos]
      have h2 : pos a (postF cs ++ [a]) = (postF cs).length := by
        rw [pos_append_not_mem hvp]; simp [pos]
      have h3 : pos b (postF cs ++ [a]) ≤ (postF cs).length := by
        by_cases hbv : b = a
        · subst hbv; omega
        · have hbc : b ∈ preF cs := by
            rcases List.mem_cons.mp hb with e | e
            · exact absurd e hbv
            · exact e
          have hbp : b ∈ postF cs := (mem_postF_iff cs b).mpr hbc
          rw [pos_append_mem hbp]
          exact Nat.le_of_lt (pos_lt_length hbp)
      constructor
      · intro _
        exact Or.inl ⟨rfl, by simpa using hb⟩
      · intro _
        rw [h1, h2]; exact ⟨Nat.zero_le _, h3⟩
    · have hac : a ∈ preF cs := by
        rcases List.mem_cons.mp ha with e | e
        · exact absurd e hav
        · exact e
      have hva : v ≠ a := fun e => hav e.symm
      have hap : a ∈ postF cs := (mem_postF_iff cs a).mpr hac
      by_cases hbv : b = v
      · subst hbv
        -- a strict descendant never dominates the root
        have h1 : pos b (b :: preF cs) = 0 := by simp [pos]
        have h2 : pos a (b :: preF cs) = pos a (preF cs) + 1 := by simp [pos, hva]
        constructor
        · intro h; omega
        · rintro (⟨e, _⟩ | h)
          · exact absurd e hav
          · exact absurd (AncF.mem cs a b h).2 hv
      · have hbc : b ∈ preF cs := by
          rcases List.mem_cons.mp hb with e | e
          · exact absurd e hbv
          · exact e
        have hvb : v ≠ b := fun e => hbv e.symm
        have hbp : b ∈ postF cs := (mem_postF_iff cs b).mpr hbc
        have h1 : pos a (v :: preF cs) = pos a (preF cs) + 1 := by simp [pos, hva]
        have h2 : pos b (v :: preF cs) = pos b (preF cs) + 1 := by simp [pos, hvb]
        rw [h1, h2, pos_append_mem hap, pos_append_mem hbp]
        have ih := ancF_iff_positions cs hcs a b hac hbc
        constructor
        · intro h
          exact Or.inr (ih.mp ⟨by omega, h.2⟩)
        · rintro (⟨e, _⟩ | h)
          · exact absurd e hav
          · have := ih.mpr h
            exact ⟨by omega, this.2⟩
theorem ancF_iff_positions : ∀ (ts : List Tree), (preF ts).Nodup → ∀ a b, a ∈ preF ts → b ∈ preF ts →
    ((pos a (preF ts) ≤ pos b (preF ts) ∧ pos b (postF ts) ≤ pos a (postF ts)) ↔ AncF ts a b)
  | [], _, a, b, ha, _ => by simp [preF] at ha
  | t :: ts, hnd, a, b, ha, hb => by
    simp only [preF] at hnd ha hb
    obtain ⟨hnt, hnts, hdisj⟩ := List.nodup_append.mp hnd
    simp only [preF, postF, AncF]
    have hlen := Tree.length_post t
    by_cases hat : a ∈ t.pre
    · have hats : a ∉ preF ts := fun h => hdisj a hat a h rfl
      have hatp : a ∈ t.post := (Tree.mem_post_iff t a).mpr hat
      by_cases hbt : b ∈ t.pre
      · -- both in the first tree
        have hbtp : b ∈ t.post := (Tree.mem_post_iff t b).mpr hbt
        rw [pos_append_mem hat, pos_append_mem hbt, pos_append_mem hatp, pos_append_mem hbtp]
        have ih := Tree.anc_iff_positions t hnt a b hat hbt
        constructor
        · intro h; exact Or.inl (ih.mp h)
        · rintro (h | h)
          · exact ih.mpr h
          · exact absurd (AncF.mem ts a b h).1 hats
      · -- a in the first tree, b in a later one: post b > post a
        have hbtp : b ∉ t.post := fun h => hbt ((Tree.mem_post_iff t b).mp h)
        rw [pos_append_mem hatp, pos_append_not_mem hbtp]
        have := pos_lt_length hatp
        constructor
        · intro h; omega
        · rintro (h | h)
          · exact absurd (Tree.Anc.mem t a b h).2 hbt
          · exact absurd (AncF.mem ts a b h).1 hats
    · have hats : a ∈ preF ts := by
        rcases List.mem_append.mp ha with e | e
        · exact absurd e hat
        · exact e
      have hatp : a ∉ t.post := fun h => hat ((Tree.mem_post_iff t a).mp h)
      by_cases hbt : b ∈ t.pre
      · -- a in a later tree, b in the first: pre a > pre b
        rw [pos_append_not_mem hat, pos_append_mem hbt]
        have := pos_lt_length hbt
        constructor
        · intro h; omega
        · rintro (h | h)
          · exact absurd (Tree.Anc.mem t a b h).1 hat
          · have hbts := (AncF.mem ts a b h).2
            exact absurd rfl (hdisj b hbt b hbts)
      · have hbts : b ∈ preF ts := by
          rcases List.mem_append.mp hb with e | e
          · exact absurd e hbt
          · exact e
        have hbtp : b ∉ t.post := fun h => hbt ((Tree.mem_post_iff t b).mp h)
        rw [pos_append_not_mem hat, pos_append_not_mem hbt, pos_append_not_mem hatp,
          pos_append_not_mem hbtp, hlen]
        have ih := ancF_iff_positions ts hnts a b hats hbts
        constructor
        · intro h; exact Or.inr (ih.mp ⟨by omega, by omega⟩)
        · rintro (h | h)
          · exact absurd (Tree.Anc.mem t a b h).1 hat
          · have := ih.mpr h
            exact ⟨by omega, by omega⟩
end

/-- **Positions in the preorder/postorder listings decide ancestor-or-self**, for every
forest whose blocks are distinct. -/
theorem ancestor_iff_positions (ts : List Tree) (hnd : (preF ts).Nodup) (a b : Nat)
    (ha : a ∈ preF ts) (hb : b ∈ preF ts) :
    (pos a (preF ts) ≤ pos b (preF ts) ∧ pos b (postF ts) ≤ pos a (postF ts)) ↔ AncF ts a b :=
  ancF_iff_positions ts hnd a b ha hb

/-! ### what `numberDomTree` assigns -/

/-- `[(x₀, k), (x₁, k+1), …]`. -/
def enumFrom (k : Nat) : List Nat → List (Nat × Nat)
  | [] => []
  | x :: l => (x, k) :: enumFrom (k + 1) l

theorem enumFrom_append (k : Nat) (l₁ l₂ : List Nat) :
    enumFrom k (l₁ ++ l₂) = enumFrom k l₁ ++ enumFrom (k + l₁.length) l₂ := by
  induction l₁ generalizing k with
  | nil => simp [enumFrom]
  | cons x l ih =>
    simp only [List.cons_append, enumFrom, ih, List.length_cons]
    have : k + 1 + l.length = k + (l.length + 1) := by omega
    rw [this]

theorem lookup_enumFrom {x : Nat} {l : List Nat} (k : Nat) (h : x ∈ l) :
    (enumFrom k l).lookup x = some (k + pos x l) := by
  induction l generalizing k with
  | nil => simp at h
  | cons y l ih =>
    simp only [enumFrom, pos, List.lookup_cons]
    by_cases hy : y = x
    · subst hy; simp
    · have hxy : (x == y) = false := by simpa using fun e : x = y => hy e.symm
      have : x ∈ l := by
        rcases List.mem_cons.mp h with e | e
        · exact absurd e.symm hy
        · exact e
      rw [hxy]
      simp only [hy, if_false]
      rw [ih (k + 1) this]
      congr 1; omega

mutual
/-- `numberDomTree` hands out consecutive `pre` numbers along `Tree.pre` and consecutive
`post` numbers along `Tree.post`. -/
theorem number_spec : ∀ (t : Tree) (s : NumState),
    number t s = { preA := s.preA ++ enumFrom s.pre t.pre,
                   postA := s.postA ++ enumFrom s.post t.post,
                   pre := s.pre + t.pre.length, post := s.post + t.post.length }
  | .node v cs, s => by
    simp only [number, numberF_spec cs, Tree.pre, Tree.post, enumFrom, enumFrom_append,
      List.length_cons, List.length_append, List.length_nil, List.append_assoc,
      List.singleton_append]
    congr 1 <;> omega
theorem numberF_spec : ∀ (ts : List Tree) (s : NumState),
    numberF ts s = { preA := s.preA ++ enumFrom s.pre (preF ts),
                     postA := s.postA ++ enumFrom s.post (postF ts),
                     pre := s.pre + (preF ts).length, post := s.post + (postF ts).length }
  | [], s => by simp [numberF, preF, postF, enumFrom]
  | t :: ts, s => by
    simp only [numberF, number_spec t, numberF_spec ts, preF, postF, enumFrom_append,
      List.length_append, List.append_assoc]
    congr 1 <;> omega
end

/-- **`Dominates` as computed from the numbers of `numberDomTree` is ancestor-or-self**:
for the forest `ts` (entry tree, then recover tree) with distinct blocks, numbered from
`(0, 0)` exactly as `buildDomTree` does, `pre a ≤ pre b ∧ post b ≤ post a` iff `a` is an
ancestor of `b` in the forest or `b` itself. -/
theorem ancestor_iff_intervals (ts : List Tree) (hnd : (preF ts).Nodup) (a b : Nat)
    (ha : a ∈ preF ts) (hb : b ∈ preF ts) :
    (numberForest ts).dominates a b = true ↔ AncF ts a b := by
  have hap : a ∈ postF ts := (mem_postF_iff ts a).mpr ha
  have hbp : b ∈ postF ts := (mem_postF_iff ts b).mpr hb
  rw [← ancestor_iff_positions ts hnd a b ha hb]
  simp only [numberForest, numberF_spec, NumState.dominates, List.nil_append,
    lookup_enumFrom 0 ha, lookup_enumFrom 0 hb, lookup_enumFrom 0 hap, lookup_enumFrom 0 hbp,
    Bool.and_eq_true, decide_eq_true_eq]
  omega

/-! ### Non-vacuity: the forest of `dom_test.go` plus a recover tree -/
def exForest : List Tree :=
  [.node 0 [.node 1 [], .node 2 [.node 5 []], .node 3 []], .node 4 []]

example : preF exForest = [0, 1, 2, 5, 3, 4] := by decide
example : postF exForest = [1, 5, 2, 3, 0, 4] := by decide
example : (numberForest exForest).dominates 2 5 = true := by decide
example : (numberForest exForest).dominates 1 5 = false := by decide
example : AncF exForest 0 5 :=
  (ancestor_iff_intervals exForest (by decide) 0 5 (by decide) (by decide)).mp (by decide)
example : ¬ AncF exForest 4 5 := fun h =>
  absurd ((ancestor_iff_intervals exForest (by decide) 4 5 (by decide) (by decide)).mpr h) (by decide)

end Verif.C14
