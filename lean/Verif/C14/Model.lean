/-
C14 — model of the decision core of go/ir/dom.go and the validator (core Lean only).

* `Tree`, `Tree.pre`, `Tree.post`, `number`  — `numberDomTree` transliterated; the
  dominator forest is the nested inductive `Tree`, `buildTree` unfolds it from the
  `Dominees` lists.
* `ltBuild`  — executable transliteration of `buildDomTree` (Lengauer–Tarjan with the
  single-bucket trick of Georgiadis, two roots).  Used for correspondence only; no
  theorem is claimed about it.
* `Report`, `domCheck`  — the validator that is run on every dumped function; proved
  sound in `Theorems.lean` (`domCheck_sound`).
-/
import Verif.C14.Dom
namespace Verif.C14

/-! ### numberDomTree -/

/-- A dominator (sub)tree: block index and the `Dominees` subtrees in order. -/
inductive Tree where
  | node : Nat → List Tree → Tree

mutual
/-- Blocks in the order `numberDomTree` assigns `pre` numbers. -/
def Tree.pre : Tree → List Nat
  | .node v cs => v :: preF cs
def preF : List Tree → List Nat
  | [] => []
  | t :: ts => t.pre ++ preF ts
end

mutual
/-- Blocks in the order `numberDomTree` assigns `post` numbers. -/
def Tree.post : Tree → List Nat
  | .node v cs => postF cs ++ [v]
def postF : List Tree → List Nat
  | [] => []
  | t :: ts => t.post ++ postF ts
end

mutual
/-- `a` is an ancestor of `b`, or `b` itself, in the tree. -/
def Tree.Anc : Tree → Nat → Nat → Prop
  | .node v cs, a, b => (a = v ∧ (b = v ∨ b ∈ preF cs)) ∨ AncF cs a b
def AncF : List Tree → Nat → Nat → Prop
  | [], _, _ => False
  | t :: ts, a, b => t.Anc a b ∨ AncF ts a b
end

/-- The assignments made by `numberDomTree`, in the order they are made, and the two
counters. -/
structure NumState where
  preA : List (Nat × Nat)
  postA : List (Nat × Nat)
  pre : Nat
  post : Nat
deriving Repr, DecidableEq

mutual
/-- `numberDomTree(v, pre, post)`: `v.dom.pre = pre; pre++; for child … ; v.dom.post =
post; post++`. -/
def number : Tree → NumState → NumState
  | .node v cs, s =>
    let s1 : NumState := { s with preA := s.preA ++ [(v, s.pre)], pre := s.pre + 1 }
    let s2 := numberF cs s1
    { s2 with postA := s2.postA ++ [(v, s2.post)], post := s2.post + 1 }
def numberF : List Tree → NumState → NumState
  | [], s => s
  | t :: ts, s => numberF ts (number t s)
end

/-- `b.Dominates(c)` as dom.go computes it from the numbers. -/
def NumState.dominates (s : NumState) (b c : Nat) : Bool :=
  match s.preA.lookup b, s.preA.lookup c, s.postA.lookup b, s.postA.lookup c with
  | some pb, some pc, some qb, some qc => decide (pb ≤ pc) && decide (qc ≤ qb)
  | _, _, _, _ => false

/-- Position of `x` in a listing (`length` if absent). -/
def pos (x : Nat) : List Nat → Nat
  | [] => 0
  | y :: l => if y = x then 0 else pos x l + 1

/-- Unfold the dominator tree below `v` from the children lists; `none` when the fuel
runs out (a cycle in the children relation). -/
def buildTree (children : Nat → List Nat) : Nat → Nat → Option Tree
  | 0, _ => none
  | f + 1, v => ((children v).mapM (buildTree children f)).map (Tree.node v)

/-! ### What the exported API reported for one function -/

structure Report where
  n : Nat
  recover : Option Nat
  idom : List (Option Nat)          -- `Idom()` per block
  dominees : List (List Nat)        -- `Dominees()` per block, in order
  preL : List Nat                   -- `DomPreorder()` as block indices
  postL : List Nat                  -- `DomPostorder()`
  full : Bool                       -- rows for every block
  rows : List (Nat × List Bool)     -- (a, [Dominates(a, b) | b ← 0..n-1])
deriving Repr

namespace Report
def roots (r : Report) : Roots := ⟨0, r.recover⟩
def idomOf (r : Report) (b : Nat) : Option Nat := r.idom.getD b none
def domineesOf (r : Report) (a : Nat) : List Nat := r.dominees.getD a []
/-- Reported `Dominates(a, b)` (false when the row was not dumped). -/
def rel (r : Report) (a b : Nat) : Bool :=
  match r.rows.lookup a with
  | some bits => bits.getD b false
  | none => false
/-- The O(1) test of `Dominates` evaluated on the positions in the two listings. -/
def interval (r : Report) (a b : Nat) : Bool :=
  decide (pos a r.preL ≤ pos b r.preL) && decide (pos b r.postL ≤ pos a r.postL)
/-- Number of blocks `a` is reported to dominate. -/
def cnt (r : Report) (a : Nat) : Nat := ((List.range r.n).filter (r.rel a)).length
end Report

/-- `l` is a listing of all blocks `0..n-1`, each once. -/
def isPerm (n : Nat) (l : List Nat) : Bool :=
  l.length == n && l.all (· < n) && (List.range n).all (fun x => l.contains x)

/-! ### The validator, clause by clause -/

/-- Sizes agree; there is an entry block; the recover block is a block other than the entry. -/
def cShape (G : Graph) (r : Report) : Bool :=
  G.size == r.n && decide (0 < r.n) && r.idom.length == r.n && r.dominees.length == r.n &&
  (match r.recover with | none => true | some k => decide (k < r.n) && k != 0)

/-- Every dumped row equals the reference row (reachability after removal). -/
def cRows (G : Graph) (r : Report) : Bool :=
  let RE := reach G 0
  r.rows.all fun (a, bits) => decide (a < r.n) && bits == domRow G r.roots RE a

/-- Full mode: exactly one row per block. -/
def cRowsFull (r : Report) : Bool := r.rows.map Prod.fst == List.range r.n

/-- `Idom()` is the immediate dominator w.r.t. the reported relation: the strict
dominator every other strict dominator dominates; none iff there is no strict dominator. -/
def cIdom (r : Report) : Bool :=
  (List.range r.n).all fun b =>
    match r.idomOf b with
    | none => (List.range r.n).all fun a => !(r.rel a b) || a == b
    | some d => decide (d < r.n) && d != b && r.rel d b &&
        (List.range r.n).all fun c => c == b || !(r.rel c b) || r.rel c d

/-- `Dominees()` is the inverse of `Idom()`, without repetitions. -/
def cDominees (r : Report) : Bool :=
  (List.range r.n).all fun a =>
    let ds := r.domineesOf a
    ds.all (fun b => decide (b < r.n) && r.idomOf b == some a) &&
    (List.range r.n).all (fun b => r.idomOf b != some a || (ds.filter (· == b)).length == 1) &&
    ds.all (fun b => (ds.filter (· == b)).length == 1)

/-- The listings are permutations of the blocks. -/
def cPerm (r : Report) : Bool := isPerm r.n r.preL && isPerm r.n r.postL

/-- On every dumped row the interval test on listing positions equals the reported answer. -/
def cIntervals (r : Report) : Bool :=
  r.rows.all fun (a, _) => (List.range r.n).all fun b => r.rel a b == r.interval a b

/-- The blocks dominated by `a` are exactly the `cnt a` entries of the preorder listing
starting at `a`, and exactly the `cnt a` entries of the postorder listing ending at `a`:
the listings are preorder and postorder traversals of the dominator forest. -/
def cTraversal (r : Report) : Bool :=
  (List.range r.n).all fun a =>
    let k := r.cnt a
    let pa := pos a r.preL
    let qa := pos a r.postL
    (List.range r.n).all fun b =>
      (r.rel a b == (decide (pa ≤ pos b r.preL) && decide (pos b r.preL < pa + k))) &&
      (r.rel a b == (decide (pos b r.postL ≤ qa) && decide (qa < pos b r.postL + k)))

/-- **The validator.** -/
def domCheck (G : Graph) (r : Report) : Bool :=
  cShape G r && cRows G r && cDominees r && cPerm r && cIntervals r &&
  (!r.full || (cRowsFull r && cIdom r && cTraversal r))

/-- The clauses in evaluation order, for reporting which one failed. -/
def clauses (G : Graph) (r : Report) : List (String × Bool) :=
  [("shape", cShape G r), ("rows-exact", cRows G r), ("dominees", cDominees r),
   ("listing-perm", cPerm r), ("intervals", cIntervals r)] ++
  (if r.full then [("rows-full", cRowsFull r), ("idom", cIdom r), ("traversal", cTraversal r)] else [])

/-! ### numberDomTree run on the reported `Dominees` (correspondence of the numbering) -/

/-- The forest `[entry tree, recover tree]` unfolded from the reported `Dominees`. -/
def forestOf (n : Nat) (recover : Option Nat) (children : Nat → List Nat) : Option (List Tree) :=
  ([0] ++ recover.toList).mapM (buildTree children (n + 1))

/-- `numberDomTree(root,0,0)` then `numberDomTree(recover,pre,post)` on a forest. -/
def numberForest (ts : List Tree) : NumState := numberF ts ⟨[], [], 0, 0⟩

/-- The listings sorted by the model's numbers are the model's assignment orders. -/
def numberCheck (r : Report) : Bool :=
  match forestOf r.n r.recover r.domineesOf with
  | none => false
  | some ts =>
    let s := numberForest ts
    s.preA.map Prod.fst == r.preL && s.postA.map Prod.fst == r.postL &&
    s.preA.map Prod.snd == List.range r.n && s.postA.map Prod.snd == List.range r.n &&
    r.rows.all fun (a, _) => (List.range r.n).all fun b => r.rel a b == s.dominates a b

/-! ### buildDomTree transliterated (Lengauer–Tarjan, single bucket, two roots) -/

structure LT where
  sdom : Array (Option Nat)
  parent : Array (Option Nat)
  ancestor : Array (Option Nat)
  pre : Array Nat                 -- `dom.pre`, repurposed as CFG DFS number
  idom : Array (Option Nat)
  preorder : Array (Option Nat)
  buckets : Array (Option Nat)
  children : Array (List Nat)

namespace LT
def init (n : Nat) : LT :=
  ⟨Array.replicate n none, Array.replicate n none, Array.replicate n none,
   Array.replicate n 0, Array.replicate n none, Array.replicate n none,
   Array.replicate n none, Array.replicate n []⟩

def getO (a : Array (Option Nat)) (i : Nat) : Option Nat := (a[i]?).getD none

/-- `lt.sdom[v.Index].dom.pre`; `none` models the nil dereference. -/
def sdomPre (s : LT) (v : Nat) : Option Nat := do
  let x ← getO s.sdom v
  s.pre[x]?

/-- `ltState.dfs`. The fuel bounds the recursion depth (at most one frame per block). -/
def dfs (G : Graph) : Nat → Nat → Nat → LT → Nat × LT
  | 0, _, i, s => (i, s)
  | f + 1, v, i, s =>
    let s := { s with preorder := s.preorder.setIfInBounds i (some v),
                      pre := s.pre.setIfInBounds v i,
                      sdom := s.sdom.setIfInBounds v (some v),
                      ancestor := s.ancestor.setIfInBounds v none }
    (G.succs v).foldl (fun (acc : Nat × LT) w =>
      if getO acc.2.sdom w == none then
        dfs G f w acc.1 { acc.2 with parent := acc.2.parent.setIfInBounds w (some v) }
      else acc) (i + 1, s)

/-- `ltState.eval` (no path compression, as in the source). -/
def evalLoop (s : LT) : Nat → Nat → Nat → Option Nat
  | 0, _, _ => none
  | f + 1, v, u =>
    match getO s.ancestor v with
    | none => some u
    | some av => do
      let pv ← s.sdomPre v
      let pu ← s.sdomPre u
      evalLoop s f av (if pv < pu then v else u)

def eval (s : LT) (v : Nat) : Option Nat := evalLoop s (s.pre.size + 1) v v

/-- Step 3 loop: `for v := buckets[i]; v != w; v = buckets[v.dom.pre]`. -/
def step3 (w i : Nat) : Nat → Option Nat → LT → Option LT
  | 0, _, _ => none
  | f + 1, cur, s => do
    let v ← cur
    if v == w then pure s else
    let u ← s.eval v
    let pu ← s.sdomPre u
    let s' := { s with idom := s.idom.setIfInBounds v (some (if pu < i then u else w)) }
    let pv ← s'.pre[v]?
    step3 w i f (getO s'.buckets pv) s'

/-- The final `Step 3` outside the loop. -/
def finalStep3 (root : Nat) : Nat → Option Nat → LT → Option LT
  | 0, _, _ => none
  | f + 1, cur, s => do
    let v ← cur
    if v == root then pure s else
    let s' := { s with idom := s.idom.setIfInBounds v (some root) }
    let pv ← s'.pre[v]?
    finalStep3 root f (getO s'.buckets pv) s'
end LT

/-- `buildDomTree` up to (not including) `numberDomTree`: returns `Idom` and `Dominees`.
`none` models a run-time panic (nil dereference / index out of range) of the Go code. -/
def ltBuild (G : Graph) (preds : Nat → List Nat) (recover : Option Nat) : Option (List (Option Nat) × List (List Nat)) := do
  let n := G.size
  if n == 0 then none
  let root := 0
  let (prenum, s) := LT.dfs G (n + 1) root 0 (LT.init n)
  let s := match recover with
    | some r => (LT.dfs G (n + 1) r prenum s).2
    | none => s
  let mut s : LT := { s with buckets := s.preorder }
  for k in List.range (n - 1) do
    let i := n - 1 - k          -- i = n-1 … 1
    let w ← LT.getO s.preorder i
    -- Step 3
    s ← LT.step3 w i (n + 1) (LT.getO s.buckets i) s
    -- Step 2
    s := { s with sdom := s.sdom.setIfInBounds w (LT.getO s.parent w) }
    for v in preds w do
      let u ← s.eval v
      let pu ← s.sdomPre u
      let pw ← s.sdomPre w
      if pu < pw then
        s := { s with sdom := s.sdom.setIfInBounds w (LT.getO s.sdom u) }
    s := { s with ancestor := s.ancestor.setIfInBounds w (LT.getO s.parent w) }
    if LT.getO s.parent w == LT.getO s.sdom w then
      s := { s with idom := s.idom.setIfInBounds w (LT.getO s.parent w) }
    else
      let pw ← s.sdomPre w
      let old := LT.getO s.buckets pw
      s := { s with buckets := (s.buckets.setIfInBounds i old).setIfInBounds pw (some w) }
  s ← LT.finalStep3 root (n + 1) (LT.getO s.buckets 0) s
  -- Step 4
  for k in List.range (n - 1) do
    let w ← LT.getO s.preorder (k + 1)
    if w == root || some w == recover then
      s := { s with idom := s.idom.setIfInBounds w none }
    else
      let iw ← LT.getO s.idom w
      let iw ← if some iw != LT.getO s.sdom w then LT.getO s.idom iw else pure iw
      s := { s with idom := s.idom.setIfInBounds w (some iw),
                    children := s.children.modify iw (· ++ [w]) }
  pure (s.idom.toList, s.children.toList)

/-- Correspondence of `buildDomTree`: the model's `Idom`/`Dominees` are the reported ones. -/
def ltCheck (G : Graph) (preds : Nat → List Nat) (r : Report) : Bool :=
  match ltBuild G preds r.recover with
  | none => false
  | some (idom, children) => idom == r.idom && children == r.dominees

end Verif.C14
