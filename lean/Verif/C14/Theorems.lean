/-
C14 — property theorems.

* `domSets_correct`, `dom_correct`, `domRow_correct`, `mem_reachAvoid` (in `Dom.lean`):
  the reference algorithm is exactly path dominance (two-root reading) on ALL finite graphs.
* `ancestor_iff_intervals`, `number_spec` (in `Number.lean`): the `numberDomTree`
  transliteration numbers the forest so that the O(1) interval test is the
  ancestor-or-self relation.
* `domCheck_sound` (here): when the validator accepts a dumped function, the relation
  reported through `BasicBlock.Dominates` is exactly path dominance, and `Idom`,
  `Dominees`, `DomPreorder`, `DomPostorder` are consistent with it.

Level of the property: translation validation.  The theorem is applied per dumped
function by *running* the (compiled) validator; the quantifier over programs is sampled.
-/
import Verif.C14.Dom
import Verif.C14.Model
import Verif.C14.Number
namespace Verif.C14

/-! ### What "consistent with the dominance relation" means -/

/-- `l` lists every block `0..n-1` (and only blocks), with length `n`: a permutation. -/
structure IsListing (n : Nat) (l : List Nat) : Prop where
  length : l.length = n
  lt : ∀ x ∈ l, x < n
  mem : ∀ x, x < n → x ∈ l

/-- `i` is what `Idom()` must return for block `b`: the strict dominator of `b` that
every other strict dominator of `b` dominates; `nil` iff `b` has no strict dominator
(the entry and the recover block). -/
def IsIdom (G : Graph) (R : Roots) (n : Nat) (i : Option Nat) (b : Nat) : Prop :=
  match i with
  | none => ∀ a, a < n → Dominates G R a b → a = b
  | some d => d < n ∧ d ≠ b ∧ Dominates G R d b ∧
      ∀ c, c < n → c ≠ b → Dominates G R c b → Dominates G R c d

/-- Number of blocks dominated by `a` (by the proved reference). -/
def domCount (G : Graph) (R : Roots) (n a : Nat) : Nat :=
  ((List.range n).filter (fun b => dom G R a b)).length

/-- Guaranteed for every accepted dump (sampled rows or all rows). -/
structure Consistent (G : Graph) (r : Report) : Prop where
  size : G.size = r.n
  pos_n : 0 < r.n
  /-- every dumped answer of `Dominates(a, b)` is exactly path dominance -/
  rel_exact : ∀ a b, a ∈ r.rows.map Prod.fst → b < r.n →
    (r.rel a b = true ↔ Dominates G r.roots a b)
  /-- `Dominees()` is the inverse of `Idom()` -/
  dominees : ∀ a, a < r.n → ∀ b, b ∈ r.domineesOf a ↔ (b < r.n ∧ r.idomOf b = some a)
  dominees_once : ∀ a, a < r.n → ∀ b, b ∈ r.domineesOf a →
    ((r.domineesOf a).filter (· == b)).length = 1
  pre_listing : IsListing r.n r.preL
  post_listing : IsListing r.n r.postL
  /-- on dumped rows, path dominance is the interval test on the listing positions -/
  intervals : ∀ a b, a ∈ r.rows.map Prod.fst → b < r.n →
    (Dominates G r.roots a b ↔
      pos a r.preL ≤ pos b r.preL ∧ pos b r.postL ≤ pos a r.postL)

/-- Guaranteed when the complete matrix was dumped and accepted: the statement of C14
for this function, all ordered pairs of blocks. -/
structure Exact (G : Graph) (r : Report) : Prop extends Consistent G r where
  rel_all : ∀ a b, a < r.n → b < r.n → (r.rel a b = true ↔ Dominates G r.roots a b)
  idom : ∀ b, b < r.n → IsIdom G r.roots r.n (r.idomOf b) b
  intervals_all : ∀ a b, a < r.n → b < r.n →
    (Dominates G r.roots a b ↔
      pos a r.preL ≤ pos b r.preL ∧ pos b r.postL ≤ pos a r.postL)
  /-- the blocks dominated by `a` are the `domCount a` entries of `DomPreorder()` that
  start at `a` … -/
  preorder : ∀ a b, a < r.n → b < r.n →
    (Dominates G r.roots a b ↔
      pos a r.preL ≤ pos b r.preL ∧ pos b r.preL < pos a r.preL + domCount G r.roots r.n a)
  /-- … and the `domCount a` entries of `DomPostorder()` that end at `a`. -/
  postorder : ∀ a b, a < r.n → b < r.n →
    (Dominates G r.roots a b ↔
      pos b r.postL ≤ pos a r.postL ∧ pos a r.postL < pos b r.postL + domCount G r.roots r.n a)

/-! ### Small list facts -/

theorem lookup_mem {β : Type} (a : Nat) (b : β) (l : List (Nat × β)) (h : l.lookup a = some b) :
    (a, b) ∈ l := by
  induction l with
  | nil => simp at h
  | cons x l ih =>
    obtain ⟨k, v⟩ := x
    simp only [List.lookup] at h
    by_cases hk : a = k
    · subst hk; simp at h; subst h; simp
    · have : (a == k) = false := by simpa using hk
      rw [this] at h
      exact List.mem_cons_of_mem _ (ih h)

theorem lookup_isSome_of_mem_keys {β : Type} (a : Nat) (l : List (Nat × β))
    (h : a ∈ l.map Prod.fst) : ∃ b, l.lookup a = some b := by
  induction l with
  | nil => simp at h
  | cons x l ih =>
    obtain ⟨k, v⟩ := x
    simp only [List.lookup]
    by_cases hk : a = k
    · subst hk; exact ⟨v, by simp⟩
    · have hb : (a == k) = false := by simpa using hk
      rw [hb]
      simp only [List.map_cons, List.mem_cons] at h
      rcases h with h | h
      · exact absurd h hk
      · exact ih h

theorem getD_true_iff (l : List Bool) (b : Nat) : l.getD b false = true ↔ l[b]? = some true := by
  rw [List.getD_eq_getElem?_getD]
  cases l[b]? <;> simp

theorem isPerm_sound {n : Nat} {l : List Nat} (h : isPerm n l = true) : IsListing n l := by
  simp only [isPerm, Bool.and_eq_true, beq_iff_eq, List.all_eq_true, decide_eq_true_eq,
    List.mem_range, List.contains_iff_mem] at h
  exact ⟨h.1.1, h.1.2, h.2⟩

/-! ### Clause lemmas -/

theorem cRows_sound {G : Graph} {r : Report} (hsz : G.size = r.n) (h : cRows G r = true)
    (a : Nat) (bits : List Bool) (hm : (a, bits) ∈ r.rows) :
    a < r.n ∧ ∀ b, b < r.n → (bits.getD b false = true ↔ Dominates G r.roots a b) := by
  simp only [cRows, List.all_eq_true] at h
  have := h (a, bits) hm
  simp only [Bool.and_eq_true, decide_eq_true_eq, beq_iff_eq] at this
  refine ⟨this.1, fun b hb => ?_⟩
  rw [getD_true_iff, this.2]
  exact domRow_correct G r.roots a b (hsz ▸ hb)

theorem rel_exact_of_rows {G : Graph} {r : Report} (hsz : G.size = r.n) (h : cRows G r = true)
    (a b : Nat) (ha : a ∈ r.rows.map Prod.fst) (hb : b < r.n) :
    (r.rel a b = true ↔ Dominates G r.roots a b) := by
  obtain ⟨bits, hl⟩ := lookup_isSome_of_mem_keys a r.rows ha
  have hm := lookup_mem a bits r.rows hl
  have := (cRows_sound hsz h a bits hm).2 b hb
  simpa [Report.rel, hl] using this

theorem cDominees_sound {r : Report} (h : cDominees r = true) (a : Nat) (ha : a < r.n) :
    (∀ b, b ∈ r.domineesOf a ↔ (b < r.n ∧ r.idomOf b = some a)) ∧
    (∀ b, b ∈ r.domineesOf a → ((r.domineesOf a).filter (· == b)).length = 1) := by
  simp only [cDominees, List.all_eq_true, List.mem_range] at h
  have h := h a ha
  simp only [Bool.and_eq_true, List.all_eq_true, decide_eq_true_eq, beq_iff_eq,
    List.mem_range, Bool.or_eq_true, bne_iff_ne, ne_eq] at h
  obtain ⟨⟨h1, h2⟩, h3⟩ := h
  refine ⟨fun b => ⟨fun hb => h1 b hb, fun ⟨hb, hi⟩ => ?_⟩, fun b hb => h3 b hb⟩
  rcases h2 b hb with h | h
  · exact absurd hi h
  · have : 0 < ((r.domineesOf a).filter (· == b)).length := by omega
    obtain ⟨x, hx⟩ := List.exists_mem_of_length_pos this
    simp only [List.mem_filter, beq_iff_eq] at hx
    exact hx.2 ▸ hx.1

theorem cIntervals_sound {r : Report} (h : cIntervals r = true) (a b : Nat)
    (ha : a ∈ r.rows.map Prod.fst) (hb : b < r.n) :
    (r.rel a b = true ↔ pos a r.preL ≤ pos b r.preL ∧ pos b r.postL ≤ pos a r.postL) := by
  simp only [cIntervals, List.all_eq_true] at h
  obtain ⟨⟨a', bits⟩, hm, rfl⟩ := List.mem_map.mp ha
  have := h (a', bits) hm
  simp only [List.mem_range, beq_iff_eq] at this
  rw [this b hb]
  simp [Report.interval]

theorem cRowsFull_sound {r : Report} (h : cRowsFull r = true) (a : Nat) (ha : a < r.n) :
    a ∈ r.rows.map Prod.fst := by
  simp only [cRowsFull, beq_iff_eq] at h
  rw [h]; exact List.mem_range.mpr ha

theorem cIdom_sound {G : Graph} {r : Report}
    (hrel : ∀ a b, a < r.n → b < r.n → (r.rel a b = true ↔ Dominates G r.roots a b))
    (h : cIdom r = true) (b : Nat) (hb : b < r.n) :
    IsIdom G r.roots r.n (r.idomOf b) b := by
  simp only [cIdom, List.all_eq_true, List.mem_range] at h
  have h := h b hb
  unfold IsIdom
  cases hi : r.idomOf b with
  | none =>
    simp only [hi, List.all_eq_true, List.mem_range, Bool.or_eq_true, Bool.not_eq_true',
      beq_iff_eq] at h
    intro a ha hd
    rcases h a ha with h' | h'
    · have := (hrel a b ha hb).mpr hd
      rw [this] at h'; exact absurd h' (by simp)
    · exact h'
  | some d =>
    simp only [hi, Bool.and_eq_true, decide_eq_true_eq, bne_iff_ne, ne_eq, List.all_eq_true,
      List.mem_range, Bool.or_eq_true, Bool.not_eq_true', beq_iff_eq] at h
    obtain ⟨⟨⟨hd, hne⟩, hdb⟩, hall⟩ := h
    refine ⟨hd, hne, (hrel d b hd hb).mp hdb, fun c hc hcb hdom => ?_⟩
    rcases hall c hc with (h' | h') | h'
    · exact absurd h' hcb
    · have := (hrel c b hc hb).mpr hdom
      rw [this] at h'; exact absurd h' (by simp)
    · exact (hrel c d hc hd).mp h'

theorem cnt_eq_domCount {G : Graph} {r : Report}
    (hrel : ∀ a b, a < r.n → b < r.n → (r.rel a b = true ↔ Dominates G r.roots a b))
    (a : Nat) (ha : a < r.n) : r.cnt a = domCount G r.roots r.n a := by
  unfold Report.cnt domCount
  congr 1
  apply List.filter_congr
  intro b hb
  have hb := List.mem_range.mp hb
  have := hrel a b ha hb
  rw [← dom_correct] at this
  cases h1 : r.rel a b <;> cases h2 : dom G r.roots a b <;> simp_all

theorem cTraversal_sound {G : Graph} {r : Report}
    (hrel : ∀ a b, a < r.n → b < r.n → (r.rel a b = true ↔ Dominates G r.roots a b))
    (h : cTraversal r = true) (a b : Nat) (ha : a < r.n) (hb : b < r.n) :
    (Dominates G r.roots a b ↔
      pos a r.preL ≤ pos b r.preL ∧ pos b r.preL < pos a r.preL + domCount G r.roots r.n a) ∧
    (Dominates G r.roots a b ↔
      pos b r.postL ≤ pos a r.postL ∧ pos a r.postL < pos b r.postL + domCount G r.roots r.n a) := by
  simp only [cTraversal, List.all_eq_true, List.mem_range] at h
  have h := h a ha b hb
  simp only [Bool.and_eq_true, beq_iff_eq] at h
  rw [← cnt_eq_domCount hrel a ha, ← hrel a b ha hb, h.1]
  constructor
  · simp
  · rw [← h.1, h.2]; simp

/-! ### Soundness of the validator -/

/-- **Soundness of the validator.**  If `domCheck` accepts what the exported API reported
for a function with control-flow graph `G`, then every dumped `Dominates` answer is exactly
path dominance (two-root reading), `Dominees` inverts `Idom`, the two listings are
permutations whose positions decide dominance on the dumped rows; and when the complete
matrix was dumped (`full`), the whole statement of C14 holds for this function: all
ordered pairs exact, `Idom` is the immediate dominator, `DomPreorder`/`DomPostorder` are
preorder/postorder traversals of the dominator forest. -/
theorem domCheck_sound (G : Graph) (r : Report) (h : domCheck G r = true) :
    Consistent G r ∧ (r.full = true → Exact G r) := by
  simp only [domCheck, Bool.and_eq_true, Bool.or_eq_true, Bool.not_eq_true'] at h
  obtain ⟨⟨⟨⟨⟨hshape, hrows⟩, hdom⟩, hperm⟩, hint⟩, hfull⟩ := h
  have hshape' := hshape
  simp only [cShape, Bool.and_eq_true, beq_iff_eq, decide_eq_true_eq] at hshape'
  have hsz : G.size = r.n := hshape'.1.1.1.1
  have hpos : 0 < r.n := hshape'.1.1.1.2
  simp only [cPerm, Bool.and_eq_true] at hperm
  have hcons : Consistent G r :=
    { size := hsz
      pos_n := hpos
      rel_exact := rel_exact_of_rows hsz hrows
      dominees := fun a ha => (cDominees_sound hdom a ha).1
      dominees_once := fun a ha => (cDominees_sound hdom a ha).2
      pre_listing := isPerm_sound hperm.1
      post_listing := isPerm_sound hperm.2
      intervals := fun a b ha hb => by
        rw [← rel_exact_of_rows hsz hrows a b ha hb]
        exact cIntervals_sound hint a b ha hb }
  refine ⟨hcons, fun hf => ?_⟩
  rcases hfull with hfull | hfull
  · rw [hf] at hfull; exact absurd hfull (by simp)
  · obtain ⟨⟨hrf, hidom⟩, htrav⟩ := hfull
    have hrel : ∀ a b, a < r.n → b < r.n → (r.rel a b = true ↔ Dominates G r.roots a b) :=
      fun a b ha hb => hcons.rel_exact a b (cRowsFull_sound hrf a ha) hb
    exact
      { toConsistent := hcons
        rel_all := hrel
        idom := cIdom_sound hrel hidom
        intervals_all := fun a b ha hb => hcons.intervals a b (cRowsFull_sound hrf a ha) hb
        preorder := fun a b ha hb => (cTraversal_sound hrel htrav a b ha hb).1
        postorder := fun a b ha hb => (cTraversal_sound hrel htrav a b ha hb).2 }

/-- Corollary in the words of the property: on an accepted full dump, a block is reported
to dominate another exactly when every control-flow path from the entry (for blocks not
reachable from the entry: from the recover block) passes through it. -/
theorem reported_iff_all_paths (G : Graph) (r : Report) (h : domCheck G r = true)
    (hf : r.full = true) (a b : Nat) (ha : a < r.n) (hb : b < r.n) :
    r.rel a b = true ↔
      ((Reach G 0 b → ∀ p, Path G 0 p b → a ∈ p) ∧
       (¬ Reach G 0 b → ∀ rb, r.recover = some rb → ∀ p, Path G rb p b → a ∈ p)) :=
  ((domCheck_sound G r h).2 hf).rel_all a b ha hb

/-! ### Non-vacuity: the validator accepts the real dump of a function with an irreducible
loop and a recover block, and rejects it once one answer is flipped.

Blocks: 0 → 1,2 ; 1 → 2,3 ; 2 → 1,3 ; 3 (return) ; 4 = recover. -/
def exG2 : Graph := ⟨[[1, 2], [2, 3], [1, 3], [], []]⟩
def exRep : Report :=
  { n := 5, recover := some 4,
    idom := [none, some 0, some 0, some 0, none],
    dominees := [[1, 2, 3], [], [], [], []],
    preL := [0, 1, 2, 3, 4], postL := [1, 2, 3, 0, 4], full := true,
    rows := [(0, [true, true, true, true, false]), (1, [false, true, false, false, false]),
             (2, [false, false, true, false, false]), (3, [false, false, false, true, false]),
             (4, [false, false, false, false, true])] }

example : domCheck exG2 exRep = true := by decide
example : Exact exG2 exRep := (domCheck_sound exG2 exRep (by decide)).2 rfl
example : ¬ Dominates exG2 exRep.roots 1 3 := fun h =>
  absurd (((domCheck_sound exG2 exRep (by decide)).2 rfl).rel_all 1 3 (by decide) (by decide) |>.mpr h)
    (by decide)
/-- a wrong answer (1 reported to dominate 3) is rejected -/
example : domCheck exG2 { exRep with rows := exRep.rows.set 1 (1, [false, true, false, true, false]) } = false := by
  decide

end Verif.C14
