/-
C14 — the iterative dominator algorithm `domBits` (Iter.lean) is TOTAL: the fuel
`n² + 2` sweeps always suffices, so `domBits G R` is `some D` for every finite graph and
every pair of roots, and (`domBits_total_correct`) that `D` is exactly path dominance.

Argument: every relaxation only removes bits (`relax_le`); a sweep that changes the array
removes at least one of the at most `n·n` bits `(v, d)`, `v, d < n` (`mu_sweep_lt`); a
sweep that changes nothing leaves every single relaxation without effect (`stable_of_sweep_eq`).
-/
import Verif.C14.Iter
namespace Verif.C14

/-- Pointwise inclusion of bit-set arrays. -/
def Le (D D' : Array Nat) : Prop :=
  D.size = D'.size ∧ ∀ v d, (dget D v).testBit d = true → (dget D' v).testBit d = true

theorem Le.refl (D : Array Nat) : Le D D := ⟨rfl, fun _ _ h => h⟩

theorem Le.trans {A B C : Array Nat} (h₁ : Le A B) (h₂ : Le B C) : Le A C :=
  ⟨h₁.1.trans h₂.1, fun v d h => h₂.2 v d (h₁.2 v d h)⟩

theorem dget_of_lt {D : Array Nat} {i : Nat} (h : i < D.size) : dget D i = D[i] := by
  simp [dget, h]

theorem Le.antisymm {A B : Array Nat} (h₁ : Le A B) (h₂ : Le B A) : A = B := by
  apply Array.ext h₁.1
  intro i hi hi'
  rw [← dget_of_lt hi, ← dget_of_lt hi']
  apply Nat.eq_of_testBit_eq
  intro d
  cases ha : (dget A i).testBit d <;> cases hb : (dget B i).testBit d <;> try rfl
  · exact absurd (h₂.2 i d hb) (by simp [ha])
  · exact absurd (h₁.2 i d ha) (by simp [hb])

theorem relax_le (D : Array Nat) (u v : Nat) : Le (relax D u v) D := by
  refine ⟨by simp [relax], fun w d h => ?_⟩
  simp only [relax, dget_set] at h
  by_cases hc : v = w ∧ v < D.size
  · rw [if_pos hc, Nat.testBit_and] at h
    simp only [Bool.and_eq_true] at h
    exact hc.1 ▸ h.1
  · rw [if_neg hc] at h; exact h

theorem foldRelax_le (u : Nat) : ∀ (l : List Nat) (D : Array Nat),
    Le (l.foldl (fun D v => relax D u v) D) D
  | [], D => Le.refl D
  | v :: l, D => (foldRelax_le u l _).trans (relax_le D u v)

theorem sweepNode_le (G : Graph) (D : Array Nat) (u : Nat) : Le (sweepNode G D u) D :=
  foldRelax_le u _ D

theorem foldSweep_le (G : Graph) : ∀ (l : List Nat) (D : Array Nat),
    Le (l.foldl (sweepNode G) D) D
  | [], D => Le.refl D
  | u :: l, D => (foldSweep_le G l _).trans (sweepNode_le G D u)

theorem sweep_le (G : Graph) (D : Array Nat) : Le (sweep G D) D := foldSweep_le G _ D

/-! ### A sweep without effect means every relaxation is without effect -/

theorem foldRelax_fix (u : Nat) : ∀ (l : List Nat) (D : Array Nat),
    l.foldl (fun D v => relax D u v) D = D → ∀ v ∈ l, relax D u v = D
  | [], _, _, v, hv => by simp at hv
  | w :: l, D, h, v, hv => by
    simp only [List.foldl_cons] at h
    have h1 : relax D u w = D := by
      apply Le.antisymm (relax_le D u w)
      have := foldRelax_le u l (relax D u w)
      rw [h] at this; exact this
    rw [h1] at h
    rcases List.mem_cons.mp hv with rfl | hv
    · exact h1
    · exact foldRelax_fix u l D h v hv

theorem foldSweep_fix (G : Graph) : ∀ (l : List Nat) (D : Array Nat),
    l.foldl (sweepNode G) D = D → ∀ u ∈ l, sweepNode G D u = D
  | [], _, _, u, hu => by simp at hu
  | w :: l, D, h, u, hu => by
    simp only [List.foldl_cons] at h
    have h1 : sweepNode G D w = D := by
      apply Le.antisymm (sweepNode_le G D w)
      have := foldSweep_le G l (sweepNode G D w)
      rw [h] at this; exact this
    rw [h1] at h
    rcases List.mem_cons.mp hu with rfl | hu
    · exact h1
    · exact foldSweep_fix G l D h u hu

theorem stable_of_sweep_eq (G : Graph) (D : Array Nat) (h : sweep G D = D) : stable G D = true := by
  simp only [stable, List.all_eq_true, List.mem_range, beq_iff_eq]
  intro u hu v hv
  have h1 := foldSweep_fix G _ D h u (List.mem_range.mpr hu)
  have h2 := foldRelax_fix u _ D h1 v hv
  have h3 : dget (relax D u v) v = dget D v := by rw [h2]
  simp only [relax, dget_set] at h3
  by_cases hc : v < D.size
  · simpa [hc] using h3
  · simp [dget, Nat.le_of_not_lt hc]

/-! ### The measure: number of set bits `(v, d)` with `v, d < n` -/

def pairs (n : Nat) : List (Nat × Nat) :=
  (List.range n).flatMap fun v => (List.range n).map fun d => (v, d)

theorem mem_pairs {n v d : Nat} : (v, d) ∈ pairs n ↔ v < n ∧ d < n := by
  simp [pairs]

theorem sum_map_const (c : Nat) : ∀ (l : List Nat), (l.map fun _ => c).sum = l.length * c
  | [] => by simp
  | _ :: l => by simp [sum_map_const c l, Nat.add_mul, Nat.add_comm]

theorem length_pairs (n : Nat) : (pairs n).length = n * n := by
  simp [pairs, List.length_flatMap, sum_map_const]

def mu (n : Nat) (D : Array Nat) : Nat :=
  (pairs n).countP fun p => (dget D p.1).testBit p.2

theorem countP_lt_of_witness {α : Type} (p q : α → Bool) : ∀ (l : List α),
    (∀ x ∈ l, p x = true → q x = true) → (∃ x ∈ l, q x = true ∧ p x = false) →
    l.countP p < l.countP q
  | [], _, ⟨x, hx, _⟩ => by simp at hx
  | y :: l, himp, ⟨x, hx, hq, hp⟩ => by
    have himp' : ∀ z ∈ l, p z = true → q z = true := fun z hz => himp z (List.mem_cons_of_mem _ hz)
    have hmono : l.countP p ≤ l.countP q := List.countP_mono_left himp'
    simp only [List.countP_cons]
    rcases List.mem_cons.mp hx with rfl | hxl
    · simp only [hq, hp, if_true]
      have : (if false = true then 1 else 0) = 0 := by simp
      omega
    · have ih := countP_lt_of_witness p q l himp' ⟨x, hxl, hq, hp⟩
      by_cases hpy : p y = true
      · have := himp y (by simp) hpy
        simp [hpy, this]; omega
      · have hpy' : p y = false := by simpa using hpy
        simp only [hpy', Bool.false_eq_true, if_false]
        split <;> omega

/-- All set bits lie inside the `n × n` square. -/
def Bounded (n : Nat) (D : Array Nat) : Prop :=
  D.size = n ∧ ∀ v d, (dget D v).testBit d = true → d < n

theorem Bounded.of_le {n : Nat} {D D' : Array Nat} (h : Le D' D) (hb : Bounded n D) : Bounded n D' :=
  ⟨h.1.trans hb.1, fun v d hd => hb.2 v d (h.2 v d hd)⟩

theorem dget_eq_zero_of_ge {D : Array Nat} {v : Nat} (h : D.size ≤ v) : dget D v = 0 := by
  simp [dget, h]

theorem mu_lt_of_le_ne {n : Nat} {D D' : Array Nat} (hb : Bounded n D) (hle : Le D' D)
    (hne : D' ≠ D) : mu n D' < mu n D := by
  apply countP_lt_of_witness
  · intro p _ h; exact hle.2 p.1 p.2 h
  · -- some bit of D is missing in D'
    apply Classical.byContradiction
    intro hno
    apply hne
    apply Le.antisymm hle
    refine ⟨hle.1.symm, fun v d hd => ?_⟩
    have hdn : d < n := hb.2 v d hd
    have hvn : v < n := by
      by_cases hv : v < n
      · exact hv
      · rw [dget_eq_zero_of_ge (by rw [hb.1]; exact Nat.le_of_not_lt hv)] at hd
        simp at hd
    cases hx : (dget D' v).testBit d with
    | true => rfl
    | false => exact absurd ⟨(v, d), mem_pairs.mpr ⟨hvn, hdn⟩, hd, hx⟩ hno

theorem mu_le (n : Nat) (D : Array Nat) : mu n D ≤ n * n := by
  rw [← length_pairs n]; exact List.countP_le_length

/-! ### Termination -/

theorem iter_fix (G : Graph) : ∀ (f : Nat) (D : Array Nat), Bounded G.size D → mu G.size D < f →
    sweep G (iter G f D) = iter G f D := by
  intro f
  induction f with
  | zero => intro D _ h; omega
  | succ f ih =>
    intro D hb hmu
    simp only [iter]
    by_cases heq : sweep G D = D
    · simp [heq]
    · have hbeq : (sweep G D == D) = false := by simpa using heq
      simp only [hbeq, Bool.false_eq_true, if_false]
      have hlt := mu_lt_of_le_ne hb (sweep_le G D) heq
      exact ih _ (hb.of_le (sweep_le G D)) (by omega)

theorem bounded_init (n r : Nat) : Bounded n (initD n r) := by
  refine ⟨by simp [initD], fun v d h => ?_⟩
  simp only [initD, dget_set, Array.size_replicate] at h
  by_cases hc : r = v ∧ r < n
  · rw [if_pos hc, testBit_bit] at h
    simp only [decide_eq_true_eq] at h
    omega
  · rw [if_neg hc] at h
    by_cases hv : v < n
    · simp only [dget, Array.getD_eq_getD_getElem?, Array.getElem?_replicate, hv, if_true,
        Option.getD_some, testBit_allBits, decide_eq_true_eq] at h
      exact h
    · rw [dget_eq_zero_of_ge (by simp; omega)] at h; simp at h

/-- The single-root iteration always produces a (stable) result. -/
theorem domIter1_isSome (G : Graph) (r : Nat) : ∃ D, domIter1 G r = some D := by
  have hfix := iter_fix G (G.size * G.size + 2) (initD G.size r) (bounded_init _ _)
    (by have := mu_le G.size (initD G.size r); omega)
  have hst := stable_of_sweep_eq G _ hfix
  refine ⟨iter G (G.size * G.size + 2) (initD G.size r), ?_⟩
  simp only [domIter1]
  rw [if_pos hst]

/-- **The proved algorithm is total.** -/
theorem domBits_isSome (G : Graph) (R : Roots) : ∃ D, domBits G R = some D := by
  obtain ⟨D1, h1⟩ := domIter1_isSome G R.entry
  cases hrec : R.recover with
  | none => exact ⟨D1, by simp [domBits, h1, hrec]⟩
  | some rc =>
    obtain ⟨D2, h2⟩ := domIter1_isSome G rc
    exact ⟨_, by simp [domBits, h1, hrec, h2]; rfl⟩

/-- **A total, proved, executable dominator algorithm**: for every finite graph and every
pair of roots `domBits` returns bit sets that are exactly path dominance. -/
theorem domBits_total_correct (G : Graph) (R : Roots) :
    ∃ D, domBits G R = some D ∧ ∀ v d, v < G.size → d < G.size →
      ((dget D v).testBit d = true ↔ Dominates G R d v) := by
  obtain ⟨D, h⟩ := domBits_isSome G R
  exact ⟨D, h, domBits_correct G R D h⟩

example : ∃ D, domBits exG exR = some D ∧ ((dget D 5).testBit 4 = true ↔ Dominates exG exR 4 5) := by
  obtain ⟨D, h, hc⟩ := domBits_total_correct exG exR
  exact ⟨D, h, hc 5 4 (by decide) (by decide)⟩

end Verif.C14
