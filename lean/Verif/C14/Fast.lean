/-
C14 — the any-size validator `domCheckF` (core Lean only; soundness in `FastTheorems.lean`).

`domCheck` (Model.lean) compares dumped rows with the O(n³) path-based reference and is
therefore run only on functions up to a block-count threshold.  `domCheckF` validates the
COMPLETE statement of C14 for functions of any size in O(sweeps · E · n/64 + n²):

1. `domBits` (Iter.lean, proved exact on all finite graphs) computes the dominator sets;
2. `Idom()` of every block is checked against them: `D[v] = {v} ∪ D[idom v]`
   (`D[v] = {v}` for `nil`) — which is exactly "idom v is the immediate dominator";
3. `Dominees()` is the inverse of `Idom()` without repetitions;
4. the forest is unfolded from the reported `Dominees` (children visited in the order of
   their `DomPreorder` positions; this order is untrusted — every tree edge is checked
   against the dominator sets, `Tree.good`), and `DomPreorder()`/`DomPostorder()` must be
   its preorder/postorder traversals: then (`ancestor_iff_positions`) the O(1) interval
   test on the listing positions IS the dominance relation, for ALL ordered pairs;
5. every dumped `Dominates` row equals the corresponding column of the dominator sets.
-/
import Verif.C14.Model
import Verif.C14.Iter
namespace Verif.C14

def Tree.root : Tree → Nat
  | .node v _ => v

mutual
/-- Every tree edge `v → w` satisfies `D[w] = {w} ∪ D[v]`. -/
def Tree.good (D : Array Nat) : Tree → Bool
  | .node v cs => goodKids D v cs
def goodKids (D : Array Nat) (v : Nat) : List Tree → Bool
  | [] => true
  | t :: ts => (dget D t.root == (bit t.root ||| dget D v)) && t.good D && goodKids D v ts
end

/-- Every root is dominated by itself only and every tree is `good`. -/
def forestGood (D : Array Nat) : List Tree → Bool
  | [] => true
  | t :: ts => (dget D t.root == bit t.root) && t.good D && forestGood D ts

def nodupB : List Nat → Bool
  | [] => true
  | x :: xs => !xs.contains x && nodupB xs

/-- Insert by key (stable insertion sort; structural, so `decide` can run it). -/
def insertBy (key : Nat → Nat) (x : Nat) : List Nat → List Nat
  | [] => [x]
  | y :: ys => if key x < key y then x :: y :: ys else y :: insertBy key x ys

def sortBy (key : Nat → Nat) (l : List Nat) : List Nat := l.foldr (insertBy key) []

/-- Position table of a listing (`0` for blocks not listed; untrusted helper). -/
def posTable (n : Nat) (l : List Nat) : Array Nat :=
  (l.zipIdx).foldl (fun A (p : Nat × Nat) => A.setIfInBounds p.1 p.2) (Array.replicate n 0)

/-- The forest unfolded from the reported `Dominees`, children in `DomPreorder` order. -/
def forestF (r : Report) : Option (List Tree) :=
  let P := posTable r.n r.preL
  forestOf r.n r.recover (fun v => sortBy (fun x => P.getD x 0) (r.domineesOf v))

/-- `bits[k] = (a ∈ D[b+k])` for every `k`. -/
def rowOk (D : Array Nat) (a : Nat) : List Bool → Nat → Bool
  | [], _ => true
  | x :: xs, b => (x == (dget D b).testBit a) && rowOk D a xs (b + 1)

/-- Every dumped row is the `a`-column of the dominator sets. -/
def fRows (D : Array Nat) (r : Report) : Bool :=
  r.rows.all fun (a, bits) => decide (a < r.n) && bits.length == r.n && rowOk D a bits 0

/-- `Idom()` is the immediate dominator: `D[v] = {v} ∪ D[idom v]`, `D[v] = {v}` for nil. -/
def fIdom (D : Array Nat) (r : Report) : Bool :=
  (List.range r.n).all fun v =>
    match r.idomOf v with
    | none => dget D v == bit v
    | some d => decide (d < r.n) && d != v && dget D v == (bit v ||| dget D d)

/-- `Dominees()` is the inverse of `Idom()`, without repetitions (quadratic, not cubic). -/
def fDominees (r : Report) : Bool :=
  ((List.range r.n).all fun a =>
    let ds := r.domineesOf a
    ds.all (fun b => decide (b < r.n) && r.idomOf b == some a) && nodupB ds) &&
  ((List.range r.n).all fun b =>
    match r.idomOf b with
    | none => true
    | some a => (r.domineesOf a).contains b)

/-- The listings are the preorder/postorder traversals of a forest that covers every block
once and whose every edge is an immediate-dominance edge. -/
def fForest (D : Array Nat) (r : Report) : Bool :=
  match forestF r with
  | none => false
  | some ts =>
    forestGood D ts && preF ts == r.preL && postF ts == r.postL &&
    isPerm r.n r.preL && nodupB r.preL

/-- **The any-size validator.** -/
def domCheckF (G : Graph) (r : Report) : Bool :=
  cShape G r &&
  match domBits G r.roots with
  | none => false
  | some D => fRows D r && fIdom D r && fDominees r && fForest D r && (!r.full || cRowsFull r)

/-- The clauses in evaluation order, for reporting which one failed. -/
def clausesF (G : Graph) (r : Report) : List (String × Bool) :=
  [("shape", cShape G r)] ++
  match domBits G r.roots with
  | none => [("iter-fuel", false)]
  | some D =>
    [("f-rows-exact", fRows D r), ("f-idom", fIdom D r), ("f-dominees", fDominees r),
     ("f-forest", fForest D r), ("f-rows-full", !r.full || cRowsFull r)]

/-! ### Tolerant correspondence (X): compare what the property talks about

`ltCheck` compared the children lists of the `buildDomTree` transliteration with the
reported `Dominees` order-sensitively, `numberCheck` numbered the forest in `Dominees`
order.  A harmless reordering of `Dominees` (or of the numbering) would have raised a
correspondence alarm although every query is exact.  The tolerant versions compare the
`Idom` arrays exactly and the `Dominees` lists as sets; the numbering is run on the forest
whose children are in `DomPreorder` order. -/

def ltCheckT (G : Graph) (preds : Nat → List Nat) (r : Report) : Bool :=
  match ltBuild G preds r.recover with
  | none => false
  | some (idom, children) =>
    idom == r.idom && children.length == r.dominees.length &&
    (children.zip r.dominees).all fun (a, b) => sortBy id a == sortBy id b

/-- Number table of an assignment list (untrusted helper of the correspondence). -/
def numTable (n : Nat) (l : List (Nat × Nat)) : Array Nat :=
  l.foldl (fun A p => A.setIfInBounds p.1 p.2) (Array.replicate n 0)

/-- `bits[k] = (pre a ≤ pre (b+k) ∧ post (b+k) ≤ post a)` for every `k`. -/
def rowNum (PA QA : Array Nat) (a : Nat) : List Bool → Nat → Bool
  | [], _ => true
  | x :: xs, b =>
    (x == (decide (PA.getD a 0 ≤ PA.getD b 0) && decide (QA.getD b 0 ≤ QA.getD a 0))) &&
    rowNum PA QA a xs (b + 1)

def numberCheckT (r : Report) : Bool :=
  match forestF r with
  | none => false
  | some ts =>
    let s := numberForest ts
    s.preA.map Prod.fst == r.preL && s.postA.map Prod.fst == r.postL &&
    s.preA.map Prod.snd == List.range r.n && s.postA.map Prod.snd == List.range r.n &&
    (let PA := numTable r.n s.preA
     let QA := numTable r.n s.postA
     r.rows.all fun (a, bits) => rowNum PA QA a bits 0)

/-! ### Probe: `Preds` is the inverse of `Succs` (C02's subject; the real LT iterates
`w.Preds`, the validator itself derives everything from `Succs` and needs no such
hypothesis) -/

def invSuccs (G : Graph) : Array (List Nat) :=
  (List.range G.size).foldl (fun A u =>
    (G.succs u).foldl (fun A v => A.modify v (u :: ·)) A) (Array.replicate G.size [])

def predsConsistent (G : Graph) (preds : List (List Nat)) : Bool :=
  let inv := invSuccs G
  preds.length == G.size &&
  (List.range G.size).all fun v => sortBy id (preds.getD v []) == sortBy id (inv.getD v [])

end Verif.C14
