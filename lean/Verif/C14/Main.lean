import Verif.C14.Driver
def main : IO UInt32 := do
  Verif.Proto.runLines Verif.C14.step
  return 0
