/-
C14 — a PROVED EXECUTABLE dominator algorithm (core Lean only).

`domBits G R` computes, for every block `v`, the set of its dominators as a bit set
(`Nat`, bit `d` = "`d` dominates `v`") by the classical iterative data-flow scheme
(Kildall / Dragon book 10.16 — the scheme go/ir's own `sanityCheckDomTree` uses — in its
edge-relaxation form):

    D[root] = {root},  D[v] = all blocks   (v ≠ root)
    repeat  for every edge u → v:  D[v] := D[v] ∩ ({v} ∪ D[u])   until nothing changes

run once per root (entry, recover block) and combined with the two-root reading of
`Dominates` (blocks reachable from the entry take the entry run, the others the recover
run).  One sweep costs O(E · n/64) machine words, so — unlike the O(n³) path-based
reference `dom` of `Dom.lean` — it validates functions of ANY size.

Theorems (for ALL finite graphs, no hypothesis on the shape of the graph):
* `domIter1_correct`  a stable result of the single-root iteration is exactly `DomFrom`;
* `domBits_correct`   `domBits G R = some D → (D[v].testBit d ↔ Dominates G R d v)`;
* `domBits_eq_dom`    … hence equal to the path-based reference `dom` bit for bit.
The algorithm returns `none` only if the fuel (`n² + 2` sweeps, far above the `≤ n·n`
strictly decreasing steps possible) runs out before stability; the driver reports that
as a machinery error.  The theorems do not depend on the fuel being sufficient: the
final stability test is part of the algorithm.
-/
import Verif.C14.Dom
namespace Verif.C14

/-- The singleton bit set `{v}`. -/
def bit (v : Nat) : Nat := 1 <<< v

theorem testBit_bit (v d : Nat) : (bit v).testBit d = decide (v = d) := by
  simp only [bit, Nat.one_shiftLeft, Nat.testBit_two_pow]

/-- The bit set `{0, …, n-1}`. -/
def allBits (n : Nat) : Nat := 2 ^ n - 1

theorem testBit_allBits (n d : Nat) : (allBits n).testBit d = decide (d < n) :=
  Nat.testBit_two_pow_sub_one n d

/-- `D[v]` (the empty set outside the array). -/
def dget (D : Array Nat) (v : Nat) : Nat := D.getD v 0

theorem dget_set (D : Array Nat) (v w x : Nat) :
    dget (D.setIfInBounds v x) w = if v = w ∧ v < D.size then x else dget D w := by
  simp only [dget, Array.getD_eq_getD_getElem?, Array.getElem?_setIfInBounds]
  by_cases h : v = w
  · subst h
    by_cases h2 : v < D.size
    · simp [h2]
    · simp [h2]
  · simp [h]

/-- One relaxation: `D[v] := D[v] ∩ ({v} ∪ D[u])` for the edge `u → v`. -/
def relax (D : Array Nat) (u v : Nat) : Array Nat :=
  D.setIfInBounds v (dget D v &&& (bit v ||| dget D u))

def sweepNode (G : Graph) (D : Array Nat) (u : Nat) : Array Nat :=
  (G.succs u).foldl (fun D v => relax D u v) D

/-- One pass over all edges. -/
def sweep (G : Graph) (D : Array Nat) : Array Nat :=
  (List.range G.size).foldl (sweepNode G) D

/-- No edge can remove anything any more: `D[v] ⊆ {v} ∪ D[u]` for every edge `u → v`. -/
def stable (G : Graph) (D : Array Nat) : Bool :=
  (List.range G.size).all fun u => (G.succs u).all fun v =>
    dget D v &&& (bit v ||| dget D u) == dget D v

/-- Sweep until a sweep changes nothing (or the fuel runs out). -/
def iter (G : Graph) : Nat → Array Nat → Array Nat
  | 0, D => D
  | f + 1, D =>
    let D' := sweep G D
    if D' == D then D else iter G f D'

/-- Start: the root is dominated by itself only, every other block by everything. -/
def initD (n r : Nat) : Array Nat :=
  (Array.replicate n (allBits n)).setIfInBounds r (bit r)

/-- Dominator sets w.r.t. the single root `r`; `some` only for a stable result. -/
def domIter1 (G : Graph) (r : Nat) : Option (Array Nat) :=
  let D := iter G (G.size * G.size + 2) (initD G.size r)
  if stable G D then some D else none

/-! ### Invariants -/

/-- Everything that really dominates is still in the set; the root's set is `{r}` at most;
the array keeps its size. -/
structure IterInv (G : Graph) (r : Nat) (D : Array Nat) : Prop where
  size : D.size = G.size
  sound : ∀ v d, v < G.size → d < G.size → DomFrom G r d v → (dget D v).testBit d = true
  root : ∀ d, (dget D r).testBit d = true → d = r

theorem domFrom_pred {G : Graph} {r d u v : Nat} (h : DomFrom G r d v) (e : v ∈ G.succs u) :
    d = v ∨ DomFrom G r d u := by
  by_cases hdv : d = v
  · exact Or.inl hdv
  · refine Or.inr fun p hp => ?_
    have := h (p ++ [v]) (hp.snoc e)
    rcases List.mem_append.mp this with h' | h'
    · exact h'
    · simp at h'; exact absurd h' hdv

theorem domFrom_root {G : Graph} {r d : Nat} (h : DomFrom G r d r) : d = r := by
  have := h [r] (Path.single r)
  simpa using this

theorem IterInv.init (G : Graph) (r : Nat) : IterInv G r (initD G.size r) := by
  refine ⟨by simp [initD], ?_, ?_⟩
  · intro v d hv hd hdom
    simp only [initD, dget_set, Array.size_replicate]
    by_cases h : r = v ∧ r < G.size
    · rw [if_pos h]
      obtain ⟨rfl, _⟩ := h
      rw [testBit_bit]; simp [domFrom_root hdom]
    · rw [if_neg h]
      simp [dget, hv, testBit_allBits, hd]
  · intro d
    simp only [initD, dget_set, Array.size_replicate]
    by_cases h : r < G.size
    · simp only [h, and_self, if_true, testBit_bit, decide_eq_true_eq]
      exact fun e => e.symm
    · simp [h, dget]

theorem IterInv.relax {G : Graph} {r : Nat} {D : Array Nat} (h : IterInv G r D) {u v : Nat}
    (e : v ∈ G.succs u) : IterInv G r (relax D u v) := by
  refine ⟨by simp [Verif.C14.relax, h.size], ?_, ?_⟩
  · intro w d hw hd hdom
    simp only [Verif.C14.relax, dget_set]
    by_cases hc : v = w ∧ v < D.size
    · rw [if_pos hc]
      obtain ⟨rfl, _⟩ := hc
      rw [Nat.testBit_and, Nat.testBit_or, testBit_bit, h.sound v d hw hd hdom]
      rcases domFrom_pred hdom e with rfl | hu
      · simp
      · have hult : u < G.size := by
          by_cases hlt : u < G.size
          · exact hlt
          · rw [G.succs_of_size_le (Nat.le_of_not_lt hlt)] at e; simp at e
        simp [h.sound u d hult hd hu]
    · rw [if_neg hc]; exact h.sound w d hw hd hdom
  · intro d
    simp only [Verif.C14.relax, dget_set]
    by_cases hc : v = r ∧ v < D.size
    · rw [if_pos hc]
      obtain ⟨rfl, _⟩ := hc
      rw [Nat.testBit_and]
      intro hh
      simp only [Bool.and_eq_true] at hh
      exact h.root d hh.1
    · rw [if_neg hc]; exact h.root d

theorem IterInv.sweepNode {G : Graph} {r : Nat} (u : Nat) :
    ∀ (l : List Nat) (D : Array Nat), (∀ v ∈ l, v ∈ G.succs u) → IterInv G r D →
      IterInv G r (l.foldl (fun D v => Verif.C14.relax D u v) D) := by
  intro l
  induction l with
  | nil => intro D _ h; simpa using h
  | cons v l ih =>
    intro D hl h
    simp only [List.foldl_cons]
    exact ih _ (fun w hw => hl w (List.mem_cons_of_mem _ hw)) (h.relax (hl v (by simp)))

theorem IterInv.sweepList {G : Graph} {r : Nat} :
    ∀ (l : List Nat) (D : Array Nat), IterInv G r D → IterInv G r (l.foldl (Verif.C14.sweepNode G) D) := by
  intro l
  induction l with
  | nil => intro D h; simpa using h
  | cons u l ih =>
    intro D h
    simp only [List.foldl_cons]
    exact ih _ (IterInv.sweepNode u (G.succs u) D (fun _ hv => hv) h)

theorem IterInv.sweep {G : Graph} {r : Nat} {D : Array Nat} (h : IterInv G r D) :
    IterInv G r (Verif.C14.sweep G D) := IterInv.sweepList _ D h

theorem IterInv.iter {G : Graph} {r : Nat} : ∀ (f : Nat) (D : Array Nat), IterInv G r D →
    IterInv G r (Verif.C14.iter G f D) := by
  intro f
  induction f with
  | zero => intro D h; simpa [Verif.C14.iter] using h
  | succ f ih =>
    intro D h
    simp only [Verif.C14.iter]
    split
    · exact h
    · exact ih _ h.sweep

/-! ### A stable set is contained in every path -/

theorem stable_edge {G : Graph} {D : Array Nat} (hs : stable G D = true) {u v : Nat}
    (e : v ∈ G.succs u) (d : Nat) (hd : (dget D v).testBit d = true) :
    d = v ∨ (dget D u).testBit d = true := by
  have hu : u < G.size := by
    by_cases hlt : u < G.size
    · exact hlt
    · rw [G.succs_of_size_le (Nat.le_of_not_lt hlt)] at e; simp at e
  simp only [stable, List.all_eq_true, List.mem_range, beq_iff_eq] at hs
  have := hs u hu v e
  rw [← this, Nat.testBit_and, Nat.testBit_or, testBit_bit] at hd
  simp only [Bool.and_eq_true, Bool.or_eq_true, decide_eq_true_eq] at hd
  rcases hd.2 with h | h
  · exact Or.inl h.symm
  · exact Or.inr h

theorem stable_path {G : Graph} {D : Array Nat} (hs : stable G D = true) {u v : Nat} {p : List Nat}
    (hp : Path G u p v) (d : Nat) (hd : (dget D v).testBit d = true) :
    d ∈ p ∨ (dget D u).testBit d = true := by
  induction hp with
  | single u => exact Or.inr hd
  | @cons u w v p e hp ih =>
    rcases ih hd with h | h
    · exact Or.inl (List.mem_cons_of_mem _ h)
    · rcases stable_edge hs e d h with rfl | h'
      · exact Or.inl (List.mem_cons_of_mem _ hp.head_mem)
      · exact Or.inr h'

/-- **The single-root iteration is exact**: a stable result contains `d` in the set of `v`
exactly when every path from `r` to `v` passes through `d` — for every finite graph. -/
theorem domIter1_correct (G : Graph) (r : Nat) (D : Array Nat) (h : domIter1 G r = some D)
    (v d : Nat) (hv : v < G.size) (hd : d < G.size) :
    (dget D v).testBit d = true ↔ DomFrom G r d v := by
  simp only [domIter1] at h
  split at h
  · rename_i hst
    simp only [Option.some.injEq] at h
    subst h
    have hinv := IterInv.iter (G.size * G.size + 2) _ (IterInv.init G r)
    constructor
    · intro hb p hp
      rcases stable_path hst hp d hb with h' | h'
      · exact h'
      · rw [hinv.root d h']; exact hp.head_mem
    · exact hinv.sound v d hv hd
  · simp at h

/-! ### Two roots -/

/-- Dominator bit sets with the two-root reading of `Dominates`. -/
def domBits (G : Graph) (R : Roots) : Option (Array Nat) := do
  let D1 ← domIter1 G R.entry
  match R.recover with
  | none => pure D1
  | some rc =>
    let D2 ← domIter1 G rc
    let RE := reach G R.entry
    pure ((Array.range G.size).map fun v => if RE.contains v then dget D1 v else dget D2 v)

theorem dominates_of_reach {G : Graph} {R : Roots} {d v : Nat} (h : Reach G R.entry v) :
    Dominates G R d v ↔ DomFrom G R.entry d v :=
  ⟨fun hd => hd.1 h, fun hd => ⟨fun _ => hd, fun hn => absurd h hn⟩⟩

theorem dominates_of_not_reach {G : Graph} {R : Roots} {d v : Nat} (h : ¬ Reach G R.entry v) :
    Dominates G R d v ↔ ∀ r, R.recover = some r → DomFrom G r d v :=
  ⟨fun hd => hd.2 h, fun hd => ⟨fun hr => absurd hr h, fun _ => hd⟩⟩

/-- **The iterative algorithm is exactly path dominance (two-root reading)** on every
finite graph: bit `d` of `D[v]` is set iff `d` dominates `v`. -/
theorem domBits_correct (G : Graph) (R : Roots) (D : Array Nat) (h : domBits G R = some D)
    (v d : Nat) (hv : v < G.size) (hd : d < G.size) :
    (dget D v).testBit d = true ↔ Dominates G R d v := by
  simp only [domBits, bind, Option.bind] at h
  split at h
  · simp at h
  · rename_i D1 h1
    have c1 := domIter1_correct G R.entry D1 h1 v d hv hd
    cases hrec : R.recover with
    | none =>
      simp only [hrec, pure, Option.some.injEq] at h
      subst h
      by_cases hre : Reach G R.entry v
      · rw [dominates_of_reach hre]; exact c1
      · rw [dominates_of_not_reach hre, c1]
        constructor
        · intro _ r hr; rw [hrec] at hr; cases hr
        · intro _ p hp; exact absurd ⟨p, hp⟩ hre
    | some rc =>
      simp only [hrec] at h
      split at h
      · simp at h
      · rename_i D2 h2
        have c2 := domIter1_correct G rc D2 h2 v d hv hd
        simp only [pure, Option.some.injEq] at h
        subst h
        have hget : dget ((Array.range G.size).map fun v =>
            if (reach G R.entry).contains v then dget D1 v else dget D2 v) v =
            if (reach G R.entry).contains v then dget D1 v else dget D2 v := by
          simp [dget, hv]
        rw [hget]
        by_cases hre : Reach G R.entry v
        · have : (reach G R.entry).contains v = true := by simp [mem_reach, hre]
          rw [this, if_pos rfl, dominates_of_reach hre]; exact c1
        · have : (reach G R.entry).contains v = false := by
            rw [← Bool.not_eq_true, List.contains_iff_mem, mem_reach]; exact hre
          rw [this, dominates_of_not_reach hre]
          simp only [Bool.false_eq_true, if_false]
          rw [c2]
          constructor
          · intro hh r hr; rw [hrec] at hr; cases hr; exact hh
          · intro hh; exact hh rc hrec

/-- The proved executable algorithm and the path-based reference agree bit for bit. -/
theorem domBits_eq_dom (G : Graph) (R : Roots) (D : Array Nat) (h : domBits G R = some D)
    (v d : Nat) (hv : v < G.size) (hd : d < G.size) :
    (dget D v).testBit d = dom G R d v := by
  have h1 := domBits_correct G R D h v d hv hd
  rw [← dom_correct] at h1
  cases hx : (dget D v).testBit d <;> cases hy : dom G R d v <;> simp_all

/-! ### Non-vacuity: the irreducible example with a two-block recover tree (`exG`, `exR`) -/

example : (domBits exG exR).map (·.toList) = some [1, 3, 5, 9, 16, 48] := by decide +kernel
example : Dominates exG exR 4 5 :=
  (domBits_correct exG exR #[1, 3, 5, 9, 16, 48] (by decide +kernel) 5 4 (by decide) (by decide)).mp (by decide)
example : ¬ Dominates exG exR 1 3 := fun h =>
  absurd ((domBits_correct exG exR #[1, 3, 5, 9, 16, 48] (by decide +kernel) 3 1 (by decide) (by decide)).mpr h)
    (by decide)

example : (domIter1 exG 0).map (·.toList) = some [1, 3, 5, 9, 63, 63] := by decide +kernel
example : DomFrom exG 0 0 3 :=
  (domIter1_correct exG 0 #[1, 3, 5, 9, 63, 63] (by decide +kernel) 3 0 (by decide) (by decide)).mp
    (by decide)
example : ¬ DomFrom exG 0 2 3 := fun h =>
  absurd ((domIter1_correct exG 0 #[1, 3, 5, 9, 63, 63] (by decide +kernel) 3 2 (by decide) (by decide)).mpr h)
    (by decide)
example : (dget #[1, 3, 5, 9, 16, 48] 3).testBit 1 = dom exG exR 1 3 :=
  domBits_eq_dom exG exR _ (by decide +kernel) 3 1 (by decide) (by decide)

end Verif.C14
