/-
C14 — a forest given by parent pointers whose every edge is an immediate-dominance edge
IS the dominator forest: its ancestor-or-self relation is membership in the dominator sets.

`forest_anc_iff_bits`: for a forest `ts` with distinct blocks, `forestGood D ts` (every
root `ρ` has `D[ρ] = {ρ}`, every edge `v → w` has `D[w] = {w} ∪ D[v]`), and all blocks
`a`, `b` of the forest:  `AncF ts a b ↔ a ∈ D[b]`.

Together with `ancestor_iff_positions` / `ancestor_iff_intervals` (Number.lean) this puts
the numbering theorems into the soundness chain of the validator: the O(1) interval test
of `BasicBlock.Dominates` on the numbers of `numberDomTree` is exact for ANY forest that
passes the edge test.
-/
import Verif.C14.Fast
import Verif.C14.Number
namespace Verif.C14

theorem Tree.root_mem_pre : ∀ (t : Tree), t.root ∈ t.pre
  | .node v cs => by simp [Tree.root, Tree.pre]

/-- The root is an ancestor of every block of its tree. -/
theorem Tree.anc_root : ∀ (t : Tree) (b : Nat), b ∈ t.pre → t.Anc t.root b
  | .node v cs, b, hb => by
    simp only [Tree.pre, List.mem_cons] at hb
    show (v = v ∧ (b = v ∨ b ∈ preF cs)) ∨ AncF cs v b
    exact Or.inl ⟨rfl, hb⟩

theorem testBit_eq_union {x y w a : Nat} (h : x = (bit w ||| y)) :
    x.testBit a = true ↔ a = w ∨ y.testBit a = true := by
  subst h
  rw [Nat.testBit_or, testBit_bit]
  simp only [Bool.or_eq_true, decide_eq_true_eq]
  constructor
  · rintro (h | h)
    · exact Or.inl h.symm
    · exact Or.inr h
  · rintro (h | h)
    · exact Or.inl h.symm
    · exact Or.inr h

mutual
theorem Tree.good_bits (D : Array Nat) : ∀ (t : Tree), t.pre.Nodup → t.good D = true →
    (dget D t.root).testBit t.root = true → ∀ b ∈ t.pre, ∀ a,
    ((dget D b).testBit a = true ↔
      (t.Anc a b ∨ ((dget D t.root).testBit a = true ∧ a ≠ t.root)))
  | .node v cs, hnd, hg, hvv, b, hb, a => by
    simp only [Tree.pre] at hnd hb
    have hv : v ∉ preF cs := (List.nodup_cons.mp hnd).1
    have hcs : (preF cs).Nodup := (List.nodup_cons.mp hnd).2
    simp only [Tree.good] at hg
    simp only [Tree.root] at hvv ⊢
    simp only [Tree.Anc]
    rcases List.mem_cons.mp hb with rfl | hbc
    · -- b is the root
      constructor
      · intro h
        by_cases hab : a = b
        · exact Or.inl (Or.inl ⟨hab, Or.inl rfl⟩)
        · exact Or.inr ⟨h, hab⟩
      · rintro ((⟨rfl, _⟩ | h) | ⟨h, _⟩)
        · exact hvv
        · exact absurd (AncF.mem cs a b h).2 hv
        · exact h
    · have ih := goodKids_bits D cs v hcs hv hg hvv b hbc a
      rw [ih]
      constructor
      · rintro (h | h)
        · exact Or.inl (Or.inr h)
        · by_cases hav : a = v
          · exact Or.inl (Or.inl ⟨hav, Or.inr hbc⟩)
          · exact Or.inr ⟨h, hav⟩
      · rintro ((⟨rfl, _⟩ | h) | ⟨h, _⟩)
        · exact Or.inr hvv
        · exact Or.inl h
        · exact Or.inr h
theorem goodKids_bits (D : Array Nat) : ∀ (cs : List Tree) (v : Nat), (preF cs).Nodup →
    v ∉ preF cs → goodKids D v cs = true → (dget D v).testBit v = true → ∀ b ∈ preF cs, ∀ a,
    ((dget D b).testBit a = true ↔ (AncF cs a b ∨ (dget D v).testBit a = true))
  | [], _, _, _, _, _, b, hb, _ => by simp [preF] at hb
  | t :: ts, v, hnd, hv, hg, hvv, b, hb, a => by
    simp only [preF] at hnd hb hv
    obtain ⟨hnt, hnts, hdisj⟩ := List.nodup_append.mp hnd
    simp only [goodKids, Bool.and_eq_true, beq_iff_eq] at hg
    obtain ⟨⟨hedge, hgt⟩, hgts⟩ := hg
    have hstep := fun a => testBit_eq_union (a := a) hedge
    have hww : (dget D t.root).testBit t.root = true := (hstep t.root).mpr (Or.inl rfl)
    have hvt : v ∉ t.pre := fun h => hv (List.mem_append.mpr (Or.inl h))
    have hvts : v ∉ preF ts := fun h => hv (List.mem_append.mpr (Or.inr h))
    simp only [AncF]
    rcases List.mem_append.mp hb with hbt | hbts
    · have ih := Tree.good_bits D t hnt hgt hww b hbt a
      rw [ih]
      constructor
      · rintro (h | ⟨h, hne⟩)
        · exact Or.inl (Or.inl h)
        · rcases (hstep a).mp h with e | h'
          · exact absurd e hne
          · exact Or.inr h'
      · rintro ((h | h) | h)
        · exact Or.inl h
        · exact absurd rfl (hdisj b hbt b (AncF.mem ts a b h).2)
        · by_cases haw : a = t.root
          · subst haw; exact Or.inl (Tree.anc_root t b hbt)
          · exact Or.inr ⟨(hstep a).mpr (Or.inr h), haw⟩
    · have ih := goodKids_bits D ts v hnts hvts hgts hvv b hbts a
      rw [ih]
      constructor
      · rintro (h | h)
        · exact Or.inl (Or.inr h)
        · exact Or.inr h
      · rintro ((h | h) | h)
        · exact absurd rfl (hdisj b (Tree.Anc.mem t a b h).2 b hbts)
        · exact Or.inl h
        · exact Or.inr h
end

/-- **A forest that passes the edge test is the dominator forest**: ancestor-or-self in
the forest is membership in the dominator sets, for every forest with distinct blocks. -/
theorem forest_anc_iff_bits (D : Array Nat) : ∀ (ts : List Tree), (preF ts).Nodup →
    forestGood D ts = true → ∀ b ∈ preF ts, ∀ a,
    (AncF ts a b ↔ (dget D b).testBit a = true)
  | [], _, _, b, hb, _ => by simp [preF] at hb
  | t :: ts, hnd, hg, b, hb, a => by
    simp only [preF] at hnd hb
    obtain ⟨hnt, hnts, hdisj⟩ := List.nodup_append.mp hnd
    simp only [forestGood, Bool.and_eq_true, beq_iff_eq] at hg
    obtain ⟨⟨hroot, hgt⟩, hgts⟩ := hg
    have hrr : (dget D t.root).testBit t.root = true := by rw [hroot, testBit_bit]; simp
    simp only [AncF]
    rcases List.mem_append.mp hb with hbt | hbts
    · rw [Tree.good_bits D t hnt hgt hrr b hbt a]
      constructor
      · rintro (h | h)
        · exact Or.inl h
        · exact absurd rfl (hdisj b hbt b (AncF.mem ts a b h).2)
      · rintro (h | ⟨h, hne⟩)
        · exact Or.inl h
        · rw [hroot, testBit_bit] at h
          simp only [decide_eq_true_eq] at h
          exact absurd h.symm hne
    · rw [← forest_anc_iff_bits D ts hnts hgts b hbts a]
      constructor
      · rintro (h | h)
        · exact absurd rfl (hdisj b (Tree.Anc.mem t a b h).2 b hbts)
        · exact h
      · exact Or.inr

/-! ### Non-vacuity: the dominator forest of `exG`/`exR` (Dom.lean) passes the edge test,
a forest with a wrong edge (3 below 1) does not. -/
example : forestGood #[1, 3, 5, 9, 16, 48]
    [.node 0 [.node 1 [], .node 2 [], .node 3 []], .node 4 [.node 5 []]] = true := by decide
example : forestGood #[1, 3, 5, 9, 16, 48]
    [.node 0 [.node 1 [.node 3 []], .node 2 []], .node 4 [.node 5 []]] = false := by decide
example : AncF [.node 0 [.node 1 [], .node 2 [], .node 3 []], .node 4 [.node 5 []]] 4 5 :=
  (forest_anc_iff_bits #[1, 3, 5, 9, 16, 48] _ (by decide) (by decide) 5 (by decide) 4).mpr (by decide)

end Verif.C14
