import Verif.Common.Proto
import Verif.C04.Model
import Verif.C04.Generated
/-!
Line-protocol driver for the C04 model.

  fields
      -> "<required action tags, comma separated> <required package tags>"
  hist <nsteps> { step <salt> <analyzers> <go> <nenv> (<name> <val>)* <nacts> { act … } }
      one whole history (invocations sharing one cache) per line; every string is a token
      without spaces (the harness interns values).  An action is
        act <pkgPath> <initial 0|1> <ncfg> (<field> <val>)* <goos> <goarch> <nfiles> <file>* <nimports> (<path> <id>)*
            <npkgextra> (<tag> <val>)* <nkeyextra> (<tag> <val>)* <ndeps> <index>* <obs>
        obs = fail | ok <vetx content digest> <results content digest | ->
      The configuration fields / environment variables are the named values printed in the HASH
      lines; the key and the analysis inputs are built with the regenerated `Gen.shape`
      (`keyOf` hashes `restrict cfgHashed` / `restrict envHashed`; the table of observed
      outcomes is keyed by the key).
      `obs` is what the real run produced for that action; it is used as the analysis
      function (a table from the model's key to the observed outcome), the model then decides
      by itself which actions are cache hits and what the cache serves.
      -> per step (separated by " | "), per action:
         <h|m|f|d><key class | -><+|->/<tags of the model's serialisation, vetout with values>
         h = served from the model's cache, m = analysed and written, f = analysis failed,
         d = not run because a dependency failed; key class = index of first occurrence of the
         action key in the history; + = the model's facts/results digests equal the observed.
Malformed input -> "bad-op".
-/
namespace Verif.C04
open Verif.Proto

abbrev PD0 := List PComp
abbrev VD0 := Vetx
abbrev D0 := List (KComp PD0 VD0)

abbrev Toks := List String

def pNat : Toks → Option (Nat × Toks)
  | t :: r => t.toNat?.map (fun n => (n, r))
  | [] => none

def pStr : Toks → Option (String × Toks)
  | t :: r => some (t, r)
  | [] => none

def pMany {α : Type} (p : Toks → Option (α × Toks)) : Nat → Toks → Option (List α × Toks)
  | 0, ts => some ([], ts)
  | n + 1, ts => do
    let (a, ts) ← p ts
    let (as, ts) ← pMany p n ts
    pure (a :: as, ts)

def pCounted {α : Type} (p : Toks → Option (α × Toks)) (ts : Toks) : Option (List α × Toks) := do
  let (n, ts) ← pNat ts
  pMany p n ts

def pPair (ts : Toks) : Option ((String × String) × Toks) := do
  let (a, ts) ← pStr ts
  let (b, ts) ← pStr ts
  pure ((a, b), ts)

/-- An action as observed: the package and the observed outcome. -/
structure ObsAct where
  pkg : Pkg
  obs : Option (String × Option String)

def pObs : Toks → Option (Option (String × Option String) × Toks)
  | "fail" :: r => some (none, r)
  | "ok" :: v :: rd :: r => some (some (v, if rd = "-" then none else some rd), r)
  | _ => none

def pAct : Toks → Option (ObsAct × Toks)
  | "act" :: ts => do
    let (path, ts) ← pStr ts
    let (ini, ts) ← pStr ts
    let ini ← parseBool ini
    let (cfg, ts) ← pCounted pPair ts
    let (goos, ts) ← pStr ts
    let (goarch, ts) ← pStr ts
    let (files, ts) ← pCounted pStr ts
    let (imps, ts) ← pCounted pPair ts
    let (px, ts) ← pCounted pPair ts
    let (kx, ts) ← pCounted pPair ts
    let (deps, ts) ← pCounted pNat ts
    let (obs, ts) ← pObs ts
    pure (⟨⟨⟨goos, goarch, path, files, imps, px⟩, cfg, [], ini, deps, kx⟩, obs⟩, ts)
  | _ => none

structure ObsStep where
  world : World
  acts : List ObsAct

def pStep : Toks → Option (ObsStep × Toks)
  | "step" :: ts => do
    let (salt, ts) ← pStr ts
    let (an, ts) ← pStr ts
    let (go, ts) ← pStr ts
    let (gd, ts) ← pCounted pPair ts
    let (acts, ts) ← pCounted pAct ts
    pure (⟨⟨salt, an, go, gd, acts.map (·.pkg)⟩, acts⟩, ts)
  | _ => none

/-- The shape the trace runs with: the key side is the regenerated `Gen.shape`; the analysis
side is made to read exactly what is hashed, so that the observed outcome of an action can be
looked up under its key (the observed facts files are not byte-deterministic, so an outcome
belongs to a key, not to the coarser view of what the analyzers read). -/
def driverShape : Shape :=
  { Gen.shape with cfgReads := Gen.shape.cfgHashed, envReads := Gen.shape.envHashed }

/-- structural hashes (injective by construction); the analysis is filled in from the table -/
def P0 : Params PD0 VD0 D0 := ⟨id, id, id, fun _ _ _ => .error ["unobserved"]⟩

def obsDeps (acts : List ObsAct) : List Nat → Option (List (String × Vetx))
  | [] => some []
  | d :: ds =>
    match acts[d]? with
    | some b =>
      match b.obs, obsDeps acts ds with
      | some (v, _), some r => some ((b.pkg.src.pkgPath, v) :: r)
      | _, _ => none
    | none => none

def resultsOf (rd : Option String) : Results :=
  match rd with
  | some s => [⟨"r", s⟩]
  | none => []

def outcomeOf : Option (String × Option String) → Outcome
  | none => .error ["failed"]
  | some (v, rd) => .done v (resultsOf rd)

/-- table from (action key with the *observed* facts digests of the dependencies, factsOnly)
to the first observed outcome, over the whole history.  The same key can be analysed twice —
first as a dependency (facts only), later as an initial package, when the `results` entry is
missing — and the two analyses write different facts bytes. -/
def obsTable (steps : List ObsStep) : List ((D0 × Bool) × Outcome) :=
  steps.flatMap fun s =>
    s.acts.filterMap fun a =>
      match obsDeps s.acts a.pkg.deps with
      | some dv => some ((keyOf driverShape P0 s.world a.pkg dv, !a.pkg.initial), outcomeOf a.obs)
      | none => none

def mkParams (table : List ((D0 × Bool) × Outcome)) : Params PD0 VD0 D0 :=
  { P0 with an := fun _ f i => (find (key P0 i, f) table).getD (.error ["unobserved"]) }

def indexOf (k : D0) : List D0 → Nat → Option Nat
  | [], _ => none
  | x :: xs, i => if x = k then some i else indexOf k xs (i + 1)

def renderComp : KComp PD0 VD0 → String
  | .vetout p d => s!"vetout={p}={d}"
  | .extra t _ => s!"extra={t}"
  | c => c.tag

def agrees (o : Out) (obs : Option (String × Option String)) : Bool :=
  match o, obs with
  | .failed _, none => true
  | .ok v ro, some (ov, ord) =>
    v == ov && (match ro with | none => true | some r => r == resultsOf ord)
  | _, _ => false

structure TraceState where
  cache : Cache D0
  nonce : Nat
  seen : List D0

def traceActs (P : Params PD0 VD0 D0) (w : World) :
    TraceState → List (Pkg × Out) → List ObsAct → List String → TraceState × List String
  | st, _, [], acc => (st, acc.reverse)
  | st, done, a :: rest, acc =>
    match depVetx done a.pkg.deps with
    | none =>
      let r := doPkg driverShape P w st.cache st.nonce done a.pkg
      traceActs P w ⟨r.1, r.2.1, st.seen⟩ (done ++ [(a.pkg, r.2.2)]) rest ("d-+/" :: acc)
    | some dv =>
      let ai := ainOf driverShape w a.pkg dv
      let k := keyOf driverShape P w a.pkg dv
      let r := doPkg driverShape P w st.cache st.nonce done a.pkg
      let letter := if r.2.1 = st.nonce then "h" else match r.2.2 with | .failed _ => "f" | .ok _ _ => "m"
      let (cls, seen) := match indexOf k st.seen 0 with
        | some i => (i, st.seen)
        | none => (st.seen.length, st.seen ++ [k])
      let flag := if agrees r.2.2 a.obs then "+" else "-"
      let comps := ",".intercalate ((serialise (toKey P ai)).map renderComp)
      traceActs P w ⟨r.1, r.2.1, seen⟩ (done ++ [(a.pkg, r.2.2)]) rest
        (s!"{letter}{cls}{flag}/{comps}" :: acc)

def traceSteps (P : Params PD0 VD0 D0) : TraceState → List ObsStep → List String → List String
  | _, [], acc => acc.reverse
  | st, s :: rest, acc =>
    let (st', out) := traceActs P s.world st [] s.acts []
    traceSteps P st' rest (" ".intercalate out :: acc)

def step (line : String) : String :=
  match tokens line with
  | ["fields"] => ",".intercalate requiredTags ++ " " ++ ",".intercalate requiredPkgTags
  | "hist" :: ts =>
    match pCounted pStep ts with
    | some (steps, []) =>
      let P := mkParams (obsTable steps)
      " | ".intercalate (traceSteps P ⟨Cache.empty, 0, []⟩ steps [])
    | _ => "bad-op"
  | _ => "bad-op"

end Verif.C04
