import Verif.C04.Driver
def main : IO UInt32 := do
  Verif.Proto.runLines Verif.C04.step
  return 0
