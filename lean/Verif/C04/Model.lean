/-
C04 — cache transparency.  Model of the keyed memoisation in
`lintcmd/runner/runner.go` (`subrunner.do`, `doUncached`, `writeCacheGob`/`writeCacheReader`),
`go/loader/hash.go` (`computeHash`) and the post-filter of `lintcmd/lint.go` (`linter.lint`).

The three hash functions of the code are parameters (`Params`):
* `Hp`    — `cache.NewHash("package …")…Sum()` as used by `computeHash`  (salted sha256),
* `H`     — `cache.NewHash("staticcheck …")…Sum()` as used by `subrunner.do` (salted sha256),
* `vhash` — `cache.FileHash(dep.vetx)` (plain sha256 of the facts file),
with *different* codomains `PD`, `D`, `VD`, so that a concrete injective instance exists
(non-vacuity) and the compiled driver can run the model with structural "hashes".
`Subkey(id, "vetx"|"results")` is modelled by the two separate finite maps of `Cache`.

Each `Write` on a `cache.Hash` is one *component* (`PComp`, `KComp`): exactly the lines that
`GODEBUG=gocachehash=1` prints at run time, which is how the tie observes them.
-/
namespace Verif.C04

/-- The bytes of a facts file (`vetx`). -/
abbrev Vetx := String

/-- One reported problem: check name (category) and the rest (position, message, …). -/
structure Diag where
  check : String
  text : String
deriving DecidableEq, Repr

abbrev Results := List Diag

/-! ### components written into the two hashes -/

/-- One `Write` of `computeHash` (go/loader/hash.go). -/
inductive PComp where
  | salt (s : String)                    -- `h.Write(hashSalt)` in cache.NewHash
  | platform (goos goarch : String)      -- "goos %s goarch %s\n"
  | self (pkgPath : String)              -- "import %q\n"
  | files (s : String)                   -- "files <build id prefix>\n"  or  "file <name> <hash>\n"
  | imp (path id : String)               -- "import %s %s\n" per import, sorted by path
  | extra (tag val : String)             -- any line this model does not know
deriving DecidableEq, Repr

/-! ### named inputs

The analysis and the key are functions of *named* inputs.  A `Named` is an assignment of
values to names (the fields of the merged `config.Config`, the variables of the process
environment); `restrict names m` is what a reader that looks only at `names` can see of it.
Which names the key hashes and which names the analyzers read is the *shape* of the code
(`Shape`); it is extracted from the current source and from the run-time HASH lines into
`Verif/C04/Generated.lean`, and the only thing the transparency theorem needs from it is the
structural obligation `Shape.Covers` (every name read is hashed). -/

abbrev Named := List (String × String)
abbrev NVals := List (String × Option String)

def find [DecidableEq α] (k : α) : List (α × β) → Option β
  | [] => none
  | (k', v) :: rest => if k' = k then some v else find k rest

/-- The values of the given names (`none` = not set / zero value). -/
def restrict (names : List String) (m : Named) : NVals := names.map (fun n => (n, find n m))

/-- Which named inputs reach the action key and which are read at analysis time. -/
structure Shape where
  /-- fields of `config.Config` whose value reaches the `cfg %#v` component of `subrunner.do`
  (`hashCfg := a.cfg; hashCfg.Checks = nil` ⇒ every field but `Checks`) -/
  cfgHashed : List String
  /-- fields some analyzer reads through `config.For(pass).F` -/
  cfgReads : List String
  /-- environment variables written into the key (`env godebug %q`) -/
  envHashed : List String
  /-- environment variables read by analysis-time code -/
  envReads : List String
deriving DecidableEq, Repr

/-- The structural obligation: every named input the analysis reads is determined by the key. -/
def Shape.Covers (S : Shape) : Prop :=
  (∀ f ∈ S.cfgReads, f ∈ S.cfgHashed) ∧ (∀ e ∈ S.envReads, e ∈ S.envHashed)

instance (S : Shape) : Decidable S.Covers := by unfold Shape.Covers; infer_instance

/-- One `Write` of `subrunner.do` (lintcmd/runner/runner.go). -/
inductive KComp (PD VD : Type) where
  | salt (s : String)                    -- `h.Write(hashSalt)` in cache.NewHash
  | cfg (c : NVals)                      -- "cfg %#v\n" of hashCfg: the hashed fields of the merged config
  | pkg (d : PD)                         -- "pkg %x\n"  (a.Package.Hash)
  | analyzers (s : String)               -- "analyzers %s\n"
  | go (s : String)                      -- "go %s\n"
  | env (e : NVals)                      -- "env godebug %q\n": the hashed environment variables
  | vetout (path : String) (d : VD)      -- "vetout %q %x\n" per dependency, sorted by package ID
  | extra (tag val : String)
deriving DecidableEq, Repr

def PComp.tag : PComp → String
  | .salt _ => "salt" | .platform _ _ => "goos" | .self _ => "import-self" | .files _ => "files"
  | .imp _ _ => "import" | .extra _ _ => "extra"

def KComp.tag {PD VD : Type} : KComp PD VD → String
  | .salt _ => "salt" | .cfg _ => "cfg" | .pkg _ => "pkg" | .analyzers _ => "analyzers"
  | .go _ => "go" | .env _ => "env" | .vetout _ _ => "vetout" | .extra _ _ => "extra"

/-! ### inputs -/

/-- What `computeHash` reads of a package (besides the salt). -/
structure PkgSrc where
  goos : String
  goarch : String
  pkgPath : String
  files : List String                    -- build-id prefix of the export file, or file hashes + go.mod
  imports : List (String × String)       -- (import path, build id of its export file)
  extra : List (String × String)
deriving DecidableEq, Repr

/-- The inputs of one package action.  `P` is how the package itself is given, `V` how the
facts of a dependency are given: `Inputs PkgSrc Vetx` is what the analysis consumes,
`Inputs PD VD` is what is written into the action hash. -/
structure Inputs (P V : Type) where
  salt : String
  cfg : NVals                            -- the visible part of the merged config
  pkg : P
  analyzers : String
  goVersion : String
  env : NVals                            -- the visible part of the environment
  depVetx : List (String × V)
  extra : List (String × String)

abbrev AInputs := Inputs PkgSrc Vetx

/-- Result of `doUncached`: type-checking failed, or facts + diagnostics. -/
inductive Outcome where
  | error (errs : List String)
  | done (vetx : Vetx) (results : Results)
deriving DecidableEq, Repr

/-- The analysis.  First argument: a nonce (which uncached analysis of the process history
this is — the real analysis is *not* byte-deterministic in its facts file: facts are
gob-encoded in map-iteration order).  Second: `factsOnly`. -/
abbrev Analyze := Nat → Bool → AInputs → Outcome

structure Params (PD VD D : Type) where
  Hp : List PComp → PD
  vhash : Vetx → VD
  H : List (KComp PD VD) → D
  an : Analyze

/-! ### serialisation and key -/

def serialisePkg (salt : String) (p : PkgSrc) : List PComp :=
  [.salt salt, .platform p.goos p.goarch, .self p.pkgPath]
    ++ (p.files.map .files ++ (p.extra.map (fun x => .extra x.1 x.2) ++ p.imports.map (fun x => .imp x.1 x.2)))

def serialise {PD VD : Type} (k : Inputs PD VD) : List (KComp PD VD) :=
  [.salt k.salt, .cfg k.cfg, .pkg k.pkg, .analyzers k.analyzers, .go k.goVersion, .env k.env]
    ++ (k.extra.map (fun x => .extra x.1 x.2) ++ k.depVetx.map (fun x => .vetout x.1 x.2))

variable {PD VD D : Type}

/-- The key inputs of an action: the package replaced by its hash, the facts files of the
dependencies by their content hashes. -/
def toKey (P : Params PD VD D) (a : AInputs) : Inputs PD VD :=
  { salt := a.salt, cfg := a.cfg, pkg := P.Hp (serialisePkg a.salt a.pkg), analyzers := a.analyzers,
    goVersion := a.goVersion, env := a.env,
    depVetx := a.depVetx.map (fun x => (x.1, P.vhash x.2)), extra := a.extra }

/-- `a.hash` of `subrunner.do`. -/
def key (P : Params PD VD D) (a : AInputs) : D := P.H (serialise (toKey P a))

/-- Tags the model relies on being part of the action key / package hash. -/
def requiredTags : List String := ["salt", "cfg", "pkg", "analyzers", "go", "env", "vetout"]
def requiredPkgTags : List String := ["salt", "goos", "import-self", "files", "import"]

/-! ### world, cache, run -/

/-- One package of the import graph as the loader + planner present it. -/
structure Pkg where
  src : PkgSrc
  cfg : Named                            -- merged config as named fields (`Checks` is kept apart)
  checks : List String                   -- merged `Checks` (never part of the key)
  initial : Bool                         -- `!factsOnly`
  deps : List Nat                        -- positions of the direct dependencies in `World.pkgs`
  extra : List (String × String)
deriving DecidableEq, Repr

/-- Everything one invocation sees.  `pkgs` is in bottom-up order (dependencies first), the
order in which `Runner.Run` can process the graph. -/
structure World where
  salt : String
  analyzers : String
  goVersion : String
  env : Named                            -- the process environment
  pkgs : List Pkg
deriving DecidableEq, Repr

/-- Result of one package action. -/
inductive Out where
  | failed (errs : List String)          -- `a.failed`; `errs = []` when only a dependency failed
  | ok (vetx : Vetx) (results : Option Results)   -- `results = none` for facts-only actions
deriving DecidableEq, Repr

/-- The on-disk cache restricted to what the runner stores: `Subkey(id,"vetx")` and
`Subkey(id,"results")`. Newest entry first; `Put` overwrites = shadows. -/
structure Cache (D : Type) where
  vet : List (D × Vetx)
  res : List (D × Results)

def Cache.empty : Cache D := ⟨[], []⟩

/-- Facts files of the dependencies, `none` if one of them failed (`genericHandle` then
marks the action failed without running it). -/
def depVetx (done : List (Pkg × Out)) : List Nat → Option (List (String × Vetx))
  | [] => some []
  | d :: ds =>
    match done[d]? with
    | some (p, .ok v _) =>
      match depVetx done ds with
      | some r => some ((p.src.pkgPath, v) :: r)
      | none => none
    | _ => none

/-- The inputs of a package action as seen by a reader that looks at the configuration fields
`cn` and the environment variables `en` only. -/
def mkInputs (cn en : List String) (w : World) (p : Pkg) (dv : List (String × Vetx)) : AInputs :=
  { salt := w.salt, cfg := restrict cn p.cfg, pkg := p.src, analyzers := w.analyzers, goVersion := w.goVersion,
    env := restrict en w.env, depVetx := dv, extra := p.extra }

/-- What `doUncached` (the analyzers) can see. -/
def ainOf (S : Shape) (w : World) (p : Pkg) (dv : List (String × Vetx)) : AInputs :=
  mkInputs S.cfgReads S.envReads w p dv

/-- `a.hash` of `subrunner.do` for this package in this world. -/
def keyOf (S : Shape) (P : Params PD VD D) (w : World) (p : Pkg) (dv : List (String × Vetx)) : D :=
  key P (mkInputs S.cfgHashed S.envHashed w p dv)

/-- `getCachedFiles`: all requested sub-entries must be present. -/
def lookupAll [DecidableEq D] (c : Cache D) (k : D) (initial : Bool) : Option Out :=
  match find k c.vet with
  | none => none
  | some v =>
    if initial then
      match find k c.res with
      | none => none
      | some r => some (.ok v (some r))
    else some (.ok v none)

/-- `subrunner.do` for one package: returns the new cache, the next nonce and the result. -/
def doPkg [DecidableEq D] (S : Shape) (P : Params PD VD D) (w : World) (c : Cache D) (n : Nat)
    (done : List (Pkg × Out)) (p : Pkg) : Cache D × Nat × Out :=
  match depVetx done p.deps with
  | none => (c, n, .failed [])
  | some dv =>
    let ai := ainOf S w p dv
    let k := keyOf S P w p dv
    match lookupAll c k p.initial with
    | some o => (c, n, o)
    | none =>
      match P.an n (!p.initial) ai with
      | .error e => (c, n + 1, .failed e)
      | .done v r =>
        if p.initial then (⟨(k, v) :: c.vet, (k, r) :: c.res⟩, n + 1, .ok v (some r))
        else (⟨(k, v) :: c.vet, c.res⟩, n + 1, .ok v none)

def runPkgs [DecidableEq D] (S : Shape) (P : Params PD VD D) (w : World) :
    Cache D → Nat → List (Pkg × Out) → List Pkg → Cache D × Nat × List (Pkg × Out)
  | c, n, done, [] => (c, n, done)
  | c, n, done, p :: ps =>
    let r := doPkg S P w c n done p
    runPkgs S P w r.1 r.2.1 (done ++ [(p, r.2.2)]) ps

/-- One invocation: process the graph bottom-up. -/
def run [DecidableEq D] (S : Shape) (P : Params PD VD D) (c : Cache D) (n : Nat) (w : World) :
    Cache D × Nat × List (Pkg × Out) :=
  runPkgs S P w c n [] w.pkgs

/-- `linter.lint`: failed packages report their errors; initial packages report the loaded
results filtered by the *current* merged `Checks` (`sel checks check`). -/
def reportOne (sel : List String → String → Bool) : Pkg × Out → Results
  | (_, .failed errs) => errs.map (fun e => ⟨"compile", e⟩)
  | (p, .ok _ (some r)) => if p.initial then r.filter (fun d => sel p.checks d.check) else []
  | (_, .ok _ none) => []

def report (sel : List String → String → Bool) (outs : List (Pkg × Out)) : Results :=
  outs.flatMap (reportOne sel)

/-- What `linter.lint` can see of a package action: the errors of a failed package, or the
loaded `results` entry (diagnostics, directives, unused objects) — never the facts file and
never the cache. -/
inductive Loaded where
  | failed (errs : List String)
  | ok (results : Option Results)
deriving DecidableEq, Repr

def strip : Pkg × Out → Pkg × Loaded
  | (p, .failed e) => (p, .failed e)
  | (p, .ok _ r) => (p, .ok r)

/-- The cache (and nonce) after a history of invocations on arbitrary worlds, starting empty.
Source edits, configuration edits, flag and environment changes are just different worlds. -/
def cacheAfter [DecidableEq D] (S : Shape) (P : Params PD VD D) : List World → Cache D × Nat
  | [] => (Cache.empty, 0)
  | w :: ws =>
    let s := cacheAfter S P ws
    let r := run S P s.1 s.2 w
    (r.1, r.2.1)

end Verif.C04
