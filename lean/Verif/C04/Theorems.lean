import Verif.C04.Lemmas
import Verif.C04.Generated
/-! Property theorems for C04 (cache transparency) over the model of `subrunner.do`.

Hypotheses supplied by the world (never axioms):
* `Inj P.Hp`, `Inj P.H`, `Inj P.vhash` — the three uses of sha256 are collision free, and the
  byte serialisation of the `Write` calls is unambiguous (components are compared as a list);
* `Respects P.an eqv` — the analysis is deterministic *in what it is given* (`ainOf`: the
  package, the configuration fields in `Shape.cfgReads`, the environment variables in
  `Shape.envReads`, target Go version, analyzer set, salt, facts of the dependencies), up to
  an arbitrary relation `eqv` on facts files (the real facts file is gob-encoded in map order,
  so two analyses of identical inputs may differ in bytes): related inputs give the same
  errors / the same diagnostics and related facts, whatever the nonce and for both values of
  `factsOnly` (diagnostics are only compared between two full analyses).
* `S.Covers` — the **structural** obligation that ties the two views together: every named
  input the analysis reads is among the names the key hashes.  It is *not* assumed for the
  code under test: `gen_covers` re-proves it by kernel evaluation for the shape extracted
  from the current source (`Gen.shape`), `gen_runtime_covers` for the fields the running
  binary was seen to hash, and `warm_eq_cold_gen` is the transparency theorem for that shape
  without this hypothesis.  `uncovered_input_breaks` shows that it cannot be dropped. -/
namespace Verif.C04

variable {PD VD D : Type}

/-! ### definitions used in the statements -/

/-- Every entry of the cache was written as `put (key i) (analyze i)`. -/
def CacheOK (S : Shape) (P : Params PD VD D) (c : Cache D) : Prop :=
  (∀ kv ∈ c.vet, ∃ n f w p dv r, kv.1 = keyOf S P w p dv ∧ P.an n f (ainOf S w p dv) = .done kv.2 r) ∧
  (∀ kr ∈ c.res, ∃ n w p dv v, kr.1 = keyOf S P w p dv ∧ P.an n false (ainOf S w p dv) = .done v kr.2)

inductive DepRel (eqv : Vetx → Vetx → Prop) : List (String × Vetx) → List (String × Vetx) → Prop
  | nil : DepRel eqv [] []
  | cons {s v v' l l'} : eqv v v' → DepRel eqv l l' → DepRel eqv ((s, v) :: l) ((s, v') :: l')

/-- Same inputs, facts files of the dependencies related by `eqv`. -/
def InEq (eqv : Vetx → Vetx → Prop) (a b : AInputs) : Prop :=
  a.salt = b.salt ∧ a.cfg = b.cfg ∧ a.pkg = b.pkg ∧ a.analyzers = b.analyzers ∧
  a.goVersion = b.goVersion ∧ a.env = b.env ∧ a.extra = b.extra ∧ DepRel eqv a.depVetx b.depVetx

def OutcomeRel (eqv : Vetx → Vetx → Prop) (f f' : Bool) : Outcome → Outcome → Prop
  | .error e, .error e' => e = e'
  | .done v r, .done v' r' => eqv v v' ∧ (f = false → f' = false → r = r')
  | _, _ => False

/-- "analyze is a function of Inputs" (up to `eqv` on facts files). -/
def Respects (an : Analyze) (eqv : Vetx → Vetx → Prop) : Prop :=
  ∀ n n' f f' i i', InEq eqv i i' → OutcomeRel eqv f f' (an n f i) (an n' f' i')

def OutRel (eqv : Vetx → Vetx → Prop) : Pkg × Out → Pkg × Out → Prop
  | (p, .failed e), (p', .failed e') => p = p' ∧ e = e'
  | (p, .ok v r), (p', .ok v' r') => p = p' ∧ eqv v v' ∧ r = r'
  | _, _ => False

/-! ### cache invariant -/

theorem cacheOK_empty (S : Shape) (P : Params PD VD D) : CacheOK S P (Cache.empty : Cache D) := by
  constructor <;> intro _ h <;> simp [Cache.empty] at h

theorem doPkg_cacheOK [DecidableEq D] (S : Shape) (P : Params PD VD D) (w : World) (c : Cache D) (n : Nat)
    (done : List (Pkg × Out)) (p : Pkg) (hc : CacheOK S P c) : CacheOK S P (doPkg S P w c n done p).1 := by
  unfold doPkg
  split
  · exact hc
  · rename_i dv _
    simp only
    split
    · exact hc
    · split
      · exact hc
      · rename_i v r han
        by_cases hi : p.initial = true
        · simp only [hi, if_true]
          simp only [hi, Bool.not_true] at han
          constructor
          · intro kv hkv
            rcases List.mem_cons.1 hkv with rfl | h
            · exact ⟨n, false, w, p, dv, r, rfl, han⟩
            · exact hc.1 kv h
          · intro kr hkr
            rcases List.mem_cons.1 hkr with rfl | h
            · exact ⟨n, w, p, dv, v, rfl, han⟩
            · exact hc.2 kr h
        · simp only [hi]
          constructor
          · intro kv hkv
            rcases List.mem_cons.1 hkv with rfl | h
            · exact ⟨n, _, w, p, dv, r, rfl, han⟩
            · exact hc.1 kv h
          · exact hc.2

theorem runPkgs_cacheOK [DecidableEq D] (S : Shape) (P : Params PD VD D) (w : World) (ps : List Pkg) :
    ∀ (c : Cache D) (n : Nat) (done : List (Pkg × Out)), CacheOK S P c → CacheOK S P (runPkgs S P w c n done ps).1 := by
  induction ps with
  | nil => intro c n done hc; exact hc
  | cons p ps ih =>
    intro c n done hc
    unfold runPkgs
    exact ih _ _ _ (doPkg_cacheOK S P w c n done p hc)

/-- **cache_inv**: an invocation started on a cache in which every entry is
`⟨key i, analyze i⟩` leaves such a cache; hence every cache reachable from the empty one by
any history of invocations on any worlds is of this form. -/
theorem cache_inv [DecidableEq D] (S : Shape) (P : Params PD VD D) (c : Cache D) (n : Nat) (w : World)
    (hc : CacheOK S P c) : CacheOK S P (run S P c n w).1 :=
  runPkgs_cacheOK S P w w.pkgs c n [] hc

theorem cache_inv_history [DecidableEq D] (S : Shape) (P : Params PD VD D) (ws : List World) :
    CacheOK S P (cacheAfter S P ws).1 := by
  induction ws with
  | nil => exact cacheOK_empty S P
  | cons w ws ih => exact cache_inv S P _ _ w ih

/-! ### the key determines what the analysis reads (the role of `Shape.Covers`) -/

/-- "Equal keys ⇒ equal analysis inputs" — the only fact about keys the proof needs. -/
def KeyDetermines (S : Shape) (P : Params PD VD D) : Prop :=
  ∀ (w : World) (p : Pkg) (dv : List (String × Vetx)) (w' : World) (p' : Pkg) (dv' : List (String × Vetx)),
    keyOf S P w p dv = keyOf S P w' p' dv' → ainOf S w p dv = ainOf S w' p' dv'

/-- **key_determines_inputs**: with collision-free hashes, the structural obligation
`inputs ⊆ components` (`S.Covers`) is all that is needed for the action key to determine
everything the analysis can read. -/
theorem key_determines_inputs (S : Shape) (P : Params PD VD D) (hc : S.Covers)
    (hHp : Inj P.Hp) (hV : Inj P.vhash) (hH : Inj P.H) : KeyDetermines S P := by
  intro w p dv w' p' dv' h
  have e := key_inj P hHp hV hH h
  unfold mkInputs at e
  have e' : w.salt = w'.salt ∧ restrict S.cfgHashed p.cfg = restrict S.cfgHashed p'.cfg ∧ p.src = p'.src ∧
      w.analyzers = w'.analyzers ∧ w.goVersion = w'.goVersion ∧
      restrict S.envHashed w.env = restrict S.envHashed w'.env ∧ dv = dv' ∧ p.extra = p'.extra := by
    simpa using e
  obtain ⟨e1, e2, e3, e4, e5, e6, e7, e8⟩ := e'
  unfold ainOf mkInputs
  rw [e1, restrict_mono hc.1 e2, e3, e4, e5, restrict_mono hc.2 e6, e7, e8]

/-! ### one step: what `doPkg` returns, in terms of the analysis only -/

/-- The result of a package action is an analysis result for *its own* inputs, whether it
was computed now or served from the cache. -/
def StepSpec (S : Shape) (P : Params PD VD D) (w : World) (done : List (Pkg × Out)) (p : Pkg) (o : Out) : Prop :=
  match depVetx done p.deps with
  | none => o = .failed []
  | some dv =>
    (∃ e n f, o = .failed e ∧ P.an n f (ainOf S w p dv) = .error e) ∨
    (∃ v ro, o = .ok v ro ∧ (∃ n f r, P.an n f (ainOf S w p dv) = .done v r) ∧
      (if p.initial = true then ∃ n v' r, P.an n false (ainOf S w p dv) = .done v' r ∧ ro = some r
       else ro = none))

theorem lookupAll_spec [DecidableEq D] (S : Shape) (P : Params PD VD D) (hK : KeyDetermines S P)
    (c : Cache D) (hc : CacheOK S P c) (w : World) (p : Pkg) (dv : List (String × Vetx))
    (initial : Bool) (o : Out)
    (h : lookupAll c (keyOf S P w p dv) initial = some o) :
    ∃ v ro, o = .ok v ro ∧ (∃ n f r, P.an n f (ainOf S w p dv) = .done v r) ∧
      (if initial = true then ∃ n v' r, P.an n false (ainOf S w p dv) = .done v' r ∧ ro = some r else ro = none) := by
  unfold lookupAll at h
  split at h
  · simp at h
  · rename_i v hv
    obtain ⟨n, f, w1, p1, dv1, r, hk, han⟩ := hc.1 _ (find_mem hv)
    have hi := hK _ _ _ _ _ _ hk
    rw [← hi] at han
    by_cases hinit : initial = true
    · simp only [hinit, if_true] at h ⊢
      split at h
      · simp at h
      · rename_i r' hr'
        obtain ⟨n', w2, p2, dv2, v', hk', han'⟩ := hc.2 _ (find_mem hr')
        have hi' := hK _ _ _ _ _ _ hk'
        rw [← hi'] at han'
        have : o = .ok v (some r') := by simpa using h.symm
        exact ⟨v, some r', this, ⟨n, f, r, han⟩, ⟨n', v', r', han', rfl⟩⟩
    · simp only [hinit] at h ⊢
      have : o = .ok v none := by simpa using h.symm
      exact ⟨v, none, this, ⟨n, f, r, han⟩, by simp⟩

theorem doPkg_depfail [DecidableEq D] (S : Shape) (P : Params PD VD D) (w : World) (c : Cache D) (n : Nat)
    (done : List (Pkg × Out)) (p : Pkg) (h : depVetx done p.deps = none) :
    doPkg S P w c n done p = (c, n, .failed []) := by
  simp [doPkg, h]

theorem doPkg_hit [DecidableEq D] (S : Shape) (P : Params PD VD D) (w : World) (c : Cache D) (n : Nat)
    (done : List (Pkg × Out)) (p : Pkg) (dv : List (String × Vetx)) (o : Out)
    (h : depVetx done p.deps = some dv)
    (hl : lookupAll c (keyOf S P w p dv) p.initial = some o) :
    doPkg S P w c n done p = (c, n, o) := by
  simp [doPkg, h, hl]

theorem doPkg_err [DecidableEq D] (S : Shape) (P : Params PD VD D) (w : World) (c : Cache D) (n : Nat)
    (done : List (Pkg × Out)) (p : Pkg) (dv : List (String × Vetx)) (e : List String)
    (h : depVetx done p.deps = some dv)
    (hl : lookupAll c (keyOf S P w p dv) p.initial = none)
    (ha : P.an n (!p.initial) (ainOf S w p dv) = .error e) :
    doPkg S P w c n done p = (c, n + 1, .failed e) := by
  simp [doPkg, h, hl, ha]

theorem doPkg_done [DecidableEq D] (S : Shape) (P : Params PD VD D) (w : World) (c : Cache D) (n : Nat)
    (done : List (Pkg × Out)) (p : Pkg) (dv : List (String × Vetx)) (v : Vetx) (r : Results)
    (h : depVetx done p.deps = some dv)
    (hl : lookupAll c (keyOf S P w p dv) p.initial = none)
    (ha : P.an n (!p.initial) (ainOf S w p dv) = .done v r) :
    (doPkg S P w c n done p).2.2 = .ok v (if p.initial = true then some r else none) := by
  cases hi : p.initial
  · rw [hi] at hl ha
    simp only [Bool.not_false] at ha
    simp [doPkg, h, hi, hl, ha]
  · rw [hi] at hl ha
    simp only [Bool.not_true] at ha
    simp [doPkg, h, hi, hl, ha]

theorem doPkg_spec [DecidableEq D] (S : Shape) (P : Params PD VD D) (hK : KeyDetermines S P)
    (w : World) (c : Cache D) (n : Nat) (done : List (Pkg × Out)) (p : Pkg) (hc : CacheOK S P c) :
    StepSpec S P w done p (doPkg S P w c n done p).2.2 := by
  unfold StepSpec
  cases hdv : depVetx done p.deps with
  | none => simp [doPkg_depfail S P w c n done p hdv]
  | some dv =>
    simp only
    cases hl : lookupAll c (keyOf S P w p dv) p.initial with
    | some o =>
      rw [doPkg_hit S P w c n done p dv o hdv hl]
      right
      exact lookupAll_spec S P hK c hc _ _ _ _ _ hl
    | none =>
      cases ha : P.an n (!p.initial) (ainOf S w p dv) with
      | error e =>
        rw [doPkg_err S P w c n done p dv e hdv hl ha]
        left; exact ⟨e, n, _, rfl, ha⟩
      | done v r =>
        rw [doPkg_done S P w c n done p dv v r hdv hl ha]
        right
        by_cases hi : p.initial = true
        · simp only [hi, if_true]
          simp only [hi, Bool.not_true] at ha
          exact ⟨v, some r, rfl, ⟨n, false, r, ha⟩, ⟨n, v, r, ha, rfl⟩⟩
        · simp only [hi]
          exact ⟨v, none, by simp, ⟨n, _, r, ha⟩, by simp⟩

/-! ### two runs of the same world from two well-formed caches agree -/

theorem depVetx_rel (eqv : Vetx → Vetx → Prop) {d1 d2 : List (Pkg × Out)}
    (h : AllRel (OutRel eqv) d1 d2) (ds : List Nat) :
    (depVetx d1 ds = none ∧ depVetx d2 ds = none) ∨
    ∃ a b, depVetx d1 ds = some a ∧ depVetx d2 ds = some b ∧ DepRel eqv a b := by
  induction ds with
  | nil => right; exact ⟨[], [], rfl, rfl, .nil⟩
  | cons d ds ih =>
    unfold depVetx
    rcases h.get d with ⟨h1, h2⟩ | ⟨x, y, h1, h2, hxy⟩
    · left; simp [h1, h2]
    · rw [h1, h2]
      obtain ⟨p1, o1⟩ := x
      obtain ⟨p2, o2⟩ := y
      cases o1 with
      | failed e1 =>
        cases o2 with
        | failed e2 => left; simp
        | ok v2 r2 => simp only [OutRel] at hxy
      | ok v1 r1 =>
        cases o2 with
        | failed e2 => simp only [OutRel] at hxy
        | ok v2 r2 =>
          simp only [OutRel] at hxy
          obtain ⟨hp, hv, _⟩ := hxy
          subst hp
          rcases ih with ⟨i1, i2⟩ | ⟨a, b, i1, i2, hab⟩
          · left; simp [i1, i2]
          · right
            exact ⟨(p1.src.pkgPath, v1) :: a, (p1.src.pkgPath, v2) :: b, by simp [i1], by simp [i2], .cons hv hab⟩

theorem step_rel (S : Shape) (P : Params PD VD D) (eqv : Vetx → Vetx → Prop) (hA : Respects P.an eqv)
    (w : World) {d1 d2 : List (Pkg × Out)} (hd : AllRel (OutRel eqv) d1 d2) (p : Pkg) (o1 o2 : Out)
    (s1 : StepSpec S P w d1 p o1) (s2 : StepSpec S P w d2 p o2) : OutRel eqv (p, o1) (p, o2) := by
  unfold StepSpec at s1 s2
  rcases depVetx_rel eqv hd p.deps with ⟨h1, h2⟩ | ⟨a, b, h1, h2, hab⟩
  · rw [h1] at s1; rw [h2] at s2
    subst s1; subst s2; exact ⟨rfl, rfl⟩
  · rw [h1] at s1; rw [h2] at s2
    simp only at s1 s2
    have hin : InEq eqv (ainOf S w p a) (ainOf S w p b) :=
      ⟨rfl, rfl, rfl, rfl, rfl, rfl, rfl, hab⟩
    rcases s1 with ⟨e1, n1, f1, rfl, a1⟩ | ⟨v1, ro1, rfl, ⟨n1, f1, r1, a1⟩, t1⟩ <;>
    rcases s2 with ⟨e2, n2, f2, rfl, a2⟩ | ⟨v2, ro2, rfl, ⟨n2, f2, r2, a2⟩, t2⟩
    · have := hA n1 n2 f1 f2 _ _ hin
      rw [a1, a2] at this
      exact ⟨rfl, this⟩
    · have := hA n1 n2 f1 f2 _ _ hin
      rw [a1, a2] at this
      exact this.elim
    · have := hA n1 n2 f1 f2 _ _ hin
      rw [a1, a2] at this
      exact this.elim
    · have hv := hA n1 n2 f1 f2 _ _ hin
      rw [a1, a2] at hv
      refine ⟨rfl, hv.1, ?_⟩
      by_cases hi : p.initial = true
      · simp only [hi, if_true] at t1 t2
        obtain ⟨m1, w1, q1, b1, rfl⟩ := t1
        obtain ⟨m2, w2, q2, b2, rfl⟩ := t2
        have hr := hA m1 m2 false false _ _ hin
        rw [b1, b2] at hr
        rw [hr.2 rfl rfl]
      · simp only [hi] at t1 t2
        simp at t1 t2
        rw [t1, t2]

theorem runPkgs_rel [DecidableEq D] (S : Shape) (P : Params PD VD D) (eqv : Vetx → Vetx → Prop)
    (hK : KeyDetermines S P) (hA : Respects P.an eqv) (w : World)
    (ps : List Pkg) :
    ∀ (c1 c2 : Cache D) (n1 n2 : Nat) (d1 d2 : List (Pkg × Out)),
      CacheOK S P c1 → CacheOK S P c2 → AllRel (OutRel eqv) d1 d2 →
      AllRel (OutRel eqv) (runPkgs S P w c1 n1 d1 ps).2.2 (runPkgs S P w c2 n2 d2 ps).2.2 := by
  induction ps with
  | nil => intro c1 c2 n1 n2 d1 d2 _ _ hd; exact hd
  | cons p ps ih =>
    intro c1 c2 n1 n2 d1 d2 h1 h2 hd
    unfold runPkgs
    apply ih
    · exact doPkg_cacheOK S P w c1 n1 d1 p h1
    · exact doPkg_cacheOK S P w c2 n2 d2 p h2
    · exact hd.snoc (step_rel S P eqv hA w hd p _ _ (doPkg_spec S P hK w c1 n1 d1 p h1)
        (doPkg_spec S P hK w c2 n2 d2 p h2))

/-- Related runs load the same thing into `linter.lint`: same packages, same errors, same
`results` entries (the facts files may differ in byte order). -/
theorem strip_rel (eqv : Vetx → Vetx → Prop) {d1 d2 : List (Pkg × Out)}
    (h : AllRel (OutRel eqv) d1 d2) : d1.map strip = d2.map strip := by
  induction h with
  | nil => rfl
  | @cons x y l1 l2 hab _ ih =>
    simp only [List.map_cons, ih]
    congr 1
    obtain ⟨p1, o1⟩ := x
    obtain ⟨p2, o2⟩ := y
    cases o1 with
    | failed e1 =>
      cases o2 with
      | failed e2 => simp only [OutRel] at hab; obtain ⟨rfl, rfl⟩ := hab; rfl
      | ok v2 r2 => simp only [OutRel] at hab
    | ok v1 r1 =>
      cases o2 with
      | failed e2 => simp only [OutRel] at hab
      | ok v2 r2 =>
        simp only [OutRel] at hab
        obtain ⟨rfl, _, rfl⟩ := hab
        rfl

/-- `report` looks at the loaded results only. -/
def reportL (sel : List String → String → Bool) : Pkg × Loaded → Results
  | (_, .failed errs) => errs.map (fun e => ⟨"compile", e⟩)
  | (p, .ok (some r)) => if p.initial then r.filter (fun d => sel p.checks d.check) else []
  | (_, .ok none) => []

theorem report_factors (sel : List String → String → Bool) (outs : List (Pkg × Out)) :
    report sel outs = (outs.map strip).flatMap (reportL sel) := by
  unfold report
  rw [List.flatMap_map]
  congr 1
  funext x
  obtain ⟨p, o⟩ := x
  cases o with
  | failed e => rfl
  | ok v ro => cases ro <;> rfl

theorem report_rel (eqv : Vetx → Vetx → Prop) (sel : List String → String → Bool)
    {d1 d2 : List (Pkg × Out)} (h : AllRel (OutRel eqv) d1 d2) : report sel d1 = report sel d2 := by
  rw [report_factors, report_factors, strip_rel eqv h]

/-- Two invocations on the same world, started from any two caches whose entries are all of
the form `⟨key, analysis result for the inputs of that key⟩` and with any nonces, load the
same results — so *any* post-processing of the loaded results (`linter.lint`: the `Checks`
filter, `filterIgnored` over the cached directives, the cross-package merge of U1000's
`unused` results, `MergeIf`, …) reports the same problems. -/
theorem run_loaded_eq [DecidableEq D] (S : Shape) (P : Params PD VD D) (eqv : Vetx → Vetx → Prop)
    (hc : S.Covers) (hHp : Inj P.Hp) (hV : Inj P.vhash) (hH : Inj P.H) (hA : Respects P.an eqv)
    (c1 c2 : Cache D) (n1 n2 : Nat) (w : World)
    (h1 : CacheOK S P c1) (h2 : CacheOK S P c2) :
    (run S P c1 n1 w).2.2.map strip = (run S P c2 n2 w).2.2.map strip :=
  strip_rel eqv
    (runPkgs_rel S P eqv (key_determines_inputs S P hc hHp hV hH) hA w w.pkgs c1 c2 n1 n2 [] [] h1 h2 .nil)

theorem run_report_eq [DecidableEq D] (S : Shape) (P : Params PD VD D) (eqv : Vetx → Vetx → Prop)
    (hc : S.Covers) (hHp : Inj P.Hp) (hV : Inj P.vhash) (hH : Inj P.H) (hA : Respects P.an eqv)
    (sel : List String → String → Bool) (c1 c2 : Cache D) (n1 n2 : Nat) (w : World)
    (h1 : CacheOK S P c1) (h2 : CacheOK S P c2) :
    report sel (run S P c1 n1 w).2.2 = report sel (run S P c2 n2 w).2.2 := by
  rw [report_factors, report_factors, run_loaded_eq S P eqv hc hHp hV hH hA c1 c2 n1 n2 w h1 h2]

/-- **warm_eq_cold** (C04): for every history `ws` of invocations on arbitrary worlds
(arbitrary source, dependency, configuration, flag and environment changes in between) that
share one cache, an invocation on any world `w` with the resulting cache reports exactly
what an invocation on `w` with an empty cache reports — provided the shape of the code
satisfies the structural obligation `S.Covers` (every named input the analysis reads is
hashed into the key). -/
theorem warm_eq_cold [DecidableEq D] (S : Shape) (P : Params PD VD D) (eqv : Vetx → Vetx → Prop)
    (hc : S.Covers) (hHp : Inj P.Hp) (hV : Inj P.vhash) (hH : Inj P.H) (hA : Respects P.an eqv)
    (sel : List String → String → Bool) (ws : List World) (w : World) (n' : Nat) :
    report sel (run S P (cacheAfter S P ws).1 (cacheAfter S P ws).2 w).2.2 =
      report sel (run S P Cache.empty n' w).2.2 :=
  run_report_eq S P eqv hc hHp hV hH hA sel _ _ _ _ w (cache_inv_history S P ws) (cacheOK_empty S P)

/-- **warm_eq_cold_post**: the same for an arbitrary post-processing `post` of what
`linter.lint` loads (it may depend on the current world: flags, merged `Checks`, …). -/
theorem warm_eq_cold_post [DecidableEq D] {R : Type} (S : Shape) (P : Params PD VD D) (eqv : Vetx → Vetx → Prop)
    (hc : S.Covers) (hHp : Inj P.Hp) (hV : Inj P.vhash) (hH : Inj P.H) (hA : Respects P.an eqv)
    (post : World → List (Pkg × Loaded) → R) (ws : List World) (w : World) (n' : Nat) :
    post w ((run S P (cacheAfter S P ws).1 (cacheAfter S P ws).2 w).2.2.map strip) =
      post w ((run S P Cache.empty n' w).2.2.map strip) := by
  rw [run_loaded_eq S P eqv hc hHp hV hH hA _ Cache.empty _ n' w (cache_inv_history S P ws) (cacheOK_empty S P)]

/-- The deterministic reading of the design: `analyze : Inputs → Vetx × Results` a function. -/
theorem respects_of_function (analyze : AInputs → Outcome) :
    Respects (fun _ _ i => analyze i) Eq := by
  intro n n' f f' i i' h
  obtain ⟨h1, h2, h3, h4, h5, h6, h7, h8⟩ := h
  have hd : i.depVetx = i'.depVetx := by
    generalize i.depVetx = a at h8
    generalize i'.depVetx = b at h8
    induction h8 with
    | nil => rfl
    | cons hv _ ih => rw [hv, ih]
  have : i = i' := by cases i; cases i'; simp_all
  subst this
  show OutcomeRel Eq f f' (analyze i) (analyze i)
  cases analyze i <;> simp [OutcomeRel]

theorem warm_eq_cold_det [DecidableEq D] (S : Shape) (hc : S.Covers) (Hp : List PComp → PD) (vhash : Vetx → VD)
    (H : List (KComp PD VD) → D) (analyze : AInputs → Outcome)
    (hHp : Inj Hp) (hV : Inj vhash) (hH : Inj H)
    (sel : List String → String → Bool) (ws : List World) (w : World) (n' : Nat) :
    let P : Params PD VD D := ⟨Hp, vhash, H, fun _ _ i => analyze i⟩
    report sel (run S P (cacheAfter S P ws).1 (cacheAfter S P ws).2 w).2.2 =
      report sel (run S P Cache.empty n' w).2.2 :=
  warm_eq_cold S ⟨Hp, vhash, H, fun _ _ i => analyze i⟩ Eq hc hHp hV hH (respects_of_function analyze) sel ws w n'

/-! ### `Checks` is not part of the key, and need not be -/

def Pkg.eraseChecks (p : Pkg) : Pkg := { p with checks := [] }
def World.eraseChecks (w : World) : World := { w with pkgs := w.pkgs.map Pkg.eraseChecks }
def eraseOut (x : Pkg × Out) : Pkg × Out := (x.1.eraseChecks, x.2)

theorem depVetx_erase (done : List (Pkg × Out)) (ds : List Nat) :
    depVetx (done.map eraseOut) ds = depVetx done ds := by
  induction ds with
  | nil => rfl
  | cons d ds ih =>
    unfold depVetx
    rw [ih]
    simp only [List.getElem?_map]
    cases h : done[d]? with
    | none => rfl
    | some x =>
      obtain ⟨p, o⟩ := x
      cases o <;> rfl

theorem doPkg_erase [DecidableEq D] (S : Shape) (P : Params PD VD D) (w : World) (c : Cache D) (n : Nat)
    (done : List (Pkg × Out)) (p : Pkg) :
    doPkg S P w.eraseChecks c n (done.map eraseOut) p.eraseChecks = doPkg S P w c n done p := by
  unfold doPkg
  rw [show p.eraseChecks.deps = p.deps from rfl, depVetx_erase]
  rfl

theorem runPkgs_erase [DecidableEq D] (S : Shape) (P : Params PD VD D) (w : World) (ps : List Pkg) :
    ∀ (c : Cache D) (n : Nat) (done : List (Pkg × Out)),
      runPkgs S P w.eraseChecks c n (done.map eraseOut) (ps.map Pkg.eraseChecks) =
        ((runPkgs S P w c n done ps).1, (runPkgs S P w c n done ps).2.1,
          (runPkgs S P w c n done ps).2.2.map eraseOut) := by
  induction ps with
  | nil => intro c n done; rfl
  | cons p ps ih =>
    intro c n done
    simp only [List.map_cons]
    unfold runPkgs
    simp only [doPkg_erase]
    have := ih (doPkg S P w c n done p).1 (doPkg S P w c n done p).2.1 (done ++ [(p, (doPkg S P w c n done p).2.2)])
    simpa [eraseOut] using this

/-- **checks_not_in_key_ok**: the cache contents, the set of analyses performed and every
package result are independent of the merged `Checks` (kept apart from the named
configuration `Pkg.cfg`; a shape that lists `Checks` among `cfgReads` is rejected by
`gen_covers`): two worlds that differ only in `Checks` (`-checks`, `checks = […]` in any
staticcheck.conf) leave the same cache and produce the same per-package results, so the
report depends on `Checks` only through the post-processing. -/
theorem checks_not_in_key_ok [DecidableEq D] (S : Shape) (P : Params PD VD D) (c : Cache D) (n : Nat)
    (w w' : World) (h : w.eraseChecks = w'.eraseChecks) :
    (run S P c n w).1 = (run S P c n w').1 ∧ (run S P c n w).2.1 = (run S P c n w').2.1 ∧
    (run S P c n w).2.2.map eraseOut = (run S P c n w').2.2.map eraseOut := by
  have e1 := runPkgs_erase S P w w.pkgs c n []
  have e2 := runPkgs_erase S P w' w'.pkgs c n []
  have hp : w.pkgs.map Pkg.eraseChecks = w'.pkgs.map Pkg.eraseChecks := by
    have := congrArg World.pkgs h
    simpa [World.eraseChecks] using this
  rw [h, hp] at e1
  simp only [List.map_nil] at e1 e2
  rw [e2] at e1
  unfold run
  have a1 := congrArg (·.1) e1
  have a2 := congrArg (·.2.1) e1
  have a3 := congrArg (·.2.2) e1
  exact ⟨a1.symm, a2.symm, a3.symm⟩

/-- The report is the per-package post-filter of results that do not depend on `Checks`. -/
theorem report_uses_checks_only_in_filter (sel : List String → String → Bool) (outs : List (Pkg × Out)) :
    report sel outs = outs.flatMap (fun x =>
      match x.2 with
      | .failed errs => errs.map (fun e => ⟨"compile", e⟩)
      | .ok _ (some r) => if x.1.initial then r.filter (fun d => sel x.1.checks d.check) else []
      | .ok _ none => []) := by
  unfold report
  congr 1
  funext x
  obtain ⟨p, o⟩ := x
  cases o with
  | failed e => rfl
  | ok v ro => cases ro <;> rfl

/-! ### generated-facts obligations (tie G): the shape of the *current* code

`Verif/C04/Generated.lean` is rewritten by the check on every run from
* the source (go/ast, `harness/cmd/c04extract`): the fields of `config.Config`, the fields
  that reach `fmt.Fprintf(h, "cfg %#v\n", hashCfg)` in `subrunner.do`, the fields read through
  `config.For(pass).F` anywhere, the environment variables written into the key and those read
  by analysis-time packages, the tags of the `Fprintf` calls of `do` and `computeHash`;
* the run-time HASH lines (`GODEBUG=gocachehash=1`): the tags written, the configuration fields
  whose printed value was ever different from the zero value, the environment variables printed.
The statements below are closed terms over those lists and are re-checked by the kernel. -/

/-- **gen_covers** — the structural obligation for the current source: every configuration
field an analyzer reads reaches the `cfg` component, every environment variable
analysis-time code reads is written into the key. -/
theorem gen_covers : Gen.shape.Covers := by decide

/-- The same against what the running binary was *seen* to hash (independent of the source
extraction: a field that is always printed as its zero value does not count). -/
theorem gen_runtime_covers :
    (∀ f ∈ Gen.shape.cfgReads, f ∈ Gen.observedCfgHashed) ∧
    (∀ e ∈ Gen.shape.envReads, e ∈ Gen.observedEnvHashed) := by decide

/-- Every field of `config.Config` that an analyzer reads exists, and the extraction saw the
struct (guards against an extractor that silently finds nothing). -/
theorem gen_reads_are_fields :
    Gen.cfgFields ≠ [] ∧ Gen.shape.cfgReads ≠ [] ∧ ∀ f ∈ Gen.shape.cfgReads, f ∈ Gen.cfgFields := by decide

/-- Every tag the model's `serialise` relies on was observed (at run time, via
`GODEBUG=gocachehash=1`) among the components the real `subrunner.do` writes. -/
theorem key_covers_inputs : ∀ t ∈ requiredTags, t ∈ Gen.observedActionTags := by decide

theorem pkg_key_covers_inputs : ∀ t ∈ requiredPkgTags, t ∈ Gen.observedPkgTags := by decide

/-- …and is written by a `fmt.Fprintf` of the source of `subrunner.do` / `computeHash`. -/
theorem src_key_covers_inputs :
    (∀ t ∈ requiredTags, t ∈ Gen.srcActionTags) ∧ (∀ t ∈ requiredPkgTags, t ∈ Gen.srcPkgTags) := by decide

/-- **warm_eq_cold_gen**: cache transparency for the shape of the current code, with no
hypothesis about which inputs the key names — that part is `gen_covers`. -/
theorem warm_eq_cold_gen [DecidableEq D] (P : Params PD VD D) (eqv : Vetx → Vetx → Prop)
    (hHp : Inj P.Hp) (hV : Inj P.vhash) (hH : Inj P.H) (hA : Respects P.an eqv)
    {R : Type} (post : World → List (Pkg × Loaded) → R) (ws : List World) (w : World) (n' : Nat) :
    post w ((run Gen.shape P (cacheAfter Gen.shape P ws).1 (cacheAfter Gen.shape P ws).2 w).2.2.map strip) =
      post w ((run Gen.shape P Cache.empty n' w).2.2.map strip) :=
  warm_eq_cold_post Gen.shape P eqv gen_covers hHp hV hH hA post ws w n'

/-- …and `requiredTags` really is what `serialise` emits (so the obligation above is about
the model's key, not about a list written next to it). -/
theorem serialise_tags (k : Inputs PD VD) :
    ∀ t ∈ (serialise k).map KComp.tag, t ∈ requiredTags ∨ t = "extra" := by
  intro t ht
  simp only [serialise, List.map_append, List.map_cons, List.map_nil, List.map_map, List.mem_append,
    List.mem_cons, List.mem_map] at ht
  rcases ht with h | h | h
  · rcases h with h | h | h | h | h | h | h <;>
      first | (subst h; left; simp [KComp.tag, requiredTags]) | (cases h)
  · obtain ⟨_, _, rfl⟩ := h; right; rfl
  · obtain ⟨_, _, rfl⟩ := h; left; simp [KComp.tag, requiredTags]

theorem serialise_emits_required (k : Inputs PD VD) (h : k.depVetx ≠ []) :
    ∀ t ∈ requiredTags, t ∈ (serialise k).map KComp.tag := by
  intro t ht
  have hv : "vetout" ∈ (serialise k).map KComp.tag := by
    cases hd : k.depVetx with
    | nil => exact absurd hd h
    | cons x xs => simp [serialise, hd, KComp.tag]
  simp only [requiredTags, List.mem_cons, List.not_mem_nil, or_false] at ht
  rcases ht with rfl | rfl | rfl | rfl | rfl | rfl | rfl
  all_goals first | exact hv | simp [serialise, KComp.tag]

theorem serialisePkg_tags (s : String) (p : PkgSrc) :
    ∀ t ∈ (serialisePkg s p).map PComp.tag, t ∈ requiredPkgTags ∨ t = "extra" := by
  intro t ht
  simp only [serialisePkg, List.map_append, List.map_cons, List.map_nil, List.map_map, List.mem_append,
    List.mem_cons, List.mem_map] at ht
  rcases ht with h | h | h | h
  · rcases h with h | h | h | h <;>
      first | (subst h; left; simp [PComp.tag, requiredPkgTags]) | (cases h)
  · obtain ⟨_, _, rfl⟩ := h; left; simp [PComp.tag, requiredPkgTags]
  · obtain ⟨_, _, rfl⟩ := h; right; rfl
  · obtain ⟨_, _, rfl⟩ := h; left; simp [PComp.tag, requiredPkgTags]

/-! ### non-vacuity: a concrete instance meeting every hypothesis, with real cache hits -/
namespace Example

abbrev PD0 := List PComp
abbrev VD0 := Vetx
abbrev D0 := List (KComp PD0 VD0)

/-- the shape of the unchanged code: the whole config minus `Checks` is hashed -/
def S0 : Shape := ⟨["Initialisms", "DotImportWhitelist", "HTTPStatusCodeWhitelist"],
  ["Initialisms", "DotImportWhitelist", "HTTPStatusCodeWhitelist"], ["GODEBUG"], []⟩

def show1 (x : String × Option String) : String := x.1 ++ "=" ++ x.2.getD "nil" ++ ";"

/-- a deterministic analysis that really depends on every configuration field it is shown -/
def analyze0 (i : AInputs) : Outcome :=
  if i.goVersion = "bad" then .error ["type error"]
  else .done (i.pkg.pkgPath ++ "#" ++ String.join (i.depVetx.map (·.2)))
    [⟨"SA1019", i.pkg.pkgPath ++ i.goVersion⟩, ⟨"ST1013", String.join (i.cfg.map show1)⟩]

/-- structural "hashes": injective by construction -/
def P0 : Params PD0 VD0 D0 := ⟨id, id, id, fun _ _ i => analyze0 i⟩
def cfgA : Named := [("Initialisms", "ID"), ("HTTPStatusCodeWhitelist", "200,404")]
/-- only `http_status_code_whitelist` differs -/
def cfgB : Named := [("Initialisms", "ID"), ("HTTPStatusCodeWhitelist", "200,404,503")]
def leaf : Pkg := ⟨⟨"linux", "amd64", "m/dep", ["f1"], [], []⟩, cfgA, ["all"], true, [], []⟩
def top (files : String) (cfg : Named) (checks : List String) : Pkg :=
  ⟨⟨"linux", "amd64", "m/app", [files], [("m/dep", "id1")], []⟩, cfg, checks, true, [0], []⟩
def env0 : Named := [("GODEBUG", "gocachehash=1"), ("HOME", "/root")]
def w0 : World := ⟨"salt", "A,B", "module", env0, [leaf, top "f2" cfgA ["SA1019"]]⟩
/-- the target was edited -/
def w1 : World := ⟨"salt", "A,B", "module", env0, [leaf, top "f2-edited" cfgA ["SA1019"]]⟩
/-- only `Checks` changed -/
def w2 : World := ⟨"salt", "A,B", "module", env0, [leaf, top "f2" cfgA ["all"]]⟩
/-- only `http_status_code_whitelist` of the target changed -/
def w3 : World := ⟨"salt", "A,B", "module", env0, [leaf, top "f2" cfgB ["all"]]⟩
/-- only an environment variable nobody reads changed -/
def w4 : World := ⟨"salt", "A,B", "module", [("GODEBUG", "gocachehash=1"), ("HOME", "/home/x")], [leaf, top "f2" cfgA ["SA1019"]]⟩
def sel0 (checks : List String) (c : String) : Bool := checks.contains "all" || checks.contains c

example : Inj P0.Hp ∧ Inj P0.vhash ∧ Inj P0.H := ⟨fun _ _ h => h, fun _ _ h => h, fun _ _ h => h⟩
example : Respects P0.an Eq := respects_of_function analyze0
example : S0.Covers := by decide
example : KeyDetermines S0 P0 :=
  key_determines_inputs S0 P0 (by decide) (fun _ _ h => h) (fun _ _ h => h) (fun _ _ h => h)
-- the hypotheses of `cache_inv` / `warm_eq_cold` are met by a cache that is not empty:
example : (cacheAfter S0 P0 [w0]).1.vet.length = 2 ∧ (cacheAfter S0 P0 [w0]).2 = 2 := by decide
-- second run on the unchanged world: both actions hit (the nonce does not advance)
example : (run S0 P0 (cacheAfter S0 P0 [w0]).1 (cacheAfter S0 P0 [w0]).2 w0).2.1 = 2 := by decide
-- after an edit of the target only the target is analysed; the dependency is a hit although the world changed
example : (run S0 P0 (cacheAfter S0 P0 [w0]).1 (cacheAfter S0 P0 [w0]).2 w1).2.1 = 3 := by decide
-- revert to an earlier state: everything hits
example : (run S0 P0 (cacheAfter S0 P0 [w1, w0]).1 (cacheAfter S0 P0 [w1, w0]).2 w0).2.1 = 3 := by decide
-- changed Checks: everything hits, the report changes through the filter only
example : (run S0 P0 (cacheAfter S0 P0 [w0]).1 (cacheAfter S0 P0 [w0]).2 w2).2.1 = 2 := by decide
-- a changed configuration field that is read: the target misses
example : (run S0 P0 (cacheAfter S0 P0 [w0]).1 (cacheAfter S0 P0 [w0]).2 w3).2.1 = 3 := by decide
-- a changed environment variable that is neither read nor hashed: everything hits
example : (run S0 P0 (cacheAfter S0 P0 [w0]).1 (cacheAfter S0 P0 [w0]).2 w4).2.1 = 2 := by decide
example : report sel0 (run S0 P0 (cacheAfter S0 P0 [w0]).1 (cacheAfter S0 P0 [w0]).2 w2).2.2 =
    [⟨"SA1019", "m/depmodule"⟩, ⟨"ST1013", "Initialisms=ID;DotImportWhitelist=nil;HTTPStatusCodeWhitelist=200,404;"⟩,
     ⟨"SA1019", "m/appmodule"⟩, ⟨"ST1013", "Initialisms=ID;DotImportWhitelist=nil;HTTPStatusCodeWhitelist=200,404;"⟩] := by decide
example : w0.eraseChecks = w2.eraseChecks := by decide
-- warm = cold on this instance, as an instance of the theorem
example : report sel0 (run S0 P0 (cacheAfter S0 P0 [w1, w3, w0]).1 (cacheAfter S0 P0 [w1, w3, w0]).2 w2).2.2 =
    report sel0 (run S0 P0 Cache.empty 0 w2).2.2 :=
  warm_eq_cold S0 P0 Eq (by decide) (fun _ _ h => h) (fun _ _ h => h) (fun _ _ h => h) (respects_of_function analyze0) sel0 _ _ _
-- … and for a post-processing that is not a per-package filter (counts problems across packages)
example : (fun (_ : World) (l : List (Pkg × Loaded)) => (l.flatMap (reportL sel0)).length)
      w3 ((run S0 P0 (cacheAfter S0 P0 [w0]).1 (cacheAfter S0 P0 [w0]).2 w3).2.2.map strip) = 4 := by decide
-- the key is sensitive to every modelled input (here: the Go version, a hashed config field)
example : keyOf S0 P0 w0 leaf [] ≠ keyOf S0 P0 { w0 with goVersion := "1.3" } leaf [] := by decide
example : keyOf S0 P0 w0 (top "f2" cfgA []) [] ≠ keyOf S0 P0 w0 (top "f2" cfgB []) [] := by decide

-- every required tag is emitted by the key of an action that has a dependency
example : ∀ t ∈ requiredTags, t ∈ (serialise (toKey P0 (mkInputs S0.cfgHashed S0.envHashed w0 (top "f2" cfgA []) [("m/dep", "v")]))).map KComp.tag :=
  serialise_emits_required _ (by decide)

/-- The shape of a key whose config part is a hand-written literal that forgets
`HTTPStatusCodeWhitelist` (analyzers still read it). -/
def Sbad : Shape := { S0 with cfgHashed := ["Initialisms", "DotImportWhitelist"] }

example : ¬ Sbad.Covers := by decide
-- the stale entry is served: no analysis happens although a field that is read changed
example : (run Sbad P0 (cacheAfter Sbad P0 [w0]).1 (cacheAfter Sbad P0 [w0]).2 w3).2.1 = 2 := by decide

end Example

/-- **uncovered_input_breaks**: the structural obligation cannot be dropped.  There is a shape
violating only `Covers` (a configuration field that is read but not hashed), with
collision-free hashes and a deterministic analysis, and a two-step history — run, change only
that field, run — whose warm run reports something else than the cold run. -/
theorem uncovered_input_breaks :
    ∃ (S : Shape) (P : Params Example.PD0 Example.VD0 Example.D0) (sel : List String → String → Bool)
      (w w' : World),
      Inj P.Hp ∧ Inj P.vhash ∧ Inj P.H ∧ Respects P.an Eq ∧ ¬ S.Covers ∧
      report sel (run S P (cacheAfter S P [w]).1 (cacheAfter S P [w]).2 w').2.2 ≠
        report sel (run S P Cache.empty 0 w').2.2 :=
  ⟨Example.Sbad, Example.P0, Example.sel0, Example.w0, Example.w3,
    fun _ _ h => h, fun _ _ h => h, fun _ _ h => h, respects_of_function Example.analyze0,
    by decide, by decide⟩

end Verif.C04
