import Verif.C04.Lemmas
import Verif.C04.Generated
/-! Property theorems for C04 (cache transparency) over the model of `subrunner.do`.

Hypotheses supplied by the world (never axioms):
* `Inj P.Hp`, `Inj P.H`, `Inj P.vhash` — the three uses of sha256 are collision free, and the
  byte serialisation of the `Write` calls is unambiguous (components are compared as a list);
* `Respects P.an eqv` — the analysis is a function of the inputs *named by the key*, up to an
  arbitrary relation `eqv` on facts files (the real facts file is gob-encoded in map order, so
  two analyses of identical inputs may differ in bytes): related inputs give the same
  errors / the same diagnostics and related facts, whatever the nonce and for both values of
  `factsOnly` (diagnostics are only compared between two full analyses).
  This is exactly what the differential runs of the check probe on the real binary. -/
namespace Verif.C04

variable {PD VD D : Type}

/-! ### definitions used in the statements -/

/-- Every entry of the cache was written as `put (key i) (analyze i)`. -/
def CacheOK (P : Params PD VD D) (c : Cache D) : Prop :=
  (∀ kv ∈ c.vet, ∃ n f i r, kv.1 = key P i ∧ P.an n f i = .done kv.2 r) ∧
  (∀ kr ∈ c.res, ∃ n i v, kr.1 = key P i ∧ P.an n false i = .done v kr.2)

inductive DepRel (eqv : Vetx → Vetx → Prop) : List (String × Vetx) → List (String × Vetx) → Prop
  | nil : DepRel eqv [] []
  | cons {s v v' l l'} : eqv v v' → DepRel eqv l l' → DepRel eqv ((s, v) :: l) ((s, v') :: l')

/-- Same inputs, facts files of the dependencies related by `eqv`. -/
def InEq (eqv : Vetx → Vetx → Prop) (a b : AInputs) : Prop :=
  a.salt = b.salt ∧ a.cfg = b.cfg ∧ a.pkg = b.pkg ∧ a.analyzers = b.analyzers ∧
  a.goVersion = b.goVersion ∧ a.godebug = b.godebug ∧ a.extra = b.extra ∧ DepRel eqv a.depVetx b.depVetx

def OutcomeRel (eqv : Vetx → Vetx → Prop) (f f' : Bool) : Outcome → Outcome → Prop
  | .error e, .error e' => e = e'
  | .done v r, .done v' r' => eqv v v' ∧ (f = false → f' = false → r = r')
  | _, _ => False

/-- "analyze is a function of Inputs" (up to `eqv` on facts files). -/
def Respects (an : Analyze) (eqv : Vetx → Vetx → Prop) : Prop :=
  ∀ n n' f f' i i', InEq eqv i i' → OutcomeRel eqv f f' (an n f i) (an n' f' i')

def OutRel (eqv : Vetx → Vetx → Prop) : Pkg × Out → Pkg × Out → Prop
  | (p, .failed e), (p', .failed e') => p = p' ∧ e = e'
  | (p, .ok v r), (p', .ok v' r') => p = p' ∧ eqv v v' ∧ r = r'
  | _, _ => False

/-! ### cache invariant -/

theorem cacheOK_empty (P : Params PD VD D) : CacheOK P (Cache.empty : Cache D) := by
  constructor <;> intro _ h <;> simp [Cache.empty] at h

theorem doPkg_cacheOK [DecidableEq D] (P : Params PD VD D) (w : World) (c : Cache D) (n : Nat)
    (done : List (Pkg × Out)) (p : Pkg) (hc : CacheOK P c) : CacheOK P (doPkg P w c n done p).1 := by
  unfold doPkg
  split
  · exact hc
  · rename_i dv _
    simp only
    split
    · exact hc
    · split
      · exact hc
      · rename_i v r han
        by_cases hi : p.initial = true
        · simp only [hi, if_true]
          simp only [hi, Bool.not_true] at han
          constructor
          · intro kv hkv
            rcases List.mem_cons.1 hkv with rfl | h
            · exact ⟨n, false, _, r, rfl, han⟩
            · exact hc.1 kv h
          · intro kr hkr
            rcases List.mem_cons.1 hkr with rfl | h
            · exact ⟨n, _, v, rfl, han⟩
            · exact hc.2 kr h
        · simp only [hi]
          constructor
          · intro kv hkv
            rcases List.mem_cons.1 hkv with rfl | h
            · exact ⟨n, _, _, r, rfl, han⟩
            · exact hc.1 kv h
          · exact hc.2

theorem runPkgs_cacheOK [DecidableEq D] (P : Params PD VD D) (w : World) (ps : List Pkg) :
    ∀ (c : Cache D) (n : Nat) (done : List (Pkg × Out)), CacheOK P c → CacheOK P (runPkgs P w c n done ps).1 := by
  induction ps with
  | nil => intro c n done hc; exact hc
  | cons p ps ih =>
    intro c n done hc
    unfold runPkgs
    exact ih _ _ _ (doPkg_cacheOK P w c n done p hc)

/-- **cache_inv**: an invocation started on a cache in which every entry is
`⟨key i, analyze i⟩` leaves such a cache; hence every cache reachable from the empty one by
any history of invocations on any worlds is of this form. -/
theorem cache_inv [DecidableEq D] (P : Params PD VD D) (c : Cache D) (n : Nat) (w : World)
    (hc : CacheOK P c) : CacheOK P (run P c n w).1 :=
  runPkgs_cacheOK P w w.pkgs c n [] hc

theorem cache_inv_history [DecidableEq D] (P : Params PD VD D) (ws : List World) :
    CacheOK P (cacheAfter P ws).1 := by
  induction ws with
  | nil => exact cacheOK_empty P
  | cons w ws ih => exact cache_inv P _ _ w ih

/-! ### one step: what `doPkg` returns, in terms of the analysis only -/

/-- The result of a package action is an analysis result for *its own* inputs, whether it
was computed now or served from the cache. -/
def StepSpec (P : Params PD VD D) (w : World) (done : List (Pkg × Out)) (p : Pkg) (o : Out) : Prop :=
  match depVetx done p.deps with
  | none => o = .failed []
  | some dv =>
    (∃ e n f, o = .failed e ∧ P.an n f (mkInputs w p dv) = .error e) ∨
    (∃ v ro, o = .ok v ro ∧ (∃ n f r, P.an n f (mkInputs w p dv) = .done v r) ∧
      (if p.initial = true then ∃ n v' r, P.an n false (mkInputs w p dv) = .done v' r ∧ ro = some r
       else ro = none))

theorem lookupAll_spec [DecidableEq D] (P : Params PD VD D)
    (hK : ∀ a b : AInputs, key P a = key P b → a = b)
    (c : Cache D) (hc : CacheOK P c) (ai : AInputs) (initial : Bool) (o : Out)
    (h : lookupAll c (key P ai) initial = some o) :
    ∃ v ro, o = .ok v ro ∧ (∃ n f r, P.an n f ai = .done v r) ∧
      (if initial = true then ∃ n v' r, P.an n false ai = .done v' r ∧ ro = some r else ro = none) := by
  unfold lookupAll at h
  split at h
  · simp at h
  · rename_i v hv
    obtain ⟨n, f, i, r, hk, han⟩ := hc.1 _ (find_mem hv)
    have hi : ai = i := hK _ _ hk
    subst hi
    by_cases hinit : initial = true
    · simp only [hinit, if_true] at h ⊢
      split at h
      · simp at h
      · rename_i r' hr'
        obtain ⟨n', i', v', hk', han'⟩ := hc.2 _ (find_mem hr')
        have hi' : ai = i' := hK _ _ hk'
        subst hi'
        have : o = .ok v (some r') := by simpa using h.symm
        exact ⟨v, some r', this, ⟨n, f, r, han⟩, ⟨n', v', r', han', rfl⟩⟩
    · simp only [hinit] at h ⊢
      have : o = .ok v none := by simpa using h.symm
      exact ⟨v, none, this, ⟨n, f, r, han⟩, by simp⟩

theorem doPkg_depfail [DecidableEq D] (P : Params PD VD D) (w : World) (c : Cache D) (n : Nat)
    (done : List (Pkg × Out)) (p : Pkg) (h : depVetx done p.deps = none) :
    doPkg P w c n done p = (c, n, .failed []) := by
  simp [doPkg, h]

theorem doPkg_hit [DecidableEq D] (P : Params PD VD D) (w : World) (c : Cache D) (n : Nat)
    (done : List (Pkg × Out)) (p : Pkg) (dv : List (String × Vetx)) (o : Out)
    (h : depVetx done p.deps = some dv)
    (hl : lookupAll c (key P (mkInputs w p dv)) p.initial = some o) :
    doPkg P w c n done p = (c, n, o) := by
  simp [doPkg, h, hl]

theorem doPkg_err [DecidableEq D] (P : Params PD VD D) (w : World) (c : Cache D) (n : Nat)
    (done : List (Pkg × Out)) (p : Pkg) (dv : List (String × Vetx)) (e : List String)
    (h : depVetx done p.deps = some dv)
    (hl : lookupAll c (key P (mkInputs w p dv)) p.initial = none)
    (ha : P.an n (!p.initial) (mkInputs w p dv) = .error e) :
    doPkg P w c n done p = (c, n + 1, .failed e) := by
  simp [doPkg, h, hl, ha]

theorem doPkg_done [DecidableEq D] (P : Params PD VD D) (w : World) (c : Cache D) (n : Nat)
    (done : List (Pkg × Out)) (p : Pkg) (dv : List (String × Vetx)) (v : Vetx) (r : Results)
    (h : depVetx done p.deps = some dv)
    (hl : lookupAll c (key P (mkInputs w p dv)) p.initial = none)
    (ha : P.an n (!p.initial) (mkInputs w p dv) = .done v r) :
    (doPkg P w c n done p).2.2 = .ok v (if p.initial = true then some r else none) := by
  cases hi : p.initial
  · rw [hi] at hl ha
    simp only [Bool.not_false] at ha
    simp [doPkg, h, hi, hl, ha]
  · rw [hi] at hl ha
    simp only [Bool.not_true] at ha
    simp [doPkg, h, hi, hl, ha]

theorem doPkg_spec [DecidableEq D] (P : Params PD VD D)
    (hK : ∀ a b : AInputs, key P a = key P b → a = b)
    (w : World) (c : Cache D) (n : Nat) (done : List (Pkg × Out)) (p : Pkg) (hc : CacheOK P c) :
    StepSpec P w done p (doPkg P w c n done p).2.2 := by
  unfold StepSpec
  cases hdv : depVetx done p.deps with
  | none => simp [doPkg_depfail P w c n done p hdv]
  | some dv =>
    simp only
    cases hl : lookupAll c (key P (mkInputs w p dv)) p.initial with
    | some o =>
      rw [doPkg_hit P w c n done p dv o hdv hl]
      right
      exact lookupAll_spec P hK c hc _ _ _ hl
    | none =>
      cases ha : P.an n (!p.initial) (mkInputs w p dv) with
      | error e =>
        rw [doPkg_err P w c n done p dv e hdv hl ha]
        left; exact ⟨e, n, _, rfl, ha⟩
      | done v r =>
        rw [doPkg_done P w c n done p dv v r hdv hl ha]
        right
        by_cases hi : p.initial = true
        · simp only [hi, if_true]
          simp only [hi, Bool.not_true] at ha
          exact ⟨v, some r, rfl, ⟨n, false, r, ha⟩, ⟨n, v, r, ha, rfl⟩⟩
        · simp only [hi]
          exact ⟨v, none, by simp, ⟨n, _, r, ha⟩, by simp⟩

/-! ### two runs of the same world from two well-formed caches agree -/

theorem depVetx_rel (eqv : Vetx → Vetx → Prop) {d1 d2 : List (Pkg × Out)}
    (h : AllRel (OutRel eqv) d1 d2) (ds : List Nat) :
    (depVetx d1 ds = none ∧ depVetx d2 ds = none) ∨
    ∃ a b, depVetx d1 ds = some a ∧ depVetx d2 ds = some b ∧ DepRel eqv a b := by
  induction ds with
  | nil => right; exact ⟨[], [], rfl, rfl, .nil⟩
  | cons d ds ih =>
    unfold depVetx
    rcases h.get d with ⟨h1, h2⟩ | ⟨x, y, h1, h2, hxy⟩
    · left; simp [h1, h2]
    · rw [h1, h2]
      obtain ⟨p1, o1⟩ := x
      obtain ⟨p2, o2⟩ := y
      cases o1 with
      | failed e1 =>
        cases o2 with
        | failed e2 => left; simp
        | ok v2 r2 => simp only [OutRel] at hxy
      | ok v1 r1 =>
        cases o2 with
        | failed e2 => simp only [OutRel] at hxy
        | ok v2 r2 =>
          simp only [OutRel] at hxy
          obtain ⟨hp, hv, _⟩ := hxy
          subst hp
          rcases ih with ⟨i1, i2⟩ | ⟨a, b, i1, i2, hab⟩
          · left; simp [i1, i2]
          · right
            exact ⟨(p1.src.pkgPath, v1) :: a, (p1.src.pkgPath, v2) :: b, by simp [i1], by simp [i2], .cons hv hab⟩

theorem step_rel (P : Params PD VD D) (eqv : Vetx → Vetx → Prop) (hA : Respects P.an eqv)
    (w : World) {d1 d2 : List (Pkg × Out)} (hd : AllRel (OutRel eqv) d1 d2) (p : Pkg) (o1 o2 : Out)
    (s1 : StepSpec P w d1 p o1) (s2 : StepSpec P w d2 p o2) : OutRel eqv (p, o1) (p, o2) := by
  unfold StepSpec at s1 s2
  rcases depVetx_rel eqv hd p.deps with ⟨h1, h2⟩ | ⟨a, b, h1, h2, hab⟩
  · rw [h1] at s1; rw [h2] at s2
    subst s1; subst s2; exact ⟨rfl, rfl⟩
  · rw [h1] at s1; rw [h2] at s2
    simp only at s1 s2
    have hin : InEq eqv (mkInputs w p a) (mkInputs w p b) :=
      ⟨rfl, rfl, rfl, rfl, rfl, rfl, rfl, hab⟩
    rcases s1 with ⟨e1, n1, f1, rfl, a1⟩ | ⟨v1, ro1, rfl, ⟨n1, f1, r1, a1⟩, t1⟩ <;>
    rcases s2 with ⟨e2, n2, f2, rfl, a2⟩ | ⟨v2, ro2, rfl, ⟨n2, f2, r2, a2⟩, t2⟩
    · have := hA n1 n2 f1 f2 _ _ hin
      rw [a1, a2] at this
      exact ⟨rfl, this⟩
    · have := hA n1 n2 f1 f2 _ _ hin
      rw [a1, a2] at this
      exact this.elim
    · have := hA n1 n2 f1 f2 _ _ hin
      rw [a1, a2] at this
      exact this.elim
    · have hv := hA n1 n2 f1 f2 _ _ hin
      rw [a1, a2] at hv
      refine ⟨rfl, hv.1, ?_⟩
      by_cases hi : p.initial = true
      · simp only [hi, if_true] at t1 t2
        obtain ⟨m1, w1, q1, b1, rfl⟩ := t1
        obtain ⟨m2, w2, q2, b2, rfl⟩ := t2
        have hr := hA m1 m2 false false _ _ hin
        rw [b1, b2] at hr
        rw [hr.2 rfl rfl]
      · simp only [hi] at t1 t2
        simp at t1 t2
        rw [t1, t2]

theorem runPkgs_rel [DecidableEq D] (P : Params PD VD D) (eqv : Vetx → Vetx → Prop)
    (hK : ∀ a b : AInputs, key P a = key P b → a = b) (hA : Respects P.an eqv) (w : World)
    (ps : List Pkg) :
    ∀ (c1 c2 : Cache D) (n1 n2 : Nat) (d1 d2 : List (Pkg × Out)),
      CacheOK P c1 → CacheOK P c2 → AllRel (OutRel eqv) d1 d2 →
      AllRel (OutRel eqv) (runPkgs P w c1 n1 d1 ps).2.2 (runPkgs P w c2 n2 d2 ps).2.2 := by
  induction ps with
  | nil => intro c1 c2 n1 n2 d1 d2 _ _ hd; exact hd
  | cons p ps ih =>
    intro c1 c2 n1 n2 d1 d2 h1 h2 hd
    unfold runPkgs
    apply ih
    · exact doPkg_cacheOK P w c1 n1 d1 p h1
    · exact doPkg_cacheOK P w c2 n2 d2 p h2
    · exact hd.snoc (step_rel P eqv hA w hd p _ _ (doPkg_spec P hK w c1 n1 d1 p h1)
        (doPkg_spec P hK w c2 n2 d2 p h2))

theorem report_rel (eqv : Vetx → Vetx → Prop) (sel : List String → String → Bool)
    {d1 d2 : List (Pkg × Out)} (h : AllRel (OutRel eqv) d1 d2) : report sel d1 = report sel d2 := by
  unfold report
  induction h with
  | nil => rfl
  | @cons x y l1 l2 hab _ ih =>
    simp only [List.flatMap_cons, ih]
    congr 1
    obtain ⟨p1, o1⟩ := x
    obtain ⟨p2, o2⟩ := y
    cases o1 with
    | failed e1 =>
      cases o2 with
      | failed e2 => simp only [OutRel] at hab; obtain ⟨rfl, rfl⟩ := hab; rfl
      | ok v2 r2 => simp only [OutRel] at hab
    | ok v1 r1 =>
      cases o2 with
      | failed e2 => simp only [OutRel] at hab
      | ok v2 r2 =>
        simp only [OutRel] at hab
        obtain ⟨rfl, _, rfl⟩ := hab
        cases r1 <;> rfl

/-- Two invocations on the same world, started from any two caches whose entries are all of
the form `⟨key i, analyze i⟩` and with any nonces, report the same problems. -/
theorem run_report_eq [DecidableEq D] (P : Params PD VD D) (eqv : Vetx → Vetx → Prop)
    (hHp : Inj P.Hp) (hV : Inj P.vhash) (hH : Inj P.H) (hA : Respects P.an eqv)
    (sel : List String → String → Bool) (c1 c2 : Cache D) (n1 n2 : Nat) (w : World)
    (h1 : CacheOK P c1) (h2 : CacheOK P c2) :
    report sel (run P c1 n1 w).2.2 = report sel (run P c2 n2 w).2.2 :=
  report_rel eqv sel
    (runPkgs_rel P eqv (fun _ _ => key_inj P hHp hV hH) hA w w.pkgs c1 c2 n1 n2 [] [] h1 h2 .nil)

/-- **warm_eq_cold** (C04): for every history `ws` of invocations on arbitrary worlds
(arbitrary source, dependency, configuration, flag and environment changes in between) that
share one cache, an invocation on any world `w` with the resulting cache reports exactly
what an invocation on `w` with an empty cache reports. -/
theorem warm_eq_cold [DecidableEq D] (P : Params PD VD D) (eqv : Vetx → Vetx → Prop)
    (hHp : Inj P.Hp) (hV : Inj P.vhash) (hH : Inj P.H) (hA : Respects P.an eqv)
    (sel : List String → String → Bool) (ws : List World) (w : World) (n' : Nat) :
    report sel (run P (cacheAfter P ws).1 (cacheAfter P ws).2 w).2.2 =
      report sel (run P Cache.empty n' w).2.2 :=
  run_report_eq P eqv hHp hV hH hA sel _ _ _ _ w (cache_inv_history P ws) (cacheOK_empty P)

/-- The deterministic reading of the design: `analyze : Inputs → Vetx × Results` a function. -/
theorem respects_of_function (analyze : AInputs → Outcome) :
    Respects (fun _ _ i => analyze i) Eq := by
  intro n n' f f' i i' h
  obtain ⟨h1, h2, h3, h4, h5, h6, h7, h8⟩ := h
  have hd : i.depVetx = i'.depVetx := by
    generalize i.depVetx = a at h8
    generalize i'.depVetx = b at h8
    induction h8 with
    | nil => rfl
    | cons hv _ ih => rw [hv, ih]
  have : i = i' := by cases i; cases i'; simp_all
  subst this
  show OutcomeRel Eq f f' (analyze i) (analyze i)
  cases analyze i <;> simp [OutcomeRel]

theorem warm_eq_cold_det [DecidableEq D] (Hp : List PComp → PD) (vhash : Vetx → VD)
    (H : List (KComp PD VD) → D) (analyze : AInputs → Outcome)
    (hHp : Inj Hp) (hV : Inj vhash) (hH : Inj H)
    (sel : List String → String → Bool) (ws : List World) (w : World) (n' : Nat) :
    let P : Params PD VD D := ⟨Hp, vhash, H, fun _ _ i => analyze i⟩
    report sel (run P (cacheAfter P ws).1 (cacheAfter P ws).2 w).2.2 =
      report sel (run P Cache.empty n' w).2.2 :=
  warm_eq_cold ⟨Hp, vhash, H, fun _ _ i => analyze i⟩ Eq hHp hV hH (respects_of_function analyze) sel ws w n'

/-! ### `Checks` is not part of the key, and need not be -/

def Pkg.eraseChecks (p : Pkg) : Pkg := { p with checks := [] }
def World.eraseChecks (w : World) : World := { w with pkgs := w.pkgs.map Pkg.eraseChecks }
def eraseOut (x : Pkg × Out) : Pkg × Out := (x.1.eraseChecks, x.2)

theorem depVetx_erase (done : List (Pkg × Out)) (ds : List Nat) :
    depVetx (done.map eraseOut) ds = depVetx done ds := by
  induction ds with
  | nil => rfl
  | cons d ds ih =>
    unfold depVetx
    rw [ih]
    simp only [List.getElem?_map]
    cases h : done[d]? with
    | none => rfl
    | some x =>
      obtain ⟨p, o⟩ := x
      cases o <;> rfl

theorem doPkg_erase [DecidableEq D] (P : Params PD VD D) (w : World) (c : Cache D) (n : Nat)
    (done : List (Pkg × Out)) (p : Pkg) :
    doPkg P w.eraseChecks c n (done.map eraseOut) p.eraseChecks = doPkg P w c n done p := by
  unfold doPkg
  rw [show p.eraseChecks.deps = p.deps from rfl, depVetx_erase]
  rfl

theorem runPkgs_erase [DecidableEq D] (P : Params PD VD D) (w : World) (ps : List Pkg) :
    ∀ (c : Cache D) (n : Nat) (done : List (Pkg × Out)),
      runPkgs P w.eraseChecks c n (done.map eraseOut) (ps.map Pkg.eraseChecks) =
        ((runPkgs P w c n done ps).1, (runPkgs P w c n done ps).2.1,
          (runPkgs P w c n done ps).2.2.map eraseOut) := by
  induction ps with
  | nil => intro c n done; rfl
  | cons p ps ih =>
    intro c n done
    simp only [List.map_cons]
    unfold runPkgs
    simp only [doPkg_erase]
    have := ih (doPkg P w c n done p).1 (doPkg P w c n done p).2.1 (done ++ [(p, (doPkg P w c n done p).2.2)])
    simpa [eraseOut] using this

/-- **checks_not_in_key_ok**: the cache contents, the set of analyses performed and every
package result are independent of `Checks`; two worlds that differ only in `Checks`
(`-checks`, `checks = […]` in any staticcheck.conf) leave the same cache and produce the same
per-package results, so the report depends on `Checks` only through the post-filter
`sel p.checks` of `report`. -/
theorem checks_not_in_key_ok [DecidableEq D] (P : Params PD VD D) (c : Cache D) (n : Nat)
    (w w' : World) (h : w.eraseChecks = w'.eraseChecks) :
    (run P c n w).1 = (run P c n w').1 ∧ (run P c n w).2.1 = (run P c n w').2.1 ∧
    (run P c n w).2.2.map eraseOut = (run P c n w').2.2.map eraseOut := by
  have e1 := runPkgs_erase P w w.pkgs c n []
  have e2 := runPkgs_erase P w' w'.pkgs c n []
  have hp : w.pkgs.map Pkg.eraseChecks = w'.pkgs.map Pkg.eraseChecks := by
    have := congrArg World.pkgs h
    simpa [World.eraseChecks] using this
  rw [h, hp] at e1
  simp only [List.map_nil] at e1 e2
  rw [e2] at e1
  unfold run
  have a1 := congrArg (·.1) e1
  have a2 := congrArg (·.2.1) e1
  have a3 := congrArg (·.2.2) e1
  exact ⟨a1.symm, a2.symm, a3.symm⟩

/-- The report is the per-package post-filter of results that do not depend on `Checks`. -/
theorem report_uses_checks_only_in_filter (sel : List String → String → Bool) (outs : List (Pkg × Out)) :
    report sel outs = outs.flatMap (fun x =>
      match x.2 with
      | .failed errs => errs.map (fun e => ⟨"compile", e⟩)
      | .ok _ (some r) => if x.1.initial then r.filter (fun d => sel x.1.checks d.check) else []
      | .ok _ none => []) := by
  unfold report
  congr 1
  funext x
  obtain ⟨p, o⟩ := x
  cases o with
  | failed e => rfl
  | ok v ro => cases ro <;> rfl

/-! ### generated-facts obligation: the observed key components cover the model's inputs -/

/-- Every tag the model's `serialise` relies on was observed (at run time, via
`GODEBUG=gocachehash=1`) among the components the real `subrunner.do` writes. -/
theorem key_covers_inputs : ∀ t ∈ requiredTags, t ∈ Gen.observedActionTags := by decide

theorem pkg_key_covers_inputs : ∀ t ∈ requiredPkgTags, t ∈ Gen.observedPkgTags := by decide

/-- …and `requiredTags` really is what `serialise` emits (so the obligation above is about
the model's key, not about a list written next to it). -/
theorem serialise_tags (k : Inputs PD VD) :
    ∀ t ∈ (serialise k).map KComp.tag, t ∈ requiredTags ∨ t = "extra" := by
  intro t ht
  simp only [serialise, List.map_append, List.map_cons, List.map_nil, List.map_map, List.mem_append,
    List.mem_cons, List.mem_map] at ht
  rcases ht with h | h | h
  · rcases h with h | h | h | h | h | h | h <;>
      first | (subst h; left; simp [KComp.tag, requiredTags]) | (cases h)
  · obtain ⟨_, _, rfl⟩ := h; right; rfl
  · obtain ⟨_, _, rfl⟩ := h; left; simp [KComp.tag, requiredTags]

theorem serialise_emits_required (k : Inputs PD VD) (h : k.depVetx ≠ []) :
    ∀ t ∈ requiredTags, t ∈ (serialise k).map KComp.tag := by
  intro t ht
  have hv : "vetout" ∈ (serialise k).map KComp.tag := by
    cases hd : k.depVetx with
    | nil => exact absurd hd h
    | cons x xs => simp [serialise, hd, KComp.tag]
  simp only [requiredTags, List.mem_cons, List.not_mem_nil, or_false] at ht
  rcases ht with rfl | rfl | rfl | rfl | rfl | rfl | rfl
  all_goals first | exact hv | simp [serialise, KComp.tag]

theorem serialisePkg_tags (s : String) (p : PkgSrc) :
    ∀ t ∈ (serialisePkg s p).map PComp.tag, t ∈ requiredPkgTags ∨ t = "extra" := by
  intro t ht
  simp only [serialisePkg, List.map_append, List.map_cons, List.map_nil, List.map_map, List.mem_append,
    List.mem_cons, List.mem_map] at ht
  rcases ht with h | h | h | h
  · rcases h with h | h | h | h <;>
      first | (subst h; left; simp [PComp.tag, requiredPkgTags]) | (cases h)
  · obtain ⟨_, _, rfl⟩ := h; left; simp [PComp.tag, requiredPkgTags]
  · obtain ⟨_, _, rfl⟩ := h; right; rfl
  · obtain ⟨_, _, rfl⟩ := h; left; simp [PComp.tag, requiredPkgTags]

/-! ### non-vacuity: a concrete instance meeting every hypothesis, with real cache hits -/
namespace Example

abbrev PD0 := List PComp
abbrev VD0 := Vetx
abbrev D0 := List (KComp PD0 VD0)

def analyze0 (i : AInputs) : Outcome :=
  if i.goVersion = "bad" then .error ["type error"]
  else .done (i.pkg.pkgPath ++ "#" ++ i.cfg ++ String.join (i.depVetx.map (·.2)))
    [⟨"SA1019", i.pkg.pkgPath ++ i.goVersion⟩, ⟨"ST1003", i.cfg⟩]

/-- structural "hashes": injective by construction -/
def P0 : Params PD0 VD0 D0 := ⟨id, id, id, fun _ _ i => analyze0 i⟩
def leaf : Pkg := ⟨⟨"linux", "amd64", "m/dep", ["f1"], [], []⟩, "cfgA", ["all"], true, [], []⟩
def top (files : String) (checks : List String) : Pkg :=
  ⟨⟨"linux", "amd64", "m/app", [files], [("m/dep", "id1")], []⟩, "cfgA", checks, true, [0], []⟩
def w0 : World := ⟨"salt", "A,B", "module", "", [leaf, top "f2" ["SA1019"]]⟩
/-- the target was edited -/
def w1 : World := ⟨"salt", "A,B", "module", "", [leaf, top "f2-edited" ["SA1019"]]⟩
/-- only `Checks` changed -/
def w2 : World := ⟨"salt", "A,B", "module", "", [leaf, top "f2" ["all"]]⟩
def sel0 (checks : List String) (c : String) : Bool := checks.contains "all" || checks.contains c

example : Inj P0.Hp ∧ Inj P0.vhash ∧ Inj P0.H := ⟨fun _ _ h => h, fun _ _ h => h, fun _ _ h => h⟩
example : Respects P0.an Eq := respects_of_function analyze0
-- the hypotheses of `cache_inv` / `warm_eq_cold` are met by a cache that is not empty:
example : (cacheAfter P0 [w0]).1.vet.length = 2 ∧ (cacheAfter P0 [w0]).2 = 2 := by decide
-- second run on the unchanged world: both actions hit (the nonce does not advance)
example : (run P0 (cacheAfter P0 [w0]).1 (cacheAfter P0 [w0]).2 w0).2.1 = 2 := by decide
-- after an edit of the target only the target is analysed; the dependency is a hit although the world changed
example : (run P0 (cacheAfter P0 [w0]).1 (cacheAfter P0 [w0]).2 w1).2.1 = 3 := by decide
-- revert to an earlier state: everything hits
example : (run P0 (cacheAfter P0 [w1, w0]).1 (cacheAfter P0 [w1, w0]).2 w0).2.1 = 3 := by decide
-- changed Checks: everything hits, the report changes through the filter only
example : (run P0 (cacheAfter P0 [w0]).1 (cacheAfter P0 [w0]).2 w2).2.1 = 2 := by decide
example : report sel0 (run P0 (cacheAfter P0 [w0]).1 (cacheAfter P0 [w0]).2 w2).2.2 =
    [⟨"SA1019", "m/depmodule"⟩, ⟨"ST1003", "cfgA"⟩, ⟨"SA1019", "m/appmodule"⟩, ⟨"ST1003", "cfgA"⟩] := by decide
example : w0.eraseChecks = w2.eraseChecks := by decide
-- warm = cold on this instance, as an instance of the theorem
example : report sel0 (run P0 (cacheAfter P0 [w1, w0]).1 (cacheAfter P0 [w1, w0]).2 w2).2.2 =
    report sel0 (run P0 Cache.empty 0 w2).2.2 :=
  warm_eq_cold P0 Eq (fun _ _ h => h) (fun _ _ h => h) (fun _ _ h => h) (respects_of_function analyze0) sel0 _ _ _
-- the key is sensitive to every modelled input (here: the Go version)
example : key P0 (mkInputs w0 leaf []) ≠ key P0 (mkInputs { w0 with goVersion := "1.3" } leaf []) := by decide

end Example

end Verif.C04
