import Verif.C04.Model
/-! Helper lemmas for C04 (no property statements here): list splitting, injectivity of the
two serialisations and of `key`, the pointwise relation on lists. -/
namespace Verif.C04

variable {PD VD D : Type}

/-- Injectivity (core Lean only; `Function.Injective` without Mathlib lemmas is not needed). -/
def Inj {α β : Type} (f : α → β) : Prop := ∀ a b, f a = f b → a = b

/-! ### lists -/

theorem split_by {α : Type} (p : α → Bool) :
    ∀ {l1 l2 r1 r2 : List α},
      (∀ x ∈ l1, p x = true) → (∀ x ∈ l2, p x = true) →
      (∀ x ∈ r1, p x = false) → (∀ x ∈ r2, p x = false) →
      l1 ++ r1 = l2 ++ r2 → l1 = l2 ∧ r1 = r2
  | [], [], _, _, _, _, _, _, h => ⟨rfl, by simpa using h⟩
  | [], y :: l2, r1, r2, _, h2, g1, _, h => by
    have hy : y ∈ r1 := by
      have : r1 = y :: (l2 ++ r2) := by simpa using h
      rw [this]; exact List.mem_cons_self
    have := g1 y hy
    have := h2 y List.mem_cons_self
    simp_all
  | x :: l1, [], r1, r2, h1, _, _, g2, h => by
    have hx : x ∈ r2 := by
      have : r2 = x :: (l1 ++ r1) := by simpa using h.symm
      rw [this]; exact List.mem_cons_self
    have := g2 x hx
    have := h1 x List.mem_cons_self
    simp_all
  | x :: l1, y :: l2, r1, r2, h1, h2, g1, g2, h => by
    have hh : x = y ∧ l1 ++ r1 = l2 ++ r2 := by simpa using h
    have ih := split_by p (l1 := l1) (l2 := l2) (r1 := r1) (r2 := r2)
      (fun z hz => h1 z (List.mem_cons_of_mem _ hz)) (fun z hz => h2 z (List.mem_cons_of_mem _ hz)) g1 g2 hh.2
    exact ⟨by rw [hh.1, ih.1], ih.2⟩

theorem map_inj {α β : Type} (f : α → β) (hf : Inj f) : ∀ {l1 l2 : List α}, l1.map f = l2.map f → l1 = l2
  | [], [], _ => rfl
  | [], _ :: _, h => by simp at h
  | _ :: _, [], h => by simp at h
  | a :: l1, b :: l2, h => by
    have hh : f a = f b ∧ l1.map f = l2.map f := by simpa using h
    rw [hf a b hh.1, map_inj f hf hh.2]

/-- Pointwise relation of two lists (`List.Forall₂`, restated to stay in core). -/
inductive AllRel {α β : Type} (R : α → β → Prop) : List α → List β → Prop
  | nil : AllRel R [] []
  | cons {a b l1 l2} : R a b → AllRel R l1 l2 → AllRel R (a :: l1) (b :: l2)

theorem AllRel.snoc {α β : Type} {R : α → β → Prop} {l1 : List α} {l2 : List β} {a : α} {b : β}
    (h : AllRel R l1 l2) (hab : R a b) : AllRel R (l1 ++ [a]) (l2 ++ [b]) := by
  induction h with
  | nil => exact .cons hab .nil
  | cons h _ ih => exact .cons h ih

theorem AllRel.get {α β : Type} {R : α → β → Prop} {l1 : List α} {l2 : List β}
    (h : AllRel R l1 l2) (i : Nat) :
    (l1[i]? = none ∧ l2[i]? = none) ∨ ∃ a b, l1[i]? = some a ∧ l2[i]? = some b ∧ R a b := by
  induction h generalizing i with
  | nil => left; simp
  | cons hab _ ih =>
    cases i with
    | zero => right; exact ⟨_, _, by simp, by simp, hab⟩
    | succ j => simpa using ih j

theorem find_mem {α β : Type} [DecidableEq α] {k : α} {v : β} :
    ∀ {l : List (α × β)}, find k l = some v → (k, v) ∈ l
  | [], h => by simp [find] at h
  | (k', v') :: rest, h => by
    unfold find at h
    split at h
    · rename_i hk
      have : v' = v := by simpa using h
      subst hk; subst this; exact List.mem_cons_self
    · exact List.mem_cons_of_mem _ (find_mem h)

/-! ### the serialisations are injective -/

private def isFiles : PComp → Bool | .files _ => true | _ => false
private def isPExtra : PComp → Bool | .extra _ _ => true | _ => false

theorem serialisePkg_inj {s s' : String} {p p' : PkgSrc}
    (h : serialisePkg s p = serialisePkg s' p') : s = s' ∧ p = p' := by
  unfold serialisePkg at h
  have h0 : s = s' ∧ (p.goos = p'.goos ∧ p.goarch = p'.goarch) ∧ p.pkgPath = p'.pkgPath ∧
      p.files.map PComp.files ++ (p.extra.map (fun x => PComp.extra x.1 x.2) ++ p.imports.map (fun x => PComp.imp x.1 x.2)) =
      p'.files.map PComp.files ++ (p'.extra.map (fun x => PComp.extra x.1 x.2) ++ p'.imports.map (fun x => PComp.imp x.1 x.2)) := by
    simpa using h
  obtain ⟨hs, ⟨hgoos, hgoarch⟩, hpath, hrest⟩ := h0
  have e1 := split_by isFiles (l1 := p.files.map PComp.files) (l2 := p'.files.map PComp.files)
    (by intro x hx; simp at hx; obtain ⟨_, _, rfl⟩ := hx; rfl)
    (by intro x hx; simp at hx; obtain ⟨_, _, rfl⟩ := hx; rfl)
    (by intro x hx; simp at hx; rcases hx with ⟨_, _, _, rfl⟩ | ⟨_, _, _, rfl⟩ <;> rfl)
    (by intro x hx; simp at hx; rcases hx with ⟨_, _, _, rfl⟩ | ⟨_, _, _, rfl⟩ <;> rfl)
    hrest
  have e2 := split_by isPExtra (l1 := p.extra.map (fun x => PComp.extra x.1 x.2))
    (l2 := p'.extra.map (fun x => PComp.extra x.1 x.2))
    (by intro x hx; simp at hx; obtain ⟨_, _, _, rfl⟩ := hx; rfl)
    (by intro x hx; simp at hx; obtain ⟨_, _, _, rfl⟩ := hx; rfl)
    (by intro x hx; simp at hx; obtain ⟨_, _, _, rfl⟩ := hx; rfl)
    (by intro x hx; simp at hx; obtain ⟨_, _, _, rfl⟩ := hx; rfl)
    e1.2
  have f1 : p.files = p'.files := map_inj PComp.files (by intro a b h; simpa using h) e1.1
  have f2 : p.extra = p'.extra :=
    map_inj (fun x : String × String => PComp.extra x.1 x.2)
      (by intro a b h; cases a; cases b; simp at h; simp [h]) e2.1
  have f3 : p.imports = p'.imports :=
    map_inj (fun x : String × String => PComp.imp x.1 x.2)
      (by intro a b h; cases a; cases b; simp at h; simp [h]) e2.2
  refine ⟨hs, ?_⟩
  cases p; cases p'; simp_all

private def isKExtra : KComp PD VD → Bool | .extra _ _ => true | _ => false

theorem serialise_inj {k k' : Inputs PD VD} (h : serialise k = serialise k') : k = k' := by
  unfold serialise at h
  have h0 : k.salt = k'.salt ∧ k.cfg = k'.cfg ∧ k.pkg = k'.pkg ∧ k.analyzers = k'.analyzers ∧
      k.goVersion = k'.goVersion ∧ k.env = k'.env ∧
      k.extra.map (fun x => (KComp.extra x.1 x.2 : KComp PD VD)) ++ k.depVetx.map (fun x => KComp.vetout x.1 x.2) =
      k'.extra.map (fun x => (KComp.extra x.1 x.2 : KComp PD VD)) ++ k'.depVetx.map (fun x => KComp.vetout x.1 x.2) := by
    simpa using h
  obtain ⟨h1, h2, h3, h4, h5, h6, hrest⟩ := h0
  have e := split_by (isKExtra (PD := PD) (VD := VD))
    (by intro x hx; simp at hx; obtain ⟨_, _, _, rfl⟩ := hx; rfl)
    (by intro x hx; simp at hx; obtain ⟨_, _, _, rfl⟩ := hx; rfl)
    (by intro x hx; simp at hx; obtain ⟨_, _, _, rfl⟩ := hx; rfl)
    (by intro x hx; simp at hx; obtain ⟨_, _, _, rfl⟩ := hx; rfl)
    hrest
  have f1 : k.extra = k'.extra :=
    map_inj (fun x : String × String => (KComp.extra x.1 x.2 : KComp PD VD))
      (by intro a b h; cases a; cases b; simp at h; simp [h]) e.1
  have f2 : k.depVetx = k'.depVetx :=
    map_inj (fun x : String × VD => (KComp.vetout x.1 x.2 : KComp PD VD))
      (by intro a b h; cases a; cases b; simp at h; simp [h]) e.2
  cases k; cases k'; simp_all

/-! ### named inputs -/

theorem restrict_eq_iff (names : List String) (a b : Named) :
    restrict names a = restrict names b ↔ ∀ n ∈ names, find n a = find n b := by
  unfold restrict
  rw [List.map_inj_left]
  constructor
  · intro h n hn
    have := h n hn
    simpa using this
  · intro h n hn
    rw [h n hn]

/-- A reader of fewer names sees no more: if `r ⊆ h`, equal `h`-views give equal `r`-views. -/
theorem restrict_mono {r h : List String} (hs : ∀ n ∈ r, n ∈ h) {a b : Named}
    (e : restrict h a = restrict h b) : restrict r a = restrict r b := by
  rw [restrict_eq_iff] at e ⊢
  intro n hn
  exact e n (hs n hn)

/-- The action key determines every input it serialises, given injective hashes. -/
theorem key_inj (P : Params PD VD D) (hHp : Inj P.Hp) (hV : Inj P.vhash) (hH : Inj P.H)
    {a b : AInputs} (h : key P a = key P b) : a = b := by
  have h1 := serialise_inj (hH _ _ h)
  unfold toKey at h1
  have h2 : a.salt = b.salt ∧ a.cfg = b.cfg ∧
      P.Hp (serialisePkg a.salt a.pkg) = P.Hp (serialisePkg b.salt b.pkg) ∧ a.analyzers = b.analyzers ∧
      a.goVersion = b.goVersion ∧ a.env = b.env ∧
      a.depVetx.map (fun x => (x.1, P.vhash x.2)) = b.depVetx.map (fun x => (x.1, P.vhash x.2)) ∧
      a.extra = b.extra := by
    simpa using h1
  obtain ⟨g1, g2, g3, g4, g5, g6, g7, g8⟩ := h2
  have g3' := (serialisePkg_inj (hHp _ _ g3)).2
  have g7' : a.depVetx = b.depVetx :=
    map_inj (fun x : String × Vetx => (x.1, P.vhash x.2))
      (by intro x y h; cases x; cases y; simp at h; simp [h.1, hV _ _ h.2]) g7
  cases a; cases b; simp_all

end Verif.C04
