import Verif.C08.Driver
def main : IO UInt32 := do
  Verif.Proto.runLines Verif.C08.step
  return 0
